// C09 harness: runs a history of calls on one libphysica::Interpolation / Interpolation_2D object and, for
// every query, also asks a freshly constructed object (same table, prefactor set to the product of the
// Set_Prefactor / Multiply calls so far) and, for Interpolate / Derivative, a fresh object with prefactor 1.
// Every object (used, fresh, prefactor-free) is built by the constructor overload and with the unit arguments the case names:
// v<argc> = Interpolation(xs, ys[, x_dim[, f_dim]]), r<argc> = Interpolation(rows[, x_dim[, f_dim]]),
// g<argc> = Interpolation_2D(xs, ys, f[, x_dim[, y_dim[, f_dim]]]), t<argc> = Interpolation_2D(rows (x,y,f)[, ...]);
// argc = number of unit arguments passed explicitly (the others are left to the default arguments).
// h1 / h2: one object and its copies; s1 / s2: sessions of several objects holding several tables (see `session` below).
// Case grammar and output tokens: see checks/C09.py.
#include "common.hpp"
#include "libphysica/Numerics.hpp"
#include <fstream>
#include <memory>
#include <unistd.h>
using namespace libphysica;

// ---- Save_Function: the file it writes is an output of the object.  The harness lets the object write a scratch file, reads it
// back and prints, per row, the fields of the file verbatim (t:<text>) followed by the argument the row belongs to (computed here, not
// by the library: min + k * ((max - min) / (points - 1.0)), the single point min if points < 2 or min == max) and what fresh objects
// return for that single argument.
static std::string scratch_file()
{
	static int counter = 0;
	const char* d = getenv("TMPDIR");
	return std::string(d ? d : "/tmp") + "/verif_C09_save_" + std::to_string((long) getpid()) + "_" + std::to_string(counter++) + ".txt";
}
static std::vector<std::vector<std::string>> read_rows(const std::string& fn)
{
	std::vector<std::vector<std::string>> rows;
	std::ifstream in(fn);
	std::string line;
	while(std::getline(in, line))
	{
		std::vector<std::string> fields(1);
		for(char ch : line)
		{
			if(ch == '\t')
				fields.emplace_back();
			else if(ch == ' ' || ch == '\r')
				fields.back() += '?';	// no field of a well-formed row holds white space
			else
				fields.back() += ch;
		}
		rows.push_back(fields);
	}
	in.close();
	std::remove(fn.c_str());
	return rows;
}
static std::vector<double> points_of(double mn, double mx, long points)
{
	std::vector<double> p;
	if(points < 2 || mn == mx)
		return {mn};
	double step = (mx - mn) / ((double) points - 1.0);
	for(long k = 0; k < points; k++)
		p.push_back(mn + (double) k * step);
	return p;
}
static void put_fields(vh::Out& o, const std::vector<std::string>& row, size_t want)
{
	for(size_t k = 0; k < want; k++)
		o.w(row.size() == want ? "t:" + row[k] : std::string("t:!malformed-row"));
}

struct Ctor
{
	char kind = 'v';
	int argc  = 0;
	double dim[3] = {-1.0, -1.0, -1.0};
	bool read(vh::Reader& r, int ndims)
	{
		std::string w = r.word();
		if(w.size() != 2)
			return false;
		kind = w[0];
		argc = w[1] - '0';
		if(argc < 0 || argc > ndims)
			return false;
		for(int k = 0; k < argc; k++)
			dim[k] = r.num();
		return true;
	}
};

struct Maker1
{
	Ctor c;
	std::vector<double> xs, ys;
	std::vector<std::vector<double>> rows;
	Interpolation make() const
	{
		if(c.kind == 'r')
		{
			if(c.argc == 0)
				return Interpolation(rows);
			if(c.argc == 1)
				return Interpolation(rows, c.dim[0]);
			return Interpolation(rows, c.dim[0], c.dim[1]);
		}
		if(c.argc == 0)
			return Interpolation(xs, ys);
		if(c.argc == 1)
			return Interpolation(xs, ys, c.dim[0]);
		return Interpolation(xs, ys, c.dim[0], c.dim[1]);
	}
	bool read(vh::Reader& r)
	{
		if(!c.read(r, 2) || (c.kind != 'v' && c.kind != 'r'))
			return false;
		xs = r.list();
		ys = r.list();
		if(c.kind == 'r')
			for(size_t i = 0; i < xs.size() && i < ys.size(); i++)
				rows.push_back({xs[i], ys[i]});
		return true;
	}
};

// one member call `w` on the object cur (built by mk, prefactor pf so far); 0 = not a member call, 1 = done, -1 = harness error
static int query1(const std::string& w, vh::Reader& r, vh::Out& o, Interpolation* cur, double& pf, const Maker1& mk)
{
	auto fresh = [&]() {
		Interpolation f = mk.make();
		f.Set_Prefactor(pf);
		return f;
	};
	if(w == "L")
	{
		double x	   = r.num();
		unsigned int j = cur->Locate(x);
		Interpolation f = fresh();
		o.i(j);
		o.i(f.Locate(x));
	}
	else if(w == "I" || w == "O")
	{
		double x = r.num();
		double v = (w == "I") ? cur->Interpolate(x) : (*cur)(x);
		Interpolation f = fresh();
		Interpolation b = mk.make();
		o.f(v);
		o.f((w == "I") ? f.Interpolate(x) : f(x));
		o.f((w == "I") ? b.Interpolate(x) : b(x));
	}
	else if(w == "D")
	{
		double x = r.num();
		long d	 = r.integer();
		double v = cur->Derivative(x, (unsigned int) d);
		Interpolation f = fresh();
		Interpolation b = mk.make();
		o.f(v);
		o.f(f.Derivative(x, (unsigned int) d));
		o.f(b.Derivative(x, (unsigned int) d));
	}
	else if(w == "d")	// the default argument of Derivative
	{
		double x = r.num();
		double v = cur->Derivative(x);
		Interpolation f = fresh();
		Interpolation b = mk.make();
		o.f(v);
		o.f(f.Derivative(x));
		o.f(b.Derivative(x, 1u));	// what the default argument stands for: the first derivative
	}
	else if(w == "G" || w == "m" || w == "M")
	{
		double a = r.num(), b = r.num();
		Interpolation f = fresh();
		Interpolation b1 = mk.make(), b2 = mk.make();
		if(w == "G")
		{
			o.f(cur->Integrate(a, b));
			o.f(f.Integrate(a, b));
			o.f(b1.Integrate(a, b));
		}
		else
		{
			o.f(w == "m" ? cur->Local_Minimum(a, b) : cur->Local_Maximum(a, b));
			o.f(w == "m" ? f.Local_Minimum(a, b) : f.Local_Maximum(a, b));
			o.f(b1.Local_Minimum(a, b));
			o.f(b2.Local_Maximum(a, b));
		}
	}
	else if(w == "gm" || w == "gM")
	{
		Interpolation f = fresh();
		Interpolation b1 = mk.make(), b2 = mk.make();
		o.f(w == "gm" ? cur->Global_Minimum() : cur->Global_Maximum());
		o.f(w == "gm" ? f.Global_Minimum() : f.Global_Maximum());
		o.f(b1.Global_Minimum());
		o.f(b2.Global_Maximum());
	}
	else if(w == "Q")	// the public data member domain
	{
		if(cur->domain.size() != 2)
		{
			o.w("HARNESSERR domain_size");
			return -1;
		}
		o.f(cur->domain[0]);
		o.f(cur->domain[1]);
	}
	else if(w == "P")
	{
		double f = r.num();
		cur->Set_Prefactor(f);
		pf = f;
		o.f(pf);
	}
	else if(w == "U")
	{
		double f = r.num();
		cur->Multiply(f);
		pf *= f;
		o.f(pf);
	}
	else if(w == "F")	// Save_Function(file, points)
	{
		long n		   = r.integer();
		std::string fn = scratch_file();
		cur->Save_Function(fn, (unsigned int) n);
		auto rows				= read_rows(fn);
		std::vector<double> pts = points_of(cur->domain[0], cur->domain[1], n);
		o.i((long) rows.size());
		for(size_t k = 0; k < rows.size(); k++)
		{
			put_fields(o, rows[k], 2);
			double x = k < pts.size() ? pts[k] : std::nan("");
			o.f(x);
			if(k < pts.size())
			{
				Interpolation f = fresh();
				Interpolation b = mk.make();
				o.f(f.Interpolate(x));
				o.f(b.Interpolate(x));
			}
			else
			{
				o.f(std::nan(""));
				o.f(std::nan(""));
			}
		}
	}
	else
		return 0;
	return 1;
}

// C / A / R of the single-object histories: continue on a copy, the original is kept unchanged until R returns to it
template <class Obj, class Maker, class Query>
static void history(vh::Reader& r, vh::Out& o, const Maker& mk, Query query)
{
	long nops = r.integer();
	std::unique_ptr<Obj> cur(new Obj(mk.make()));
	std::vector<std::pair<std::unique_ptr<Obj>, double>> stack;
	double pf = 1.0;   // the prefactor the calls so far should have left behind
	for(long k = 0; k < nops; k++)
	{
		std::string w = r.word();
		int q		  = query(w, r, o, cur.get(), pf, mk);
		if(q < 0)
			return;
		if(q > 0)
			continue;
		if(w == "C")   // continue on a copy-constructed object, keep the original
		{
			std::unique_ptr<Obj> cp(new Obj(*cur));
			stack.emplace_back(std::move(cur), pf);
			cur = std::move(cp);
		}
		else if(w == "A")   // continue on a default-constructed object that was assigned to
		{
			std::unique_ptr<Obj> cp(new Obj());
			*cp = *cur;
			stack.emplace_back(std::move(cur), pf);
			cur = std::move(cp);
		}
		else if(w == "R")   // return to the object the last copy was taken from
		{
			if(!stack.empty())
			{
				cur = std::move(stack.back().first);
				pf	= stack.back().second;
				stack.pop_back();
			}
		}
		else
		{
			o.w("HARNESSERR unknown_op");
			return;
		}
	}
}

// Sessions: several tables, several objects alive in one process (slots 0..7; slot 0 starts as an object of table 0, it is the
// current one).  Besides the member calls on the current object:
//   S k      the object in slot k becomes the current one
//   N k t    the object in slot k is destroyed (if any), then a new object of table t is constructed there
//   V k t    *slot k = Obj(table t ...)            assignment from a temporary (an empty slot is default-constructed first)
//   W k t    { Obj tmp(table t ...); *slot k = tmp; }   copy assignment from a third object, which is destroyed right away
//   K a b    the object in slot b is destroyed (if any), then slot b = new Obj(*slot a)   copy construction
//   E a b    *slot b = *slot a                      copy assignment in place (an empty slot is default-constructed first)
//   Z a b    std::swap(*slot a, *slot b)
//   X k      the object in slot k is destroyed
// Every query is answered by the current object and by fresh objects of the table the current object should hold by now.
template <class Obj, class Maker, class Query>
static void session(vh::Reader& r, vh::Out& o, Query query)
{
	long ntab = r.integer();
	if(ntab < 1 || ntab > 8)
	{
		o.w("HARNESSERR tables");
		return;
	}
	std::vector<Maker> mk(ntab);
	for(auto& m : mk)
		if(!m.read(r))
		{
			o.w("HARNESSERR ctor");
			return;
		}
	const int S = 8;
	std::unique_ptr<Obj> slot[S];
	int tab[S]	  = {0};
	double pf[S]  = {0};
	slot[0].reset(new Obj(mk[0].make()));
	pf[0]	  = 1.0;
	int cur	  = 0;
	long nops = r.integer();
	auto sl	  = [&](long k) { return k >= 0 && k < S; };
	for(long n = 0; n < nops; n++)
	{
		std::string w = r.word();
		int q		  = query(w, r, o, slot[cur].get(), pf[cur], mk[tab[cur]]);
		if(q < 0)
			return;
		if(q > 0)
			continue;
		if(w == "S" || w == "X")
		{
			long k = r.integer();
			if(!sl(k) || !slot[k] || (w == "X" && k == cur))
			{
				o.w("HARNESSERR slot");
				return;
			}
			if(w == "S")
				cur = (int) k;
			else
				slot[k].reset();
		}
		else if(w == "N" || w == "V" || w == "W")
		{
			long k = r.integer(), t = r.integer();
			if(!sl(k) || t < 0 || t >= ntab)
			{
				o.w("HARNESSERR slot");
				return;
			}
			if(w == "N")
			{
				slot[k].reset();
				slot[k].reset(new Obj(mk[t].make()));
			}
			else
			{
				if(!slot[k])
					slot[k].reset(new Obj());
				if(w == "V")
					*slot[k] = mk[t].make();
				else
				{
					Obj tmp	 = mk[t].make();
					*slot[k] = tmp;
				}
			}
			tab[k] = (int) t;
			pf[k]  = 1.0;
		}
		else if(w == "K" || w == "E" || w == "Z")
		{
			long a = r.integer(), b = r.integer();
			if(!sl(a) || !sl(b) || !slot[a] || (w == "Z" && !slot[b]) || (w == "K" && a == b))
			{
				o.w("HARNESSERR slot");
				return;
			}
			if(w == "Z")
			{
				std::swap(*slot[a], *slot[b]);
				std::swap(tab[a], tab[b]);
				std::swap(pf[a], pf[b]);
				continue;
			}
			if(w == "K")
			{
				slot[b].reset();
				slot[b].reset(new Obj(*slot[a]));
			}
			else
			{
				if(!slot[b])
					slot[b].reset(new Obj());
				*slot[b] = *slot[a];
			}
			tab[b] = tab[a];
			pf[b]  = pf[a];
		}
		else
		{
			o.w("HARNESSERR unknown_op");
			return;
		}
	}
}

static void one_d(vh::Reader& r, vh::Out& o)
{
	Maker1 mk;
	if(!mk.read(r))
	{
		o.w("HARNESSERR ctor");
		return;
	}
	history<Interpolation>(r, o, mk, query1);
}

struct Maker2
{
	Ctor c;
	std::vector<double> xs, ys;
	std::vector<std::vector<double>> f, rows;
	Interpolation_2D make() const
	{
		if(c.kind == 't')
		{
			if(c.argc == 0)
				return Interpolation_2D(rows);
			if(c.argc == 1)
				return Interpolation_2D(rows, c.dim[0]);
			if(c.argc == 2)
				return Interpolation_2D(rows, c.dim[0], c.dim[1]);
			return Interpolation_2D(rows, c.dim[0], c.dim[1], c.dim[2]);
		}
		if(c.argc == 0)
			return Interpolation_2D(xs, ys, f);
		if(c.argc == 1)
			return Interpolation_2D(xs, ys, f, c.dim[0]);
		if(c.argc == 2)
			return Interpolation_2D(xs, ys, f, c.dim[0], c.dim[1]);
		return Interpolation_2D(xs, ys, f, c.dim[0], c.dim[1], c.dim[2]);
	}
	bool read(vh::Reader& r)
	{
		if(!c.read(r, 3) || (c.kind != 'g' && c.kind != 't'))
			return false;
		xs = r.list();
		ys = r.list();
		f.assign(xs.size(), std::vector<double>(ys.size()));
		for(auto& row : f)
			for(auto& v : row)
				v = r.num();
		if(c.kind == 't')
			for(size_t i = 0; i < xs.size(); i++)
				for(size_t j = 0; j < ys.size(); j++)
					rows.push_back({xs[i], ys[j], f[i][j]});
		return true;
	}
};

static int query2(const std::string& w, vh::Reader& r, vh::Out& o, Interpolation_2D* cur, double& pf, const Maker2& mk)
{
	auto fresh = [&]() {
		Interpolation_2D g = mk.make();
		g.Set_Prefactor(pf);
		return g;
	};
	if(w == "I" || w == "O")
	{
		double x = r.num(), y = r.num();
		double v = (w == "I") ? cur->Interpolate(x, y) : (*cur)(x, y);
		Interpolation_2D g = fresh();
		Interpolation_2D b = mk.make();
		o.f(v);
		o.f((w == "I") ? g.Interpolate(x, y) : g(x, y));
		o.f((w == "I") ? b.Interpolate(x, y) : b(x, y));
	}
	else if(w == "gm" || w == "gM")
	{
		Interpolation_2D g = fresh();
		Interpolation_2D b = mk.make();
		o.f(w == "gm" ? cur->Global_Minimum() : cur->Global_Maximum());
		o.f(w == "gm" ? g.Global_Minimum() : g.Global_Maximum());
		o.f(b.Global_Minimum());
		o.f(b.Global_Maximum());
	}
	else if(w == "Q")
	{
		if(cur->domain.size() != 2 || cur->domain[0].size() != 2 || cur->domain[1].size() != 2)
		{
			o.w("HARNESSERR domain_size");
			return -1;
		}
		o.f(cur->domain[0][0]);
		o.f(cur->domain[0][1]);
		o.f(cur->domain[1][0]);
		o.f(cur->domain[1][1]);
	}
	else if(w == "P")
	{
		double c = r.num();
		cur->Set_Prefactor(c);
		pf = c;
		o.f(pf);
	}
	else if(w == "U")
	{
		double c = r.num();
		cur->Multiply(c);
		pf *= c;
		o.f(pf);
	}
	else if(w == "F" || w == "f")	// Save_Function(file, x_points, y_points) / Save_Function(file, x_points): the default argument y_points = 0
	{
		long nx = r.integer(), ny = 0;
		std::string fn = scratch_file();
		if(w == "F")
		{
			ny = r.integer();
			cur->Save_Function(fn, (unsigned int) nx, (unsigned int) ny);
		}
		else
			cur->Save_Function(fn, (unsigned int) nx);
		auto rows = read_rows(fn);
		if(ny == 0)
			ny = nx;   // what the default argument stands for
		std::vector<double> px = points_of(cur->domain[0][0], cur->domain[0][1], nx);
		std::vector<double> py = points_of(cur->domain[1][0], cur->domain[1][1], ny);
		o.i((long) rows.size());
		for(size_t k = 0; k < rows.size(); k++)
		{
			put_fields(o, rows[k], 3);
			bool in	 = k < px.size() * py.size();
			double x = in ? px[k / py.size()] : std::nan(""), y = in ? py[k % py.size()] : std::nan("");
			o.f(x);
			o.f(y);
			if(in)
			{
				Interpolation_2D g = fresh();
				Interpolation_2D b = mk.make();
				o.f(g.Interpolate(x, y));
				o.f(b.Interpolate(x, y));
			}
			else
			{
				o.f(std::nan(""));
				o.f(std::nan(""));
			}
		}
	}
	else
		return 0;
	return 1;
}

static void two_d(vh::Reader& r, vh::Out& o)
{
	Maker2 mk;
	if(!mk.read(r))
	{
		o.w("HARNESSERR ctor");
		return;
	}
	history<Interpolation_2D>(r, o, mk, query2);
}

static void handler(vh::Reader& r, vh::Out& o)
{
	std::string op = r.word();
	if(op == "h1")
		one_d(r, o);
	else if(op == "h2")
		two_d(r, o);
	else if(op == "s1")
		session<Interpolation, Maker1>(r, o, query1);
	else if(op == "s2")
		session<Interpolation_2D, Maker2>(r, o, query2);
	else
		o.w("HARNESSERR unknown_case");
}
int main(int argc, char** argv) { return vh::run(argc, argv, handler); }
