// C09 harness: runs a history of calls on one libphysica::Interpolation / Interpolation_2D object and, for
// every query, also asks a freshly constructed object (same table, prefactor set to the product of the
// Set_Prefactor / Multiply calls so far) and, for Interpolate / Derivative, a fresh object with prefactor 1.
// Every object (used, fresh, prefactor-free) is built by the constructor overload and with the unit arguments the case names:
// v<argc> = Interpolation(xs, ys[, x_dim[, f_dim]]), r<argc> = Interpolation(rows[, x_dim[, f_dim]]),
// g<argc> = Interpolation_2D(xs, ys, f[, x_dim[, y_dim[, f_dim]]]), t<argc> = Interpolation_2D(rows (x,y,f)[, ...]);
// argc = number of unit arguments passed explicitly (the others are left to the default arguments).
// Case grammar and output tokens: see checks/C09.py.
#include "common.hpp"
#include "libphysica/Numerics.hpp"
#include <memory>
using namespace libphysica;

struct Ctor
{
	char kind = 'v';
	int argc  = 0;
	double dim[3] = {-1.0, -1.0, -1.0};
	bool read(vh::Reader& r, int ndims)
	{
		std::string w = r.word();
		if(w.size() != 2)
			return false;
		kind = w[0];
		argc = w[1] - '0';
		if(argc < 0 || argc > ndims)
			return false;
		for(int k = 0; k < argc; k++)
			dim[k] = r.num();
		return true;
	}
};

struct Maker1
{
	Ctor c;
	std::vector<double> xs, ys;
	std::vector<std::vector<double>> rows;
	Interpolation make() const
	{
		if(c.kind == 'r')
		{
			if(c.argc == 0)
				return Interpolation(rows);
			if(c.argc == 1)
				return Interpolation(rows, c.dim[0]);
			return Interpolation(rows, c.dim[0], c.dim[1]);
		}
		if(c.argc == 0)
			return Interpolation(xs, ys);
		if(c.argc == 1)
			return Interpolation(xs, ys, c.dim[0]);
		return Interpolation(xs, ys, c.dim[0], c.dim[1]);
	}
};

static void one_d(vh::Reader& r, vh::Out& o)
{
	Maker1 mk;
	if(!mk.c.read(r, 2) || (mk.c.kind != 'v' && mk.c.kind != 'r'))
	{
		o.w("HARNESSERR ctor");
		return;
	}
	mk.xs = r.list();
	mk.ys = r.list();
	if(mk.c.kind == 'r')
		for(size_t i = 0; i < mk.xs.size() && i < mk.ys.size(); i++)
			mk.rows.push_back({mk.xs[i], mk.ys[i]});
	long nops = r.integer();
	std::unique_ptr<Interpolation> cur(new Interpolation(mk.make()));
	std::vector<std::pair<std::unique_ptr<Interpolation>, double>> stack;
	double pf = 1.0;   // the prefactor the calls so far should have left behind
	auto fresh = [&]() {
		Interpolation f = mk.make();
		f.Set_Prefactor(pf);
		return f;
	};
	for(long k = 0; k < nops; k++)
	{
		std::string w = r.word();
		if(w == "L")
		{
			double x	   = r.num();
			unsigned int j = cur->Locate(x);
			Interpolation f = fresh();
			o.i(j);
			o.i(f.Locate(x));
		}
		else if(w == "I" || w == "O")
		{
			double x = r.num();
			double v = (w == "I") ? cur->Interpolate(x) : (*cur)(x);
			Interpolation f = fresh();
			Interpolation b = mk.make();
			o.f(v);
			o.f((w == "I") ? f.Interpolate(x) : f(x));
			o.f((w == "I") ? b.Interpolate(x) : b(x));
		}
		else if(w == "D")
		{
			double x = r.num();
			long d	 = r.integer();
			double v = cur->Derivative(x, (unsigned int) d);
			Interpolation f = fresh();
			Interpolation b = mk.make();
			o.f(v);
			o.f(f.Derivative(x, (unsigned int) d));
			o.f(b.Derivative(x, (unsigned int) d));
		}
		else if(w == "d")	// the default argument of Derivative
		{
			double x = r.num();
			double v = cur->Derivative(x);
			Interpolation f = fresh();
			Interpolation b = mk.make();
			o.f(v);
			o.f(f.Derivative(x));
			o.f(b.Derivative(x, 1u));	// what the default argument stands for: the first derivative
		}
		else if(w == "G" || w == "m" || w == "M")
		{
			double a = r.num(), b = r.num();
			Interpolation f = fresh();
			Interpolation b1 = mk.make(), b2 = mk.make();
			if(w == "G")
			{
				o.f(cur->Integrate(a, b));
				o.f(f.Integrate(a, b));
				o.f(b1.Integrate(a, b));
			}
			else
			{
				o.f(w == "m" ? cur->Local_Minimum(a, b) : cur->Local_Maximum(a, b));
				o.f(w == "m" ? f.Local_Minimum(a, b) : f.Local_Maximum(a, b));
				o.f(b1.Local_Minimum(a, b));
				o.f(b2.Local_Maximum(a, b));
			}
		}
		else if(w == "gm" || w == "gM")
		{
			Interpolation f = fresh();
			Interpolation b1 = mk.make(), b2 = mk.make();
			o.f(w == "gm" ? cur->Global_Minimum() : cur->Global_Maximum());
			o.f(w == "gm" ? f.Global_Minimum() : f.Global_Maximum());
			o.f(b1.Global_Minimum());
			o.f(b2.Global_Maximum());
		}
		else if(w == "Q")	// the public data member domain
		{
			if(cur->domain.size() != 2)
			{
				o.w("HARNESSERR domain_size");
				return;
			}
			o.f(cur->domain[0]);
			o.f(cur->domain[1]);
		}
		else if(w == "P")
		{
			double f = r.num();
			cur->Set_Prefactor(f);
			pf = f;
			o.f(pf);
		}
		else if(w == "U")
		{
			double f = r.num();
			cur->Multiply(f);
			pf *= f;
			o.f(pf);
		}
		else if(w == "C")   // continue on a copy-constructed object, keep the original
		{
			std::unique_ptr<Interpolation> cp(new Interpolation(*cur));
			stack.emplace_back(std::move(cur), pf);
			cur = std::move(cp);
		}
		else if(w == "A")   // continue on a default-constructed object that was assigned to
		{
			std::unique_ptr<Interpolation> cp(new Interpolation());
			*cp = *cur;
			stack.emplace_back(std::move(cur), pf);
			cur = std::move(cp);
		}
		else if(w == "R")   // return to the object the last copy was taken from
		{
			if(!stack.empty())
			{
				cur = std::move(stack.back().first);
				pf	= stack.back().second;
				stack.pop_back();
			}
		}
		else
		{
			o.w("HARNESSERR unknown_op");
			return;
		}
	}
}

struct Maker2
{
	Ctor c;
	std::vector<double> xs, ys;
	std::vector<std::vector<double>> f, rows;
	Interpolation_2D make() const
	{
		if(c.kind == 't')
		{
			if(c.argc == 0)
				return Interpolation_2D(rows);
			if(c.argc == 1)
				return Interpolation_2D(rows, c.dim[0]);
			if(c.argc == 2)
				return Interpolation_2D(rows, c.dim[0], c.dim[1]);
			return Interpolation_2D(rows, c.dim[0], c.dim[1], c.dim[2]);
		}
		if(c.argc == 0)
			return Interpolation_2D(xs, ys, f);
		if(c.argc == 1)
			return Interpolation_2D(xs, ys, f, c.dim[0]);
		if(c.argc == 2)
			return Interpolation_2D(xs, ys, f, c.dim[0], c.dim[1]);
		return Interpolation_2D(xs, ys, f, c.dim[0], c.dim[1], c.dim[2]);
	}
};

static void two_d(vh::Reader& r, vh::Out& o)
{
	Maker2 mk;
	if(!mk.c.read(r, 3) || (mk.c.kind != 'g' && mk.c.kind != 't'))
	{
		o.w("HARNESSERR ctor");
		return;
	}
	mk.xs = r.list();
	mk.ys = r.list();
	mk.f.assign(mk.xs.size(), std::vector<double>(mk.ys.size()));
	for(auto& row : mk.f)
		for(auto& v : row)
			v = r.num();
	if(mk.c.kind == 't')
		for(size_t i = 0; i < mk.xs.size(); i++)
			for(size_t j = 0; j < mk.ys.size(); j++)
				mk.rows.push_back({mk.xs[i], mk.ys[j], mk.f[i][j]});
	long nops = r.integer();
	std::unique_ptr<Interpolation_2D> cur(new Interpolation_2D(mk.make()));
	std::vector<std::pair<std::unique_ptr<Interpolation_2D>, double>> stack;
	double pf = 1.0;
	auto fresh = [&]() {
		Interpolation_2D g = mk.make();
		g.Set_Prefactor(pf);
		return g;
	};
	for(long k = 0; k < nops; k++)
	{
		std::string w = r.word();
		if(w == "I" || w == "O")
		{
			double x = r.num(), y = r.num();
			double v = (w == "I") ? cur->Interpolate(x, y) : (*cur)(x, y);
			Interpolation_2D g = fresh();
			Interpolation_2D b = mk.make();
			o.f(v);
			o.f((w == "I") ? g.Interpolate(x, y) : g(x, y));
			o.f((w == "I") ? b.Interpolate(x, y) : b(x, y));
		}
		else if(w == "gm" || w == "gM")
		{
			Interpolation_2D g = fresh();
			Interpolation_2D b = mk.make();
			o.f(w == "gm" ? cur->Global_Minimum() : cur->Global_Maximum());
			o.f(w == "gm" ? g.Global_Minimum() : g.Global_Maximum());
			o.f(b.Global_Minimum());
			o.f(b.Global_Maximum());
		}
		else if(w == "Q")
		{
			if(cur->domain.size() != 2 || cur->domain[0].size() != 2 || cur->domain[1].size() != 2)
			{
				o.w("HARNESSERR domain_size");
				return;
			}
			o.f(cur->domain[0][0]);
			o.f(cur->domain[0][1]);
			o.f(cur->domain[1][0]);
			o.f(cur->domain[1][1]);
		}
		else if(w == "P")
		{
			double c = r.num();
			cur->Set_Prefactor(c);
			pf = c;
			o.f(pf);
		}
		else if(w == "U")
		{
			double c = r.num();
			cur->Multiply(c);
			pf *= c;
			o.f(pf);
		}
		else if(w == "C")
		{
			std::unique_ptr<Interpolation_2D> cp(new Interpolation_2D(*cur));
			stack.emplace_back(std::move(cur), pf);
			cur = std::move(cp);
		}
		else if(w == "A")
		{
			std::unique_ptr<Interpolation_2D> cp(new Interpolation_2D());
			*cp = *cur;
			stack.emplace_back(std::move(cur), pf);
			cur = std::move(cp);
		}
		else if(w == "R")
		{
			if(!stack.empty())
			{
				cur = std::move(stack.back().first);
				pf	= stack.back().second;
				stack.pop_back();
			}
		}
		else
		{
			o.w("HARNESSERR unknown_op");
			return;
		}
	}
}

static void handler(vh::Reader& r, vh::Out& o)
{
	std::string op = r.word();
	if(op == "h1")
		one_d(r, o);
	else if(op == "h2")
		two_d(r, o);
	else
		o.w("HARNESSERR unknown_case");
}
int main(int argc, char** argv) { return vh::run(argc, argv, handler); }
