// C05 harness: Matrix::Determinant / Invertible / Inverse on the case file (grammar: checks/C05.py)
#include "common.hpp"
#include "libphysica/Linear_Algebra.hpp"
using namespace libphysica;

static void put(vh::Out& o, const Matrix& M)
{
	o.w("M");
	o.i(M.Rows());
	o.i(M.Columns());
	for(unsigned int i = 0; i < M.Rows(); i++)
		for(unsigned int j = 0; j < M.Columns(); j++)
			o.f(M[i][j]);
}
static Matrix rd_mat(vh::Reader& r) { return Matrix(r.table()); }

static void handler(vh::Reader& r, vh::Out& o)
{
	std::string op = r.word();
	if(op == "det")
	{
		Matrix A = rd_mat(r);
		o.f(A.Determinant());
	}
	else if(op == "invertible")
	{
		Matrix A = rd_mat(r);
		o.i(A.Invertible() ? 1 : 0);
		if(A.Square())
			o.f(A.Determinant());
	}
	else if(op == "inverse")
	{
		Matrix A = rd_mat(r);
		put(o, A.Inverse());
	}
	else if(op == "det_swap")
	{
		// det(A) and det(A with rows i and j exchanged)
		std::vector<std::vector<double>> t = r.table();
		long i = r.integer(), j = r.integer();
		Matrix A(t);
		std::swap(t[i], t[j]);
		Matrix B(t);
		o.f(A.Determinant());
		o.f(B.Determinant());
	}
	else if(op == "det_laws")
	{
		Matrix A = rd_mat(r), B = rd_mat(r);
		o.f(A.Determinant());
		o.f(B.Determinant());
		o.f((A * B).Determinant());
		o.f(A.Transpose().Determinant());
	}
	else
		o.w("HARNESSERR unknown_op");
}
int main(int argc, char** argv) { return vh::run(argc, argv, handler); }
