// C05 harness: Matrix::Determinant / Invertible / Inverse on the case file (grammar: checks/C05.py)
#include "common.hpp"
#include <iterator>
#include <map>
#include <new>
#include "libphysica/Linear_Algebra.hpp"
using namespace libphysica;

static void put(vh::Out& o, const Matrix& M)
{
	o.w("M");
	o.i(M.Rows());
	o.i(M.Columns());
	for(unsigned int i = 0; i < M.Rows(); i++)
		for(unsigned int j = 0; j < M.Columns(); j++)
			o.f(M[i][j]);
}
static Matrix rd_mat(vh::Reader& r) { return Matrix(r.table()); }
// a new object with the entries of M, read without touching M's non-const interface
static Matrix fresh(const Matrix& M)
{
	std::vector<std::vector<double>> e;
	for(unsigned int i = 0; i < M.Rows(); i++)
		e.push_back(M[i]);
	if(e.empty() || e[0].size() != M.Columns())
	{
		Matrix F(M.Rows(), M.Columns(), 0.0);
		return F;
	}
	return Matrix(e);
}

// The references into one object that the caller of a history holds:  std::vector<double>& r = M[i];  double& e = M[i][j];
// (kept as pointers).  Which of them survive a member call follows the container rules, exactly as in the model
// (coq/C05_Model.v, hkeep); a reference that did not survive is never used (HARNESSERR if the case asks for it).
struct Refs
{
	std::map<long, std::pair<std::vector<double>*, long>> row;	 // handle -> (reference, row position)
	std::map<long, double*> elt;
	void clear()
	{
		row.clear();
		elt.clear();
	}
	void keep_rows_below(long k)
	{
		elt.clear();
		for(auto it = row.begin(); it != row.end();)
			it = (it->second.second < k) ? std::next(it) : row.erase(it);
	}
};

// One call of a history on the object M (grammar: checks/C05.py).  probe = true: after every query the same query is put
// to a fresh object built from M's current entries (read through the const operator[] only) and both answers are printed;
// probe = false: nothing but the calls of the history themselves runs in the process.
static bool do_step(const std::string& st, vh::Reader& r, vh::Out& o, Matrix& M, bool probe, Refs& refs)
{
	const int passes = probe ? 2 : 1;
	if(st == "det" || st == "copydet" || st == "transdet" || st == "subdet")
	{
		long i = 0, j = 0;
		if(st == "subdet")
		{
			i = r.integer();
			j = r.integer();
		}
		o.w("D");
		for(int pass = 0; pass < passes; pass++)
		{
			std::unique_ptr<Matrix> F(pass == 0 ? nullptr : new Matrix(fresh(M)));
			const Matrix& Q = (pass == 0) ? M : *F;
			if(st == "det")
				o.f(Q.Determinant());
			else if(st == "copydet")
			{
				Matrix C(Q);
				o.f(C.Determinant());
			}
			else if(st == "transdet")
				o.f(Q.Transpose().Determinant());
			else
				o.f(Q.Sub_Matrix(i, j).Determinant());
		}
	}
	else if(st == "invertible" || st == "orthogonal")
	{
		o.w("F");
		o.i((st == "invertible" ? M.Invertible() : M.Orthogonal()) ? 1 : 0);
		if(probe)
		{
			Matrix F = fresh(M);
			o.i((st == "invertible" ? F.Invertible() : F.Orthogonal()) ? 1 : 0);
		}
	}
	else if(st == "inverse")
	{
		o.w("X");
		put(o, M.Inverse());
		if(probe)
		{
			Matrix F = fresh(M);
			put(o, F.Inverse());
		}
	}
	else if(st == "copyinvertible")
	{
		Matrix C(M);
		o.w("F");
		o.i(C.Invertible() ? 1 : 0);
	}
	else if(st == "copyinverse")
	{
		Matrix C(M);
		o.w("X");
		put(o, C.Inverse());
	}
	else
	{
		if(st == "lib")
		{
			// a call of ANOTHER facility of the library (on its own argument B, not on the object) between two calls of the history:
			// whatever it leaves behind in the process must not change the object's later answers
			std::string which					= r.word();
			std::vector<std::vector<double>> tb = r.table();
			Matrix B(tb);
			if(which == "eigensystem")
				Eigensystem(B);
			else if(which == "eigenvectors")
				Eigenvectors(B);
			else if(which == "eigenvalues")
				Eigenvalues(B);
			else if(which == "qr")
				QR_Decomposition(B);
			else if(which == "rotation")
				Rotation_Matrix(B[0][0], (B.Rows() == 2) ? 2 : 3);
			else if(which == "outer")
				Outer_Vector_Product(Vector(tb[0]), Vector(tb[1]));
			else
			{
				o.w("HARNESSERR unknown_facility");
				return false;
			}
		}
		else if(st == "hold")
		{
			// std::vector<double>& r_h = M[i];  (the non-const operator[]), kept for later
			long h = r.integer(), i = r.integer();
			std::vector<double>& row = M[i];
			refs.row[h]				 = std::make_pair(&row, i);
		}
		else if(st == "holde")
		{
			long h = r.integer(), i = r.integer(), j = r.integer();
			double& e	= M[i][j];
			refs.elt[h] = &e;
		}
		else if(st == "hset" || st == "hrow" || st == "hswap" || st == "eset")
		{
			// writes through references taken earlier: no member function of M is called here
			long h = r.integer();
			if(st == "eset")
			{
				double v = r.num();
				if(!refs.elt.count(h))
				{
					o.w("HARNESSERR no_such_reference");
					return false;
				}
				*refs.elt[h] = v;
			}
			else if(st == "hswap")
			{
				long h2 = r.integer();
				if(!refs.row.count(h) || !refs.row.count(h2))
				{
					o.w("HARNESSERR no_such_reference");
					return false;
				}
				std::swap(*refs.row[h].first, *refs.row[h2].first);
				refs.elt.clear();
			}
			else
			{
				long j = 0;
				double v = 0.0;
				std::vector<double> l;
				if(st == "hset")
				{
					j = r.integer();
					v = r.num();
				}
				else
					l = r.list();
				if(!refs.row.count(h))
				{
					o.w("HARNESSERR no_such_reference");
					return false;
				}
				std::vector<double>& row = *refs.row[h].first;
				if(st == "hset")
					row[j] = v;
				else
				{
					row = l;
					refs.elt.clear();
				}
			}
		}
		else if(st == "add")
			M += rd_mat(r);
		else if(st == "sub")
			M -= rd_mat(r);
		else if(st == "set")
		{
			long i = r.integer(), j = r.integer();
			double v = r.num();
			M[i][j]	 = v;
		}
		else if(st == "swap")
		{
			long i = r.integer(), j = r.integer();
			std::swap(M[i], M[j]);
			refs.elt.clear();
		}
		else if(st == "assignm")
		{
			M = rd_mat(r);
			refs.clear();
		}
		else if(st == "assign" || st == "resize")
		{
			long i = r.integer(), j = r.integer();
			double v = (st == "assign") ? r.num() : 0.0;
			long before = M.Rows();
			if(st == "assign")
				M.Assign(i, j, v);
			else
				M.Resize(i, j);
			if(i <= before)
				refs.keep_rows_below(i);
			else
				refs.clear();
		}
		else if(st == "delrow")
		{
			long i = r.integer();
			M.Delete_Row(i);
			refs.keep_rows_below(i);
		}
		else if(st == "delcol")
		{
			M.Delete_Column(r.integer());
			refs.elt.clear();
		}
		else
		{
			o.w("HARNESSERR unknown_step");
			return false;
		}
		o.w("U");
	}
	return true;
}

// storage of one object of a `hist` case: the address is fixed for the whole case, objects are constructed and destroyed in place
struct Slot
{
	alignas(Matrix) unsigned char buf[sizeof(Matrix)];
	Matrix* p = nullptr;
};

static void handler(vh::Reader& r, vh::Out& o)
{
	std::string op = r.word();
	if(op == "det")
	{
		Matrix A = rd_mat(r);
		o.f(A.Determinant());
	}
	else if(op == "invertible")
	{
		Matrix A = rd_mat(r);
		o.i(A.Invertible() ? 1 : 0);
		if(A.Square())
			o.f(A.Determinant());
	}
	else if(op == "inverse")
	{
		Matrix A = rd_mat(r);
		put(o, A.Inverse());
	}
	else if(op == "det_swap")
	{
		// det(A) and det(A with rows i and j exchanged)
		std::vector<std::vector<double>> t = r.table();
		long i = r.integer(), j = r.integer();
		Matrix A(t);
		std::swap(t[i], t[j]);
		Matrix B(t);
		o.f(A.Determinant());
		o.f(B.Determinant());
	}
	else if(op == "det_laws")
	{
		Matrix A = rd_mat(r), B = rd_mat(r);
		o.f(A.Determinant());
		o.f(B.Determinant());
		o.f((A * B).Determinant());
		o.f(A.Transpose().Determinant());
	}
	else if(op == "seq")
	{
		// A call history on ONE Matrix object, every query also put to a fresh object with the same entries
		Matrix M = rd_mat(r);
		Refs refs;
		long k = r.integer();
		for(long s = 0; s < k; s++)
			if(!do_step(r.word(), r, o, M, true, refs))
				return;
	}
	else if(op == "hist")
	{
		// A call history on SEVERAL Matrix objects (interleaved calls); nothing else is called in between.
		long m = r.integer();
		std::vector<Slot> slots(m);
		std::vector<Refs> refs(m);
		for(long q = 0; q < m; q++)
			slots[q].p = new(slots[q].buf) Matrix(rd_mat(r));
		long k = r.integer();
		for(long s = 0; s < k; s++)
		{
			long q = r.integer();
			if(q < 0 || q >= m)
			{
				o.w("HARNESSERR no_such_object");
				return;
			}
			std::string st = r.word();
			if(st == "renew")
			{
				// the object's lifetime ends and a new object is constructed in the same storage
				std::vector<std::vector<double>> e = r.table();
				refs[q].clear();
				slots[q].p->~Matrix();
				slots[q].p = new(slots[q].buf) Matrix(e);
				o.w("U");
			}
			else if(!do_step(st, r, o, *slots[q].p, false, refs[q]))
				return;
		}
		for(long q = 0; q < m; q++)
			slots[q].p->~Matrix();
	}
	else
		o.w("HARNESSERR unknown_op");
}
int main(int argc, char** argv) { return vh::run(argc, argv, handler); }
