// C05 harness: Matrix::Determinant / Invertible / Inverse on the case file (grammar: checks/C05.py)
#include "common.hpp"
#include "libphysica/Linear_Algebra.hpp"
using namespace libphysica;

static void put(vh::Out& o, const Matrix& M)
{
	o.w("M");
	o.i(M.Rows());
	o.i(M.Columns());
	for(unsigned int i = 0; i < M.Rows(); i++)
		for(unsigned int j = 0; j < M.Columns(); j++)
			o.f(M[i][j]);
}
static Matrix rd_mat(vh::Reader& r) { return Matrix(r.table()); }
// a new object with the entries of M, read without touching M's non-const interface
static Matrix fresh(const Matrix& M)
{
	std::vector<std::vector<double>> e;
	for(unsigned int i = 0; i < M.Rows(); i++)
		e.push_back(M[i]);
	if(e.empty() || e[0].size() != M.Columns())
	{
		Matrix F(M.Rows(), M.Columns(), 0.0);
		return F;
	}
	return Matrix(e);
}

static void handler(vh::Reader& r, vh::Out& o)
{
	std::string op = r.word();
	if(op == "det")
	{
		Matrix A = rd_mat(r);
		o.f(A.Determinant());
	}
	else if(op == "invertible")
	{
		Matrix A = rd_mat(r);
		o.i(A.Invertible() ? 1 : 0);
		if(A.Square())
			o.f(A.Determinant());
	}
	else if(op == "inverse")
	{
		Matrix A = rd_mat(r);
		put(o, A.Inverse());
	}
	else if(op == "det_swap")
	{
		// det(A) and det(A with rows i and j exchanged)
		std::vector<std::vector<double>> t = r.table();
		long i = r.integer(), j = r.integer();
		Matrix A(t);
		std::swap(t[i], t[j]);
		Matrix B(t);
		o.f(A.Determinant());
		o.f(B.Determinant());
	}
	else if(op == "det_laws")
	{
		Matrix A = rd_mat(r), B = rd_mat(r);
		o.f(A.Determinant());
		o.f(B.Determinant());
		o.f((A * B).Determinant());
		o.f(A.Transpose().Determinant());
	}
	else if(op == "seq")
	{
		// A call history on ONE Matrix object.  After every query the same query is put to a fresh object built from the
		// object's current entries (read through the const operator[] only): both answers are printed.
		Matrix M = rd_mat(r);
		long k	 = r.integer();
		for(long s = 0; s < k; s++)
		{
			std::string st = r.word();
			if(st == "det" || st == "copydet" || st == "transdet" || st == "subdet")
			{
				long i = 0, j = 0;
				if(st == "subdet")
				{
					i = r.integer();
					j = r.integer();
				}
				o.w("D");
				for(int pass = 0; pass < 2; pass++)
				{
					Matrix F		= fresh(M);
					const Matrix& Q = (pass == 0) ? M : F;
					if(st == "det")
						o.f(Q.Determinant());
					else if(st == "copydet")
					{
						Matrix C(Q);
						o.f(C.Determinant());
					}
					else if(st == "transdet")
						o.f(Q.Transpose().Determinant());
					else
						o.f(Q.Sub_Matrix(i, j).Determinant());
				}
			}
			else if(st == "invertible" || st == "orthogonal")
			{
				o.w("F");
				Matrix F = fresh(M);
				o.i((st == "invertible" ? M.Invertible() : M.Orthogonal()) ? 1 : 0);
				o.i((st == "invertible" ? F.Invertible() : F.Orthogonal()) ? 1 : 0);
			}
			else if(st == "inverse")
			{
				o.w("X");
				Matrix F = fresh(M);
				put(o, M.Inverse());
				put(o, F.Inverse());
			}
			else
			{
				if(st == "add")
					M += rd_mat(r);
				else if(st == "sub")
					M -= rd_mat(r);
				else if(st == "set")
				{
					long i = r.integer(), j = r.integer();
					double v = r.num();
					M[i][j]	 = v;
				}
				else if(st == "swap")
				{
					long i = r.integer(), j = r.integer();
					std::swap(M[i], M[j]);
				}
				else if(st == "assignm")
					M = rd_mat(r);
				else if(st == "assign")
				{
					long i = r.integer(), j = r.integer();
					double v = r.num();
					M.Assign(i, j, v);
				}
				else if(st == "resize")
				{
					long i = r.integer(), j = r.integer();
					M.Resize(i, j);
				}
				else if(st == "delrow")
					M.Delete_Row(r.integer());
				else if(st == "delcol")
					M.Delete_Column(r.integer());
				else
				{
					o.w("HARNESSERR unknown_step");
					return;
				}
				o.w("U");
			}
		}
	}
	else
		o.w("HARNESSERR unknown_op");
}
int main(int argc, char** argv) { return vh::run(argc, argv, handler); }
