// C07 harness: runs libphysica's distributions, likelihoods and KDE on the case file (grammar: checks/C07.py).
// Output = the tokens the model also prints, then " | " and extra tokens used only by the S4 predicates
// (density values at the 8 Gauss-Legendre nodes of each flagged interval, round trips, per-bin values).
// Everything after an "@" in the case line is the oracle table for the model driver and is ignored here.
#include "common.hpp"
#include "libphysica/Numerics.hpp"
#include "libphysica/Special_Functions.hpp"
#include "libphysica/Statistics.hpp"
#include <sys/wait.h>
#include <unistd.h>
using namespace libphysica;

static const double GLT[8] = {-0.9602898564975363, -0.7966664774136267, -0.5255324099163290, -0.1834346424956498,
							  0.1834346424956498, 0.5255324099163290, 0.7966664774136267, 0.9602898564975363};

struct Pair
{
	double lo, hi;
	long flag;
};
static std::vector<Pair> pairs(vh::Reader& r)
{
	long np = r.integer();
	std::vector<Pair> v;
	for(long k = 0; k < np; k++)
	{
		Pair p;
		p.lo   = r.num();
		p.hi   = r.num();
		p.flag = r.integer();
		v.push_back(p);
	}
	return v;
}
static void scan(const std::vector<Pair>& ps, vh::Out& o, std::function<double(double)> pdf, std::function<double(double)> cdf)
{
	for(auto& p : ps)
	{
		o.f(pdf(p.lo));
		o.f(cdf(p.lo));
		o.f(pdf(p.hi));
		o.f(cdf(p.hi));
	}
	o.w("|");
	for(auto& p : ps)
		if(p.flag)
		{
			double m = (p.lo + p.hi) / 2, h = (p.hi - p.lo) / 2;
			for(int k = 0; k < 8; k++)
				o.f(pdf(m + h * GLT[k]));
		}
}

static void do_case(vh::Reader& r, vh::Out& o)
{
	std::string op = r.word();
	if(op == "uniform")
	{
		double a = r.num(), b = r.num();
		scan(pairs(r), o, [=](double x) { return PDF_Uniform(x, a, b); }, [=](double x) { return CDF_Uniform(x, a, b); });
	}
	else if(op == "gauss")
	{
		double mu = r.num(), s = r.num();
		scan(pairs(r), o, [=](double x) { return PDF_Gauss(x, mu, s); }, [=](double x) { return CDF_Gauss(x, mu, s); });
	}
	else if(op == "expo")
	{
		double m = r.num();
		scan(pairs(r), o, [=](double x) { return PDF_Exponential(x, m); }, [=](double x) { return CDF_Exponential(x, m); });
	}
	else if(op == "mb")
	{
		double a = r.num();
		scan(pairs(r), o, [=](double x) { return PDF_Maxwell_Boltzmann(x, a); }, [=](double x) { return CDF_Maxwell_Boltzmann(x, a); });
	}
	else if(op == "chi2")
	{
		double dof = r.num();
		scan(pairs(r), o, [=](double x) { return PDF_Chi_Square(x, dof); }, [=](double x) { return CDF_Chi_Square(x, dof); });
	}
	else if(op == "chibar")
	{
		std::vector<double> w = r.list();
		scan(pairs(r), o, [=](double x) { return PDF_Chi_Bar_Square(x, w); }, [=](double x) { return CDF_Chi_Bar_Square(x, w); });
	}
	else if(op == "gauss2d")
	{
		double x = r.num(), y = r.num(), mx = r.num(), my = r.num(), sx = r.num(), sy = r.num();
		std::pair<double, double> mean(mx, my), sigma(sx, sy);
		o.f(PDF_Gauss_2D(x, y, mean, sigma));
		o.w("|");
		// the product of the two one-dimensional densities, for the factorisation predicate
		o.f(PDF_Gauss(x, mx, sx));
		o.f(PDF_Gauss(y, my, sy));
	}
	else if(op == "binomial")
	{
		long n = r.integer();
		double p = r.num();
		long k0 = r.integer(), m = r.integer();
		for(long k = k0; k < k0 + m; k++)
		{
			o.f(PMF_Binomial(n, p, k));
			o.f(CDF_Binomial(n, p, k));
		}
		o.w("|");
	}
	else if(op == "poisson")
	{
		double mu = r.num();
		long k0 = r.integer(), m = r.integer();
		for(long k = k0; k < k0 + m; k++)
		{
			o.f(PMF_Poisson(mu, k));
			o.f(CDF_Poisson(mu, k));
		}
		o.w("|");
	}
	else if(op == "invpoisson")
	{
		long n	 = r.integer();
		double c = r.num();
		double m = Inv_CDF_Poisson(n, c);
		o.f(m);
		o.w("|");
		o.f(m >= 0 ? CDF_Poisson(m, n) : std::nan(""));
	}
	else if(op == "quantile")
	{
		double p = r.num(), mu = r.num(), s = r.num();
		double q = Quantile_Gauss(p, mu, s);
		o.f(q);
		o.w("|");
		o.f(CDF_Gauss(q, mu, s));
	}
	else if(op == "inverf")
	{
		double p = r.num();
		double e = Inv_Erf(p);
		o.f(e);
		o.w("|");
		o.f(erf(e));
	}
	else if(op == "quantilelib")
	{
		double p = r.num(), mu = r.num(), s = r.num();
		double q = Quantile_Gauss(p, mu, s);
		o.f(q);
		o.w("|");
		o.f(CDF_Gauss(q, mu, s));
	}
	else if(op == "lik")
	{
		double s = r.num();
		long n	 = r.integer();
		double b = r.num();
		o.f(Log_Likelihood_Poisson(s, n, b));
		o.f(Likelihood_Poisson(s, n, b));
		o.w("|");
		o.f((s + b) >= 0 ? PMF_Poisson(s + b, n) : std::nan(""));
	}
	else if(op == "lik0")
	{
		// the two-argument calls: expected_background is the default argument of the header
		double s = r.num();
		long n	 = r.integer();
		o.f(Log_Likelihood_Poisson(s, n));
		o.f(Likelihood_Poisson(s, n));
		o.w("|");
		o.f(s >= 0 ? PMF_Poisson(s, n) : std::nan(""));
	}
	else if(op == "likseq")
	{
		// several evaluations in a row in one process (a scan over one argument with the others held fixed, repeated
		// points, alternating points): every answer must be the one a fresh process gives
		long m = r.integer();
		std::vector<double> ss, bs;
		std::vector<long> ns;
		for(long k = 0; k < m; k++)
		{
			ss.push_back(r.num());
			ns.push_back(r.integer());
			bs.push_back(r.num());
		}
		for(long k = 0; k < m; k++)
		{
			o.f(Log_Likelihood_Poisson(ss[k], ns[k], bs[k]));
			o.f(Likelihood_Poisson(ss[k], ns[k], bs[k]));
		}
		o.w("|");
		for(long k = 0; k < m; k++)
			o.f((ss[k] + bs[k]) >= 0 ? PMF_Poisson(ss[k] + bs[k], ns[k]) : std::nan(""));
	}
	else if(op == "liksess")
	{
		// a session: m requests of the likelihood family answered in order in one process; each answer must be the one the
		// request gets alone.  L s n b | L0 s n (default background) | B S N Bg | B0 S N (overloads without background).
		// All requests are read before the first call is made.
		long m = r.integer();
		struct Req
		{
			std::string kind;
			double s, b;
			long n;
			std::vector<double> S, B;
			std::vector<unsigned long> N;
		};
		std::vector<Req> qs;
		for(long k = 0; k < m; k++)
		{
			Req q;
			q.kind = r.word();
			q.s = q.b = 0.0;
			q.n		  = 0;
			if(q.kind == "L" || q.kind == "L0")
			{
				q.s = r.num();
				q.n = r.integer();
				if(q.kind == "L")
					q.b = r.num();
			}
			else
			{
				q.S					 = r.list();
				std::vector<long> nl = r.ilist();
				q.N.assign(nl.begin(), nl.end());
				if(q.kind == "B")
					q.B = r.list();
			}
			qs.push_back(q);
		}
		for(auto& q : qs)
		{
			if(q.kind == "L")
			{
				o.f(Log_Likelihood_Poisson(q.s, q.n, q.b));
				o.f(Likelihood_Poisson(q.s, q.n, q.b));
			}
			else if(q.kind == "L0")
			{
				o.f(Log_Likelihood_Poisson(q.s, q.n));
				o.f(Likelihood_Poisson(q.s, q.n));
			}
			else if(q.kind == "B")
			{
				o.f(Log_Likelihood_Poisson_Binned(q.S, q.N, q.B));
				o.f(Likelihood_Poisson_Binned(q.S, q.N, q.B));
			}
			else if(q.kind == "B0")
			{
				o.f(Log_Likelihood_Poisson_Binned(q.S, q.N));
				o.f(Likelihood_Poisson_Binned(q.S, q.N));
			}
			else
				o.w("HARNESSERR liksess_request");
		}
		o.w("|");
	}
	else if(op == "binned" || op == "binned0")
	{
		std::vector<double> s = r.list();
		std::vector<long> nl  = r.ilist();
		std::vector<double> b;
		if(op == "binned")
			b = r.list();
		std::vector<unsigned long> n(nl.begin(), nl.end());
		if(op == "binned")
		{
			o.f(Log_Likelihood_Poisson_Binned(s, n, b));
			o.f(Likelihood_Poisson_Binned(s, n, b));
		}
		else
		{
			// the overloads without a background argument (default argument of the header)
			o.f(Log_Likelihood_Poisson_Binned(s, n));
			o.f(Likelihood_Poisson_Binned(s, n));
		}
		o.w("|");
		for(size_t k = 0; k < s.size(); k++)
		{
			double bk = b.empty() ? 0.0 : b[k];
			o.f(Log_Likelihood_Poisson(s[k], n[k], bk));
			o.f(Likelihood_Poisson(s[k], n[k], bk));
		}
	}
	else if(op == "kde" || op == "kde0")
	{
		long n = r.integer();
		std::vector<DataPoint> d;
		for(long k = 0; k < n; k++)
		{
			double v = r.num(), w = r.num();
			d.push_back(DataPoint(v, w));
		}
		double xMin = r.num(), xMax = r.num(), bw = op == "kde" ? r.num() : 0.0;
		// kde0: the call without a bandwidth argument (default argument of the header)
		Interpolation kde = op == "kde" ? Perform_KDE(d, xMin, xMax, bw) : Perform_KDE(d, xMin, xMax);
		int points		  = 150;
		double dx		  = (xMax - xMin) / (points - 1);
		std::vector<double> xs;
		for(int j = 0; j < points; j++)
			xs.push_back(xMin + j * dx);
		o.i(points);
		for(int j = 0; j < points; j++)
			o.f(kde(xs[j]));
		o.w("|");
		for(int j = 0; j + 1 < points; j++)
			o.f(kde(xs[j] + (xs[j + 1] - xs[j]) / 2));
		o.f(kde.Integrate(xs[0], xs[points - 1]));
		// two more ordinates per segment (with the two ends and the middle they determine the segment's cubic)
		for(int j = 0; j + 1 < points; j++)
		{
			double h = xs[j + 1] - xs[j];
			o.f(kde(xs[j] + h / 4));
			o.f(kde(xs[j] + 0.75 * h));
		}
	}
	// the functions of Special_Functions.cpp the distributions delegate to (oracle pass)
	else if(op == "d_gammaQ")
	{
		double x = r.num(), a = r.num();
		o.f(GammaQ(x, a));
	}
	else if(op == "d_gammaP")
	{
		double x = r.num(), a = r.num();
		o.f(GammaP(x, a));
	}
	else if(op == "d_inv_gammaQ")
	{
		double x = r.num(), a = r.num();
		o.f(Inv_GammaQ(x, a));
	}
	else if(op == "d_gammaLn")
		o.f(GammaLn(r.num()));
	else if(op == "d_inv_erf")
		o.f(Inv_Erf(r.num()));
	else if(op == "d_find_root")
	{
		// Find_Root on erf(x) - p, as Inv_Erf states its request; p is recovered from the function value at 0 (= -p)
		double xl = r.num(), xr = r.num(), acc = r.num();
		r.num();
		double p = -r.num();
		r.num();
		o.f(Find_Root([p](double x) { return erf(x) - p; }, xl, xr, acc));
	}
	else if(op == "d_binom")
	{
		long n = r.integer(), k = r.integer();
		o.f(Binomial_Coefficient(n, k));
	}
	else
		o.w("HARNESSERR unknown_op");
}
// Requests of the likelihood family are call histories: each such case line is answered by a process of its own, forked from the worker
// before the worker has made the calls of that line, so that what a case observes depends on the calls written in the case line only
// (and a replay of the line alone sees the same history).  The child's outcome (exit status, signal) becomes the worker's outcome.
static bool is_history(const std::string& w) { return w == "lik" || w == "lik0" || w == "likseq" || w == "liksess" || w == "binned" || w == "binned0"; }
static void handler(vh::Reader& r, vh::Out& o)
{
	if(r.i >= r.t.size() || !is_history(r.t[r.i]))
	{
		do_case(r, o);
		return;
	}
	int pfd[2];
	if(pipe(pfd) != 0)
	{
		o.w("HARNESSERR no_pipe");
		return;
	}
	fflush(stdout);
	fflush(stderr);
	pid_t pid = fork();
	if(pid < 0)
	{
		o.w("HARNESSERR no_fork");
		return;
	}
	if(pid == 0)
	{
		close(pfd[0]);
		alarm(18);
		vh::Out oc;
		do_case(r, oc);
		std::string t = oc.s.str() + "\n";
		size_t off	  = 0;
		while(off < t.size())
		{
			ssize_t w = write(pfd[1], t.c_str() + off, t.size() - off);
			if(w <= 0)
				break;
			off += w;
		}
		fflush(stdout);
		fflush(stderr);
		_exit(0);
	}
	close(pfd[1]);
	std::string ans;
	char b[4096];
	ssize_t k;
	while((k = read(pfd[0], b, sizeof b)) > 0)
		ans.append(b, k);
	close(pfd[0]);
	int st = 0;
	waitpid(pid, &st, 0);
	if(WIFSIGNALED(st))
	{
		signal(WTERMSIG(st), SIG_DFL);
		raise(WTERMSIG(st));
		_exit(1);
	}
	if(!WIFEXITED(st) || WEXITSTATUS(st) != 0)
		_exit(WIFEXITED(st) ? WEXITSTATUS(st) : 1);
	while(!ans.empty() && (ans.back() == '\n' || ans.back() == ' '))
		ans.pop_back();
	o.w(ans);
}
int main(int argc, char** argv) { return vh::run(argc, argv, handler); }
