// C06 harness: runs libphysica's gamma-function family on the case file (see checks/C06.py for the case grammar)
#include "common.hpp"
#include "libphysica/Special_Functions.hpp"
namespace libphysica
{
// defined in src/Special_Functions.cpp with external linkage, not declared in the header
double GammaQint(double x, double a);
double GammaPser(double x, double a);
double GammaQcf(double x, double a);
}	// namespace libphysica
using namespace libphysica;
static void handler(vh::Reader& r, vh::Out& o)
{
	std::string op = r.word();
	if(op == "fact")
	{
		// a history of Factorial calls; the memo table is whatever earlier cases of this worker left behind
		std::vector<long> ns = r.ilist();
		o.i((long) ns.size());
		for(long n : ns)
			o.f(Factorial((unsigned int) n));
	}
	else if(op == "binom")
	{
		long n = r.integer(), k = r.integer();
		o.f(Binomial_Coefficient((int) n, (int) k));
	}
	else if(op == "binomhist")
	{
		long m = r.integer();
		o.i(m);
		for(long j = 0; j < m; j++)
		{
			long n = r.integer(), k = r.integer();
			o.f(Binomial_Coefficient((int) n, (int) k));
		}
	}
	else if(op == "gammaln")
		o.f(GammaLn(r.num()));
	else if(op == "gamma")
		o.f(Gamma(r.num()));
	else if(op == "gamrec")
	{
		// GammaLn(x), GammaLn(x+1), Gamma(x), Gamma(x+1): the recurrence Gamma(x+1) = x Gamma(x)
		double x = r.num();
		o.f(GammaLn(x));
		o.f(GammaLn(x + 1.0));
		o.f(Gamma(x));
		o.f(Gamma(x + 1.0));
	}
	else if(op == "gammaq" || op == "gammap" || op == "qint" || op == "pser" || op == "qcf" || op == "upper" || op == "lower")
	{
		double x = r.num(), a = r.num();
		if(op == "gammaq")
			o.f(GammaQ(x, a));
		else if(op == "gammap")
			o.f(GammaP(x, a));
		else if(op == "qint")
			o.f(GammaQint(x, a));
		else if(op == "pser")
			o.f(GammaPser(x, a));
		else if(op == "qcf")
			o.f(GammaQcf(x, a));
		else if(op == "upper")
			o.f(Upper_Incomplete_Gamma(x, a));
		else
			o.f(Lower_Incomplete_Gamma(x, a));
	}
	else if(op == "pq")
	{
		double x = r.num(), a = r.num();
		o.f(GammaQ(x, a));
		o.f(GammaP(x, a));
		o.f(Upper_Incomplete_Gamma(x, a));
		o.f(Lower_Incomplete_Gamma(x, a));
		o.f(Gamma(a));
	}
	else if(op == "qmono")
	{
		double a			  = r.num();
		std::vector<double> xs = r.list();
		o.i((long) xs.size());
		for(double x : xs)
			o.f(GammaQ(x, a));
	}
	else if(op == "invp")
	{
		double p = r.num(), a = r.num();
		double x = Inv_GammaP(p, a);
		o.f(x);
		o.f(GammaP(x, a));
	}
	else if(op == "invq")
	{
		double q = r.num(), a = r.num();
		double x = Inv_GammaQ(q, a);
		o.f(x);
		o.f(GammaQ(x, a));
	}
	else
		o.w("HARNESSERR unknown_op");
}
int main(int argc, char** argv) { return vh::run(argc, argv, handler); }
