// C06 harness: runs libphysica's gamma-function family on the case file (see checks/C06.py for the case grammar)
#include "common.hpp"
#include "libphysica/Special_Functions.hpp"
#include "libphysica/Integration.hpp"
#include <sstream>
namespace libphysica
{
// defined in src/Special_Functions.cpp with external linkage, not declared in the header
double GammaQint(double x, double a);
double GammaPser(double x, double a);
double GammaQcf(double x, double a);
}	// namespace libphysica
using namespace libphysica;
#include <cerrno>
#include <sys/socket.h>

// ---------- one call of the family, as it appears inside a "seq" case ----------
//   gammaln x | gamma x | gammaq x a | gammap x a | upper x a | lower x a | invp p a | invq q a | fact n | binom n k
static double one_call(vh::Reader& r)
{
	std::string op = r.word();
	if(op == "fact")
		return Factorial((unsigned int) r.integer());
	if(op == "binom")
	{
		long n = r.integer(), k = r.integer();
		return Binomial_Coefficient((int) n, (int) k);
	}
	if(op == "gammaln")
		return GammaLn(r.num());
	if(op == "gamma")
		return Gamma(r.num());
	double u = r.num(), a = r.num();
	if(op == "gammaq")
		return GammaQ(u, a);
	if(op == "gammap")
		return GammaP(u, a);
	if(op == "upper")
		return Upper_Incomplete_Gamma(u, a);
	if(op == "lower")
		return Lower_Incomplete_Gamma(u, a);
	if(op == "invp")
		return Inv_GammaP(u, a);
	if(op == "invq")
		return Inv_GammaQ(u, a);
	fprintf(stderr, "harness: unknown call %s\n", op.c_str());
	_exit(77);
}
static bool is_value(const std::string& t) { return t == "nan" || t == "inf" || t == "-inf" || t.compare(0, 2, "0x") == 0 || t.compare(0, 3, "-0x") == 0; }
static size_t call_arity(const std::string& op) { return (op == "gammaln" || op == "gamma" || op == "fact") ? 1 : 2; }

// ---------- pristine-process server ----------
// Started by main() before any library function has run.  A request "<id> <m> call_1 .. call_m" is answered by a
// process forked from the server (so: a process in which no library function has been called yet) that makes the m
// calls one after the other and replies "<id> v_1 .. v_m"; when the library ends that process the reply is
// "<id> EXIT" (TIMEOUT, CRASH sig=n, SANITIZER n).  A "seq" case asks once for the whole history and once per call
// for the answer of a fresh process, so its result does not depend on what the worker has run before.
static int g_srv = -1;
static bool read_line(int fd, std::string& l)
{
	l.clear();
	char c;
	for(;;)
	{
		ssize_t n = read(fd, &c, 1);
		if(n == 0)
			return false;
		if(n < 0)
		{
			if(errno == EINTR)
				continue;
			return false;
		}
		if(c == '\n')
			return true;
		l.push_back(c);
	}
}
static void write_all(int fd, const std::string& s)
{
	size_t k = 0;
	while(k < s.size())
	{
		ssize_t n = write(fd, s.data() + k, s.size() - k);
		if(n <= 0)
		{
			if(n < 0 && errno == EINTR)
				continue;
			return;
		}
		k += (size_t) n;
	}
}
static void start_server()
{
	int sv[2];
	if(socketpair(AF_UNIX, SOCK_STREAM, 0, sv) != 0)
		return;
	fflush(stdout);
	fflush(stderr);
	pid_t pid = fork();
	if(pid != 0)
	{
		close(sv[1]);
		g_srv = sv[0];
		return;
	}
	close(sv[0]);
	signal(SIGPIPE, SIG_IGN);
	int fd = sv[1];
	std::string l;
	while(read_line(fd, l))
	{
		vh::Reader r(l);
		std::string id = r.word();
		pid_t g		   = fork();
		if(g == 0)
		{
			int nul = open("/dev/null", O_WRONLY);
			dup2(nul, 1);
			dup2(nul, 2);
			alarm(20);
			long m = r.integer();
			vh::Out o;
			for(long j = 0; j < m; j++)
				o.f(one_call(r));
			write_all(fd, id + " " + o.s.str() + "\n");
			_exit(0);
		}
		int st = 0;
		waitpid(g, &st, 0);
		if(WIFEXITED(st) && WEXITSTATUS(st) == 0)
			continue;
		std::string why;
		if(WIFEXITED(st) && (WEXITSTATUS(st) == 99 || WEXITSTATUS(st) == 98))
			why = "SANITIZER " + std::to_string(WEXITSTATUS(st));
		else if(WIFEXITED(st) && WEXITSTATUS(st) == 77)
			why = "HARNESSERR";
		else if(WIFEXITED(st))
			why = "EXIT";
		else if(WIFSIGNALED(st) && WTERMSIG(st) == SIGALRM)
			why = "TIMEOUT";
		else
			why = "CRASH sig=" + std::to_string(WIFSIGNALED(st) ? WTERMSIG(st) : 0);
		write_all(fd, id + " " + why + "\n");
	}
	_exit(0);
}
// the reply to "m calls" from a pristine process (without the id)
static std::string ask_server(const std::string& calls, long m)
{
	static long counter = 0;
	std::string id		= std::to_string((long) getpid()) + "." + std::to_string(++counter);
	write_all(g_srv, id + " " + std::to_string(m) + " " + calls + "\n");
	std::string l;
	while(read_line(g_srv, l))
	{
		// replies to requests of a worker that died meanwhile are skipped
		if(l.compare(0, id.size() + 1, id + " ") == 0)
			return l.substr(id.size() + 1);
	}
	return "HARNESSERR server_gone";
}

static void handler(vh::Reader& r, vh::Out& o)
{
	std::string op = r.word();
	if(op == "seq")
	{
		// seq m call_1 .. call_m : a history of calls in ONE process that has run nothing else before, and next to each
		// answer the answer of a fresh process to the same call.  Output: m h_1 f_1 .. h_m f_m
		long m = r.integer();
		std::vector<std::string> calls;
		std::string all;
		for(long j = 0; j < m; j++)
		{
			std::string c = r.word();
			size_t ar	  = call_arity(c);
			for(size_t k = 0; k < ar; k++)
				c += " " + r.word();
			calls.push_back(c);
			all += (j ? " " : "") + c;
		}
		std::string hist = ask_server(all, m);
		vh::Reader hr(hist);
		if(hr.t.size() != (size_t) m || !is_value(hr.t[0]))
		{
			o.w(hist);	 // EXIT, TIMEOUT, CRASH sig=n, SANITIZER n
			return;
		}
		o.i(m);
		for(long j = 0; j < m; j++)
		{
			o.w(hr.t[j]);
			std::string fr = ask_server(calls[j], 1);
			vh::Reader fr_r(fr);
			o.w(fr_r.t.size() == 1 && is_value(fr) ? fr : std::string("FRESH_") + fr_r.t[0]);
		}
	}
	else if(op == "fact")
	{
		// a history of Factorial calls; the memo table is whatever earlier cases of this worker left behind
		std::vector<long> ns = r.ilist();
		o.i((long) ns.size());
		for(long n : ns)
			o.f(Factorial((unsigned int) n));
	}
	else if(op == "binom")
	{
		long n = r.integer(), k = r.integer();
		o.f(Binomial_Coefficient((int) n, (int) k));
	}
	else if(op == "binomhist")
	{
		long m = r.integer();
		o.i(m);
		for(long j = 0; j < m; j++)
		{
			long n = r.integer(), k = r.integer();
			o.f(Binomial_Coefficient((int) n, (int) k));
		}
	}
	else if(op == "gammaln")
		o.f(GammaLn(r.num()));
	else if(op == "gamma")
		o.f(Gamma(r.num()));
	else if(op == "gamrec")
	{
		// GammaLn(x), GammaLn(x+1), Gamma(x), Gamma(x+1): the recurrence Gamma(x+1) = x Gamma(x)
		double x = r.num();
		o.f(GammaLn(x));
		o.f(GammaLn(x + 1.0));
		o.f(Gamma(x));
		o.f(Gamma(x + 1.0));
	}
	else if(op == "gammaq" || op == "gammap" || op == "qint" || op == "pser" || op == "qcf" || op == "upper" || op == "lower")
	{
		double x = r.num(), a = r.num();
		if(op == "gammaq")
			o.f(GammaQ(x, a));
		else if(op == "gammap")
			o.f(GammaP(x, a));
		else if(op == "qint")
			o.f(GammaQint(x, a));
		else if(op == "pser")
			o.f(GammaPser(x, a));
		else if(op == "qcf")
			o.f(GammaQcf(x, a));
		else if(op == "upper")
			o.f(Upper_Incomplete_Gamma(x, a));
		else
			o.f(Lower_Incomplete_Gamma(x, a));
	}
	else if(op == "qintw" || op == "integw")
	{
		// the diagnostics Integrate prints on std::cout (src/Integration.cpp:92-100) are captured and counted
		std::ostringstream cap;
		std::streambuf* old = std::cout.rdbuf(cap.rdbuf());
		double v;
		if(op == "qintw")
		{
			double x = r.num(), a = r.num();
			v = GammaQint(x, a);
		}
		else
		{
			auto f = vh::fun1(vh::parse_fexpr(r));
			double a = r.num(), b = r.num(), e = r.num();
			long d = r.integer();
			v = Integrate(f, a, b, e, (int) d);
		}
		std::cout.rdbuf(old);
		std::string t = cap.str();
		long nw = 0, nn = 0;
		for(size_t p = 0; (p = t.find("did not converge", p)) != std::string::npos; p++)
			nw++;
		for(size_t p = 0; (p = t.find("Result is nan", p)) != std::string::npos; p++)
			nn++;
		o.f(v);
		o.i(nw);
		o.i(nn);
	}
	else if(op == "pq")
	{
		double x = r.num(), a = r.num();
		o.f(GammaQ(x, a));
		o.f(GammaP(x, a));
		o.f(Upper_Incomplete_Gamma(x, a));
		o.f(Lower_Incomplete_Gamma(x, a));
		o.f(Gamma(a));
	}
	else if(op == "qmono")
	{
		double a			  = r.num();
		std::vector<double> xs = r.list();
		o.i((long) xs.size());
		for(double x : xs)
			o.f(GammaQ(x, a));
	}
	else if(op == "invp")
	{
		double p = r.num(), a = r.num();
		double x = Inv_GammaP(p, a);
		o.f(x);
		o.f(GammaP(x, a));
	}
	else if(op == "invq")
	{
		double q = r.num(), a = r.num();
		double x = Inv_GammaQ(q, a);
		o.f(x);
		o.f(GammaQ(x, a));
	}
	else
		o.w("HARNESSERR unknown_op");
}
int main(int argc, char** argv)
{
	start_server();
	return vh::run(argc, argv, handler);
}
