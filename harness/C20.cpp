// C20 harness: In_Units overloads, Reduced_Mass, and the export/import round trip through real files
// (see checks/C20.py for the case grammar).  File paths come from the case line.
#include "common.hpp"
#include "libphysica/Linear_Algebra.hpp"
#include "libphysica/Natural_Units.hpp"
#include "libphysica/Utilities.hpp"
// defined in Utilities.cpp with external linkage, not declared in Utilities.hpp
namespace libphysica
{
extern unsigned int Count_Lines(std::string filepath);
}
using namespace libphysica;
using namespace libphysica::natural_units;

// header text: "-" = empty string, otherwise hex-encoded bytes
static std::string unhex(const std::string& h)
{
	if(h == "-")
		return "";
	std::string s;
	for(size_t k = 0; k + 1 < h.size(); k += 2)
		s.push_back((char) std::strtol(h.substr(k, 2).c_str(), nullptr, 16));
	return s;
}
static unsigned int header_lines(const std::string& h)
{
	if(h.empty())
		return 0;
	unsigned int n = 1;
	for(char c : h)
		if(c == '\n')
			n++;
	return n;
}
static void ensure_dir(const std::string& path)
{
	size_t p = path.rfind('/');
	if(p == std::string::npos)
		return;
	std::string d = path.substr(0, p);
	struct stat sb;
	if(stat(d.c_str(), &sb) != 0)
		mkdir(d.c_str(), 0755);
}
static void put_table(vh::Out& o, const std::vector<std::vector<double>>& t)
{
	o.i((long) t.size());
	for(auto& row : t)
		o.fl(row);
}
static void handler(vh::Reader& r, vh::Out& o)
{
	std::string op = r.word();
	if(op == "in_units_s")
	{
		double q = r.num(), dim = r.num();
		long rd = r.integer(), dg = r.integer();
		o.f(In_Units(q, dim, rd != 0, (int) dg));
	}
	else if(op == "in_units_l")
	{
		auto q	   = r.list();
		double dim = r.num();
		long rd = r.integer(), dg = r.integer();
		o.fl(In_Units(q, dim, rd != 0, (int) dg));
	}
	else if(op == "in_units_v")
	{
		Vector q(r.list());
		double dim = r.num();
		long rd = r.integer(), dg = r.integer();
		Vector res = In_Units(q, dim, rd != 0, (int) dg);
		o.i(res.Size());
		for(unsigned int i = 0; i < res.Size(); i++)
			o.f(res[i]);
	}
	else if(op == "in_units_t")
	{
		auto q	   = r.table();
		double dim = r.num();
		long rd = r.integer(), dg = r.integer();
		put_table(o, In_Units(q, dim, rd != 0, (int) dg));
	}
	else if(op == "in_units_m")
	{
		auto q = r.table();	  // rectangular, >= 1 row, >= 1 column
		Matrix M(q);
		double dim = r.num();
		long rd = r.integer(), dg = r.integer();
		Matrix res = In_Units(M, dim, rd != 0, (int) dg);
		o.i(res.Rows());
		for(unsigned int i = 0; i < res.Rows(); i++)
		{
			o.i(res.Columns());
			for(unsigned int j = 0; j < res.Columns(); j++)
				o.f(res[i][j]);
		}
	}
	else if(op == "in_units_td")
	{
		auto q	  = r.table();
		auto dims = r.list();
		long rd = r.integer(), dg = r.integer();
		put_table(o, In_Units(q, dims, rd != 0, (int) dg));
	}
	else if(op == "reduced_mass")
	{
		double a = r.num(), b = r.num();
		o.f(Reduced_Mass(a, b));
	}
	else if(op == "rt_list")
	{
		std::string path = r.word(), header = unhex(r.word());
		auto data  = r.list();
		double dim = r.num();
		ensure_dir(path);
		std::remove(path.c_str());
		Export_List(path, data, dim, header);
		o.i(Count_Lines(path));
		o.fl(Import_List(path, dim, header_lines(header)));
	}
	else if(op == "rt_table")
	{
		std::string path = r.word(), header = unhex(r.word());
		auto data = r.table();
		auto dims = r.list();
		long ign  = r.integer();
		ensure_dir(path);
		std::remove(path.c_str());
		Export_Table(path, data, dims, header);
		o.i(Count_Lines(path));
		put_table(o, Import_Table(path, dims, ign < 0 ? header_lines(header) : (unsigned int) ign));
	}
	else if(op == "rt_func")
	{
		std::string path = r.word(), header = unhex(r.word());
		auto f	  = vh::fun1(vh::parse_fexpr(r));
		auto xs	  = r.list();
		auto dims = r.list();
		ensure_dir(path);
		std::remove(path.c_str());
		Export_Function(path, f, xs, dims, header);
		o.i(Count_Lines(path));
		put_table(o, Import_Table(path, dims, header_lines(header)));
	}
	else if(op == "rt_func2")
	{
		std::string path = r.word(), header = unhex(r.word());
		auto f	  = vh::fun1(vh::parse_fexpr(r));
		double a = r.num(), b = r.num();
		long steps = r.integer();
		auto dims  = r.list();
		long lg	   = r.integer();
		ensure_dir(path);
		std::remove(path.c_str());
		Export_Function(path, f, a, b, (unsigned int) steps, dims, lg != 0, header);
		o.i(Count_Lines(path));
		put_table(o, Import_Table(path, dims, header_lines(header)));
	}
	else if(op == "import_missing")
	{
		std::string path = r.word();
		long which		 = r.integer();
		std::remove(path.c_str());
		o.i(Count_Lines(path));
		if(which == 0)
			o.fl(Import_List(path, 1.0, 0));
		else
			put_table(o, Import_Table(path, {}, 0));
	}
	else if(op == "import_raw")
	{
		// a file given literally: nl lines, each "k tok1 .. tokk"; term = 1 when the last line ends with a newline
		std::string path = r.word();
		long which = r.integer(), term = r.integer(), nl = r.integer();
		ensure_dir(path);
		{
			std::ofstream f(path);
			for(long l = 0; l < nl; l++)
			{
				long k = r.integer();
				for(long j = 0; j < k; j++)
					f << (j ? "\t" : "") << r.word();
				if(l + 1 < nl || term)
					f << "\n";
			}
		}
		auto dims = r.list();
		long ign  = r.integer();
		o.i(Count_Lines(path));
		if(which == 0)
			o.fl(Import_List(path, dims.empty() ? 1.0 : dims[0], (unsigned int) ign));
		else
			put_table(o, Import_Table(path, dims, (unsigned int) ign));
	}
	else if(op == "units")
		o.w("see-extra-stage");	  // unit configurations are checked by checks/C20.py:extra (replay placeholder)
	else
		o.w("HARNESSERR unknown_op");
}
int main(int argc, char** argv) { return vh::run(argc, argv, handler); }
