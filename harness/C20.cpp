// C20 harness: In_Units overloads, Reduced_Mass, and the export/import round trip through real files
// (see checks/C20.py for the case grammar).  File paths come from the case line.
#include "common.hpp"
#include "libphysica/Linear_Algebra.hpp"
#include "libphysica/Natural_Units.hpp"
#include "libphysica/Utilities.hpp"
#include <sys/resource.h>
// defined in Utilities.cpp with external linkage, not declared in Utilities.hpp
namespace libphysica
{
extern unsigned int Count_Lines(std::string filepath);
}
using namespace libphysica;
using namespace libphysica::natural_units;

// the unit constants by name (seventh pass: `unit_fold` / `unit_start` cases compare each with the model's double evaluation of its initialiser)
#define C20_UNIT_NAMES(X) \
	X(yotta) X(zetta) X(exa) X(peta) X(tera) X(giga) X(mega) X(kilo) \
	X(hecto) X(deca) X(deci) X(centi) X(milli) X(micro) X(nano) X(pico) \
	X(femto) X(atto) X(zepto) X(yocto) X(deg) X(arcmin) X(arcsec) X(GeV) \
	X(meV) X(eV) X(keV) X(MeV) X(TeV) X(PeV) X(Joule) X(erg) \
	X(Rydberg) X(cal) X(gram) X(kg) X(tonne) X(lbs) X(AMU) X(cm) \
	X(mm) X(meter) X(km) X(fm) X(inch) X(foot) X(yard) X(mile) \
	X(Angstrom) X(Bohr_Radius) X(barn) X(pb) X(acre) X(hectare) X(sec) X(ms) \
	X(ns) X(minute) X(hr) X(day) X(week) X(year) X(Hz) X(Newton) \
	X(dyne) X(Watt) X(Pa) X(hPa) X(kPa) X(bar) X(barye) X(Kelvin) \
	X(Elementary_Charge) X(Coulomb) X(Volt) X(Ampere) X(Farad) X(Tesla) X(Gauss) X(Weber) \
	X(Ohm) X(Siemens) X(mole) X(mProton) X(mNeutron) X(mNucleon) X(mUp) X(mDown) \
	X(mCharm) X(mStrange) X(mTop) X(mBottom) X(mElectron) X(mMuon) X(mTau) X(mZ) \
	X(mW) X(mHiggs) X(aEM) X(mPlanck) X(mPlanck_reduced) X(G_Newton) X(G_Fermi) X(Higgs_VeV) \
	X(QCD_scale) X(mEarth) X(mSun) X(rEarth) X(rSun) X(AU) X(pc) X(kpc) \
	X(Mpc) X(ly)
static bool unit_by_name(const std::string& n, double& v)
{
#define X(NAME) \
	if(n == #NAME) \
	{ \
		v = libphysica::natural_units::NAME; \
		return true; \
	}
	C20_UNIT_NAMES(X)
#undef X
	return false;
}

// header text: "-" = empty string, otherwise hex-encoded bytes
static std::string unhex(const std::string& h)
{
	if(h == "-")
		return "";
	std::string s;
	for(size_t k = 0; k + 1 < h.size(); k += 2)
		s.push_back((char) std::strtol(h.substr(k, 2).c_str(), nullptr, 16));
	return s;
}
static unsigned int header_lines(const std::string& h)
{
	if(h.empty())
		return 0;
	unsigned int n = 1;
	for(char c : h)
		if(c == '\n')
			n++;
	return n;
}
static void ensure_dir(const std::string& path)
{
	size_t p = path.rfind('/');
	if(p == std::string::npos)
		return;
	std::string d = path.substr(0, p);
	struct stat sb;
	if(stat(d.c_str(), &sb) != 0)
		mkdir(d.c_str(), 0755);
}
// ---------- ambient process state (case prefix "amb <spec>") ----------
// The export / import functions build their streams themselves; whatever the program has set up process-wide before calling
// them is part of the situation the property quantifies over ("for any finite values and units" - in any program).
// spec = items joined by '+':
//   dpXX   global C++ locale (std::locale::global) whose numpunct has the decimal point 0xXX
//   tsXX   ... the thousands separator 0xXX          grD..  ... the grouping D.. (one digit per group size, e.g. gr3, gr32)
//   cpN    std::cout.precision(N)                   cff / cfs / cfh   std::cout floatfield fixed / scientific / hexfloat
//   preN   the path already holds a file of N bytes (numeric lines) when Export_* is called (instead of no file)
//   rel    the working directory is the file's directory and the path is given relative to it
//   nofN   the soft limit on open file descriptors (RLIMIT_NOFILE) of the process is N (256 is the default of several
//          systems, users lower it with `ulimit -n`); restored afterwards.  A request that leaves descriptors (or other
//          per-process resources) behind works for a while and then stops working: long sessions reach the limit.
// The arguments of the case are read before the state is installed and the answer is printed after it was restored.
struct Punct : std::numpunct<char>
{
	char dp, ts;
	std::string gr;
	Punct(char d, char t, const std::string& g) : dp(d), ts(t), gr(g) {}
	char do_decimal_point() const override { return dp; }
	char do_thousands_sep() const override { return ts; }
	std::string do_grouping() const override { return gr; }
};
struct Ambient
{
	bool locale = false, rel = false, inside = false;
	char dp = '.', ts = ',';
	std::string gr;
	long cout_precision = -1, pre = -1, nofile = -1;
	struct rlimit rl_saved;
	char cout_float = 0;
	std::string cwd_saved;
	void parse(const std::string& spec)
	{
		std::istringstream is(spec);
		std::string it;
		while(std::getline(is, it, '+'))
		{
			if(it.compare(0, 2, "dp") == 0)
				locale = true, dp = (char) std::strtol(it.c_str() + 2, nullptr, 16);
			else if(it.compare(0, 2, "ts") == 0)
				locale = true, ts = (char) std::strtol(it.c_str() + 2, nullptr, 16);
			else if(it.compare(0, 2, "gr") == 0)
			{
				locale = true;
				for(size_t k = 2; k < it.size(); k++)
					gr.push_back((char) (it[k] - '0'));
			}
			else if(it.compare(0, 2, "cp") == 0)
				cout_precision = std::strtol(it.c_str() + 2, nullptr, 10);
			else if(it.compare(0, 2, "cf") == 0 && it.size() == 3)
				cout_float = it[2];
			else if(it.compare(0, 3, "pre") == 0)
				pre = std::strtol(it.c_str() + 3, nullptr, 10);
			else if(it == "rel")
				rel = true;
			else if(it.compare(0, 3, "nof") == 0)
				nofile = std::strtol(it.c_str() + 3, nullptr, 10);
			else
			{
				fprintf(stderr, "harness: unknown ambient item %s\n", it.c_str());
				_exit(77);
			}
		}
	}
	// the file the writers will find at the path: none, or old content longer than what is about to be written
	std::string prepare(const std::string& path)
	{
		std::remove(path.c_str());
		if(pre >= 0)
		{
			FILE* f = std::fopen(path.c_str(), "w");
			if(f)
			{
				const char* old = "7.5\t7.5\n";
				for(long k = 0; k < pre; k++)
					std::fputc(old[k % 8], f);
				std::fclose(f);
			}
		}
		if(!rel)
			return path;
		size_t p = path.rfind('/');
		return p == std::string::npos ? path : path.substr(p + 1);
	}
	void enter(const std::string& path)
	{
		inside = true;
		if(rel)
		{
			char buf[4096];
			cwd_saved = getcwd(buf, sizeof buf) ? buf : "";
			size_t p  = path.rfind('/');
			if(p != std::string::npos && chdir(path.substr(0, p).c_str()) != 0) {}
		}
		if(cout_precision >= 0)
			std::cout.precision(cout_precision);
		if(cout_float == 'f')
			std::cout.setf(std::ios_base::fixed, std::ios_base::floatfield);
		else if(cout_float == 's')
			std::cout.setf(std::ios_base::scientific, std::ios_base::floatfield);
		else if(cout_float == 'h')
			std::cout.setf(std::ios_base::fixed | std::ios_base::scientific, std::ios_base::floatfield);
		if(locale)
			std::locale::global(std::locale(std::locale::classic(), new Punct(dp, ts, gr)));
		if(nofile >= 0 && getrlimit(RLIMIT_NOFILE, &rl_saved) == 0)
		{
			struct rlimit rl = rl_saved;
			if(rl.rlim_max == RLIM_INFINITY || (rlim_t) nofile <= rl.rlim_max)
				rl.rlim_cur = (rlim_t) nofile;
			if(setrlimit(RLIMIT_NOFILE, &rl) != 0)
				nofile = -1;
		}
		else
			nofile = -1;
	}
	void leave()
	{
		if(!inside)
			return;
		inside = false;
		if(nofile >= 0)
			setrlimit(RLIMIT_NOFILE, &rl_saved);
		if(locale)
			std::locale::global(std::locale::classic());
		std::cout.precision(6);
		std::cout.unsetf(std::ios_base::floatfield);
		if(rel && !cwd_saved.empty() && chdir(cwd_saved.c_str()) != 0) {}
	}
};
static Ambient A;

static void put_table(vh::Out& o, const std::vector<std::vector<double>>& t)
{
	o.i((long) t.size());
	for(auto& row : t)
		o.fl(row);
}
static void handler(vh::Reader& r, vh::Out& o)
{
	std::string op = r.word();
	A			   = Ambient();
	if(op == "amb")
	{
		A.parse(r.word());
		op = r.word();
		if(op.compare(0, 3, "rt_") != 0 && op != "session" && op != "lsession")
		{
			o.w("HARNESSERR ambient_state_only_for_round_trips");
			return;
		}
	}
	if(op == "in_units_s")
	{
		double q = r.num(), dim = r.num();
		long rd = r.integer(), dg = r.integer();
		o.f(In_Units(q, dim, rd != 0, (int) dg));
	}
	else if(op == "in_units_l")
	{
		auto q	   = r.list();
		double dim = r.num();
		long rd = r.integer(), dg = r.integer();
		o.fl(In_Units(q, dim, rd != 0, (int) dg));
	}
	else if(op == "in_units_v")
	{
		Vector q(r.list());
		double dim = r.num();
		long rd = r.integer(), dg = r.integer();
		Vector res = In_Units(q, dim, rd != 0, (int) dg);
		o.i(res.Size());
		for(unsigned int i = 0; i < res.Size(); i++)
			o.f(res[i]);
	}
	else if(op == "in_units_t")
	{
		auto q	   = r.table();
		double dim = r.num();
		long rd = r.integer(), dg = r.integer();
		put_table(o, In_Units(q, dim, rd != 0, (int) dg));
	}
	else if(op == "in_units_m")
	{
		auto q = r.table();	  // rectangular, >= 1 row, >= 1 column
		Matrix M(q);
		double dim = r.num();
		long rd = r.integer(), dg = r.integer();
		Matrix res = In_Units(M, dim, rd != 0, (int) dg);
		o.i(res.Rows());
		for(unsigned int i = 0; i < res.Rows(); i++)
		{
			o.i(res.Columns());
			for(unsigned int j = 0; j < res.Columns(); j++)
				o.f(res[i][j]);
		}
	}
	else if(op == "in_units_td")
	{
		auto q	  = r.table();
		auto dims = r.list();
		long rd = r.integer(), dg = r.integer();
		put_table(o, In_Units(q, dims, rd != 0, (int) dg));
	}
	else if(op == "reduced_mass")
	{
		double a = r.num(), b = r.num();
		o.f(Reduced_Mass(a, b));
	}
	else if(op == "rt_list")
	{
		std::string path = r.word(), header = unhex(r.word());
		auto data  = r.list();
		double dim = r.num();
		ensure_dir(path);
		std::string p = A.prepare(path);
		A.enter(path);
		Export_List(p, data, dim, header);
		unsigned int n = Count_Lines(p);
		auto back	   = Import_List(p, dim, header_lines(header));
		A.leave();
		o.i(n);
		o.fl(back);
	}
	else if(op == "rt_table")
	{
		std::string path = r.word(), header = unhex(r.word());
		auto data = r.table();
		auto dims = r.list();
		long ign  = r.integer();
		ensure_dir(path);
		std::string p = A.prepare(path);
		A.enter(path);
		Export_Table(p, data, dims, header);
		unsigned int n = Count_Lines(p);
		auto back	   = Import_Table(p, dims, ign < 0 ? header_lines(header) : (unsigned int) ign);
		A.leave();
		o.i(n);
		put_table(o, back);
	}
	else if(op == "rt_func")
	{
		std::string path = r.word(), header = unhex(r.word());
		auto f	  = vh::fun1(vh::parse_fexpr(r));
		auto xs	  = r.list();
		auto dims = r.list();
		ensure_dir(path);
		std::string p = A.prepare(path);
		A.enter(path);
		Export_Function(p, f, xs, dims, header);
		unsigned int n = Count_Lines(p);
		auto back	   = Import_Table(p, dims, header_lines(header));
		A.leave();
		o.i(n);
		put_table(o, back);
	}
	else if(op == "rt_func2")
	{
		std::string path = r.word(), header = unhex(r.word());
		auto f	  = vh::fun1(vh::parse_fexpr(r));
		double a = r.num(), b = r.num();
		long steps = r.integer();
		auto dims  = r.list();
		long lg	   = r.integer();
		ensure_dir(path);
		std::string p = A.prepare(path);
		A.enter(path);
		Export_Function(p, f, a, b, (unsigned int) steps, dims, lg != 0, header);
		unsigned int n = Count_Lines(p);
		auto back	   = Import_Table(p, dims, header_lines(header));
		A.leave();
		o.i(n);
		put_table(o, back);
	}
	else if(op == "session" || op == "lsession")
	{
		// lsession <reps> <np> ...: the same grammar, the block of calls is made <reps> times over in the one process
		// (every answer of every repetition is printed);   fe <i> = File_Exists(path i) -> 0 / 1
		// several calls in ONE process: session <np> <path>.. <nops> then per call
		//   el <i> <header> <list> <dim> | et <i> <header> <table> <dims> | il <i> <dim> <ign> | it <i> <dims> <ign> | cl <i>
		//   ef <i> <header> <fexpr> <x_list> <dims>                         (Export_Function over a list of arguments)
		//   er <i> <header> <fexpr> <xMin> <xMax> <steps> <dims> <log>      (Export_Function over a range)
		// every path starts out absent (or, under "amb pre<N>", holding an old file); answers: il -> list, it -> table, cl -> count
		struct Call
		{
			std::string kind, header;
			long path = 0, ign = 0;
			double dim = 1.0, a = 0.0, b = 0.0;
			long steps = 0, lg = 0;
			std::function<double(double)> func;
			std::vector<double> list, xs;
			std::vector<std::vector<double>> table;
		};
		struct Answer
		{
			char kind;
			long count;
			std::vector<double> list;
			std::vector<std::vector<double>> table;
		};
		long reps = op == "lsession" ? r.integer() : 1;
		long np	  = r.integer();
		std::vector<std::string> paths, use;
		for(long k = 0; k < np; k++)
			paths.push_back(r.word());
		long nops = r.integer();
		std::vector<Call> calls;
		for(long k = 0; k < nops; k++)
		{
			Call c;
			c.kind = r.word();
			c.path = r.integer();
			if(c.path < 0 || c.path >= np)
			{
				o.w("HARNESSERR path_index");
				return;
			}
			if(c.kind == "el")
				c.header = unhex(r.word()), c.list = r.list(), c.dim = r.num();
			else if(c.kind == "et")
				c.header = unhex(r.word()), c.table = r.table(), c.list = r.list();
			else if(c.kind == "ef")
			{
				c.header = unhex(r.word());
				c.func	 = vh::fun1(vh::parse_fexpr(r));
				c.xs	 = r.list();
				c.list	 = r.list();
			}
			else if(c.kind == "er")
			{
				c.header = unhex(r.word());
				c.func	 = vh::fun1(vh::parse_fexpr(r));
				c.a = r.num(), c.b = r.num();
				c.steps = r.integer();
				c.list	= r.list();
				c.lg	= r.integer();
			}
			else if(c.kind == "il")
				c.dim = r.num(), c.ign = r.integer();
			else if(c.kind == "it")
				c.list = r.list(), c.ign = r.integer();
			else if(c.kind != "cl" && c.kind != "fe")
			{
				o.w("HARNESSERR session_call");
				return;
			}
			calls.push_back(c);
		}
		for(auto& p : paths)
		{
			ensure_dir(p);
			use.push_back(A.prepare(p));
		}
		std::vector<Answer> answers;
		A.enter(paths.empty() ? std::string("x") : paths[0]);
		for(long rep = 0; rep < reps; rep++)
		for(auto& c : calls)
		{
			const std::string& p = use[c.path];
			if(c.kind == "el")
				Export_List(p, c.list, c.dim, c.header);
			else if(c.kind == "et")
				Export_Table(p, c.table, c.list, c.header);
			else if(c.kind == "ef")
				Export_Function(p, c.func, c.xs, c.list, c.header);
			else if(c.kind == "er")
				Export_Function(p, c.func, c.a, c.b, (unsigned int) c.steps, c.list, c.lg != 0, c.header);
			else if(c.kind == "il")
				answers.push_back({'l', 0, Import_List(p, c.dim, (unsigned int) c.ign), {}});
			else if(c.kind == "it")
				answers.push_back({'t', 0, {}, Import_Table(p, c.list, (unsigned int) c.ign)});
			else if(c.kind == "fe")
				answers.push_back({'c', File_Exists(p) ? 1L : 0L, {}, {}});
			else
				answers.push_back({'c', (long) Count_Lines(p), {}, {}});
		}
		A.leave();
		for(auto& a : answers)
		{
			if(a.kind == 'l')
				o.fl(a.list);
			else if(a.kind == 't')
				put_table(o, a.table);
			else
				o.i(a.count);
		}
		if(answers.empty())
			o.w("done");
	}
	else if(op == "import_missing")
	{
		std::string path = r.word();
		long which		 = r.integer();
		std::remove(path.c_str());
		o.i(Count_Lines(path));
		if(which == 0)
			o.fl(Import_List(path, 1.0, 0));
		else
			put_table(o, Import_Table(path, {}, 0));
	}
	else if(op == "import_raw")
	{
		// a file given literally: nl lines, each "k tok1 .. tokk"; term = 1 when the last line ends with a newline
		std::string path = r.word();
		long which = r.integer(), term = r.integer(), nl = r.integer();
		ensure_dir(path);
		{
			std::ofstream f(path);
			for(long l = 0; l < nl; l++)
			{
				long k = r.integer();
				for(long j = 0; j < k; j++)
					f << (j ? "\t" : "") << r.word();
				if(l + 1 < nl || term)
					f << "\n";
			}
		}
		auto dims = r.list();
		long ign  = r.integer();
		o.i(Count_Lines(path));
		if(which == 0)
			o.fl(Import_List(path, dims.empty() ? 1.0 : dims[0], (unsigned int) ign));
		else
			put_table(o, Import_Table(path, dims, (unsigned int) ign));
	}
	else if(op == "unit_fold" || op == "unit_start")
	{
		// the value the library's constant holds after start-up (the model evaluates its initialiser: folded at compile time /
		// start-up with the listed constants initialised dynamically; the list is for the model only)
		std::string name = r.word();
		double v = 0.0;
		if(unit_by_name(name, v))
			o.f(v);
		else
			o.w("HARNESSERR unknown_constant");
	}
	else if(op == "units")
		o.w("see-extra-stage");	  // unit configurations are checked by checks/C20.py:extra (replay placeholder)
	else
		o.w("HARNESSERR unknown_op");
}
int main(int argc, char** argv) { return vh::run(argc, argv, handler); }
