// C14 harness: the Monte-Carlo integrators of libphysica under the seed hook (case grammar: checks/C14.py)
//   stream  <seed> <k>                                    -> k draws of Sample_Uniform from std::mt19937(seed)
//   mc      <call>                                        -> result neval digest min_0 max_0 ... (evaluation points)
//   hist    <n> <element>*n <call>                        -> observed result in a fresh process, in this process before the n elements
//                                                            of the history, after them; number of history calls that were aborted, number of calls that changed their caller's region vector, number of
//                                                            draws of the history outside their limits, then neval digest min_0 max_0 ... of the observed call
//                                                            after the history.  An element of the history is a <call> or a use of the sampling facility the
//                                                            integrators draw from (Statistics: Sample_Uniform and the samplers built on it):
//                                                              su <seed> <k> a_1 b_1 ... a_k b_k   k draws Sample_Uniform(gen(seed), a_i, b_i)
//                                                              sg <seed> <k> <mean> <sd>           k draws Sample_Gauss
//                                                              rs <seed> <k> <xmin> <xmax>         k draws Rejection_Sampling of exp(-t^2), t = (x - xmin)/(xmax - xmin)
//   draws   <seed> <k> a_1 b_1 ... a_k b_k                -> the k draws Sample_Uniform(gen(seed), a_i, b_i)
//   mcd     <k> a_1 b_1 ... a_k b_k <call>                -> as mc; the integrand makes these k draws (from a generator of its own) at every evaluation
//   nestx   <first> <oe> <ie> <outer call> <inner call>   -> the inner call is made from the integrand of the outer call, at every evaluation, before (first = 1) or after (0) the
//                                                            integrand reads its own point; oe / ie = mc (Integrate_MC) or fe (Integrate_2D / Integrate_3D, dim 2 / 3): inner value in a fresh
//                                                            process, outer value, number of inner calls, how many differ, the first that differs, calls that changed their caller's region,
//                                                            axes on which the inner points left the inner limits, then neval digest min_0 max_0 ... of the OUTER call
//   front2d <method> <seed> <p> x1 x2 y1 y2 <fexpr>       -> Integrate_2D(...) neval digest minx maxx miny maxy
//   front3d <method> <seed> <p> x1 x2 y1 y2 z1 z2 <fexpr> -> Integrate_3D(...) ...
//   call := <method>[!<n>] <seed> <ncall> <dim> <region: 2*dim numbers {lower..., upper...}> <fexpr in v0..v9 / x y z>
//           with !<n> the integrand throws a C++ exception from its n-th evaluation (n >= 1; the point of that evaluation is still
//           recorded); the exception leaves through Integrate_MC and is caught here: the integration is ABORTED.
//           mc on such a call prints  ABORTED neval digest min_0 max_0 ...  (or the ordinary line when fewer than n evaluations were made)
// Every case runs in a process of its own with the statics of a fresh process (see "fresh processes" below); the first number of a hist line
// comes from yet another one, forked before the case's process has called the library.
#include "common.hpp"
#include "libphysica/Integration.hpp"
#include "libphysica/Linear_Algebra.hpp"
#include "libphysica/Statistics.hpp"
#include <map>
#include <random>
#include <stdexcept>
namespace libphysica
{
namespace verif
{
extern bool mc_seed_set;
extern unsigned int mc_seed;
}	// namespace verif
}	// namespace libphysica
using namespace libphysica;

struct Rec
{
	long n		  = 0;
	double digest = 0.0;
	double mn[10], mx[10];
	Rec()
	{
		for(int k = 0; k < 10; k++)
		{
			mn[k] = INFINITY;
			mx[k] = -INFINITY;
		}
	}
	void see(int k, double v)
	{
		if(v < mn[k])
			mn[k] = v;
		if(v > mx[k])
			mx[k] = v;
	}
	void point(const double* p, int dims)
	{
		n++;
		for(int k = 0; k < dims; k++)
		{
			digest += (k + 1) * p[k];
			see(k, p[k]);
		}
	}
	void put(vh::Out& o, int dims)
	{
		o.i(n);
		o.f(digest);
		for(int k = 0; k < dims; k++)
		{
			o.f(mn[k]);
			o.f(mx[k]);
		}
	}
};

struct Call
{
	std::string method;
	int defaults = 0;	// 1: the method argument is left out, 2: the budget as well
	unsigned int seed;
	int ncall;
	long throw_at = 0;	 // 0: never
	int obj		  = -1;	 // >= 0: the caller's vector object of that number
	bool front	  = false;	 // the call goes through the front end Integrate_2D (dim 2) / Integrate_3D (dim 3): limits passed one by one, no vector of the caller's
	std::vector<double> region;	  // the limits as written in the case
	std::vector<double> own;	  // the vector object handed to the library when the call names none
	std::shared_ptr<vh::FExpr> e;
	std::string text;	// the tokens of the call, as read
};
static std::map<int, std::vector<double>> g_pool;	// the caller's region vectors of a case
static std::vector<double>& region_object(Call& c)
{
	if(c.obj < 0)
		return c.own;
	auto it = g_pool.find(c.obj);
	if(it == g_pool.end())
		it = g_pool.emplace(c.obj, c.region).first;
	return it->second;
}
static bool same_bits(const std::vector<double>& a, const std::vector<double>& b)
{
	return a.size() == b.size() && (a.empty() || std::memcmp(a.data(), b.data(), a.size() * sizeof(double)) == 0);
}
struct Outcome
{
	double value = 0.0;
	bool aborted = false;
	long during	 = 0;	// evaluations at which the caller's region vector was not what the caller had put into it
	long after	 = 0;	// 1: it is not after the call
};
struct IntegrandGaveUp : public std::runtime_error
{
	IntegrandGaveUp() : std::runtime_error("integrand gave up") {}
};
// a use of the sampling facility (Statistics) by the caller, between integrations
struct Draws
{
	std::string kind;	// su, sg, rs
	unsigned int seed = 0;
	std::vector<std::pair<double, double>> ranges;	 // su: the limits of every draw; sg: {mean, sd}; rs: {xmin, xmax}
	long k = 0;
};
static bool is_draws(const std::string& w) { return w == "su" || w == "sg" || w == "rs"; }
static Draws read_draws(vh::Reader& r, const std::string& kind = "")
{
	Draws d;
	d.kind = kind.empty() ? r.word() : kind;
	d.seed = (unsigned int) r.integer();
	d.k	   = r.integer();
	long n = d.kind == "su" ? d.k : 1;
	for(long i = 0; i < n; i++)
	{
		double a = r.num(), b = r.num();
		d.ranges.push_back({a, b});
	}
	return d;
}
// makes the draws; returns how many of them (su) lie outside their limits [a, b] (the rounding of u * (b - a) + a may reach b)
static long run_draws(const Draws& d, std::mt19937& gen, std::vector<double>* values = nullptr)
{
	long nout = 0;
	if(d.kind == "su")
		for(auto& ab : d.ranges)
		{
			double v = Sample_Uniform(gen, ab.first, ab.second);
			if(values)
				values->push_back(v);
			if(!(ab.first <= v && v <= ab.second))
				nout++;
		}
	else if(d.kind == "sg")
		for(long i = 0; i < d.k; i++)
		{
			double v = Sample_Gauss(gen, d.ranges[0].first, d.ranges[0].second);
			if(values)
				values->push_back(v);
		}
	else
	{
		double xmin = d.ranges[0].first, xmax = d.ranges[0].second;
		std::function<double(double)> pdf = [=](double x) { double t = (x - xmin) / (xmax - xmin); return std::exp(-t * t); };
		for(long i = 0; i < d.k; i++)
		{
			double v = Rejection_Sampling(pdf, xmin, xmax, 1.0, gen);
			if(values)
				values->push_back(v);
		}
	}
	return nout;
}
static long run_draws(const Draws& d)
{
	std::mt19937 gen(d.seed);
	return run_draws(d, gen);
}
static const Draws* g_integrand_draws = nullptr;   // mcd: what the integrand draws at every evaluation
static std::mt19937 g_integrand_gen;

static Call read_call(vh::Reader& r)
{
	Call c;
	size_t first = r.i;
	c.method	 = r.word();
	size_t at	 = c.method.find('@');
	if(at != std::string::npos)
	{
		c.obj	 = (int) std::strtol(c.method.c_str() + at + 1, nullptr, 10);
		c.method = c.method.substr(0, at);
	}
	size_t bang = c.method.find('!');
	if(bang != std::string::npos)
	{
		c.throw_at = std::strtol(c.method.c_str() + bang + 1, nullptr, 10);
		c.method   = c.method.substr(0, bang);
	}
	if(c.method == "dflt" || c.method == "dflt2")
	{
		c.defaults = c.method == "dflt" ? 1 : 2;
		c.method   = "Vegas";
	}
	c.seed = (unsigned int) r.integer();
	c.ncall	 = (int) r.integer();
	long dim = r.integer();
	for(long k = 0; k < 2 * dim; k++)
		c.region.push_back(r.num());
	c.own = c.region;
	c.e	  = vh::parse_fexpr(r);
	for(size_t k = first; k < r.i; k++)
		c.text += (k > first ? " " : "") + r.t[k];
	return c;
}
static void set_seed(unsigned int seed)
{
	verif::mc_seed_set = true;
	verif::mc_seed	   = seed;
}
// runs the call (an exception of the integrand that comes out of Integrate_MC: aborted, the value is then meaningless);
// inner: a factor the integrand computes at every evaluation (an integration of its own)
// inner_first: the integrand computes that factor BEFORE it looks at the point it was handed (the argument is read only afterwards)
static Outcome run_call(Call& c, Rec* rec, const std::function<double()>* inner = nullptr, bool inner_first = false)
{
	Outcome q;
	long count					= 0;
	if(c.front)
	{
		// through Integrate_2D / Integrate_3D with a Monte-Carlo method: region {lower..., upper...} handed over limit by limit
		const std::vector<double>& L = c.region;
		int dim						 = (int) (L.size() / 2);
		auto body = [&](const double* p) {
			double w = 1.0;
			if(inner && inner_first)
				w = (*inner)();
			double v[10] = {0, 0, 0, 0, 0, 0, 0, 0, 0, 0};
			for(int k = 0; k < dim; k++)
				v[k] = p[k];
			if(rec)
				rec->point(v, dim);
			if(++count == c.throw_at)
				throw IntegrandGaveUp();
			double val = vh::eval_fexpr(*c.e, v);
			if(inner && !inner_first)
				w = (*inner)();
			return inner ? val * w : val;
		};
		set_seed(c.seed);
		try
		{
			if(dim == 2)
			{
				std::function<double(double, double)> f2 = [&](double x, double y) { double p[2] = {x, y}; return body(p); };
				q.value = Integrate_2D(f2, L[0], L[2], L[1], L[3], c.method, c.ncall);
			}
			else
			{
				std::function<double(double, double, double)> f3 = [&](double x, double y, double z) { double p[3] = {x, y, z}; return body(p); };
				q.value = Integrate_3D(f3, L[0], L[3], L[1], L[4], L[2], L[5], c.method, c.ncall);
			}
		}
		catch(const IntegrandGaveUp&)
		{
			q.aborted = true;
			q.value	  = std::nan("");
		}
		return q;
	}
	std::vector<double>& region = region_object(c);
	std::function<double(std::vector<double>&, const double)> f = [&](std::vector<double>& args, const double) {
		double w = 1.0;
		if(inner && inner_first)
			w = (*inner)();
		double v[10] = {0, 0, 0, 0, 0, 0, 0, 0, 0, 0};
		for(size_t k = 0; k < args.size() && k < 10; k++)
			v[k] = args[k];
		if(rec)
			rec->point(v, (int) (c.region.size() / 2));	  // Vegas passes its static work vector of size MXDIM = 10; only the first ndim entries are the point
		if(!same_bits(region, c.region))
			q.during++;
		if(++count == c.throw_at)
			throw IntegrandGaveUp();
		double val = vh::eval_fexpr(*c.e, v);
		if(g_integrand_draws)
			run_draws(*g_integrand_draws, g_integrand_gen);
		if(inner && !inner_first)
			w = (*inner)();
		if(inner)
			val *= w;
		return val;
	};
	set_seed(c.seed);
	try
	{
		if(c.defaults == 2)
			q.value = Integrate_MC(f, region);
		else if(c.defaults == 1)
			q.value = Integrate_MC(f, region, c.ncall);
		else
			q.value = Integrate_MC(f, region, c.ncall, c.method);
	}
	catch(const IntegrandGaveUp&)
	{
		q.aborted = true;
		q.value	  = std::nan("");
	}
	q.after = same_bits(region, c.region) ? 0 : 1;
	return q;
}

// ---------- fresh processes ----------
// Every case is answered by a process of its own whose function-local statics are those of a fresh process: before the first case is read
// main() forks a server that never calls the library; the runner's worker passes each case line to it, the server forks a child for the
// case, the child runs the handler and sends the output line back.  A case is therefore self-contained (a replay of the case alone sees what
// the run saw), and the histories are exactly the ones spelled out in the hist cases.  When the child ends without an output line (the
// library terminated the process, a crash, a sanitizer report, the time limit) the worker ends the same way, so that the runner records it.
static int g_req = -1, g_rsp = -1;	 // worker side: requests out, answers in
static long g_id = 0;
static std::string g_diag;	// the runner's file of diagnostics (what the library prints)

static std::string format_value(double v, bool aborted)
{
	if(aborted)
		return "ABORTED";
	vh::Out o;
	o.f(v);
	return o.s.str();
}
// the value of the call in a process forked from this one (to be used before this process calls the library)
static std::string in_fresh_process(Call& c)
{
	int pfd[2];
	if(pipe(pfd) != 0)
		return "NOFORK";
	fflush(stdout);
	fflush(stderr);
	pid_t pid = fork();
	if(pid < 0)
		return "NOFORK";
	if(pid == 0)
	{
		close(pfd[0]);
		Outcome q	  = run_call(c, nullptr);
		std::string t = format_value(q.value, q.aborted);
		if(write(pfd[1], t.c_str(), t.size()) != (ssize_t) t.size()) {}
		_exit(0);
	}
	close(pfd[1]);
	std::string ans;
	char b[256];
	ssize_t k;
	while((k = read(pfd[0], b, sizeof b)) > 0)
		ans.append(b, k);
	close(pfd[0]);
	int st = 0;
	waitpid(pid, &st, 0);
	return ans.empty() ? "DIED" : ans;
}

static void handler(vh::Reader& r, vh::Out& o);
static void serve(int req, int rsp)
{
	FILE* in  = fdopen(req, "r");
	char* buf = nullptr;
	size_t cap = 0;
	while(getline(&buf, &cap, in) > 0)
	{
		char* p = buf;
		long id = strtol(p, &p, 10);
		int pfd[2];
		if(pipe(pfd) != 0)
			_exit(2);
		pid_t pid = fork();
		if(pid == 0)
		{
			close(pfd[0]);
			int dfd = open(g_diag.c_str(), O_WRONLY | O_APPEND | O_CREAT, 0644);
			if(dfd >= 0)
			{
				dup2(dfd, 1);
				dup2(dfd, 2);
			}
			alarm(115);
			vh::Reader r(p);
			vh::Out o;
			if(r.more())
				handler(r, o);
			std::string t = o.s.str() + "\n";
			size_t off	  = 0;
			while(off < t.size())
			{
				ssize_t k = write(pfd[1], t.c_str() + off, t.size() - off);
				if(k <= 0)
					break;
				off += k;
			}
			_exit(0);
		}
		close(pfd[1]);
		std::string ans;
		char b[4096];
		ssize_t k;
		while((k = read(pfd[0], b, sizeof b)) > 0)
			ans.append(b, k);
		close(pfd[0]);
		int st = 0;
		waitpid(pid, &st, 0);
		std::string line = std::to_string(id);
		if(!ans.empty() && ans.back() == '\n')
			line += " OK " + ans;
		else if(WIFSIGNALED(st))
			line += " SIGNAL " + std::to_string(WTERMSIG(st)) + "\n";
		else
			line += " EXIT " + std::to_string(WIFEXITED(st) ? WEXITSTATUS(st) : 1) + "\n";
		size_t off = 0;
		while(off < line.size())
		{
			ssize_t w = write(rsp, line.c_str() + off, line.size() - off);
			if(w <= 0)
				_exit(2);
			off += w;
		}
	}
	_exit(0);
}
// the worker's side: pass the case on, copy the answer
static void relay(vh::Reader& r, vh::Out& o)
{
	if(g_req < 0)
	{
		o.w("HARNESSERR no_server");
		return;
	}
	long id			= ++g_id + 1000000L * (long) getpid();
	std::string msg = std::to_string(id);
	for(size_t k = 0; k < r.t.size(); k++)
		msg += " " + r.t[k];
	msg += "\n";
	size_t off = 0;
	while(off < msg.size())
	{
		ssize_t w = write(g_req, msg.c_str() + off, msg.size() - off);
		if(w <= 0)
		{
			o.w("HARNESSERR no_server");
			return;
		}
		off += w;
	}
	for(;;)
	{
		std::string line;
		char ch;
		ssize_t k;
		while((k = read(g_rsp, &ch, 1)) == 1 && ch != '\n')
			line += ch;
		if(k != 1)
		{
			o.w("HARNESSERR no_server");
			return;
		}
		// answers to requests of a worker that has ended meanwhile are skipped
		char* q = nullptr;
		if(std::strtol(line.c_str(), &q, 10) != id)
			continue;
		std::string rest(q + (*q == ' ' ? 1 : 0));
		if(rest.compare(0, 3, "OK ") == 0 || rest == "OK")
			o.w(rest.size() > 3 ? rest.substr(3) : "");
		else if(rest.compare(0, 7, "SIGNAL ") == 0)
		{
			int sig = std::atoi(rest.c_str() + 7);
			signal(sig, SIG_DFL);
			raise(sig);
			_exit(1);
		}
		else
			_exit(rest.compare(0, 5, "EXIT ") == 0 ? std::atoi(rest.c_str() + 5) : 1);
		return;
	}
}

static void handler(vh::Reader& r, vh::Out& o)
{
	std::string op = r.word();
	if(op == "stream")
	{
		unsigned int seed = (unsigned int) r.integer();
		long k			  = r.integer();
		std::mt19937 PRNG(seed);
		std::vector<double> v;
		for(long i = 0; i < k; i++)
			v.push_back(Sample_Uniform(PRNG));
		o.fl(v);
	}
	else if(op == "draws")
	{
		Draws d = read_draws(r, "su");
		std::mt19937 gen(d.seed);
		std::vector<double> v;
		run_draws(d, gen, &v);
		o.fl(v);
	}
	else if(op == "mc" || op == "mcd")
	{
		Draws d;
		if(op == "mcd")
		{
			d.kind = "su";
			d.k	   = r.integer();
			for(long i = 0; i < d.k; i++)
			{
				double a = r.num(), b = r.num();
				d.ranges.push_back({a, b});
			}
		}
		Call c = read_call(r);
		if(op == "mcd")
		{
			g_integrand_gen.seed(c.seed + 1u);
			g_integrand_draws = &d;
		}
		Rec rec;
		Outcome q = run_call(c, &rec);
		if(q.aborted)
			o.w("ABORTED");
		else
			o.f(q.value);
		rec.put(o, (int) (c.region.size() / 2));
		o.i(q.during);
		o.i(q.after);
	}
	else if(op == "hist")
	{
		long nh = r.integer();
		struct Event
		{
			bool draws;
			Call c;
			Draws d;
		};
		std::vector<Event> hs;
		for(long k = 0; k < nh; k++)
		{
			Event e;
			e.draws = r.i < r.t.size() && is_draws(r.t[r.i]);
			if(e.draws)
				e.d = read_draws(r);
			else
				e.c = read_call(r);
			hs.push_back(e);
		}
		Call c = read_call(r);
		o.w(in_fresh_process(c));	// first: this process has not called the library yet
		long nmod	  = 0;
		Outcome a	  = run_call(c, nullptr);
		nmod += (a.during > 0) + a.after;
		long naborted = 0, nout = 0;
		for(auto& h : hs)
		{
			if(h.draws)
			{
				nout += run_draws(h.d);
				continue;
			}
			Outcome q = run_call(h.c, nullptr);
			naborted += q.aborted ? 1 : 0;
			nmod += (q.during > 0) + q.after;
		}
		Rec rec;
		Outcome b = run_call(c, &rec);
		nmod += (b.during > 0) + b.after;
		o.f(a.value);
		o.f(b.value);
		o.i(naborted);
		o.i(nmod);
		o.i(nout);
		rec.put(o, (int) (c.region.size() / 2));
	}
	else if(op == "nested")
	{
		long shared = r.integer();
		Call outer	= read_call(r);
		Call inner	= read_call(r);
		if(shared)
			outer.obj = inner.obj = 0;	 // one box, built once by the caller
		std::string fresh = in_fresh_process(inner);
		long ninner = 0, ndiff = 0, nmod = 0;
		double worst = std::nan("");
		std::function<double()> innerf = [&]() {
			Outcome q = run_call(inner, nullptr);
			ninner++;
			nmod += (q.during > 0) + q.after;
			if(format_value(q.value, q.aborted) != fresh)
			{
				if(ndiff == 0)
					worst = q.value;
				ndiff++;
			}
			return q.value;
		};
		Outcome q = run_call(outer, nullptr, &innerf);
		nmod += (q.during > 0) + q.after;
		o.w(fresh);
		o.f(q.value);
		o.i(ninner);
		o.i(ndiff);
		if(ndiff == 0)
			o.w(fresh);
		else
			o.f(worst);
		o.i(nmod);
	}
	else if(op == "nestx")
	{
		// nestx <first> <outer entry> <inner entry> <outer call> <inner call>: the inner call is made from the integrand of the outer one at every
		// evaluation, before (first = 1) or after (0) the integrand reads the point it was handed; entry = mc (Integrate_MC) or fe (Integrate_2D / _3D)
		long first		= r.integer();
		std::string oe	= r.word(), ie = r.word();
		Call outer		= read_call(r);
		Call inner		= read_call(r);
		outer.front		= oe == "fe";
		inner.front		= ie == "fe";
		std::string fresh = in_fresh_process(inner);
		long ninner = 0, ndiff = 0, nmod = 0;
		double worst = std::nan("");
		Rec irec;
		std::function<double()> innerf = [&]() {
			Outcome q = run_call(inner, &irec);
			ninner++;
			nmod += (q.during > 0) + q.after;
			if(format_value(q.value, q.aborted) != fresh)
			{
				if(ndiff == 0)
					worst = q.value;
				ndiff++;
			}
			return q.value;
		};
		Rec rec;
		Outcome q = run_call(outer, &rec, &innerf, first != 0);
		nmod += (q.during > 0) + q.after;
		long nout = 0;	 // axes of the inner call on which its evaluation points left its limits
		int di	  = (int) (inner.region.size() / 2);
		for(int k = 0; k < di && irec.n > 0; k++)
		{
			double lo = std::min(inner.region[k], inner.region[k + di]), hi = std::max(inner.region[k], inner.region[k + di]);
			if(!(lo <= irec.mn[k] && irec.mx[k] <= hi))
				nout++;
		}
		o.w(fresh);
		o.f(q.value);
		o.i(ninner);
		o.i(ndiff);
		if(ndiff == 0)
			o.w(fresh);
		else
			o.f(worst);
		o.i(nmod);
		o.i(nout);
		rec.put(o, (int) (outer.region.size() / 2));
	}
	else if(op == "front2d" || op == "front3d")
	{
		std::string method = r.word();
		unsigned int seed  = (unsigned int) r.integer();
		int p			   = (int) r.integer();
		Rec rec;
		set_seed(seed);
		if(op == "front2d")
		{
			double x1 = r.num(), x2 = r.num(), y1 = r.num(), y2 = r.num();
			auto e = vh::parse_fexpr(r);
			std::function<double(double, double)> f = [&](double x, double y) {
				double v[10] = {x, y, 0, 0, 0, 0, 0, 0, 0, 0};
				rec.point(v, 2);
				return vh::eval_fexpr(*e, v);
			};
			o.f(Integrate_2D(f, x1, x2, y1, y2, method, p));
			rec.put(o, 2);
		}
		else
		{
			double x1 = r.num(), x2 = r.num(), y1 = r.num(), y2 = r.num(), z1 = r.num(), z2 = r.num();
			auto e = vh::parse_fexpr(r);
			std::function<double(double, double, double)> f = [&](double x, double y, double z) {
				double v[10] = {x, y, z, 0, 0, 0, 0, 0, 0, 0};
				rec.point(v, 3);
				return vh::eval_fexpr(*e, v);
			};
			o.f(Integrate_3D(f, x1, x2, y1, y2, z1, z2, method, p));
			rec.put(o, 3);
		}
	}
	else if(op == "front3s")
	{
		std::string method = r.word();
		unsigned int seed  = (unsigned int) r.integer();
		int p			   = (int) r.integer();
		double lim[6]	   = {r.num(), r.num(), r.num(), r.num(), r.num(), r.num()};
		auto e			   = vh::parse_fexpr(r);
		Rec rec;
		set_seed(seed);
		std::function<double(Vector)> f = [&](Vector w) {
			double v[10] = {w[0], w[1], w[2], 0, 0, 0, 0, 0, 0, 0};
			rec.point(v, 3);
			double nrm = std::sqrt(v[0] * v[0] + v[1] * v[1] + v[2] * v[2]);
			rec.see(3, nrm);
			if(nrm > 0.0)
				rec.see(4, v[2] / nrm);
			return vh::eval_fexpr(*e, v);
		};
		o.f(Integrate_3D(f, lim[0], lim[1], lim[2], lim[3], lim[4], lim[5], method, p));
		rec.put(o, 5);
	}
	else
		o.w("HARNESSERR unknown_op");
}
int main(int argc, char** argv)
{
	int req[2], rsp[2];
	pid_t srv = -1;
	if(argc >= 3)
		g_diag = std::string(argv[2]) + ".diag";
	if(pipe(req) == 0 && pipe(rsp) == 0)
	{
		srv = fork();
		if(srv == 0)
		{
			close(req[1]);
			close(rsp[0]);
			serve(req[0], rsp[1]);
		}
		close(req[0]);
		close(rsp[1]);
		g_req = req[1];
		g_rsp = rsp[0];
	}
	int rc = vh::run(argc, argv, relay, 120);
	if(g_req >= 0)
		close(g_req);
	if(srv > 0)
		waitpid(srv, nullptr, 0);
	return rc;
}
