// C14 harness: the Monte-Carlo integrators of libphysica under the seed hook (case grammar: checks/C14.py)
//   stream  <seed> <k>                                    -> k draws of Sample_Uniform from std::mt19937(seed)
//   mc      <call>                                        -> result neval digest min_0 max_0 ... (evaluation points)
//   hist    <n> <call>*n <call>                           -> observed result before and after the n history calls
//   front2d <method> <seed> <p> x1 x2 y1 y2 <fexpr>       -> Integrate_2D(...) neval digest minx maxx miny maxy
//   front3d <method> <seed> <p> x1 x2 y1 y2 z1 z2 <fexpr> -> Integrate_3D(...) ...
//   call := <method> <seed> <ncall> <dim> <region: 2*dim numbers {lower..., upper...}> <fexpr in v0..v9 / x y z>
#include "common.hpp"
#include "libphysica/Integration.hpp"
#include "libphysica/Statistics.hpp"
#include <random>
namespace libphysica
{
namespace verif
{
extern bool mc_seed_set;
extern unsigned int mc_seed;
}	// namespace verif
}	// namespace libphysica
using namespace libphysica;

struct Rec
{
	long n		  = 0;
	double digest = 0.0;
	double mn[10], mx[10];
	Rec()
	{
		for(int k = 0; k < 10; k++)
		{
			mn[k] = INFINITY;
			mx[k] = -INFINITY;
		}
	}
	void see(int k, double v)
	{
		if(v < mn[k])
			mn[k] = v;
		if(v > mx[k])
			mx[k] = v;
	}
	void point(const double* p, int dims)
	{
		n++;
		for(int k = 0; k < dims; k++)
		{
			digest += (k + 1) * p[k];
			see(k, p[k]);
		}
	}
	void put(vh::Out& o, int dims)
	{
		o.i(n);
		o.f(digest);
		for(int k = 0; k < dims; k++)
		{
			o.f(mn[k]);
			o.f(mx[k]);
		}
	}
};

struct Call
{
	std::string method;
	unsigned int seed;
	int ncall;
	std::vector<double> region;
	std::shared_ptr<vh::FExpr> e;
};
static Call read_call(vh::Reader& r)
{
	Call c;
	c.method = r.word();
	c.seed	 = (unsigned int) r.integer();
	c.ncall	 = (int) r.integer();
	long dim = r.integer();
	for(long k = 0; k < 2 * dim; k++)
		c.region.push_back(r.num());
	c.e = vh::parse_fexpr(r);
	return c;
}
static void set_seed(unsigned int seed)
{
	verif::mc_seed_set = true;
	verif::mc_seed	   = seed;
}
static double run_call(Call& c, Rec* rec)
{
	std::function<double(std::vector<double>&, const double)> f = [&](std::vector<double>& args, const double) {
		double v[10] = {0, 0, 0, 0, 0, 0, 0, 0, 0, 0};
		for(size_t k = 0; k < args.size() && k < 10; k++)
			v[k] = args[k];
		if(rec)
			rec->point(v, (int) (c.region.size() / 2));	  // Vegas passes its static work vector of size MXDIM = 10; only the first ndim entries are the point
		return vh::eval_fexpr(*c.e, v);
	};
	set_seed(c.seed);
	return Integrate_MC(f, c.region, c.ncall, c.method);
}

static void handler(vh::Reader& r, vh::Out& o)
{
	std::string op = r.word();
	if(op == "stream")
	{
		unsigned int seed = (unsigned int) r.integer();
		long k			  = r.integer();
		std::mt19937 PRNG(seed);
		std::vector<double> v;
		for(long i = 0; i < k; i++)
			v.push_back(Sample_Uniform(PRNG));
		o.fl(v);
	}
	else if(op == "mc")
	{
		Call c = read_call(r);
		Rec rec;
		o.f(run_call(c, &rec));
		rec.put(o, (int) (c.region.size() / 2));
	}
	else if(op == "hist")
	{
		long nh = r.integer();
		std::vector<Call> hs;
		for(long k = 0; k < nh; k++)
			hs.push_back(read_call(r));
		Call c	 = read_call(r);
		double a = run_call(c, nullptr);
		for(auto& h : hs)
			run_call(h, nullptr);
		double b = run_call(c, nullptr);
		o.f(a);
		o.f(b);
	}
	else if(op == "front2d" || op == "front3d")
	{
		std::string method = r.word();
		unsigned int seed  = (unsigned int) r.integer();
		int p			   = (int) r.integer();
		Rec rec;
		set_seed(seed);
		if(op == "front2d")
		{
			double x1 = r.num(), x2 = r.num(), y1 = r.num(), y2 = r.num();
			auto e = vh::parse_fexpr(r);
			std::function<double(double, double)> f = [&](double x, double y) {
				double v[10] = {x, y, 0, 0, 0, 0, 0, 0, 0, 0};
				rec.point(v, 2);
				return vh::eval_fexpr(*e, v);
			};
			o.f(Integrate_2D(f, x1, x2, y1, y2, method, p));
			rec.put(o, 2);
		}
		else
		{
			double x1 = r.num(), x2 = r.num(), y1 = r.num(), y2 = r.num(), z1 = r.num(), z2 = r.num();
			auto e = vh::parse_fexpr(r);
			std::function<double(double, double, double)> f = [&](double x, double y, double z) {
				double v[10] = {x, y, z, 0, 0, 0, 0, 0, 0, 0};
				rec.point(v, 3);
				return vh::eval_fexpr(*e, v);
			};
			o.f(Integrate_3D(f, x1, x2, y1, y2, z1, z2, method, p));
			rec.put(o, 3);
		}
	}
	else
		o.w("HARNESSERR unknown_op");
}
int main(int argc, char** argv) { return vh::run(argc, argv, handler, 120); }
