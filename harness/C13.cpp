// C13 harness: named 1-D methods and nested 2-D/3-D integrals of libphysica (case grammar: checks/C13.py)
//   named1d   <method> <p> <a> <b> <user>
//       -> value direct neval digest min max
//   nested2d  <method> <p> <x1> <x2> <y1> <y2> <user>
//       -> value direct neval digest minx maxx miny maxy
//   nested3d  <method> <p> <x1> <x2> <y1> <y2> <z1> <z2> <user>
//       -> value direct neval digest minx maxx miny maxy minz maxz
//   spherical <method> <p> <r1> <r2> <c1> <c2> <phi1> <phi2> <user (x,y,z = the vector components)>
//       -> value direct neval digest min|v| max|v| min(vz/|v|) max(vz/|v|) min(azimuth) max(azimuth)
// <user> = <fexpr(x,y,z,v 3)> [ @ <inner method> <inner p> <lo fexpr(x,y,z)> <hi fexpr(x,y,z)> <inner fexpr(x,y,z,v 3 = t)> ]
//   without '@' the user's function is the expression; with '@' it is defined through an integral: while the library
//   evaluates it, it calls Integrate(t -> inner(x,y,z,t), lo(x,y,z), hi(x,y,z), inner method, inner p) and hands the value to
//   the expression as 'v 3' (the library is re-entered from inside its own integrand).
// <user> = <fexpr(x,y,z,v 3)> @@ <named1d|nested2d|nested3d|spherical> <method> <p> <2, 4 or 6 limits, each an fexpr of the enclosing x,y,z> <user>
//   'v 3' is a call of that entry point on a user function of its own (which sees the inner integration variables, resp. the components of the
//   vector, as x,y,z), made anew at every point at which the library evaluates the outer function: a normalisation computed by an integral inside
//   an integrand, to any depth (3D in 3D in 3D = nine levels of Integrate active at once).  The answer of such a case ends with one more
//   number, flat: the same call with every inner call made beforehand as a call of its own from the top level and its value put in its place.
// direct = what the call should delegate to: the back end of the method name called directly (boost quadrature,
//   Integrate_Gauss_Legendre, Find_Epsilon + Integrate), nested by the harness itself level by level with the same
//   method_parameter at every level, on the same user function.  (Not recomputed, i.e. the value is repeated, for "Trapezoidal" in two
//   and three dimensions, "Tanh-Sinh" in three and "Adaptive-Simpson" in one when the call itself took more than 7e5 evaluations of the
//   user's function: the direct nesting costs as many again.)
// neval/digest/min/max describe the arguments with which the user's function was called by the library.  The azimuth of a vector is
//   recorded as the representative of atan2(vy,vx) modulo 2 pi that lies within pi of the middle of the azimuth limits of the call, so
//   that ranges anywhere on the real line (negative, beyond 2 pi) can be compared with their limits.
//   session <k> <call> ;; <call> ;; ... (k calls, each one of the four lines above)
//       -> for every call: its output as above, then the value of the same call made in a process that has made no other call, then '|'
//   preinit <call>  (one of the four lines above)
//       -> the output of the call made BEFORE main, during the static initialisation of the user's translation unit (this file, which the
//          link line puts in front of the library: its namespace-scope objects are initialised before those of the library's own
//          translation units), then the value of the same call made from main.  The harness executes itself anew with the call in the
//          environment; the object `before_main` at the end of this file makes the call and ends the process before main is entered.
//   A session is a call history.  Every case line (session or not) is answered by a process of its own forked from a worker that never
//   calls the library; in a session the reference values come from children forked from that process before it has called the
//   library, then the k calls are made one after the other in it.
#include "common.hpp"
#include "libphysica/Integration.hpp"
#include "libphysica/Linear_Algebra.hpp"
#include <boost/math/quadrature/gauss.hpp>
#include <boost/math/quadrature/gauss_kronrod.hpp>
#include <boost/math/quadrature/tanh_sinh.hpp>
#include <boost/math/quadrature/trapezoidal.hpp>
#include <sys/wait.h>
#include <unistd.h>
using namespace libphysica;

struct Rec
{
	long n		  = 0;
	double digest = 0.0;
	double mn[3]  = {INFINITY, INFINITY, INFINITY};
	double mx[3]  = {-INFINITY, -INFINITY, -INFINITY};
	void see(int k, double v)
	{
		if(v < mn[k])
			mn[k] = v;
		if(v > mx[k])
			mx[k] = v;
	}
	void put(vh::Out& o, int dims)
	{
		o.i(n);
		o.f(digest);
		for(int k = 0; k < dims; k++)
		{
			o.f(mn[k]);
			o.f(mx[k]);
		}
	}
};

// The prefix expressions of the case lines, compiled once per case into a tree with numeric operation codes (vh::eval_fexpr compares operation names
// as strings at every node of every evaluation; a nested integral evaluates its integrand 10^5 .. 10^8 times).  Same operations, same operands; a node
// that has no code of its own here is handed to vh::eval_fexpr.
struct Fx
{
	enum Op { X, Y, Z, V, C, ADD, SUB, MUL, DIV, POW, NEG, EXP, LOG, SIN, COS, ATAN, ERF, COSH, TANH, ABS, SQRT, STEP, OTHER };
	struct Node
	{
		Op op = OTHER;
		double c = 0;
		long k = 0;
		const vh::FExpr* src = nullptr;
		std::vector<Node> a;
	};
	std::shared_ptr<vh::FExpr> src;
	Node code;
	static Node compile(const vh::FExpr& e)
	{
		static const char* names[] = {"x", "y", "z", "v", "c", "+", "-", "*", "/", "pow", "neg", "exp", "log", "sin", "cos", "atan", "erf", "cosh", "tanh", "abs", "sqrt", "step"};
		Node n;
		n.src = &e;
		n.c	  = e.c;
		n.k	  = e.k;
		for(int j = 0; j < (int) OTHER; j++)
			if(e.op == names[j])
				n.op = (Op) j;
		if(n.op != OTHER)
			for(auto& q : e.a)
				n.a.push_back(compile(*q));
		return n;
	}
	static Fx parse(vh::Reader& r)
	{
		Fx f;
		f.src  = vh::parse_fexpr(r);
		f.code = compile(*f.src);
		return f;
	}
	static double ev(const Node& e, const double* v)
	{
		switch(e.op)
		{
			case X: return v[0];
			case Y: return v[1];
			case Z: return v[2];
			case V: return v[e.k];
			case C: return e.c;
			case ADD: return ev(e.a[0], v) + ev(e.a[1], v);
			case SUB: return ev(e.a[0], v) - ev(e.a[1], v);
			case MUL: return ev(e.a[0], v) * ev(e.a[1], v);
			case DIV: return ev(e.a[0], v) / ev(e.a[1], v);
			case POW: return std::pow(ev(e.a[0], v), e.c);
			case NEG: return -ev(e.a[0], v);
			case EXP: return std::exp(ev(e.a[0], v));
			case LOG: return std::log(ev(e.a[0], v));
			case SIN: return std::sin(ev(e.a[0], v));
			case COS: return std::cos(ev(e.a[0], v));
			case ATAN: return std::atan(ev(e.a[0], v));
			case ERF: return std::erf(ev(e.a[0], v));
			case COSH: return std::cosh(ev(e.a[0], v));
			case TANH: return std::tanh(ev(e.a[0], v));
			case ABS: return std::fabs(ev(e.a[0], v));
			case SQRT: return std::sqrt(ev(e.a[0], v));
			case STEP: return ev(e.a[0], v) >= 0.0 ? 1.0 : 0.0;
			default: return vh::eval_fexpr(*e.src, v);
		}
	}
	double operator()(const double* v) const { return ev(code, v); }
};

// the user's function of a case
struct User;
static double front_end(const std::string& op, const std::string& method, int p, const double* L, const User& u);
struct User
{
	Fx e, lo, hi, in;
	bool reentrant = false;
	std::string imethod;
	int ip = 0;
	// '@@': the value handed to the expression as 'v 3' is a call of one of the four entry points on a user function of its own
	std::shared_ptr<User> deep;
	std::string dop, dmethod;
	int dp = 0;
	std::vector<Fx> dlim;
	bool has_const = false;		 // flattened: 'v 3' is a number computed beforehand
	double const_v = 0.0;
	void parse(vh::Reader& r)
	{
		e = Fx::parse(r);
		if(r.more() && r.t[r.i] == "@")
		{
			r.word();
			reentrant = true;
			imethod	  = r.word();
			ip		  = (int) r.integer();
			lo		  = Fx::parse(r);
			hi		  = Fx::parse(r);
			in		  = Fx::parse(r);
		}
		else if(r.more() && r.t[r.i] == "@@")
		{
			r.word();
			dop		= r.word();
			dmethod = r.word();
			dp		= (int) r.integer();
			int nl	= dop == "named1d" ? 2 : dop == "nested2d" ? 4 : 6;
			for(int k = 0; k < nl; k++)
				dlim.push_back(Fx::parse(r));
			deep = std::make_shared<User>();
			deep->parse(r);
		}
	}
	double inner_call(const double* v) const
	{
		double L[6] = {0, 0, 0, 0, 0, 0};
		for(size_t k = 0; k < dlim.size(); k++)
			L[k] = dlim[k](v);
		return front_end(dop, dmethod, dp, L, *deep);
	}
	double operator()(double x, double y, double z) const
	{
		double v[4] = {x, y, z, 0.0};
		if(has_const)
			v[3] = const_v;
		else if(deep)
			v[3] = inner_call(v);
		else if(reentrant)
		{
			const Fx* inner					  = &in;
			std::function<double(double)> h = [inner, x, y, z](double t) {
				double w[4] = {x, y, z, t};
				return (*inner)(w);
			};
			v[3] = Integrate(h, lo(v), hi(v), imethod, ip);
		}
		return e(v);
	}
	// the same function with every inner call made beforehand, innermost first, each one as a call of its own from the top level (its limits
	// taken at the origin of the enclosing variables: the generator writes constant limits), and its value put in place of the call
	User flattened() const
	{
		User f = *this;
		if(deep)
		{
			User inner	= deep->flattened();
			double v[4] = {0, 0, 0, 0}, L[6] = {0, 0, 0, 0, 0, 0};
			for(size_t k = 0; k < dlim.size(); k++)
				L[k] = dlim[k](v);
			f.const_v	= front_end(dop, dmethod, dp, L, inner);
			f.has_const = true;
			f.deep.reset();
		}
		return f;
	}
};

// a call of one of the four entry points on a user function (the inner calls of '@@', and the flattened repetition of a case)
static double front_end(const std::string& op, const std::string& method, int p, const double* L, const User& u)
{
	if(op == "named1d")
	{
		std::function<double(double)> f = [&u](double t) { return u(t, 0, 0); };
		return Integrate(f, L[0], L[1], method, p);
	}
	if(op == "nested2d")
	{
		std::function<double(double, double)> f = [&u](double x, double y) { return u(x, y, 0); };
		return Integrate_2D(f, L[0], L[1], L[2], L[3], method, p);
	}
	if(op == "nested3d")
	{
		std::function<double(double, double, double)> f = [&u](double x, double y, double z) { return u(x, y, z); };
		return Integrate_3D(f, L[0], L[1], L[2], L[3], L[4], L[5], method, p);
	}
	std::function<double(Vector)> f = [&u](Vector w) { return u(w[0], w[1], w[2]); };
	return Integrate_3D(f, L[0], L[1], L[2], L[3], L[4], L[5], method, p);
}

static double direct_1d(const std::string& method, std::function<double(double)> f, double a, double b, int p, bool& known)
{
	using namespace boost::math::quadrature;
	known = true;
	if(a == b)
		return 0.0;
	double sign = 1.0;
	if(a > b)
	{
		std::swap(a, b);
		sign = -1.0;
	}
	if(method == "Trapezoidal")
		return sign * trapezoidal(f, a, b);
	if(method == "Gauss-Legendre")
		return sign * gauss<double, 30>::integrate(f, a, b);
	if(method == "Gauss-Kronrod")
		return sign * gauss_kronrod<double, 31>::integrate(f, a, b, p == 0 ? 5 : p, 1e-9);
	if(method == "Tanh-Sinh")
	{
		tanh_sinh<double> integrator;
		return sign * integrator.integrate(f, a, b);
	}
	if(method == "Gauss-Legendre_2")
		return sign * Integrate_Gauss_Legendre(f, a, b, p == 0 ? 30 : p);
	if(method == "Adaptive-Simpson")
		return sign * Integrate(f, a, b, Find_Epsilon(f, a, b, 1e-9));
	known = false;
	return std::nan("");
}

// the nesting, done by the harness: level k integrates variable k between its own limits, innermost level calls g
static double direct_nd(const std::string& method, const std::function<double(const double*)>& g, int d, const double* lim, int p, double* pt, int level, bool& known)
{
	std::function<double(double)> fk = [&, level](double t) {
		pt[level] = t;
		if(level == d - 1)
			return g(pt);
		return direct_nd(method, g, d, lim, p, pt, level + 1, known);
	};
	return direct_1d(method, fk, lim[2 * level], lim[2 * level + 1], p, known);
}

// the direct nesting of these two is as expensive as the call: it is left out when the call itself was expensive
static bool costly3(const std::string& method, long n) { return ((method == "Trapezoidal" || method == "Tanh-Sinh") && n > 700000) || (method == "Adaptive-Simpson" && n > 4000000); }
static bool costly2(const std::string& method, long n) { return (method == "Trapezoidal" && n > 700000) || (method == "Adaptive-Simpson" && n > 4000000); }
// (the adaptive Simpson rule taken to its depth limit over the whole interval, 2^21 evaluations: a tolerance of zero or next to zero)
static bool costly1(const std::string& method, long n) { return method == "Adaptive-Simpson" && n > 700000; }

// the two public overloads of Integrate_Gauss_Legendre that take a table of roots and weights (the third one, with limits and a number of
// points, is the back end of "Gauss-Legendre_2" and ends in these):
//   glvec <n v1..vn> <rows: m then each row as a list>   -> Integrate_Gauss_Legendre(function_values, roots_and_weights)   -> value
//   glfun <rows> <fexpr(x)>                               -> Integrate_Gauss_Legendre(func, roots_and_weights)              -> value neval
static bool gl_overloads(const std::string& op, vh::Reader& r, vh::Out& o)
{
	if(op == "glvec")
	{
		std::vector<double> fv				  = r.list();
		std::vector<std::vector<double>> rows = r.table();
		o.f(Integrate_Gauss_Legendre(fv, rows));
		return true;
	}
	if(op == "glfun")
	{
		std::vector<std::vector<double>> rows = r.table();
		Fx e								  = Fx::parse(r);
		long n								  = 0;
		std::function<double(double)> f		  = [&](double x) {
			  n++;
			  double v[4] = {x, 0.0, 0.0, 0.0};
			  return e(v);
		};
		double val = Integrate_Gauss_Legendre(f, rows);
		o.f(val);
		o.i(n);
		return true;
	}
	return false;
}

static void do_call(const std::string& op, vh::Reader& r, vh::Out& o)
{
	if(gl_overloads(op, r, o))
		return;
	std::string method = r.word();
	int p			   = (int) r.integer();
	Rec rec;
	User u;
	bool known = true;
	double pt[3] = {0, 0, 0};
	if(op == "named1d")
	{
		double lim[2] = {r.num(), r.num()};
		u.parse(r);
		std::function<double(double)> f = [&](double x) {
			rec.n++;
			rec.digest += x;
			rec.see(0, x);
			return u(x, 0, 0);
		};
		double val = Integrate(f, lim[0], lim[1], method, p);
		std::function<double(const double*)> g = [&](const double* q) { return u(q[0], 0, 0); };
		double dir = costly1(method, rec.n) ? val : direct_nd(method, g, 1, lim, p, pt, 0, known);
		o.f(val);
		o.f(dir);
		rec.put(o, 1);
		if(u.deep)
			o.f(front_end(op, method, p, lim, u.flattened()));
	}
	else if(op == "nested2d")
	{
		double lim[4] = {r.num(), r.num(), r.num(), r.num()};
		u.parse(r);
		std::function<double(double, double)> f = [&](double x, double y) {
			rec.n++;
			rec.digest += x + 2.0 * y;
			rec.see(0, x);
			rec.see(1, y);
			return u(x, y, 0);
		};
		double val = Integrate_2D(f, lim[0], lim[1], lim[2], lim[3], method, p);
		std::function<double(const double*)> g = [&](const double* q) { return u(q[0], q[1], 0); };
		double dir = costly2(method, rec.n) ? val : direct_nd(method, g, 2, lim, p, pt, 0, known);
		o.f(val);
		o.f(dir);
		rec.put(o, 2);
		if(u.deep)
			o.f(front_end(op, method, p, lim, u.flattened()));
	}
	else if(op == "nested3d")
	{
		double lim[6] = {r.num(), r.num(), r.num(), r.num(), r.num(), r.num()};
		u.parse(r);
		std::function<double(double, double, double)> f = [&](double x, double y, double z) {
			rec.n++;
			rec.digest += x + 2.0 * y + 3.0 * z;
			rec.see(0, x);
			rec.see(1, y);
			rec.see(2, z);
			return u(x, y, z);
		};
		double val = Integrate_3D(f, lim[0], lim[1], lim[2], lim[3], lim[4], lim[5], method, p);
		std::function<double(const double*)> g = [&](const double* q) { return u(q[0], q[1], q[2]); };
		double dir = costly3(method, rec.n) ? val : direct_nd(method, g, 3, lim, p, pt, 0, known);
		o.f(val);
		o.f(dir);
		rec.put(o, 3);
		if(u.deep)
			o.f(front_end(op, method, p, lim, u.flattened()));
	}
	else if(op == "spherical")
	{
		double lim[6] = {r.num(), r.num(), r.num(), r.num(), r.num(), r.num()};
		u.parse(r);
		const double azmid				= 0.5 * (lim[4] + lim[5]);
		std::function<double(Vector)> f = [&](Vector w) {
			double x = w[0], y = w[1], z = w[2];
			rec.n++;
			rec.digest += x + 2.0 * y + 3.0 * z;
			double nrm = std::sqrt(x * x + y * y + z * z);
			double dz  = std::atan2(y, x) - azmid;
			double az  = azmid + (dz - 2.0 * M_PI * std::round(dz / (2.0 * M_PI)));
			rec.see(0, nrm);
			rec.see(1, z / nrm);
			if(x != 0.0 || y != 0.0)
				rec.see(2, az);
			return u(x, y, z);
		};
		double val = Integrate_3D(f, lim[0], lim[1], lim[2], lim[3], lim[4], lim[5], method, p);
		// shell integral written out: r^2 f(r sin(th) cos(phi), r sin(th) sin(phi), r cos(th)), th = acos(cos_theta)
		std::function<double(const double*)> g = [&](const double* q) {
			double rr = q[0], th = std::acos(q[1]), ph = q[2];
			return rr * rr * u(rr * std::sin(th) * std::cos(ph), rr * std::sin(th) * std::sin(ph), rr * std::cos(th));
		};
		double dir = costly3(method, rec.n) ? val : direct_nd(method, g, 3, lim, p, pt, 0, known);
		o.f(val);
		o.f(dir);
		rec.put(o, 3);
		if(u.deep)
			o.f(front_end(op, method, p, lim, u.flattened()));
	}
	else
		o.w("HARNESSERR unknown_op");
}

// ---------- sessions (call histories) ----------
static bool is_op(const std::string& w) { return w == "named1d" || w == "nested2d" || w == "nested3d" || w == "spherical"; }

// the output of one call made by a child forked from this process (which has not called the library yet)
static std::string in_forked_child(const vh::Reader& r0, size_t start)
{
	int pfd[2];
	if(pipe(pfd) != 0)
		return "NOFORK";
	fflush(stdout);
	fflush(stderr);
	pid_t pid = fork();
	if(pid < 0)
		return "NOFORK";
	if(pid == 0)
	{
		close(pfd[0]);
		vh::Reader r = r0;
		r.i			 = start;
		vh::Out o;
		std::string op = r.word();
		do_call(op, r, o);
		std::string t = o.s.str();
		size_t off	  = 0;
		while(off < t.size())
		{
			ssize_t k = write(pfd[1], t.c_str() + off, t.size() - off);
			if(k <= 0)
				break;
			off += k;
		}
		_exit(0);
	}
	close(pfd[1]);
	std::string ans;
	char b[4096];
	ssize_t k;
	while((k = read(pfd[0], b, sizeof b)) > 0)
		ans.append(b, k);
	close(pfd[0]);
	int st = 0;
	waitpid(pid, &st, 0);
	if(ans.empty())
		return "DIED";
	return ans.substr(0, ans.find(' '));
}

// the body of a session, in the process forked for it (which has not called the library yet)
static void session_body(vh::Reader& r, vh::Out& o)
{
	long k = r.integer();
	std::vector<size_t> starts;
	for(size_t j = r.i; j < r.t.size() && r.t[j] != "#"; j++)
		if(is_op(r.t[j]) && (j == r.i || r.t[j - 1] == ";;"))
			starts.push_back(j);
	if((long) starts.size() != k)
	{
		o.w("HARNESSERR session_shape");
		return;
	}
	std::vector<std::string> fresh;
	for(size_t s : starts)
		fresh.push_back(in_forked_child(r, s));
	for(size_t c = 0; c < starts.size(); c++)
	{
		r.i			   = starts[c];
		std::string op = r.word();
		do_call(op, r, o);
		o.w(fresh[c]);
		o.w("|");
	}
}

// ---------- calls made before main ----------
// The text of the call travels in the environment of a new execution of this program; the answer comes back through a pipe.
static std::string before_main_output(const vh::Reader& r0, size_t start)
{
	std::string text;
	for(size_t j = start; j < r0.t.size() && r0.t[j] != "#"; j++)
		text += (j > start ? " " : "") + r0.t[j];
	int pfd[2];
	if(pipe(pfd) != 0)
		return "HARNESSERR no_pipe";
	fflush(stdout);
	fflush(stderr);
	pid_t pid = fork();
	if(pid < 0)
		return "HARNESSERR no_fork";
	if(pid == 0)
	{
		close(pfd[0]);
		setenv("C13_BEFORE_MAIN", text.c_str(), 1);
		setenv("C13_BEFORE_MAIN_FD", std::to_string(pfd[1]).c_str(), 1);
		char arg0[] = "C13-before-main";
		char* args[] = {arg0, nullptr};
		execv("/proc/self/exe", args);
		_exit(76);
	}
	close(pfd[1]);
	std::string ans;
	char b[4096];
	ssize_t k;
	while((k = read(pfd[0], b, sizeof b)) > 0)
		ans.append(b, k);
	close(pfd[0]);
	int st = 0;
	waitpid(pid, &st, 0);
	if(WIFSIGNALED(st))
		return "CRASH sig=" + std::to_string(WTERMSIG(st));
	if(WIFEXITED(st) && (WEXITSTATUS(st) == 76 || WEXITSTATUS(st) == 77))
		return "HARNESSERR before_main";
	if(!WIFEXITED(st) || WEXITSTATUS(st) != 0 || ans.empty())
		return "EXIT";
	return ans;
}

static void preinit_body(vh::Reader& r, vh::Out& o)
{
	if(!r.more() || !is_op(r.t[r.i]))
	{
		o.w("HARNESSERR preinit_shape");
		return;
	}
	std::string early = before_main_output(r, r.i);
	if(early == "EXIT")
	{
		fflush(stdout);
		fflush(stderr);
		_exit(1);		 // the library terminated the process: recorded by the runner like any other call that does so
	}
	if(early.compare(0, 5, "CRASH") == 0)
	{
		int sig = atoi(early.c_str() + 10);
		signal(sig, SIG_DFL);
		raise(sig);
		_exit(1);
	}
	vh::Out here;
	std::string op = r.word();
	do_call(op, r, here);
	std::string t = here.s.str();
	o.w(early);
	o.w(t.substr(0, t.find(' ')));
}

// Every case line is answered by a process of its own, forked from the runner's worker, which itself never calls the library: the statics
// of the library are those of a fresh process at the start of every case, the only call histories are the ones spelled out in the
// session lines, and a replay of a line alone sees what the run saw.  When the child ends without an answer (the library terminated the
// process, a crash, the time limit) the worker ends the same way, so that the runner records it.
static void handler(vh::Reader& r, vh::Out& o)
{
	int pfd[2];
	if(pipe(pfd) != 0)
	{
		o.w("HARNESSERR no_pipe");
		return;
	}
	fflush(stdout);
	fflush(stderr);
	pid_t pid = fork();
	if(pid < 0)
	{
		o.w("HARNESSERR no_fork");
		return;
	}
	if(pid == 0)
	{
		close(pfd[0]);
		alarm(58);
		vh::Out oc;
		std::string op = r.word();
		if(op == "session")
			session_body(r, oc);
		else if(op == "preinit")
			preinit_body(r, oc);
		else
			do_call(op, r, oc);
		std::string t = oc.s.str() + "\n";
		size_t off	  = 0;
		while(off < t.size())
		{
			ssize_t w = write(pfd[1], t.c_str() + off, t.size() - off);
			if(w <= 0)
				break;
			off += w;
		}
		fflush(stdout);
		fflush(stderr);
		_exit(0);
	}
	close(pfd[1]);
	std::string ans;
	char b[4096];
	ssize_t k;
	while((k = read(pfd[0], b, sizeof b)) > 0)
		ans.append(b, k);
	close(pfd[0]);
	int st = 0;
	waitpid(pid, &st, 0);
	if(WIFSIGNALED(st))
	{
		signal(WTERMSIG(st), SIG_DFL);
		raise(WTERMSIG(st));
		_exit(1);
	}
	if(!WIFEXITED(st) || WEXITSTATUS(st) != 0)
		_exit(WIFEXITED(st) ? WEXITSTATUS(st) : 1);
	while(!ans.empty() && (ans.back() == '\n' || ans.back() == ' '))
		ans.pop_back();
	o.w(ans);
}
int main(int argc, char** argv) { return vh::run(argc, argv, handler, 60); }

// The last namespace-scope object of the user's translation unit.  When the environment carries a call, it is made here, before main and
// (with the link order translation unit first, library after it) before the namespace-scope objects of the library's translation units
// are initialised; the process ends without entering main.
struct BeforeMain
{
	BeforeMain()
	{
		const char* text = getenv("C13_BEFORE_MAIN");
		const char* fdt	 = getenv("C13_BEFORE_MAIN_FD");
		if(text == nullptr || fdt == nullptr)
			return;
		static std::ios_base::Init streams;
		int fd = atoi(fdt);
		unsetenv("C13_BEFORE_MAIN");
		unsetenv("C13_BEFORE_MAIN_FD");
		alarm(58);
		vh::Reader r(text);
		vh::Out o;
		std::string op = r.word();
		do_call(op, r, o);
		std::string t = o.s.str();
		size_t off	  = 0;
		while(off < t.size())
		{
			ssize_t k = write(fd, t.c_str() + off, t.size() - off);
			if(k <= 0)
				break;
			off += k;
		}
		fflush(stdout);
		fflush(stderr);
		_exit(0);
	}
};
static BeforeMain before_main;
