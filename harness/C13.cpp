// C13 harness: named 1-D methods and nested 2-D/3-D integrals of libphysica (case grammar: checks/C13.py)
//   named1d   <method> <p> <a> <b> <fexpr(x)>
//       -> value direct neval digest min max      (direct = the call the method name should delegate to)
//   nested2d  <method> <p> <x1> <x2> <y1> <y2> <fexpr(x,y)>
//       -> value neval digest minx maxx miny maxy
//   nested3d  <method> <p> <x1> <x2> <y1> <y2> <z1> <z2> <fexpr(x,y,z)>
//       -> value neval digest minx maxx miny maxy minz maxz
//   spherical <method> <p> <r1> <r2> <c1> <c2> <phi1> <phi2> <fexpr(x,y,z) of the vector components>
//       -> value neval digest min|v| max|v| min(vz/|v|) max(vz/|v|) min(azimuth) max(azimuth)
// neval/digest/min/max describe the arguments with which the user's function was called.
#include "common.hpp"
#include "libphysica/Integration.hpp"
#include "libphysica/Linear_Algebra.hpp"
#include <boost/math/quadrature/gauss.hpp>
#include <boost/math/quadrature/gauss_kronrod.hpp>
#include <boost/math/quadrature/tanh_sinh.hpp>
#include <boost/math/quadrature/trapezoidal.hpp>
using namespace libphysica;

struct Rec
{
	long n		  = 0;
	double digest = 0.0;
	double mn[3]  = {INFINITY, INFINITY, INFINITY};
	double mx[3]  = {-INFINITY, -INFINITY, -INFINITY};
	void see(int k, double v)
	{
		if(v < mn[k])
			mn[k] = v;
		if(v > mx[k])
			mx[k] = v;
	}
	void put(vh::Out& o, int dims)
	{
		o.i(n);
		o.f(digest);
		for(int k = 0; k < dims; k++)
		{
			o.f(mn[k]);
			o.f(mx[k]);
		}
	}
};

static double direct_1d(const std::string& method, std::function<double(double)> f, double a, double b, int p, bool& known)
{
	using namespace boost::math::quadrature;
	known = true;
	if(a == b)
		return 0.0;
	double sign = 1.0;
	if(a > b)
	{
		std::swap(a, b);
		sign = -1.0;
	}
	if(method == "Trapezoidal")
		return sign * trapezoidal(f, a, b);
	if(method == "Gauss-Legendre")
		return sign * gauss<double, 30>::integrate(f, a, b);
	if(method == "Gauss-Kronrod")
		return sign * gauss_kronrod<double, 31>::integrate(f, a, b, p == 0 ? 5 : p, 1e-9);
	if(method == "Tanh-Sinh")
	{
		tanh_sinh<double> integrator;
		return sign * integrator.integrate(f, a, b);
	}
	if(method == "Gauss-Legendre_2")
		return sign * Integrate_Gauss_Legendre(f, a, b, p == 0 ? 30 : p);
	if(method == "Adaptive-Simpson")
		return sign * Integrate(f, a, b, Find_Epsilon(f, a, b, 1e-9));
	known = false;
	return std::nan("");
}

static void handler(vh::Reader& r, vh::Out& o)
{
	std::string op	   = r.word();
	std::string method = r.word();
	int p			   = (int) r.integer();
	Rec rec;
	if(op == "named1d")
	{
		double a = r.num(), b = r.num();
		auto e = vh::parse_fexpr(r);
		std::function<double(double)> f = [&](double x) {
			rec.n++;
			rec.digest += x;
			rec.see(0, x);
			double v[3] = {x, 0, 0};
			return vh::eval_fexpr(*e, v);
		};
		double val = Integrate(f, a, b, method, p);
		bool known;
		double dir = direct_1d(method, vh::fun1(e), a, b, p, known);
		o.f(val);
		o.f(dir);
		rec.put(o, 1);
	}
	else if(op == "nested2d")
	{
		double x1 = r.num(), x2 = r.num(), y1 = r.num(), y2 = r.num();
		auto e = vh::parse_fexpr(r);
		std::function<double(double, double)> f = [&](double x, double y) {
			rec.n++;
			rec.digest += x + 2.0 * y;
			rec.see(0, x);
			rec.see(1, y);
			double v[3] = {x, y, 0};
			return vh::eval_fexpr(*e, v);
		};
		o.f(Integrate_2D(f, x1, x2, y1, y2, method, p));
		rec.put(o, 2);
	}
	else if(op == "nested3d")
	{
		double x1 = r.num(), x2 = r.num(), y1 = r.num(), y2 = r.num(), z1 = r.num(), z2 = r.num();
		auto e = vh::parse_fexpr(r);
		std::function<double(double, double, double)> f = [&](double x, double y, double z) {
			rec.n++;
			rec.digest += x + 2.0 * y + 3.0 * z;
			rec.see(0, x);
			rec.see(1, y);
			rec.see(2, z);
			double v[3] = {x, y, z};
			return vh::eval_fexpr(*e, v);
		};
		o.f(Integrate_3D(f, x1, x2, y1, y2, z1, z2, method, p));
		rec.put(o, 3);
	}
	else if(op == "spherical")
	{
		double r1 = r.num(), r2 = r.num(), c1 = r.num(), c2 = r.num(), f1 = r.num(), f2 = r.num();
		auto e = vh::parse_fexpr(r);
		std::function<double(Vector)> f = [&](Vector w) {
			double x = w[0], y = w[1], z = w[2];
			rec.n++;
			rec.digest += x + 2.0 * y + 3.0 * z;
			double nrm = std::sqrt(x * x + y * y + z * z);
			double az  = std::atan2(y, x);
			if(az < 0.0)
				az += 2.0 * M_PI;
			rec.see(0, nrm);
			rec.see(1, z / nrm);
			if(x != 0.0 || y != 0.0)
				rec.see(2, az);
			double v[3] = {x, y, z};
			return vh::eval_fexpr(*e, v);
		};
		o.f(Integrate_3D(f, r1, r2, c1, c2, f1, f2, method, p));
		rec.put(o, 3);
	}
	else
		o.w("HARNESSERR unknown_op");
}
int main(int argc, char** argv) { return vh::run(argc, argv, handler, 60); }
