// C04 harness: runs libphysica's Vector / Matrix algebra on the case file (grammar: checks/C04.py).
// Every public spelling is called as the user would write it (member function, operator, compound
// assignment, free operator).
#include "common.hpp"
#include <cstdio>
#include <cstdlib>
#include <cstring>
#include <sstream>
#include <memory>
#include <cfenv>
#include <cfloat>
#include <random>
#if defined(__SSE__) || defined(__SSE2__)
#include <xmmintrin.h>
#endif
#include "libphysica/Integration.hpp"
#include "libphysica/Linear_Algebra.hpp"
#include "libphysica/Numerics.hpp"
#include "libphysica/Special_Functions.hpp"
#include "libphysica/Statistics.hpp"
using namespace libphysica;

// ---- the ambient floating-point state of the process (`amb` cases; grammar: checks/C04.py) ----
// The control state the process started with is recorded before any library call; `fp_state` reports, as three integers that
// are 0 when nothing changed, the control bits of MXCSR (flush-to-zero, denormals-are-zero, exception masks, rounding
// direction) and the x87 control word relative to that state, and what a handful of operations actually do now: bit 0 a
// subnormal product is flushed, bit 1 a subnormal operand is read as zero, bits 2-4 a sum is not rounded to nearest.
static fenv_t g_env0;
static unsigned int g_csr0 = 0, g_cw0 = 0;
static unsigned int rd_csr()
{
#if defined(__SSE__) || defined(__SSE2__)
	return _mm_getcsr();
#else
	return 0;
#endif
}
static unsigned int rd_cw()
{
#if defined(__x86_64__) || defined(__i386__)
	unsigned short cw = 0;
	__asm__ __volatile__("fnstcw %0" : "=m"(cw));
	return cw;
#else
	return (unsigned int) fegetround();
#endif
}
static void env_record()
{
	fegetenv(&g_env0);
	g_csr0 = rd_csr();
	g_cw0  = rd_cw();
}
static void env_restore()
{
	fesetenv(&g_env0);
#if defined(__SSE__) || defined(__SSE2__)
	_mm_setcsr(g_csr0);
#endif
}
static long fp_probe()
{
	// constants are built by ldexp (exact, independent of the control state), operations are made on volatile operands at run time
	volatile double mn = DBL_MIN, half = 0.5, den = std::ldexp(1.0, -1074), one = 1.0, zero = 0.0, big = std::ldexp(1.0, 60);
	volatile double e1 = std::ldexp(1.0, -53), e2 = std::ldexp(1.5, -53), e3 = std::ldexp(1.0, -54);
	const double p_ok = std::ldexp(1.0, -1023), q_ok = std::ldexp(1.0, -1014), c_ok = 1.0 + std::ldexp(1.0, -52);
	long bits		  = 0;
	volatile double p = mn * half;
	if(p == zero || p != p_ok) bits |= 1;
	volatile double q = den * big;
	if(den == zero || q != q_ok) bits |= 2;
	volatile double a = one + e1, b = -one - e1, c = one + e2, d = one - e3;
	if(a != one) bits |= 4;
	if(b != -one) bits |= 8;
	if(c != c_ok || d != one) bits |= 16;
	return bits;
}
static void fp_state(vh::Out& o)
{
	o.w("fp");
	o.i((long) ((rd_csr() ^ g_csr0) & 0xFFC0u));
	o.i((long) (rd_cw() ^ g_cw0));
	o.i(fp_probe());
}

static void put(vh::Out& o, const Matrix& M)
{
	o.w("M");
	o.i(M.Rows());
	o.i(M.Columns());
	for(unsigned int i = 0; i < M.Rows(); i++)
		for(unsigned int j = 0; j < M.Columns(); j++)
			o.f(M[i][j]);
}
static void put(vh::Out& o, const Vector& v)
{
	o.w("V");
	o.i(v.Size());
	for(unsigned int i = 0; i < v.Size(); i++)
		o.f(v[i]);
}
// `hist <op> ...`: every matrix / vector argument is followed by `k step_1 .. step_k`, a call history that is applied
// to the freshly constructed object before the operation sees it (grammar and reference semantics: checks/C04.py).
// The operation is called on the very object that went through the history (no copy in between).
// `life ...`: several live objects, member calls on them one after the other; an argument `@k` is live object k itself.
static bool g_hist = false;
static std::vector<std::unique_ptr<Matrix>> g_ms, g_mtmp;	// live matrices of a `life` case; operands built for one call
static std::vector<std::unique_ptr<Vector>> g_vs, g_vtmp;
static long obj_ref(vh::Reader& r)
{
	if(r.i < r.t.size() && r.t[r.i].size() > 1 && r.t[r.i][0] == '@')
		return std::strtol(r.word().c_str() + 1, nullptr, 10);
	return -1;
}
static Matrix& live_mat(long k)
{
	if(k < 0 || k >= (long) g_ms.size()) { std::fprintf(stderr, "harness: no such object\n"); _exit(77); }
	return *g_ms[k];
}
static Vector& live_vec(long k)
{
	if(k < 0 || k >= (long) g_vs.size()) { std::fprintf(stderr, "harness: no such object\n"); _exit(77); }
	return *g_vs[k];
}
// operand of a step: a matrix built for the call, or a live object
static Matrix& step_mat(vh::Reader& r)
{
	long k = obj_ref(r);
	if(k >= 0)
		return live_mat(k);
	g_mtmp.emplace_back(new Matrix(r.table()));
	return *g_mtmp.back();
}
static Vector& step_vec(vh::Reader& r)
{
	long k = obj_ref(r);
	if(k >= 0)
		return live_vec(k);
	g_vtmp.emplace_back(new Vector(r.list()));
	return *g_vtmp.back();
}
// one call that changes the object held by A
static void mat_step(std::unique_ptr<Matrix>& A, vh::Reader& r)
{
	std::string st = r.word();
	if(st == "rs") { long p = r.integer(), q = r.integer(); A->Resize((int) p, (int) q); }
	else if(st == "as") { long p = r.integer(), q = r.integer(); double e = r.num(); A->Assign((int) p, (int) q, e); }
	else if(st == "dr") { long i = r.integer(); A->Delete_Row((unsigned int) i); }
	else if(st == "dc") { long i = r.integer(); A->Delete_Column((unsigned int) i); }
	else if(st == "st") { long i = r.integer(), j = r.integer(); double x = r.num(); (*A)[(unsigned int) i][j] = x; }
	else if(st == "cp") { A.reset(new Matrix(*A)); }
	else if(st == "eq")
	{
		// assignment into objects that had another (larger, smaller) shape before
		Matrix B(A->Rows() + 1, A->Columns() + 2, 7.0);
		B = *A;
		Matrix C(1, 1, 3.0);
		C  = B;
		*A = C;
	}
	else if(st == "se") { *A = *A; }
	else if(st == "af") { Matrix& B = step_mat(r); *A = B; }
	else if(st == "pa") { Matrix& B = step_mat(r); *A += B; }
	else if(st == "ma") { Matrix& B = step_mat(r); *A -= B; }
	else if(st == "sa") { *A += *A; }
	else if(st == "ss") { *A -= *A; }
	else if(st == "pl") { Matrix& B = step_mat(r); *A = *A + B; }
	else if(st == "mi") { Matrix& B = step_mat(r); *A = *A - B; }
	else if(st == "tr") { *A = A->Transpose(); }
	else if(st == "ms") { double x = r.num(); *A = *A * x; }
	else if(st == "dv") { double x = r.num(); *A = *A / x; }
	else if(st == "z") { long p = r.integer(), q = r.integer(); *A = Matrix((unsigned int) p, (unsigned int) q); }
	else if(st == "df") { *A = Matrix(); }
	else { std::fprintf(stderr, "unknown step\n"); std::abort(); }
}
static void vec_step(std::unique_ptr<Vector>& v, vh::Reader& r)
{
	std::string st = r.word();
	if(st == "rs") { long p = r.integer(); v->Resize((unsigned int) p); }
	else if(st == "as") { long p = r.integer(); double e = r.num(); v->Assign((unsigned int) p, e); }
	else if(st == "st") { long i = r.integer(); double x = r.num(); (*v)[(unsigned int) i] = x; }
	else if(st == "cp") { v.reset(new Vector(*v)); }
	else if(st == "eq")
	{
		Vector b(v->Size() + 3, 7.0);
		b = *v;
		Vector c(1, 3.0);
		c  = b;
		*v = c;
	}
	else if(st == "se") { *v = *v; }
	else if(st == "af") { Vector& b = step_vec(r); *v = b; }
	else if(st == "pa") { Vector& b = step_vec(r); *v += b; }
	else if(st == "ma") { Vector& b = step_vec(r); *v -= b; }
	else if(st == "sa") { *v += *v; }
	else if(st == "ss") { *v -= *v; }
	else if(st == "pl") { Vector& b = step_vec(r); *v = *v + b; }
	else if(st == "mi") { Vector& b = step_vec(r); *v = *v - b; }
	else if(st == "ms") { double x = r.num(); *v = *v * x; }
	else if(st == "sm") { double x = r.num(); *v = x * *v; }
	else if(st == "dv") { double x = r.num(); *v = *v / x; }
	else if(st == "z") { long p = r.integer(); *v = Vector((unsigned int) p); }
	else if(st == "df") { *v = Vector(); }
	else if(st == "nz") { v->Normalize(); }
	else if(st == "nd") { *v = v->Normalized(); }
	else { std::fprintf(stderr, "unknown step\n"); std::abort(); }
}
// a matrix / vector argument of an operation: the object itself is handed on (live object, or the object the history ran on)
static Matrix& rd_mat(vh::Reader& r)
{
	long k = obj_ref(r);
	if(k >= 0)
		return live_mat(k);
	g_mtmp.emplace_back(new Matrix(r.table()));
	size_t at = g_mtmp.size() - 1;
	if(g_hist)
	{
		std::unique_ptr<Matrix> A(new Matrix(*g_mtmp[at]));
		long n = r.integer();
		for(long s = 0; s < n; s++)
			mat_step(A, r);
		g_mtmp[at] = std::move(A);
	}
	return *g_mtmp[at];
}
static Vector& rd_vec(vh::Reader& r)
{
	long k = obj_ref(r);
	if(k >= 0)
		return live_vec(k);
	g_vtmp.emplace_back(new Vector(r.list()));
	size_t at = g_vtmp.size() - 1;
	if(g_hist)
	{
		std::unique_ptr<Vector> v(new Vector(*g_vtmp[at]));
		long n = r.integer();
		for(long s = 0; s < n; s++)
			vec_step(v, r);
		g_vtmp[at] = std::move(v);
	}
	return *g_vtmp[at];
}
static Matrix rd_block(vh::Reader& r)
{
	long rr = r.integer(), cc = r.integer();
	Matrix B((unsigned int) rr, (unsigned int) cc, 0.0);
	for(long i = 0; i < rr; i++)
		for(long j = 0; j < cc; j++)
			B[i][j] = r.num();
	return B;
}
static Matrix column_matrix(const Vector& v)
{
	std::vector<std::vector<double>> e;
	for(unsigned int i = 0; i < v.Size(); i++)
		e.push_back({v[i]});
	return Matrix(e);
}
static Matrix row_matrix(const Vector& v)
{
	std::vector<double> e;
	for(unsigned int i = 0; i < v.Size(); i++)
		e.push_back(v[i]);
	return Matrix(std::vector<std::vector<double>> {e});
}

// operator<< : the object is inserted into a string stream whose precision is 17 significant digits (so that every double
// is recovered exactly by strtod); the text is cut into the fixed strings of the source (one word each) and numbers.
static void put_printout(vh::Out& o, const std::string& t)
{
	static const std::pair<const char*, const char*> lits[] = {
		{" , ", "CM"}, {"(", "LP"}, {")", "RP"}, {"⌈", "LC"}, {"⌉", "RC"}, {"⌊", "LF"}, {"⌋", "RF"},
		{"|", "BAR"}, {"\t", "TAB"}, {"\n", "NL"}};
	std::vector<std::string> words;
	std::vector<double> numbers;
	std::vector<int> is_num;
	size_t p = 0;
	while(p < t.size())
	{
		bool hit = false;
		for(const auto& l : lits)
		{
			size_t n = strlen(l.first);
			if(t.compare(p, n, l.first) == 0)
			{
				words.push_back(l.second);
				is_num.push_back(0);
				p += n;
				hit = true;
				break;
			}
		}
		if(hit)
			continue;
		const char* b = t.c_str() + p;
		char* e		  = nullptr;
		double x	  = strtod(b, &e);
		if(e == b || *b == ' ' || *b == '\t' || *b == '\n')
		{
			words.push_back("JUNK");
			is_num.push_back(0);
			p += 1;
			continue;
		}
		numbers.push_back(x);
		words.push_back("");
		is_num.push_back(1);
		p += (size_t)(e - b);
	}
	o.w("P");
	o.i((long) words.size());
	size_t k = 0;
	for(size_t a = 0; a < words.size(); a++)
	{
		if(is_num[a])
			o.f(numbers[k++]);
		else
			o.w(words[a]);
	}
}
template <class X>
static void put_stream(vh::Out& o, const X& x)
{
	std::ostringstream s;
	s.precision(17);
	s << x;
	put_printout(o, s.str());
}

static void dispatch(const std::string& op, vh::Reader& r, vh::Out& o)
{
	if(op == "v_print") { const Vector& v = rd_vec(r); put_stream(o, v); }
	else if(op == "m_print") { const Matrix& A = rd_mat(r); put_stream(o, A); }
	else if(op == "m_plus") { Matrix &A = rd_mat(r), &B = rd_mat(r); put(o, A.Plus(B)); }
	else if(op == "m_minus") { Matrix &A = rd_mat(r), &B = rd_mat(r); put(o, A.Minus(B)); }
	else if(op == "m_op_plus") { Matrix &A = rd_mat(r), &B = rd_mat(r); put(o, A + B); }
	else if(op == "m_op_minus") { Matrix &A = rd_mat(r), &B = rd_mat(r); put(o, A - B); }
	else if(op == "m_add_assign") { Matrix &A = rd_mat(r), &B = rd_mat(r); A += B; put(o, A); }
	else if(op == "m_sub_assign") { Matrix &A = rd_mat(r), &B = rd_mat(r); A -= B; put(o, A); }
	else if(op == "m_prod") { Matrix &A = rd_mat(r), &B = rd_mat(r); put(o, A.Product(B)); }
	else if(op == "m_op_mul") { Matrix &A = rd_mat(r), &B = rd_mat(r); put(o, A * B); }
	else if(op == "m_prod_s") { Matrix& A = rd_mat(r); double s = r.num(); put(o, A.Product(s)); }
	else if(op == "m_op_mul_s") { Matrix& A = rd_mat(r); double s = r.num(); put(o, A * s); }
	else if(op == "s_mul_m") { double s = r.num(); Matrix& A = rd_mat(r); put(o, s * A); }
	else if(op == "m_div") { Matrix& A = rd_mat(r); double s = r.num(); put(o, A.Division(s)); }
	else if(op == "m_op_div") { Matrix& A = rd_mat(r); double s = r.num(); put(o, A / s); }
	else if(op == "m_prod_v") { Matrix& A = rd_mat(r); Vector& v = rd_vec(r); put(o, A.Product(v)); }
	else if(op == "m_op_mul_v") { Matrix& A = rd_mat(r); Vector& v = rd_vec(r); put(o, A * v); }
	else if(op == "v_mul_m") { Vector& v = rd_vec(r); Matrix& A = rd_mat(r); put(o, v * A); }
	else if(op == "outer") { Vector &u = rd_vec(r), &v = rd_vec(r); put(o, Outer_Vector_Product(u, v)); }
	else if(op == "v_dot") { Vector &u = rd_vec(r), &v = rd_vec(r); o.f(u.Dot(v)); }
	else if(op == "v_op_mul") { Vector &u = rd_vec(r), &v = rd_vec(r); o.f(u * v); }
	else if(op == "v_cross") { Vector &u = rd_vec(r), &v = rd_vec(r); put(o, u.Cross(v)); }
	else if(op == "v_norm") { Vector& u = rd_vec(r); o.f(u.Norm()); }
	else if(op == "v_normalized") { Vector& u = rd_vec(r); put(o, u.Normalized()); }
	else if(op == "v_normalize") { Vector& u = rd_vec(r); u.Normalize(); put(o, u); }
	else if(op == "v_add") { Vector &u = rd_vec(r), &v = rd_vec(r); put(o, u + v); }
	else if(op == "v_sub") { Vector &u = rd_vec(r), &v = rd_vec(r); put(o, u - v); }
	else if(op == "v_add_assign") { Vector &u = rd_vec(r), &v = rd_vec(r); u += v; put(o, u); }
	else if(op == "v_sub_assign") { Vector &u = rd_vec(r), &v = rd_vec(r); u -= v; put(o, u); }
	else if(op == "v_scale") { Vector& v = rd_vec(r); double s = r.num(); put(o, v * s); }
	else if(op == "v_div") { Vector& v = rd_vec(r); double s = r.num(); put(o, v / s); }
	else if(op == "s_mul_v") { double s = r.num(); Vector& v = rd_vec(r); put(o, s * v); }
	else if(op == "v_eq") { Vector &u = rd_vec(r), &v = rd_vec(r); o.i((u == v) ? 1 : 0); }
	else if(op == "transpose") { Matrix& A = rd_mat(r); put(o, A.Transpose()); }
	else if(op == "trace") { Matrix& A = rd_mat(r); o.f(A.Trace()); }
	else if(op == "m_norm") { Matrix& A = rd_mat(r); o.f(A.Norm()); }
	else if(op == "square") { Matrix& A = rd_mat(r); o.i(A.Square() ? 1 : 0); }
	else if(op == "symmetric") { Matrix& A = rd_mat(r); o.i(A.Symmetric() ? 1 : 0); }
	else if(op == "antisymmetric") { Matrix& A = rd_mat(r); o.i(A.Antisymmetric() ? 1 : 0); }
	else if(op == "diagonal") { Matrix& A = rd_mat(r); o.i(A.Diagonal() ? 1 : 0); }
	else if(op == "sub_matrix") { Matrix& A = rd_mat(r); long i = r.integer(), j = r.integer(); put(o, A.Sub_Matrix((int) i, (int) j)); }
	else if(op == "delete_row") { Matrix& A = rd_mat(r); long i = r.integer(); A.Delete_Row((unsigned int) i); put(o, A); }
	else if(op == "delete_column") { Matrix& A = rd_mat(r); long i = r.integer(); A.Delete_Column((unsigned int) i); put(o, A); }
	else if(op == "return_row") { Matrix& A = rd_mat(r); long i = r.integer(); put(o, A.Return_Row((unsigned int) i)); }
	else if(op == "return_column") { Matrix& A = rd_mat(r); long i = r.integer(); put(o, A.Return_Column((unsigned int) i)); }
	else if(op == "m_eq") { Matrix &A = rd_mat(r), &B = rd_mat(r); o.i((A == B) ? 1 : 0); }
	else if(op == "m_at") { Matrix& A = rd_mat(r); long i = r.integer(), j = r.integer(); o.f(A[(unsigned int) i][j]); }
	else if(op == "m_atc") { const Matrix& A = rd_mat(r); long i = r.integer(), j = r.integer(); o.f(A[(unsigned int) i][j]); }
	else if(op == "v_at") { Vector& v = rd_vec(r); long i = r.integer(); o.f(v[(unsigned int) i]); }
	else if(op == "v_atc") { const Vector& v = rd_vec(r); long i = r.integer(); o.f(v[(unsigned int) i]); }
	else if(op == "m_show") { Matrix& A = rd_mat(r); put(o, A); }
	else if(op == "v_show") { Vector& v = rd_vec(r); put(o, v); }
	else if(op == "identity") { long k = r.integer(); put(o, Identity_Matrix((unsigned int) k)); }
	else if(op == "mat_diag") { std::vector<double> d = r.list(); put(o, Matrix(d)); }
	else if(op == "mat_fill") { long a = r.integer(), b = r.integer(); double e = r.num(); put(o, Matrix((unsigned int) a, (unsigned int) b, e)); }
	else if(op == "mat_ctor") { put(o, Matrix(r.table())); }
	else if(op == "block")
	{
		long gr = r.integer();
		std::vector<std::vector<Matrix>> g;
		for(long a = 0; a < gr; a++)
		{
			long gc = r.integer();
			std::vector<Matrix> row;
			for(long b = 0; b < gc; b++)
				row.push_back(rd_block(r));
			g.push_back(row);
		}
		put(o, Matrix(g));
	}
	else if(op == "blockm")
	{
		// the same constructor on a grid of matrix arguments: tables, objects with a call history, live objects
		long gr = r.integer();
		std::vector<std::vector<Matrix>> g;
		for(long a = 0; a < gr; a++)
		{
			long gc = r.integer();
			std::vector<Matrix> row;
			for(long b = 0; b < gc; b++)
				row.push_back(rd_mat(r));
			g.push_back(row);
		}
		put(o, Matrix(g));
	}
	// ---- the laws of the property, evaluated on the implementation's own results ----
	else if(op == "law_trprod")
	{
		Matrix &A = rd_mat(r), &B = rd_mat(r);
		put(o, (A * B).Transpose());
		put(o, B.Transpose() * A.Transpose());
	}
	else if(op == "law_mulid")
	{
		Matrix& A = rd_mat(r);
		put(o, A * Identity_Matrix(A.Columns()));
		put(o, Identity_Matrix(A.Rows()) * A);
	}
	else if(op == "law_trtr") { Matrix& A = rd_mat(r); put(o, A.Transpose().Transpose()); }
	else if(op == "law_matvec")
	{
		Matrix& A = rd_mat(r);
		Vector& v = rd_vec(r);
		put(o, A * v);
		put(o, A * column_matrix(v));
	}
	else if(op == "law_vecmat")
	{
		Vector& v = rd_vec(r);
		Matrix& A = rd_mat(r);
		put(o, v * A);
		put(o, row_matrix(v) * A);
	}
	else if(op == "law_dotouter")
	{
		Vector &u = rd_vec(r), &v = rd_vec(r);
		o.f(u.Dot(v));
		put(o, row_matrix(u) * column_matrix(v));
		put(o, Outer_Vector_Product(u, v));
		put(o, column_matrix(u) * row_matrix(v));
	}
	else if(op == "law_vecmat_tr")
	{
		Vector& v = rd_vec(r);
		Matrix& A = rd_mat(r);
		Vector& w = rd_vec(r);
		put(o, v * A);
		put(o, A.Transpose() * v);
		put(o, A * w);
		put(o, w * A.Transpose());
	}
	else if(op == "law_trsum")
	{
		Matrix &A = rd_mat(r), &B = rd_mat(r);
		put(o, (A + B).Transpose());
		put(o, A.Transpose() + B.Transpose());
		put(o, (A - B).Transpose());
		put(o, A.Transpose() - B.Transpose());
	}
	else if(op == "law_cross")
	{
		Vector &u = rd_vec(r), &v = rd_vec(r);
		Vector w = u.Cross(v);
		put(o, w);
		o.f(u.Dot(w));
		o.f(v.Dot(w));
	}
	else
		o.w("HARNESSERR unknown_op");
}
// K step_1 .. step_K on the live objects;  step = m k <mutator> | v k <mutator> | o <op> <args>
static void life_body(vh::Reader& r, vh::Out& o)
{
	long steps = r.integer();
	for(long s = 0; s < steps; s++)
	{
		std::string w = r.word();
		if(w == "m") { long k = r.integer(); live_mat(k); mat_step(g_ms[k], r); }
		else if(w == "v") { long k = r.integer(); live_vec(k); vec_step(g_vs[k], r); }
		else if(w == "o") { std::string f = r.word(); dispatch(f, r, o); o.w("|"); }
		else { std::fprintf(stderr, "unknown life step\n"); std::abort(); }
	}
}
// what f prints, in a forked child: `EXIT` when the library terminates the child
template <class F>
static std::string forked(F f)
{
	int pfd[2];
	if(pipe(pfd) != 0)
		return "HARNESSERR pipe";
	fflush(stdout);
	fflush(stderr);
	pid_t pid = fork();
	if(pid == 0)
	{
		close(pfd[0]);
		vh::Out oc;
		f(oc);
		std::string s = oc.s.str();
		size_t off	  = 0;
		while(off < s.size())
		{
			ssize_t n = write(pfd[1], s.data() + off, s.size() - off);
			if(n <= 0)
				break;
			off += (size_t) n;
		}
		_exit(0);
	}
	close(pfd[1]);
	std::string got;
	char b[4096];
	ssize_t n;
	while((n = read(pfd[0], b, sizeof b)) > 0)
		got.append(b, (size_t) n);
	close(pfd[0]);
	int st = 0;
	waitpid(pid, &st, 0);
	if(WIFEXITED(st) && WEXITSTATUS(st) == 0)
		return got;
	if(WIFEXITED(st))
		return WEXITSTATUS(st) == 77 ? "HARNESSERR" : "EXIT";
	return "CRASH";
}
// ---- objects RETURNED by the library (`made` cases; grammar: checks/C04.py).  One producer = `kind L tok_1 .. tok_L`; the object it
// returns becomes the next live matrix / vector (copy-elided or copy-constructed from the returned temporary, never rebuilt from
// entries); matrix / vector arguments of a producer are tables / lists or `@j` = an object made earlier in the same case.
static void producer(vh::Reader& r)
{
	std::string p = r.word();
	r.integer();
	auto M = [](const Matrix& m) { g_ms.emplace_back(new Matrix(m)); };
	auto V = [](const Vector& v) { g_vs.emplace_back(new Vector(v)); };
	if(p == "tr") { Matrix& A = rd_mat(r); g_ms.emplace_back(new Matrix(A.Transpose())); }
	else if(p == "sb") { Matrix& A = rd_mat(r); long i = r.integer(), j = r.integer(); g_ms.emplace_back(new Matrix(A.Sub_Matrix((int) i, (int) j))); }
	else if(p == "ou") { Vector &u = rd_vec(r), &v = rd_vec(r); g_ms.emplace_back(new Matrix(Outer_Vector_Product(u, v))); }
	else if(p == "id") { long k = r.integer(); g_ms.emplace_back(new Matrix(Identity_Matrix((unsigned int) k))); }
	else if(p == "mp") { Matrix &A = rd_mat(r), &B = rd_mat(r); g_ms.emplace_back(new Matrix(A * B)); }
	else if(p == "pr") { Matrix &A = rd_mat(r), &B = rd_mat(r); g_ms.emplace_back(new Matrix(A.Product(B))); }
	else if(p == "pl") { Matrix &A = rd_mat(r), &B = rd_mat(r); g_ms.emplace_back(new Matrix(A + B)); }
	else if(p == "pn") { Matrix &A = rd_mat(r), &B = rd_mat(r); g_ms.emplace_back(new Matrix(A.Plus(B))); }
	else if(p == "mi") { Matrix &A = rd_mat(r), &B = rd_mat(r); g_ms.emplace_back(new Matrix(A - B)); }
	else if(p == "ms") { Matrix& A = rd_mat(r); double x = r.num(); g_ms.emplace_back(new Matrix(A * x)); }
	else if(p == "sm") { double x = r.num(); Matrix& A = rd_mat(r); g_ms.emplace_back(new Matrix(x * A)); }
	else if(p == "dv") { Matrix& A = rd_mat(r); double x = r.num(); g_ms.emplace_back(new Matrix(A / x)); }
	else if(p == "fl") { long a = r.integer(), b = r.integer(); double e = r.num(); g_ms.emplace_back(new Matrix((unsigned int) a, (unsigned int) b, e)); }
	else if(p == "dg") { std::vector<double> d = r.list(); g_ms.emplace_back(new Matrix(d)); }
	else if(p == "cp") { Matrix& A = rd_mat(r); M(A); }
	else if(p == "hs")
	{
		std::unique_ptr<Matrix> A(new Matrix(r.table()));
		long n = r.integer();
		for(long s = 0; s < n; s++)
			mat_step(A, r);
		g_ms.push_back(std::move(A));
	}
	else if(p == "bk")
	{
		long gr = r.integer();
		std::vector<std::vector<Matrix>> g;
		for(long a = 0; a < gr; a++)
		{
			long gc = r.integer();
			std::vector<Matrix> row;
			for(long b = 0; b < gc; b++)
				row.push_back(rd_mat(r));
			g.push_back(row);
		}
		g_ms.emplace_back(new Matrix(Matrix(g)));
	}
	// members and free functions outside the property's list that hand out Matrix / Vector objects
	else if(p == "iv") { Matrix& A = rd_mat(r); g_ms.emplace_back(new Matrix(A.Inverse())); }
	else if(p == "ro") { double al = r.num(); long d = r.integer(); Vector& ax = rd_vec(r); g_ms.emplace_back(new Matrix(Rotation_Matrix(al, (int) d, ax))); }
	else if(p == "qq") { Matrix& A = rd_mat(r); g_ms.emplace_back(new Matrix(QR_Decomposition(A).first)); }
	else if(p == "qr") { Matrix& A = rd_mat(r); g_ms.emplace_back(new Matrix(QR_Decomposition(A).second)); }
	else if(p == "rn") { Matrix& A = rd_mat(r); g_ms.emplace_back(new Matrix(Round(A))); }
	// vectors
	else if(p == "rr") { Matrix& A = rd_mat(r); long i = r.integer(); g_vs.emplace_back(new Vector(A.Return_Row((unsigned int) i))); }
	else if(p == "rc") { Matrix& A = rd_mat(r); long i = r.integer(); g_vs.emplace_back(new Vector(A.Return_Column((unsigned int) i))); }
	else if(p == "mv") { Matrix& A = rd_mat(r); Vector& v = rd_vec(r); g_vs.emplace_back(new Vector(A * v)); }
	else if(p == "vm") { Vector& v = rd_vec(r); Matrix& A = rd_mat(r); g_vs.emplace_back(new Vector(v * A)); }
	else if(p == "cr") { Vector &u = rd_vec(r), &v = rd_vec(r); g_vs.emplace_back(new Vector(u.Cross(v))); }
	else if(p == "nd") { Vector& u = rd_vec(r); g_vs.emplace_back(new Vector(u.Normalized())); }
	else if(p == "sc") { Vector& u = rd_vec(r); double x = r.num(); g_vs.emplace_back(new Vector(u * x)); }
	else if(p == "sp") { double a = r.num(), b = r.num(), c = r.num(); g_vs.emplace_back(new Vector(Spherical_Coordinates(a, b, c))); }
	else if(p == "vc") { Vector& u = rd_vec(r); V(u); }
	else { std::fprintf(stderr, "unknown producer %s\n", p.c_str()); _exit(77); }
}
// made NP producer_1 .. producer_NP K step_1 .. step_K: the session `K step_1 .. step_K` (steps of `life`) once on the returned
// objects themselves, `&&`, once on objects built from literals with the same entries (Matrix(vector<vector<double>>),
// Vector(vector<double>)), `&&`, the returned objects as Rows() / Columns() / operator[] (Size() / operator[]) show them.
static void made(vh::Reader& r, vh::Out& o)
{
	long np = r.integer();
	for(long k = 0; k < np; k++)
		producer(r);
	vh::Out shown;
	std::vector<std::unique_ptr<Matrix>> lm;
	std::vector<std::unique_ptr<Vector>> lv;
	for(auto& pm : g_ms)
	{
		const Matrix& A = *pm;
		put(shown, A);
		std::vector<std::vector<double>> e;
		for(unsigned int i = 0; i < A.Rows(); i++)
		{
			std::vector<double> row;
			for(unsigned int j = 0; j < A.Columns(); j++)
				row.push_back(A[i][j]);
			e.push_back(row);
		}
		if(A.Rows() > 0 && A.Columns() > 0)
			lm.emplace_back(new Matrix(e));
		else
			lm.emplace_back(new Matrix(A.Rows(), A.Columns(), 0.0));
	}
	for(auto& pv : g_vs)
	{
		const Vector& v = *pv;
		put(shown, v);
		std::vector<double> e;
		for(unsigned int i = 0; i < v.Size(); i++)
			e.push_back(v[i]);
		lv.emplace_back(new Vector(e));
	}
	const vh::Reader at = r;
	std::string a = forked([&](vh::Out& oc) { vh::Reader rc = at; life_body(rc, oc); });
	g_ms.swap(lm);
	g_vs.swap(lv);
	std::string b = forked([&](vh::Out& oc) { vh::Reader rc = at; life_body(rc, oc); });
	o.w(a);
	o.w("&&");
	o.w(b);
	o.w("&&");
	o.w(shown.s.str());
}
// ---- calls of OTHER facilities of the library (`amb` cases): `name L tok_1 .. tok_L`; their results are not part of the answer
static volatile double g_sink = 0.0;
static void foreign_call(const std::string& name, vh::Reader& r)
{
	double acc = 0.0;
	if(name == "eigenvalues") { Matrix M(r.table()); for(double x : Eigenvalues(M)) acc += x; }
	else if(name == "eigensystem") { Matrix M(r.table()); auto es = Eigensystem(M); for(double x : es.first) acc += x; for(auto& v : es.second) acc += v[0]; }
	else if(name == "eigenvectors") { Matrix M(r.table()); for(auto& v : Eigenvectors(M)) acc += v[0]; }
	else if(name == "qr") { Matrix M(r.table()); auto qr = QR_Decomposition(M); acc += qr.first[0][0] + qr.second[0][0]; }
	else if(name == "determinant") { Matrix M(r.table()); acc += M.Determinant(); }
	else if(name == "inverse") { Matrix M(r.table()); acc += M.Inverse()[0][0]; }
	else if(name == "invertible") { Matrix M(r.table()); acc += M.Invertible() ? 1.0 : 0.0; acc += M.Orthogonal() ? 1.0 : 0.0; }
	else if(name == "rotation") { double al = r.num(); long d = r.integer(); acc += Rotation_Matrix(al, (int) d)[0][0]; }
	else if(name == "angle") { Vector u(r.list()), v(r.list()); acc += Angle(u, v); }
	else if(name == "spherical") { double a = r.num(), b = r.num(), c = r.num(); acc += Spherical_Coordinates(a, b, c)[0]; }
	else if(name == "round") { Matrix M(r.table()); acc += Round(M)[0][0]; }
	else if(name == "integrate") { auto f = vh::fun1(vh::parse_fexpr(r)); double a = r.num(), b = r.num(), e = r.num(); acc += Integrate(f, a, b, e); }
	else if(name == "gauss_legendre") { auto f = vh::fun1(vh::parse_fexpr(r)); double a = r.num(), b = r.num(); long n = r.integer(); acc += Integrate_Gauss_Legendre(f, a, b, (unsigned int) n); }
	else if(name == "find_root") { auto f = vh::fun1(vh::parse_fexpr(r)); double a = r.num(), b = r.num(), e = r.num(); acc += Find_Root(f, a, b, e); }
	else if(name == "find_minimum") { auto f = vh::fun1(vh::parse_fexpr(r)); double a = r.num(), b = r.num(); acc += Find_Minimum(f, a, b); acc += Find_Maximum([f](double x) { return -f(x); }, a, b); }
	else if(name == "interpolation")
	{
		std::vector<double> xs = r.list(), fs = r.list();
		double x = r.num();
		Interpolation I(xs, fs);
		acc += I(x) + I.Derivative(x) + I.Integrate(xs.front(), x);
	}
	else if(name == "special") { double x = r.num(); acc += Gamma(x) + GammaLn(x) + Erfi(x) + Dawson_Integral(x) + GammaQ(x, 1.5) + Inv_Erf(0.25) + Factorial(7); }
	else if(name == "statistics")
	{
		double x = r.num(), mu = r.num(), sg = r.num();
		std::vector<double> data = r.list();
		acc += PDF_Gauss(x, mu, sg) + CDF_Gauss(x, mu, sg) + Quantile_Gauss(0.3, mu, sg) + CDF_Poisson(sg + 1.0, 3) + PDF_Chi_Square(sg, 3.0) + CDF_Maxwell_Boltzmann(sg, 1.0);
		acc += Arithmetic_Mean(data) + Variance(data) + Median(data);
	}
	else if(name == "sample")
	{
		long seed = r.integer(), n = r.integer();
		std::mt19937 PRNG((unsigned int) seed);
		for(long k = 0; k < n; k++)
			acc += Sample_Gauss(PRNG, 0.0, 1.0) + Sample_Uniform(PRNG, 0.0, 2.0) + Sample_Poisson(PRNG, 3.5);
	}
	else { std::fprintf(stderr, "unknown foreign call %s\n", name.c_str()); _exit(77); }
	g_sink = acc;
}
static void handler_inner(vh::Reader& r, vh::Out& o)
{
	std::string op = r.word();
	g_hist		   = false;
	g_ms.clear();
	g_vs.clear();
	g_mtmp.clear();
	g_vtmp.clear();
	if(op == "hist")
	{
		g_hist = true;
		op	   = r.word();
	}
	if(op == "made")
	{
		made(r, o);
		return;
	}
	if(op != "life")
	{
		dispatch(op, r, o);
		return;
	}
	// life NM T_1 .. T_NM NV L_1 .. L_NV K step_1 .. step_K;  step = m k <mutator> | v k <mutator> | o <op> <args>
	long nm = r.integer();
	for(long k = 0; k < nm; k++)
		g_ms.emplace_back(new Matrix(r.table()));
	long nv = r.integer();
	for(long k = 0; k < nv; k++)
		g_vs.emplace_back(new Vector(r.list()));
	life_body(r, o);
}
// the same request answered by a child process that runs in the control state the harness started with and has made no
// other call: `EXIT` when the library terminates it
static std::string pristine_answer(const vh::Reader& at)
{
	int pfd[2];
	if(pipe(pfd) != 0)
		return "HARNESSERR pipe";
	fflush(stdout);
	fflush(stderr);
	pid_t pid = fork();
	if(pid == 0)
	{
		close(pfd[0]);
		env_restore();
		vh::Reader rc = at;
		vh::Out oc;
		handler_inner(rc, oc);
		std::string s = oc.s.str();
		size_t off	  = 0;
		while(off < s.size())
		{
			ssize_t n = write(pfd[1], s.data() + off, s.size() - off);
			if(n <= 0)
				break;
			off += (size_t) n;
		}
		_exit(0);
	}
	close(pfd[1]);
	std::string got;
	char b[4096];
	ssize_t n;
	while((n = read(pfd[0], b, sizeof b)) > 0)
		got.append(b, (size_t) n);
	close(pfd[0]);
	int st = 0;
	waitpid(pid, &st, 0);
	if(WIFEXITED(st) && WEXITSTATUS(st) == 0)
		return got;
	if(WIFEXITED(st))
		return WEXITSTATUS(st) == 77 ? "HARNESSERR" : "EXIT";
	return "CRASH";
}
static void handler(vh::Reader& r, vh::Out& o)
{
	if(!(r.i < r.t.size() && r.t[r.i] == "amb"))
	{
		handler_inner(r, o);
		return;
	}
	// amb K (name L tok_1 .. tok_L)*K <request>: the request after K calls of other facilities of the library in this process,
	// `||`, the same request answered by a pristine process, `||`, the floating-point control state after the K calls.
	r.word();
	long k = r.integer();
	std::vector<std::pair<std::string, std::vector<std::string>>> calls;
	for(long c = 0; c < k; c++)
	{
		std::string name = r.word();
		long len		 = r.integer();
		std::vector<std::string> toks;
		for(long t = 0; t < len; t++)
			toks.push_back(r.word());
		calls.emplace_back(name, toks);
	}
	std::string pristine = pristine_answer(r);
	for(auto& c : calls)
	{
		vh::Reader rc("");
		rc.t = c.second;
		foreign_call(c.first, rc);
	}
	vh::Out st;
	fp_state(st);
	handler_inner(r, o);
	o.w("||");
	o.w(pristine);
	o.w("||");
	o.w(st.s.str());
	env_restore();	 // the cases that follow in this worker start from the recorded state again
}
int main(int argc, char** argv)
{
	env_record();
	return vh::run(argc, argv, handler);
}
