// C08 harness: Interpolation / Interpolation_2D integrals, extrema and prefactor operations (grammar: checks/C08.py).
// One line = one object (made by one of the constructors) + a list of operations. Set_Prefactor / Multiply act on the object;
// in the fresh modes every query runs on a copy of it, in the history modes on the object itself.
#include "common.hpp"
#include "libphysica/Numerics.hpp"
#include <algorithm>
using namespace libphysica;
static std::vector<double> scaled(double dim, std::vector<double> v)
{
	if(dim > 0.0)
		for(auto& x : v)
			x *= dim;
	return v;
}
static const double G3[3] = {0.5 - std::sqrt(0.6) / 2.0, 0.5, 0.5 + std::sqrt(0.6) / 2.0};
// the operations of a 1-D case on the object obj (xa = its abscissae after the unit scaling)
static void run1(Interpolation& obj, const std::vector<double>& xa, bool fresh, vh::Reader& r, vh::Out& o)
{
	{
		// fresh: every query on a copy of the object (fresh search state); otherwise every query on the one live object, so that
		// Locate's cached index / search-method switch sees the whole history (the model is the fresh-object semantics).
		Interpolation tmp;
		auto cur   = [&obj, &tmp, fresh]() -> Interpolation& { if(!fresh) return obj; tmp = obj; return tmp; };
		auto f	   = [&cur](double x) { return cur().Interpolate(x); };
		auto integ = [&cur](double a, double b) { return cur().Integrate(a, b); };
		auto lmin  = [&cur](double a, double b) { return cur().Local_Minimum(a, b); };
		auto lmax  = [&cur](double a, double b) { return cur().Local_Maximum(a, b); };
		auto gmin  = [&cur]() { return cur().Global_Minimum(); };
		auto gmax  = [&cur]() { return cur().Global_Maximum(); };
		long nq				   = r.integer();
		for(long q = 0; q < nq; q++)
		{
			std::string w = r.word();
			if(w == "P")
				obj.Set_Prefactor(r.num());
			else if(w == "X")
				obj.Multiply(r.num());
			else if(w == "I")
				o.f(f(r.num()));
			else if(w == "D")
			{
				long k	 = r.integer();
				double x = r.num();
				o.f(cur().Derivative(x, (unsigned int) k));
			}
			else if(w == "N")
			{
				double a = r.num(), b = r.num();
				o.f(integ(a, b));
			}
			else if(w == "m")
			{
				double a = r.num(), b = r.num();
				o.f(lmin(a, b));
			}
			else if(w == "M")
			{
				double a = r.num(), b = r.num();
				o.f(lmax(a, b));
			}
			else if(w == "g")
				o.f(gmin());
			else if(w == "G")
				o.f(gmax());
			else if(w == "E")
			{
				double a = r.num(), b = r.num();
				long n = r.integer();
				o.f(lmin(a, b));
				o.f(lmax(a, b));
				for(long k = 0; k <= n; k++)
					o.f(f(k == n ? b : a + (b - a) * double(k) / double(n)));
			}
			else if(w == "Z")
			{
				long n = r.integer();
				o.f(gmin());
				o.f(gmax());
				double a = xa.front(), b = xa.back();
				for(long k = 0; k <= n; k++)
					o.f(f(k == n ? b : a + (b - a) * double(k) / double(n)));
				// two evaluations inside the 1 % extrapolation tolerance
				o.f(f(a - 0.5 * (1e-2 * (xa[1] - xa[0]))));
				o.f(f(b + 0.5 * (1e-2 * (xa[xa.size() - 1] - xa[xa.size() - 2]))));
			}
			else if(w == "Q")
			{
				double a = r.num(), b = r.num();
				o.f(integ(a, b));
				o.f(integ(b, a));
				double lo = std::min(a, b), hi = std::max(a, b);
				std::vector<double> brk = {lo};
				for(double x : xa)
					if(x > lo && x < hi)
						brk.push_back(x);
				brk.push_back(hi);
				for(size_t k = 0; k + 1 < brk.size(); k++)
					for(double g : G3)
						o.f(f(brk[k] + (brk[k + 1] - brk[k]) * g));
			}
			else if(w == "A")
			{
				double a = r.num(), b = r.num(), c = r.num();
				o.f(integ(a, b));
				o.f(integ(b, c));
				o.f(integ(a, c));
			}
			else if(w == "B")
			{
				double a = r.num(), b = r.num();
				o.f(integ(a, b));
				o.f(lmin(a, b));
				o.f(lmax(a, b));
			}
			else if(w == "U")
			{
				double a = r.num(), x = r.num(), d = r.num();
				o.f(integ(a, x + d));
				o.f(integ(a, x - d));
				o.f(f(x));
				o.f(cur().Derivative(x, 2));
			}
			else
			{
				o.w("HARNESSERR unknown_op");
				return;
			}
		}
	}
}
// the operations of a 2-D case
static void run2(Interpolation_2D& obj, const std::vector<double>& xa, const std::vector<double>& ya, bool fresh, vh::Reader& r, vh::Out& o)
{
	{
		// fresh: every query on a copy of the object; otherwise on the one live object (its two index searches keep their history)
		Interpolation_2D tmp;
		auto cur = [&obj, &tmp, fresh]() -> Interpolation_2D& { if(!fresh) return obj; tmp = obj; return tmp; };
		long nq = r.integer();
		for(long q = 0; q < nq; q++)
		{
			std::string w = r.word();
			if(w == "P")
				obj.Set_Prefactor(r.num());
			else if(w == "X")
				obj.Multiply(r.num());
			else if(w == "I")
			{
				double x = r.num(), y = r.num();
				o.f(cur().Interpolate(x, y));
			}
			else if(w == "g")
			{
				o.f(cur().Global_Minimum());
			}
			else if(w == "G")
			{
				o.f(cur().Global_Maximum());
			}
			else if(w == "Z")
			{
				long n = r.integer();
				o.f(cur().Global_Minimum());
				o.f(cur().Global_Maximum());
				double x0 = xa.front(), x1 = xa.back(), y0 = ya.front(), y1 = ya.back();
				for(long a = 0; a <= n; a++)
				{
					double x = (a == n) ? x1 : x0 + (x1 - x0) * double(a) / double(n);
					for(long b = 0; b <= n; b++)
					{
						double y = (b == n) ? y1 : y0 + (y1 - y0) * double(b) / double(n);
						o.f(cur().Interpolate(x, y));
					}
				}
				// one evaluation inside the 1 % extrapolation tolerance
				o.f(cur().Interpolate(x0 - 0.5 * (1e-2 * (xa[1] - xa[0])), y0));
			}
			else
			{
				o.w("HARNESSERR unknown_op");
				return;
			}
		}
	}
}
static std::vector<double> column(const std::vector<std::vector<double>>& rows, size_t k, bool sort_unique)
{
	std::vector<double> v;
	for(auto& row : rows)
		if(row.size() > k)
			v.push_back(row[k]);
	if(sort_unique)
	{
		std::sort(v.begin(), v.end());
		v.erase(std::unique(v.begin(), v.end()), v.end());
	}
	return v;
}
static void handler(vh::Reader& r, vh::Out& o)
{
	std::string op = r.word();
	if(op == "t1" || op == "h1")
	{
		double xd = r.num(), fd = r.num();
		std::vector<double> xs = r.list(), ys = r.list();
		Interpolation obj(xs, ys, xd, fd);
		run1(obj, scaled(xd, xs), op == "t1", r, o);
	}
	else if(op == "d1" || op == "e1")	// constructor from rows (x, f); e1 = history mode
	{
		double xd = r.num(), fd = r.num();
		std::vector<std::vector<double>> rows = r.table();
		Interpolation obj(rows, xd, fd);
		run1(obj, scaled(xd, column(rows, 0, false)), op == "d1", r, o);
	}
	else if(op == "t0" || op == "h0")	// default constructor; h0 = history mode
	{
		Interpolation obj;
		run1(obj, {-1.0, 0.0, 1.0}, op == "t0", r, o);
	}
	else if(op == "t2" || op == "h2")	// h2 = history mode
	{
		double xd = r.num(), yd = r.num(), fd = r.num();
		std::vector<double> xs = r.list(), ys = r.list();
		std::vector<std::vector<double>> ft = r.table();
		Interpolation_2D obj(xs, ys, ft, xd, yd, fd);
		run2(obj, scaled(xd, xs), scaled(yd, ys), op == "t2", r, o);
	}
	else if(op == "d2")	  // constructor from a data table of rows (x, y, f)
	{
		double xd = r.num(), yd = r.num(), fd = r.num();
		std::vector<std::vector<double>> rows = r.table();
		Interpolation_2D obj(rows, xd, yd, fd);
		run2(obj, scaled(xd, column(rows, 0, true)), scaled(yd, column(rows, 1, true)), true, r, o);
	}
	else if(op == "z2")	  // default constructor
	{
		Interpolation_2D obj;
		run2(obj, {-1.0, 0.0, 1.0}, {-1.0, 0.0, 1.0}, true, r, o);
	}
	else
		o.w("HARNESSERR unknown_op");
}
int main(int argc, char** argv) { return vh::run(argc, argv, handler); }
