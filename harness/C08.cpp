// C08 harness: Interpolation / Interpolation_2D integrals, extrema and prefactor operations (grammar: checks/C08.py).
// One line = one object (made by one of the constructors) + a list of operations. Set_Prefactor / Multiply act on the object;
// in the fresh modes every query runs on a copy of it, in the history modes on the object itself.
// Sessions (s1 r1 s2 r2): several objects that are constructed, copied, moved, swapped and destroyed between the queries.
// Long tables (b1 k1): 10^3 .. 10^5 points given by rule.
#include "common.hpp"
#include "libphysica/Numerics.hpp"
#include <algorithm>
#include <functional>
#include <memory>
using namespace libphysica;
static std::vector<double> scaled(double dim, std::vector<double> v)
{
	if(dim > 0.0)
		for(auto& x : v)
			x *= dim;
	return v;
}
static const double G3[3] = {0.5 - std::sqrt(0.6) / 2.0, 0.5, 0.5 + std::sqrt(0.6) / 2.0};
// where the queries of a 1-D case go: mode 0 = the one live object, 1 = a copy made for every single call (fresh search state),
// 2 = a copy made once per operation (long tables)
struct Ctx1
{
	Interpolation* obj = nullptr;
	Interpolation tmp;
	int mode = 1;
	Interpolation& cur()
	{
		if(mode == 0)
			return *obj;
		if(mode == 1)
			tmp = *obj;
		return tmp;
	}
	void begin_op()
	{
		if(mode == 2)
			tmp = *obj;
	}
};
// one operation w of a 1-D case (xa = the abscissae of the object after the unit scaling); false = unknown operation
static bool op1(const std::string& w, Ctx1& cx, const std::vector<double>& xa, vh::Reader& r, vh::Out& o)
{
	Interpolation& obj = *cx.obj;
	auto f	   = [&cx](double x) { return cx.cur().Interpolate(x); };
	auto integ = [&cx](double a, double b) { return cx.cur().Integrate(a, b); };
	auto lmin  = [&cx](double a, double b) { return cx.cur().Local_Minimum(a, b); };
	auto lmax  = [&cx](double a, double b) { return cx.cur().Local_Maximum(a, b); };
	auto gmin  = [&cx]() { return cx.cur().Global_Minimum(); };
	auto gmax  = [&cx]() { return cx.cur().Global_Maximum(); };
	if(w == "P")
	{
		obj.Set_Prefactor(r.num());
		return true;
	}
	if(w == "X")
	{
		obj.Multiply(r.num());
		return true;
	}
	cx.begin_op();
	if(w == "I")
		o.f(f(r.num()));
	else if(w == "D")
	{
		long k	 = r.integer();
		double x = r.num();
		o.f(cx.cur().Derivative(x, (unsigned int) k));
	}
	else if(w == "N")
	{
		double a = r.num(), b = r.num();
		o.f(integ(a, b));
	}
	else if(w == "m")
	{
		double a = r.num(), b = r.num();
		o.f(lmin(a, b));
	}
	else if(w == "M")
	{
		double a = r.num(), b = r.num();
		o.f(lmax(a, b));
	}
	else if(w == "g")
		o.f(gmin());
	else if(w == "G")
		o.f(gmax());
	else if(w == "E")
	{
		double a = r.num(), b = r.num();
		long n = r.integer();
		o.f(lmin(a, b));
		o.f(lmax(a, b));
		for(long k = 0; k <= n; k++)
			o.f(f(k == n ? b : a + (b - a) * double(k) / double(n)));
	}
	else if(w == "Z")
	{
		long n = r.integer();
		o.f(gmin());
		o.f(gmax());
		double a = xa.front(), b = xa.back();
		for(long k = 0; k <= n; k++)
			o.f(f(k == n ? b : a + (b - a) * double(k) / double(n)));
		// two evaluations inside the 1 % extrapolation tolerance
		o.f(f(a - 0.5 * (1e-2 * (xa[1] - xa[0]))));
		o.f(f(b + 0.5 * (1e-2 * (xa[xa.size() - 1] - xa[xa.size() - 2]))));
	}
	else if(w == "Q" || w == "W")
	{
		// Q: both integrals and the three Gauss nodes of every piece between knots; W (long tables): both integrals and the Gauss sum itself
		double a = r.num(), b = r.num();
		o.f(integ(a, b));
		o.f(integ(b, a));
		double lo = std::min(a, b), hi = std::max(a, b);
		std::vector<double> brk = {lo};
		for(double x : xa)
			if(x > lo && x < hi)
				brk.push_back(x);
		brk.push_back(hi);
		double sum = 0.0;
		for(size_t k = 0; k + 1 < brk.size(); k++)
		{
			double v[3];
			for(int q = 0; q < 3; q++)
				v[q] = f(brk[k] + (brk[k + 1] - brk[k]) * G3[q]);
			if(w == "Q")
				for(int q = 0; q < 3; q++)
					o.f(v[q]);
			else
				sum += (brk[k + 1] - brk[k]) * (5.0 * v[0] + 8.0 * v[1] + 5.0 * v[2]) / 18.0;
		}
		if(w == "W")
			o.f(sum);
	}
	else if(w == "A")
	{
		double a = r.num(), b = r.num(), c = r.num();
		o.f(integ(a, b));
		o.f(integ(b, c));
		o.f(integ(a, c));
	}
	else if(w == "B")
	{
		double a = r.num(), b = r.num();
		o.f(integ(a, b));
		o.f(lmin(a, b));
		o.f(lmax(a, b));
	}
	else if(w == "C")	// operator() next to Interpolate
	{
		double x = r.num();
		o.f(cx.cur()(x));
		o.f(f(x));
	}
	else if(w == "O")	// the public member domain, every element of it
	{
		for(double v : cx.cur().domain)
			o.f(v);
	}
	else if(w == "U")
	{
		double a = r.num(), x = r.num(), d = r.num();
		o.f(integ(a, x + d));
		o.f(integ(a, x - d));
		o.f(f(x));
		o.f(cx.cur().Derivative(x, 2));
	}
	else
		return false;
	return true;
}
// the operations of a 1-D case on the object obj
static void run1(Interpolation& obj, const std::vector<double>& xa, int mode, vh::Reader& r, vh::Out& o)
{
	Ctx1 cx;
	cx.obj	= &obj;
	cx.mode = mode;
	long nq = r.integer();
	for(long q = 0; q < nq; q++)
		if(!op1(r.word(), cx, xa, r, o))
		{
			o.w("HARNESSERR unknown_op");
			return;
		}
}
struct Ctx2
{
	Interpolation_2D* obj = nullptr;
	Interpolation_2D tmp;
	bool fresh = true;
	Interpolation_2D& cur()
	{
		if(!fresh)
			return *obj;
		tmp = *obj;
		return tmp;
	}
};
// one operation of a 2-D case
static bool op2(const std::string& w, Ctx2& cx, const std::vector<double>& xa, const std::vector<double>& ya, vh::Reader& r, vh::Out& o)
{
	Interpolation_2D& obj = *cx.obj;
	if(w == "P")
		obj.Set_Prefactor(r.num());
	else if(w == "X")
		obj.Multiply(r.num());
	else if(w == "I")
	{
		double x = r.num(), y = r.num();
		o.f(cx.cur().Interpolate(x, y));
	}
	else if(w == "C")	// operator() next to Interpolate
	{
		double x = r.num(), y = r.num();
		o.f(cx.cur()(x, y));
		o.f(cx.cur().Interpolate(x, y));
	}
	else if(w == "O")	// the public member domain, every element of it
	{
		for(const auto& row : cx.cur().domain)
			for(double v : row)
				o.f(v);
	}
	else if(w == "g")
		o.f(cx.cur().Global_Minimum());
	else if(w == "G")
		o.f(cx.cur().Global_Maximum());
	else if(w == "Z")
	{
		long n = r.integer();
		o.f(cx.cur().Global_Minimum());
		o.f(cx.cur().Global_Maximum());
		double x0 = xa.front(), x1 = xa.back(), y0 = ya.front(), y1 = ya.back();
		for(long a = 0; a <= n; a++)
		{
			double x = (a == n) ? x1 : x0 + (x1 - x0) * double(a) / double(n);
			for(long b = 0; b <= n; b++)
			{
				double y = (b == n) ? y1 : y0 + (y1 - y0) * double(b) / double(n);
				o.f(cx.cur().Interpolate(x, y));
			}
		}
		// one evaluation inside the 1 % extrapolation tolerance
		o.f(cx.cur().Interpolate(x0 - 0.5 * (1e-2 * (xa[1] - xa[0])), y0));
	}
	else
		return false;
	return true;
}
// the operations of a 2-D case; fresh: every query on a copy of the object; otherwise on the one live object (its two index searches keep their history)
static void run2(Interpolation_2D& obj, const std::vector<double>& xa, const std::vector<double>& ya, bool fresh, vh::Reader& r, vh::Out& o)
{
	Ctx2 cx;
	cx.obj	 = &obj;
	cx.fresh = fresh;
	long nq	 = r.integer();
	for(long q = 0; q < nq; q++)
		if(!op2(r.word(), cx, xa, ya, r, o))
		{
			o.w("HARNESSERR unknown_op");
			return;
		}
}
// ---- several objects in one program: construction, copy construction / assignment, move, destruction, swap, by-value parameter, std::vector element
template <class Obj>
static Obj by_value(Obj o)
{
	return o;
}
template <class Obj>
struct Slots
{
	std::vector<std::unique_ptr<Obj>> p;   // null = no object; an object that was moved from stays allocated (it may be assigned to)
	std::vector<int> tab;				   // the table a slot holds (-1: none), for the sampling grids of the harness
	std::vector<std::function<Obj()>> make;
	int cur = 0;
	// returns 1 = done, 0 = not a lifecycle word
	int life(const std::string& w, vh::Reader& r)
	{
		if(w == "at")
		{
			cur = (int) r.integer();
			return 1;
		}
		if(w == "mk" || w == "mn")	 // slot k = Obj(table t): assigned to the object in place (mk) / the old object destroyed first, then a new one (mn)
		{
			long k = r.integer(), t = r.integer();
			if(w == "mk" && p[k])
				*p[k] = make[t]();
			else
			{
				p[k].reset();
				p[k].reset(new Obj(make[t]()));
			}
			tab[k] = (int) t;
			return 1;
		}
		if(w == "cp")	// copy assignment (copy construction when the slot holds no object)
		{
			long k = r.integer(), j = r.integer();
			if(p[k])
				*p[k] = *p[j];
			else
				p[k].reset(new Obj(*p[j]));
			tab[k] = tab[j];
			return 1;
		}
		if(w == "cc")	// copy construction of a new object; the object the slot held is destroyed afterwards
		{
			long k = r.integer(), j = r.integer();
			Obj* q = new Obj(*p[j]);
			p[k].reset(q);
			tab[k] = tab[j];
			return 1;
		}
		if(w == "mv")	// move assignment / construction; the source stays behind as a moved-from object
		{
			long k = r.integer(), j = r.integer();
			if(p[k])
				*p[k] = std::move(*p[j]);
			else
				p[k].reset(new Obj(std::move(*p[j])));
			tab[k] = tab[j];
			tab[j] = -1;
			return 1;
		}
		if(w == "rm")
		{
			long k = r.integer();
			p[k].reset();
			tab[k] = -1;
			return 1;
		}
		if(w == "sw")
		{
			long k = r.integer(), j = r.integer();
			std::swap(*p[k], *p[j]);
			std::swap(tab[k], tab[j]);
			return 1;
		}
		if(w == "vec")	 // n copies in a growing std::vector, one of them copied out, the vector destroyed
		{
			long k = r.integer(), j = r.integer(), n = r.integer();
			int t = tab[j];
			{
				std::vector<Obj> v;
				for(long i = 0; i < n; i++)
					v.push_back(*p[j]);
				Obj* q = new Obj(v[n / 2]);
				p[k].reset(q);
			}
			tab[k] = t;
			return 1;
		}
		if(w == "val")	 // through a by-value parameter and a returned value
		{
			long k = r.integer(), j = r.integer();
			int t  = tab[j];
			Obj* q = new Obj(by_value<Obj>(*p[j]));
			p[k].reset(q);
			tab[k] = t;
			return 1;
		}
		return 0;
	}
};
static void session1(bool fresh, vh::Reader& r, vh::Out& o)
{
	Slots<Interpolation> S;
	std::vector<std::vector<double>> xas;
	long nt = r.integer();
	for(long t = 0; t < nt; t++)
	{
		std::string kind = r.word();
		double xd = r.num(), fd = r.num();
		if(kind == "L")
		{
			std::vector<double> xs = r.list(), ys = r.list();
			xas.push_back(scaled(xd, xs));
			S.make.push_back([xs, ys, xd, fd]() { return Interpolation(xs, ys, xd, fd); });
		}
		else
		{
			std::vector<std::vector<double>> rows = r.table();
			std::vector<double> xs;
			for(auto& row : rows)
				xs.push_back(row[0]);
			xas.push_back(scaled(xd, xs));
			S.make.push_back([rows, xd, fd]() { return Interpolation(rows, xd, fd); });
		}
	}
	long ns = r.integer();
	S.p.resize(ns);
	S.tab.assign(ns, -1);
	Ctx1 cx;
	cx.mode = fresh ? 1 : 0;
	long nq = r.integer();
	for(long q = 0; q < nq; q++)
	{
		std::string w = r.word();
		if(S.life(w, r))
			continue;
		cx.obj = S.p[S.cur].get();
		if(!cx.obj || S.tab[S.cur] < 0 || !op1(w, cx, xas[S.tab[S.cur]], r, o))
		{
			o.w("HARNESSERR bad_session_op");
			return;
		}
	}
}
static void session2(bool fresh, vh::Reader& r, vh::Out& o)
{
	Slots<Interpolation_2D> S;
	std::vector<std::vector<double>> xas, yas;
	long nt = r.integer();
	for(long t = 0; t < nt; t++)
	{
		double xd = r.num(), yd = r.num(), fd = r.num();
		std::vector<double> xs = r.list(), ys = r.list();
		std::vector<std::vector<double>> ft = r.table();
		xas.push_back(scaled(xd, xs));
		yas.push_back(scaled(yd, ys));
		S.make.push_back([xs, ys, ft, xd, yd, fd]() { return Interpolation_2D(xs, ys, ft, xd, yd, fd); });
	}
	long ns = r.integer();
	S.p.resize(ns);
	S.tab.assign(ns, -1);
	Ctx2 cx;
	cx.fresh = fresh;
	long nq	 = r.integer();
	for(long q = 0; q < nq; q++)
	{
		std::string w = r.word();
		if(S.life(w, r))
			continue;
		cx.obj = S.p[S.cur].get();
		if(!cx.obj || S.tab[S.cur] < 0 || !op2(w, cx, xas[S.tab[S.cur]], yas[S.tab[S.cur]], r, o))
		{
			o.w("HARNESSERR bad_session_op");
			return;
		}
	}
}
// ---- long tables given by rule (checks/C08.py, rule_table): integers scaled by powers of two, so that the three programs build the same doubles
static void rule_table(vh::Reader& r, std::vector<double>& xs, std::vector<double>& ys)
{
	long N = r.integer();
	long long s = r.integer();
	long xk = r.integer();
	long long X0 = r.integer();
	long jit = r.integer(), yk = r.integer();
	long long p1 = r.integer(), p2 = r.integer();
	long ym = r.integer();
	auto next = [&s]() { s = (s * 1103515245LL + 12345LL) & 0x7fffffffLL; return s >> 16; };
	double ux = std::ldexp(1.0, (int) xk), uy = std::ldexp(1.0, (int) ym);
	for(long i = 0; i < N; i++)
		xs.push_back(double(X0 + 8LL * i + (jit ? next() % 7 : 0)) * ux);
	long long Y = p1;
	for(long i = 0; i < N; i++)
	{
		if(yk == 6 || yk == 7)	 // random ordinates p1 .. p1+15 scaled by 2^E before (6) / from (7) the knot q; p2 = q + N*E
		{
			long long q = p2 % N, E = p2 / N;
			bool tall	= ((i < q) == (yk == 6));
			ys.push_back(std::ldexp(double(p1 + next() % 16), tall ? (int) E : 0) * uy);
			continue;
		}
		long long v;
		if(yk == 0) v = p1;
		else if(yk == 1) v = p1 + p2 * i;
		else if(yk == 2) v = p1 + next() % (2 * p2 + 1) - p2;
		else if(yk == 3)
		{
			if(i > 0)
				Y += next() % (2 * p2 + 1) - p2;
			v = Y;
		}
		else if(yk == 4) v = p1 + p2 * ((i % 16 < 8) ? (i % 16) : 16 - (i % 16));
		else if(yk == 5) v = p1 + ((i == p2) ? 1000 : 0);
		else if(yk == 8) v = p1 + ((i % 2 == 0) ? p2 : -p2) * i;
		else v = p1 + ((i % 2 == 0) ? p2 : -p2) * (N - i);
		ys.push_back(double(v) * uy);
	}
}
static std::vector<double> column(const std::vector<std::vector<double>>& rows, size_t k, bool sort_unique)
{
	std::vector<double> v;
	for(auto& row : rows)
		if(row.size() > k)
			v.push_back(row[k]);
	if(sort_unique)
	{
		std::sort(v.begin(), v.end());
		v.erase(std::unique(v.begin(), v.end()), v.end());
	}
	return v;
}
static void handler(vh::Reader& r, vh::Out& o)
{
	std::string op = r.word();
	if(op == "t1" || op == "h1")
	{
		double xd = r.num(), fd = r.num();
		std::vector<double> xs = r.list(), ys = r.list();
		Interpolation obj(xs, ys, xd, fd);
		run1(obj, scaled(xd, xs), op == "t1" ? 1 : 0, r, o);
	}
	else if(op == "d1" || op == "e1")	// constructor from rows (x, f); e1 = history mode
	{
		double xd = r.num(), fd = r.num();
		std::vector<std::vector<double>> rows = r.table();
		Interpolation obj(rows, xd, fd);
		run1(obj, scaled(xd, column(rows, 0, false)), op == "d1" ? 1 : 0, r, o);
	}
	else if(op == "t0" || op == "h0")	// default constructor; h0 = history mode
	{
		Interpolation obj;
		run1(obj, {-1.0, 0.0, 1.0}, op == "t0" ? 1 : 0, r, o);
	}
	else if(op == "t2" || op == "h2")	// h2 = history mode
	{
		double xd = r.num(), yd = r.num(), fd = r.num();
		std::vector<double> xs = r.list(), ys = r.list();
		std::vector<std::vector<double>> ft = r.table();
		Interpolation_2D obj(xs, ys, ft, xd, yd, fd);
		run2(obj, scaled(xd, xs), scaled(yd, ys), op == "t2", r, o);
	}
	else if(op == "d2")	  // constructor from a data table of rows (x, y, f)
	{
		double xd = r.num(), yd = r.num(), fd = r.num();
		std::vector<std::vector<double>> rows = r.table();
		Interpolation_2D obj(rows, xd, yd, fd);
		run2(obj, scaled(xd, column(rows, 0, true)), scaled(yd, column(rows, 1, true)), true, r, o);
	}
	else if(op == "z2")	  // default constructor
	{
		Interpolation_2D obj;
		run2(obj, {-1.0, 0.0, 1.0}, {-1.0, 0.0, 1.0}, true, r, o);
	}
	else if(op == "s1" || op == "r1")	// several 1-D objects (r1: queries on the live objects)
		session1(op == "s1", r, o);
	else if(op == "s2" || op == "r2")
		session2(op == "s2", r, o);
	else if(op == "b1" || op == "k1")	// long table given by rule; b1: one copy per operation, k1: the live object
	{
		double xd = r.num(), fd = r.num();
		std::vector<double> xs, ys;
		rule_table(r, xs, ys);
		Interpolation obj(xs, ys, xd, fd);
		run1(obj, scaled(xd, xs), op == "b1" ? 2 : 0, r, o);
	}
	else
		o.w("HARNESSERR unknown_op");
}
int main(int argc, char** argv) { return vh::run(argc, argv, handler); }
