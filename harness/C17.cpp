// C17 harness: runs libphysica's scalar special functions and vector spherical harmonics on the case file
// (see checks/C17.py for the case grammar)
#include "common.hpp"
#include "libphysica/Linear_Algebra.hpp"
#include "libphysica/Special_Functions.hpp"
#include <cfenv>
#include <complex>
using namespace libphysica;
typedef std::complex<double> cd;
static void putc(vh::Out& o, cd z)
{
	o.f(z.real());
	o.f(z.imag());
}
static void table(vh::Out& o, cd (*comp)(int, int, int, int, int), int l, int m)
{
	for(int i = 0; i < 3; i++)
		for(int lh = l - 1; lh < l + 2; lh += 2)
			for(int mh = m - 1; mh < m + 2; mh++)
				putc(o, comp(i, l, m, lh, mh));
}
// Y_{l,m} at the direction v (not necessarily normalised), angles through atan2 (accurate near the poles)
static cd Y_at(int l, int m, const double v[3])
{
	double theta = std::atan2(std::hypot(v[0], v[1]), v[2]);
	double phi	 = std::atan2(v[1], v[0]);
	return Spherical_Harmonics(l, m, theta, phi);
}
static void handler(vh::Reader& r, vh::Out& o)
{
	std::string op = r.word();
	if(op == "fe")
	{
		// fe <mode> <case>: the case is run with the caller's rounding direction set to mode (0 to-nearest, 1 upward, 2 downward, 3 toward zero);
		// the direction is process state the library does not own (a call that exits ends the process, the next one starts in the default mode)
		static const int modes[4] = {FE_TONEAREST, FE_UPWARD, FE_DOWNWARD, FE_TOWARDZERO};
		long mode = r.integer();
		if(mode < 0 || mode > 3)
		{
			o.w("HARNESSERR bad_rounding_mode");
			return;
		}
		std::fesetround(modes[mode]);
		handler(r, o);
		int now = std::fegetround();
		std::fesetround(FE_TONEAREST);
		if(now != modes[mode])
			o.w("ROUNDING_MODE_CHANGED");
		return;
	}
	if(op == "gen")
	{
		// gen <case>: the same request; on the model side it is answered by the terms regenerated from the C++ source (T-tie) instead of the hand model
		handler(r, o);
		return;
	}
	if(op == "sign")
		o.i(Sign(r.num()));
	else if(op == "sign2")
	{
		double x = r.num(), y = r.num();
		o.f(Sign(x, y));
	}
	else if(op == "step")
		o.f(StepFunction(r.num()));
	else if(op == "reldiff")
	{
		double a = r.num(), b = r.num();
		o.f(Relative_Difference(a, b));
		o.f(Relative_Difference(b, a));
		o.f(Relative_Difference(a, a));
	}
	else if(op == "feq")
	{
		double a = r.num(), b = r.num(), t = r.num();
		o.i(Floats_Equal(a, b, t) ? 1 : 0);
		o.i(Floats_Equal(b, a, t) ? 1 : 0);
		o.i(Floats_Equal(a, a, t) ? 1 : 0);
		o.i(Floats_Equal(b, b, t) ? 1 : 0);
	}
	else if(op == "round")
	{
		// Round(x), Round(-x), Round(Round(x)), Round(y)
		double x = r.num(), y = r.num();
		unsigned int d = (unsigned int) r.integer();
		double rx = Round(x, d);
		o.f(rx);
		o.f(Round(-x, d));
		o.f(Round(rx, d));
		o.f(Round(y, d));
	}
	else if(op == "roundv")
	{
		long d = r.integer();
		Vector v(r.list());
		Vector w = Round(v, (unsigned int) d);
		o.i(w.Size());
		for(unsigned int k = 0; k < w.Size(); k++)
			o.f(w[k]);
	}
	else if(op == "roundm")
	{
		long d = r.integer();
		Matrix m(r.table());
		Matrix w = Round(m, (unsigned int) d);
		o.i(w.Rows());
		for(unsigned int i = 0; i < w.Rows(); i++)
		{
			o.i(w.Columns());
			for(unsigned int j = 0; j < w.Columns(); j++)
				o.f(w[i][j]);
		}
	}
	else if(op == "dawson")
	{
		double x = r.num();
		o.f(Dawson_Integral(x));
		o.f(Dawson_Integral(-x));
	}
	else if(op == "erfi")
	{
		double x = r.num();
		o.f(Erfi(x));
		o.f(Erfi(-x));
	}
	else if(op == "spechist")
	{
		// a history of Dawson_Integral (0) / Erfi (1) requests in this process (the static exponential table lives across them)
		long n = r.integer();
		for(long k = 0; k < n; k++)
		{
			long kind = r.integer();
			double x  = r.num();
			o.f(kind == 1 ? Erfi(x) : Dawson_Integral(x));
		}
	}
	else if(op == "inverf")
		o.f(Inv_Erf(r.num()));
	else if(op == "ycomp" || op == "psicomp")
	{
		int c = r.integer(), l = r.integer(), m = r.integer(), lh = r.integer(), mh = r.integer();
		putc(o, op == "ycomp" ? VSH_Y_Component(c, l, m, lh, mh) : VSH_Psi_Component(c, l, m, lh, mh));
	}
	else if(op == "vsh")
	{
		int l = r.integer(), m = r.integer();
		double theta = r.num(), phi = r.num();
		// 1. the coefficient-table entries the summation loops read (compared with the translated tables)
		table(o, VSH_Y_Component, l, m);
		table(o, VSH_Psi_Component, l, m);
		o.w("|");
		// 2. scalar harmonics: Y_{l,m}, Y_{l,-m}, and the six values the loops read (0 0 where the loops skip)
		putc(o, Spherical_Harmonics(l, m, theta, phi));
		putc(o, Spherical_Harmonics(l, -m, theta, phi));
		for(int lh = l - 1; lh < l + 2; lh += 2)
			for(int mh = m - 1; mh < m + 2; mh++)
				putc(o, (std::abs(mh) <= lh) ? Spherical_Harmonics(lh, mh, theta, phi) : cd(0.0, 0.0));
		// 3. the two vector harmonics
		for(auto& z : Vector_Spherical_Harmonics_Y(l, m, theta, phi))
			putc(o, z);
		for(auto& z : Vector_Spherical_Harmonics_Psi(l, m, theta, phi))
			putc(o, z);
		// 4. central differences of Y_{l,m} along two orthonormal tangent directions e1, e2 (step h on the unit sphere)
		double n[3] = {std::sin(theta) * std::cos(phi), std::sin(theta) * std::sin(phi), std::cos(theta)};
		int a		= 0;
		for(int k = 1; k < 3; k++)
			if(std::fabs(n[k]) < std::fabs(n[a]))
				a = k;
		double e1[3] = {0, 0, 0}, e2[3];
		e1[a]		 = 1.0;
		double dot	 = n[a];
		double nrm	 = 0;
		for(int k = 0; k < 3; k++)
		{
			e1[k] -= dot * n[k];
			nrm += e1[k] * e1[k];
		}
		nrm = std::sqrt(nrm);
		for(int k = 0; k < 3; k++)
			e1[k] /= nrm;
		e2[0]	 = n[1] * e1[2] - n[2] * e1[1];
		e2[1]	 = n[2] * e1[0] - n[0] * e1[2];
		e2[2]	 = n[0] * e1[1] - n[1] * e1[0];
		double h = 1.0 / 131072.0;
		o.f(h);
		for(int k = 0; k < 3; k++)
			o.f(e1[k]);
		for(int k = 0; k < 3; k++)
			o.f(e2[k]);
		for(int q = 0; q < 2; q++)
			for(int s = -1; s <= 1; s += 2)
			{
				double v[3];
				for(int k = 0; k < 3; k++)
					v[k] = n[k] + s * h * (q == 0 ? e1[k] : e2[k]);
				putc(o, Y_at(l, m, v));
			}
	}
	else if(op == "yhist")
	{
		// yhist nd th1 ph1 .. k (l m di)*k L M di: a history of scalar-harmonic requests over nd directions in ONE process (orders beyond the
		// degree included: the answer is 0 by definition), every answer printed; then the two vector harmonics of (L, M) at direction di
		long nd = r.integer();
		std::vector<double> th(nd), ph(nd);
		for(long i = 0; i < nd; i++)
		{
			th[i] = r.num();
			ph[i] = r.num();
		}
		long k = r.integer();
		for(long j = 0; j < k; j++)
		{
			int l = r.integer(), m = r.integer();
			long di = r.integer();
			putc(o, Spherical_Harmonics(l, m, th[di], ph[di]));
		}
		o.w("|");
		int L = r.integer(), M = r.integer();
		long di = r.integer();
		for(auto& z : Vector_Spherical_Harmonics_Y(L, M, th[di], ph[di]))
			putc(o, z);
		for(auto& z : Vector_Spherical_Harmonics_Psi(L, M, th[di], ph[di]))
			putc(o, z);
		putc(o, Spherical_Harmonics(L, M, th[di], ph[di]));
		putc(o, Spherical_Harmonics(L, -M, th[di], ph[di]));
	}
	else if(op == "roundhist")
	{
		// roundhist n (kind d payload)*n: a history of Round requests in ONE process; kind 0 = Round(double, d) (payload x), 1 = Round(Vector, d)
		// (payload list), 2 = Round(Matrix, d) (payload table); arguments may be NaN / +-inf / -0.0 / subnormal; every answer is printed
		long n = r.integer();
		for(long q = 0; q < n; q++)
		{
			long kind	   = r.integer();
			unsigned int d = (unsigned int) r.integer();
			if(kind == 0)
				o.f(Round(r.num(), d));
			else if(kind == 1)
			{
				Vector v(r.list());
				Vector w = Round(v, d);
				o.i(w.Size());
				for(unsigned int k = 0; k < w.Size(); k++)
					o.f(w[k]);
			}
			else
			{
				Matrix m(r.table());
				Matrix w = Round(m, d);
				o.i(w.Rows());
				for(unsigned int i = 0; i < w.Rows(); i++)
				{
					o.i(w.Columns());
					for(unsigned int j = 0; j < w.Columns(); j++)
						o.f(w[i][j]);
				}
			}
		}
	}
	else if(op == "vshhist")
	{
		// vshhist nd th1 ph1 .. k (kind l m di)*k: a history of harmonic requests over nd directions in ONE process (angles may be NaN / +-inf /
		// -0.0 / subnormal / huge); kind 0 = Vector_Spherical_Harmonics_Y, 1 = Vector_Spherical_Harmonics_Psi, 2 = Spherical_Harmonics; every answer printed;
		// degrees beyond 12 (up to thousands) are allowed: they are outside the property's judged range but legal requests of the same process
		long nd = r.integer();
		std::vector<double> th(nd), ph(nd);
		for(long i = 0; i < nd; i++)
		{
			th[i] = r.num();
			ph[i] = r.num();
		}
		long k = r.integer();
		for(long j = 0; j < k; j++)
		{
			long kind = r.integer();
			int l = r.integer(), m = r.integer();
			long di = r.integer();
			// a request may be abandoned by an exception coming out of the library (the scalar-harmonic back end reports an overflow at very high
			// orders by throwing); the caller catches it, as a user program may, records THROW for that request and goes on in the same process
			try
			{
				if(kind == 0)
				{
					std::vector<cd> v = Vector_Spherical_Harmonics_Y(l, m, th[di], ph[di]);
					for(auto& z : v)
						putc(o, z);
				}
				else if(kind == 1)
				{
					std::vector<cd> v = Vector_Spherical_Harmonics_Psi(l, m, th[di], ph[di]);
					for(auto& z : v)
						putc(o, z);
				}
				else
					putc(o, Spherical_Harmonics(l, m, th[di], ph[di]));
			}
			catch(const std::exception& e)
			{
				o.w("THROW");
			}
		}
	}
	else if(op == "vshx")
	{
		// vshx nd th1 ph1 .. k (kind l m di)*k: like vshhist, but before each request the six neighbouring scalar harmonics the summation loops read are
		// evaluated and printed (two numbers, or T when the evaluation throws, S when the loops skip it: |m_hat| > l_hat), then "=" and the answer (numbers
		// or THROW): the model is run on the same history with the back end's answers (and throws) as its function argument
		long nd = r.integer();
		std::vector<double> th(nd), ph(nd);
		for(long i = 0; i < nd; i++)
		{
			th[i] = r.num();
			ph[i] = r.num();
		}
		long k = r.integer();
		for(long j = 0; j < k; j++)
		{
			long kind = r.integer();
			int l = r.integer(), m = r.integer();
			long di = r.integer();
			for(int lh = l - 1; lh < l + 2; lh += 2)
				for(int mh = m - 1; mh < m + 2; mh++)
				{
					if(std::abs(mh) > lh)
					{
						o.w("S");
						continue;
					}
					try
					{
						cd y = Spherical_Harmonics(lh, mh, th[di], ph[di]);
						putc(o, y);
					}
					catch(const std::exception& e)
					{
						o.w("T");
					}
				}
			o.w("=");
			try
			{
				if(kind == 0)
				{
					std::vector<cd> v = Vector_Spherical_Harmonics_Y(l, m, th[di], ph[di]);
					for(auto& z : v)
						putc(o, z);
				}
				else if(kind == 1)
				{
					std::vector<cd> v = Vector_Spherical_Harmonics_Psi(l, m, th[di], ph[di]);
					for(auto& z : v)
						putc(o, z);
				}
				else
					putc(o, Spherical_Harmonics(l, m, th[di], ph[di]));
			}
			catch(const std::exception& e)
			{
				o.w("THROW");
			}
			o.w(";");
		}
	}
	else
		o.w("HARNESSERR unknown_op");
}
int main(int argc, char** argv) { return vh::run(argc, argv, handler); }
