// C02 harness: runs libphysica::Find_Root on the case file; see checks/C02.py for the grammar.
// Output: result, warning flag (the "Iterations exceed the maximum" message on stdout), number of evaluations of
// the objective function and their abscissae in call order (op both: for both orders of the ends; op seq: for each of
// the k requests of a history served by one process).  std::exit inside the library is reported by the runner.
// Ops sgn x / sgn2 x y: libphysica::Sign(x) (an int) / libphysica::Sign(x,y) (a double).
#include "common.hpp"
#include "libphysica/Numerics.hpp"
#include "libphysica/Special_Functions.hpp"
using namespace libphysica;
static void diag_reset()
{
	fflush(stdout);
	std::cout.flush();
	std::cerr.flush();
	if(ftruncate(1, 0) != 0) {}
	lseek(1, 0, SEEK_SET);
}
static bool diag_has(const char* needle)
{
	fflush(stdout);
	std::cout.flush();
	std::cerr.flush();
	off_t n = lseek(1, 0, SEEK_CUR);
	if(n <= 0)
		return false;
	std::string buf((size_t) n, '\0');
	ssize_t got = pread(1, &buf[0], (size_t) n, 0);
	if(got <= 0)
		return false;
	buf.resize((size_t) got);
	return buf.find(needle) != std::string::npos;
}
static void handler(vh::Reader& r, vh::Out& o)
{
	std::string op = r.word();
	if(op == "root" || op == "both")
	{
		double a = r.num(), b = r.num(), acc = r.num();
		r.word();
		long np = r.integer();
		for(long k = 0; k < np; k++)
			r.num();
		auto f = vh::fun1(vh::parse_fexpr(r));
		std::vector<double> trace;
		auto g = [&](double x) {
			trace.push_back(x);
			return f(x);
		};
		diag_reset();
		double x  = Find_Root(g, a, b, acc);
		bool warn = diag_has("Iterations exceed the maximum");
		o.f(x);
		o.i(warn ? 1 : 0);
		o.fl(trace);
		if(op == "both")
		{
			trace.clear();
			diag_reset();
			double y   = Find_Root(g, b, a, acc);
			bool warn2 = diag_has("Iterations exceed the maximum");
			o.f(y);
			o.i(warn2 ? 1 : 0);
			o.fl(trace);
		}
	}
	else if(op == "seq")
	{
		// k requests served one after the other by this process (all parsed first, then run in order)
		long k = r.integer();
		struct Req
		{
			double a, b, acc;
			std::function<double(double)> f;
		};
		std::vector<Req> reqs;
		for(long i = 0; i < k; i++)
		{
			Req q;
			q.a	  = r.num();
			q.b	  = r.num();
			q.acc = r.num();
			r.word();
			long np = r.integer();
			for(long j = 0; j < np; j++)
				r.num();
			q.f = vh::fun1(vh::parse_fexpr(r));
			reqs.push_back(q);
		}
		for(auto& q : reqs)
		{
			std::vector<double> trace;
			auto g = [&](double x) {
				trace.push_back(x);
				return q.f(x);
			};
			diag_reset();
			double x  = Find_Root(g, q.a, q.b, q.acc);
			bool warn = diag_has("Iterations exceed the maximum");
			o.f(x);
			o.i(warn ? 1 : 0);
			o.fl(trace);
		}
	}
	else if(op == "sgn")	 // int Sign(double): the end test and Ridder's formula of Find_Root
	{
		double x = r.num();
		o.i(Sign(x));
	}
	else if(op == "sgn2")	 // double Sign(double,double): the three re-bracketing tests of Find_Root
	{
		double x = r.num(), y = r.num();
		o.f(Sign(x, y));
	}
	else
		o.w("HARNESSERR unknown_op");
}
int main(int argc, char** argv) { return vh::run(argc, argv, handler, 20); }
