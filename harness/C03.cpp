// C03 harness: runs libphysica::Integrate (adaptive Simpson) on the case file; see checks/C03.py for the grammar.
// Output per call: value, warning flag (the "did not converge" message on stdout), number of integrand
// evaluations and (op int) the abscissae in call order, or min/max when there are more than TRACE_CAP.
// op seq: several calls in one process, some of them abandoned by an exception thrown by their integrand (X);
// op nest: an integrand that calls the library's integrator itself at every abscissa (re-entrant use).
#include "common.hpp"
#include "libphysica/Integration.hpp"
#include <algorithm>
using namespace libphysica;
static const size_t TRACE_CAP = 4500;

// stdout/stderr of the worker are one file opened O_RDWR by the runner (fd 1 == fd 2): look for the warning text
static void diag_reset()
{
	fflush(stdout);
	std::cout.flush();
	std::cerr.flush();
	if(ftruncate(1, 0) != 0) {}
	lseek(1, 0, SEEK_SET);
}
static bool diag_has(const char* needle)
{
	fflush(stdout);
	std::cout.flush();
	std::cerr.flush();
	off_t n = lseek(1, 0, SEEK_CUR);
	if(n <= 0)
		return false;
	std::string buf((size_t) n, '\0');
	ssize_t got = pread(1, &buf[0], (size_t) n, 0);
	if(got <= 0)
		return false;
	buf.resize((size_t) got);
	return buf.find(needle) != std::string::npos;
}
// text written since `from` (an offset obtained from diag_mark) contains the needle?
static off_t diag_mark()
{
	fflush(stdout);
	std::cout.flush();
	std::cerr.flush();
	return lseek(1, 0, SEEK_CUR);
}
static bool diag_since(off_t from, const char* needle)
{
	off_t n = diag_mark();
	if(n <= from)
		return false;
	std::string buf((size_t)(n - from), '\0');
	ssize_t got = pread(1, &buf[0], (size_t)(n - from), from);
	if(got <= 0)
		return false;
	buf.resize((size_t) got);
	return buf.find(needle) != std::string::npos;
}
// forget what was written since `from` (diagnostics of a call made by the integrand must not be taken for those of the outer call)
static void diag_rewind(off_t from)
{
	if(from < 0)
		return;
	if(ftruncate(1, from) != 0) {}
	lseek(1, from, SEEK_SET);
}
struct Abandon   // thrown by an integrand to abandon the running integration
{
};
static bool same_bits(double x, double y) { return (x != x && y != y) || (x == y && std::signbit(x) == std::signbit(y)); }
static void skip_family(vh::Reader& r)
{
	r.word();
	long n = r.integer();
	for(long k = 0; k < n; k++)
		r.num();
}
static void call(vh::Out& o, const std::function<double(double)>& f, double a, double b, double eps, int depth, bool full)
{
	std::vector<double> trace;
	auto g = [&](double x) {
		trace.push_back(x);
		return f(x);
	};
	diag_reset();
	double v  = Integrate(g, a, b, eps, depth);
	bool warn = diag_has("did not converge");
	o.f(v);
	o.i(warn ? 1 : 0);
	o.i((long) trace.size());
	if(full)
	{
		if(trace.size() <= TRACE_CAP)
			for(double x : trace)
				o.f(x);
		else
		{
			o.f(*std::min_element(trace.begin(), trace.end()));
			o.f(*std::max_element(trace.begin(), trace.end()));
		}
	}
}
static void handler(vh::Reader& r, vh::Out& o)
{
	std::string op = r.word();
	if(op == "int" || op == "swap" || op == "epssign")
	{
		double a = r.num(), b = r.num(), eps = r.num();
		int depth = (int) r.integer();
		skip_family(r);
		auto f = vh::fun1(vh::parse_fexpr(r));
		if(op == "int")
			call(o, f, a, b, eps, depth, true);
		else if(op == "swap")
		{
			call(o, f, a, b, eps, depth, false);
			call(o, f, b, a, eps, depth, false);
		}
		else
		{
			call(o, f, a, b, eps, depth, false);
			call(o, f, a, b, -eps, depth, false);
		}
	}
	else if(op == "findeps")
	{
		double a = r.num(), b = r.num(), p = r.num();
		skip_family(r);
		auto f = vh::fun1(vh::parse_fexpr(r));
		o.f(Find_Epsilon(f, a, b, p));
	}
	else if(op == "seq")
	{
		// several calls in one process (see ocaml/C03_driver.ml for the grammar); each is answered with
		// value, warning flag, number of integrand evaluations, smallest and largest abscissa
		long k		= r.integer();
		double last = 0.0;
		auto eps_tok = [&]() {
			if(r.i < r.t.size() && r.t[r.i] == "@")
			{
				r.i++;
				return last;
			}
			return r.num();
		};
		for(long j = 0; j < k; j++)
		{
			std::string c = r.word();
			// X, XD, XM, XF, XO: the call I, D, M, F, O whose integrand abandons it (throws) at its k-th evaluation
			bool abandonable = c.size() >= 1 && c[0] == 'X';
			if(abandonable)
				c = c.size() == 1 ? "I" : c.substr(1);
			double a = r.num(), b = r.num(), eps = 0, prec = 0;
			int depth = 0;
			long abandon_at = 0;
			std::string method;
			if(c == "I")
			{
				eps	  = eps_tok();
				depth = (int) r.integer();
			}
			else if(c == "D")
				eps = eps_tok();
			else if(c == "F")
				prec = r.num();
			else if(c == "O")
				method = r.word();
			else if(c != "M")
			{
				o.w("HARNESSERR unknown_call");
				return;
			}
			if(abandonable)
				abandon_at = r.integer();
			skip_family(r);
			auto f = vh::fun1(vh::parse_fexpr(r));
			std::vector<double> trace;
			auto g = [&](double x) {
				trace.push_back(x);
				if(abandon_at > 0 && (long) trace.size() >= abandon_at)
					throw Abandon();
				return f(x);
			};
			diag_reset();
			double v = 0.0;
			if(c == "O")
			{
				// another method of the string overload (not part of the property): made for the history only, its answer is
				// not reported; whatever it throws (the integrand's Abandon, an evaluation error of the quadrature) ends it
				try
				{
					v = Integrate(g, a, b, method);
				}
				catch(...)
				{
				}
				diag_reset();
				o.f(0.0);
				o.i(0);
				o.i(0);
				o.f(INFINITY);
				o.f(-INFINITY);
				continue;
			}
			try
			{
				if(c == "I")
					v = Integrate(g, a, b, eps, depth);
				else if(c == "D")
					v = Integrate(g, a, b, eps);
				else if(c == "M")
					v = Integrate(g, a, b, "Adaptive-Simpson");
				else
					v = last = Find_Epsilon(g, a, b, prec);
			}
			catch(const Abandon&)
			{
				// the integrand abandoned the call at its abandon_at-th evaluation (exception through the library)
				o.f(std::nan(""));
				o.i(0);
				o.i((long) trace.size());
				o.f(INFINITY);
				o.f(-INFINITY);
				continue;
			}
			bool warn = diag_has("did not converge");
			o.f(v);
			o.i(warn ? 1 : 0);
			o.i((long) trace.size());
			double lo = INFINITY, hi = -INFINITY;
			for(double x : trace)
			{
				if(x < lo)
					lo = x;
				if(x > hi)
					hi = x;
			}
			o.f(lo);
			o.f(hi);
		}
	}
	else if(op == "nest")
	{
		// re-entrant integrand (grammar: ocaml/C03_driver.ml): F(x) = E(x, J(x)), J(x) = value of a call of the library made
		// by the integrand itself with integrand t -> g(x,t) and limits lo(x), hi(x)
		std::string ok = r.word();
		double a = r.num(), b = r.num(), eps = 0;
		int depth = 20;
		if(ok == "I" || ok == "D")
			eps = r.num();
		if(ok == "I")
			depth = (int) r.integer();
		std::string ik = r.word();
		double ieps = 0;
		int idepth = 20;
		if(ik == "I" || ik == "D" || ik == "F")
			ieps = r.num();
		if(ik == "I")
			idepth = (int) r.integer();
		if((ok != "I" && ok != "D" && ok != "M") || (ik != "I" && ik != "D" && ik != "M" && ik != "F"))
		{
			o.w("HARNESSERR unknown_call");
			return;
		}
		skip_family(r);
		auto lo = vh::parse_fexpr(r), hi = vh::parse_fexpr(r), g = vh::parse_fexpr(r), E = vh::parse_fexpr(r);
		struct Inner
		{
			double value;
			long count, outside;
			bool warn;
		};
		auto F = [&](double x, Inner& st) {
			double v[3] = {x, 0, 0};
			double l = vh::eval_fexpr(*lo, v), h = vh::eval_fexpr(*hi, v);
			double mn = std::min(l, h), mx = std::max(l, h);
			st.count = st.outside = 0;
			const vh::FExpr* gp = g.get();
			std::function<double(double)> gi = [&st, gp, x, mn, mx](double t) {
				st.count++;
				if(!(t >= mn && t <= mx))
					st.outside++;
				double w[3] = {x, t, 0};
				return vh::eval_fexpr(*gp, w);
			};
			off_t mark = diag_mark();
			double J;
			if(ik == "I")
				J = Integrate(gi, l, h, ieps, idepth);
			else if(ik == "D")
				J = Integrate(gi, l, h, ieps);
			else if(ik == "M")
				J = Integrate(gi, l, h, "Adaptive-Simpson");
			else
				J = Find_Epsilon(gi, l, h, ieps);
			st.warn = diag_since(mark, "did not converge");
			diag_rewind(mark);
			double w[3] = {x, J, 0};
			st.value = vh::eval_fexpr(*E, w);
			return st.value;
		};
		// evaluation budget: well above the bound of the property, so that a runaway recursion ends as a reported count
		long dn		= depth > 0 ? depth : 0;
		long budget = (1L << (dn + 2)) + 1 + 3 + 256;
		std::vector<double> trace;
		std::vector<Inner> inner;
		auto G = [&](double x) {
			if((long) trace.size() >= budget)
				throw Abandon();
			trace.push_back(x);
			Inner st;
			double v = F(x, st);
			inner.push_back(st);
			return v;
		};
		diag_reset();
		double v;
		bool warn = false;
		try
		{
			if(ok == "I")
				v = Integrate(G, a, b, eps, depth);
			else if(ok == "D")
				v = Integrate(G, a, b, eps);
			else
				v = Integrate(G, a, b, "Adaptive-Simpson");
			warn = diag_has("did not converge");
		}
		catch(const Abandon&)
		{
			v = std::nan("");
		}
		long itot = 0, imax = 0, iwarn = 0, iout = 0, imis = 0;
		double xmis = 0.0;
		for(const Inner& st : inner)
		{
			itot += st.count;
			imax = std::max(imax, st.count);
			iwarn += st.warn ? 1 : 0;
			iout += st.outside;
		}
		// every answer the integrand obtained from the library while the outer call was running, against the answer to
		// the same request made alone (no integration in progress)
		for(size_t k = 0; k < inner.size(); k++)
		{
			Inner st;
			F(trace[k], st);
			if(!same_bits(st.value, inner[k].value) || st.count != inner[k].count || st.warn != inner[k].warn)
			{
				if(imis == 0)
					xmis = trace[k];
				imis++;
			}
		}
		o.f(v);
		o.i(warn ? 1 : 0);
		o.i((long) trace.size());
		o.i(itot);
		o.i(imax);
		o.i(iwarn);
		o.i(iout);
		o.i(imis);
		o.f(xmis);
		if(trace.size() <= TRACE_CAP)
			for(double x : trace)
				o.f(x);
		else
		{
			o.f(*std::min_element(trace.begin(), trace.end()));
			o.f(*std::max_element(trace.begin(), trace.end()));
		}
	}
	else if(op == "diag")
	{
		// Integrate with everything it writes: value, non-convergence warning, count, swap notice (stderr), nan notice, inf notice
		double a = r.num(), b = r.num(), eps = r.num();
		int depth = (int) r.integer();
		skip_family(r);
		auto f = vh::fun1(vh::parse_fexpr(r));
		long n = 0;
		auto g = [&](double x) {
			n++;
			return f(x);
		};
		diag_reset();
		double v = Integrate(g, a, b, eps, depth);
		o.f(v);
		o.i(diag_has("did not converge") ? 1 : 0);
		o.i(n);
		o.i(diag_has("Sign will get swapped") ? 1 : 0);
		o.i(diag_has("Result is nan") ? 1 : 0);
		o.i(diag_has("Result is inf") ? 1 : 0);
	}
	else if(op == "named")
	{
		// the string overload with an arbitrary method name: unrecognised names end the process (the runner reports EXIT);
		// the recognised methods other than "Adaptive-Simpson" are not part of this property: called for equal limits only
		std::string name = r.word();
		double a = r.num(), b = r.num();
		skip_family(r);
		auto f = vh::fun1(vh::parse_fexpr(r));
		long n = 0;
		auto g = [&](double x) {
			n++;
			return f(x);
		};
		bool other = name == "Trapezoidal" || name == "Gauss-Legendre" || name == "Gauss-Kronrod" || name == "Tanh-Sinh" || name == "Gauss-Legendre_2";
		if(other && a != b)
		{
			o.w("SKIP");
			return;
		}
		diag_reset();
		double v = Integrate(g, a, b, name);
		o.f(v);
		o.i(diag_has("did not converge") ? 1 : 0);
		o.i(n);
	}
	else if(op == "i2d" || op == "i3d")
	{
		bool three = op == "i3d";
		double x1 = r.num(), x2 = r.num(), y1 = r.num(), y2 = r.num(), z1 = 0, z2 = 0;
		if(three)
		{
			z1 = r.num();
			z2 = r.num();
		}
		skip_family(r);
		auto g = vh::parse_fexpr(r);
		const vh::FExpr* gp = g.get();
		long n = 0;
		const long budget = 40000000;
		double xmn = INFINITY, xmx = -INFINITY, ymn = INFINITY, ymx = -INFINITY;
		diag_reset();
		double v;
		try
		{
			if(three)
				v = Integrate_3D([&](double x, double y, double z) {
					if(++n > budget)
						throw Abandon();
					double w[3] = {x, y, z};
					return vh::eval_fexpr(*gp, w);
				},
								 x1, x2, y1, y2, z1, z2, "Adaptive-Simpson");
			else
				v = Integrate_2D([&](double x, double y) {
					if(++n > budget)
						throw Abandon();
					xmn = std::min(xmn, x);
					xmx = std::max(xmx, x);
					ymn = std::min(ymn, y);
					ymx = std::max(ymx, y);
					double w[3] = {x, y, 0};
					return vh::eval_fexpr(*gp, w);
				},
								 x1, x2, y1, y2, "Adaptive-Simpson");
		}
		catch(const Abandon&)
		{
			v = std::nan("");
		}
		o.f(v);
		o.i(diag_has("did not converge") ? 1 : 0);
		o.i(n);
		if(!three)
		{
			o.f(xmn);
			o.f(xmx);
			o.f(ymn);
			o.f(ymx);
		}
	}
	else
		o.w("HARNESSERR unknown_op");
}
int main(int argc, char** argv) { return vh::run(argc, argv, handler, 60); }
