// C03 harness: runs libphysica::Integrate (adaptive Simpson) on the case file; see checks/C03.py for the grammar.
// Output per call: value, warning flag (the "did not converge" message on stdout), number of integrand
// evaluations and (op int) the abscissae in call order, or min/max when there are more than TRACE_CAP.
#include "common.hpp"
#include "libphysica/Integration.hpp"
#include <algorithm>
using namespace libphysica;
static const size_t TRACE_CAP = 4500;

// stdout/stderr of the worker are one file opened O_RDWR by the runner (fd 1 == fd 2): look for the warning text
static void diag_reset()
{
	fflush(stdout);
	std::cout.flush();
	std::cerr.flush();
	if(ftruncate(1, 0) != 0) {}
	lseek(1, 0, SEEK_SET);
}
static bool diag_has(const char* needle)
{
	fflush(stdout);
	std::cout.flush();
	std::cerr.flush();
	off_t n = lseek(1, 0, SEEK_CUR);
	if(n <= 0)
		return false;
	std::string buf((size_t) n, '\0');
	ssize_t got = pread(1, &buf[0], (size_t) n, 0);
	if(got <= 0)
		return false;
	buf.resize((size_t) got);
	return buf.find(needle) != std::string::npos;
}
static void skip_family(vh::Reader& r)
{
	r.word();
	long n = r.integer();
	for(long k = 0; k < n; k++)
		r.num();
}
static void call(vh::Out& o, const std::function<double(double)>& f, double a, double b, double eps, int depth, bool full)
{
	std::vector<double> trace;
	auto g = [&](double x) {
		trace.push_back(x);
		return f(x);
	};
	diag_reset();
	double v  = Integrate(g, a, b, eps, depth);
	bool warn = diag_has("did not converge");
	o.f(v);
	o.i(warn ? 1 : 0);
	o.i((long) trace.size());
	if(full)
	{
		if(trace.size() <= TRACE_CAP)
			for(double x : trace)
				o.f(x);
		else
		{
			o.f(*std::min_element(trace.begin(), trace.end()));
			o.f(*std::max_element(trace.begin(), trace.end()));
		}
	}
}
static void handler(vh::Reader& r, vh::Out& o)
{
	std::string op = r.word();
	if(op == "int" || op == "swap" || op == "epssign")
	{
		double a = r.num(), b = r.num(), eps = r.num();
		int depth = (int) r.integer();
		skip_family(r);
		auto f = vh::fun1(vh::parse_fexpr(r));
		if(op == "int")
			call(o, f, a, b, eps, depth, true);
		else if(op == "swap")
		{
			call(o, f, a, b, eps, depth, false);
			call(o, f, b, a, eps, depth, false);
		}
		else
		{
			call(o, f, a, b, eps, depth, false);
			call(o, f, a, b, -eps, depth, false);
		}
	}
	else if(op == "findeps")
	{
		double a = r.num(), b = r.num(), p = r.num();
		skip_family(r);
		auto f = vh::fun1(vh::parse_fexpr(r));
		o.f(Find_Epsilon(f, a, b, p));
	}
	else if(op == "seq")
	{
		// several calls in one process (see ocaml/C03_driver.ml for the grammar); each is answered with
		// value, warning flag, number of integrand evaluations, smallest and largest abscissa
		long k		= r.integer();
		double last = 0.0;
		auto eps_tok = [&]() {
			if(r.i < r.t.size() && r.t[r.i] == "@")
			{
				r.i++;
				return last;
			}
			return r.num();
		};
		for(long j = 0; j < k; j++)
		{
			std::string c = r.word();
			double a = r.num(), b = r.num(), eps = 0, prec = 0;
			int depth = 0;
			if(c == "I")
			{
				eps	  = eps_tok();
				depth = (int) r.integer();
			}
			else if(c == "D")
				eps = eps_tok();
			else if(c == "F")
				prec = r.num();
			else if(c != "M")
			{
				o.w("HARNESSERR unknown_call");
				return;
			}
			skip_family(r);
			auto f = vh::fun1(vh::parse_fexpr(r));
			std::vector<double> trace;
			auto g = [&](double x) {
				trace.push_back(x);
				return f(x);
			};
			diag_reset();
			double v;
			if(c == "I")
				v = Integrate(g, a, b, eps, depth);
			else if(c == "D")
				v = Integrate(g, a, b, eps);
			else if(c == "M")
				v = Integrate(g, a, b, "Adaptive-Simpson");
			else
				v = last = Find_Epsilon(g, a, b, prec);
			bool warn = diag_has("did not converge");
			o.f(v);
			o.i(warn ? 1 : 0);
			o.i((long) trace.size());
			double lo = INFINITY, hi = -INFINITY;
			for(double x : trace)
			{
				if(x < lo)
					lo = x;
				if(x > hi)
					hi = x;
			}
			o.f(lo);
			o.f(hi);
		}
	}
	else
		o.w("HARNESSERR unknown_op");
}
int main(int argc, char** argv) { return vh::run(argc, argv, handler, 60); }
