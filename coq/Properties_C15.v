(** C15 — property theorems only.  Each is closed by [exact] of a lemma proved in C15_Proofs.v.
    Model: coq/C15_Model.v, the term that is extracted and run against libphysica
    (Householder_Matrix, QR_Decomposition, Eigenvalues, Find_Eigenvector_Rayleigh, Eigensystem).
    [rsum f n] = f 0 + ... + f (n-1); [dlt] = Kronecker delta; [ment M i j] = entry (i,j) of a list-of-rows matrix.
    All statements are over the reals, for every dimension. *)
From Coq Require Import Reals List.
From LP Require Import Num NumR C15_Model C15_Proofs.
Import ListNotations.
Local Open Scope R_scope.

(** ** "the Householder construction" — for a matrix whose first column x is not zero:
    the vector x - alpha e1 that the code normalises is not zero (its squared length is at least 2|x|^2),
    alpha^2 = |x|^2 with the sign chosen against x_0 (no cancellation) *)
Theorem C15_householder_well_defined (m : list (list R)) :
  (exists k, (k < length (mcol ROps m 0))%nat /\ nth k (mcol ROps m 0) 0 <> 0) ->
  let x := mcol ROps m 0 in
  let w := map (fun i => nth i x 0 - dlt i 0 * householder_alpha ROps x) (seq 0 (length x)) in
  0 < vdot ROps w w /\ 2 * vdot ROps x x <= vdot ROps w w.
Proof. exact (hm_u_well_defined m). Qed.
Print Assumptions C15_householder_well_defined.

Theorem C15_householder_alpha (m : list (list R)) :
  (exists k, (k < length (mcol ROps m 0))%nat /\ nth k (mcol ROps m 0) 0 <> 0) ->
  let x := mcol ROps m 0 in
  householder_alpha ROps x * householder_alpha ROps x = rsum (fun k => nth k x 0 * nth k x 0) (length x) /\
  householder_alpha ROps x * nth 0 x 0 <= 0.
Proof. exact (hm_alpha m). Qed.
Print Assumptions C15_householder_alpha.

(** H = Householder_Matrix(M) is symmetric, orthogonal (H^T H = 1) and maps the first column to alpha e1
    ("R upper triangular": the sub-diagonal part of the processed column is zeroed exactly) *)
Theorem C15_householder_symmetric (m : list (list R)) i j :
  (i < length (mcol ROps m 0))%nat -> (j < length (mcol ROps m 0))%nat ->
  ment ROps (householder ROps m) i j = ment ROps (householder ROps m) j i.
Proof. exact (hm_symmetric m i j). Qed.
Print Assumptions C15_householder_symmetric.

Theorem C15_householder_orthogonal (m : list (list R)) :
  (exists k, (k < length (mcol ROps m 0))%nat /\ nth k (mcol ROps m 0) 0 <> 0) ->
  forall i j, (i < length (mcol ROps m 0))%nat -> (j < length (mcol ROps m 0))%nat ->
  rsum (fun k => ment ROps (householder ROps m) k i * ment ROps (householder ROps m) k j) (length (mcol ROps m 0)) = dlt i j.
Proof. exact (hm_orthogonal m). Qed.
Print Assumptions C15_householder_orthogonal.

Theorem C15_householder_reflects (m : list (list R)) :
  (exists k, (k < length (mcol ROps m 0))%nat /\ nth k (mcol ROps m 0) 0 <> 0) ->
  forall i, (i < length (mcol ROps m 0))%nat ->
  rsum (fun j => ment ROps (householder ROps m) i j * nth j (mcol ROps m 0) 0) (length (mcol ROps m 0))
  = dlt i 0 * householder_alpha ROps (mcol ROps m 0).
Proof. exact (hm_reflects m). Qed.
Print Assumptions C15_householder_reflects.

(** ** "Eigenvalues": one sweep A -> R Q of the QR iteration, on the model's own matrix product, is the similarity
    Q^T A Q whenever A = Q R with Q^T Q = 1; it keeps the trace, and symmetry *)
Theorem C15_qr_step_similarity n (A Q Rm : list (list R)) : (0 < n)%nat -> wf n Q -> wf n Rm ->
  (forall i j, (i < n)%nat -> (j < n)%nat -> ment ROps A i j = rsum (fun k => ment ROps Q i k * ment ROps Rm k j) n) ->
  (forall i j, (i < n)%nat -> (j < n)%nat -> rsum (fun k => ment ROps Q k i * ment ROps Q k j) n = dlt i j) ->
  let A' := mmul ROps Rm Q in
  (forall i j, (i < n)%nat -> (j < n)%nat ->
     ment ROps A' i j = rsum (fun k => ment ROps Q k i * rsum (fun l => ment ROps A k l * ment ROps Q l j) n) n) /\
  rsum (fun i => ment ROps A' i i) n = rsum (fun i => ment ROps A i i) n /\
  ((forall i j, (i < n)%nat -> (j < n)%nat -> ment ROps A i j = ment ROps A j i) ->
   forall i j, (i < n)%nat -> (j < n)%nat -> ment ROps A' i j = ment ROps A' j i).
Proof. exact (qr_step_similarity_model n A Q Rm). Qed.
Print Assumptions C15_qr_step_similarity.

(** ** "Eigensystem / Find_Eigenvector_Rayleigh": the eigenvalue returned with a vector is the Rayleigh quotient
    b . (M b) of that vector *)
Theorem C15_rayleigh_quotient_returned (m : list (list R)) ev lam b :
  find_eigenvector_rayleigh ROps m ev = Ok (lam, b) -> lam = vdot ROps b (mvec ROps m b).
Proof. exact (rayleigh_quotient_returned m ev lam b). Qed.
Print Assumptions C15_rayleigh_quotient_returned.

(** "unit eigenvectors": Normalize() of a non-zero vector is a unit vector, and every iterate the inverse iteration can
    return (after any number of steps, whichever exit is taken, with or without the sign flip) is a unit vector,
    provided the inverse of the shifted matrix maps no unit vector to zero *)
Theorem C15_normalize_unit (w : list R) : 0 < vdot ROps w w -> vdot ROps (vnormalize ROps w) (vnormalize ROps w) = 1.
Proof. exact (vnormalize_unit w). Qed.
Print Assumptions C15_normalize_unit.

Theorem C15_inverse_iteration_unit (minv : list (list R)) :
  (forall b, vdot ROps b b = 1 -> 0 < vdot ROps (mvec ROps minv b) (mvec ROps minv b)) ->
  forall k b, vdot ROps b b = 1 -> vdot ROps (inverse_iteration ROps k minv b) (inverse_iteration ROps k minv b) = 1.
Proof. exact (inverse_iteration_unit minv). Qed.
Print Assumptions C15_inverse_iteration_unit.

(** the fixed point of the iteration: if M v = lambda v and M_inv inverts M - s 1 with s <> lambda, then
    M_inv v = v / (lambda - s): an exact eigenvector keeps its direction *)
Theorem C15_inverse_iteration_eigenvector n (mm minv : nat -> nat -> R) (s lam : R) (v : nat -> R) :
  (forall i j, (i < n)%nat -> (j < n)%nat -> rsum (fun k => minv i k * (mm k j - s * dlt k j)) n = dlt i j) ->
  (forall i, (i < n)%nat -> rsum (fun j => mm i j * v j) n = lam * v i) ->
  lam <> s ->
  forall i, (i < n)%nat -> rsum (fun j => minv i j * v j) n = v i / (lam - s).
Proof. exact (inverse_iteration_eigenvector n mm minv s lam v). Qed.
Print Assumptions C15_inverse_iteration_eigenvector.

(** non-vacuity of the hypotheses above *)
Theorem C15_hypotheses_satisfiable :
  (exists k, (k < length (mcol ROps ex_M 0%nat))%nat /\ nth k (mcol ROps ex_M 0%nat) 0 <> 0) /\
  (let Q := [[0; 1]; [1; 0]] in let Rm := [[2; 3]; [0; 5]] in let A := [[0; 5]; [2; 3]] in
   wf 2 Q /\ wf 2 Rm /\
   (forall i j, (i < 2)%nat -> (j < 2)%nat -> ment ROps A i j = rsum (fun k => ment ROps Q i k * ment ROps Rm k j) 2) /\
   (forall i j, (i < 2)%nat -> (j < 2)%nat -> rsum (fun k => ment ROps Q k i * ment ROps Q k j) 2 = dlt i j)).
Proof. exact (conj ex_householder_hyp ex_similarity_hyp). Qed.
Print Assumptions C15_hypotheses_satisfiable.
