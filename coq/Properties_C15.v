(** C15 — property theorems only (placeholder while the proofs are written). *)
From LP Require Import Num C15_Model.
