(** C15 — property theorems only.  Each is closed by [exact] of a lemma proved in C15_Proofs.v or C15_Proofs_QR.v.
    Model: coq/C15_Model.v, the term that is extracted and run against libphysica
    (Householder_Matrix, QR_Decomposition, Eigenvalues, Find_Eigenvector_Rayleigh, Eigensystem).
    [rsum f n] = f 0 + ... + f (n-1); [dlt] = Kronecker delta; [ment M i j] = entry (i,j) of a list-of-rows matrix.
    All statements are over the reals, for every dimension. *)
From Coq Require Import Reals List.
From LP Require Import Num NumR C15_Model C15_Proofs C15_Proofs_QR C15_Proofs_Scale C15_Proofs_Iter C15_Proofs_Session C15_Proofs_Inv C15_Proofs_Diag C15_Proofs_Stop C15_Proofs_Gap C15_Model2 C15_Proofs_Helpers Gen_C15_Formulas C15_GenTie.
Import ListNotations.
Local Open Scope R_scope.

(** ** "the Householder construction" — for a matrix whose first column x is not zero:
    the vector x - alpha e1 that the code normalises is not zero (its squared length is at least 2|x|^2),
    alpha^2 = |x|^2 with the sign chosen against x_0 (no cancellation) *)
Theorem C15_householder_well_defined (m : list (list R)) :
  (exists k, (k < length (mcol ROps m 0))%nat /\ nth k (mcol ROps m 0) 0 <> 0) ->
  let x := mcol ROps m 0 in
  let w := map (fun i => nth i x 0 - dlt i 0 * householder_alpha ROps x) (seq 0 (length x)) in
  0 < vdot ROps w w /\ 2 * vdot ROps x x <= vdot ROps w w.
Proof. exact (hm_u_well_defined m). Qed.
Print Assumptions C15_householder_well_defined.

Theorem C15_householder_alpha (m : list (list R)) :
  (exists k, (k < length (mcol ROps m 0))%nat /\ nth k (mcol ROps m 0) 0 <> 0) ->
  let x := mcol ROps m 0 in
  householder_alpha ROps x * householder_alpha ROps x = rsum (fun k => nth k x 0 * nth k x 0) (length x) /\
  householder_alpha ROps x * nth 0 x 0 <= 0.
Proof. exact (hm_alpha m). Qed.
Print Assumptions C15_householder_alpha.

(** H = Householder_Matrix(M) is symmetric, orthogonal (H^T H = 1) and maps the first column to alpha e1
    ("R upper triangular": the sub-diagonal part of the processed column is zeroed exactly) *)
Theorem C15_householder_symmetric (m : list (list R)) i j :
  (i < length (mcol ROps m 0))%nat -> (j < length (mcol ROps m 0))%nat ->
  ment ROps (householder ROps m) i j = ment ROps (householder ROps m) j i.
Proof. exact (hm_symmetric m i j). Qed.
Print Assumptions C15_householder_symmetric.

Theorem C15_householder_orthogonal (m : list (list R)) :
  (exists k, (k < length (mcol ROps m 0))%nat /\ nth k (mcol ROps m 0) 0 <> 0) ->
  forall i j, (i < length (mcol ROps m 0))%nat -> (j < length (mcol ROps m 0))%nat ->
  rsum (fun k => ment ROps (householder ROps m) k i * ment ROps (householder ROps m) k j) (length (mcol ROps m 0)) = dlt i j.
Proof. exact (hm_orthogonal m). Qed.
Print Assumptions C15_householder_orthogonal.

Theorem C15_householder_reflects (m : list (list R)) :
  (exists k, (k < length (mcol ROps m 0))%nat /\ nth k (mcol ROps m 0) 0 <> 0) ->
  forall i, (i < length (mcol ROps m 0))%nat ->
  rsum (fun j => ment ROps (householder ROps m) i j * nth j (mcol ROps m 0) 0) (length (mcol ROps m 0))
  = dlt i 0 * householder_alpha ROps (mcol ROps m 0).
Proof. exact (hm_reflects m). Qed.
Print Assumptions C15_householder_reflects.

(** ** "Eigenvalues": one sweep A -> R Q of the QR iteration, on the model's own matrix product, is the similarity
    Q^T A Q whenever A = Q R with Q^T Q = 1; it keeps the trace, and symmetry *)
Theorem C15_qr_step_similarity n (A Q Rm : list (list R)) : (0 < n)%nat -> wf n Q -> wf n Rm ->
  (forall i j, (i < n)%nat -> (j < n)%nat -> ment ROps A i j = rsum (fun k => ment ROps Q i k * ment ROps Rm k j) n) ->
  (forall i j, (i < n)%nat -> (j < n)%nat -> rsum (fun k => ment ROps Q k i * ment ROps Q k j) n = dlt i j) ->
  let A' := mmul ROps Rm Q in
  (forall i j, (i < n)%nat -> (j < n)%nat ->
     ment ROps A' i j = rsum (fun k => ment ROps Q k i * rsum (fun l => ment ROps A k l * ment ROps Q l j) n) n) /\
  rsum (fun i => ment ROps A' i i) n = rsum (fun i => ment ROps A i i) n /\
  ((forall i j, (i < n)%nat -> (j < n)%nat -> ment ROps A i j = ment ROps A j i) ->
   forall i j, (i < n)%nat -> (j < n)%nat -> ment ROps A' i j = ment ROps A' j i).
Proof. exact (qr_step_similarity_model n A Q Rm). Qed.
Print Assumptions C15_qr_step_similarity.

(** ** "Eigensystem / Find_Eigenvector_Rayleigh": the eigenvalue returned with a vector is the Rayleigh quotient
    b . (M b) of that vector *)
Theorem C15_rayleigh_quotient_returned (m : list (list R)) ev lam b :
  find_eigenvector_rayleigh ROps m ev = Ok (lam, b) -> lam = vdot ROps b (mvec ROps m b).
Proof. exact (rayleigh_quotient_returned m ev lam b). Qed.
Print Assumptions C15_rayleigh_quotient_returned.

(** "unit eigenvectors": Normalize() of a non-zero vector is a unit vector, and every iterate the inverse iteration can
    return (after any number of steps, whichever exit is taken, with or without the sign flip) is a unit vector,
    provided the inverse of the shifted matrix maps no unit vector to zero *)
Theorem C15_normalize_unit (w : list R) : 0 < vdot ROps w w -> vdot ROps (vnormalize ROps w) (vnormalize ROps w) = 1.
Proof. exact (vnormalize_unit w). Qed.
Print Assumptions C15_normalize_unit.

Theorem C15_inverse_iteration_unit (minv : list (list R)) :
  (forall b, vdot ROps b b = 1 -> 0 < vdot ROps (mvec ROps minv b) (mvec ROps minv b)) ->
  forall k b, vdot ROps b b = 1 -> vdot ROps (inverse_iteration ROps k minv b) (inverse_iteration ROps k minv b) = 1.
Proof. exact (inverse_iteration_unit minv). Qed.
Print Assumptions C15_inverse_iteration_unit.

(** the fixed point of the iteration: if M v = lambda v and M_inv inverts M - s 1 with s <> lambda, then
    M_inv v = v / (lambda - s): an exact eigenvector keeps its direction *)
Theorem C15_inverse_iteration_eigenvector n (mm minv : nat -> nat -> R) (s lam : R) (v : nat -> R) :
  (forall i j, (i < n)%nat -> (j < n)%nat -> rsum (fun k => minv i k * (mm k j - s * dlt k j)) n = dlt i j) ->
  (forall i, (i < n)%nat -> rsum (fun j => mm i j * v j) n = lam * v i) ->
  lam <> s ->
  forall i, (i < n)%nat -> rsum (fun j => minv i j * v j) n = v i / (lam - s).
Proof. exact (inverse_iteration_eigenvector n mm minv s lam v). Qed.
Print Assumptions C15_inverse_iteration_eigenvector.

(** non-vacuity of the hypotheses above *)
Theorem C15_hypotheses_satisfiable :
  (exists k, (k < length (mcol ROps ex_M 0%nat))%nat /\ nth k (mcol ROps ex_M 0%nat) 0 <> 0) /\
  (let Q := [[0; 1]; [1; 0]] in let Rm := [[2; 3]; [0; 5]] in let A := [[0; 5]; [2; 3]] in
   wf 2 Q /\ wf 2 Rm /\
   (forall i j, (i < 2)%nat -> (j < 2)%nat -> ment ROps A i j = rsum (fun k => ment ROps Q i k * ment ROps Rm k j) 2) /\
   (forall i j, (i < 2)%nat -> (j < 2)%nat -> rsum (fun k => ment ROps Q k i * ment ROps Q k j) 2 = dlt i j)).
Proof. exact (conj ex_householder_hyp ex_similarity_hyp). Qed.
Print Assumptions C15_hypotheses_satisfiable.

(** ** "For every non-singular square matrix QR_Decomposition returns an orthogonal Q and an upper-triangular R whose
    product is the matrix" — the whole column loop, every dimension n >= 1, over the reals (where "to rounding" is "exactly").
    Vocabulary (C15_Proofs_QR.v): [wf n M]: M is a list of n rows of length n.
    [pivot_ok B]: the first column of the block B is not the zero vector.
    [qr_pivots_ok k B]: [pivot_ok] holds in each of the next k passes, along the blocks R_submatrix the code itself computes
      (B, then Sub_Matrix(0,0) of Householder_Matrix(B) * B, ...) — exactly the condition under which no pass divides by zero.
    [mv n A x i] = sum_j A i j * x j;  [nonsing n A]: (forall i < n, mv n A x i = 0) -> forall j < n, x j = 0  (A x = 0 -> x = 0).
    [mm n f g] = matrix product of index functions, [tr] = transpose, [eqn n f g]: f and g agree on the n x n block,
    [orth n q]: q^T q = 1 and q q^T = 1 on the block. *)

(** QR_Decomposition returns (never exits) on every square matrix with n >= 1 *)
Theorem C15_qr_returns n (M : list (list R)) : (0 < n)%nat -> wf n M ->
  exists Q Rm, qr_decomposition ROps M = Ok (Q, Rm).
Proof. exact (qr_returns n M). Qed.
Print Assumptions C15_qr_returns.

(** (a) Q is orthogonal: Q^T Q = 1 (and Q Q^T = 1) *)
Theorem C15_qr_orthogonal n (M Q Rm : list (list R)) : wf n M -> qr_pivots_ok n M -> qr_decomposition ROps M = Ok (Q, Rm) ->
  wf n Q /\
  (forall i j, (i < n)%nat -> (j < n)%nat -> rsum (fun k => ment ROps Q k i * ment ROps Q k j) n = dlt i j) /\
  (forall i j, (i < n)%nat -> (j < n)%nat -> rsum (fun k => ment ROps Q i k * ment ROps Q j k) n = dlt i j).
Proof. exact (qr_orthogonal n M Q Rm). Qed.
Print Assumptions C15_qr_orthogonal.

(** (b) R is upper triangular, with a non-zero diagonal *)
Theorem C15_qr_upper_triangular n (M Q Rm : list (list R)) : wf n M -> qr_pivots_ok n M -> qr_decomposition ROps M = Ok (Q, Rm) ->
  wf n Rm /\ (forall i j, (j < i)%nat -> (i < n)%nat -> ment ROps Rm i j = 0) /\ (forall j, (j < n)%nat -> ment ROps Rm j j <> 0).
Proof. exact (qr_upper_triangular n M Q Rm). Qed.
Print Assumptions C15_qr_upper_triangular.

(** (c) Q R = M, entry by entry *)
Theorem C15_qr_product n (M Q Rm : list (list R)) : wf n M -> qr_pivots_ok n M -> qr_decomposition ROps M = Ok (Q, Rm) ->
  forall i j, (i < n)%nat -> (j < n)%nat -> rsum (fun k => ment ROps Q i k * ment ROps Rm k j) n = ment ROps M i j.
Proof. exact (qr_product n M Q Rm). Qed.
Print Assumptions C15_qr_product.

(** the pivot hypothesis is what non-singularity gives: if M x = 0 -> x = 0 then no pass meets a zero column;
    a matrix with a left inverse is non-singular in this sense *)
Theorem C15_qr_pivots_of_nonsingular n (M : list (list R)) : (0 < n)%nat -> wf n M -> nonsing n (ment ROps M) -> qr_pivots_ok n M.
Proof. exact (nonsing_qr_pivots n M). Qed.
Print Assumptions C15_qr_pivots_of_nonsingular.

Theorem C15_left_inverse_nonsingular n (a b : nat -> nat -> R) :
  (forall i j, (i < n)%nat -> (j < n)%nat -> rsum (fun k => b i k * a k j) n = dlt i j) -> nonsing n a.
Proof. exact (left_inverse_nonsing n a b). Qed.
Print Assumptions C15_left_inverse_nonsingular.

(** the clause as written: for every non-singular square matrix, Q^T Q = 1, R upper triangular, Q R = M *)
Theorem C15_qr_nonsingular n (M Q Rm : list (list R)) : wf n M -> nonsing n (ment ROps M) -> qr_decomposition ROps M = Ok (Q, Rm) ->
  wf n Q /\ wf n Rm /\
  (forall i j, (i < n)%nat -> (j < n)%nat -> rsum (fun k => ment ROps Q k i * ment ROps Q k j) n = dlt i j) /\
  (forall i j, (j < i)%nat -> (i < n)%nat -> ment ROps Rm i j = 0) /\
  (forall i j, (i < n)%nat -> (j < n)%nat -> rsum (fun k => ment ROps Q i k * ment ROps Rm k j) n = ment ROps M i j).
Proof. exact (qr_nonsingular n M Q Rm). Qed.
Print Assumptions C15_qr_nonsingular.

(** ** "Eigenvalues returns the spectrum (... sums to the trace ...)" — all sweeps of the QR iteration.
    Whatever Eigenvalues returns for a non-singular square M is the diagonal of a matrix A = Q^T M Q with Q orthogonal
    (so A has the spectrum of M) that passed the convergence test [eig_converged]
    (sum of |A k j|, k > j, divided by the sum of |A j j| is below 1e-12).  Whether the test is ever passed (convergence) is
    not part of these theorems: it is the hypothesis [eigenvalues ROps M = Ok evs]. *)
Theorem C15_eigenvalues_similar n (M : list (list R)) evs : wf n M -> nonsing n (ment ROps M) -> eigenvalues ROps M = Ok evs ->
  exists (A : list (list R)) (q : nat -> nat -> R),
    wf n A /\ orth n q /\ eqn n (ment ROps A) (mm n (tr q) (mm n (ment ROps M) q)) /\
    evs = diagonal ROps A /\ eig_converged A.
Proof. exact (eigenvalues_similar n M evs). Qed.
Print Assumptions C15_eigenvalues_similar.

(** there are n values and their sum [ls evs] is trace(M), exactly *)
Theorem C15_eigenvalues_trace n (M : list (list R)) evs : wf n M -> nonsing n (ment ROps M) -> eigenvalues ROps M = Ok evs ->
  length evs = n /\ fold_right Rplus 0 evs = rsum (fun i => ment ROps M i i) n.
Proof. exact (eigenvalues_trace n M evs). Qed.
Print Assumptions C15_eigenvalues_trace.

(** for symmetric M the final iterate is symmetric as well *)
Theorem C15_eigenvalues_symmetric n (M : list (list R)) evs : wf n M -> nonsing n (ment ROps M) ->
  (forall i j, (i < n)%nat -> (j < n)%nat -> ment ROps M i j = ment ROps M j i) ->
  eigenvalues ROps M = Ok evs ->
  exists (A : list (list R)) (q : nat -> nat -> R),
    wf n A /\ orth n q /\ eqn n (ment ROps A) (mm n (tr q) (mm n (ment ROps M) q)) /\ symm n (ment ROps A) /\
    evs = diagonal ROps A /\ eig_converged A.
Proof. exact (eigenvalues_symmetric n M evs). Qed.
Print Assumptions C15_eigenvalues_symmetric.

(** non-vacuity: [[3;1];[4;2]] is square and non-singular (hence meets the pivot hypothesis), [[2;1];[1;2]] is in addition
    symmetric, and Eigenvalues does return on a (non-singular) 1 x 1 matrix *)
Theorem C15_qr_hypotheses_satisfiable :
  wf 2 ex_M /\ nonsing 2 (ment ROps ex_M) /\ qr_pivots_ok 2 ex_M /\
  (wf 2 ex_S /\ nonsing 2 (ment ROps ex_S) /\ symm 2 (ment ROps ex_S)) /\
  (wf 1 [[2]] /\ nonsing 1 (ment ROps [[2]]) /\ eigenvalues ROps [[2]] = Ok [2]).
Proof.
  exact (conj ex_M_wf (conj ex_M_nonsing (conj ex_M_pivots (conj ex_S_hyp
        (conj (wf1_single 2) (conj (nonsing1_single 2 two_neq_0) (eigenvalues_1x1 2 two_neq_0))))))).
Qed.
Print Assumptions C15_qr_hypotheses_satisfiable.

(** ** "to rounding" is meant relative to the matrix: over the reals the Householder construction does not see the overall
    scale at all — Householder_Matrix(c M) = Householder_Matrix(M) for every c > 0 (alpha, x - alpha e1 and its length scale by c).
    The check therefore evaluates every clause on M / 2^e, and a result that changes with the scale of the input (squares that
    leave the range of the doubles, an absolute tolerance) is a violation, not a convention. *)
Theorem C15_householder_scale_free (m : list (list R)) (c : R) : 0 < c ->
  (exists k, (k < length (mcol ROps m 0))%nat /\ nth k (mcol ROps m 0) 0 <> 0) ->
  forall i j, (i < length (mcol ROps m 0))%nat -> (j < length (mcol ROps m 0))%nat ->
  ment ROps (householder ROps (mscale c m)) i j = ment ROps (householder ROps m) i j.
Proof. exact (householder_scale_free m c). Qed.
Print Assumptions C15_householder_scale_free.

(** ** "Eigensystem/Eigenvectors ... return, for each eigenvalue, a unit vector v ... with M*v equal to lambda*v" — what the loop of
    Find_Eigenvector_Rayleigh can reach from its fixed start vector (1, 1/2, .., 1/n) / |..|, over the reals.
    (1) Started at a unit vector that is an eigenvector of M_inv (eigenvalue mu <> 0) the loop returns the start vector after the first
    step (the change is 0 < 1e-15), for every number of allowed steps: if the start vector is an eigenvector of M, the same pair is
    returned for every eigenvalue and the clause "for each eigenvalue" fails (known finding K-C15-5; checks/C15.py puts this input class
    under the signature suffix start-vector-eigenvector). *)
Theorem C15_inverse_iteration_stays_at_eigen_start (minv : list (list R)) (b : list R) (mu : R) (k : nat) :
  vdot ROps b b = 1 -> mu <> 0 -> mvec ROps minv b = map (Rmult mu) b ->
  inverse_iteration ROps (S k) minv b = b.
Proof. exact (inverse_iteration_stays_at_eigen_start minv b mu k). Qed.
Print Assumptions C15_inverse_iteration_stays_at_eigen_start.

(** the same for the whole call: [shifted m ev] is the matrix M - (ev + 1e-8 |M|) 1 that the code inverts *)
Theorem C15_rayleigh_returns_start_vector (m minv : list (list R)) (ev mu : R) :
  (0 < nrows m)%nat -> inverse ROps (shifted m ev) = Ok minv -> mu <> 0 ->
  mvec ROps minv (start_vector ROps (nrows m)) = map (Rmult mu) (start_vector ROps (nrows m)) ->
  find_eigenvector_rayleigh ROps m ev =
  Ok (vdot ROps (start_vector ROps (nrows m)) (mvec ROps m (start_vector ROps (nrows m))), start_vector ROps (nrows m)).
Proof. exact (rayleigh_returns_start_vector m minv ev mu). Qed.
Print Assumptions C15_rayleigh_returns_start_vector.

(** (2) For a symmetric M_inv every iterate stays orthogonal to an eigenvector v of M_inv that the start vector is orthogonal to, for
    every number of steps: in exact arithmetic the loop never returns v; the library reaches such eigenvectors (e.g. (1, -2, 0, ..))
    through rounding noise only, which takes more than two steps.  Not a theorem: that the noise always suffices. *)
Theorem C15_inverse_iteration_keeps_orthogonality n (minv : list (list R)) (v : list R) (mu : R) :
  wf n minv -> (forall i j, (i < n)%nat -> (j < n)%nat -> ment ROps minv i j = ment ROps minv j i) ->
  length v = n -> mvec ROps minv v = map (Rmult mu) v ->
  forall k b, length b = n -> vdot ROps v b = 0 ->
  length (inverse_iteration ROps k minv b) = n /\ vdot ROps v (inverse_iteration ROps k minv b) = 0.
Proof. exact (inverse_iteration_keeps_orthogonality n minv v mu). Qed.
Print Assumptions C15_inverse_iteration_keeps_orthogonality.

(** non-vacuity: M_inv = diag(2, 3), start vector e1 (an eigenvector), e2 orthogonal to it *)
Theorem C15_iteration_hypotheses_satisfiable :
  let minv := [[2; 0]; [0; 3]] in
  wf 2 minv /\ (forall i j, (i < 2)%nat -> (j < 2)%nat -> ment ROps minv i j = ment ROps minv j i) /\
  vdot ROps [1; 0] [1; 0] = 1 /\ mvec ROps minv [1; 0] = map (Rmult 2) [1; 0] /\
  mvec ROps minv [0; 1] = map (Rmult 3) [0; 1] /\ vdot ROps [0; 1] [1; 0] = 0.
Proof. exact ex_iter_hyp. Qed.
Print Assumptions C15_iteration_hypotheses_satisfiable.

(** ** "Eigensystem/Eigenvectors ... return, for each eigenvalue, a unit vector v and value lambda with M*v equal to lambda*v" — for the value
    the Matrix object has when the call is made.  In a session (calls on one or two objects, the caller writing into the objects between the
    calls: rows and columns exchanged, diagonal entries exchanged, sign, scale, transpose, copy, the other object) the model's answer to a call
    after ANY operations is the answer of a fresh call on the current value, and the call leaves both objects as they are. *)
Theorem C15_session_call_is_fresh (m : list (list R)) (pre : list (sop (T := R))) (o : sop (T := R)) :
  is_call o = true ->
  let st := snd (session ROps m pre) in
  session ROps m (pre ++ [o]) = (fst (session ROps m pre) ++ [fresh_answer (fst st) o], st).
Proof. exact (session_call_is_fresh m pre o). Qed.
Print Assumptions C15_session_call_is_fresh.

(** Relabelling the basis (the exchange of the rows i, j and the columns i, j of the object, [sym_swap]) keeps symmetry, the trace and the
    sum of the squared entries (the Frobenius norm), and every eigenpair (lambda, v) of M becomes the eigenpair (lambda, v with the
    components i and j exchanged): dimension, trace and norm do not identify the matrix an answer belongs to. *)
Theorem C15_relabelling_keeps_symmetry n i j (m : list (list R)) : wf n m -> (i < n)%nat -> (j < n)%nat ->
  (forall r c, (r < n)%nat -> (c < n)%nat -> ment ROps m r c = ment ROps m c r) ->
  forall r c, (r < n)%nat -> (c < n)%nat -> ment ROps (sym_swap ROps m i j) r c = ment ROps (sym_swap ROps m i j) c r.
Proof. exact (sym_swap_symmetric n i j m). Qed.
Print Assumptions C15_relabelling_keeps_symmetry.

Theorem C15_relabelling_keeps_trace n i j (m : list (list R)) : wf n m -> (i < n)%nat -> (j < n)%nat ->
  rsum (fun k => ment ROps (sym_swap ROps m i j) k k) n = rsum (fun k => ment ROps m k k) n.
Proof. exact (sym_swap_trace n i j m). Qed.
Print Assumptions C15_relabelling_keeps_trace.

Theorem C15_relabelling_keeps_norm n i j (m : list (list R)) : wf n m -> (i < n)%nat -> (j < n)%nat ->
  rsum (fun r => rsum (fun c => ment ROps (sym_swap ROps m i j) r c * ment ROps (sym_swap ROps m i j) r c) n) n =
  rsum (fun r => rsum (fun c => ment ROps m r c * ment ROps m r c) n) n.
Proof. exact (sym_swap_norm2 n i j m). Qed.
Print Assumptions C15_relabelling_keeps_norm.

Theorem C15_relabelling_moves_eigenvectors n i j (m : list (list R)) : wf n m -> (i < n)%nat -> (j < n)%nat ->
  forall (v : nat -> R) (lam : R),
  (forall r, (r < n)%nat -> rsum (fun c => ment ROps m r c * v c) n = lam * v r) ->
  forall r, (r < n)%nat -> rsum (fun c => ment ROps (sym_swap ROps m i j) r c * v (transp i j c)) n = lam * v (transp i j r).
Proof. exact (sym_swap_eigenpair n i j m). Qed.
Print Assumptions C15_relabelling_moves_eigenvectors.

(** non-vacuity: [[2, 2], [2, -1]] and its relabelling [[-1, 2], [2, 2]]; (2, 1) is an eigenvector (eigenvalue 3) of the first only *)
Theorem C15_relabelling_example :
  let m := [[2; 2]; [2; -1]] in
  wf 2 m /\ sym_swap ROps m 0 1 = [[-1; 2]; [2; 2]] /\
  mvec ROps m [2; 1] = map (Rmult 3) [2; 1] /\ mvec ROps (sym_swap ROps m 0 1) [1; 2] = map (Rmult 3) [1; 2] /\
  mvec ROps (sym_swap ROps m 0 1) [2; 1] <> map (Rmult 3) [2; 1].
Proof. exact relabel_example. Qed.
Print Assumptions C15_relabelling_example.

(** ** Matrix::Inverse as called by Find_Eigenvector_Rayleigh (Gauss-Jordan elimination with partial pivoting on (A | 1), every n):
    whatever the model returns for an n x n matrix A is an n x n matrix B with B A = 1 that maps no non-zero vector to zero
    (induction over the elimination steps; the determinant guard and the zero-pivot exit only decide WHETHER it returns). *)
Theorem C15_inverse_is_left_inverse n (m minv : list (list R)) : wf n m -> inverse ROps m = Ok minv ->
  wf n minv /\
  (forall i j, (i < n)%nat -> (j < n)%nat -> rsum (fun k => ment ROps minv i k * ment ROps m k j) n = dlt i j) /\
  nonsing n (ment ROps minv).
Proof. exact (inverse_correct n m minv). Qed.
Print Assumptions C15_inverse_is_left_inverse.

(** for a symmetric A the returned inverse is symmetric and a right inverse as well *)
Theorem C15_inverse_of_symmetric n (m minv : list (list R)) : wf n m -> symm n (ment ROps m) -> inverse ROps m = Ok minv ->
  symm n (ment ROps minv) /\
  (forall i j, (i < n)%nat -> (j < n)%nat -> rsum (fun k => ment ROps m i k * ment ROps minv k j) n = dlt i j).
Proof. exact (inverse_symmetric n m minv). Qed.
Print Assumptions C15_inverse_of_symmetric.

(** ** "Eigensystem/Eigenvectors ... return, for each eigenvalue, a unit vector v": every vector Find_Eigenvector_Rayleigh returns is a unit
    vector of the dimension of M — no hypothesis on M or on the eigenvalue passed (replaces the hypothesis of C15_inverse_iteration_unit,
    which quantifies over vectors of every length, by the proved facts about the inverse the code computes). *)
Theorem C15_rayleigh_returns_unit_vector n (m : list (list R)) ev lam b : (0 < n)%nat -> wf n m ->
  find_eigenvector_rayleigh ROps m ev = Ok (lam, b) -> length b = n /\ vdot ROps b b = 1.
Proof. exact (rayleigh_unit_vector n m ev lam b). Qed.
Print Assumptions C15_rayleigh_returns_unit_vector.

(** the matrix the code inverts, [shifted m ev] = M - (ev + 1e-8 |M|) 1: when Inverse returns, no eigenvalue of M equals the shift and the
    inverse scales every eigenvector of M by 1 / (lambda - shift) — the amplification the inverse iteration relies on *)
Theorem C15_inverse_scales_eigenvectors n (m minv : list (list R)) ev (v : list R) lam : wf n m ->
  inverse ROps (shifted m ev) = Ok minv -> length v = n -> (exists k, (k < n)%nat /\ nth k v 0 <> 0) ->
  mvec ROps m v = map (Rmult lam) v ->
  lam <> rayleigh_shift m ev /\ mvec ROps minv v = map (Rmult (/ (lam - rayleigh_shift m ev))) v.
Proof. exact (inverse_maps_eigenvectors n m minv ev v lam). Qed.
Print Assumptions C15_inverse_scales_eigenvectors.

(** the two facts of C15_inverse_iteration_stays_at_eigen_start / _keeps_orthogonality for the whole call, with hypotheses on M only:
    (1) if the start vector (1, 1/2, .., 1/n) / |..| is an eigenvector of M (eigenvalue lam), every call that returns returns (lam, start vector),
        whichever eigenvalue was asked for (the mechanism of known finding K-C15-5, in exact arithmetic);
    (2) for symmetric M the returned vector is orthogonal to every eigenvector of M that the start vector is orthogonal to. *)
Theorem C15_rayleigh_start_vector_eigenvector n (m : list (list R)) ev lam l b : (0 < n)%nat -> wf n m ->
  mvec ROps m (start_vector ROps n) = map (Rmult lam) (start_vector ROps n) ->
  find_eigenvector_rayleigh ROps m ev = Ok (l, b) -> b = start_vector ROps n /\ l = lam.
Proof. exact (rayleigh_start_eigenvector n m ev lam l b). Qed.
Print Assumptions C15_rayleigh_start_vector_eigenvector.

Theorem C15_rayleigh_keeps_orthogonality n (m : list (list R)) ev (v : list R) lam l b : (0 < n)%nat -> wf n m -> symm n (ment ROps m) ->
  length v = n -> (exists k, (k < n)%nat /\ nth k v 0 <> 0) -> mvec ROps m v = map (Rmult lam) v ->
  vdot ROps v (start_vector ROps n) = 0 ->
  find_eigenvector_rayleigh ROps m ev = Ok (l, b) -> vdot ROps v b = 0.
Proof. exact (rayleigh_keeps_orthogonality n m ev v lam l b). Qed.
Print Assumptions C15_rayleigh_keeps_orthogonality.

(** non-vacuity: P = [[16, -2], [-2, 19]] is symmetric and non-singular, (2, 1) (the direction of the start vector) is an eigenvector for 15,
    (1, -2) for 20 and orthogonal to the start vector, Inverse returns on P - (20 + 25e-8) 1, and the call for the eigenvalue 20 returns —
    over the reals — the pair (15, start vector).  The clause "for each eigenvalue a vector with M v = lambda v" is therefore false of the
    model in exact arithmetic on this input class ([_refuted]); the library answers this P correctly through rounding noise and fails on
    [[-1,-2],[-2,2]] (known finding K-C15-5, corpus/C15/known.case). *)
Theorem C15_rayleigh_hypotheses_satisfiable :
  wf 2 ex_P /\ symm 2 (ment ROps ex_P) /\
  mvec ROps ex_P (start_vector ROps 2) = map (Rmult 15) (start_vector ROps 2) /\
  (let v := [1; -2] in
   length v = 2%nat /\ (exists k, (k < 2)%nat /\ nth k v 0 <> 0) /\ mvec ROps ex_P v = map (Rmult 20) v /\ vdot ROps v (start_vector ROps 2) = 0) /\
  (exists minv, inverse ROps (shifted ex_P 20) = Ok minv) /\
  (exists l b, find_eigenvector_rayleigh ROps ex_P 20 = Ok (l, b)).
Proof. exact (conj ex_P_wf (conj ex_P_symm (conj ex_P_start_eigen (conj ex_P_other_eigen (conj ex_P_inverse ex_P_returns))))). Qed.
Print Assumptions C15_rayleigh_hypotheses_satisfiable.

Theorem C15_rayleigh_each_eigenvalue_refuted :
  exists (m : list (list R)) (ev : R) (v : list R),
    wf 2 m /\ symm 2 (ment ROps m) /\ mvec ROps m v = map (Rmult ev) v /\ v = [1; -2] /\
    exists l b, find_eigenvector_rayleigh ROps m ev = Ok (l, b) /\ l <> ev /\ vdot ROps v b = 0.
Proof. exact rayleigh_each_eigenvalue_refuted. Qed.
Print Assumptions C15_rayleigh_each_eigenvalue_refuted.

(** ** "Eigenvalues returns the spectrum" with convergence, on the diagonal matrices of the quantifier ("including diagonal ... matrices"):
    for every n >= 1 and every diagonal M with non-zero diagonal entries the model of Eigenvalues returns (it does not exit after 200 sweeps)
    and returns exactly the diagonal of M, in its order — each sweep's Q is a diagonal matrix of signs, R Q = M, and the convergence test is
    passed at the first sweep that evaluates it.  [isdiag n a]: a i j = 0 for i <> j;  [diagm d]: the diagonal matrix of the list d. *)
Theorem C15_eigenvalues_of_diagonal n (M : list (list R)) : (0 < n)%nat -> wf n M -> isdiag n (ment ROps M) ->
  (forall i, (i < n)%nat -> ment ROps M i i <> 0) -> eigenvalues ROps M = Ok (diagonal ROps M).
Proof. exact (eigenvalues_diagonal n M). Qed.
Print Assumptions C15_eigenvalues_of_diagonal.

Theorem C15_eigenvalues_of_diagonal_list (d : list R) : (0 < length d)%nat -> (forall i, (i < length d)%nat -> nth i d 0 <> 0) ->
  eigenvalues ROps (diagm d) = Ok d.
Proof. exact (eigenvalues_diagm d). Qed.
Print Assumptions C15_eigenvalues_of_diagonal_list.

(** one sweep leaves such a matrix as it is (the list of rows, not only its entries) *)
Theorem C15_qr_sweep_fixes_diagonal n (M : list (list R)) : (0 < n)%nat -> wf n M -> isdiag n (ment ROps M) ->
  (forall i, (i < n)%nat -> ment ROps M i i <> 0) ->
  let qr := qr_loop ROps n 0 n (identity ROps n) M M in mmul ROps (snd qr) (fst qr) = M.
Proof. exact (eig_sweep_diag n M). Qed.
Print Assumptions C15_qr_sweep_fixes_diagonal.

(** non-vacuity: diag(3, -2, 1/2) *)
Theorem C15_eigenvalues_of_diagonal_example : eigenvalues ROps (diagm [3; -2; 1/2]) = Ok [3; -2; 1/2].
Proof. exact eigenvalues_diagm_example. Qed.
Print Assumptions C15_eigenvalues_of_diagonal_example.

(** ** "Eigenvalues returns the spectrum" — what the stopping test guarantees entry by entry (C15_Proofs_Stop.v).
    The test of Eigenvalues adds up ABSOLUTE values below the diagonal; a matrix that passes it has every single entry below the diagonal
    under 1e-12 of the diagonal mass (entries of opposite sign cannot cancel in the test). *)
Theorem C15_converged_bounds_every_entry n (A : list (list R)) : wf n A -> eig_converged A ->
  0 < rsum (fun j => Rabs (ment ROps A j j)) n ->
  forall j k, (j < k)%nat -> (k < n)%nat -> Rabs (ment ROps A k j) < 1 / 1000000000000 * rsum (fun j => Rabs (ment ROps A j j)) n.
Proof. exact (converged_bounds_every_entry n A). Qed.
Print Assumptions C15_converged_bounds_every_entry.

(** whatever Eigenvalues returns for a non-singular symmetric M is the diagonal of an orthogonally similar A = Q^T M Q every off-diagonal
    entry of which is below 1e-12 of the diagonal mass of A (when that mass is positive) *)
Theorem C15_eigenvalues_every_entry_small n (M : list (list R)) evs : wf n M -> nonsing n (ment ROps M) ->
  (forall i j, (i < n)%nat -> (j < n)%nat -> ment ROps M i j = ment ROps M j i) ->
  eigenvalues ROps M = Ok evs ->
  exists (A : list (list R)) (q : nat -> nat -> R),
    wf n A /\ orth n q /\ eqn n (ment ROps A) (mm n (tr q) (mm n (ment ROps M) q)) /\ evs = diagonal ROps A /\
    (0 < rsum (fun j => Rabs (ment ROps A j j)) n ->
     forall j k, (j < n)%nat -> (k < n)%nat -> j <> k ->
       Rabs (ment ROps A k j) < 1 / 1000000000000 * rsum (fun j => Rabs (ment ROps A j j)) n).
Proof. exact (eigenvalues_every_entry_small n M evs). Qed.
Print Assumptions C15_eigenvalues_every_entry_small.

(** non-vacuity, and the point of the absolute values: a matrix whose entries below the diagonal (1/100, -1/100, 0) add up to zero does
    not pass the test; diag(2, -1) does *)
Theorem C15_cancelling_entries_do_not_pass :
  let A := [[1; 0; 0]; [1/100; -3/4; 0]; [-1/100; 0; 1/2]] in
  wf 3 A /\ ment ROps A 1 0 + ment ROps A 2 0 + ment ROps A 2 1 = 0 /\ ~ eig_converged A.
Proof. exact cancelling_entries_do_not_pass. Qed.
Print Assumptions C15_cancelling_entries_do_not_pass.
Theorem C15_converged_example :
  let A := [[2; 0]; [0; -1]] in wf 2 A /\ eig_converged A /\ 0 < rsum (fun j => Rabs (ment ROps A j j)) 2.
Proof. exact converged_example. Qed.
Print Assumptions C15_converged_example.

(** ** "for each eigenvalue a unit vector v and value lambda with M v = lambda v" — eigenvalues that sit on the diagonal of a coupled coordinate.
    A matrix that commutes with the exchange of the coordinates i, j has the eigenvector e_i - e_j (zero components) with the eigenvalue
    m_ii - m_ij, a value that may stand on the diagonal at a third coordinate k; the coordinate vector e_k is an eigenvector of no matrix
    in which coordinate k is coupled, whatever stands at m_kk. *)
Theorem C15_exchange_symmetric_eigenvector n i j (a : nat -> nat -> R) : (i < n)%nat -> (j < n)%nat -> i <> j ->
  (forall r c, (r < n)%nat -> (c < n)%nat -> a (transp i j r) (transp i j c) = a r c) ->
  forall r, (r < n)%nat -> rsum (fun c => a r c * antisym_vec i j c) n = (a i i - a i j) * antisym_vec i j r.
Proof. exact (exchange_symmetric_eigenvector n i j a). Qed.
Print Assumptions C15_exchange_symmetric_eigenvector.

Theorem C15_coupled_coordinate_not_eigenvector n k (a : nat -> nat -> R) : (k < n)%nat ->
  (exists c, (c < n)%nat /\ c <> k /\ a c k <> 0) ->
  ~ exists lam, forall r, (r < n)%nat -> rsum (fun c => a r c * coord_vec k c) n = lam * coord_vec k r.
Proof. exact (coupled_coordinate_not_eigenvector n k a). Qed.
Print Assumptions C15_coupled_coordinate_not_eigenvector.

(** non-vacuity: [[2,3,3],[3,1,-1],[3,-1,1]] commutes with the exchange of the coordinates 1, 2, its eigenvalue m_11 - m_12 = 2 stands at m_00,
    (0, 1, -1) is an eigenvector for it and e_0 is an eigenvector for no value *)
Theorem C15_diagonal_entry_is_eigenvalue_example :
  let a := ment ROps [[2; 3; 3]; [3; 1; -1]; [3; -1; 1]] in
  (forall r c, (r < 3)%nat -> (c < 3)%nat -> a (transp 1 2 r) (transp 1 2 c) = a r c) /\
  a 1%nat 1%nat - a 1%nat 2%nat = a 0%nat 0%nat /\
  (forall r, (r < 3)%nat -> rsum (fun c => a r c * antisym_vec 1 2 c) 3 = a 0%nat 0%nat * antisym_vec 1 2 r) /\
  ~ exists lam, forall r, (r < 3)%nat -> rsum (fun c => a r c * coord_vec 0 c) 3 = lam * coord_vec 0 r.
Proof. exact diagonal_entry_is_eigenvalue_example. Qed.
Print Assumptions C15_diagonal_entry_is_eigenvalue_example.

(** ** "for each eigenvalue a unit vector v and value lambda with M v = lambda v" — the shift selects the eigenvalue that was asked for.
    [graded l]: l is a spectrum of the quantifier in the order of decreasing magnitude (neighbouring ratios |b| / |a| in 0.1 .. 0.8, either sign);
    sizes up to 7.  Premise carried, not proved: |M|^2 = sum of the squared eigenvalues (Frobenius norm of a symmetric matrix).
    Then the shift lambda_i + 1e-8 |M| of Find_Eigenvector_Rayleigh is at least 100 times nearer to lambda_i than to any other eigenvalue ... *)
Theorem C15_rayleigh_shift_selects_requested_eigenvalue (m : list (list R)) l i j : graded l -> (length l <= 7)%nat ->
  mnorm ROps m * mnorm ROps m = sumsq l ->
  (i < length l)%nat -> (j < length l)%nat -> i <> j ->
  nth i l 0 <> rayleigh_shift m (nth i l 0) /\
  100 * Rabs (nth i l 0 - rayleigh_shift m (nth i l 0)) <= Rabs (nth j l 0 - rayleigh_shift m (nth i l 0)).
Proof. exact (rayleigh_shift_selects m l i j). Qed.
Print Assumptions C15_rayleigh_shift_selects_requested_eigenvalue.

(** ... so the factor 1 / (lambda_j - shift) by which the inverse scales the eigenvector of any OTHER eigenvalue (C15_inverse_scales_eigenvectors) is at
    most 1/100 of the factor for the eigenvalue asked for: the inverse iteration is drawn to the requested eigenpair, on every spectrum of the quantifier *)
Theorem C15_rayleigh_amplification_ratio (m : list (list R)) l i j : graded l -> (length l <= 7)%nat ->
  mnorm ROps m * mnorm ROps m = sumsq l ->
  (i < length l)%nat -> (j < length l)%nat -> i <> j ->
  let s := rayleigh_shift m (nth i l 0) in
  nth j l 0 <> s /\ Rabs (/ (nth j l 0 - s)) <= / 100 * Rabs (/ (nth i l 0 - s)).
Proof. exact (rayleigh_amplification_ratio m l i j). Qed.
Print Assumptions C15_rayleigh_amplification_ratio.

(** the general form: an offset c |M| keeps the shift K times nearer to lambda_i whenever c (K + 1) <= 1.2e-6 (K = 1: c <= 6e-7) *)
Theorem C15_shift_offset_selects l c K nrm i j : graded l -> (length l <= 7)%nat -> 0 <= nrm -> nrm * nrm = sumsq l ->
  0 < c -> 0 <= K -> c * (K + 1) <= 12 / 10000000 ->
  (i < length l)%nat -> (j < length l)%nat -> i <> j ->
  let shift := nth i l 0 + c * nrm in
  0 < Rabs (nth i l 0 - shift) /\ K * Rabs (nth i l 0 - shift) <= Rabs (nth j l 0 - shift).
Proof. exact (shift_selects l c K nrm i j). Qed.
Print Assumptions C15_shift_offset_selects.

(** and a bound of this size is needed: 1, 1e-1, .., 1e-5, 8e-6 is a spectrum of the quantifier (size 7) for which the offset 1.5e-6 |M| puts the
    shift for the smallest eigenvalue nearer to its neighbour 1e-5 (the corner of the ratio box the generator's 'corner' cases aim at) *)
Theorem C15_shift_offset_bound_is_needed :
  graded close_tail_spectrum /\ length close_tail_spectrum = 7%nat /\
  forall nrm, 0 <= nrm -> nrm * nrm = sumsq close_tail_spectrum ->
    let shift := nth 6 close_tail_spectrum 0 + 15 / 10000000 * nrm in
    Rabs (nth 5 close_tail_spectrum 0 - shift) < Rabs (nth 6 close_tail_spectrum 0 - shift).
Proof. exact (conj (proj1 close_tail_graded) (conj (proj2 close_tail_graded) larger_offset_selects_neighbour)). Qed.
Print Assumptions C15_shift_offset_bound_is_needed.

(** non-vacuity: diag(1, 1/10, 8/100) meets the hypotheses of C15_rayleigh_shift_selects_requested_eigenvalue *)
Theorem C15_shift_selects_example :
  let m := [[1; 0; 0]; [0; 1 / 10; 0]; [0; 0; 8 / 100]] in let l := [1; 1 / 10; 8 / 100] in
  graded l /\ (length l <= 7)%nat /\ mnorm ROps m * mnorm ROps m = sumsq l.
Proof. exact shift_selects_example. Qed.
Print Assumptions C15_shift_selects_example.

(** the premise on the norm is a theorem for the diagonal matrices of the quantifier: Matrix::Norm of diag(d) squared is the sum of the squared entries
    of d (every length), so the statement holds for them with hypotheses on the spectrum only *)
Theorem C15_norm_of_diagonal (d : list R) : mnorm ROps (diagm d) * mnorm ROps (diagm d) = sumsq d.
Proof. exact (mnorm_sq_diagm d). Qed.
Print Assumptions C15_norm_of_diagonal.

Theorem C15_rayleigh_shift_selects_on_diagonal (d : list R) i j : graded d -> (length d <= 7)%nat ->
  (i < length d)%nat -> (j < length d)%nat -> i <> j ->
  nth i d 0 <> rayleigh_shift (diagm d) (nth i d 0) /\
  100 * Rabs (nth i d 0 - rayleigh_shift (diagm d) (nth i d 0)) <= Rabs (nth j d 0 - rayleigh_shift (diagm d) (nth i d 0)).
Proof. exact (rayleigh_shift_selects_diagonal d i j). Qed.
Print Assumptions C15_rayleigh_shift_selects_on_diagonal.

(** ** Seventh pass: the helper code brought into the model (C15_Model2.v) *)

(** "Relative_Difference used as convergence metric (NaN for 0/0)": the metric as the code has it now is a total function of two reals:
    0 at (0, 0), inside [0, 2], symmetric, and 0 exactly when the two arguments are equal *)
Theorem C15_relative_difference_total_metric (a b : R) :
  (relative_difference ROps 0 0 = 0) /\ (0 <= relative_difference ROps a b <= 2) /\ (relative_difference ROps a b = relative_difference ROps b a) /\ (relative_difference ROps a b = 0 <-> a = b).
Proof. exact (conj reldiff_zero_zero (conj (reldiff_range a b) (conj (reldiff_sym a b) (reldiff_eq0 a b)))). Qed.
Print Assumptions C15_relative_difference_total_metric.
Theorem C15_relative_difference_example : relative_difference ROps 3 1 = 2 / 3.
Proof. exact reldiff_example. Qed.
Print Assumptions C15_relative_difference_example.

(** Sign(x, y) as Householder_Matrix uses it (alpha = Sign(|x|, -x0)): for non-zero arguments it is |x| with the sign of y, and its square is x^2 *)
Theorem C15_sign_transfers_sign (x y : R) : x <> 0 -> y <> 0 ->
  sign_xy ROps x y = (if Rltb 0 y then Rabs x else - Rabs x) /\ sign_xy ROps x y * sign_xy ROps x y = x * x.
Proof. exact (fun Nx Ny => conj (sign_xy_transfer x y Nx Ny) (sign_xy_sq x y)). Qed.
Print Assumptions C15_sign_transfers_sign.

(** the guards of Matrix::Trace, Determinant, Invertible, Inverse (every number type, doubles included): a request that is not square
    ends the process in Trace, Determinant and Inverse, and Invertible() is false *)
Theorem C15_nonsquare_requests_rejected {T} (Ops : NumOps T) (m : list (list T)) : msquare m = false ->
  mtrace Ops m = Exit /\ determinant_g Ops m = Exit /\ invertible Ops m = false /\ inverse_g Ops m = Exit.
Proof. exact (guards_nonsquare Ops m). Qed.
Print Assumptions C15_nonsquare_requests_rejected.
Theorem C15_nonsquare_example : msquare [[1; 2; 3]; [4; 5; 6]] = false.
Proof. exact guards_example. Qed.

(** Matrix::Inverse with its guards in front: whatever it returns for an n x n matrix passed the guards (square, Determinant() != 0.0)
    and is a left inverse with trivial kernel *)
Theorem C15_guarded_inverse_is_left_inverse n (m minv : list (list R)) : wf n m -> inverse_g ROps m = Ok minv ->
  wf n minv /\ (forall i j, (i < n)%nat -> (j < n)%nat -> rsum (fun k => ment ROps minv i k * ment ROps m k j) n = dlt i j) /\ nonsing n (ment ROps minv).
Proof. exact (inverse_g_correct n m minv). Qed.
Print Assumptions C15_guarded_inverse_is_left_inverse.

(** "sums to the trace", read on the library's own Matrix::Trace: for every n x n matrix Trace returns the sum of the diagonal, and what
    Eigenvalues returns for a non-singular M adds up to exactly the value Trace returns *)
Theorem C15_library_trace n (m : list (list R)) : wf n m -> mtrace ROps m = Ok (trace n (ment ROps m)).
Proof. exact (mtrace_wf n m). Qed.
Print Assumptions C15_library_trace.
Theorem C15_eigenvalues_sum_is_library_trace n (M : list (list R)) evs t : wf n M -> nonsing n (ment ROps M) ->
  eigenvalues ROps M = Ok evs -> mtrace ROps M = Ok t -> ls evs = t.
Proof. exact (eigenvalues_sum_is_library_trace n M evs t). Qed.
Print Assumptions C15_eigenvalues_sum_is_library_trace.
Theorem C15_library_trace_example : mtrace ROps [[1; 2]; [3; 4]] = Ok 5.
Proof. exact mtrace_example. Qed.

(** Eigenvectors(M) = Eigensystem(M).second (every number type) *)
Theorem C15_eigenvectors_are_eigensystem_second {T} (Ops : NumOps T) (m : list (list T)) vs :
  eigenvectors Ops m = Ok vs <-> exists ps, eigensystem Ops m = Ok ps /\ vs = map snd ps.
Proof. exact (eigenvectors_spec Ops m vs). Qed.
Print Assumptions C15_eigenvectors_are_eigensystem_second.

(** T-tie: the terms regenerated from src/Special_Functions.cpp on every run are the hand model, in every arithmetic in which the
    literals 0.0 and 1.0 are the numbers 0 and 1 ([LitLaws]; it holds in the reals: [C15_literal_laws_hold_in_R]) *)
Theorem C15_generated_Sign_is_model {T} (Ops : NumOps T) : LitLaws Ops -> forall x, g_Sign Ops x = sign_int Ops x.
Proof. exact (tie_Sign Ops). Qed.
Print Assumptions C15_generated_Sign_is_model.
Theorem C15_generated_Sign2_is_model {T} (Ops : NumOps T) : LitLaws Ops -> forall x y, g_Sign2 Ops x y = sign_xy Ops x y.
Proof. exact (tie_Sign2 Ops). Qed.
Print Assumptions C15_generated_Sign2_is_model.
Theorem C15_generated_Relative_Difference_is_model {T} (Ops : NumOps T) : LitLaws Ops ->
  forall a b, g_Relative_Difference Ops a b = relative_difference Ops a b.
Proof. exact (tie_Relative_Difference Ops). Qed.
Print Assumptions C15_generated_Relative_Difference_is_model.
(** alpha of Householder_Matrix (C15_Model.householder_alpha, built on Num.sign2) is the generated Sign(x.Norm(), -x[0]) *)
Theorem C15_generated_Sign2_is_householder_alpha {T} (Ops : NumOps T) : LitLaws Ops ->
  forall x : list T, householder_alpha Ops x = g_Sign2 Ops (vnorm Ops x) (nneg Ops (nth0 Ops x 0)).
Proof. exact (tie_householder_alpha Ops). Qed.
Print Assumptions C15_generated_Sign2_is_householder_alpha.
Theorem C15_literal_laws_hold_in_R : LitLaws ROps.
Proof. exact ROps_LitLaws. Qed.
Print Assumptions C15_literal_laws_hold_in_R.
