(** * C13: nesting to any depth ([nest_nd] of C13_Model.v) *)
From Coq Require Import Reals ZArith List Lra Bool FunctionalExtensionality.
From Coquelicot Require Import Coquelicot.
From LP Require Import Num NumR C13_Model.
Import ListNotations.

Section Depth.
Context {T : Type}.
Variable J : (T -> res T) -> T -> T -> res T.

(** two and three limit pairs: the lambdas of Integrate_2D and Integrate_3D *)
Lemma nest_nd_is_nest_2d (d : T) (f : T -> T -> T) x1 x2 y1 y2 :
  nest_nd J [(x1, x2); (y1, y2)] (fun pt => Ok (f (nth 0 pt d) (nth 1 pt d))) [] = nest_2d J f x1 x2 y1 y2.
Proof. reflexivity. Qed.

Lemma nest_nd_is_nest_3d (d : T) (f : T -> T -> T -> T) x1 x2 y1 y2 z1 z2 :
  nest_nd J [(x1, x2); (y1, y2); (z1, z2)] (fun pt => Ok (f (nth 0 pt d) (nth 1 pt d) (nth 2 pt d))) [] = nest_3d J f x1 x2 y1 y2 z1 z2.
Proof. reflexivity. Qed.

(** depth composes: the levels of an inner stack, entered from the innermost integrand of an outer stack, are the next levels of one stack.
    Any number type, any integrator, any depth. *)
Lemma nest_nd_app (l1 l2 : list (T * T)) (f : list T -> res T) (pt : list T) :
  nest_nd J (l1 ++ l2) f pt = nest_nd J l1 (fun q => nest_nd J l2 f q) pt.
Proof.
  revert pt. induction l1 as [|[a b] l1 IH]; intros pt; cbn.
  - reflexivity.
  - f_equal. apply functional_extensionality; intros x. apply IH.
Qed.

(** a stack of its own (a normalisation constant: its integrand [g] reads the variables of its own levels only) entered at a point [pt0] of an
    enclosing stack of any depth is the stack entered from the top level ([r = []]; [r] = the levels of the inner stack already passed) *)
Lemma nest_nd_entered_at_depth (pt0 : list T) (l2 : list (T * T)) (g : list T -> res T) (r : list T) :
  nest_nd J l2 (fun q => g (skipn (length pt0) q)) (pt0 ++ r) = nest_nd J l2 g r.
Proof.
  revert r. induction l2 as [|[a b] l2 IH]; intros r; cbn.
  - rewrite skipn_app, Nat.sub_diag, skipn_all. reflexivity.
  - f_equal. apply functional_extensionality; intros x. rewrite <- app_assoc. apply IH.
Qed.

Lemma nest_nd_independent_of_depth (pt0 : list T) (l2 : list (T * T)) (g : list T -> res T) :
  nest_nd J l2 (fun q => g (skipn (length pt0) q)) pt0 = nest_nd J l2 g [].
Proof. generalize (nest_nd_entered_at_depth pt0 l2 g []). rewrite app_nil_r. exact (fun H => H). Qed.
End Depth.

(** non-vacuity / a concrete reading: nine levels (3D in 3D in 3D) of the integrator "value at the upper limit" over the reals *)
Example example_nine_levels :
  let J := fun (h : R -> res R) (a b : R) => h b in
  nest_nd J (repeat (0, 1) 3 ++ repeat (0, 2) 3 ++ repeat (0, 3) 3) (fun q => Ok (fold_right Rplus 0 q)) [] = Ok 18.
Proof. cbn. f_equal. lra. Qed.
