(** * C06 proofs, part 9a: the Lanczos formula of GammaLn as a real function; tactic preparing Coq-Interval goals. *)
From Coq Require Import Reals ZArith List Lia Lra Bool.
From LP Require Import Num NumR C06_Model.
Local Open Scope R_scope.

(* the value GammaLn returns (0 when it exits, i.e. for x <= 0) *)
Definition glv (x : R) : R := match gammaln ROps x with Ok v => v | _ => 0 end.

Lemma glv_ok x : 0 < x -> gammaln ROps x = Ok (glv x).
Proof. intros H. unfold glv, gammaln. cbn [nleb n0 ROps]. destruct (Rleb_spec x 0); [lra|]. reflexivity. Qed.

(* the defect of the recurrence  ln Gamma(x+1) = ln Gamma(x) + ln x  in the Lanczos formula *)
Definition glv_defect (x : R) : R := glv (x + 1) - glv x - ln x.

Ltac lanczos_prep := unfold glv_defect, glv, gammaln; cbn [nleb n0 ROps];
  repeat match goal with |- context [Rleb ?a 0] => destruct (Rleb_spec a 0); [lra|] end;
  cbv [lanczos_sum lanczos_cof fold_left fst snd ndec nlit nadd nsub nmul ndiv nln nofZ n1 ROps].
