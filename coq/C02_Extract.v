From Coq Require Import Extraction ExtrOcamlBasic ZArith List.
From LP Require Import Num C02_Model.
Extraction Language OCaml.
Extraction "C02_m.ml" step loop find_root_h find_root find_root_seq sign1 sign2 Z.of_nat Z.to_nat.
