From Coq Require Import Extraction ExtrOcamlBasic ZArith List.
From LP Require Import Num C01_Model C08_Model.
Extraction Language OCaml.
Extraction "C08_m.ml" construct construct2 interpolate derivative interpolate2 locate
  set_prefactor multiply integrate local_minimum local_maximum global_minimum global_maximum
  set_prefactor2 multiply2 global_minimum2 global_maximum2
  construct_rows construct_default construct2_default construct2_table
  call1 call2 domain1 domain2
  integrate_loop knot_scan skeleton lstep st_get Z.of_nat Z.to_nat.
