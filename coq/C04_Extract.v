From Coq Require Import Extraction ExtrOcamlBasic ZArith List.
From LP Require Import Num C04_Model C04_State C04_Life C04_Amb C04_Print.
Extraction Language OCaml.
Extraction "C04_m.ml" vec_of vfill vdot v_op_mul vcross vnorm vadd vsub vadd_assign vsub_assign vscale vdivs s_mul_v veq
  mat_of_entries mat_fill mat_diag identity mat_block m_at delete_row delete_column return_row return_column
  m_plus m_minus m_product_s m_product m_product_v m_division square symmetric antisymmetric diagonal
  transpose trace m_norm sub_matrix_int sub_matrix m_op_plus m_op_minus m_op_mul m_op_mul_v m_op_mul_s m_op_div
  m_add_assign m_sub_assign s_mul_m v_mul_m m_eq outer row_mat col_mat wf_mat wf_vec
  v_resize v_assign v_set v_at v_copy v_assign_from v_zero v_default v_normalized v_normalize
  m_resize m_assign m_set m_copy m_assign_from m_zero m_default
  life_m life_v m_mut v_mut life_step life_run
  v_print m_print
  fenv_default foreign_step foreign_run fenv_diff amb_answer Z.of_nat Z.to_nat.
