(** * C17 proofs, part 3: Round(N, digits) over R.
    With k the integer such that 10^k <= |N| < 10^(k+1) and q = 10^(k-d+1) (one unit of the d-th significant
    digit), Round(N,d) = sign(N) * floor(|N|/q + 1/2) * q: the multiple of q nearest to N, halves rounded
    up in magnitude.  Hence: within half a unit, odd, idempotent, monotone; 0 -> 0; d > 7 exits. *)
From Coq Require Import Reals ZArith Lra Lia Bool Psatz.
From LP Require Import Num NumR Gen_C17_Formulas C17_Model C17_Proofs.
Local Open Scope R_scope.

Lemma floor_spec x : IZR (Int_part x) <= x < IZR (Int_part x) + 1.
Proof. pose proof (base_Int_part x). lra. Qed.

Lemma floor_unique x (z : Z) : IZR z <= x < IZR z + 1 -> Int_part x = z.
Proof.
  intros H. pose proof (floor_spec x).
  apply Z.le_antisymm; apply Z.lt_succ_r; apply lt_IZR; rewrite succ_IZR; lra.
Qed.

Lemma floor_mono x y : x <= y -> (Int_part x <= Int_part y)%Z.
Proof.
  intros H. pose proof (floor_spec x). pose proof (floor_spec y).
  apply Z.lt_succ_r. apply lt_IZR. rewrite succ_IZR. lra.
Qed.

Lemma floor_int_half (n : Z) : Int_part (IZR n + / 2) = n.
Proof. apply floor_unique. lra. Qed.

Lemma gtb7_false d : (d <= 7)%Z -> (d >? 7)%Z = false.
Proof. intros H. rewrite Z.gtb_ltb. apply Z.ltb_ge. lia. Qed.
Lemma gtb7_true d : (7 < d)%Z -> (d >? 7)%Z = true.
Proof. intros H. rewrite Z.gtb_ltb. apply Z.ltb_lt. lia. Qed.

Definition log10 (x : R) := ln x / ln 10.
Lemma ln10_pos : 0 < ln 10.
Proof. rewrite <- ln_1. apply ln_increasing; lra. Qed.

Lemma pow10_pos z : 0 < powerRZ 10 z.
Proof. apply powerRZ_lt; lra. Qed.

Lemma pow10_add a b : powerRZ 10 (a + b) = powerRZ 10 a * powerRZ 10 b.
Proof. apply powerRZ_add; lra. Qed.

Lemma pow10_ge1 z : (0 <= z)%Z -> 1 <= powerRZ 10 z.
Proof.
  intros H. rewrite <- (Z2Nat.id z H). rewrite <- pow_powerRZ. apply pow_R1_Rle. lra.
Qed.

Lemma pow10_mono a b : (a <= b)%Z -> powerRZ 10 a <= powerRZ 10 b.
Proof.
  intros H. replace b with (a + (b - a))%Z by lia. rewrite pow10_add.
  pose proof (pow10_pos a). pose proof (pow10_ge1 (b - a) ltac:(lia)). nra.
Qed.

Lemma pow10_IZR z : (0 <= z)%Z -> powerRZ 10 z = IZR (10 ^ z).
Proof.
  intros H. rewrite <- (Z2Nat.id z H) at 1. rewrite <- pow_powerRZ.
  rewrite <- (Z2Nat.id z H) at 2. rewrite <- pow_IZR. reflexivity.
Qed.

Lemma ln_pow10 z : ln (powerRZ 10 z) = IZR z * ln 10.
Proof. rewrite powerRZ_Rpower by lra. unfold Rpower. apply ln_exp. Qed.

(** decade of a positive number: 10^k <= N < 10^(k+1) with k = floor(log10 N), and k is the only such integer *)
Lemma decade N : 0 < N -> let k := Int_part (log10 N) in powerRZ 10 k <= N < powerRZ 10 (k + 1).
Proof.
  intros HN k. pose proof (floor_spec (log10 N)) as [H1 H2]. fold k in H1, H2.
  pose proof ln10_pos as L.
  rewrite !powerRZ_Rpower by lra. unfold Rpower.
  unfold log10 in *. rewrite plus_IZR.
  assert (A: IZR k * ln 10 <= ln N).
  { apply Rmult_le_reg_r with (/ ln 10). apply Rinv_0_lt_compat; lra. rewrite Rmult_assoc, Rinv_r by lra. lra. }
  assert (B: ln N < (IZR k + 1) * ln 10).
  { apply Rmult_lt_reg_r with (/ ln 10). apply Rinv_0_lt_compat; lra. rewrite Rmult_assoc, Rinv_r by lra. unfold Rdiv in H2. lra. }
  split.
  - apply Rle_trans with (exp (ln N)); [|right; apply exp_ln; lra].
    destruct A as [A|A]; [left; apply exp_increasing; exact A|right; rewrite A; reflexivity].
  - apply Rle_lt_trans with (exp (ln N)); [right; symmetry; apply exp_ln; lra|]. apply exp_increasing. exact B.
Qed.

Lemma decade_unique N j : 0 < N -> powerRZ 10 j <= N < powerRZ 10 (j + 1) -> Int_part (log10 N) = j.
Proof.
  intros HN [H1 H2]. pose proof ln10_pos as L. apply floor_unique. unfold log10.
  assert (A: IZR j * ln 10 <= ln N).
  { rewrite <- ln_pow10. destruct H1 as [H1|H1]; [left; apply ln_increasing; [apply pow10_pos|exact H1]|right; rewrite H1; reflexivity]. }
  assert (B: ln N < (IZR j + 1) * ln 10).
  { rewrite <- plus_IZR, <- ln_pow10. apply ln_increasing; assumption. }
  split.
  - apply Rmult_le_reg_r with (ln 10); [lra|]. unfold Rdiv. rewrite Rmult_assoc, Rinv_l by lra. lra.
  - apply Rmult_lt_reg_r with (ln 10); [lra|]. unfold Rdiv. rewrite Rmult_assoc, Rinv_l by lra. lra.
Qed.

(** ** The specification: rounding half up to a multiple of q = 10^(k-d+1) *)
Definition unit_of (N : R) (d : Z) : R := powerRZ 10 (Int_part (log10 N) - d + 1).
Definition round_pos (N : R) (d : Z) : R := IZR (Int_part (N / unit_of N d + / 2)) * unit_of N d.

Lemma unit_pos N d : 0 < unit_of N d.
Proof. apply pow10_pos. Qed.

(** the model, for positive arguments, is [round_pos]: the three pow(10, .) factors of the source collapse *)
Lemma round_model_pos N d : 0 < N -> (1 <= d <= 7)%Z -> round ROps N d = Ok (round_pos N d).
Proof.
  intros HN Hd. unfold round.
  rewrite gtb7_false by lia.
  cbn [neqb ROps nofZ]. destruct (Reqb_spec N 0) as [E|_]; [lra|].
  rewrite sign_R. destruct (Rlt_dec 0 N) as [_|C]; [|lra].
  cbn [nmul ROps nfloor nlog10 npow nneg nadd ndiv ndec nofZ]. f_equal.
  replace ((d - 1) mod 4294967296)%Z with (d - 1)%Z by (symmetry; apply Z.mod_small; lia).
  rewrite Rmult_1_r. fold (log10 N). set (k := Int_part (log10 N)).
  assert (T: (10:R) <> 0) by lra.
  replace (Rpower 10 (- IZR k)) with (powerRZ 10 (- k)) by (rewrite powerRZ_Rpower by lra; rewrite opp_IZR; reflexivity).
  replace (Rpower 10 (IZR (d - 1))) with (powerRZ 10 (d - 1)) by (rewrite powerRZ_Rpower by lra; reflexivity).
  replace (Rpower 10 (- (1) * IZR d + 1)) with (powerRZ 10 (- d + 1))
    by (rewrite powerRZ_Rpower by lra; f_equal; rewrite plus_IZR, opp_IZR; ring).
  replace (Rpower 10 (IZR k)) with (powerRZ 10 k) by (rewrite powerRZ_Rpower by lra; reflexivity).
  unfold round_pos, unit_of. fold k. set (q := powerRZ 10 (k - d + 1)).
  replace (N * powerRZ 10 (- k) * powerRZ 10 (d - 1)) with (N / q).
  - replace (1 / 2) with (/ 2) by lra. rewrite Rmult_1_l, Rmult_assoc, <- powerRZ_add by lra.
    unfold q. f_equal. f_equal. lia.
  - unfold q, Rdiv. rewrite Rmult_assoc, <- powerRZ_add by lra. rewrite <- powerRZ_neg'. f_equal. f_equal. lia.
Qed.

(** Round is odd, for every argument and every digits (also when it exits) *)
Lemma round_odd N d : round ROps (- N) d = rmap Ropp (round ROps N d).
Proof.
  unfold round. destruct (d >? 7)%Z; [reflexivity|].
  cbn [neqb ROps nofZ]. destruct (Reqb_spec N 0) as [E|E].
  - subst. rewrite Ropp_0. destruct (Reqb_spec 0 0); [|lra]. cbn. f_equal. ring.
  - destruct (Reqb_spec (- N) 0) as [E'|_]; [lra|].
    cbn [rmap rbind]. f_equal.
    assert (S: IZR (g_Sign ROps (- N)) = - IZR (g_Sign ROps N)).
    { rewrite !sign_R. destruct (Rlt_dec 0 (- N)), (Rlt_dec 0 N); try lra;
      repeat destruct (Req_EM_T _ 0); try lra; rewrite <- opp_IZR; reflexivity. }
    rewrite S. cbn [nmul ROps].
    replace (- N * - IZR (g_Sign ROps N)) with (N * IZR (g_Sign ROps N)) by ring.
    ring.
Qed.

Lemma round_model_neg N d : N < 0 -> (1 <= d <= 7)%Z -> round ROps N d = Ok (- round_pos (- N) d).
Proof.
  intros HN Hd. replace N with (- - N) at 1 by ring. rewrite round_odd, round_model_pos by (lra || lia). reflexivity.
Qed.

Lemma round_zero d : (d <= 7)%Z -> round ROps 0 d = Ok 0.
Proof.
  intros Hd. unfold round. rewrite gtb7_false by lia.
  cbn [neqb ROps nofZ]. destruct (Reqb_spec 0 0); [reflexivity|lra].
Qed.

Lemma round_exit N d : (7 < d)%Z -> round ROps N d = Exit.
Proof. intros Hd. unfold round. rewrite gtb7_true by lia. reflexivity. Qed.

(** ** Consequences for positive arguments *)
Section Pos.
Variables (N : R) (d : Z).
Hypothesis HN : 0 < N.
Hypothesis Hd : (1 <= d)%Z.
Let k := Int_part (log10 N).
Let q := unit_of N d.
Let n := Int_part (N / q + / 2).

Lemma q_pos : 0 < q.  Proof. apply unit_pos. Qed.

Lemma N_over_q : powerRZ 10 (d - 1) <= N / q < powerRZ 10 d.
Proof.
  pose proof (decade N HN) as [D1 D2]. fold k in D1, D2. pose proof q_pos as Q.
  assert (E1: powerRZ 10 k = powerRZ 10 (d - 1) * q).
  { unfold q, unit_of. fold k. rewrite <- pow10_add. f_equal. lia. }
  assert (E2: powerRZ 10 (k + 1) = powerRZ 10 d * q).
  { unfold q, unit_of. fold k. rewrite <- pow10_add. f_equal. lia. }
  split.
  - apply Rmult_le_reg_r with q; [lra|]. unfold Rdiv. rewrite Rmult_assoc, Rinv_l by lra. lra.
  - apply Rmult_lt_reg_r with q; [lra|]. unfold Rdiv. rewrite Rmult_assoc, Rinv_l by lra. lra.
Qed.

Lemma n_range : (10 ^ (d - 1) <= n <= 10 ^ d)%Z.
Proof.
  pose proof N_over_q as [A B]. pose proof (floor_spec (N / q + / 2)) as [F1 F2]. fold n in F1, F2.
  rewrite pow10_IZR in A by lia. rewrite pow10_IZR in B by lia.
  split.
  - apply Z.lt_succ_r. apply lt_IZR. rewrite succ_IZR. lra.
  - apply Z.lt_succ_r. apply lt_IZR. rewrite succ_IZR. lra.
Qed.

Lemma round_pos_eq : round_pos N d = IZR n * q.
Proof. reflexivity. Qed.

Lemma round_pos_within_half_unit : Rabs (round_pos N d - N) <= q / 2.
Proof.
  rewrite round_pos_eq. pose proof q_pos as Hq.
  assert (E: N = (N / q) * q) by (field; lra).
  pose proof (floor_spec (N / q + / 2)) as [F1 F2]. fold n in F1, F2.
  set (t := N / q) in *. clearbody t. rewrite E. apply Rabs_le. split; nra.
Qed.

Lemma round_pos_positive : 0 < round_pos N d.
Proof.
  rewrite round_pos_eq. pose proof q_pos. pose proof n_range as [A _].
  assert (0 < IZR n). { apply IZR_lt. pose proof (Z.pow_pos_nonneg 10 (d - 1)). lia. }
  nra.
Qed.

(** 10^k <= Round(N,d) <= 10^(k+1) *)
Lemma round_pos_bounds : powerRZ 10 k <= round_pos N d <= powerRZ 10 (k + 1).
Proof.
  rewrite round_pos_eq. pose proof q_pos as Q. pose proof n_range as [A B].
  apply IZR_le in A, B. rewrite <- pow10_IZR in A by lia. rewrite <- pow10_IZR in B by lia.
  assert (E1: powerRZ 10 k = powerRZ 10 (d - 1) * q).
  { unfold q, unit_of. fold k. rewrite <- pow10_add. f_equal. lia. }
  assert (E2: powerRZ 10 (k + 1) = powerRZ 10 d * q).
  { unfold q, unit_of. fold k. rewrite <- pow10_add. f_equal. lia. }
  rewrite E1, E2. split; nra.
Qed.

Lemma round_pos_idempotent : round_pos (round_pos N d) d = round_pos N d.
Proof.
  pose proof q_pos as Q. pose proof n_range as [A B]. pose proof round_pos_positive as P.
  set (y := round_pos N d) in *.
  destruct (Z.eq_dec n (10 ^ d)) as [E|E].
  - (* rounded up into the next decade: y = 10^(k+1) *)
    assert (Y: y = powerRZ 10 (k + 1)).
    { unfold y. rewrite round_pos_eq, E, <- pow10_IZR by lia. unfold q, unit_of. fold k. rewrite <- pow10_add. f_equal. lia. }
    assert (K: Int_part (log10 y) = (k + 1)%Z).
    { apply decade_unique; [exact P|]. rewrite Y. split; [lra|].
      replace (k + 1 + 1)%Z with ((k + 1) + 1)%Z by lia. rewrite (pow10_add (k + 1) 1).
      pose proof (pow10_pos (k + 1)). rewrite powerRZ_1. lra. }
    unfold round_pos at 1. unfold unit_of. rewrite K.
    set (q' := powerRZ 10 (k + 1 - d + 1)). assert (Q': 0 < q') by apply pow10_pos.
    assert (T: y / q' = IZR (10 ^ (d - 1))).
    { rewrite <- pow10_IZR by lia. rewrite Y. unfold q'.
      replace (k + 1)%Z with ((d - 1) + (k + 1 - d + 1))%Z at 1 by lia. rewrite pow10_add. field. apply Rgt_not_eq, pow10_pos. }
    rewrite T, floor_int_half, <- pow10_IZR by lia. unfold q'. rewrite <- pow10_add. rewrite Y. f_equal. lia.
  - (* same decade *)
    assert (Y: y = IZR n * q) by reflexivity.
    assert (K: Int_part (log10 y) = k).
    { apply decade_unique; [exact P|]. rewrite Y.
      assert (E1: powerRZ 10 k = powerRZ 10 (d - 1) * q).
      { unfold q, unit_of. fold k. rewrite <- pow10_add. f_equal. lia. }
      assert (E2: powerRZ 10 (k + 1) = powerRZ 10 d * q).
      { unfold q, unit_of. fold k. rewrite <- pow10_add. f_equal. lia. }
      rewrite E1, E2. rewrite !pow10_IZR by lia.
      assert (n < 10 ^ d)%Z by lia. apply IZR_le in A. apply IZR_lt in H. split; nra. }
    unfold round_pos at 1. unfold unit_of. rewrite K. change (powerRZ 10 (k - d + 1)) with q.
    replace (y / q) with (IZR n) by (rewrite Y; field; lra).
    rewrite floor_int_half. symmetry. exact Y.
Qed.
End Pos.

Lemma round_pos_monotone x y d : 0 < x -> x <= y -> (1 <= d)%Z -> round_pos x d <= round_pos y d.
Proof.
  intros Hx Hxy Hd. assert (Hy: 0 < y) by lra.
  set (kx := Int_part (log10 x)). set (ky := Int_part (log10 y)).
  assert (Hk: (kx <= ky)%Z).
  { apply floor_mono. unfold log10. pose proof ln10_pos.
    apply Rmult_le_compat_r; [left; apply Rinv_0_lt_compat; lra|].
    destruct Hxy as [Hxy|Hxy]; [left; apply ln_increasing; assumption|right; rewrite Hxy; reflexivity]. }
  destruct (Z.eq_dec kx ky) as [E|E].
  - (* same decade: same unit, floor is monotone *)
    unfold round_pos, unit_of. fold kx ky. rewrite E. set (q := powerRZ 10 (ky - d + 1)).
    assert (Q: 0 < q) by apply pow10_pos.
    apply Rmult_le_compat_r; [lra|]. apply IZR_le, floor_mono.
    apply Rplus_le_compat_r. unfold Rdiv. apply Rmult_le_compat_r; [left; apply Rinv_0_lt_compat; lra|lra].
  - (* different decades: Round(x) <= 10^(kx+1) <= 10^ky <= Round(y) *)
    pose proof (round_pos_bounds x d Hx Hd) as [_ B1]. pose proof (round_pos_bounds y d Hy Hd) as [B2 _].
    fold kx in B1. fold ky in B2. pose proof (pow10_mono (kx + 1) ky ltac:(lia)). lra.
Qed.

(** ** The full statements about the model (all signs) *)
Definition decade_of (N : R) : Z := Int_part (log10 (Rabs N)).

(** round_spec: for N <> 0 and 1 <= d <= 7 the call returns; with k the decade of |N| and q = 10^(k-d+1):
    10^k <= |N| < 10^(k+1), the result is sign(N) * floor(|N|/q + 1/2) * q and lies within q/2 of N *)
Theorem round_spec N d : N <> 0 -> (1 <= d <= 7)%Z ->
  let k := decade_of N in let q := powerRZ 10 (k - d + 1) in
  powerRZ 10 k <= Rabs N < powerRZ 10 (k + 1) /\
  exists r, round ROps N d = Ok r /\
    r = (if Rlt_dec 0 N then 1 else -1) * IZR (Int_part (Rabs N / q + / 2)) * q /\
    Rabs (r - N) <= q / 2.
Proof.
  intros HN Hd k q. unfold k, decade_of.
  assert (HA: 0 < Rabs N) by (apply Rabs_pos_lt; exact HN).
  split; [apply (decade (Rabs N) HA)|].
  destruct (Rlt_dec 0 N) as [P|P].
  - exists (round_pos N d). rewrite round_model_pos by (lra || lia).
    unfold q, k, decade_of. rewrite (Rabs_right N) by lra. repeat split.
    + unfold round_pos, unit_of. ring.
    + apply round_pos_within_half_unit; lra || lia.
  - assert (N < 0) by lra. exists (- round_pos (- N) d). rewrite round_model_neg by (lra || lia).
    unfold q, k, decade_of. rewrite (Rabs_left N) by lra. repeat split.
    + unfold round_pos, unit_of. ring.
    + replace (- round_pos (- N) d - N) with (- (round_pos (- N) d - - N)) by ring. rewrite Rabs_Ropp.
      apply round_pos_within_half_unit; lra || lia.
Qed.

Lemma round_total N d : (1 <= d <= 7)%Z ->
  round ROps N d = Ok (if Rlt_dec 0 N then round_pos N d else if Rlt_dec N 0 then - round_pos (- N) d else 0).
Proof.
  intros Hd. destruct (Rlt_dec 0 N); [apply round_model_pos; lra || lia|].
  destruct (Rlt_dec N 0); [apply round_model_neg; lra || lia|].
  replace N with 0 by lra. apply round_zero. lia.
Qed.

Theorem round_idempotent N d r : (1 <= d <= 7)%Z -> round ROps N d = Ok r -> round ROps r d = Ok r.
Proof.
  intros Hd. rewrite round_total by assumption. intros H. injection H as <-.
  destruct (Rlt_dec 0 N) as [P|P].
  - pose proof (round_pos_positive N d P ltac:(lia)). rewrite round_model_pos by (lra || lia).
    rewrite round_pos_idempotent by (lra || lia). reflexivity.
  - destruct (Rlt_dec N 0) as [Q|Q].
    + assert (P': 0 < - N) by lra. pose proof (round_pos_positive (- N) d P' ltac:(lia)).
      rewrite round_model_neg by (lra || lia). rewrite Ropp_involutive.
      rewrite round_pos_idempotent by (lra || lia). reflexivity.
    + apply round_zero. lia.
Qed.

Theorem round_monotone x y d rx ry : (1 <= d <= 7)%Z -> x <= y ->
  round ROps x d = Ok rx -> round ROps y d = Ok ry -> rx <= ry.
Proof.
  intros Hd Hxy. rewrite !round_total by assumption. intros Hx Hy. injection Hx as <-. injection Hy as <-.
  assert (D1: (1 <= d)%Z) by lia.
  destruct (Rlt_dec 0 x) as [Px|Px].
  - destruct (Rlt_dec 0 y) as [Py|Py]; [|lra]. apply round_pos_monotone; assumption.
  - destruct (Rlt_dec x 0) as [Nx|Nx].
    + assert (Px': 0 < - x) by lra. pose proof (round_pos_positive (- x) d Px' D1).
      destruct (Rlt_dec 0 y) as [Py|Py].
      * pose proof (round_pos_positive y d Py D1). lra.
      * destruct (Rlt_dec y 0) as [Ny|Ny]; [|lra].
        assert (Py': 0 < - y) by lra. pose proof (round_pos_monotone (- y) (- x) d Py' ltac:(lra) D1). lra.
    + destruct (Rlt_dec 0 y) as [Py|Py].
      * pose proof (round_pos_positive y d Py D1). lra.
      * destruct (Rlt_dec y 0) as [Ny|Ny]; [lra|lra].
Qed.

(** non-vacuity: Round(1234.5, 3): decade 3, unit 10, result 1230 *)
Example round_example_decade : powerRZ 10 3 <= 12345 / 10 < powerRZ 10 4.
Proof.
  change 3%Z with (Z.of_nat 3). change 4%Z with (Z.of_nat 4). rewrite <- !pow_powerRZ. simpl. lra.
Qed.
