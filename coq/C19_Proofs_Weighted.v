(** * C19 proofs: Weighted_Average for arbitrary (unequal) weights, over the reals.
    Cochran's formula as the library writes it (three sums around avg * wavg) is reduced to the closed form
      avg = sum w v / sum w,   SE^2 = N / (N - 1) / W / W * sum (w (v - avg))^2
    by a ring identity; permutation, scaling (values, weights) and translation laws follow for all data sets. *)
From Coq Require Import ZArith List Bool Lia Arith Reals Lra Psatz Sorting.Permutation.
From LP Require Import Num NumR C19_Model C19_Proofs_Stats.
Import ListNotations.
Local Open Scope R_scope.

(** plain sums of a data set of (value, weight) pairs *)
Definition wsumR (d : list (R * R)) : R := Rsum (map snd d).
Definition wvsumR (d : list (R * R)) : R := Rsum (map (fun p => snd p * fst p) d).
Definition wavgR (d : list (R * R)) : R := wvsumR d / wsumR d.
Definition wdev2R (a : R) (d : list (R * R)) : R := Rsum (map (fun p => (snd p * (fst p - a)) * (snd p * (fst p - a))) d).
Definition cochranR (d : list (R * R)) : R :=
  INR (length d) / (INR (length d) - 1) / wsumR d / wsumR d * wdev2R (wavgR d) d.

Lemma Rsum_map_plus {A} (f g : A -> R) (l : list A) :
  Rsum (map (fun x => f x + g x) l) = Rsum (map f l) + Rsum (map g l).
Proof. induction l as [|x l IH]; unfold Rsum in *; simpl; [ring|rewrite IH; ring]. Qed.

Lemma Rsum_map_ext {A} (f g : A -> R) (l : list A) : (forall x, f x = g x) -> Rsum (map f l) = Rsum (map g l).
Proof. intros H. f_equal. now apply map_ext. Qed.

(** the three sums of the library combine to the sum of the squared weighted deviations: a ring identity per term,
    (A - a B)^2 = A^2 - 2 a A B + a^2 B^2 with A = w v - a wb, B = w - wb, A - a B = w (v - a) *)
Lemma cochran_sums (a wb : R) (d : list (R * R)) :
  Rsum (map (fun p => powerRZ (snd p * fst p - a * wb) 2) d)
  - 2 * a * Rsum (map (fun p => (snd p - wb) * (snd p * fst p - a * wb)) d)
  + powerRZ a 2 * Rsum (map (fun p => powerRZ (snd p - wb) 2) d)
  = wdev2R a d.
Proof.
  unfold wdev2R. induction d as [|[v w] d IH].
  - unfold Rsum; simpl. ring.
  - cbn [map]. unfold Rsum in *. cbn [fold_right fst snd]. rewrite <- IH. rewrite !powerRZ_2. ring.
Qed.

Theorem weighted_average_closed_form (d : list (R * R)) :
  weighted_average ROps d = (wavgR d, sqrt (cochranR d)).
Proof.
  unfold weighted_average. cbv zeta.
  cbn [nadd nsub nmul ndiv nofZ n0 n1 npowi nsqrt ROps].
  rewrite <- INR_IZR_INZ. rewrite !fold_left_acc_sum0.
  change (Rsum (map (fun p : R * R => snd p) d)) with (wsumR d).
  change (Rsum (map (fun p : R * R => snd p * fst p) d)) with (wvsumR d).
  fold (wavgR d). f_equal. f_equal. unfold cochranR. f_equal.
  apply cochran_sums.
Qed.

(** the radicand is non-negative for at least two data points: the standard error is a genuine square root *)
Lemma wdev2R_nonneg a d : 0 <= wdev2R a d.
Proof.
  unfold wdev2R. induction d as [|p d IH]; unfold Rsum in *; simpl; [lra|].
  pose proof (Rle_0_sqr (snd p * (fst p - a))) as H; unfold Rsqr in H. lra.
Qed.

Theorem cochran_nonneg (d : list (R * R)) : (2 <= length d)%nat -> 0 <= cochranR d.
Proof.
  intros H. unfold cochranR. pose proof (INR_steps_m1_pos _ H) as H1. pose proof (wdev2R_nonneg (wavgR d) d) as H2.
  assert (H0 : 0 < INR (length d)) by lra.
  unfold Rdiv. rewrite !Rmult_assoc.
  apply Rmult_le_pos; [lra|]. apply Rmult_le_pos; [left; now apply Rinv_0_lt_compat|].
  rewrite <- Rmult_assoc. apply Rmult_le_pos; [|assumption].
  pose proof (Rle_0_sqr (/ wsumR d)) as Hq. unfold Rsqr in Hq. exact Hq.
Qed.

Theorem weighted_se_sqr (d : list (R * R)) : (2 <= length d)%nat ->
  snd (weighted_average ROps d) * snd (weighted_average ROps d) = cochranR d.
Proof. intros H. rewrite weighted_average_closed_form. cbn [snd]. apply sqrt_sqrt. now apply cochran_nonneg. Qed.

Example weighted_se_sqr_ex : (2 <= length [(1, 2); (5, 1); (3, 4)])%nat.
Proof. simpl; lia. Qed.

(** *** Permutations *)
Lemma wsumR_perm d d' : Permutation d d' -> wsumR d = wsumR d'.
Proof. intros H. apply Rsum_perm. now apply Permutation_map. Qed.
Lemma wvsumR_perm d d' : Permutation d d' -> wvsumR d = wvsumR d'.
Proof. intros H. apply Rsum_perm. now apply Permutation_map. Qed.
Lemma wdev2R_perm a d d' : Permutation d d' -> wdev2R a d = wdev2R a d'.
Proof. intros H. apply Rsum_perm. now apply Permutation_map. Qed.

Theorem weighted_average_perm (d d' : list (R * R)) :
  Permutation d d' -> weighted_average ROps d = weighted_average ROps d'.
Proof.
  intros H. rewrite !weighted_average_closed_form. unfold cochranR, wavgR.
  rewrite (wsumR_perm _ _ H), (wvsumR_perm _ _ H), (Permutation_length H), (wdev2R_perm _ _ _ H). reflexivity.
Qed.

Lemma rotate_data_perm {B} (k : nat) (l : list B) : Permutation (rotate_data k l) l.
Proof.
  unfold rotate_data. rewrite <- (firstn_skipn k l) at 3. apply Permutation_app_comm.
Qed.

Theorem weighted_average_rotate (k : nat) (d : list (R * R)) :
  weighted_average ROps (rotate_data k d) = weighted_average ROps d.
Proof. apply weighted_average_perm, rotate_data_perm. Qed.

Example weighted_average_perm_ex : Permutation [(1, 2); (5, 1); (3, 4)] [(5, 1); (1, 2); (3, 4)].
Proof. apply perm_swap. Qed.

(** *** Scaling the values by any real factor *)
Lemma wsumR_scale_values p d : wsumR (scale_values ROps p d) = wsumR d.
Proof. unfold wsumR, scale_values. rewrite map_map. reflexivity. Qed.
Lemma wvsumR_scale_values p d : wvsumR (scale_values ROps p d) = p * wvsumR d.
Proof.
  unfold wvsumR, scale_values. rewrite map_map. cbn [fst snd nmul ROps].
  rewrite <- (Rsum_map_scale p (fun q => snd q * fst q)). apply Rsum_map_ext. intros; ring.
Qed.
Lemma wdev2R_scale_values p a d : wdev2R (p * a) (scale_values ROps p d) = p * p * wdev2R a d.
Proof.
  unfold wdev2R, scale_values. rewrite map_map. cbn [fst snd nmul ROps].
  rewrite <- (Rsum_map_scale (p * p) (fun q => (snd q * (fst q - a)) * (snd q * (fst q - a)))).
  apply Rsum_map_ext. intros; ring.
Qed.

Theorem weighted_average_scale_values (p : R) (d : list (R * R)) :
  weighted_average ROps (scale_values ROps p d)
  = (p * fst (weighted_average ROps d), Rabs p * snd (weighted_average ROps d)).
Proof.
  rewrite !weighted_average_closed_form. cbn [fst snd]. unfold cochranR, wavgR.
  rewrite wsumR_scale_values, wvsumR_scale_values.
  assert (L : length (scale_values ROps p d) = length d) by (unfold scale_values; apply map_length).
  rewrite L.
  replace (p * wvsumR d / wsumR d) with (p * (wvsumR d / wsumR d)) by (unfold Rdiv; ring).
  rewrite wdev2R_scale_values. f_equal.
  rewrite <- sqrt_sq_mult. f_equal. unfold Rdiv. ring.
Qed.

(** *** Scaling the weights by any non-zero factor *)
Lemma wsumR_scale_weights q d : wsumR (scale_weights ROps q d) = q * wsumR d.
Proof.
  unfold wsumR, scale_weights. rewrite map_map. cbn [fst snd nmul ROps]. apply (Rsum_map_scale q snd).
Qed.
Lemma wvsumR_scale_weights q d : wvsumR (scale_weights ROps q d) = q * wvsumR d.
Proof.
  unfold wvsumR, scale_weights. rewrite map_map. cbn [fst snd nmul ROps].
  rewrite <- (Rsum_map_scale q (fun p => snd p * fst p)). apply Rsum_map_ext. intros; ring.
Qed.
Lemma wdev2R_scale_weights q a d : wdev2R a (scale_weights ROps q d) = q * q * wdev2R a d.
Proof.
  unfold wdev2R, scale_weights. rewrite map_map. cbn [fst snd nmul ROps].
  rewrite <- (Rsum_map_scale (q * q) (fun p => (snd p * (fst p - a)) * (snd p * (fst p - a)))).
  apply Rsum_map_ext. intros; ring.
Qed.

Theorem weighted_average_scale_weights (q : R) (d : list (R * R)) : q <> 0 ->
  weighted_average ROps (scale_weights ROps q d) = weighted_average ROps d.
Proof.
  intros Hq. rewrite !weighted_average_closed_form. unfold cochranR, wavgR.
  rewrite wsumR_scale_weights, wvsumR_scale_weights.
  assert (L : length (scale_weights ROps q d) = length d) by (unfold scale_weights; apply map_length).
  rewrite L.
  assert (E : q * wvsumR d / (q * wsumR d) = wvsumR d / wsumR d).
  { unfold Rdiv. rewrite Rinv_mult.
    replace (q * wvsumR d * (/ q * / wsumR d)) with ((q * / q) * (wvsumR d * / wsumR d)) by ring.
    rewrite Rinv_r by assumption. ring. }
  rewrite E, wdev2R_scale_weights. f_equal. f_equal.
  unfold Rdiv. rewrite Rinv_mult.
  set (N := INR (length d)). set (I := / (N - 1)). set (W := / wsumR d). set (Q := wdev2R _ d).
  replace (N * I * (/ q * W) * (/ q * W) * (q * q * Q)) with ((q * / q) * (q * / q) * (N * I * W * W * Q)) by ring.
  rewrite Rinv_r by assumption. ring.
Qed.

Example weighted_average_scale_weights_ex : (1 / 4 : R) <> 0.
Proof. lra. Qed.

(** *** Translating the values (weights of non-zero sum) *)
Lemma wsumR_shift_values c d : wsumR (shift_values ROps c d) = wsumR d.
Proof. unfold wsumR, shift_values. rewrite map_map. reflexivity. Qed.
Lemma wvsumR_shift_values c d : wvsumR (shift_values ROps c d) = wvsumR d + c * wsumR d.
Proof.
  unfold wvsumR, wsumR, shift_values. rewrite map_map. cbn [fst snd nadd ROps].
  rewrite <- (Rsum_map_scale c snd), <- Rsum_map_plus. apply Rsum_map_ext. intros; ring.
Qed.
Lemma wdev2R_shift_values c a d : wdev2R (a + c) (shift_values ROps c d) = wdev2R a d.
Proof.
  unfold wdev2R, shift_values. rewrite map_map. cbn [fst snd nadd ROps]. apply Rsum_map_ext. intros; ring.
Qed.

Theorem weighted_average_shift_values (c : R) (d : list (R * R)) : wsumR d <> 0 ->
  weighted_average ROps (shift_values ROps c d)
  = (fst (weighted_average ROps d) + c, snd (weighted_average ROps d)).
Proof.
  intros HW. rewrite !weighted_average_closed_form. cbn [fst snd]. unfold cochranR, wavgR.
  rewrite wsumR_shift_values, wvsumR_shift_values.
  assert (L : length (shift_values ROps c d) = length d) by (unfold shift_values; apply map_length).
  rewrite L.
  assert (E : (wvsumR d + c * wsumR d) / wsumR d = wvsumR d / wsumR d + c) by (field; assumption).
  rewrite E, wdev2R_shift_values. reflexivity.
Qed.

(** the hypothesis is satisfiable, and necessary: weights of sum zero give avg = 0 (x / 0 = 0 in R, inf or nan in C++) *)
Example weighted_average_shift_values_ex : wsumR [(1, 2); (5, 1); (3, 4)] <> 0.
Proof. unfold wsumR, Rsum. simpl. lra. Qed.

(** *** Positive weights: the average lies between the smallest and the largest value *)
Lemma wavg_bounds_aux (lo hi : R) (d : list (R * R)) :
  (forall p, In p d -> 0 < snd p /\ lo <= fst p <= hi) ->
  lo * wsumR d <= wvsumR d <= hi * wsumR d /\ 0 <= wsumR d.
Proof.
  unfold wsumR, wvsumR. induction d as [|[v w] d IH]; intros H.
  - unfold Rsum; simpl. lra.
  - destruct IH as [[I1 I2] I3]; [intros p Hp; apply H; now right|].
    destruct (H (v, w) (or_introl eq_refl)) as [Hw [Hl Hh]]. cbn [fst snd] in *.
    unfold Rsum in *. cbn [map fold_right fst snd]. nra.
Qed.

Theorem weighted_average_between (lo hi : R) (d : list (R * R)) :
  d <> [] -> (forall p, In p d -> 0 < snd p /\ lo <= fst p <= hi) ->
  lo <= fst (weighted_average ROps d) <= hi.
Proof.
  intros Hd H. rewrite weighted_average_closed_form. cbn [fst]. unfold wavgR.
  destruct (wavg_bounds_aux lo hi d H) as [[I1 I2] _].
  assert (HW : 0 < wsumR d).
  { destruct d as [|[v w] d]; [congruence|].
    destruct (wavg_bounds_aux lo hi d) as [_ I3]; [intros p Hp; apply H; now right|].
    destruct (H (v, w) (or_introl eq_refl)) as [Hw _]. cbn [snd] in Hw.
    unfold wsumR, Rsum in *. cbn [map fold_right snd]. lra. }
  split.
  - apply Rmult_le_reg_r with (wsumR d); [assumption|]. unfold Rdiv. rewrite Rmult_assoc, Rinv_l by lra. lra.
  - apply Rmult_le_reg_r with (wsumR d); [assumption|]. unfold Rdiv. rewrite Rmult_assoc, Rinv_l by lra. lra.
Qed.

Example weighted_average_between_ex :
  [(1, 2); (5, 1); (3, 4)] <> ([] : list (R * R)) /\
  (forall p, In p [(1, 2); (5, 1); (3, 4)] -> 0 < snd p /\ 1 <= fst p <= 5).
Proof.
  split; [discriminate|]. intros p [<-|[<-|[<-|[]]]]; cbn [fst snd]; lra.
Qed.
