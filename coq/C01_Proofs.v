(** * C01 proofs: Steffen interpolation (real-number instance of C01_Model) *)
From Coq Require Import Reals ZArith List Bool Lia Lra Psatz.
From Coquelicot Require Import Coquelicot.
From LP Require Import Num NumR C01_Model.
Import ListNotations.
Local Open Scope R_scope.

(** ** 0. Small helpers *)
Lemma nmin_R a b : nmin ROps a b = Rmin a b.
Proof.
  unfold nmin; cbn. unfold Rmin. destruct (Rltb_spec b a), (Rle_dec a b); try reflexivity; lra.
Qed.
Lemma nmax_R a b : nmax ROps a b = Rmax a b.
Proof.
  unfold nmax; cbn. unfold Rmax. destruct (Rltb_spec a b), (Rle_dec a b); try reflexivity; lra.
Qed.
Lemma sign1_pos x : 0 < x -> sign1 ROps x = 1%Z.
Proof. intros H. unfold sign1, ngtb; cbn. destruct (Rltb_spec 0 x); [reflexivity|lra]. Qed.
Lemma sign1_neg x : x < 0 -> sign1 ROps x = (-1)%Z.
Proof. intros H. unfold sign1, ngtb; cbn. destruct (Rltb_spec 0 x); [lra|]. destruct (Reqb_spec x 0); [lra|reflexivity]. Qed.
Lemma sign1_zero : sign1 ROps 0 = 0%Z.
Proof. unfold sign1, ngtb; cbn. destruct (Rltb_spec 0 0); [lra|]. destruct (Reqb_spec 0 0); [reflexivity|lra]. Qed.

Lemma nth_tabulate {A} (f : nat -> A) n i d : (i < n)%nat -> nth i (tabulate f n) d = f i.
Proof.
  intros H. unfold tabulate. rewrite (nth_indep _ d (f 0%nat)) by (now rewrite map_length, seq_length).
  rewrite map_nth. now rewrite seq_nth.
Qed.
Lemma length_tabulate {A} (f : nat -> A) n : length (tabulate f n) = n.
Proof. unfold tabulate. now rewrite map_length, seq_length. Qed.
Lemma get_nth {A} (l : list A) i d : (i < length l)%nat -> get l i = Ok (nth i l d).
Proof.
  intros H. unfold get. destruct (nth_error l i) eqn:E.
  - now rewrite (nth_error_nth _ _ d E).
  - apply nth_error_None in E. lia.
Qed.
Lemma powerRZ_2 x : powerRZ x 2 = x ^ 2. Proof. reflexivity. Qed.
Lemma powerRZ_3 x : powerRZ x 3 = x ^ 3. Proof. reflexivity. Qed.
Lemma powerRZ_4 x : powerRZ x 4 = x ^ 4. Proof. reflexivity. Qed.

(** ** 1. Segment algebra (pure real expressions) *)
Definition ca h s dL dR := (dL + dR - 2 * s) / h ^ 2.
Definition cb h s dL dR := (3 * s - 2 * dL - dR) / h.
Definition seg (a b c d xj x : R) := a * (x - xj) ^ 3 + b * (x - xj) ^ 2 + c * (x - xj) + d.
Definition sd1 (a b c xj x : R) := 3 * a * (x - xj) ^ 2 + 2 * b * (x - xj) + c.
Definition sd2 (a b xj x : R) := 6 * a * (x - xj) + 2 * b.
Definition sd3 (a : R) := 6 * a.

Lemma phi_lower al be u : 0 <= al <= 2 -> 0 <= be <= 2 -> 0 <= u <= 1 ->
  0 <= al*u*(1-u)^2 - be*u^2*(1-u) + 3*u^2 - 2*u^3.
Proof. intros Ha Hb Hu.
  assert (H1: 0 <= al*u*(1-u)^2). { apply Rmult_le_pos. nra. apply pow2_ge_0. }
  assert (H2: be*u^2*(1-u) <= 2*u^2*(1-u)). { assert (0 <= u^2*(1-u)) by nra. nra. }
  nra. Qed.
Lemma phi_upper al be u : 0 <= al <= 2 -> 0 <= be <= 2 -> 0 <= u <= 1 ->
  al*u*(1-u)^2 - be*u^2*(1-u) + 3*u^2 - 2*u^3 <= 1.
Proof. intros Ha Hb Hu.
  assert (H0: 0<= u*(1-u)^2). { apply Rmult_le_pos. lra. apply pow2_ge_0. }
  assert (H1: al*u*(1-u)^2 <= 2*u*(1-u)^2) by nra.
  assert (H2: 0 <= be*u^2*(1-u)). { assert (0 <= u^2*(1-u)) by nra. nra. }
  nra. Qed.
Lemma q_nonneg al be u : 0 <= al <= 2 -> 0 <= be <= 2 -> 0 <= u <= 1 ->
  0 <= al*(1-u)*(1-3*u) + be*u*(3*u-2) + 6*u*(1-u).
Proof. intros Ha Hb Hu.
  destruct (Rle_dec u (1/3)) as [H13|H13]; [|destruct (Rle_dec u (2/3)) as [H23|H23]].
  - assert (0 <= al*((1-u)*(1-3*u))). { apply Rmult_le_pos. lra. nra. }
    assert (be*(u*(2-3*u)) <= 2*(u*(2-3*u))). { assert (0 <= u*(2-3*u)) by nra. nra. } nra.
  - assert (al*((1-u)*(3*u-1)) <= 2*((1-u)*(3*u-1))). { assert (0 <= (1-u)*(3*u-1)) by nra. nra. }
    assert (be*(u*(2-3*u)) <= 2*(u*(2-3*u))). { assert (0 <= u*(2-3*u)) by nra. nra. } nra.
  - assert (al*((1-u)*(3*u-1)) <= 2*((1-u)*(3*u-1))). { assert (0 <= (1-u)*(3*u-1)) by nra. nra. }
    assert (0 <= be*(u*(3*u-2))). { apply Rmult_le_pos. lra. nra. } nra.
Qed.

Lemma seg_normal h s dL dR y0 xj x : h <> 0 -> s <> 0 ->
  let u := (x - xj)/h in let al := dL/s in let be := dR/s in
  seg (ca h s dL dR) (cb h s dL dR) dL y0 xj x
  = y0 + h*s*(al*u*(1-u)^2 - be*u^2*(1-u) + 3*u^2 - 2*u^3).
Proof. intros Hh Hs. cbv zeta. unfold seg, ca, cb. field. split; assumption. Qed.
Lemma sd1_normal h s dL dR xj x : h <> 0 -> s <> 0 ->
  let u := (x - xj)/h in let al := dL/s in let be := dR/s in
  sd1 (ca h s dL dR) (cb h s dL dR) dL xj x = s * (al*(1-u)*(1-3*u) + be*u*(3*u-2) + 6*u*(1-u)).
Proof. intros Hh Hs. cbv zeta. unfold sd1, ca, cb. field. split; assumption. Qed.

(* limiter bounds => normalised slopes in [0,2] *)
Lemma ratio_bounds d s : s <> 0 -> 0 <= d * s -> Rabs d <= 2 * Rabs s -> 0 <= d / s <= 2.
Proof.
  intros Hs Hp Ha. destruct (Rlt_dec 0 s) as [Hpos|Hn].
  - rewrite (Rabs_pos_eq s) in Ha by lra. assert (0 <= d) by nra. rewrite (Rabs_pos_eq d) in Ha by lra.
    split; [apply Rmult_le_pos; [lra|left; apply Rinv_0_lt_compat; lra]|].
    apply Rmult_le_reg_r with s; [lra|]. unfold Rdiv. rewrite Rmult_assoc, Rinv_l by lra. lra.
  - assert (Hs': s < 0) by lra. rewrite (Rabs_left s) in Ha by lra. assert (d <= 0) by nra.
    rewrite (Rabs_left1 d) in Ha by lra. replace (d / s) with ((-d) / (-s)) by (field; lra).
    split; [apply Rmult_le_pos; [lra|left; apply Rinv_0_lt_compat; lra]|].
    apply Rmult_le_reg_r with (-s); [lra|]. unfold Rdiv. rewrite Rmult_assoc, Rinv_l by lra. lra.
Qed.
Lemma unit_interval h xj x : 0 < h -> xj <= x <= xj + h -> 0 <= (x - xj) / h <= 1.
Proof.
  intros Hh Hx. split; [apply Rmult_le_pos; [lra|left; apply Rinv_0_lt_compat; lra]|].
  apply Rmult_le_reg_r with h; [lra|]. unfold Rdiv. rewrite Rmult_assoc, Rinv_l by lra. lra.
Qed.
Lemma zero_slope d : 0 <= d * 0 -> Rabs d <= 2 * Rabs 0 -> d = 0.
Proof. intros _ H. rewrite Rabs_R0 in H. pose proof (Rabs_pos d). apply Rabs_eq_0. lra. Qed.

Theorem seg_between h s dL dR y0 xj x :
  0 < h -> xj <= x <= xj + h ->
  0 <= dL*s -> Rabs dL <= 2*Rabs s -> 0 <= dR*s -> Rabs dR <= 2*Rabs s ->
  let y1 := y0 + h*s in
  Rmin y0 y1 <= seg (ca h s dL dR) (cb h s dL dR) dL y0 xj x <= Rmax y0 y1.
Proof.
  intros Hh Hx HLs HLa HRs HRa y1.
  destruct (Req_dec s 0) as [Hs0|Hs0].
  - subst s. assert (dL = 0) by now apply zero_slope. assert (dR = 0) by now apply zero_slope. subst. unfold y1, seg, ca, cb.
    replace (y0 + h*0) with y0 by ring. rewrite Rmin_left, Rmax_left by lra.
    assert (E: (0 + 0 - 2*0)/h^2*(x-xj)^3 + (3*0-2*0-0)/h*(x-xj)^2 + 0*(x-xj) + y0 = y0) by (field; lra). lra.
  - rewrite seg_normal by lra. cbv zeta.
    pose proof (unit_interval h xj x Hh Hx) as Hu.
    pose proof (ratio_bounds dL s Hs0 HLs HLa) as Hal. pose proof (ratio_bounds dR s Hs0 HRs HRa) as Hbe.
    set (u := (x-xj)/h) in *. set (al := dL/s) in *. set (be := dR/s) in *.
    pose proof (phi_lower al be u Hal Hbe Hu) as PL. pose proof (phi_upper al be u Hal Hbe Hu) as PU.
    set (phi := al*u*(1-u)^2 - be*u^2*(1-u) + 3*u^2 - 2*u^3) in *.
    unfold y1. destruct (Rlt_dec 0 s) as [Hp|Hn].
    + assert (0 < h*s) by (apply Rmult_lt_0_compat; lra). rewrite Rmin_left, Rmax_right by lra.
      rewrite Rmult_assoc. split; nra.
    + assert (h*s < 0) by nra. rewrite Rmin_right, Rmax_left by lra.
      rewrite Rmult_assoc. split; nra.
Qed.

Lemma seg_is_derive a b c d xj x : is_derive (seg a b c d xj) x (sd1 a b c xj x).
Proof. unfold seg, sd1. auto_derive; auto. ring. Qed.
Lemma sd1_is_derive a b c xj x : is_derive (sd1 a b c xj) x (sd2 a b xj x).
Proof. unfold sd1, sd2. auto_derive; auto. ring. Qed.
Lemma sd2_is_derive a b xj x : is_derive (sd2 a b xj) x (sd3 a).
Proof. unfold sd2, sd3. auto_derive; auto. ring. Qed.

(* the derivative of the segment has the sign of s on the whole segment *)
Lemma sd1_sign h s dL dR xj x :
  0 < h -> xj <= x <= xj + h ->
  0 <= dL*s -> Rabs dL <= 2*Rabs s -> 0 <= dR*s -> Rabs dR <= 2*Rabs s ->
  0 <= s * sd1 (ca h s dL dR) (cb h s dL dR) dL xj x.
Proof.
  intros Hh Hx HLs HLa HRs HRa.
  destruct (Req_dec s 0) as [Hs0|Hs0]; [subst; lra|].
  rewrite sd1_normal by lra. cbv zeta.
  pose proof (unit_interval h xj x Hh Hx) as Hu.
  pose proof (ratio_bounds dL s Hs0 HLs HLa) as Hal. pose proof (ratio_bounds dR s Hs0 HRs HRa) as Hbe.
  pose proof (q_nonneg _ _ _ Hal Hbe Hu) as Q.
  rewrite <- Rmult_assoc. apply Rmult_le_pos; [nra|exact Q].
Qed.

(* monotone on the segment: the increment has the sign of s (mean value theorem) *)
Theorem seg_monotone h s dL dR y0 xj :
  0 < h -> 0 <= dL*s -> Rabs dL <= 2*Rabs s -> 0 <= dR*s -> Rabs dR <= 2*Rabs s ->
  forall p q, xj <= p -> p <= q -> q <= xj + h ->
  0 <= s * (seg (ca h s dL dR) (cb h s dL dR) dL y0 xj q - seg (ca h s dL dR) (cb h s dL dR) dL y0 xj p).
Proof.
  intros Hh HLs HLa HRs HRa p q Hp Hpq Hq.
  set (g := seg (ca h s dL dR) (cb h s dL dR) dL y0 xj). set (dg := sd1 (ca h s dL dR) (cb h s dL dR) dL xj).
  destruct (MVT_gen g p q dg) as (cc & Hc & E).
  - intros x _. apply seg_is_derive.
  - intros x _. apply continuity_pt_filterlim. apply (ex_derive_continuous g). eexists; apply seg_is_derive.
  - rewrite Rmin_left, Rmax_right in Hc by lra. rewrite E.
    assert (0 <= s * dg cc) by (apply sd1_sign; auto; lra).
    rewrite <- Rmult_assoc. apply Rmult_le_pos; lra.
Qed.

(* Hermite identities *)
Lemma seg_left a b c d xj : seg a b c d xj xj = d.
Proof. unfold seg. ring. Qed.
Lemma seg_right h s dL dR y0 xj : h <> 0 -> seg (ca h s dL dR) (cb h s dL dR) dL y0 xj (xj + h) = y0 + h * s.
Proof. intros. unfold seg, ca, cb. field. assumption. Qed.
Lemma sd1_left a b c xj : sd1 a b c xj xj = c.
Proof. unfold sd1. ring. Qed.
Lemma sd1_right h s dL dR xj : h <> 0 -> sd1 (ca h s dL dR) (cb h s dL dR) dL xj (xj + h) = dR.
Proof. intros. unfold sd1, ca, cb. field. assumption. Qed.

(** ** 2. Limiter bounds *)
Lemma limiter_core a b m : 0 <= m -> m <= Rabs b ->
  let d := IZR (sign1 ROps a + sign1 ROps b) * m in 0 <= d * b /\ Rabs d <= 2 * Rabs b.
Proof.
  intros Hm0 Hmb d. unfold d.
  destruct (Rtotal_order b 0) as [Hb|[Hb|Hb]]; destruct (Rtotal_order a 0) as [Ha|[Ha|Ha]];
  try (rewrite (sign1_neg a) by lra); try (rewrite (sign1_pos a) by lra); try (subst a; rewrite sign1_zero);
  try (rewrite (sign1_neg b) by lra); try (rewrite (sign1_pos b) by lra); try (subst b; rewrite sign1_zero);
  cbn [Z.add Z.opp Pos.add Z.pos_sub Pos.succ Z.succ_double Z.pred_double Z.double Pos.pred_double];
  try rewrite Rabs_R0 in *;
  try (rewrite (Rabs_left b) in * by lra); try (rewrite (Rabs_pos_eq b) in * by lra);
  (split; [nra| apply Rabs_le; nra]).
Qed.

Lemma limiter_end p s :
  let d := IZR (sign1 ROps p + sign1 ROps s) * nmin ROps (1 * Rabs s) (1 / 2 * Rabs p) in
  0 <= d * s /\ Rabs d <= 2 * Rabs s.
Proof.
  cbv zeta. rewrite nmin_R. apply limiter_core.
  - apply Rmin_glb; [pose proof (Rabs_pos s); lra|pose proof (Rabs_pos p); lra].
  - eapply Rle_trans; [apply Rmin_l|lra].
Qed.

Lemma limiter_mid p sl sr :
  let d := IZR (sign1 ROps sl + sign1 ROps sr) * nmin ROps (1 * Rabs p / 2) (nmin ROps (1 * Rabs sr) (1 * Rabs sl)) in
  (0 <= d * sl /\ Rabs d <= 2 * Rabs sl) /\ (0 <= d * sr /\ Rabs d <= 2 * Rabs sr).
Proof.
  cbv zeta. rewrite !nmin_R.
  set (m := Rmin (1 * Rabs p / 2) (Rmin (1 * Rabs sr) (1 * Rabs sl))).
  assert (Hm0 : 0 <= m).
  { unfold m. repeat apply Rmin_glb; [pose proof (Rabs_pos p)|pose proof (Rabs_pos sr)|pose proof (Rabs_pos sl)]; lra. }
  assert (Hr : m <= Rabs sr). { unfold m. eapply Rle_trans; [apply Rmin_r|]. eapply Rle_trans; [apply Rmin_l|lra]. }
  assert (Hl : m <= Rabs sl). { unfold m. eapply Rle_trans; [apply Rmin_r|]. eapply Rle_trans; [apply Rmin_r|lra]. }
  split.
  - rewrite Z.add_comm. apply limiter_core; assumption.
  - apply limiter_core; assumption.
Qed.

(** ** 3. The table built by the constructor *)
Definition increasing (xs : list R) : Prop := forall i, (S i < length xs)%nat -> nth i xs 0 < nth (S i) xs 0.
Definition valid_table (xs ys : list R) : Prop :=
  length xs = length ys /\ (3 <= length xs)%nat /\ increasing xs.

Lemma increasing_lt xs : increasing xs -> forall k i, (i < k)%nat -> (k < length xs)%nat -> nth i xs 0 < nth k xs 0.
Proof.
  intros Hinc k. induction k as [|k IH]; intros i Hik Hk; [lia|].
  destruct (Nat.eq_dec i k) as [->|Hne]; [apply Hinc; lia|].
  apply Rlt_trans with (nth k xs 0); [apply IH; lia|apply Hinc; lia].
Qed.
Lemma increasing_le xs : increasing xs -> forall k i, (i <= k)%nat -> (k < length xs)%nat -> nth i xs 0 <= nth k xs 0.
Proof.
  intros Hinc k i Hik Hk. destruct (Nat.eq_dec i k) as [->|Hne]; [lra|]. left. apply increasing_lt; auto; lia.
Qed.

Section Tab.
Variables xs ys : list R.
Notation N := (length xs).
Notation X i := (nth i xs 0).
Notation Y i := (nth i ys 0).
Definition Hl := tabulate (hh ROps xs) (N - 1).
Definition Hf := xat ROps Hl.
Definition Sl := tabulate (ss ROps Hf ys) (N - 1).
Definition Sf := xat ROps Sl.
Definition Pl := tabulate (pp ROps N Hf Sf) N.
Definition Pf := xat ROps Pl.
Definition DYl := tabulate (dyy ROps N Sf Pf) N.
Definition DYf := xat ROps DYl.
Definition tab : itab := build ROps xs ys.

(* segment polynomial and its derivatives *)
Definition CA j := ca (Hf j) (Sf j) (DYf j) (DYf (S j)).
Definition CB j := cb (Hf j) (Sf j) (DYf j) (DYf (S j)).
Definition SEGf j x := seg (CA j) (CB j) (DYf j) (Y j) (X j) x.
Definition SD1f j x := sd1 (CA j) (CB j) (DYf j) (X j) x.
Definition SD2f j x := sd2 (CA j) (CB j) (X j) x.
Definition SD3f j := sd3 (CA j).

Lemma Hf_eq i : (S i < N)%nat -> Hf i = X (S i) - X i.
Proof. intros H. unfold Hf, Hl, xat, nth0. rewrite nth_tabulate by lia. reflexivity. Qed.
Lemma Sf_eq i : (S i < N)%nat -> Sf i = (Y (S i) - Y i) / Hf i.
Proof. intros H. unfold Sf, Sl, xat, nth0. rewrite nth_tabulate by lia. reflexivity. Qed.
Lemma Pf_eq i : (i < N)%nat -> Pf i = pp ROps N Hf Sf i.
Proof. intros H. unfold Pf, Pl, xat, nth0. rewrite nth_tabulate by lia. reflexivity. Qed.
Lemma DYf_eq i : (i < N)%nat -> DYf i = dyy ROps N Sf Pf i.
Proof. intros H. unfold DYf, DYl, xat, nth0. rewrite nth_tabulate by lia. reflexivity. Qed.

Lemma segment_ok j : length xs = length ys -> (S j < N)%nat ->
  segment tab j = Ok (X j, (CA j, CB j, DYf j, Y j)).
Proof.
  intros Hlen Hj. unfold segment, tab, build. cbn [ixs ia ib ic id].
  rewrite (get_nth xs j 0) by lia. cbn [rbind].
  rewrite (get_nth _ j 0) by (rewrite length_tabulate; lia). cbn [rbind].
  rewrite (get_nth _ j 0) by (rewrite length_tabulate; lia). cbn [rbind].
  rewrite (get_nth _ j 0) by (rewrite length_tabulate; lia). cbn [rbind].
  rewrite (get_nth _ j 0) by (rewrite length_tabulate; lia). cbn [rbind].
  rewrite !nth_tabulate by lia. reflexivity.
Qed.

Lemma seg_eval_R xj a b c d x : seg_eval ROps (xj, (a, b, c, d)) x = seg a b c d xj x.
Proof. reflexivity. Qed.
Lemma seg_d1_R xj a b c d x : seg_d1 ROps (xj, (a, b, c, d)) x = sd1 a b c xj x.
Proof. reflexivity. Qed.
Lemma seg_d2_R xj a b c d x : seg_d2 ROps (xj, (a, b, c, d)) x = sd2 a b xj x.
Proof. reflexivity. Qed.
Lemma seg_d3_R xj a b c d : seg_d3 ROps (xj, (a, b, c, d)) = sd3 a.
Proof. reflexivity. Qed.

(** *** Bisection and Locate on the fresh object (needs only N >= 2 and increasing abscissae) *)
Hypothesis Hinc : increasing xs.
Notation Xz j := (nth (Z.to_nat j) xs 0).

Lemma bisection_spec : forall fuel x jl jr,
  (0 <= jl)%Z -> (jl < jr)%Z -> (jr <= Z.of_nat N - 1)%Z -> (jr - jl <= Z.of_nat fuel)%Z ->
  Xz jl <= x -> (x < Xz jr \/ (jr = Z.of_nat N - 1)%Z /\ x <= Xz jr) ->
  exists j, bisection ROps fuel xs x jl jr = Ok j /\ (jl <= j < jr)%Z /\
    Xz j <= x /\ (x < Xz (j + 1) \/ (j + 1 = Z.of_nat N - 1)%Z /\ x <= Xz (j + 1)).
Proof.
  induction fuel as [|f IH]; intros x jl jr H0 Hlr HrN Hfuel Hlo Hhi; [lia|].
  cbn [bisection]. destruct (Z.gtb_spec (jr - jl) 1) as [Hgt|Hle].
  - rewrite Z.shiftr_div_pow2 by lia. change (2 ^ 1)%Z with 2%Z.
    set (jm := ((jr + jl) / 2)%Z). assert (Hjm : (jl < jm < jr)%Z) by (unfold jm; Z.div_mod_to_equations; lia).
    assert (Hget : getZ xs jm = Ok (Xz jm)).
    { unfold getZ. destruct (Z.ltb_spec jm 0); [lia|]. apply get_nth. lia. }
    rewrite Hget. cbn [rbind]. unfold ngeb. cbn [nleb ROps].
    destruct (Rleb_spec (Xz jm) x) as [Hge|Hlt].
    + destruct (IH x jm jr) as (j & E & Hj & A & B); try lia; auto.
      exists j. repeat split; auto; lia.
    + destruct (IH x jl jm) as (j & E & Hj & A & B); try lia; auto.
      { left; lra. }
      exists j. repeat split; auto; lia.
  - assert (jr = jl + 1)%Z by lia. subst jr. exists jl. repeat split; auto; lia.
Qed.

Hypothesis HN2 : (2 <= N)%nat.

Lemma locate_in_domain x : X 0 <= x <= X (N - 1) ->
  exists j, locate ROps tab x = Ok j /\ (S j < N)%nat /\ X j <= x /\
            (x < X (S j) \/ (S j = N - 1)%nat /\ x <= X (S j)).
Proof.
  intros [Hlo Hhi]. unfold locate. change (iN tab) with N. change (ixs tab) with xs.
  change (idom0 tab) with (X 0). change (idom1 tab) with (X (N - 1)).
  unfold ngtb. cbn [nisnan nltb ROps].
  destruct (Rltb_spec x (X 0)) as [H|_]; [lra|]. destruct (Rltb_spec (X (N - 1)) x) as [H|_]; [lra|].
  cbn [orb].
  destruct (bisection_spec N x 0 (Z.of_nat N - 1)) as (j & E & Hj & A & B); try lia.
  - exact Hlo.
  - right. split; [reflexivity|]. replace (Z.to_nat (Z.of_nat N - 1)) with (N - 1)%nat by lia. exact Hhi.
  - rewrite E. cbn [rbind].
    assert (Hj1 : Z.to_nat (j + 1) = S (Z.to_nat j)) by lia. rewrite Hj1 in B.
    destruct (Nat.ltb_spec (Z.to_nat j) (N - 2)) as [Hlt|Hge].
    + rewrite (get_nth xs _ 0) by lia. cbn [rbind neqb ROps].
      destruct B as [B|[B _]]; [|lia].
      destruct (Reqb_spec x (X (S (Z.to_nat j)))) as [Heq|_]; [lra|].
      exists (Z.to_nat j). repeat split; auto; lia.
    + exists (Z.to_nat j). repeat split; auto; try lia.
      destruct B as [B|[B1 B2]]; [left; exact B|right; split; [lia|exact B2]].
Qed.

Lemma locate_unique j x : (S j < N)%nat -> X j <= x < X (S j) -> locate ROps tab x = Ok j.
Proof.
  intros Hj [Hlo Hhi].
  destruct (locate_in_domain x) as (j' & E & Hj' & A & B).
  { split; [apply Rle_trans with (X j); [apply increasing_le; auto; lia|exact Hlo]|].
    apply Rle_trans with (X (S j)); [lra|apply increasing_le; auto; lia]. }
  rewrite E. f_equal.
  destruct (Nat.lt_trichotomy j' j) as [Hlt|[Heq|Hgt]]; [|exact Heq|].
  - exfalso. assert (X (S j') <= X j) by (apply increasing_le; auto; lia).
    destruct B as [B|[B1 B2]]; [lra|lia].
  - exfalso. assert (X (S j) <= X j') by (apply increasing_le; auto; lia). lra.
Qed.

Lemma locate_last : locate ROps tab (X (N - 1)) = Ok (N - 2)%nat.
Proof.
  destruct (locate_in_domain (X (N - 1))) as (j & E & Hj & A & B).
  { split; [apply increasing_le; auto; lia|lra]. }
  rewrite E. f_equal.
  destruct (Nat.eq_dec j (N - 2)) as [|Hne]; [assumption|exfalso].
  assert (X (S j) < X (N - 1)) by (apply increasing_lt; auto; lia).
  destruct B as [B|[B1 B2]]; [|lia].
  assert (X (N-1) < X (N-1)) by lra. lra.
Qed.

(** *** Interpolate / Derivative once the segment is known *)
Hypothesis Hlen : length xs = length ys.

Lemma interpolate_located x j : locate ROps tab x = Ok j -> (S j < N)%nat ->
  interpolate ROps tab x = Ok (SEGf j x).
Proof.
  intros E Hj. unfold interpolate. rewrite E. cbn [rbind]. rewrite segment_ok by assumption. cbn [rbind].
  rewrite seg_eval_R. change (ipre tab) with 1. cbn [nmul ROps]. now rewrite Rmult_1_l.
Qed.

Lemma derivative_located x j k : locate ROps tab x = Ok j -> (S j < N)%nat ->
  derivative ROps tab x k =
  Ok (if (k =? 0)%Z then SEGf j x else if (k =? 1)%Z then SD1f j x else if (k =? 2)%Z then SD2f j x
      else if (k =? 3)%Z then SD3f j else 0).
Proof.
  intros E Hj. unfold derivative. rewrite E. cbn [rbind]. rewrite segment_ok by assumption. cbn [rbind].
  destruct (k =? 0)%Z; [now apply interpolate_located|].
  rewrite seg_d1_R, seg_d2_R, seg_d3_R. change (ipre tab) with 1. cbn [nmul ROps n0]. rewrite !Rmult_1_l.
  destruct (k =? 1)%Z; [reflexivity|]. destruct (k =? 2)%Z; [reflexivity|]. destruct (k =? 3)%Z; reflexivity.
Qed.
End Tab.

(** ** 4. Theorems for every valid table *)
Section Valid.
Variables xs ys : list R.
Hypothesis HV : valid_table xs ys.
Notation N := (length xs).
Notation X i := (nth i xs 0).
Notation Y i := (nth i ys 0).
Notation o := (tab xs ys).
Let Hlen : length xs = length ys := proj1 HV.
Let HN : (3 <= N)%nat := proj1 (proj2 HV).
Let Hinc : increasing xs := proj2 (proj2 HV).
Let HN2 : (2 <= N)%nat. Proof. lia. Qed.

Lemma Hf_pos j : (S j < N)%nat -> 0 < Hf xs j.
Proof. intros H. rewrite Hf_eq by assumption. pose proof (Hinc j H). lra. Qed.
Lemma X_next j : (S j < N)%nat -> X (S j) = X j + Hf xs j.
Proof. intros H. rewrite Hf_eq by assumption. ring. Qed.
Lemma Y_next j : (S j < N)%nat -> Y (S j) = Y j + Hf xs j * Sf xs ys j.
Proof. intros H. rewrite Sf_eq by assumption. pose proof (Hf_pos j H). field. lra. Qed.

Lemma DY_right i : (S i < N)%nat ->
  0 <= DYf xs ys i * Sf xs ys i /\ Rabs (DYf xs ys i) <= 2 * Rabs (Sf xs ys i).
Proof.
  intros Hi. rewrite DYf_eq by lia. unfold dyy.
  destruct (Nat.eqb_spec N 2); [lia|].
  destruct (Nat.eqb_spec i 0) as [->|Hi0].
  - exact (limiter_end (Pf xs ys 0) (Sf xs ys 0)).
  - destruct (Nat.eqb_spec i (N - 1)); [lia|].
    exact (proj2 (limiter_mid (Pf xs ys i) (Sf xs ys (i - 1)) (Sf xs ys i))).
Qed.
Lemma DY_left i : (0 < i)%nat -> (i < N)%nat ->
  0 <= DYf xs ys i * Sf xs ys (i - 1) /\ Rabs (DYf xs ys i) <= 2 * Rabs (Sf xs ys (i - 1)).
Proof.
  intros Hi0 Hi. rewrite DYf_eq by lia. unfold dyy.
  destruct (Nat.eqb_spec N 2); [lia|].
  destruct (Nat.eqb_spec i 0); [lia|].
  destruct (Nat.eqb_spec i (N - 1)).
  - exact (limiter_end (Pf xs ys i) (Sf xs ys (i - 1))).
  - exact (proj1 (limiter_mid (Pf xs ys i) (Sf xs ys (i - 1)) (Sf xs ys i))).
Qed.
Lemma DY_next j : (S j < N)%nat ->
  0 <= DYf xs ys (S j) * Sf xs ys j /\ Rabs (DYf xs ys (S j)) <= 2 * Rabs (Sf xs ys j).
Proof. intros H. pose proof (DY_left (S j) ltac:(lia) H) as L. replace (S j - 1)%nat with j in L by lia. exact L. Qed.

Lemma SEG_left j : SEGf xs ys j (X j) = Y j.
Proof. apply seg_left. Qed.
Lemma SEG_right j : (S j < N)%nat -> SEGf xs ys j (X (S j)) = Y (S j).
Proof.
  intros H. unfold SEGf, CA, CB. rewrite (X_next j H), (Y_next j H). apply seg_right.
  pose proof (Hf_pos j H); lra.
Qed.
Lemma SD1_left j : SD1f xs ys j (X j) = DYf xs ys j.
Proof. apply sd1_left. Qed.
Lemma SD1_right j : (S j < N)%nat -> SD1f xs ys j (X (S j)) = DYf xs ys (S j).
Proof.
  intros H. unfold SD1f, CA, CB. rewrite (X_next j H). apply sd1_right. pose proof (Hf_pos j H); lra.
Qed.

Lemma SEG_between j x : (S j < N)%nat -> X j <= x <= X (S j) ->
  Rmin (Y j) (Y (S j)) <= SEGf xs ys j x <= Rmax (Y j) (Y (S j)).
Proof.
  intros H Hx. rewrite (Y_next j H). unfold SEGf, CA, CB.
  destruct (DY_right j H), (DY_next j H).
  apply seg_between; auto; [apply Hf_pos; auto|rewrite <- X_next by auto; exact Hx].
Qed.
Lemma SEG_monotone j p q : (S j < N)%nat -> X j <= p -> p <= q -> q <= X (S j) ->
  0 <= Sf xs ys j * (SEGf xs ys j q - SEGf xs ys j p).
Proof.
  intros H Hp Hpq Hq. unfold SEGf, CA, CB.
  destruct (DY_right j H), (DY_next j H).
  apply (seg_monotone (Hf xs j)); auto; [apply Hf_pos; auto|rewrite <- X_next by auto; exact Hq].
Qed.
Lemma SD1_sign j x : (S j < N)%nat -> X j <= x <= X (S j) -> 0 <= Sf xs ys j * SD1f xs ys j x.
Proof.
  intros H Hx. unfold SD1f, CA, CB. destruct (DY_right j H), (DY_next j H).
  apply (sd1_sign (Hf xs j)); auto; [apply Hf_pos; auto|rewrite <- X_next by auto; exact Hx].
Qed.

(** the workhorse: on the closed segment j, Interpolate returns the cubic of segment j *)
Lemma interpolate_on_segment j x : (S j < N)%nat -> X j <= x <= X (S j) ->
  interpolate ROps o x = Ok (SEGf xs ys j x).
Proof.
  intros Hj [Hlo Hhi]. destruct (Rle_lt_or_eq_dec _ _ Hhi) as [Hlt|Heq].
  - apply interpolate_located; auto. apply locate_unique; auto.
  - subst x. rewrite SEG_right by assumption. destruct (Nat.eq_dec (S j) (N - 1)) as [E|Hne].
    + rewrite E. rewrite (interpolate_located xs ys Hlen _ (N - 2)%nat); [|apply locate_last; auto|lia].
      replace (N - 2)%nat with j by lia. rewrite <- E. now rewrite SEG_right.
    + rewrite (interpolate_located xs ys Hlen _ (S j)); [now rewrite SEG_left| |lia].
      apply locate_unique; auto; [lia|]. split; [lra|apply Hinc; lia].
Qed.

(** *** knot reproduction *)
Theorem knot_reproduction i : (i < N)%nat -> interpolate ROps o (X i) = Ok (Y i).
Proof.
  intros Hi. destruct (Nat.eq_dec i (N - 1)) as [E|Hne].
  - rewrite (interpolate_on_segment (N - 2)); [| lia |].
    + replace (X i) with (X (S (N - 2))) by (f_equal; lia). rewrite SEG_right by lia. f_equal. f_equal. lia.
    + replace (S (N - 2)) with i by lia. split; [apply increasing_le; auto; lia|lra].
  - rewrite (interpolate_on_segment i); [now rewrite SEG_left|lia|]. split; [lra|left; apply Hinc; lia].
Qed.

(** *** no overshoot, monotone *)
Theorem no_overshoot j x : (S j < N)%nat -> X j <= x <= X (S j) ->
  exists v, interpolate ROps o x = Ok v /\ Rmin (Y j) (Y (S j)) <= v <= Rmax (Y j) (Y (S j)).
Proof. intros Hj Hx. exists (SEGf xs ys j x). split; [now apply interpolate_on_segment|now apply SEG_between]. Qed.

Lemma Sf_sign j : (S j < N)%nat -> (0 <= Sf xs ys j <-> Y j <= Y (S j)) /\ (Sf xs ys j <= 0 <-> Y (S j) <= Y j).
Proof.
  intros H. rewrite (Y_next j H). pose proof (Hf_pos j H).
  split; split; intros; nra.
Qed.

Theorem monotone_on_segment j p q : (S j < N)%nat -> X j <= p -> p <= q -> q <= X (S j) ->
  exists fp fq, interpolate ROps o p = Ok fp /\ interpolate ROps o q = Ok fq /\
    (Y j <= Y (S j) -> fp <= fq) /\ (Y (S j) <= Y j -> fq <= fp).
Proof.
  intros Hj Hp Hpq Hq. exists (SEGf xs ys j p), (SEGf xs ys j q).
  split; [apply interpolate_on_segment; auto; lra|]. split; [apply interpolate_on_segment; auto; lra|].
  pose proof (SEG_monotone j p q Hj Hp Hpq Hq) as M.
  destruct (Req_dec (Sf xs ys j) 0) as [Hs0|Hs0].
  - (* plateau: both slopes vanish, the cubic is constant *)
    assert (E : forall x, X j <= x <= X (S j) -> SEGf xs ys j x = Y j).
    { intros x Hx. pose proof (SEG_between j x Hj Hx) as B. rewrite (Y_next j Hj), Hs0 in B.
      replace (Y j + Hf xs j * 0) with (Y j) in B by ring. rewrite Rmin_left, Rmax_left in B by lra. lra. }
    rewrite !E by lra. split; intros; lra.
  - destruct (Sf_sign j Hj) as [[A1 A2] [B1 B2]]. split; intros HY.
    + assert (0 < Sf xs ys j) by (pose proof (A2 HY); lra). nra.
    + assert (Sf xs ys j < 0) by (pose proof (B2 HY); lra). nra.
Qed.

(** *** limiter bounds, observed as Derivative(x_i, 1) *)
Lemma derivative1_at_knot i : (i < N)%nat -> derivative ROps o (X i) 1 = Ok (DYf xs ys i).
Proof.
  intros Hi. destruct (Nat.eq_dec i (N - 1)) as [E|Hne].
  - rewrite E. rewrite (derivative_located xs ys Hlen _ (N - 2)%nat); [|apply locate_last; auto|lia].
    cbn [Z.eqb Pos.eqb]. f_equal.
    replace (X (N - 1)) with (X (S (N - 2))) by (f_equal; lia). rewrite SD1_right by lia. f_equal; lia.
  - rewrite (derivative_located xs ys Hlen _ i); [| |lia].
    + cbn [Z.eqb Pos.eqb]. now rewrite SD1_left.
    + apply locate_unique; auto; [lia|]. split; [lra|apply Hinc; lia].
Qed.

Theorem limiter_bounds i : (i < N)%nat ->
  exists d, derivative ROps o (X i) 1 = Ok d /\
    (forall s, (S i < N)%nat -> s = (Y (S i) - Y i) / (X (S i) - X i) -> 0 <= d * s /\ Rabs d <= 2 * Rabs s) /\
    (forall s, (0 < i)%nat -> s = (Y i - Y (i - 1)) / (X i - X (i - 1)) -> 0 <= d * s /\ Rabs d <= 2 * Rabs s).
Proof.
  intros Hi. exists (DYf xs ys i). split; [now apply derivative1_at_knot|]. split.
  - intros s H ->. rewrite <- (Hf_eq xs i H), <- (Sf_eq xs ys i H). now apply DY_right.
  - intros s H ->. pose proof (DY_left i H Hi) as L.
    rewrite Sf_eq, Hf_eq in L by lia. replace (S (i - 1)) with i in L by lia. exact L.
Qed.

(** *** C1 at the knots: value and first derivative agree from both adjacent segments *)
Theorem c1_at_knots j : (S (S j) < N)%nat ->
  SEGf xs ys j (X (S j)) = Y (S j) /\ SEGf xs ys (S j) (X (S j)) = Y (S j) /\
  SD1f xs ys j (X (S j)) = SD1f xs ys (S j) (X (S j)).
Proof.
  intros H. split; [apply SEG_right; lia|]. split; [apply SEG_left|].
  rewrite SD1_right by lia. now rewrite SD1_left.
Qed.
End Valid.

(** ** 5. Derivatives of the returned curve *)
Lemma Derive_seg a b c d xj t : Derive (seg a b c d xj) t = sd1 a b c xj t.
Proof. apply is_derive_unique, seg_is_derive. Qed.
Lemma Derive_sd1 a b c xj t : Derive (sd1 a b c xj) t = sd2 a b xj t.
Proof. apply is_derive_unique, sd1_is_derive. Qed.
Lemma Derive_sd2 a b xj t : Derive (sd2 a b xj) t = sd3 a.
Proof. apply is_derive_unique, sd2_is_derive. Qed.

Definition seg_dn (a b c d xj : R) (k : nat) (t : R) : R :=
  match k with
  | O => seg a b c d xj t | S O => sd1 a b c xj t | S (S O) => sd2 a b xj t | S (S (S O)) => sd3 a | _ => 0
  end.

Lemma Derive_n_seg a b c d xj k : forall t, Derive_n (seg a b c d xj) k t = seg_dn a b c d xj k t.
Proof.
  assert (H1 : forall t, Derive_n (seg a b c d xj) 1 t = sd1 a b c xj t) by (intros; apply Derive_seg).
  assert (H2 : forall t, Derive_n (seg a b c d xj) 2 t = sd2 a b xj t).
  { intros t. change (Derive (Derive_n (seg a b c d xj) 1) t = sd2 a b xj t).
    rewrite (Derive_ext _ (sd1 a b c xj)) by exact H1. apply Derive_sd1. }
  assert (H3 : forall t, Derive_n (seg a b c d xj) 3 t = sd3 a).
  { intros t. change (Derive (Derive_n (seg a b c d xj) 2) t = sd3 a).
    rewrite (Derive_ext _ (sd2 a b xj)) by exact H2. apply Derive_sd2. }
  assert (H4 : forall m t, Derive_n (seg a b c d xj) (4 + m) t = 0).
  { induction m as [|m IH]; intros t.
    - change (Derive (Derive_n (seg a b c d xj) 3) t = 0).
      rewrite (Derive_ext _ (fun _ => sd3 a)) by exact H3. apply Derive_const.
    - change (Derive (Derive_n (seg a b c d xj) (4 + m)) t = 0).
      rewrite (Derive_ext _ (fun _ => 0)) by exact IH. apply Derive_const. }
  destruct k as [|[|[|[|k']]]]; intros t; [reflexivity|apply H1|apply H2|apply H3|apply (H4 k')].
Qed.

Lemma is_derive_n_seg a b c d xj k x : is_derive_n (seg a b c d xj) (S k) x (seg_dn a b c d xj (S k) x).
Proof.
  change (is_derive (Derive_n (seg a b c d xj) k) x (seg_dn a b c d xj (S k) x)).
  apply (is_derive_ext (seg_dn a b c d xj k)); [intros t; symmetry; apply Derive_n_seg|].
  destruct k as [|[|[|k]]]; cbn [seg_dn].
  - apply seg_is_derive.
  - apply sd1_is_derive.
  - apply sd2_is_derive.
  - destruct k; apply @is_derive_const.
Qed.

(** gluing two differentiable / continuous pieces at a point *)
Lemma glue_derivable (f P Q : R -> R) x a b l : a < x < b ->
  (forall t, a <= t <= x -> f t = P t) -> (forall t, x <= t <= b -> f t = Q t) ->
  is_derive P x l -> is_derive Q x l -> is_derive f x l.
Proof.
  intros Hab HP HQ DP DQ. apply is_derive_Reals. apply is_derive_Reals in DP. apply is_derive_Reals in DQ.
  intros eps Heps. destruct (DP eps Heps) as [d1 H1]. destruct (DQ eps Heps) as [d2 H2].
  assert (Hd : 0 < Rmin (Rmin d1 d2) (Rmin (x - a) (b - x))).
  { repeat apply Rmin_glb_lt; try apply cond_pos; lra. }
  exists (mkposreal _ Hd). intros h Hh0 Hh. cbn [pos] in Hh.
  assert (B1 : Rabs h < d1) by (eapply Rlt_le_trans; [exact Hh|]; eapply Rle_trans; [apply Rmin_l|apply Rmin_l]).
  assert (B2 : Rabs h < d2) by (eapply Rlt_le_trans; [exact Hh|]; eapply Rle_trans; [apply Rmin_l|apply Rmin_r]).
  assert (B3 : Rabs h < x - a) by (eapply Rlt_le_trans; [exact Hh|]; eapply Rle_trans; [apply Rmin_r|apply Rmin_l]).
  assert (B4 : Rabs h < b - x) by (eapply Rlt_le_trans; [exact Hh|]; eapply Rle_trans; [apply Rmin_r|apply Rmin_r]).
  destruct (Rlt_dec h 0) as [Hneg|Hpos].
  - rewrite (Rabs_left h) in B3 by lra. rewrite (HP (x + h)), (HP x) by lra. now apply H1.
  - rewrite (Rabs_pos_eq h) in B4 by lra. rewrite (HQ (x + h)), (HQ x) by lra. now apply H2.
Qed.

Lemma glue_continuous (f P Q : R -> R) x a b : a < x < b ->
  (forall t, a <= t <= x -> f t = P t) -> (forall t, x <= t <= b -> f t = Q t) ->
  continuity_pt P x -> continuity_pt Q x -> continuity_pt f x.
Proof.
  intros Hab HP HQ CP CQ eps Heps.
  destruct (CP eps Heps) as (a1 & Ha1 & H1). destruct (CQ eps Heps) as (a2 & Ha2 & H2).
  exists (Rmin (Rmin a1 a2) (Rmin (x - a) (b - x))). split.
  { repeat apply Rmin_glb_lt; lra. }
  intros t [[_ Hne] Hd]. cbn [dist R_met] in *. unfold R_dist in *.
  assert (B1 : Rabs (t - x) < a1) by (eapply Rlt_le_trans; [exact Hd|]; eapply Rle_trans; [apply Rmin_l|apply Rmin_l]).
  assert (B2 : Rabs (t - x) < a2) by (eapply Rlt_le_trans; [exact Hd|]; eapply Rle_trans; [apply Rmin_l|apply Rmin_r]).
  assert (B3 : Rabs (t - x) < x - a) by (eapply Rlt_le_trans; [exact Hd|]; eapply Rle_trans; [apply Rmin_r|apply Rmin_l]).
  assert (B4 : Rabs (t - x) < b - x) by (eapply Rlt_le_trans; [exact Hd|]; eapply Rle_trans; [apply Rmin_r|apply Rmin_r]).
  destruct (Rlt_dec t x) as [Hlt|Hge].
  - rewrite (Rabs_left (t - x)) in B3 by lra. rewrite (HP t), (HP x) by lra.
    apply H1. split; [split; [exact I|exact Hne]|exact B1].
  - rewrite (Rabs_pos_eq (t - x)) in B4 by lra. rewrite (HQ t), (HQ x) by lra.
    apply H2. split; [split; [exact I|exact Hne]|exact B2].
Qed.

Definition curve (xs ys : list R) (x : R) : R :=
  match interpolate ROps (tab xs ys) x with Ok v => v | _ => 0 end.
Definition deriv1 (xs ys : list R) (x : R) : R :=
  match derivative ROps (tab xs ys) x 1 with Ok v => v | _ => 0 end.

Section Valid2.
Variables xs ys : list R.
Hypothesis HV : valid_table xs ys.
Notation N := (length xs).
Notation X i := (nth i xs 0).
Notation Y i := (nth i ys 0).
Notation o := (tab xs ys).
Let Hlen : length xs = length ys := proj1 HV.
Let HN : (3 <= N)%nat := proj1 (proj2 HV).
Let Hinc : increasing xs := proj2 (proj2 HV).
Let HN2 : (2 <= N)%nat. Proof. lia. Qed.

Lemma curve_on_segment j x : (S j < N)%nat -> X j <= x <= X (S j) -> curve xs ys x = SEGf xs ys j x.
Proof. intros Hj Hx. unfold curve. now rewrite (interpolate_on_segment xs ys HV j x Hj Hx). Qed.

Lemma interpolate_is_curve x : X 0 <= x <= X (N - 1) -> interpolate ROps o x = Ok (curve xs ys x).
Proof.
  intros Hx. destruct (locate_in_domain xs ys HN2 x Hx) as (j & E & Hj & A & B).
  unfold curve. now rewrite (interpolate_located xs ys Hlen x j E Hj).
Qed.

(* which value Derivative returns on the half-open segment *)
Lemma derivative_on_segment j x k : (S j < N)%nat -> X j <= x < X (S j) ->
  derivative ROps o x (Z.of_nat k) = Ok (seg_dn (CA xs ys j) (CB xs ys j) (DYf xs ys j) (Y j) (X j) k x).
Proof.
  intros Hj Hx. rewrite (derivative_located xs ys Hlen x j); [|apply locate_unique; auto|exact Hj].
  f_equal. destruct k as [|[|[|[|k]]]]; try reflexivity.
  destruct (Z.eqb_spec (Z.of_nat (S (S (S (S k))))) 0); [lia|].
  destruct (Z.eqb_spec (Z.of_nat (S (S (S (S k))))) 1); [lia|].
  destruct (Z.eqb_spec (Z.of_nat (S (S (S (S k))))) 2); [lia|].
  destruct (Z.eqb_spec (Z.of_nat (S (S (S (S k))))) 3); [lia|]. reflexivity.
Qed.

(** inside a segment, Derivative(x,k) is the k-th derivative of the returned curve, for every k >= 1 *)
Theorem derivatives_inside j x k : (S j < N)%nat -> X j < x < X (S j) ->
  exists v, derivative ROps o x (Z.of_nat (S k)) = Ok v /\ is_derive_n (curve xs ys) (S k) x v.
Proof.
  intros Hj Hx. eexists. split; [apply derivative_on_segment; [exact Hj|lra]|].
  apply (is_derive_n_ext_loc (SEGf xs ys j)); [|apply is_derive_n_seg].
  apply (locally_interval _ x (X j) (X (S j))); cbn; try lra.
  intros t Ht1 Ht2. symmetry. apply curve_on_segment; auto; lra.
Qed.

Theorem derivative_order_ge_4 x k : X 0 <= x <= X (N - 1) -> (4 <= k)%Z -> derivative ROps o x k = Ok 0.
Proof.
  intros Hx Hk. destruct (locate_in_domain xs ys HN2 x Hx) as (j & E & Hj & A & B).
  rewrite (derivative_located xs ys Hlen x j _ E Hj).
  destruct (Z.eqb_spec k 0); [lia|]. destruct (Z.eqb_spec k 1); [lia|].
  destruct (Z.eqb_spec k 2); [lia|]. destruct (Z.eqb_spec k 3); [lia|]. reflexivity.
Qed.

(** the curve is differentiable on the whole open domain, knots included, with derivative Derivative(x,1) *)
Lemma deriv1_on_segment j x : (S j < N)%nat -> X j <= x <= X (S j) -> deriv1 xs ys x = SD1f xs ys j x.
Proof.
  intros Hj [Hlo Hhi]. unfold deriv1. destruct (Rle_lt_or_eq_dec _ _ Hhi) as [Hlt|Heq].
  - pose proof (derivative_on_segment j x 1 Hj (conj Hlo Hlt)) as D. change (Z.of_nat 1) with 1%Z in D. now rewrite D.
  - subst x. assert (Hk : (S j < N)%nat) by exact Hj.
    rewrite (derivative1_at_knot xs ys HV (S j) Hk). symmetry. now apply SD1_right.
Qed.

Theorem curve_differentiable x : X 0 < x < X (N - 1) ->
  exists d, derivative ROps o x 1 = Ok d /\ is_derive (curve xs ys) x d.
Proof.
  intros Hx. destruct (locate_in_domain xs ys HN2 x ltac:(lra)) as (j & E & Hj & A & B).
  assert (Hlt : x < X (S j)).
  { destruct B as [B|[B1 B2]]; [exact B|]. rewrite B1 in B2. rewrite B1. lra. }
  exists (SD1f xs ys j x). split.
  { rewrite (derivative_located xs ys Hlen x j _ E Hj). reflexivity. }
  destruct (Rle_lt_or_eq_dec _ _ A) as [Hin|Heq].
  - (* interior of segment j *)
    apply (is_derive_ext_loc (SEGf xs ys j)); [|apply seg_is_derive].
    apply (locally_interval _ x (X j) (X (S j))); cbn; try lra.
    intros t Ht1 Ht2. symmetry. apply curve_on_segment; auto; lra.
  - (* at the knot x_j, j >= 1: glue segments j-1 and j *)
    subst x. destruct j as [|j]; [lra|].
    apply (glue_derivable _ (SEGf xs ys j) (SEGf xs ys (S j)) _ (X j) (X (S (S j)))).
    + split; apply Hinc; lia.
    + intros t Ht. apply curve_on_segment; auto; lia.
    + intros t Ht. apply curve_on_segment; auto.
    + rewrite (SD1_left xs ys (S j)). rewrite <- (SD1_right xs ys HV j) by lia. apply seg_is_derive.
    + apply seg_is_derive.
Qed.

Lemma sd1_continuous a b c xj x : continuity_pt (sd1 a b c xj) x.
Proof.
  apply derivable_continuous_pt. exists (sd2 a b xj x). apply is_derive_Reals. apply sd1_is_derive.
Qed.

Theorem derivative_continuous x : X 0 < x < X (N - 1) -> continuity_pt (deriv1 xs ys) x.
Proof.
  intros Hx. destruct (locate_in_domain xs ys HN2 x ltac:(lra)) as (j & E & Hj & A & B).
  assert (Hlt : x < X (S j)).
  { destruct B as [B|[B1 B2]]; [exact B|]. rewrite B1 in B2. rewrite B1. lra. }
  destruct (Rle_lt_or_eq_dec _ _ A) as [Hin|Heq].
  - apply (glue_continuous _ (SD1f xs ys j) (SD1f xs ys j) x (X j) (X (S j))); try lra.
    + intros t Ht. apply deriv1_on_segment; auto; lra.
    + intros t Ht. apply deriv1_on_segment; auto; lra.
    + apply sd1_continuous.
    + apply sd1_continuous.
  - subst x. destruct j as [|j]; [lra|].
    apply (glue_continuous _ (SD1f xs ys j) (SD1f xs ys (S j)) _ (X j) (X (S (S j)))).
    + split; apply Hinc; lia.
    + intros t Ht. apply deriv1_on_segment; auto; lia.
    + intros t Ht. apply deriv1_on_segment; auto.
    + apply sd1_continuous.
    + apply sd1_continuous.
Qed.

Theorem curve_continuous x : X 0 < x < X (N - 1) -> continuity_pt (curve xs ys) x.
Proof.
  intros Hx. destruct (curve_differentiable x Hx) as (d & _ & D).
  apply derivable_continuous_pt. exists d. now apply is_derive_Reals.
Qed.
End Valid2.

(** ** 6. Straight lines and parabolas are reproduced *)
Lemma lin_end m : IZR (sign1 ROps m + sign1 ROps m) * nmin ROps (1 * Rabs m) (1 / 2 * Rabs m) = m.
Proof.
  rewrite nmin_R. destruct (Rtotal_order m 0) as [H|[H|H]].
  - rewrite sign1_neg by lra. rewrite Rabs_left by lra. rewrite Rmin_right by lra. cbn [Z.add Z.opp Pos.add]. lra.
  - subst. rewrite sign1_zero, Rabs_R0. rewrite Rmin_left by lra. cbn [Z.add]. lra.
  - rewrite sign1_pos by lra. rewrite Rabs_pos_eq by lra. rewrite Rmin_right by lra. cbn [Z.add Pos.add]. lra.
Qed.
Lemma lin_mid m : IZR (sign1 ROps m + sign1 ROps m) * nmin ROps (1 * Rabs m / 2) (nmin ROps (1 * Rabs m) (1 * Rabs m)) = m.
Proof.
  rewrite !nmin_R. destruct (Rtotal_order m 0) as [H|[H|H]].
  - rewrite sign1_neg by lra. rewrite Rabs_left by lra. rewrite (Rmin_left (1 * - m)) by lra. rewrite Rmin_left by lra.
    cbn [Z.add Z.opp Pos.add]. lra.
  - subst. rewrite sign1_zero, Rabs_R0. rewrite (Rmin_left (1 * 0)) by lra. rewrite Rmin_left by lra. cbn [Z.add]. lra.
  - rewrite sign1_pos by lra. rewrite Rabs_pos_eq by lra. rewrite (Rmin_left (1 * m)) by lra. rewrite Rmin_left by lra.
    cbn [Z.add Pos.add]. lra.
Qed.

Section Exact.
Variables xs ys : list R.
Hypothesis HV : valid_table xs ys.
Notation N := (length xs).
Notation X i := (nth i xs 0).
Notation Y i := (nth i ys 0).
Notation o := (tab xs ys).
Let Hlen : length xs = length ys := proj1 HV.
Let HN : (3 <= N)%nat := proj1 (proj2 HV).
Let Hinc : increasing xs := proj2 (proj2 HV).
Let HN2 : (2 <= N)%nat. Proof. lia. Qed.

Lemma Hf_pos' j : (S j < N)%nat -> 0 < Hf xs j. Proof. apply (Hf_pos xs ys HV). Qed.

Section Line.
Variables m q : R.
Hypothesis Hline : forall i, (i < N)%nat -> Y i = m * X i + q.

Lemma line_S i : (S i < N)%nat -> Sf xs ys i = m.
Proof.
  intros H. rewrite Sf_eq by assumption. pose proof (Hf_pos' i H) as Hp. rewrite !Hline by lia.
  rewrite Hf_eq in * by assumption. field. lra.
Qed.
Lemma line_P i : (i < N)%nat -> Pf xs ys i = m.
Proof.
  intros H. rewrite Pf_eq by assumption. unfold pp. destruct (Nat.eqb_spec N 2); [lia|].
  cbn [nadd nsub nmul ndiv n1 ROps].
  destruct (Nat.eqb_spec i 0) as [->|Hi0].
  - rewrite !line_S by lia. pose proof (Hf_pos' 0%nat ltac:(lia)). pose proof (Hf_pos' 1%nat ltac:(lia)). field. lra.
  - destruct (Nat.eqb_spec i (N - 1)) as [Hl|Hl].
    + rewrite !line_S by lia. pose proof (Hf_pos' (i - 1)%nat ltac:(lia)). pose proof (Hf_pos' (i - 2)%nat ltac:(lia)). field. lra.
    + rewrite !line_S by lia. pose proof (Hf_pos' (i - 1)%nat ltac:(lia)). pose proof (Hf_pos' i ltac:(lia)). field. lra.
Qed.
Lemma line_DY i : (i < N)%nat -> DYf xs ys i = m.
Proof.
  intros H. rewrite DYf_eq by assumption. unfold dyy. destruct (Nat.eqb_spec N 2); [lia|].
  destruct (Nat.eqb_spec i 0) as [->|Hi0].
  - rewrite line_P, line_S by lia. exact (lin_end m).
  - destruct (Nat.eqb_spec i (N - 1)) as [Hl|Hl].
    + rewrite line_P, line_S by lia. exact (lin_end m).
    + rewrite line_P, !line_S by lia. exact (lin_mid m).
Qed.

Theorem linear_exact x : X 0 <= x <= X (N - 1) -> interpolate ROps o x = Ok (m * x + q).
Proof.
  intros Hx. destruct (locate_in_domain xs ys HN2 x Hx) as (j & E & Hj & A & B).
  rewrite (interpolate_located xs ys Hlen x j E Hj). f_equal.
  unfold SEGf, CA, CB, seg, ca, cb. rewrite !line_DY, line_S by lia. rewrite Hline by lia.
  pose proof (Hf_pos' j Hj). field. lra.
Qed.
End Line.

Section Parabola.
Variables al be ga : R.
Hypothesis Hpar : forall i, (i < N)%nat -> Y i = al * X i ^ 2 + be * X i + ga.
(* the limiter is inactive: the slope used at every knot is the three-point estimate p_i *)
Hypothesis Hinactive : forall i, (i < N)%nat -> DYf xs ys i = Pf xs ys i.

Lemma par_S i : (S i < N)%nat -> Sf xs ys i = al * (X i + X (S i)) + be.
Proof.
  intros H. rewrite Sf_eq by assumption. pose proof (Hf_pos' i H) as Hp. rewrite !Hpar by lia.
  rewrite Hf_eq in * by assumption. field. lra.
Qed.
Lemma par_P i : (i < N)%nat -> Pf xs ys i = 2 * al * X i + be.
Proof.
  intros H. rewrite Pf_eq by assumption. unfold pp. destruct (Nat.eqb_spec N 2); [lia|].
  cbn [nadd nsub nmul ndiv n1 ROps].
  destruct (Nat.eqb_spec i 0) as [->|Hi0].
  - rewrite !par_S by lia. pose proof (Hf_pos' 0%nat ltac:(lia)) as P0. pose proof (Hf_pos' 1%nat ltac:(lia)) as P1.
    rewrite !Hf_eq in * by lia. field. lra.
  - destruct (Nat.eqb_spec i (N - 1)) as [Hl|Hl].
    + destruct i as [|[|k]]; [lia|lia|]. cbn [Nat.sub]. rewrite ?Nat.sub_0_r. rewrite !par_S by lia.
      pose proof (Hf_pos' (S k) ltac:(lia)) as P0. pose proof (Hf_pos' k ltac:(lia)) as P1.
      rewrite !Hf_eq in * by lia. field. lra.
    + destruct i as [|k]; [lia|]. cbn [Nat.sub]. rewrite Nat.sub_0_r. rewrite !par_S by lia.
      pose proof (Hf_pos' (S k) ltac:(lia)) as P0. pose proof (Hf_pos' k ltac:(lia)) as P1.
      rewrite !Hf_eq in * by lia. field. lra.
Qed.

Theorem parabola_exact x : X 0 <= x <= X (N - 1) -> interpolate ROps o x = Ok (al * x ^ 2 + be * x + ga).
Proof.
  intros Hx. destruct (locate_in_domain xs ys HN2 x Hx) as (j & E & Hj & A & B).
  rewrite (interpolate_located xs ys Hlen x j E Hj). f_equal.
  unfold SEGf, CA, CB, seg, ca, cb. rewrite !Hinactive, !par_P, par_S by lia. rewrite Hpar by lia.
  pose proof (Hf_pos' j Hj) as P0. rewrite !Hf_eq in * by lia. field. lra.
Qed.
End Parabola.
End Exact.

(** ** 7. The constructor: guards and unit factors *)
Lemma strictly_increasing_true l : increasing l -> strictly_increasing ROps l = true.
Proof.
  induction l as [|a r IH]; intros H; [reflexivity|].
  destruct r as [|b r']; [reflexivity|]. cbn [strictly_increasing nleb ROps].
  pose proof (H 0%nat ltac:(cbn; lia)) as H0. cbn in H0.
  destruct (Rleb_spec b a); [lra|]. apply IH. intros i Hi. apply (H (S i)). cbn in *. lia.
Qed.

Lemma scale_length d (l : list R) : length (scale ROps d l) = length l.
Proof. unfold scale. destruct (ngtb ROps d (n0 ROps)); [apply map_length|reflexivity]. Qed.
Lemma scale_nth d (l : list R) i : nth i (scale ROps d l) 0 = if Rltb 0 d then nth i l 0 * d else nth i l 0.
Proof.
  unfold scale, ngtb. cbn [nltb n0 nmul ROps]. destruct (Rltb 0 d); [|reflexivity].
  replace 0 with (0 * d) at 1 by ring. apply (map_nth (fun v => v * d)).
Qed.
Lemma scale_increasing d l : increasing l -> increasing (scale ROps d l).
Proof.
  intros H i Hi. rewrite scale_length in Hi. rewrite !scale_nth. pose proof (H i Hi).
  destruct (Rltb_spec 0 d); [nra|lra].
Qed.

Theorem construct_ok xs ys xd fd : valid_table xs ys ->
  construct ROps xs ys xd fd = Ok (tab (scale ROps xd xs) (scale ROps fd ys)) /\
  valid_table (scale ROps xd xs) (scale ROps fd ys).
Proof.
  intros (Hlen & HN & Hinc). split.
  - unfold construct. rewrite Hlen, Nat.eqb_refl. cbn [negb]. rewrite <- Hlen.
    destruct (Nat.ltb_spec (length xs) 2); [lia|]. cbv zeta.
    rewrite strictly_increasing_true by (now apply scale_increasing). reflexivity.
  - repeat split; rewrite ?scale_length; auto. now apply scale_increasing.
Qed.

Example valid_table_example : valid_table [0; 1; 3; 4] [0; 2; 1; 1].
Proof.
  repeat split; cbn; try lia. intros i Hi. cbn in Hi.
  destruct i as [|[|[|i]]]; cbn; try lra; lia.
Qed.

(** ** 8. Interpolation_2D: bilinear interpolation on a rectangular grid *)
Definition valid_grid (xs ys : list R) (f : list (list R)) : Prop :=
  (2 <= length xs)%nat /\ (2 <= length ys)%nat /\ increasing xs /\ increasing ys /\
  length f = length xs /\ forall i, (i < length f)%nat -> length (nth i f []) = length ys.

Definition grid (xs ys : list R) (f : list (list R)) : itab2 :=
  {| jxs := xs; jys := ys; jf := f; jpre := 1;
     jxint := tab xs (repeat 0 (length xs)); jyint := tab ys (repeat 0 (length ys)) |}.

Lemma locate_closed xs ys i x : increasing xs -> (2 <= length xs)%nat -> (S i < length xs)%nat ->
  nth i xs 0 <= x <= nth (S i) xs 0 ->
  exists i', locate ROps (tab xs ys) x = Ok i' /\ (S i' < length xs)%nat /\
             (i' = i \/ (i' = S i /\ x = nth (S i) xs 0)).
Proof.
  intros Hinc HN2 Hi [Hlo Hhi]. destruct (Rle_lt_or_eq_dec _ _ Hhi) as [Hlt|Heq].
  - exists i. split; [apply locate_unique; auto|]. split; [exact Hi|now left].
  - destruct (Nat.eq_dec (S i) (length xs - 1)) as [E|Hne].
    + exists i. split; [|split; [exact Hi|now left]]. subst x. rewrite E.
      rewrite (locate_last xs ys Hinc HN2). f_equal. lia.
    + exists (S i). split; [|split; [lia|right; auto]]. subst x.
      apply locate_unique; auto; [lia|]. split; [lra|apply Hinc; lia].
Qed.

Section Grid.
Variables xs ys : list R.
Variable f : list (list R).
Hypothesis HG : valid_grid xs ys f.
Notation Nx := (length xs).
Notation Ny := (length ys).
Notation X i := (nth i xs 0).
Notation Yy j := (nth j ys 0).
Notation F i j := (nth j (nth i f []) 0).
Notation g := (grid xs ys f).
Let HNx : (2 <= Nx)%nat := proj1 HG.
Let HNy : (2 <= Ny)%nat := proj1 (proj2 HG).
Let Hix : increasing xs := proj1 (proj2 (proj2 HG)).
Let Hiy : increasing ys := proj1 (proj2 (proj2 (proj2 HG))).
Let Hfl : length f = Nx := proj1 (proj2 (proj2 (proj2 (proj2 HG)))).
Let Hrow : forall i, (i < length f)%nat -> length (nth i f []) = Ny := proj2 (proj2 (proj2 (proj2 (proj2 HG)))).

(* the bilinear form of the cell (i,j) *)
Definition BIL i j x y : R :=
  let t := (x - X i) / (X (S i) - X i) in
  let u := (y - Yy j) / (Yy (S j) - Yy j) in
  (1 - t) * (1 - u) * F i j + t * (1 - u) * F (S i) j + t * u * F (S i) (S j) + (1 - t) * u * F i (S j).

Lemma get2_ok i j : (i < Nx)%nat -> (j < Ny)%nat -> get2 f i j = Ok (F i j).
Proof.
  intros Hi Hj. unfold get2. rewrite (get_nth f i []) by lia. cbn [rbind].
  apply get_nth. rewrite Hrow by lia. exact Hj.
Qed.

Lemma interpolate2_located i j x y :
  locate ROps (jxint g) x = Ok i -> locate ROps (jyint g) y = Ok j -> (S i < Nx)%nat -> (S j < Ny)%nat ->
  interpolate2 ROps g x y = Ok (BIL i j x y).
Proof.
  intros Ei Ej Hi Hj. unfold interpolate2. rewrite Ei, Ej. cbn [rbind jxs jys jf jpre grid].
  rewrite (get_nth xs i 0), (get_nth xs (S i) 0), (get_nth ys j 0), (get_nth ys (S j) 0) by lia. cbn [rbind].
  rewrite !get2_ok by lia. cbn [rbind]. f_equal. unfold bilinear, BIL. cbn [nadd nsub nmul ndiv n1 ROps]. ring.
Qed.

Lemma dx_pos i : (S i < Nx)%nat -> 0 < X (S i) - X i. Proof. intros H. pose proof (Hix i H). lra. Qed.
Lemma dy_pos j : (S j < Ny)%nat -> 0 < Yy (S j) - Yy j. Proof. intros H. pose proof (Hiy j H). lra. Qed.

(* adjacent cells agree on their shared edge *)
Lemma BIL_x_edge i j y : (S (S i) < Nx)%nat -> BIL (S i) j (X (S i)) y = BIL i j (X (S i)) y.
Proof.
  intros H. unfold BIL. cbv zeta. generalize ((y - Yy j) / (Yy (S j) - Yy j)). intros u.
  pose proof (dx_pos i ltac:(lia)). pose proof (dx_pos (S i) H). field. lra.
Qed.
Lemma BIL_y_edge i j x : (S (S j) < Ny)%nat -> BIL i (S j) x (Yy (S j)) = BIL i j x (Yy (S j)).
Proof.
  intros H. unfold BIL. cbv zeta. generalize ((x - X i) / (X (S i) - X i)). intros t.
  pose proof (dy_pos j ltac:(lia)). pose proof (dy_pos (S j) H). field. lra.
Qed.

(** on every closed cell Interpolate returns that cell's bilinear form (whichever cell Locate picks on an edge) *)
Theorem interpolate2_on_cell i j x y : (S i < Nx)%nat -> (S j < Ny)%nat ->
  X i <= x <= X (S i) -> Yy j <= y <= Yy (S j) -> interpolate2 ROps g x y = Ok (BIL i j x y).
Proof.
  intros Hi Hj Hx Hy.
  destruct (locate_closed xs (repeat 0 Nx) i x Hix HNx Hi Hx) as (i' & Ei & Hi' & Ci).
  destruct (locate_closed ys (repeat 0 Ny) j y Hiy HNy Hj Hy) as (j' & Ej & Hj' & Cj).
  rewrite (interpolate2_located i' j' x y Ei Ej Hi' Hj'). f_equal.
  destruct Ci as [->|[-> ->]]; destruct Cj as [->|[-> ->]]; try reflexivity.
  - apply BIL_y_edge; lia.
  - apply BIL_x_edge; lia.
  - rewrite BIL_y_edge by lia. apply BIL_x_edge; lia.
Qed.

Lemma BIL_corners i j : (S i < Nx)%nat -> (S j < Ny)%nat ->
  BIL i j (X i) (Yy j) = F i j /\ BIL i j (X (S i)) (Yy j) = F (S i) j /\
  BIL i j (X (S i)) (Yy (S j)) = F (S i) (S j) /\ BIL i j (X i) (Yy (S j)) = F i (S j).
Proof.
  intros Hi Hj. pose proof (dx_pos i Hi). pose proof (dy_pos j Hj). unfold BIL. repeat split; field; lra.
Qed.

Theorem bilinear_nodes i j : (i < Nx)%nat -> (j < Ny)%nat -> interpolate2 ROps g (X i) (Yy j) = Ok (F i j).
Proof.
  intros Hi Hj.
  assert (Ex : exists i0, (S i0 < Nx)%nat /\ (i = i0 \/ i = S i0)).
  { destruct i as [|i]; [exists 0%nat; split; [lia|now left]|exists i; split; [lia|now right]]. }
  assert (Ey : exists j0, (S j0 < Ny)%nat /\ (j = j0 \/ j = S j0)).
  { destruct j as [|j]; [exists 0%nat; split; [lia|now left]|exists j; split; [lia|now right]]. }
  destruct Ex as (i0 & Hi0 & Ci). destruct Ey as (j0 & Hj0 & Cj).
  pose proof (Hix i0 Hi0). pose proof (Hiy j0 Hj0).
  rewrite (interpolate2_on_cell i0 j0) by (try assumption; destruct Ci as [->| ->]; destruct Cj as [->| ->]; lra).
  f_equal. destruct (BIL_corners i0 j0 Hi0 Hj0) as (C1 & C2 & C3 & C4).
  destruct Ci as [->| ->]; destruct Cj as [->| ->]; assumption.
Qed.

Lemma convex4 t u f0 f1 f2 f3 lo hi : 0 <= t <= 1 -> 0 <= u <= 1 ->
  lo <= f0 <= hi -> lo <= f1 <= hi -> lo <= f2 <= hi -> lo <= f3 <= hi ->
  lo <= (1 - t) * (1 - u) * f0 + t * (1 - u) * f1 + t * u * f2 + (1 - t) * u * f3 <= hi.
Proof.
  intros Ht Hu H0 H1 H2 H3.
  assert (W0 : 0 <= (1 - t) * (1 - u)) by (apply Rmult_le_pos; lra).
  assert (W1 : 0 <= t * (1 - u)) by (apply Rmult_le_pos; lra).
  assert (W2 : 0 <= t * u) by (apply Rmult_le_pos; lra).
  assert (W3 : 0 <= (1 - t) * u) by (apply Rmult_le_pos; lra).
  assert (Sum : (1 - t) * (1 - u) + t * (1 - u) + t * u + (1 - t) * u = 1) by ring.
  set (w0 := (1 - t) * (1 - u)) in *. set (w1 := t * (1 - u)) in *. set (w2 := t * u) in *. set (w3 := (1 - t) * u) in *.
  split; nra.
Qed.

Theorem bilinear_within_corners i j x y : (S i < Nx)%nat -> (S j < Ny)%nat ->
  X i <= x <= X (S i) -> Yy j <= y <= Yy (S j) ->
  exists v, interpolate2 ROps g x y = Ok v /\
    Rmin (Rmin (F i j) (F (S i) j)) (Rmin (F (S i) (S j)) (F i (S j))) <= v <=
    Rmax (Rmax (F i j) (F (S i) j)) (Rmax (F (S i) (S j)) (F i (S j))).
Proof.
  intros Hi Hj Hx Hy. exists (BIL i j x y). split; [now apply interpolate2_on_cell|].
  unfold BIL. pose proof (dx_pos i Hi). pose proof (dy_pos j Hj).
  apply convex4.
  - apply (unit_interval (X (S i) - X i) (X i) x); lra.
  - apply (unit_interval (Yy (S j) - Yy j) (Yy j) y); lra.
  - split; [eapply Rle_trans; [apply Rmin_l|apply Rmin_l]|eapply Rle_trans; [|apply Rmax_l]; apply Rmax_l].
  - split; [eapply Rle_trans; [apply Rmin_l|apply Rmin_r]|eapply Rle_trans; [|apply Rmax_l]; apply Rmax_r].
  - split; [eapply Rle_trans; [apply Rmin_r|apply Rmin_l]|eapply Rle_trans; [|apply Rmax_r]; apply Rmax_l].
  - split; [eapply Rle_trans; [apply Rmin_r|apply Rmin_r]|eapply Rle_trans; [|apply Rmax_r]; apply Rmax_r].
Qed.

Theorem bilinear_reproduces_bilinear A B C D :
  (forall i j, (i < Nx)%nat -> (j < Ny)%nat -> F i j = A + B * X i + C * Yy j + D * X i * Yy j) ->
  forall i j x y, (S i < Nx)%nat -> (S j < Ny)%nat -> X i <= x <= X (S i) -> Yy j <= y <= Yy (S j) ->
  interpolate2 ROps g x y = Ok (A + B * x + C * y + D * x * y).
Proof.
  intros HF i j x y Hi Hj Hx Hy. rewrite (interpolate2_on_cell i j x y Hi Hj Hx Hy). f_equal.
  unfold BIL. rewrite !HF by lia. pose proof (dx_pos i Hi). pose proof (dy_pos j Hj). field. lra.
Qed.
End Grid.

Lemma scale2_rows d (f : list (list R)) n :
  (forall i, (i < length f)%nat -> length (nth i f []) = n) ->
  length (scale2 ROps d f) = length f /\ forall i, (i < length (scale2 ROps d f))%nat -> length (nth i (scale2 ROps d f) []) = n.
Proof.
  intros H. unfold scale2. destruct (ngtb ROps d (n0 ROps)); [|split; auto].
  rewrite map_length. split; [reflexivity|]. intros i Hi.
  change (@nil R) with (map (fun v => nmul ROps v d) []). rewrite map_nth, map_length. now apply H.
Qed.

Lemma forallb_rows (f : list (list R)) n :
  (forall i, (i < length f)%nat -> length (nth i f []) = n) -> forallb (fun r => Nat.eqb (length r) n) f = true.
Proof.
  intros H. apply forallb_forall. intros r Hr. apply Nat.eqb_eq.
  destruct (In_nth f r [] Hr) as (i & Hi & <-). now apply H.
Qed.

Theorem construct2_ok xs ys f xd yd fd : valid_grid xs ys f ->
  construct2 ROps xs ys f xd yd fd = Ok (grid (scale ROps xd xs) (scale ROps yd ys) (scale2 ROps fd f)) /\
  valid_grid (scale ROps xd xs) (scale ROps yd ys) (scale2 ROps fd f).
Proof.
  intros (HNx & HNy & Hix & Hiy & Hfl & Hrow).
  assert (Hm1 : forall l, scale ROps (nneg ROps (n1 ROps)) l = l).
  { intros l. unfold scale, ngtb. cbn [nltb nneg n0 n1 ROps]. destruct (Rltb_spec 0 (Ropp 1)); [lra|reflexivity]. }
  assert (Hc : forall l d, increasing l -> (2 <= length l)%nat ->
     construct ROps (scale ROps d l) (repeat (n0 ROps) (length l)) (nneg ROps (n1 ROps)) (nneg ROps (n1 ROps))
     = Ok (tab (scale ROps d l) (repeat 0 (length (scale ROps d l))))).
  { intros l d Hi Hl. unfold construct. rewrite repeat_length, scale_length, Nat.eqb_refl. cbn [negb].
    destruct (Nat.ltb_spec (length l) 2); [lia|]. cbv zeta. rewrite !Hm1.
    rewrite strictly_increasing_true by now apply scale_increasing. cbn [negb]. reflexivity. }
  destruct (scale2_rows fd f (length ys) Hrow) as [L1 L2].
  split.
  - unfold construct2. rewrite Hfl, Nat.eqb_refl, forallb_rows by assumption. cbn [andb negb].
    rewrite (Hc xs xd Hix HNx). cbn [rbind]. rewrite (Hc ys yd Hiy HNy). cbn [rbind]. reflexivity.
  - repeat split; rewrite ?scale_length; auto using scale_increasing; try lia.
Qed.

Example valid_grid_example : valid_grid [0; 1] [0; 2; 3] [[1; 2; 3]; [4; 5; 6]].
Proof.
  repeat split; cbn; try lia.
  - intros i Hi; cbn in Hi. destruct i as [|i]; cbn; [lra|lia].
  - intros i Hi; cbn in Hi. destruct i as [|[|i]]; cbn; try lra; lia.
  - intros i Hi. destruct i as [|[|i]]; cbn; lia.
Qed.

(** ** 9. The limiter is inactive on increasing data when p_i <= 2 min(s_{i-1}, s_i); a concrete parabola table *)
Lemma inactive_end p s : 0 < p -> 0 < s -> p <= 2 * s ->
  IZR (sign1 ROps p + sign1 ROps s) * nmin ROps (1 * Rabs s) (1 / 2 * Rabs p) = p.
Proof.
  intros Hp Hs H. rewrite nmin_R, !sign1_pos, !Rabs_pos_eq by lra. rewrite Rmin_right by lra. cbn [Z.add Pos.add]. lra.
Qed.
Lemma inactive_mid p sl sr : 0 < p -> 0 < sl -> 0 < sr -> p <= 2 * sl -> p <= 2 * sr ->
  IZR (sign1 ROps sl + sign1 ROps sr) * nmin ROps (1 * Rabs p / 2) (nmin ROps (1 * Rabs sr) (1 * Rabs sl)) = p.
Proof.
  intros Hp Hl Hr H1 H2. rewrite !nmin_R, !sign1_pos, !Rabs_pos_eq by lra.
  rewrite Rmin_left by (apply Rmin_glb; lra). cbn [Z.add Pos.add]. lra.
Qed.

Example parabola_example :
  let xs := [1; 2; 3; 4] in let ys := [1; 4; 9; 16] in
  valid_table xs ys /\ (forall i, (i < length xs)%nat -> nth i ys 0 = 1 * nth i xs 0 ^ 2 + 0 * nth i xs 0 + 0) /\
  (forall i, (i < length xs)%nat -> DYf xs ys i = Pf xs ys i).
Proof.
  cbv zeta.
  assert (HV : valid_table [1; 2; 3; 4] [1; 4; 9; 16]).
  { repeat split; cbn; try lia. intros i Hi. cbn in Hi. destruct i as [|[|[|i]]]; cbn; try lra; lia. }
  assert (HP : forall i, (i < 4)%nat -> nth i [1; 4; 9; 16] 0 = 1 * nth i [1; 2; 3; 4] 0 ^ 2 + 0 * nth i [1; 2; 3; 4] 0 + 0).
  { intros i Hi. destruct i as [|[|[|[|i]]]]; cbn; try lra; lia. }
  split; [exact HV|]. split; [exact HP|].
  pose proof (par_S _ _ HV 1 0 0 HP) as S_. pose proof (par_P _ _ HV 1 0 0 HP) as P_.
  assert (S0 := S_ 0%nat ltac:(cbn; lia)). assert (S1 := S_ 1%nat ltac:(cbn; lia)). assert (S2 := S_ 2%nat ltac:(cbn; lia)).
  cbn [nth] in S0, S1, S2.
  intros i Hi. cbn [length] in Hi. rewrite (P_ i Hi). rewrite DYf_eq by exact Hi. unfold dyy. cbn [length Nat.eqb Nat.sub].
  destruct i as [|[|[|[|i]]]]; cbn [Nat.eqb Nat.sub nth]; try lia;
    rewrite ?(P_ 0%nat), ?(P_ 1%nat), ?(P_ 2%nat), ?(P_ 3%nat) by (cbn; lia); rewrite ?S0, ?S1, ?S2; cbn [nth].
  - rewrite inactive_end; lra.
  - rewrite inactive_mid; lra.
  - rewrite inactive_mid; lra.
  - rewrite inactive_end; lra.
Qed.

(** the reported derivatives are those of the polynomial of the located segment (half-open segment, so knots included) *)
Theorem derivatives_segment_polynomial xs ys : valid_table xs ys -> forall j, (S j < length xs)%nat ->
  exists poly : R -> R,
    (forall t, nth j xs 0 <= t <= nth (S j) xs 0 -> interpolate ROps (tab xs ys) t = Ok (poly t)) /\
    (forall x k, nth j xs 0 <= x < nth (S j) xs 0 ->
       exists v, derivative ROps (tab xs ys) x (Z.of_nat (S k)) = Ok v /\ is_derive_n poly (S k) x v).
Proof.
  intros HV j Hj. exists (SEGf xs ys j). split.
  - intros t Ht. now apply interpolate_on_segment.
  - intros x k Hx. eexists. split; [exact (derivative_on_segment xs ys HV j x (S k) Hj Hx)|apply is_derive_n_seg].
Qed.

(** Locate in the 1 % extrapolation zone: accepted (segment 0 resp. N-2) strictly inside the tolerance, Exit otherwise *)
Theorem locate_edge_zone xs ys x : valid_table xs ys ->
  let N := length xs in
  (x < nth 0 xs 0 ->
     (nth 0 xs 0 - x < 1 / 100 * (nth 1 xs 0 - nth 0 xs 0) -> locate ROps (tab xs ys) x = Ok 0%nat) /\
     (1 / 100 * (nth 1 xs 0 - nth 0 xs 0) <= nth 0 xs 0 - x -> locate ROps (tab xs ys) x = Exit)) /\
  (nth (N - 1) xs 0 < x ->
     (x - nth (N - 1) xs 0 < 1 / 100 * (nth (N - 1) xs 0 - nth (N - 2) xs 0) -> locate ROps (tab xs ys) x = Ok (N - 2)%nat) /\
     (1 / 100 * (nth (N - 1) xs 0 - nth (N - 2) xs 0) <= x - nth (N - 1) xs 0 -> locate ROps (tab xs ys) x = Exit)).
Proof.
  intros (Hlen & HN & Hinc) N.
  assert (H0N : nth 0 xs 0 < nth (N - 1) xs 0) by (apply increasing_lt; auto; unfold N; lia).
  assert (H01 : nth 0 xs 0 < nth 1 xs 0) by (apply Hinc; lia).
  assert (HN1 : nth (N - 2) xs 0 < nth (N - 1) xs 0).
  { replace (N - 1)%nat with (S (N - 2)) by (unfold N; lia). apply Hinc. lia. }
  assert (H0N2 : nth 0 xs 0 <= nth (N - 2) xs 0) by (apply increasing_le; auto; unfold N; lia).
  unfold locate. change (iN (tab xs ys)) with N. change (ixs (tab xs ys)) with xs.
  change (idom0 (tab xs ys)) with (nth 0 xs 0). change (idom1 (tab xs ys)) with (nth (N - 1) xs 0).
  unfold ngtb, ndec. cbn [nisnan nltb nabs nsub nmul ndiv nofZ ROps]. unfold xat, nth0. cbn [n0 ROps].
  split; intros Hout.
  - destruct (Rltb_spec x (nth 0 xs 0)) as [_|]; [|lra]. cbn [orb].
    rewrite (Rabs_left (x - nth 0 xs 0)) by lra.
    split; intros Htol.
    + destruct (Rltb_spec (- (x - nth 0 xs 0)) (1 / 100 * (nth 1 xs 0 - nth 0 xs 0))); [reflexivity|lra].
    + destruct (Rltb_spec (- (x - nth 0 xs 0)) (1 / 100 * (nth 1 xs 0 - nth 0 xs 0))); [lra|].
      rewrite (Rabs_left (x - nth (N - 1) xs 0)) by lra.
      destruct (Rltb_spec (- (x - nth (N - 1) xs 0)) (1 / 100 * (nth (N - 1) xs 0 - nth (N - 2) xs 0))); [lra|reflexivity].
  - destruct (Rltb_spec x (nth 0 xs 0)) as [|_]; [lra|]. destruct (Rltb_spec (nth (N - 1) xs 0) x) as [_|]; [|lra]. cbn [orb].
    rewrite (Rabs_pos_eq (x - nth 0 xs 0)) by lra. rewrite (Rabs_pos_eq (x - nth (N - 1) xs 0)) by lra.
    destruct (Rltb_spec (x - nth 0 xs 0) (1 / 100 * (nth 1 xs 0 - nth 0 xs 0))) as [Hbad|_].
    { exfalso. assert (nth 1 xs 0 <= nth (N - 1) xs 0) by (apply increasing_le; auto; unfold N; lia). lra. }
    split; intros Htol.
    + destruct (Rltb_spec (x - nth (N - 1) xs 0) (1 / 100 * (nth (N - 1) xs 0 - nth (N - 2) xs 0))); [reflexivity|lra].
    + destruct (Rltb_spec (x - nth (N - 1) xs 0) (1 / 100 * (nth (N - 1) xs 0 - nth (N - 2) xs 0))); [lra|reflexivity].
Qed.
