(** * C15: Eigenvalues on diagonal matrices (part of the property's quantifier: "including diagonal ... matrices").
    For every n >= 1 and every diagonal matrix D with non-zero diagonal entries the model of Eigenvalues returns (never exits after 200 sweeps),
    and returns exactly the diagonal of D, in its order: the Q of every QR sweep is a diagonal matrix of signs (it is orthogonal, and lower
    triangular because R = Q^T D is upper triangular), so R Q = Q^T D Q = D, and the convergence test (sub-diagonal mass 0) is passed at the
    first sweep that evaluates it (sweep 12). *)
From Coq Require Import Reals ZArith List Lra Lia Psatz Bool Arith.
From LP Require Import Num NumR C15_Model C15_Proofs C15_Proofs_QR C15_Proofs_Session.
Import ListNotations.
Local Open Scope R_scope.

Definition isdiag (n : nat) (a : nat -> nat -> R) : Prop := forall i j, (i < n)%nat -> (j < n)%nat -> i <> j -> a i j = 0.

Lemma rsum_single f n i : (i < n)%nat -> (forall k, (k < n)%nat -> k <> i -> f k = 0) -> rsum f n = f i.
Proof.
  intros Hi Z. rewrite (rsum_extract f n i Hi). rewrite (rsum_ext _ (fun _ => 0)), rsum_zero; [ring|].
  intros k Hk. destruct (Nat.eqb_spec k i); [reflexivity | apply Z; assumption].
Qed.
Lemma diag_nonsing n a : isdiag n a -> (forall i, (i < n)%nat -> a i i <> 0) -> nonsing n a.
Proof.
  intros D NZ x H j Hj. pose proof (H j Hj) as E. unfold mv in E.
  rewrite (rsum_single _ n j Hj) in E by (intros k Hk Hne; rewrite (D j k Hj Hk) by congruence; ring).
  destruct (Rmult_integral _ _ E) as [E' | E']; [exfalso; exact (NZ j Hj E') | exact E'].
Qed.

(** an orthogonal matrix whose entries above the diagonal vanish is a diagonal matrix of signs *)
Lemma orth_lower_diag n (q : nat -> nat -> R) : orth n q -> (forall a b, (a < b)%nat -> (b < n)%nat -> q a b = 0) ->
  forall j, (j < n)%nat -> q j j * q j j = 1 /\ forall i, (j < i)%nat -> (i < n)%nat -> q i j = 0.
Proof.
  intros (O1 & O2) L.
  assert (forall m j, (j < m)%nat -> (j < n)%nat -> q j j * q j j = 1 /\ forall i, (j < i)%nat -> (i < n)%nat -> q i j = 0) as G.
  { induction m as [| m IH]; intros j Hjm Hj; [lia|].
    destruct (Nat.eq_dec j m) as [-> | Hne]; [| apply IH; lia].
    assert (q m m * q m m = 1) as D.
    { pose proof (O2 m m Hj Hj) as E. unfold mm, tr, dlt in E. rewrite Nat.eqb_refl in E.
      rewrite (rsum_single _ n m Hj) in E; [exact E|].
      intros k Hk Hkm. destruct (Nat.lt_ge_cases k m) as [Lt | Ge].
      - rewrite (proj2 (IH k Lt Hk) m Lt Hj). ring.
      - rewrite (L m k ltac:(lia) Hk). ring. }
    split; [exact D|]. intros i Hmi Hi.
    pose proof (O1 m m Hj Hj) as E. unfold mm, tr, dlt in E. rewrite Nat.eqb_refl in E.
    rewrite (rsum_extract _ n m Hj), D in E.
    set (g := fun k => if Nat.eqb k m then 0 else q k m * q k m) in E.
    assert (rsum g n = 0) as Z by lra.
    destruct (Req_dec (q i m) 0) as [E0 | NE]; [exact E0 | exfalso].
    assert (0 < rsum g n); [| lra].
    apply (rsum_pos_term g n i).
    - intros k _. unfold g. destruct (Nat.eqb k m); [lra | apply Rle_0_sqr].
    - exact Hi.
    - unfold g. destruct (Nat.eqb_spec i m); [lia|].
      assert (0 <= q i m * q i m) by apply Rle_0_sqr.
      destruct (Req_dec (q i m * q i m) 0) as [E1 | NE1]; [| lra].
      destruct (Rmult_integral _ _ E1); contradiction. }
  intros j Hj. apply (G (S j) j); lia.
Qed.

(** lists of rows with the same entries are equal *)
Lemma wf_ext n (A B : list (list R)) : wf n A -> wf n B -> eqn n (ment ROps A) (ment ROps B) -> A = B.
Proof.
  intros (LA & RA) (LB & RB) E. apply (nth_ext _ _ [] []); [lia|]. intros i Hi. rewrite LA in Hi.
  apply (nth_ext _ _ 0 0); [rewrite RA, RB by exact Hi; reflexivity|]. intros j Hj. rewrite RA in Hj by exact Hi.
  exact (E i j Hi Hj).
Qed.

(** one sweep A -> R Q leaves a diagonal matrix with non-zero diagonal as it is *)
Lemma eig_sweep_diag n (M : list (list R)) : (0 < n)%nat -> wf n M -> isdiag n (ment ROps M) -> (forall i, (i < n)%nat -> ment ROps M i i <> 0) ->
  let qr := qr_loop ROps n 0 n (identity ROps n) M M in mmul ROps (snd qr) (fst qr) = M.
Proof.
  intros Hn W D NZ qr.
  pose proof (qr_loop_post n M Hn W (nonsing_qr_pivots n M Hn W (diag_nonsing n _ D NZ))) as (Wq & Wr & Oq & QR & UT & _).
  fold qr in Wq, Wr, Oq, QR, UT.
  set (Q := ment ROps (fst qr)) in *. set (Rm := ment ROps (snd qr)) in *. set (Mf := ment ROps M) in *.
  assert (wf n (mmul ROps (snd qr) (fst qr))) as W1 by (apply wf_mmul; assumption).
  pose proof (eqn_trans n _ _ _ (ment_mmul_eqn n _ _ Hn Wr Wq) (sim_of_qr n _ _ _ Oq QR)) as S1. fold Q Mf in S1.
  (* R = Q^T M *)
  assert (eqn n (mm n (tr Q) Mf) Rm) as RQ.
  { intros a b Ha Hb.
    rewrite (mm_eqn n (tr Q) (tr Q) Mf (mm n Q Rm) (eqn_refl _ _) (eqn_sym _ _ _ QR) a b Ha Hb).
    rewrite <- mm_assoc.
    rewrite (mm_eqn n (mm n (tr Q) Q) dlt Rm Rm (proj1 Oq) (eqn_refl _ _) a b Ha Hb).
    apply (mm_dlt_l n Rm a b Ha Hb). }
  (* Q vanishes above the diagonal *)
  assert (forall a b, (a < b)%nat -> (b < n)%nat -> Q a b = 0) as LQ.
  { intros a b Hab Hb. pose proof (RQ b a Hb ltac:(lia)) as E. rewrite (UT b a Hab Hb) in E. unfold mm, tr in E.
    rewrite (rsum_single _ n a ltac:(lia)) in E by (intros k Hk Hne; rewrite (D k a Hk ltac:(lia) Hne); ring).
    destruct (Rmult_integral _ _ E) as [E' | E']; [exact E' | exfalso; exact (NZ a ltac:(lia) E')]. }
  pose proof (orth_lower_diag n Q Oq LQ) as DQ.
  assert (isdiag n Q) as IQ.
  { intros a b Ha Hb Hne. destruct (Nat.lt_ge_cases a b) as [Lt | Ge]; [apply LQ; assumption | apply (proj2 (DQ b Hb)); lia]. }
  apply (wf_ext n _ M W1 W). intros i j Hi Hj. rewrite (S1 i j Hi Hj). unfold mm, tr.
  rewrite (rsum_single _ n i Hi) by (intros k Hk Hne; rewrite (IQ k i Hk Hi Hne); ring).
  rewrite (rsum_single _ n j Hj) by (intros k Hk Hne; rewrite (IQ k j Hk Hj Hne); ring).
  fold Mf. destruct (Nat.eq_dec i j) as [-> | Hne].
  - replace (Q j j * (Mf j j * Q j j)) with (Mf j j * (Q j j * Q j j)) by ring. rewrite (proj1 (DQ j Hj)). ring.
  - rewrite (D i j Hi Hj Hne). ring.
Qed.

(** the convergence test on a diagonal matrix *)
Lemma fold_seq_rsum (g : nat -> R) n : fold_left (fun acc j => acc + g j) (seq 0 n) 0 = rsum g n.
Proof. induction n as [| n IH]; [reflexivity|]. rewrite seq_S, fold_left_app, IH. reflexivity. Qed.
Lemma fold_add_zero (g : nat -> R) l acc : (forall k, In k l -> g k = 0) -> fold_left (fun a k => a + g k) l acc = acc.
Proof.
  revert acc. induction l as [| k l IH]; intros acc Z; [reflexivity|]. cbn [fold_left].
  rewrite IH by (intros k' Hk'; apply Z; right; exact Hk'). rewrite (Z k (or_introl eq_refl)). ring.
Qed.
Lemma diag_converged n (M : list (list R)) : (0 < n)%nat -> wf n M -> isdiag n (ment ROps M) -> (forall i, (i < n)%nat -> ment ROps M i i <> 0) ->
  nltb ROps (ndiv ROps (abs_lower_sum ROps M) (abs_diag_sum ROps M)) (ndec ROps 1 1000000000000) = true.
Proof.
  intros Hn (LM & _) D NZ.
  assert (abs_lower_sum ROps M = 0) as L0.
  { unfold abs_lower_sum, nrows. rewrite LM. cbn [nadd nabs n0 ROps].
    assert (forall l acc, (forall j, In j l -> (j < n)%nat) ->
              fold_left (fun acc j => fold_left (fun acc' k => acc' + Rabs (ment ROps M k j)) (seq (S j) (n - S j)) acc) l acc = acc) as G.
    { induction l as [| j l IH]; intros acc Hl; [reflexivity|]. cbn [fold_left].
      rewrite (fold_add_zero (fun k => Rabs (ment ROps M k j))).
      - apply IH. intros j' Hj'. apply Hl. right. exact Hj'.
      - intros k Hk. apply in_seq in Hk. rewrite (D k j ltac:(lia) (Hl j (or_introl eq_refl)) ltac:(lia)). apply Rabs_R0. }
    apply G. intros j Hj. apply in_seq in Hj. lia. }
  assert (0 < abs_diag_sum ROps M) as DP.
  { unfold abs_diag_sum, nrows. rewrite LM. cbn [nadd nabs n0 ROps]. rewrite (fold_seq_rsum (fun j => Rabs (ment ROps M j j))).
    apply (rsum_pos_term _ n 0%nat); [intros j _; apply Rabs_pos | exact Hn | apply Rabs_pos_lt, NZ, Hn]. }
  rewrite L0. cbn [ndiv ROps nltb]. unfold ndec. cbn [ROps ndiv nofZ]. apply Rltb_true.
  replace (0 / abs_diag_sum ROps M) with 0 by (field; lra). lra.
Qed.

Lemma eig_loop_diag n (M : list (list R)) : (0 < n)%nat -> wf n M -> isdiag n (ment ROps M) -> (forall i, (i < n)%nat -> ment ROps M i i <> 0) ->
  forall fuel i, (0 < fuel)%nat -> (12 <= Z.of_nat fuel + i)%Z -> eig_loop ROps fuel i M = Ok (diagonal ROps M).
Proof.
  intros Hn W D NZ. induction fuel as [| f IH]; intros i Hi Hf; [lia|].
  cbn [eig_loop]. cbv zeta. replace (nrows M) with n by (symmetry; exact (proj1 W)).
  rewrite (eig_sweep_diag n M Hn W D NZ).
  destruct (Z.ltb_spec 10 i) as [L | L].
  - rewrite (diag_converged n M Hn W D NZ). reflexivity.
  - apply IH; lia.
Qed.
Lemma eigenvalues_diagonal n (M : list (list R)) : (0 < n)%nat -> wf n M -> isdiag n (ment ROps M) -> (forall i, (i < n)%nat -> ment ROps M i i <> 0) ->
  eigenvalues ROps M = Ok (diagonal ROps M).
Proof.
  intros Hn W D NZ. rewrite eigenvalues_unfold. destruct (wf_is_square n M W) as [Sq Nr]. rewrite Sq, Nr.
  destruct (Nat.ltb_spec 0 n) as [_ | Hc]; [| lia]. cbn [andb].
  apply (eig_loop_diag n M Hn W D NZ 200 0%Z); lia.
Qed.

(** the same, read on the list of diagonal entries: Eigenvalues(diag(d_1, .., d_n)) = (d_1, .., d_n) *)
Definition diagm (d : list R) : list (list R) :=
  mk (length d) (length d) (fun i j => if Nat.eqb i j then nth i d 0 else 0).
Lemma eigenvalues_diagm (d : list R) : (0 < length d)%nat -> (forall i, (i < length d)%nat -> nth i d 0 <> 0) ->
  eigenvalues ROps (diagm d) = Ok d.
Proof.
  intros Hn NZ. set (n := length d) in *.
  assert (wf n (diagm d)) as W by apply wf_mk.
  assert (forall i j, (i < n)%nat -> (j < n)%nat -> ment ROps (diagm d) i j = if Nat.eqb i j then nth i d 0 else 0) as E
      by (intros i j Hi Hj; unfold diagm; apply ment_mk; assumption).
  rewrite (eigenvalues_diagonal n (diagm d) Hn W).
  - f_equal. unfold diagonal. replace (nrows (diagm d)) with n by (symmetry; exact (proj1 W)).
    apply (nth_ext _ _ 0 0); [rewrite map_length, seq_length; reflexivity|].
    intros i Hi. rewrite map_length, seq_length in Hi. rewrite (nth_map_seq _ n i 0 Hi), (E i i Hi Hi), Nat.eqb_refl. reflexivity.
  - intros i j Hi Hj Hne. rewrite (E i j Hi Hj). destruct (Nat.eqb_spec i j); [contradiction | reflexivity].
  - intros i Hi. rewrite (E i i Hi Hi), Nat.eqb_refl. apply NZ, Hi.
Qed.
Example eigenvalues_diagm_example : eigenvalues ROps (diagm [3; -2; 1/2]) = Ok [3; -2; 1/2].
Proof.
  apply eigenvalues_diagm; [cbn; lia|]. intros [| [| [| i]]] Hi; cbn in *; try lra; lia.
Qed.
