(** * C06 proofs: the two clamps of GammaQcf never trigger on GammaQ's own continued-fraction region x >= a+1 (every a > 0, every
    iteration count), so the modified-Lentz state IS the convergent there without any premise; the result is positive. *)
From Coq Require Import Reals ZArith List Lia Lra Bool.
From LP Require Import Num NumR C06_Model C06_Proofs_Gamma C06_Proofs_Inv.
Local Open Scope R_scope.

Section Region.
Variables x a : R.
Hypothesis Ha : 0 < a.
Hypothesis Hx : a + 1 <= x.

Lemma fpmin_le_1 : dbl_fpmin ROps <= 1.
Proof.
  unfold dbl_fpmin, pow2_970. cbn [nlit ROps].
  apply Rmult_le_reg_r with (IZR (2 ^ 970)); [apply IZR_lt; apply Z.pow_pos_nonneg; lia|].
  unfold Rdiv. rewrite Rmult_assoc, Rinv_l by (apply not_0_IZR; apply Z.pow_nonzero; lia).
  rewrite !Rmult_1_l. apply IZR_le. assert (0 < 2 ^ 970)%Z by (apply Z.pow_pos_nonneg; lia). lia.
Qed.

(* one step: from 0 < d <= 1/m, m <= c (m = i >= 1) both new denominators are >= m+1 *)
Lemma region_step (m b d c : R) : 1 <= m -> x + 2 * m + 1 - a = b -> 0 < d -> d * m <= 1 -> m <= c ->
  let an := -1 * m * (m - a) in
  m + 1 <= an * d + b /\ m + 1 <= b + an / c.
Proof.
  intros Hm Hb Hd Hdm Hc an.
  assert (Hc0 : 0 < c) by lra.
  assert (Hic : 0 < / c) by (apply Rinv_0_lt_compat; exact Hc0).
  assert (Hicm : / c * m <= 1).
  { apply Rmult_le_reg_l with c; [exact Hc0|]. rewrite <- Rmult_assoc, Rinv_r by lra. lra. }
  unfold Rdiv. subst b.
  destruct (Rle_dec 0 an) as [Hp|Hn].
  - assert (0 <= an * d) by (apply Rmult_le_pos; lra).
    assert (0 <= an * / c) by (apply Rmult_le_pos; lra).
    split; lra.
  - assert (Han : an < 0) by lra.
    assert (E : forall t, 0 < t -> t * m <= 1 -> -(m - a) <= an * t).
    { intros t Ht Htm. unfold an. replace (-1 * m * (m - a) * t) with (- ((m - a) * (t * m))) by ring.
      assert (0 < m - a). { unfold an in Han. nra. }
      assert ((m - a) * (t * m) <= (m - a) * 1) by (apply Rmult_le_compat_l; lra). lra. }
    pose proof (E d Hd Hdm). pose proof (E (/ c) Hic Hicm). split; lra.
Qed.

(** the invariant of the loop on the region, after ANY number n of iterations *)
Lemma lentz_region_inv n :
  let s := lentz_run x a n in
  lz_i s = (Z.of_nat n + 1)%Z /\ lz_b s = cf_b x a n /\
  0 < lz_d s /\ lz_d s * (INR n + 1) <= 1 /\ INR n + 1 <= lz_c s /\ 0 < lz_h s /\ lentz_noclamp a s.
Proof.
  assert (Hfp := fpmin_pos). assert (Hf1 := fpmin_le_1).
  assert (NC : forall s k, lz_i s = (Z.of_nat k + 1)%Z -> lz_b s = cf_b x a k -> 0 < lz_d s -> lz_d s * (INR k + 1) <= 1 ->
               INR k + 1 <= lz_c s ->
               let an := -1 * IZR (lz_i s) * (IZR (lz_i s) - a) in
               INR k + 2 <= an * lz_d s + (lz_b s + 2) /\ INR k + 2 <= (lz_b s + 2) + an / lz_c s).
  { intros s k Ii Ib Hd Hdm Hc. rewrite Ii, Ib. rewrite plus_IZR, <- INR_IZR_INZ.
    assert (0 <= INR k) by apply pos_INR.
    assert (Hm : 1 <= INR k + 1) by lra.
    assert (Eb : x + 2 * (INR k + 1) + 1 - a = cf_b x a k + 2) by (unfold cf_b; ring).
    destruct (region_step (INR k + 1) (cf_b x a k + 2) (lz_d s) (lz_c s) Hm Eb Hd Hdm Hc) as [A B].
    cbn zeta. split; lra. }
  induction n as [|n IH].
  - cbn [lentz_run lentz_init lz_i lz_b lz_c lz_d lz_h INR]. cbn [n1 nadd nsub ndiv ROps].
    assert (Hb : 2 <= x + 1 - a) by lra.
    assert (Hd : 0 < 1 / (x + 1 - a)) by (apply Rdiv_lt_0_compat; lra).
    assert (Hdm : 1 / (x + 1 - a) * (0 + 1) <= 1).
    { apply Rmult_le_reg_l with (x + 1 - a); [lra|]. field_simplify; lra. }
    assert (Hc : 0 + 1 <= 1 / dbl_fpmin ROps).
    { apply Rmult_le_reg_l with (dbl_fpmin ROps); [exact Hfp|]. field_simplify; lra. }
    set (s0 := lentz_init ROps x a).
    assert (Ii : lz_i s0 = (Z.of_nat 0 + 1)%Z) by reflexivity.
    assert (Ib : lz_b s0 = cf_b x a 0). { unfold cf_b. cbn. ring. }
    split; [reflexivity|]. split; [exact Ib|]. split; [exact Hd|]. split; [exact Hdm|]. split; [exact Hc|]. split; [exact Hd|].
    destruct (NC s0 0%nat Ii Ib Hd Hdm Hc) as [A B]. cbn zeta in A, B. cbn [INR] in A, B.
    unfold lentz_noclamp. cbn zeta. fold s0.
    split; (rewrite Rabs_right; lra).
  - destruct IH as (Ii & Ib & Hd & Hdm & Hc & Hh & Hcl).
    destruct (NC _ n Ii Ib Hd Hdm Hc) as [A B]. cbn zeta in A, B.
    assert (Hn0 : 0 <= INR n) by apply pos_INR.
    cbn [lentz_run]. rewrite (lentz_body_noclamp a _ Hcl). cbn [lz_i lz_b lz_c lz_d lz_h].
    set (s := lentz_run x a n) in *.
    set (an := -1 * IZR (lz_i s) * (IZR (lz_i s) - a)) in *.
    set (D := an * lz_d s + (lz_b s + 2)) in *. set (C := lz_b s + 2 + an / lz_c s) in *.
    assert (HD : 0 < 1 / D) by (apply Rdiv_lt_0_compat; lra).
    assert (HDm : 1 / D * (INR (S n) + 1) <= 1).
    { rewrite S_INR. apply Rmult_le_reg_l with D; [lra|]. field_simplify; lra. }
    assert (HC : INR (S n) + 1 <= C) by (rewrite S_INR; lra).
    assert (Ii' : (lz_i s + 1)%Z = (Z.of_nat (S n) + 1)%Z) by lia.
    assert (Ib' : lz_b s + 2 = cf_b x a (S n)). { rewrite Ib. unfold cf_b. rewrite S_INR. ring. }
    split; [exact Ii'|]. split; [exact Ib'|]. split; [exact HD|]. split; [exact HDm|]. split; [exact HC|]. split.
    { apply Rmult_lt_0_compat; [exact Hh|]. apply Rmult_lt_0_compat; [exact HD|]. rewrite S_INR in HC. lra. }
    set (s' := mkLentz (lz_i s + 1) (lz_b s + 2) C (1 / D) (lz_h s * (1 / D * C)) (1 / D * C)).
    destruct (NC s' (S n) Ii' Ib' HD HDm HC) as [A' B']. cbn zeta in A', B'. rewrite S_INR in A', B'.
    unfold lentz_noclamp. cbn zeta. split; (rewrite Rabs_right; lra).
Qed.

Lemma lentz_region_noclamp n : lentz_noclamp a (lentz_run x a n).
Proof. apply lentz_region_inv. Qed.

(** ... hence, unconditionally on the region: the state is the convergent, all of A_n, Bt_n/A_n positive *)
Lemma lentz_region_convergent n :
  let s := lentz_run x a n in
  lz_i s = (Z.of_nat n + 1)%Z /\ lz_b s = cf_b x a n /\ cf_A x a n <> 0 /\ cf_Bt x a n <> 0 /\
  lz_d s = cf_Am x a n / cf_A x a n /\ lz_c s = cf_Bt x a n / cf_Btm x a n /\ lz_h s = cf_Bt x a n / cf_A x a n /\
  0 < cf_Bt x a n / cf_A x a n /\ INR n + 1 <= cf_A x a n / cf_Am x a n /\ INR n + 1 <= cf_Bt x a n / cf_Btm x a n.
Proof.
  assert (Hb0 : x + 1 - a <> 0) by lra.
  destruct (lentz_is_convergent x a Hb0 n (fun k _ => lentz_region_noclamp k)) as (Ii & Ib & HA & HB & Id & Ic & Ih).
  destruct (lentz_region_inv n) as (_ & _ & Hd & Hdm & Hc & Hh & _).
  cbn zeta. repeat (split; [assumption|]). rewrite <- Ih, <- Ic. split; [exact Hh|]. split; [|exact Hc].
  rewrite Id in Hd, Hdm.
  assert (HAm : cf_Am x a n <> 0). { intros Z. rewrite Z in Hd. unfold Rdiv in Hd. lra. }
  replace (cf_A x a n / cf_Am x a n) with (/ (cf_Am x a n / cf_A x a n)) by (field; split; assumption).
  assert (0 <= INR n) by apply pos_INR.
  apply Rmult_le_reg_l with (cf_Am x a n / cf_A x a n); [exact Hd|]. rewrite Rinv_r by lra. exact Hdm.
Qed.

(** GammaQcf on the region: whenever it answers, the answer is exp(..) * Bt_n/A_n (n-th convergent, no premise) and positive *)
Lemma gammaq_cf_region v : gammaq_cf ROps x a = Ok v ->
  exists n gln, gammaln ROps a = Ok gln /\ (1 <= Z.of_nat n <= 100000)%Z /\
    v = exp (- x + a * ln x - gln) * (cf_Bt x a n / cf_A x a n) /\ 0 < v /\
    Rabs (lz_del (lentz_run x a n) - 1) <= dbl_eps ROps /\
    (forall k, lentz_noclamp a (lentz_run x a k)).
Proof.
  intros H. destruct (gammaq_cf_spec x a v H) as (n & gln & Eg & Hn & Ev & Hdel & Hconv).
  exists n, gln. split; [exact Eg|]. split; [exact Hn|].
  assert (Hb0 : x + 1 - a <> 0) by lra.
  pose proof (Hconv Hb0 (fun k _ => lentz_region_noclamp k)) as Ev'.
  split; [exact Ev'|]. split.
  { rewrite Ev'. apply Rmult_lt_0_compat; [apply exp_pos|]. apply lentz_region_convergent. }
  split; [exact Hdel|]. exact lentz_region_noclamp.
Qed.
End Region.

(** GammaQ / GammaP on the continued-fraction region (0 < a <= 100, x >= a+1): Q > 0, P < 1 *)
Lemma gammaq_cf_region_positive x a q : 0 < a -> a <= 100 -> a + 1 <= x -> gammaq ROps x a = Ok q ->
  0 < q /\ (forall p, gammap ROps x a = Ok p -> p < 1).
Proof.
  intros Ha Ha100 Hx H.
  assert (Hx0 : 0 < x) by lra.
  destruct (gammaq_branches x a Hx0 Ha) as (_ & _ & Hcf). rewrite (Hcf Ha100 Hx) in H.
  destruct (gammaq_cf_region x a Ha Hx q H) as (n & gln & _ & _ & _ & Hq & _).
  split; [exact Hq|]. intros p Hp. pose proof (p_plus_q x a p q Hp). rewrite (Hcf Ha100 Hx) in H0. specialize (H0 H). lra.
Qed.

(** * GammaPser on GammaQ's series region 0 < x < a+1: the loop stops (no Fuel), at an index bounded a priori, with a positive value *)
Lemma gser_loop_total x fuel : forall ap del sum k, (k <= fuel)%nat -> ~ gser_continue (gser_iter k x (ap, del, sum)) ->
  exists st, gser_loop ROps fuel x ap del sum = Ok st.
Proof.
  induction fuel as [|f IH]; intros ap del sum k Hk Hstop; cbn [gser_loop]; unfold ngtb; cbn [nltb nabs nmul nadd ndiv n1 ROps];
    destruct (Rltb_spec (Rabs sum * dbl_eps ROps) (Rabs del)) as [Ht|Ht]; try (eexists; reflexivity).
  - exfalso. assert (k = 0)%nat by lia. subst k. apply Hstop. exact Ht.
  - destruct k as [|k]; [exfalso; apply Hstop; exact Ht|].
    apply (IH _ _ _ k); [lia|]. cbn [gser_iter] in Hstop.
    change (ap + 1, del * (x / (ap + 1)), sum + del * (x / (ap + 1))) with (gser_body x (ap, del, sum)).
    rewrite gser_iter_shift. exact Hstop.
Qed.

Section SerRegion.
Variables x a : R.
Hypothesis Ha : 0 < a.
Hypothesis Hx0 : 0 < x.
Hypothesis Hx : x < a + 1.

Lemma gser_term_step j : gser_term x a (S j) = gser_term x a j * (x / (a + INR (S j))).
Proof.
  unfold gser_term. cbn [rising pow]. field. split; [|apply rising_neq; exact Ha].
  assert (0 <= INR (S j)) by apply pos_INR. lra.
Qed.

Lemma gser_term_pos j : 0 < gser_term x a j.
Proof.
  induction j.
  - unfold gser_term. cbn [pow rising]. apply Rdiv_lt_0_compat; lra.
  - rewrite gser_term_step. apply Rmult_lt_0_compat; [exact IHj|]. apply Rdiv_lt_0_compat; [exact Hx0|].
    assert (0 <= INR (S j)) by apply pos_INR. lra.
Qed.

Lemma gser_term_decr j : gser_term x a (S j) <= gser_term x a j.
Proof.
  rewrite gser_term_step. pose proof (gser_term_pos j).
  assert (x / (a + INR (S j)) <= 1).
  { rewrite S_INR. assert (0 <= INR j) by apply pos_INR.
    apply Rmult_le_reg_r with (a + (INR j + 1)); [lra|]. unfold Rdiv. rewrite Rmult_assoc, Rinv_l by lra. lra. }
  rewrite <- (Rmult_1_r (gser_term x a j)) at 2. apply Rmult_le_compat_l; lra.
Qed.

Lemma gser_term_half N j : a + 1 <= INR N -> (N <= j)%nat -> gser_term x a (S j) <= gser_term x a j * / 2.
Proof.
  intros HN Hj. rewrite gser_term_step. pose proof (gser_term_pos j).
  apply Rmult_le_compat_l; [lra|].
  assert (INR N <= INR j) by (apply le_INR; exact Hj). rewrite S_INR.
  apply Rmult_le_reg_r with (a + (INR j + 1)); [lra|]. unfold Rdiv. rewrite Rmult_assoc, Rinv_l by lra. lra.
Qed.

Lemma gser_term_le0 j : gser_term x a j <= gser_term x a 0.
Proof. induction j; [lra|]. pose proof (gser_term_decr j). lra. Qed.

Lemma gser_term_geom N m : a + 1 <= INR N -> gser_term x a (N + m) <= gser_term x a 0 * (/ 2) ^ m.
Proof.
  intros HN. induction m.
  - rewrite Nat.add_0_r. cbn [pow]. pose proof (gser_term_le0 N). lra.
  - replace (N + S m)%nat with (S (N + m)) by lia. pose proof (gser_term_half N (N + m) HN ltac:(lia)).
    cbn [pow]. lra.
Qed.

Lemma gser_sum_ge0 k : gser_term x a 0 <= sum_f_R0 (gser_term x a) k.
Proof. induction k; cbn [sum_f_R0]; [lra|]. pose proof (gser_term_pos (S k)). lra. Qed.

Lemma half_pow_52 : (/ 2) ^ 52 = dbl_eps ROps.
Proof.
  unfold dbl_eps, pow2_52. cbn [nlit ROps]. rewrite pow_inv. change 2 with (IZR 2). rewrite pow_IZR.
  unfold Rdiv. rewrite Rmult_1_l. reflexivity.
Qed.

(** the stopping test holds at index N+52 for any integer N >= a+1 *)
Lemma gser_stops N : a + 1 <= INR N -> ~ gser_continue (gser_iter (N + 52) x (a, 1 / a, 1 / a)).
Proof.
  intros HN. rewrite gser_iter_closed by exact Ha. unfold gser_continue.
  pose proof (gser_term_pos (N + 52)). pose proof (gser_term_pos 0). pose proof (gser_sum_ge0 (N + 52)).
  pose proof (gser_term_geom N 52 HN) as G. rewrite half_pow_52 in G.
  rewrite !Rabs_right by lra.
  assert (0 < dbl_eps ROps). { rewrite <- half_pow_52. apply pow_lt. lra. }
  assert (gser_term x a 0 * dbl_eps ROps <= sum_f_R0 (gser_term x a) (N + 52) * dbl_eps ROps) by (apply Rmult_le_compat_r; lra).
  lra.
Qed.

(** GammaPser on the region: answers (never Fuel), the stopping index is at most N+52 for any integer N >= a+1, the value is positive;
    the terms are positive and decreasing *)
Lemma gammap_ser_region_total N : a + 1 <= INR N -> (Z.of_nat N + 52 <= 100000)%Z ->
  exists v k gln, gammap_ser ROps x a = Ok v /\ gammaln ROps a = Ok gln /\ (k <= N + 52)%nat /\
    v = sum_f_R0 (gser_term x a) k * exp (- x + a * ln x - gln) /\ 0 < v /\
    Rabs (gser_term x a k) <= Rabs (sum_f_R0 (gser_term x a) k) * dbl_eps ROps /\
    (forall j, (j < k)%nat -> Rabs (sum_f_R0 (gser_term x a) j) * dbl_eps ROps < Rabs (gser_term x a j)).
Proof.
  intros HN Hfuel.
  assert (Hk : (N + 52 <= loop_fuel)%nat) by (unfold loop_fuel; lia).
  destruct (gser_loop_total x loop_fuel a (1 / a) (1 / a) (N + 52) Hk (gser_stops N HN)) as [st Est].
  destruct (proj2 (gammaln_domain a) Ha) as [gln Eg].
  assert (Ev : exists v, gammap_ser ROps x a = Ok v).
  { unfold gammap_ser. rewrite Eg. cbn [rbind ndiv n1 ROps]. rewrite Est. cbn [rbind]. eexists; reflexivity. }
  destruct Ev as [v Ev]. destruct (gser_partial_sums x a v Ha Ev) as (k & gln' & Eg' & _ & Hv & Hstop & Hcont).
  rewrite Eg in Eg'. inversion Eg'; subst gln'.
  exists v, k, gln. split; [exact Ev|]. split; [exact Eg|]. split.
  { destruct (le_lt_dec k (N + 52)) as [L|L]; [exact L|]. exfalso.
    pose proof (gser_stops N HN) as S0. rewrite gser_iter_closed in S0 by exact Ha. apply S0. unfold gser_continue. apply Hcont. exact L. }
  split; [exact Hv|]. split; [|split; [exact Hstop|exact Hcont]].
  rewrite Hv. apply Rmult_lt_0_compat; [|apply exp_pos].
  pose proof (gser_sum_ge0 k). pose proof (gser_term_pos 0). lra.
Qed.
End SerRegion.

(** GammaQ / GammaP on the series region 0 < x < a+1, 0 < a <= 100: both answer, P > 0, Q < 1, at most 153 terms after the first *)
Lemma gammaq_series_region_total x a : 0 < a -> a <= 100 -> 0 < x -> x < a + 1 ->
  exists q p k, gammaq ROps x a = Ok q /\ gammap ROps x a = Ok p /\ q < 1 /\ 0 < p /\ p + q = 1 /\ (k <= 153)%nat /\
    exists gln, gammaln ROps a = Ok gln /\ p = sum_f_R0 (gser_term x a) k * exp (- x + a * ln x - gln).
Proof.
  intros Ha Ha100 Hx0 Hx.
  destruct (gammap_ser_region_total x a Ha Hx0 Hx 101) as (v & k & gln & Ev & Eg & Hk & Hv & Hpos & _).
  { change (INR 101) with (IZR (Z.of_nat 101)) || rewrite INR_IZR_INZ. cbn. lra. }
  { lia. }
  destruct (gammaq_branches x a Hx0 Ha) as (_ & Hser & _).
  assert (Eq : gammaq ROps x a = Ok (1 - v)). { rewrite (Hser Ha100 Hx), Ev. reflexivity. }
  assert (Ep : gammap ROps x a = Ok (1 - (1 - v))). { rewrite gammap_of_q, Eq. reflexivity. }
  exists (1 - v), (1 - (1 - v)), k. split; [exact Eq|]. split; [exact Ep|].
  split; [lra|]. split; [lra|]. split; [lra|]. split; [exact Hk|].
  exists gln. split; [exact Eg|]. rewrite <- Hv. ring.
Qed.

(** packaged for Properties_C06.v *)
Lemma lentz_region_state x a n : 0 < a -> a + 1 <= x ->
  let s := lentz_run x a n in
  lentz_noclamp a s /\ lz_i s = (Z.of_nat n + 1)%Z /\ lz_b s = cf_b x a n /\
  lz_d s = cf_Am x a n / cf_A x a n /\ lz_c s = cf_Bt x a n / cf_Btm x a n /\ lz_h s = cf_Bt x a n / cf_A x a n /\ 0 < lz_h s /\
  INR n + 1 <= cf_A x a n / cf_Am x a n /\ INR n + 1 <= cf_Bt x a n / cf_Btm x a n.
Proof.
  intros Ha Hx. destruct (lentz_region_convergent x a Ha Hx n) as (Ii & Ib & _ & _ & Id & Ic & Ih & Hh & HA & HB).
  cbn zeta. split; [apply lentz_region_noclamp; assumption|]. do 5 (split; [assumption|]). split; [rewrite Ih; exact Hh|]. split; assumption.
Qed.

Lemma regions_unconditional :
  (forall x a : R, 0 < a -> a + 1 <= x ->
     (forall n, let s := lentz_run x a n in
        lentz_noclamp a s /\ lz_i s = (Z.of_nat n + 1)%Z /\ lz_b s = cf_b x a n /\
        lz_d s = cf_Am x a n / cf_A x a n /\ lz_c s = cf_Bt x a n / cf_Btm x a n /\ lz_h s = cf_Bt x a n / cf_A x a n /\ 0 < lz_h s /\
        INR n + 1 <= cf_A x a n / cf_Am x a n /\ INR n + 1 <= cf_Bt x a n / cf_Btm x a n) /\
     (forall v, gammaq_cf ROps x a = Ok v ->
        exists n gln, gammaln ROps a = Ok gln /\ (1 <= Z.of_nat n <= 100000)%Z /\
          v = exp (- x + a * ln x - gln) * (cf_Bt x a n / cf_A x a n) /\ 0 < v /\
          Rabs (lz_del (lentz_run x a n) - 1) <= dbl_eps ROps) /\
     (a <= 100 -> forall q, gammaq ROps x a = Ok q -> 0 < q /\ forall p, gammap ROps x a = Ok p -> p < 1)) /\
  (forall x a : R, 0 < a -> 0 < x -> x < a + 1 ->
     (forall j, 0 < gser_term x a j /\ gser_term x a (S j) <= gser_term x a j) /\
     (forall N : nat, a + 1 <= INR N -> (Z.of_nat N + 52 <= 100000)%Z ->
        exists v k gln, gammap_ser ROps x a = Ok v /\ gammaln ROps a = Ok gln /\ (k <= N + 52)%nat /\
          v = sum_f_R0 (gser_term x a) k * exp (- x + a * ln x - gln) /\ 0 < v /\
          Rabs (gser_term x a k) <= Rabs (sum_f_R0 (gser_term x a) k) * dbl_eps ROps /\
          (forall j, (j < k)%nat -> Rabs (sum_f_R0 (gser_term x a) j) * dbl_eps ROps < Rabs (gser_term x a j))) /\
     (a <= 100 ->
        exists q p k, gammaq ROps x a = Ok q /\ gammap ROps x a = Ok p /\ q < 1 /\ 0 < p /\ p + q = 1 /\ (k <= 153)%nat /\
          exists gln, gammaln ROps a = Ok gln /\ p = sum_f_R0 (gser_term x a) k * exp (- x + a * ln x - gln))).
Proof.
  split.
  - intros x a Ha Hx. split; [intros n; apply lentz_region_state; assumption|]. split.
    + intros v Hv. destruct (gammaq_cf_region x a Ha Hx v Hv) as (n & gln & A & B & C & D & E & _).
      exists n, gln. repeat (split; [assumption|]). assumption.
    + intros Ha100 q Hq. exact (gammaq_cf_region_positive x a q Ha Ha100 Hx Hq).
  - intros x a Ha Hx0 Hx. split; [|split].
    + intros j. split; [apply gser_term_pos; assumption|apply gser_term_decr; assumption].
    + intros N HN HF. exact (gammap_ser_region_total x a Ha Hx0 Hx N HN HF).
    + intros Ha100. exact (gammaq_series_region_total x a Ha Ha100 Hx0 Hx).
Qed.

(** non-vacuity: (x,a) = (5,2) lies on the continued-fraction region, (1,2) on the series region with N = 3; GammaPser(1,2) answers a
    positive value after at most 55 further terms *)
Example regions_hyp_sat :
  (0 < 2 /\ 2 + 1 <= 5 /\ 2 <= 100) /\ (0 < 2 /\ 0 < 1 /\ 1 < 2 + 1 /\ 2 + 1 <= INR 3 /\ (Z.of_nat 3 + 52 <= 100000)%Z) /\
  exists v k, gammap_ser ROps 1 2 = Ok v /\ 0 < v /\ (k <= 55)%nat.
Proof.
  assert (H3 : 2 + 1 <= INR 3) by (cbn; lra).
  split; [lra|]. split; [repeat split; try lra; try exact H3; lia|].
  destruct (gammap_ser_region_total 1 2 ltac:(lra) ltac:(lra) ltac:(lra) 3 H3 ltac:(lia)) as (v & k & gln & Ev & _ & Hk & _ & Hp & _).
  exists v, k. repeat split; assumption.
Qed.
