From Coq Require Import Reals Lra.
From Coquelicot Require Import Coquelicot.
From Interval Require Import Tactic.
From LP Require Import NumR C17_Defs.
Open Scope R_scope.
Lemma s3_5 : Rabs (dawson_def (IZR (5404319552844595) * powerRZ 2 (-52)) - (IZR (4569113577932945) * powerRZ 2 (-53))) <= 2 / 10000000.
Proof. unfold dawson_def. integral with (i_prec 60). Qed.
Lemma s3_15 : Rabs (dawson_def (IZR (-2879318466974081) * powerRZ 2 (-48)) - (IZR (-3539161994318055) * powerRZ 2 (-56))) <= 2 / 10000000.
Proof. unfold dawson_def. integral with (i_prec 60). Qed.
Lemma s3_25 : Rabs (dawson_def (IZR (7205673356160985) * powerRZ 2 (-55)) - (IZR (1754141448962879) * powerRZ 2 (-53))) <= 2 / 10000000.
Proof. unfold dawson_def. integral with (i_prec 60). Qed.
Lemma s3_35 : Rabs (dawson_def (IZR (7180977452015975) * powerRZ 2 (-55)) - (IZR (3496893632815363) * powerRZ 2 (-54))) <= 2 / 10000000.
Proof. unfold dawson_def. integral with (i_prec 60). Qed.
Lemma s3_45 : Rabs ((IZR (6024260493059707) * powerRZ 2 (-46)) - erfi_def (IZR (5412713313363223) * powerRZ 2 (-51))) <= 1 / 1000000 * Rabs (erfi_def (IZR (5412713313363223) * powerRZ 2 (-51))).
Proof. apply rel_error_from_enclosure; [lra|interval|]. unfold erfi_def. split; integral with (i_prec 80). Qed.
Lemma s3_55 : Rerf ((IZR (-2838412831352323) * powerRZ 2 (-49)) - 1 / 10000) < (IZR (-9007199254731985) * powerRZ 2 (-53)) < Rerf ((IZR (-2838412831352323) * powerRZ 2 (-49)) + 1 / 10000).
Proof. unfold Rerf. split; integral with (i_prec 80). Qed.
