(** * C03 proofs: adaptive Simpson integration, over the real-number instance [ROps]. *)
From Coq Require Import Reals ZArith Lra Lia List Psatz Bool.
From Coquelicot Require Import Coquelicot.
From LP Require Import Num NumR C03_Model.
Import ListNotations.
Local Open Scope R_scope.

(** ** Bridge: the model at [ROps] in ordinary real notation *)
Definition simp (f : R -> R) (a b : R) : R := (b - a) / 6 * (f a + 4 * f ((a + b) / 2) + f b).

(** value / warning / trace projections *)
Definition val {A B C} (x : A * B * C) : A := fst (fst x).
Definition wrn {A B C} (x : A * B * C) : B := snd (fst x).
Definition trc {A B C} (x : A * B * C) : C := snd x.

Lemma val_t {A B C} (x : A) (y : B) (z : C) : val (x, y, z) = x. Proof. reflexivity. Qed.
Lemma wrn_t {A B C} (x : A) (y : B) (z : C) : wrn (x, y, z) = y. Proof. reflexivity. Qed.
Lemma trc_t {A B C} (x : A) (y : B) (z : C) : trc (x, y, z) = z. Proof. reflexivity. Qed.

(** the call made by [Integrate] once the limits are ordered *)
Definition core (f : R -> R) (a b eps : R) (n : nat) : R * bool * list R :=
  asr ROps f n a b eps (simp f a b) (f a) (f b) (f ((a + b) / 2)).

Lemma integrate_eq f a eps d : integrate ROps f a a eps d = (0, false, []).
Proof. unfold integrate. cbn. destruct (Reqb_spec a a); [reflexivity|congruence]. Qed.

Lemma integrate_lt f a b eps d : a < b ->
  integrate ROps f a b eps d =
  (1 * val (core f a b (Rabs eps) (Z.to_nat d)), wrn (core f a b (Rabs eps) (Z.to_nat d)),
   a :: b :: (a + b) / 2 :: trc (core f a b (Rabs eps) (Z.to_nat d))).
Proof.
  intros H. unfold integrate, core, simp, val, wrn, trc. cbn.
  destruct (Reqb_spec a b); [lra|]. destruct (Rltb_spec b a); [lra|].
  destruct (asr ROps f _ _ _ _ _ _ _ _) as [[v w] t]. reflexivity.
Qed.

Lemma integrate_gt f a b eps d : b < a ->
  integrate ROps f a b eps d =
  (- (1) * val (core f b a (Rabs eps) (Z.to_nat d)), wrn (core f b a (Rabs eps) (Z.to_nat d)),
   b :: a :: (b + a) / 2 :: trc (core f b a (Rabs eps) (Z.to_nat d))).
Proof.
  intros H. unfold integrate, core, simp, val, wrn, trc. cbn.
  destruct (Reqb_spec a b); [lra|]. destruct (Rltb_spec b a); [|lra].
  destruct (asr ROps f _ _ _ _ _ _ _ _) as [[v w] t]. reflexivity.
Qed.

(** one unfolding of the recursion, stated with [simp]/[core] *)
Lemma Sleft_simp f a b : (b - a) / 12 * (f a + 4 * f ((a + (a + b) / 2) / 2) + f ((a + b) / 2)) = simp f a ((a + b) / 2).
Proof. unfold simp. field. Qed.
Lemma Sright_simp f a b : (b - a) / 12 * (f ((a + b) / 2) + 4 * f ((b + (a + b) / 2) / 2) + f b) = simp f ((a + b) / 2) b.
Proof. unfold simp. replace (((a + b) / 2 + b) / 2) with ((b + (a + b) / 2) / 2) by field. field. Qed.

Definition S2of f a b := simp f a ((a + b) / 2) + simp f ((a + b) / 2) b.
Definition leafval f a b := S2of f a b + (S2of f a b - simp f a b) / 15.

Lemma core_O f a b eps :
  core f a b eps O = (leafval f a b, Rltb (15 * eps) (Rabs (S2of f a b - simp f a b)),
                      [(a + (a + b) / 2) / 2; (b + (a + b) / 2) / 2]).
Proof.
  unfold core. cbn. rewrite Sleft_simp, Sright_simp. reflexivity.
Qed.

Lemma core_S f a b eps n :
  core f a b eps (S n) =
  if Rleb (Rabs (S2of f a b - simp f a b)) (15 * eps)
  then (leafval f a b, false, [(a + (a + b) / 2) / 2; (b + (a + b) / 2) / 2])
  else let l := core f a ((a + b) / 2) (eps / 2) n in
       let r := core f ((a + b) / 2) b (eps / 2) n in
       (val l + val r, wrn l || wrn r,
        (a + (a + b) / 2) / 2 :: (b + (a + b) / 2) / 2 :: trc l ++ trc r).
Proof.
  unfold core at 1. cbn. rewrite Sleft_simp, Sright_simp. fold (S2of f a b).
  destruct (Rleb _ _); [reflexivity|].
  cbv zeta. unfold core.
  replace (f ((a + (a + b) / 2) / 2)) with (f ((a + (a + b) / 2) / 2)) by reflexivity.
  replace (((a + b) / 2 + b) / 2) with ((b + (a + b) / 2) / 2) by field.
  destruct (asr ROps f n a _ _ _ _ _ _) as [[v1 w1] t1].
  destruct (asr ROps f n _ b _ _ _ _ _) as [[v2 w2] t2].
  reflexivity.
Qed.

(** ** Exactness on polynomials of degree <= 5 *)
Definition p5 c0 c1 c2 c3 c4 c5 x := c0 + c1 * x + c2 * x ^ 2 + c3 * x ^ 3 + c4 * x ^ 4 + c5 * x ^ 5.
Definition P5 c0 c1 c2 c3 c4 c5 x := c0 * x + c1 * x ^ 2 / 2 + c2 * x ^ 3 / 3 + c3 * x ^ 4 / 4 + c4 * x ^ 5 / 5 + c5 * x ^ 6 / 6.

Lemma boole_exact c0 c1 c2 c3 c4 c5 a b :
  leafval (p5 c0 c1 c2 c3 c4 c5) a b = P5 c0 c1 c2 c3 c4 c5 b - P5 c0 c1 c2 c3 c4 c5 a.
Proof. unfold leafval, S2of, simp, p5, P5. field. Qed.

Lemma core_quintic c0 c1 c2 c3 c4 c5 n : forall a b eps,
  val (core (p5 c0 c1 c2 c3 c4 c5) a b eps n) = P5 c0 c1 c2 c3 c4 c5 b - P5 c0 c1 c2 c3 c4 c5 a.
Proof.
  induction n as [|n IH]; intros a b eps.
  - rewrite core_O. apply boole_exact.
  - rewrite core_S. destruct (Rleb _ _).
    + apply boole_exact.
    + cbv zeta. unfold val at 1. cbn [fst]. rewrite !IH. ring.
Qed.

(** P5 is an antiderivative of p5, so P5 b - P5 a is the integral *)
Lemma P5_is_RInt c0 c1 c2 c3 c4 c5 a b :
  is_RInt (p5 c0 c1 c2 c3 c4 c5) a b (P5 c0 c1 c2 c3 c4 c5 b - P5 c0 c1 c2 c3 c4 c5 a).
Proof.
  apply (is_RInt_derive (P5 c0 c1 c2 c3 c4 c5) (p5 c0 c1 c2 c3 c4 c5)).
  - intros x _. unfold P5, p5. auto_derive; auto. field.
  - intros x _. apply (ex_derive_continuous (p5 c0 c1 c2 c3 c4 c5)). unfold p5. auto_derive. auto.
Qed.

Theorem quintic_exact c0 c1 c2 c3 c4 c5 a b eps depth :
  val (integrate ROps (p5 c0 c1 c2 c3 c4 c5) a b eps depth) = RInt (p5 c0 c1 c2 c3 c4 c5) a b.
Proof.
  rewrite (is_RInt_unique _ _ _ _ (P5_is_RInt c0 c1 c2 c3 c4 c5 a b)).
  destruct (Rtotal_order a b) as [H|[H|H]].
  - rewrite integrate_lt by exact H. unfold val at 1. cbn [fst]. rewrite core_quintic. ring.
  - subst b. rewrite integrate_eq. unfold val. cbn. ring.
  - rewrite integrate_gt by exact H. unfold val at 1. cbn [fst]. rewrite core_quintic. ring.
Qed.

(** ** Limits: swapping negates, equal limits give zero, sign of epsilon irrelevant *)
Theorem swap_negates f a b eps depth :
  val (integrate ROps f b a eps depth) = - val (integrate ROps f a b eps depth) /\
  wrn (integrate ROps f b a eps depth) = wrn (integrate ROps f a b eps depth) /\
  trc (integrate ROps f b a eps depth) = trc (integrate ROps f a b eps depth).
Proof.
  destruct (Rtotal_order a b) as [H|[H|H]].
  - rewrite (integrate_lt f a b) by exact H. rewrite (integrate_gt f b a) by exact H.
    unfold val at 1 3, wrn at 1 3, trc at 1 3. cbn [fst snd]. repeat split. ring.
  - subst b. rewrite integrate_eq. unfold val. cbn. repeat split. ring.
  - rewrite (integrate_gt f a b) by exact H. rewrite (integrate_lt f b a) by exact H.
    unfold val at 1 3, wrn at 1 3, trc at 1 3. cbn [fst snd]. repeat split. ring.
Qed.

Theorem equal_limits_zero f a eps depth : integrate ROps f a a eps depth = (0, false, []).
Proof. apply integrate_eq. Qed.

Theorem eps_sign_irrelevant f a b eps depth : integrate ROps f a b (- eps) depth = integrate ROps f a b eps depth.
Proof.
  destruct (Rtotal_order a b) as [H|[H|H]].
  - rewrite !integrate_lt by exact H. rewrite Rabs_Ropp. reflexivity.
  - subst b. rewrite !integrate_eq. reflexivity.
  - rewrite !integrate_gt by exact H. rewrite Rabs_Ropp. reflexivity.
Qed.

(** a non-positive depth behaves as depth 0 *)
Theorem nonpositive_depth f a b eps depth : (depth <= 0)%Z -> integrate ROps f a b eps depth = integrate ROps f a b eps 0.
Proof. intros H. unfold integrate. replace (Z.to_nat depth) with (Z.to_nat 0) by lia. reflexivity. Qed.

(** ** Evaluation points lie in the closed interval *)
Lemma core_inside f n : forall a b eps, a <= b -> List.Forall (fun x => a <= x <= b) (trc (core f a b eps n)).
Proof.
  induction n as [|n IH]; intros a b eps H.
  - rewrite core_O. unfold trc. cbn [snd]. repeat (apply List.Forall_cons; [lra|]); apply List.Forall_nil.
  - rewrite core_S. destruct (Rleb _ _).
    + unfold trc. cbn [snd]. repeat (apply List.Forall_cons; [lra|]); apply List.Forall_nil.
    + cbv zeta. unfold trc at 1. cbn [snd].
      apply List.Forall_cons; [lra|]. apply List.Forall_cons; [lra|].
      apply List.Forall_app. split.
      * eapply List.Forall_impl; [|apply IH; lra]. cbv beta. intros; lra.
      * eapply List.Forall_impl; [|apply IH; lra]. cbv beta. intros; lra.
Qed.

Theorem eval_points_inside f a b eps depth :
  List.Forall (fun x => Rmin a b <= x <= Rmax a b) (trc (integrate ROps f a b eps depth)).
Proof.
  destruct (Rtotal_order a b) as [H|[H|H]].
  - rewrite integrate_lt by exact H. unfold trc at 1. cbn [snd].
    rewrite Rmin_left, Rmax_right by lra.
    repeat (apply List.Forall_cons; [lra|]). apply core_inside. lra.
  - subst b. rewrite integrate_eq. apply List.Forall_nil.
  - rewrite integrate_gt by exact H. unfold trc at 1. cbn [snd].
    rewrite Rmin_right, Rmax_left by lra.
    repeat (apply List.Forall_cons; [lra|]). apply core_inside. lra.
Qed.

(** ** Number of evaluations *)
Lemma pow2_pos n : (1 <= 2 ^ n)%nat.
Proof. apply Nat.neq_0_lt_0, Nat.pow_nonzero. lia. Qed.

Lemma core_count f n : forall a b eps, (length (trc (core f a b eps n)) + 2 <= 2 * 2 ^ (n + 1))%nat.
Proof.
  induction n as [|n IH]; intros a b eps.
  - rewrite core_O. cbn. lia.
  - replace (S n + 1)%nat with (S (n + 1)) by lia. cbn [Nat.pow]. pose proof (pow2_pos (n + 1)).
    rewrite core_S. destruct (Rleb _ _).
    + cbn. lia.
    + cbv zeta. unfold trc at 1. cbn [snd length]. rewrite app_length.
      pose proof (IH a ((a + b) / 2) (eps / 2)). pose proof (IH ((a + b) / 2) b (eps / 2)). lia.
Qed.

Theorem eval_count f a b eps depth :
  (length (trc (integrate ROps f a b eps depth)) <= 2 ^ (Z.to_nat depth + 2) + 1)%nat.
Proof.
  replace (Z.to_nat depth + 2)%nat with (S (Z.to_nat depth + 1)) by lia. cbn [Nat.pow].
  pose proof (pow2_pos (Z.to_nat depth + 1)).
  destruct (Rtotal_order a b) as [H0|[H0|H0]].
  - rewrite integrate_lt by exact H0. unfold trc at 1. cbn [snd length].
    pose proof (core_count f (Z.to_nat depth) a b (Rabs eps)). lia.
  - subst b. rewrite integrate_eq. cbn. lia.
  - rewrite integrate_gt by exact H0. unfold trc at 1. cbn [snd length].
    pose proof (core_count f (Z.to_nat depth) b a (Rabs eps)). lia.
Qed.

(** the count bound is attained: with eps = 0 every node of the full tree splits when the integrand is
    not integrated exactly by the panel rule at any level (example below: depth 1, f = x^6 is not needed —
    a simple attained instance is depth 0, where 3 + 2 = 2^2 + 1 evaluations are always made). *)
Lemma eval_count_depth0 f a b eps : a <> b -> length (trc (integrate ROps f a b eps 0)) = 5%nat.
Proof.
  intros H. destruct (Rtotal_order a b) as [H0|[H0|H0]]; [|contradiction|].
  - rewrite integrate_lt by exact H0. cbn [Z.to_nat]. rewrite core_O. reflexivity.
  - rewrite integrate_gt by exact H0. cbn [Z.to_nat]. rewrite core_O. reflexivity.
Qed.

(** ** The error bound *)
(** Leaf algebra.  K = h^5/2880; I - S = -K phi1, I - S2 = -K phib/16 with the (signed) fourth-derivative
    values phi1, phib in [m, 4m]; accepted leaf: |S2 - S| <= 15 eps.  Then the Richardson value is within 4 eps. *)
Lemma leaf_bound_pos K m phi1 phib I S S2 eps :
  0 <= K -> 0 < m -> m <= phi1 <= 4 * m -> m <= phib <= 4 * m ->
  I - S = - K * phi1 -> I - S2 = - K * phib / 16 ->
  Rabs (S2 - S) <= 15 * eps ->
  Rabs (S2 + (S2 - S) / 15 - I) <= 4 * eps.
Proof.
  intros HK Hm H1 Hb E1 E2 Hacc.
  assert (D : S2 - S = K * (phib / 16 - phi1)) by lra.
  assert (R : S2 + (S2 - S) / 15 - I = - (K * (phi1 - phib) / 15)) by lra.
  rewrite R, Rabs_Ropp. rewrite D in Hacc.
  assert (Hneg : K * (phib / 16 - phi1) <= - (K * (3 * m / 4))) by nra.
  assert (Hacc' : K * (3 * m / 4) <= 15 * eps).
  { destruct (Req_dec K 0) as [->|HK0]. { rewrite Rmult_0_l in *. rewrite Rabs_R0 in Hacc. lra. }
    rewrite Rabs_left in Hacc by nra. nra. }
  apply Rabs_le. split; nra.
Qed.

Lemma leaf_bound sg K m phi1 phib I S S2 eps :
  sg = 1 \/ sg = -1 ->
  0 <= K -> 0 < m -> m <= sg * phi1 <= 4 * m -> m <= sg * phib <= 4 * m ->
  I - S = - K * phi1 -> I - S2 = - K * phib / 16 ->
  Rabs (S2 - S) <= 15 * eps ->
  Rabs (S2 + (S2 - S) / 15 - I) <= 4 * eps.
Proof.
  intros [->| ->] HK Hm H1 Hb E1 E2 Hacc.
  - apply (leaf_bound_pos K m phi1 phib); try assumption; lra.
  - replace (S2 + (S2 - S) / 15 - I) with (- ((- S2) + ((- S2) - (- S)) / 15 - (- I))) by lra.
    rewrite Rabs_Ropp.
    apply (leaf_bound_pos K m (- phi1) (- phib)); try assumption; try lra.
    replace (- S2 - - S) with (- (S2 - S)) by lra. rewrite Rabs_Ropp. exact Hacc.
Qed.

Section ErrorBound.
(** [Iab u v] stands for the integral of f over [u,v]: additive, and on every sub-interval of [lo,hi] the
    Simpson estimate has the classical remainder form with a fourth-derivative value [phi] of one sign [sg]
    whose modulus varies by at most a factor four ([m <= sg*phi <= 4 m]). *)
Variable f : R -> R.
Variable Iab : R -> R -> R.
Variables lo hi m sg : R.
Hypothesis Hsg : sg = 1 \/ sg = -1.
Hypothesis Hm : 0 < m.
Hypothesis Hadd : forall u v, lo <= u -> u < v -> v <= hi -> Iab u v = Iab u ((u + v) / 2) + Iab ((u + v) / 2) v.
Hypothesis Hrem : forall u v, lo <= u -> u < v -> v <= hi ->
  exists phi, m <= sg * phi <= 4 * m /\ Iab u v - simp f u v = - ((v - u) ^ 5 / 2880) * phi.

Lemma leaf_err a b eps : lo <= a -> a < b -> b <= hi ->
  Rabs (S2of f a b - simp f a b) <= 15 * eps -> Rabs (leafval f a b - Iab a b) <= 4 * eps.
Proof.
  intros Ha Hab Hb Hacc. set (c := (a + b) / 2).
  destruct (Hrem a b Ha Hab Hb) as (p1 & B1 & E1).
  destruct (Hrem a c) as (pl & Bl & El); [lra|unfold c; lra|unfold c; lra|].
  destruct (Hrem c b) as (pr & Br & Er); [unfold c; lra|unfold c; lra|lra|].
  pose proof (Hadd a b Ha Hab Hb) as A. fold c in A.
  unfold leafval.
  apply (leaf_bound sg ((b - a) ^ 5 / 2880) m p1 ((pl + pr) / 2) (Iab a b) (simp f a b) (S2of f a b) eps); try assumption.
  - apply Rmult_le_pos; [|lra]. apply pow_le. lra.
  - destruct Hsg as [->| ->]; lra.
  - unfold S2of. fold c. rewrite A.
    replace (Iab a c + Iab c b - (simp f a c + simp f c b)) with ((Iab a c - simp f a c) + (Iab c b - simp f c b)) by ring.
    rewrite El, Er. unfold c. field.
Qed.

Lemma core_err n : forall a b eps, lo <= a -> a < b -> b <= hi ->
  wrn (core f a b eps n) = false -> Rabs (val (core f a b eps n) - Iab a b) <= 4 * eps.
Proof.
  induction n as [|n IH]; intros a b eps Ha Hab Hb.
  - rewrite core_O. unfold wrn, val. cbn [fst snd]. intros W. apply Rltb_false in W.
    apply leaf_err; assumption.
  - rewrite core_S. destruct (Rleb_spec (Rabs (S2of f a b - simp f a b)) (15 * eps)) as [Hacc|Hacc].
    + unfold wrn, val. cbn [fst snd]. intros _. apply leaf_err; assumption.
    + cbv zeta. rewrite wrn_t, val_t. intros W. apply orb_false_iff in W. destruct W as [W1 W2].
      pose proof (IH a ((a + b) / 2) (eps / 2)) as I1. pose proof (IH ((a + b) / 2) b (eps / 2)) as I2.
      specialize (I1 ltac:(lra) ltac:(lra) ltac:(lra) W1). specialize (I2 ltac:(lra) ltac:(lra) ltac:(lra) W2).
      rewrite (Hadd a b Ha Hab Hb).
      match goal with |- Rabs ?e <= _ =>
        replace e with ((val (core f a ((a + b) / 2) (eps / 2) n) - Iab a ((a + b) / 2)) +
                        (val (core f ((a + b) / 2) b (eps / 2) n) - Iab ((a + b) / 2) b)) by ring end.
      eapply Rle_trans; [apply Rabs_triang|]. lra.
Qed.
End ErrorBound.

(** The same with [Iab := RInt f] for a continuous integrand; both orientations of the limits. *)
Theorem error_bound_partial (f : R -> R) (a b eps m sg : R) (depth : Z) :
  (forall x, Rmin a b <= x <= Rmax a b -> continuous f x) ->
  sg = 1 \/ sg = -1 -> 0 < m ->
  (forall u v, Rmin a b <= u -> u < v -> v <= Rmax a b ->
     exists phi, m <= sg * phi <= 4 * m /\ RInt f u v - simp f u v = - ((v - u) ^ 5 / 2880) * phi) ->
  wrn (integrate ROps f a b eps depth) = false ->
  Rabs (val (integrate ROps f a b eps depth) - RInt f a b) <= 4 * Rabs eps.
Proof.
  intros Hc Hsg Hm Hrem.
  assert (Hex : forall u v, Rmin a b <= u -> u <= v -> v <= Rmax a b -> ex_RInt f u v).
  { intros u v Hu Huv Hv. apply (ex_RInt_continuous (V := R_CompleteNormedModule)).
    intros x Hx. rewrite Rmin_left, Rmax_right in Hx by lra. apply Hc. lra. }
  assert (Hadd : forall u v, Rmin a b <= u -> u < v -> v <= Rmax a b ->
             RInt f u v = RInt f u ((u + v) / 2) + RInt f ((u + v) / 2) v).
  { intros u v Hu Huv Hv. symmetry.
    apply (RInt_Chasles (V := R_CompleteNormedModule)); apply Hex; lra. }
  destruct (Rtotal_order a b) as [H|[H|H]].
  - rewrite integrate_lt by exact H. rewrite wrn_t, val_t. intros W.
    rewrite Rmin_left, Rmax_right in * by lra. rewrite Rmult_1_l.
    apply (core_err f (RInt f) a b m sg Hsg Hm Hadd Hrem); try lra. exact W.
  - subst b. rewrite integrate_eq. unfold val. cbn [fst]. intros _.
    rewrite RInt_point. unfold zero. cbn. rewrite Rminus_0_r, Rabs_R0. pose proof (Rabs_pos eps). lra.
  - rewrite integrate_gt by exact H. rewrite wrn_t, val_t. intros W.
    rewrite Rmin_right, Rmax_left in * by lra.
    rewrite <- (opp_RInt_swap f b a) by (apply Hex; lra).
    change (opp (RInt f b a)) with (- RInt f b a).
    replace (- (1) * val (core f b a (Rabs eps) (Z.to_nat depth)) - - RInt f b a)
      with (- (val (core f b a (Rabs eps) (Z.to_nat depth)) - RInt f b a)) by ring.
    rewrite Rabs_Ropp.
    apply (core_err f (RInt f) b a m sg Hsg Hm Hadd Hrem); try lra. exact W.
Qed.

(** *** Non-vacuity: f = x^4 satisfies the premises (phi = 24 everywhere) and is accepted at the root *)
Definition x4 (x : R) : R := x ^ 4.
Lemma x4_RInt u v : RInt x4 u v = (v ^ 5 - u ^ 5) / 5.
Proof.
  apply is_RInt_unique.
  replace ((v ^ 5 - u ^ 5) / 5) with ((fun x => x ^ 5 / 5) v - (fun x => x ^ 5 / 5) u) by (cbv beta; field).
  apply (is_RInt_derive (fun x => x ^ 5 / 5) x4).
  - intros x _. unfold x4. auto_derive; auto. field.
  - intros x _. apply (ex_derive_continuous x4). unfold x4. auto_derive. auto.
Qed.
Lemma x4_remainder u v : RInt x4 u v - simp x4 u v = - ((v - u) ^ 5 / 2880) * 24.
Proof. rewrite x4_RInt. unfold simp, x4. field. Qed.
Lemma x4_continuous x : continuous x4 x.
Proof. apply (ex_derive_continuous x4). unfold x4. auto_derive. auto. Qed.

Example error_bound_nonvacuous :
  wrn (integrate ROps x4 0 1 1 1) = false /\
  Rabs (val (integrate ROps x4 0 1 1 1) - RInt x4 0 1) <= 4 * Rabs 1.
Proof.
  assert (W : wrn (integrate ROps x4 0 1 1 1) = false).
  { rewrite integrate_lt by lra. unfold wrn. cbn [fst snd]. change (Z.to_nat 1) with 1%nat. rewrite core_S.
    rewrite Rabs_R1.
    destruct (Rleb_spec (Rabs (S2of x4 0 1 - simp x4 0 1)) (15 * 1)) as [_|N]; [reflexivity|].
    exfalso. apply N. unfold S2of, simp, x4. apply Rabs_le. split; lra. }
  split; [exact W|].
  apply (error_bound_partial x4 0 1 1 24 1 1).
  - intros; apply x4_continuous.
  - now left.
  - lra.
  - intros u v _ _ _. exists 24. split; [lra|]. apply x4_remainder.
  - exact W.
Qed.
