(** * C16 model, part 2: the library's own observers of "transpose equals inverse":
    Matrix::Transpose(), Matrix::Square(), Matrix::Invertible(), Matrix::Inverse() (Gauss-Jordan elimination with partial
    pivoting on the augmented matrix), operator==(const Matrix&, const Matrix&), Matrix::Orthogonal() and Matrix::Norm()
    (src/Linear_Algebra.cpp).  Hand-written, one Gallina expression per C++ expression (same operation order, same
    comparisons); tied to the code by the operations `matinv`, `matorth`, `rotinv` of the differential check. *)
From Coq Require Import ZArith List Bool.
From LP Require Import Num C16_Model.
Import ListNotations.

Section C16_2.
Context {T : Type} (Ops : NumOps T).
Declare Scope num2_scope.
Local Notation "x + y" := (nadd Ops x y) : num2_scope.
Local Notation "x - y" := (nsub Ops x y) : num2_scope.
Local Notation "x * y" := (nmul Ops x y) : num2_scope.
Local Notation "x / y" := (ndiv Ops x y) : num2_scope.
Delimit Scope num2_scope with num2.
Local Open Scope num2_scope.
Let zero := n0 Ops.
Let one := n1 Ops.

(** Square(): rows == columns *)
Definition msquare (m : list (list T)) : bool := Nat.eqb (mrowsn m) (mcolsn m).

(** Invertible(): !Square() -> false; Determinant() != 0.0 (true for a NaN determinant) *)
Definition minvertible (m : list (list T)) : res bool :=
  if negb (msquare m) then Ok false
  else rbind (mdet Ops m) (fun d => Ok (nneb Ops d zero)).

(** the augmented matrix A(N, 2N): A[i][j] = components[i][j]; A[i][j + N] = (i == j) ? 1.0 : 0.0 *)
Definition maugment (m : list (list T)) : list (list T) :=
  let n := mrowsn m in
  map (fun i => map (fun j => mentry Ops m i j) (seq 0 n) ++ map (fun j => if Nat.eqb i j then one else zero) (seq 0 n)) (seq 0 n).

(** i_pivot = i; for j = i + 1 .. N - 1: if (fabs(A[j][i]) > fabs(A[i_pivot][i])) i_pivot = j *)
Definition pivot_row (a : list (list T)) (n i : nat) : nat :=
  fold_left (fun ip j => if ngtb Ops (nabs Ops (mentry Ops a j i)) (nabs Ops (mentry Ops a ip i)) then j else ip)
            (seq (S i) (n - S i)) i.

(** if (i_pivot != i) std::swap(A[i], A[i_pivot]) *)
Definition lset {A} (l : list A) (i : nat) (x : A) : list A := firstn i l ++ x :: skipn (S i) l.
Definition mswap (a : list (list T)) (i p : nat) : list (list T) :=
  if Nat.eqb p i then a else lset (lset a i (nth p a [])) p (nth i a []).

(** for j = 0 .. N - 1, j != i:  ratio = A[j][i] / A[i][i];  A[j][k] = A[j][k] - ratio * A[i][k] for every column k
    (row i itself is not touched by this loop, and ratio is read before row j changes) *)
Definition elim_rows (a : list (list T)) (n i : nat) : list (list T) :=
  let ri := nth i a [] in
  let piv := nth0 Ops ri i in
  map (fun p => if Nat.eqb i (fst p) then snd p
                else let ratio := nth0 Ops (snd p) i / piv in
                     map (fun q => fst q - ratio * snd q) (combine (snd p) ri))
      (combine (seq 0 n) a).

(** one pass of the outer loop: pivot search, swap, "Matrix is singular" exit for A[i][i] == 0, elimination *)
Definition gj_step (n : nat) (acc : res (list (list T))) (i : nat) : res (list (list T)) :=
  rbind acc (fun a =>
    let a1 := mswap a i (pivot_row a n i) in
    if neqb Ops (mentry Ops a1 i i) zero then Exit else Ok (elim_rows a1 n i)).

(** A[i][j] = A[i][j] / A[i][i] for j = N .. 2N - 1, then Delete_Column(0) N times: the right half, row i divided by A[i][i] *)
Definition gj_finish (a : list (list T)) (n : nat) : list (list T) :=
  map (fun p => let aii := nth0 Ops (snd p) (fst p) in map (fun x => x / aii) (skipn n (snd p))) (combine (seq 0 n) a).

(** Inverse(): !Square() exits, !Invertible() exits, otherwise Gauss-Jordan *)
Definition minverse (m : list (list T)) : res (list (list T)) :=
  if negb (msquare m) then Exit
  else rbind (minvertible m) (fun inv =>
    if negb inv then Exit
    else let n := mrowsn m in
         rbind (fold_left (gj_step n) (seq 0 n) (Ok (maugment m))) (fun a => Ok (gj_finish a n))).

(** operator==(const Matrix&, const Matrix&): shapes, then result = result && (M1[i][j] == M2[i][j]) *)
Definition meqb (a b : list (list T)) : bool :=
  if negb (Nat.eqb (mrowsn a) (mrowsn b)) || negb (Nat.eqb (mcolsn a) (mcolsn b)) then false
  else forallb (fun p => forallb (fun q => neqb Ops (fst q) (snd q)) (combine (fst p) (snd p))) (combine a b).

(** Orthogonal(): !Invertible() -> false; MT = Transpose(); Minv = Inverse(); MT == Minv *)
Definition morthogonal (m : list (list T)) : res bool :=
  rbind (minvertible m) (fun inv =>
    if negb inv then Ok false
    else let mt := mtranspose Ops m in rbind (minverse m) (fun minv => Ok (meqb mt minv))).

(** Norm(): sqrt of the sum of components[i][j]^2, rows ascending, columns ascending, from 0.0 *)
Definition mnorm (m : list (list T)) : T :=
  nsqrt Ops (fold_left (fun acc row => fold_left (fun acc2 x => acc2 + x * x) row acc) m zero).

(** Rotation_Matrix(alpha, dim, axis) asked Inverse(), Transpose(), Norm() (the harness asks the live object in this order) *)
Definition rotation_inverse (alpha : T) (dim : Z) (axis : list T) : res (list (list T) * list (list T) * T) :=
  rbind (rotation_matrix Ops alpha dim axis) (fun Rm => rbind (minverse Rm) (fun Ri => Ok (Ri, mtranspose Ops Rm, mnorm Rm))).

End C16_2.
