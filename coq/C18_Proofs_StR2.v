(** * C18 proofs, part 7 (reals): Sample_Metropolis_2D on a bounded domain with a re-entrant target density
    (section [ModelSt]): every returned point lies in the box, whatever the density does with the generator, as long
    as it leaves canonical uniforms (>= 0) behind.  The 2D counterpart of C18_Proofs_StR.v. *)
From Coq Require Import ZArith List Bool Lia Arith Reals Lra Psatz.
From LP Require Import Num NumR C18_Model C18_Proofs C18_Proofs_R C18_Proofs_St C18_Proofs_StR.
Import ListNotations.
Local Open Scope R_scope.

Section StR2.
Context {A : Type}.
Notation st := (@st R A).
Definition keeps_stream2 (PDF : @sfun2 R A) : Prop :=
  forall x y s v s', PDF x y s = Ok (v, s') -> stream_ok s -> stream_ok s'.

Lemma accept2_st_outside PDF x0 x1 y0 y1 x c (s : st) a s' :
  (fst c < x0 \/ x1 < fst c \/ snd c < y0 \/ y1 < snd c) ->
  accept2_st ROps PDF (Some (x0, x1, y0, y1)) x c s = Ok (a, s') -> a = 0 /\ s' = s.
Proof.
  intros Hy. unfold accept2_st, inside2, ngtb. cbn [nltb ROps n0].
  destruct (Rltb_spec (fst c) x0), (Rltb_spec x1 (fst c)), (Rltb_spec (snd c) y0), (Rltb_spec y1 (snd c));
    simpl orb; simpl negb; cbv iota; try (intros H; inversion H; now split); lra.
Qed.

Lemma accept2_st_ok PDF dom x c (s : st) a s' : keeps_stream2 PDF ->
  accept2_st ROps PDF dom x c s = Ok (a, s') -> stream_ok s -> stream_ok s'.
Proof.
  intros HP. unfold accept2_st. destruct (inside2 ROps dom c).
  - destruct (PDF (fst c) (snd c) s) as [[fc s1]| | |] eqn:E1; try discriminate; cbn [rbind fst snd].
    destruct (PDF (fst x) (snd x) s1) as [[fx s2]| | |] eqn:E2; try discriminate; cbn [rbind fst snd].
    intros H Hs; inversion H; subst. eapply HP; [exact E2|]. eapply HP; [exact E1|exact Hs].
  - intros H Hs; inversion H; subst; exact Hs.
Qed.

Lemma metro2_loop_st_in_domain PDF s1 s2 x0 x1 y0 y1 burn thin imax fuel : keeps_stream2 PDF ->
  forall (s : st) i x acc l s',
  stream_ok s -> in_box x0 x1 y0 y1 x -> Forall (in_box x0 x1 y0 y1) acc ->
  metro2_loop_st ROps fuel PDF s1 s2 (Some (x0, x1, y0, y1)) burn thin imax s i x acc = Ok (l, s') ->
  Forall (in_box x0 x1 y0 y1) l.
Proof.
  intros HP. induction fuel as [|fuel IH]; intros s i x acc l s' Hs Hx Hacc; cbn [metro2_loop_st];
    destruct (i <? imax)%Z; try discriminate;
    try (intros H; inversion H; subst; apply Forall_rev; assumption).
  destruct (draw s) as [[u1 t1]| | |] eqn:D1; try discriminate; cbn [rbind fst snd].
  destruct (draw_ok _ _ _ D1 Hs) as [Hu1 Ht1].
  destruct (gauss_of ROps u1 (fst x) s1) as [ca| | |]; try discriminate; cbn [rbind fst snd].
  destruct (draw t1) as [[u2 t2]| | |] eqn:D2; try discriminate; cbn [rbind fst snd].
  destruct (draw_ok _ _ _ D2 Ht1) as [Hu2 Ht2].
  destruct (gauss_of ROps u2 (snd x) s2) as [cb| | |]; try discriminate; cbn [rbind fst snd].
  destruct (accept2_st ROps PDF (Some (x0, x1, y0, y1)) x (ca, cb) t2) as [[a t3]| | |] eqn:EA; try discriminate; cbn [rbind fst snd].
  pose proof (accept2_st_ok _ _ _ _ _ _ _ HP EA Ht2) as Ht3.
  destruct (draw t3) as [[u3 t4]| | |] eqn:D3; try discriminate; cbn [rbind fst snd].
  destruct (draw_ok _ _ _ D3 Ht3) as [Hu3 Ht4].
  set (x' := if nltb ROps (unif ROps u3 (n0 ROps) (n1 ROps)) a then (ca, cb) else x).
  assert (Hx' : in_box x0 x1 y0 y1 x').
  { unfold x'. rewrite unif01_R. cbn [nltb ROps]. destruct (Rltb_spec u3 a) as [Hlt|]; [|assumption].
    unfold in_box; cbn [fst snd].
    destruct (Rlt_dec ca x0) as [H1|H1];
      [destruct (accept2_st_outside PDF x0 x1 y0 y1 x (ca, cb) t2 a t3 (or_introl H1) EA) as [-> _]; lra|].
    destruct (Rlt_dec x1 ca) as [H2|H2];
      [destruct (accept2_st_outside PDF x0 x1 y0 y1 x (ca, cb) t2 a t3 (or_intror (or_introl H2)) EA) as [-> _]; lra|].
    destruct (Rlt_dec cb y0) as [H3|H3];
      [destruct (accept2_st_outside PDF x0 x1 y0 y1 x (ca, cb) t2 a t3 (or_intror (or_intror (or_introl H3))) EA) as [-> _]; lra|].
    destruct (Rlt_dec y1 cb) as [H4|H4];
      [destruct (accept2_st_outside PDF x0 x1 y0 y1 x (ca, cb) t2 a t3 (or_intror (or_intror (or_intror H4))) EA) as [-> _]; lra|].
    lra. }
  intros H. eapply IH; [exact Ht4|exact Hx'| |exact H]. destruct (metro_keep burn thin i); [constructor|]; assumption.
Qed.

Theorem metropolis_2d_st_in_domain PDF s1 s2 sample thin burn x0 x1 y0 y1 (s : st) l s' :
  keeps_stream2 PDF -> x0 <= x1 -> y0 <= y1 -> Forall (fun u => 0 <= u < 1) (fst s) ->
  sample_metropolis_2d_st ROps PDF s1 s2 sample thin burn [x0; x1; y0; y1] s = Ok (l, s') ->
  Forall (fun p => x0 <= fst p <= x1 /\ y0 <= snd p <= y1) l.
Proof.
  intros HP Hdx Hdy Hus. unfold sample_metropolis_2d_st.
  destruct s as [[|u [|v r]] a]; simpl draw; try discriminate; cbn [rbind fst snd]; simpl draw; try discriminate.
  cbn [rbind fst snd].
  simpl in Hus. inversion Hus as [|? ? Hu Hus']; subst. inversion Hus' as [|? ? Hv Hus'']; subst.
  intros H. eapply metro2_loop_st_in_domain in H; [exact H|exact HP| | |constructor].
  - unfold stream_ok; simpl. eapply Forall_impl; [|exact Hus'']. intros; simpl in *; lra.
  - unfold in_box; cbn [fst snd]. destruct (unif_range u x0 x1 Hdx Hu) as (H1 & _). destruct (unif_range v y0 y1 Hdy Hv) as (H2 & _). split; assumption.
Qed.

(** non-vacuity: a density that draws one uniform from the sampler's own generator at every evaluation keeps the stream *)
Definition noisy2 : @sfun2 R A := fun x y s => match fst s with u :: r => Ok (x + y + u, (r, snd s)) | [] => Fuel end.
Example noisy2_keeps_stream : keeps_stream2 noisy2.
Proof.
  intros x y [us a] v s'. unfold noisy2, stream_ok. cbn [fst snd]. destruct us as [|u r]; [discriminate|].
  intros H Hs. inversion H; subst. cbn [fst]. inversion Hs; assumption.
Qed.
End StR2.
