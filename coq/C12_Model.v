(** * C12 model: Gauss-Legendre rules (src/Integration.cpp, section 1.2)
    Compute_Gauss_Legendre_Roots_and_Weights and the three Integrate_Gauss_Legendre overloads.
    Hand-written; tied to the code by the differential correspondence check (harness/C12.cpp vs the
    extraction of this file).  The model is factored as in the code's data flow:
      [gl_roots n]                 the Newton results (z_i, pp_i), i < m = (n+1)/2  (no interval involved)
      [gl_assemble n a b zs]       the affine map and the mirrored assignment into the n x 2 table
      [gl_rule n a b]              = assemble after roots. *)
From Coq Require Import ZArith List Bool.
From LP Require Import Num.
Import ListNotations.

Section GL.
Context {T : Type} (Ops : NumOps T).
Declare Scope num_scope.
Local Notation "x + y" := (nadd Ops x y) : num_scope.
Local Notation "x - y" := (nsub Ops x y) : num_scope.
Local Notation "x * y" := (nmul Ops x y) : num_scope.
Local Notation "x / y" := (ndiv Ops x y) : num_scope.
Delimit Scope num_scope with num.
Local Open Scope num_scope.

(** literals as the T-tie translator emits them: nlit Ops num den m e = the decimal num/den of the source token, the double m*2^e *)
Definition one : T := nlit Ops 1 1 1 0.
Definition zero : T := nlit Ops 0 1 0 0.
Definition two : T := nlit Ops 2 1 1 1.
Definition half : T := nlit Ops 1 2 1 (-1).
(** M_PI = 3.14159265358979323846 (math.h), the double 0x1.921fb54442d18p+1 *)
Definition m_pi : T := nlit Ops 314159265358979323846 100000000000000000000 7074237752028440 (-51).
(** double eps = 1.0e-14 *)
Definition gl_eps : T := nlit Ops 1 100000000000000 6338253001141147 (-99).

(** for(unsigned j = 0; j < n; j++) { p3 = p2; p2 = p1; p1 = ((2.0*j+1.0)*z*p2 - j*p3)/(j+1.0); }
    [cnt] = remaining iterations, [j] the loop counter; returns (p1, p2). *)
Fixpoint legendre (cnt : nat) (j : Z) (z p1 p2 : T) : T * T :=
  match cnt with
  | O => (p1, p2)
  | S c =>
      let p3 := p2 in
      let p2' := p1 in
      let J := nofZ Ops j in
      let p1' := ((two * J + one) * z * p2' - J * p3) / (J + one) in
      legendre c (j + 1)%Z z p1' p2'
  end.

(** while(true) { ...; pp = n*(z*p1-p2)/(z*z-1.0); z1 = z; z = z1 - p1/pp; if(fabs(z-z1) <= eps) break; }
    The source loop has no iteration cap: fuel exhaustion is [Fuel] (the real loop would still run). *)
Fixpoint newton (fuel : nat) (n : nat) (nT : T) (z : T) : res (T * T) :=
  match fuel with
  | O => Fuel
  | S f =>
      let '(p1, p2) := legendre n 0%Z z one zero in
      let pp := nT * (z * p1 - p2) / (z * z - one) in
      let z1 := z in
      let z' := z1 - p1 / pp in
      if nleb Ops (nabs Ops (z' - z1)) gl_eps then Ok (z', pp) else newton f n nT z'
  end.

Definition newton_fuel : nat := 100.

(** double z = cos(M_PI * (i + 0.75) / (n + 0.5)); *)
Definition gl_guess (nT : T) (i : Z) : T :=
  ncos Ops (m_pi * (nofZ Ops i + nlit Ops 3 4 3 (-2)) / (nT + half)).

(** for(int i = 0; i < m; i++): the pairs (z, pp) in the order i = 0 .. m-1 *)
Fixpoint gl_roots_from (cnt : nat) (i : Z) (n : nat) (nT : T) : res (list (T * T)) :=
  match cnt with
  | O => Ok []
  | S c =>
      rbind (newton newton_fuel n nT (gl_guess nT i)) (fun zp =>
      rbind (gl_roots_from c (i + 1)%Z n nT) (fun rest => Ok (zp :: rest)))
  end.

Definition gl_m (n : nat) : nat := Nat.div (n + 1) 2.
Definition gl_roots (n : nat) : res (list (T * T)) :=
  gl_roots_from (gl_m n) 0%Z n (nofZ Ops (Z.of_nat n)).

(** the table roots_and_weights: rows (node, weight) *)
Fixpoint upd {A} (l : list A) (i : nat) (f : A -> A) : list A :=
  match l, i with
  | [], _ => []
  | a :: l', O => f a :: l'
  | a :: l', S i' => a :: upd l' i' f
  end.

(** one pass of the outer loop body after the Newton iteration, in source order:
      rw[i][0] = x_middle - x_half_width*z;   rw[n-i-1][0] = x_middle + x_half_width*z;
      rw[i][1] = 2.0*x_half_width/((1.0-z*z)*pp*pp);   rw[n-i-1][1] = rw[i][1];
    (for odd n and i = (n-1)/2 the two indices coincide and the first node is overwritten) *)
Definition gl_store (n : nat) (xm hw : T) (tab : list (T * T)) (i : nat) (zp : T * T) : list (T * T) :=
  let z := fst zp in let pp := snd zp in
  let k := (n - i - 1)%nat in
  let t1 := upd tab i (fun r => (xm - hw * z, snd r)) in
  let t2 := upd t1 k (fun r => (xm + hw * z, snd r)) in
  let t3 := upd t2 i (fun r => (fst r, two * hw / ((one - z * z) * pp * pp))) in
  let wi := snd (nth i t3 (zero, zero)) in
  upd t3 k (fun r => (fst r, wi)).

Fixpoint gl_store_all (n : nat) (xm hw : T) (tab : list (T * T)) (i : nat) (zs : list (T * T)) : list (T * T) :=
  match zs with
  | [] => tab
  | zp :: rest => gl_store_all n xm hw (gl_store n xm hw tab i zp) (S i) rest
  end.

(** x_middle = 0.5 * x_max + 0.5 * x_min;  x_half_width = 0.5 * x_max - 0.5 * x_min  (halved first: the sum and the
    difference of the limits may exceed the largest double) *)
Definition gl_mid (xmin xmax : T) : T := half * xmax + half * xmin.
Definition gl_hw (xmin xmax : T) : T := half * xmax - half * xmin.

Definition gl_assemble (n : nat) (xmin xmax : T) (zs : list (T * T)) : list (T * T) :=
  gl_store_all n (gl_mid xmin xmax) (gl_hw xmin xmax) (repeat (zero, zero) n) 0 zs.

(** Compute_Gauss_Legendre_Roots_and_Weights(n, x_min, x_max): the table as the vector of two-entry rows
    {node, weight} the callers see *)
Definition rows_of (t : list (T * T)) : list (list T) := map (fun r => [fst r; snd r]) t.
Definition gl_rule (n : nat) (xmin xmax : T) : res (list (list T)) :=
  rbind (gl_roots n) (fun zs => Ok (rows_of (gl_assemble n xmin xmax zs))).

(** Integrate_Gauss_Legendre(function_values, roots_and_weights): exits when the two sizes differ, then
    when some row does not consist of exactly a root and a weight; integral += function_values[i] * rw[i][1] *)
Definition gl_integrate_values (vals : list T) (rw : list (list T)) : res T :=
  if negb (Nat.eqb (length vals) (length rw)) then Exit
  else if negb (forallb (fun r => Nat.eqb (length r) 2) rw) then Exit
  else Ok (fold_left (fun acc vr => acc + fst vr * nth0 Ops (snd vr) 1) (combine vals rw) zero).

(** Integrate_Gauss_Legendre(func, roots_and_weights): function_values[i] = func(rw[i][0]) is read before
    the row-size guard of the value overload; an empty row would be read out of bounds *)
Definition gl_integrate_fun (f : T -> T) (rw : list (list T)) : res T :=
  if negb (forallb (fun r => negb (Nat.eqb (length r) 0)) rw) then OOB
  else gl_integrate_values (map (fun r => f (nth0 Ops r 0)) rw) rw.

(** Integrate_Gauss_Legendre(func, a, b, sample_points) *)
Definition gl_integrate (f : T -> T) (a b : T) (n : nat) : res T :=
  rbind (gl_rule n a b) (fun rw => gl_integrate_fun f rw).

(** default arguments of the header: x_min = -1.0, x_max = 1.0; sample_points = 30 *)
Definition gl_rule_default (n : nat) : res (list (list T)) := gl_rule n (nneg Ops one) one.
Definition gl_integrate_default (f : T -> T) (a b : T) : res T := gl_integrate f a b 30.
(** ** Re-entrant use: the integrand itself calls the library (as Integrate_2D/3D do), may terminate the process
    through a guard of a call it makes, or may be a further nested integration.  An integrand is then a function
    [T -> res T]; the first non-returning evaluation ends the whole call (std::exit inside the integrand). *)
Fixpoint mapM {A B : Type} (f : A -> res B) (l : list A) : res (list B) :=
  match l with
  | [] => Ok []
  | a :: l' => rbind (f a) (fun b => rbind (mapM f l') (fun bs => Ok (b :: bs)))
  end.

(** Integrate_Gauss_Legendre(func, roots_and_weights) with such an integrand: function_values[i] = func(rw[i][0])
    for i = 0, 1, ... in this order (a fresh local vector per call), then the value overload *)
Definition gl_integrate_funM (f : T -> res T) (rw : list (list T)) : res T :=
  rbind (mapM (fun r => match r with [] => OOB | x :: _ => f x end) rw) (fun vals => gl_integrate_values vals rw).

(** how one level of a nested integration asks for its integral *)
Inductive gl_kind : Type :=
| KInt    (* Integrate_Gauss_Legendre(func, a, b, n) *)
| KFun    (* rule = Compute_...(n, a, b); Integrate_Gauss_Legendre(func, rule) *)
| KVal    (* rule = Compute_...(n, a, b); values[i] = func(rule[i][0]); Integrate_Gauss_Legendre(values, rule) *)
| KDef.   (* Integrate_Gauss_Legendre(func, a, b)  with the default sample_points = 30 *)

Definition gl_order (k : gl_kind) (n : nat) : nat := match k with KDef => 30%nat | _ => n end.

Definition gl_levelM (k : gl_kind) (n : nat) (a b : T) (f : T -> res T) : res T :=
  match k with
  | KInt => rbind (gl_rule n a b) (fun rw => gl_integrate_funM f rw)
  | KFun => rbind (gl_rule n a b) (fun rw => gl_integrate_funM f rw)
  | KVal => rbind (gl_rule n a b) (fun rw => rbind (mapM (fun r => f (nth0 Ops r 0)) rw) (fun vals => gl_integrate_values vals rw))
  | KDef => rbind (gl_rule 30 a b) (fun rw => gl_integrate_funM f rw)
  end.

(** a nested integration: level j integrates over x_j the value of the levels below it; the innermost integrand
    [core] sees all the variables (x_1, ..., x_d) and may itself be a call of the library (a guard probe) *)
Definition gl_lev : Type := (gl_kind * nat) * (T * T).
Fixpoint gl_nest (levs : list gl_lev) (core : list T -> res T) (xs : list T) : res T :=
  match levs with
  | [] => core xs
  | l :: rest => gl_levelM (fst (fst l)) (snd (fst l)) (fst (snd l)) (snd (snd l)) (fun x => gl_nest rest core (xs ++ [x]))
  end.

(** ** Integrands that throw.  A C++ integrand may leave by an exception; the library has no handler of its own, so the
    exception passes through every library frame (the local value vector is destroyed, no other state exists) up to the
    first handler, which may sit inside the integrand of an enclosing integration: that integrand then continues with a
    substitute value and the enclosing integration goes on.  An evaluation is [Ok (Some v)] (returned v), [Ok None]
    (an exception propagates) or a process-ending outcome. *)
Definition xlift {A : Type} (r : res A) : res (option A) := rbind r (fun a => Ok (Some a)).

Fixpoint mapX {A B : Type} (f : A -> res (option B)) (l : list A) : res (option (list B)) :=
  match l with
  | [] => Ok (Some [])
  | a :: l' =>
      rbind (f a) (fun ob =>
        match ob with
        | None => Ok None
        | Some b => rbind (mapX f l') (fun obs => match obs with None => Ok None | Some bs => Ok (Some (b :: bs)) end)
        end)
  end.

(** the value overload applied to the collected values, unless the collection was left by an exception *)
Definition gl_valuesX (ov : option (list T)) (rw : list (list T)) : res (option T) :=
  match ov with None => Ok None | Some vals => xlift (gl_integrate_values vals rw) end.

(** Integrate_Gauss_Legendre(func, roots_and_weights) with an integrand that may throw *)
Definition gl_integrate_funX (f : T -> res (option T)) (rw : list (list T)) : res (option T) :=
  rbind (mapX (fun r => match r with [] => OOB | x :: _ => f x end) rw) (fun ov => gl_valuesX ov rw).

(** try { v = <call>; } catch(...) { v = fallback; } around one call ([None]: no handler) *)
Definition gl_handle (h : option T) (r : res (option T)) : res (option T) :=
  match h, r with
  | Some fb, Ok None => Ok (Some fb)
  | _, _ => r
  end.

Definition gl_levelX (k : gl_kind) (n : nat) (a b : T) (h : option T) (f : T -> res (option T)) : res (option T) :=
  gl_handle h
    match k with
    | KInt => rbind (gl_rule n a b) (fun rw => gl_integrate_funX f rw)
    | KFun => rbind (gl_rule n a b) (fun rw => gl_integrate_funX f rw)
    | KVal => rbind (gl_rule n a b) (fun rw => rbind (mapX (fun r => f (nth0 Ops r 0)) rw) (fun ov => gl_valuesX ov rw))
    | KDef => rbind (gl_rule 30 a b) (fun rw => gl_integrate_funX f rw)
    end.

(** a nested integration whose levels may carry a handler: the call of level j is made, inside the integrand of level
    j-1, under the handler of level j *)
Definition gl_levX : Type := gl_lev * option T.
Fixpoint gl_nestX (levs : list gl_levX) (core : list T -> res (option T)) (xs : list T) : res (option T) :=
  match levs with
  | [] => core xs
  | l :: rest =>
      gl_levelX (fst (fst (fst l))) (snd (fst (fst l))) (fst (snd (fst l))) (snd (snd (fst l))) (snd l)
        (fun x => gl_nestX rest core (xs ++ [x]))
  end.
End GL.
