(** * C12 proofs: structure of the assembled Gauss-Legendre table, affine transport, moment checker *)
From Coq Require Import Reals ZArith List Bool Lia Lra Arith.
From Coquelicot Require Import Coquelicot.
From LP Require Import Num NumR C12_Model.
Import ListNotations.

(** ** Part 1: structural facts, any number type *)
Section Generic.
Context {T : Type} (Ops : NumOps T).

Lemma length_upd {A} (l : list A) i f : length (upd l i f) = length l.
Proof. revert i; induction l as [|a l IH]; intros [|i]; simpl; auto. Qed.

Lemma nth_upd {A} (l : list A) i f k d :
  nth k (upd l i f) d = if Nat.eqb k i && Nat.ltb k (length l) then f (nth k l d) else nth k l d.
Proof.
  revert i k; induction l as [|a l IH]; intros i k.
  - simpl. rewrite andb_false_r. destruct k; reflexivity.
  - destruct i as [|i]; destruct k as [|k]; simpl; auto.
    rewrite IH. reflexivity.
Qed.

(** the weight the code stores for the pair (z, pp) *)
Definition gl_w (hw : T) (zp : T * T) : T :=
  ndiv Ops (nmul Ops (two Ops) hw)
    (nmul Ops (nmul Ops (nsub Ops (one Ops) (nmul Ops (fst zp) (fst zp))) (snd zp)) (snd zp)).
Definition row_lo (xm hw : T) (zp : T * T) : T * T := (nsub Ops xm (nmul Ops hw (fst zp)), gl_w hw zp).
Definition row_hi (xm hw : T) (zp : T * T) : T * T := (nadd Ops xm (nmul Ops hw (fst zp)), gl_w hw zp).

Lemma length_gl_store n xm hw tab i zp : length (gl_store Ops n xm hw tab i zp) = length tab.
Proof. unfold gl_store. now rewrite !length_upd. Qed.

Lemma gl_store_nth n xm hw tab i zp k d : length tab = n -> (i < n)%nat ->
  nth k (gl_store Ops n xm hw tab i zp) d =
    if Nat.eqb k (n - i - 1) then row_hi xm hw zp
    else if Nat.eqb k i then row_lo xm hw zp
    else nth k tab d.
Proof.
  intros Hlen Hi. unfold gl_store, row_hi, row_lo, gl_w.
  rewrite !nth_upd, !length_upd, Hlen.
  assert (Hii : Nat.eqb i i = true) by apply Nat.eqb_refl.
  assert (Hlt : Nat.ltb i n = true) by (apply Nat.ltb_lt; lia).
  rewrite Hii, Hlt. cbn [andb].
  destruct (Nat.eqb_spec i (n - i - 1)) as [E|E]; cbn [andb snd fst].
  - (* middle row of an odd rule: both writes hit row i *)
    destruct (Nat.eqb_spec k (n - i - 1)) as [E1|E1].
    + assert (Hk : Nat.ltb k n = true) by (apply Nat.ltb_lt; lia).
      assert (Hki : Nat.eqb k i = true) by (apply Nat.eqb_eq; lia).
      rewrite Hk, Hki. cbn [andb fst snd]. reflexivity.
    + assert (Hki : Nat.eqb k i = false) by (apply Nat.eqb_neq; lia).
      rewrite Hki. cbn [andb]. reflexivity.
  - destruct (Nat.eqb_spec k (n - i - 1)) as [E1|E1].
    + assert (Hk : Nat.ltb k n = true) by (apply Nat.ltb_lt; lia).
      assert (Hki : Nat.eqb k i = false) by (apply Nat.eqb_neq; lia).
      rewrite Hk, Hki. cbn [andb fst snd]. reflexivity.
    + cbn [andb]. destruct (Nat.eqb_spec k i) as [E2|E2].
      * subst k. rewrite Hlt. cbn [andb fst snd]. reflexivity.
      * cbn [andb]. reflexivity.
Qed.

Ltac decide_atoms :=
  repeat match goal with
  | |- context [Nat.leb ?a ?b] =>
      first [ replace (Nat.leb a b) with true by (symmetry; apply Nat.leb_le; lia)
            | replace (Nat.leb a b) with false by (symmetry; apply Nat.leb_gt; lia) ]
  | |- context [Nat.ltb ?a ?b] =>
      first [ replace (Nat.ltb a b) with true by (symmetry; apply Nat.ltb_lt; lia)
            | replace (Nat.ltb a b) with false by (symmetry; apply Nat.ltb_ge; lia) ]
  | |- context [Nat.eqb ?a ?b] =>
      first [ replace (Nat.eqb a b) with true by (symmetry; apply Nat.eqb_eq; lia)
            | replace (Nat.eqb a b) with false by (symmetry; apply Nat.eqb_neq; lia) ]
  end.

Lemma length_gl_store_all n xm hw zs : forall tab i, length (gl_store_all Ops n xm hw tab i zs) = length tab.
Proof. induction zs as [|zp zs IH]; intros tab i; simpl; auto. now rewrite IH, length_gl_store. Qed.

(** rows written by the iterations i0 .. i0+|zs|-1 (no two iterations touch the same row as long as
    2*(i0+|zs|) <= n+1, which is m = (n+1)/2) *)
Lemma gl_store_all_nth n xm hw dz : forall zs tab i0 k d,
  length tab = n -> (2 * (i0 + length zs) <= n + 1)%nat -> (k < n)%nat ->
  nth k (gl_store_all Ops n xm hw tab i0 zs) d =
    if Nat.leb i0 (n - 1 - k) && Nat.ltb (n - 1 - k) (i0 + length zs) then row_hi xm hw (nth (n - 1 - k - i0) zs dz)
    else if Nat.leb i0 k && Nat.ltb k (i0 + length zs) then row_lo xm hw (nth (k - i0) zs dz)
    else nth k tab d.
Proof.
  induction zs as [|zp zs IH]; intros tab i0 k d Hlen Hm Hk.
  - simpl. rewrite Nat.add_0_r.
    assert (Nat.leb i0 (n - 1 - k) && Nat.ltb (n - 1 - k) i0 = false) as ->.
    { destruct (Nat.leb_spec i0 (n - 1 - k)), (Nat.ltb_spec (n - 1 - k) i0); simpl; auto; lia. }
    assert (Nat.leb i0 k && Nat.ltb k i0 = false) as ->.
    { destruct (Nat.leb_spec i0 k), (Nat.ltb_spec k i0); simpl; auto; lia. }
    reflexivity.
  - cbn [gl_store_all length]. cbn [length] in Hm.
    rewrite IH; [|now rewrite length_gl_store|lia|exact Hk].
    rewrite gl_store_nth by (auto; lia).
    destruct (lt_eq_lt_dec (n - 1 - k) i0) as [[Hj|Hj]|Hj];
    destruct (le_lt_dec (i0 + S (length zs)) (n - 1 - k)) as [Hj2|Hj2]; try lia;
    destruct (lt_eq_lt_dec k i0) as [[Hk1|Hk1]|Hk1];
    destruct (le_lt_dec (i0 + S (length zs)) k) as [Hk2|Hk2]; try lia;
    decide_atoms; cbn [andb];
    match goal with
    | |- ?x = ?x => reflexivity
    | |- ?r _ _ (nth ?Y _ _) = ?r _ _ (nth ?X (_ :: _) _) => replace X with (S Y) by lia; reflexivity
    | |- ?r _ _ ?z = ?r _ _ (nth ?X (?z :: _) _) => replace X with 0%nat by lia; reflexivity
    end.
Qed.

Lemma gl_m_bounds n : (1 <= n)%nat -> (1 <= gl_m n /\ 2 * gl_m n <= n + 1 /\ n <= 2 * gl_m n)%nat.
Proof.
  intros Hn. unfold gl_m.
  pose proof (Nat.div_mod (n + 1) 2 ltac:(lia)). pose proof (Nat.mod_upper_bound (n + 1) 2 ltac:(lia)). lia.
Qed.

Lemma length_gl_assemble n a b zs : length (gl_assemble Ops n a b zs) = n.
Proof. unfold gl_assemble. now rewrite length_gl_store_all, repeat_length. Qed.

(** closed form of the assembled table: row k is the mirrored (+) row of z_(n-1-k) when n-1-k < m, else
    the direct (-) row of z_k *)
Theorem gl_assemble_nth n a b zs k d dz : (1 <= n)%nat -> length zs = gl_m n -> (k < n)%nat ->
  nth k (gl_assemble Ops n a b zs) d =
    if Nat.ltb (n - 1 - k) (gl_m n) then row_hi (gl_mid Ops a b) (gl_hw Ops a b) (nth (n - 1 - k) zs dz)
    else row_lo (gl_mid Ops a b) (gl_hw Ops a b) (nth k zs dz).
Proof.
  intros Hn Hlen Hk. destruct (gl_m_bounds n Hn) as (H1 & H2 & H3).
  unfold gl_assemble. rewrite (gl_store_all_nth n _ _ dz) by (rewrite ?repeat_length, ?Hlen; lia).
  rewrite Hlen. cbn [Nat.leb andb]. rewrite !Nat.add_0_l, !Nat.sub_0_r.
  destruct (Nat.ltb_spec (n - 1 - k) (gl_m n)); [reflexivity|].
  assert (Nat.ltb k (gl_m n) = true) as -> by (apply Nat.ltb_lt; lia). reflexivity.
Qed.

(** the rule is assemble after roots, and the Newton stage yields exactly m pairs *)
Local Opaque newton.
Lemma length_gl_roots_from cnt : forall i n nT zs, gl_roots_from Ops cnt i n nT = Ok zs -> length zs = cnt.
Proof.
  induction cnt as [|c IH]; intros i n nT zs H; cbn [gl_roots_from] in H.
  - now inversion H.
  - destruct (newton Ops newton_fuel n nT (gl_guess Ops nT i)) as [zp| | |]; cbn [rbind] in H; try discriminate.
    destruct (gl_roots_from Ops c (i + 1)%Z n nT) as [rest| | |] eqn:E; cbn [rbind] in H; try discriminate.
    inversion H; subst. cbn [length]. f_equal. eapply IH; eauto.
Qed.

Local Transparent newton.
Theorem gl_rule_factor n a b rw : gl_rule Ops n a b = Ok rw ->
  exists zs, gl_roots Ops n = Ok zs /\ length zs = gl_m n /\ rw = rows_of (gl_assemble Ops n a b zs).
Proof.
  unfold gl_rule. destruct (gl_roots Ops n) as [zs| | |] eqn:E; cbn [rbind]; intros H; try discriminate.
  exists zs. split; [reflexivity|]. split; [|now inversion H].
  unfold gl_roots in E. eapply length_gl_roots_from; eauto.
Qed.

(** *** the three overloads *)
(** a table every row of which consists of exactly a root and a weight *)
Definition two_col (rw : list (list T)) : bool := forallb (fun r => Nat.eqb (length r) 2) rw.
(** the weighted sum in the order the code accumulates it *)
Definition wsum (f : T -> T) (rw : list (list T)) : T :=
  fold_left (fun acc r => nadd Ops acc (nmul Ops (f (nth0 Ops r 0)) (nth0 Ops r 1))) rw (zero Ops).

Lemma two_col_rows_of t : two_col (rows_of t) = true.
Proof. unfold two_col, rows_of. induction t as [|r t IH]; simpl; auto. Qed.

Lemma two_col_nonempty rw : two_col rw = true -> forallb (fun r => negb (Nat.eqb (length r) 0)) rw = true.
Proof.
  unfold two_col. induction rw as [|r rw IH]; simpl; auto.
  intros H. apply andb_prop in H. destruct H as [H1 H2]. rewrite (IH H2).
  apply Nat.eqb_eq in H1. rewrite H1. reflexivity.
Qed.

Lemma fold_combine_map (g : list T -> T) (rw : list (list T)) : forall acc,
  fold_left (fun acc vr => nadd Ops acc (nmul Ops (fst vr) (nth0 Ops (snd vr) 1))) (combine (map g rw) rw) acc =
  fold_left (fun acc r => nadd Ops acc (nmul Ops (g r) (nth0 Ops r 1))) rw acc.
Proof. induction rw as [|r rw IH]; intros acc; simpl; auto. Qed.

Theorem gl_integrate_fun_ok (f : T -> T) rw : two_col rw = true -> gl_integrate_fun Ops f rw = Ok (wsum f rw).
Proof.
  intros H. unfold gl_integrate_fun, gl_integrate_values.
  rewrite (two_col_nonempty rw H). cbn [negb].
  rewrite map_length, Nat.eqb_refl. cbn [negb].
  unfold two_col in H. rewrite H. cbn [negb].
  f_equal. apply (fold_combine_map (fun r => f (nth0 Ops r 0))).
Qed.

(** The function overload is the value overload applied to the function values at the nodes, the interval
    overload is the function overload applied to the computed rule, and on every two-column table (in
    particular every computed rule) all three return the same weighted sum and never reach a guard. *)
Theorem overloads_agree (f : T -> T) (a b : T) (n : nat) :
  gl_integrate Ops f a b n = rbind (gl_rule Ops n a b) (fun rw => gl_integrate_fun Ops f rw) /\
  (forall rw, two_col rw = true ->
     gl_integrate_fun Ops f rw = gl_integrate_values Ops (map (fun r => f (nth0 Ops r 0)) rw) rw /\
     gl_integrate_fun Ops f rw = Ok (wsum f rw)) /\
  (forall rw, gl_rule Ops n a b = Ok rw ->
     gl_integrate Ops f a b n = Ok (wsum f rw) /\
     gl_integrate_fun Ops f rw = Ok (wsum f rw) /\
     gl_integrate_values Ops (map (fun r => f (nth0 Ops r 0)) rw) rw = Ok (wsum f rw)).
Proof.
  split; [reflexivity|]. split.
  - intros rw H. split; [|apply gl_integrate_fun_ok; exact H].
    unfold gl_integrate_fun. now rewrite (two_col_nonempty rw H).
  - intros rw H.
    assert (Hc : two_col rw = true).
    { destruct (gl_rule_factor n a b rw H) as (zs & _ & _ & ->). apply two_col_rows_of. }
    pose proof (gl_integrate_fun_ok f rw Hc) as Hf.
    split; [|split].
    + unfold gl_integrate. rewrite H. simpl. exact Hf.
    + exact Hf.
    + rewrite <- Hf. unfold gl_integrate_fun. now rewrite (two_col_nonempty rw Hc).
Qed.

(** mismatched value and rule lengths are rejected (and so are malformed rows); everything else returns *)
Theorem size_mismatch_exits (vals : list T) (rw : list (list T)) :
  (length vals <> length rw -> gl_integrate_values Ops vals rw = Exit) /\
  (two_col rw = false -> gl_integrate_values Ops vals rw = Exit) /\
  (length vals = length rw -> two_col rw = true -> exists v, gl_integrate_values Ops vals rw = Ok v).
Proof.
  unfold gl_integrate_values, two_col. split; [|split].
  - intros H. apply Nat.eqb_neq in H. now rewrite H.
  - intros H. rewrite H. destruct (Nat.eqb (length vals) (length rw)); reflexivity.
  - intros H H2. apply Nat.eqb_eq in H. rewrite H, H2. simpl. eauto.
Qed.
(** *** re-entrant integrands and nested integrations *)
Lemma rbind_ext {A B} (x : res A) (f g : A -> res B) : (forall a, f a = g a) -> rbind x f = rbind x g.
Proof. intros H. destruct x; simpl; auto. Qed.

Lemma mapM_ext {A B} (f g : A -> res B) l : (forall a, In a l -> f a = g a) -> mapM f l = mapM g l.
Proof.
  induction l as [|a l IH]; intros H; simpl; auto.
  rewrite (H a (or_introl eq_refl)). apply rbind_ext. intros b.
  rewrite IH; auto. intros c Hc. apply H. now right.
Qed.

Lemma mapM_pure {A B} (f : A -> B) l : mapM (fun a => Ok (f a)) l = Ok (map f l).
Proof. induction l as [|a l IH]; simpl; auto. now rewrite IH. Qed.

Lemma two_col_In rw r : two_col rw = true -> In r rw -> length r = 2%nat.
Proof.
  unfold two_col. intros H Hr. rewrite forallb_forall in H. apply Nat.eqb_eq. now apply H.
Qed.

(** on a two-column table the (func, rule) overload hands the value overload func(rw[i][0]), i = 0, 1, ... *)
Lemma funM_two_col (f : T -> res T) rw : two_col rw = true ->
  gl_integrate_funM Ops f rw = rbind (mapM (fun r => f (nth0 Ops r 0)) rw) (fun vals => gl_integrate_values Ops vals rw).
Proof.
  intros H. unfold gl_integrate_funM. f_equal. apply mapM_ext. intros r Hr.
  pose proof (two_col_In rw r H Hr) as L. destruct r; [discriminate|reflexivity].
Qed.

(** an integrand that always returns is the plain (func, rule) overload *)
Theorem funM_pure (f : T -> T) rw : gl_integrate_funM Ops (fun x => Ok (f x)) rw = gl_integrate_fun Ops f rw.
Proof.
  unfold gl_integrate_funM, gl_integrate_fun.
  assert (E : mapM (fun r : list T => match r with [] => OOB | x :: _ => Ok (f x) end) rw =
              if forallb (fun r => negb (Nat.eqb (length r) 0)) rw then Ok (map (fun r => f (nth0 Ops r 0)) rw) else OOB).
  { induction rw as [|r rw IH]; simpl; auto. destruct r as [|x r]; simpl; auto. rewrite IH.
    destruct (forallb _ rw); reflexivity. }
  rewrite E. destruct (forallb _ rw); reflexivity.
Qed.

Lemma gl_rule_two_col n a b rw : gl_rule Ops n a b = Ok rw -> two_col rw = true /\ length rw = n.
Proof.
  intros H. destruct (gl_rule_factor n a b rw H) as (zs & _ & _ & ->). split; [apply two_col_rows_of|].
  unfold rows_of. rewrite map_length. apply length_gl_assemble.
Qed.

(** every way of asking for one level's integral is: compute the rule of the level's order, evaluate the
    integrand at the nodes in order, form the weighted sum *)
Lemma levelM_canon k n a b (f : T -> res T) :
  gl_levelM Ops k n a b f =
  rbind (gl_rule Ops (gl_order k n) a b) (fun rw =>
    rbind (mapM (fun r => f (nth0 Ops r 0)) rw) (fun vals => gl_integrate_values Ops vals rw)).
Proof.
  destruct k; cbn [gl_levelM gl_order]; try reflexivity;
  (destruct (gl_rule Ops _ a b) as [rw| | |] eqn:E; cbn [rbind]; auto;
   apply funM_two_col; eapply gl_rule_two_col; eauto).
Qed.

Lemma levelM_ext k n a b (f g : T -> res T) : (forall x, f x = g x) -> gl_levelM Ops k n a b f = gl_levelM Ops k n a b g.
Proof.
  intros H. rewrite !levelM_canon. apply rbind_ext. intros rw. f_equal. apply mapM_ext. intros r _. apply H.
Qed.

(** two descriptions of the same nested integration: level by level the same order and the same limits,
    whatever overloads are used *)
Definition lev_same (l l' : @gl_lev T) : Prop :=
  gl_order (fst (fst l)) (snd (fst l)) = gl_order (fst (fst l')) (snd (fst l')) /\ snd l = snd l'.

Theorem nest_overloads_agree (core : list T -> res T) levs levs' : Forall2 lev_same levs levs' ->
  forall xs, gl_nest Ops levs core xs = gl_nest Ops levs' core xs.
Proof.
  induction 1 as [|l l' levs levs' [Ho Hl] _ IH]; intros xs; cbn [gl_nest]; auto.
  rewrite !levelM_canon. rewrite Ho, Hl. apply rbind_ext. intros rw. f_equal. apply mapM_ext. intros r _. apply IH.
Qed.

(** depth one with an integrand that always returns is the plain interval overload *)
Theorem nest_depth_one (f : T -> T) n a b :
  gl_nest Ops [((KInt, n), (a, b))] (fun xs => Ok (f (nth0 Ops xs 0))) [] = gl_integrate Ops f a b n.
Proof.
  cbn [gl_nest gl_levelM fst snd app]. unfold gl_integrate. apply rbind_ext. intros rw.
  rewrite <- funM_pure. reflexivity.
Qed.

(** a guard reached by the innermost integrand ends the whole nest, however deep and through whichever
    overloads (every level has at least one node) *)
Theorem nest_exit_propagates (core : list T -> res T) levs : (forall xs, core xs = Exit) ->
  List.Forall (fun l : @gl_lev T => exists rw, gl_rule Ops (gl_order (fst (fst l)) (snd (fst l))) (fst (snd l)) (snd (snd l)) = Ok rw /\ rw <> []) levs ->
  forall xs, gl_nest Ops levs core xs = Exit.
Proof.
  intros Hc. induction 1 as [|l levs (rw & Hr & Hne) _ IH]; intros xs; cbn [gl_nest]; auto.
  rewrite levelM_canon, Hr. cbn [rbind]. destruct rw as [|r rw]; [congruence|].
  cbn [mapM]. rewrite IH. reflexivity.
Qed.
(** *** integrands that throw, handlers inside enclosing integrands *)
Lemma mapX_ext {A B} (f g : A -> res (option B)) l : (forall a, In a l -> f a = g a) -> mapX f l = mapX g l.
Proof.
  induction l as [|a l IH]; intros H; simpl; auto.
  rewrite (H a (or_introl eq_refl)). apply rbind_ext. intros [b|]; auto.
  rewrite IH; auto. intros c Hc. apply H. now right.
Qed.

(** an integrand that never throws: the collection of values is the one of the exception-free model *)
Lemma mapX_lift {A B} (f : A -> res B) l : mapX (fun a => xlift (f a)) l = xlift (mapM f l).
Proof.
  induction l as [|a l IH]; simpl; auto.
  destruct (f a) as [b| | |]; simpl; auto. rewrite IH. destruct (mapM f l); reflexivity.
Qed.

Lemma funX_two_col (f : T -> res (option T)) rw : two_col rw = true ->
  gl_integrate_funX Ops f rw = rbind (mapX (fun r => f (nth0 Ops r 0)) rw) (fun ov => gl_valuesX Ops ov rw).
Proof.
  intros H. unfold gl_integrate_funX. f_equal. apply mapX_ext. intros r Hr.
  pose proof (two_col_In rw r H Hr) as L. destruct r; [discriminate|reflexivity].
Qed.

(** every way of asking for one level's integral under a handler: compute the rule, evaluate the integrand at the nodes
    in order until one evaluation does not return, form the weighted sum, apply the handler *)
Lemma levelX_canon k n a b h (f : T -> res (option T)) :
  gl_levelX Ops k n a b h f =
  gl_handle h (rbind (gl_rule Ops (gl_order k n) a b) (fun rw =>
    rbind (mapX (fun r => f (nth0 Ops r 0)) rw) (fun ov => gl_valuesX Ops ov rw))).
Proof.
  unfold gl_levelX. f_equal.
  destruct k; cbn [gl_order]; try reflexivity;
  (destruct (gl_rule Ops _ a b) as [rw| | |] eqn:E; cbn [rbind]; auto;
   apply funX_two_col; eapply gl_rule_two_col; eauto).
Qed.

Lemma levelX_ext k n a b h (f g : T -> res (option T)) : (forall x, f x = g x) ->
  gl_levelX Ops k n a b h f = gl_levelX Ops k n a b h g.
Proof.
  intros H. rewrite !levelX_canon. f_equal. apply rbind_ext. intros rw. f_equal. apply mapX_ext. intros r _. apply H.
Qed.

Lemma handle_lift (h : option T) (r : res T) : gl_handle h (xlift r) = xlift r.
Proof. destruct h, r; reflexivity. Qed.

(** a level whose integrand never throws is the level of the exception-free model, handler or not *)
Lemma levelX_lift k n a b h (f : T -> res T) :
  gl_levelX Ops k n a b h (fun x => xlift (f x)) = xlift (gl_levelM Ops k n a b f).
Proof.
  rewrite levelX_canon, levelM_canon.
  replace (rbind (gl_rule Ops (gl_order k n) a b) (fun rw =>
             rbind (mapX (fun r => xlift (f (nth0 Ops r 0))) rw) (fun ov => gl_valuesX Ops ov rw)))
    with (xlift (rbind (gl_rule Ops (gl_order k n) a b) (fun rw =>
             rbind (mapM (fun r => f (nth0 Ops r 0)) rw) (fun vals => gl_integrate_values Ops vals rw)))).
  - apply handle_lift.
  - destruct (gl_rule Ops (gl_order k n) a b) as [rw| | |]; cbn [rbind xlift]; auto.
    rewrite (mapX_lift (fun r => f (nth0 Ops r 0)) rw).
    destruct (mapM (fun r => f (nth0 Ops r 0)) rw); reflexivity.
Qed.

(** refinement: without exceptions the nest with handlers is the nest of the exception-free model (the handlers are
    never used) *)
Theorem nestX_pure (core : list T -> res T) levs : forall xs,
  gl_nestX Ops levs (fun ys => xlift (core ys)) xs = xlift (gl_nest Ops (map fst levs) core xs).
Proof.
  induction levs as [|l levs IH]; intros xs; cbn [gl_nestX gl_nest map]; auto.
  rewrite <- (levelX_lift _ _ _ _ (snd l)). apply levelX_ext. intros x. apply IH.
Qed.

Definition levX_same (l l' : @gl_levX T) : Prop := lev_same (fst l) (fst l') /\ snd l = snd l'.

(** the overloads agree at every depth also when evaluations throw and handlers intervene *)
Theorem nestX_overloads_agree (core : list T -> res (option T)) levs levs' : Forall2 levX_same levs levs' ->
  forall xs, gl_nestX Ops levs core xs = gl_nestX Ops levs' core xs.
Proof.
  induction 1 as [|l l' levs levs' [[Ho Hl] Hh] _ IH]; intros xs; cbn [gl_nestX]; auto.
  rewrite !levelX_canon. rewrite Ho, Hl, Hh. f_equal. apply rbind_ext. intros rw. f_equal. apply mapX_ext. intros r _. apply IH.
Qed.

(** a level under a handler never lets an exception out; without a handler the outcome is unchanged *)
Theorem levelX_handled k n a b fb (f : T -> res (option T)) :
  ~ (gl_levelX Ops k n a b (Some fb) f = Ok None) /\
  (gl_levelX Ops k n a b None f = Ok None -> gl_levelX Ops k n a b (Some fb) f = Ok (Some fb)) /\
  (~ (gl_levelX Ops k n a b None f = Ok None) -> gl_levelX Ops k n a b (Some fb) f = gl_levelX Ops k n a b None f).
Proof.
  rewrite !levelX_canon. set (r := rbind _ _). unfold gl_handle.
  destruct r as [[v|]| | |]; repeat split; try congruence; intros H; try reflexivity; congruence.
Qed.

(** an exception thrown by the innermost integrand leaves every level that has no handler (each has a node) *)
Definition lev_ok (l : @gl_lev T) : Prop :=
  exists rw, gl_rule Ops (gl_order (fst (fst l)) (snd (fst l))) (fst (snd l)) (snd (snd l)) = Ok rw /\ rw <> [].

Theorem nestX_throw_propagates (core : list T -> res (option T)) levs : (forall xs, core xs = Ok None) ->
  List.Forall (fun l : @gl_levX T => lev_ok (fst l) /\ snd l = None) levs ->
  forall xs, gl_nestX Ops levs core xs = Ok None.
Proof.
  intros Hc. induction 1 as [|l levs [(rw & Hr & Hne) Hh] _ IH]; intros xs; cbn [gl_nestX]; auto.
  rewrite levelX_canon, Hr, Hh. cbn [rbind gl_handle]. destruct rw as [|r rw]; [congruence|].
  cbn [mapX]. rewrite IH. reflexivity.
Qed.

(** a failed inner integration that is handled counts as its substitute value and nothing else: if the integrand of
    the levels [inner] below a handler throws, then the nest equals the nest of the levels [outer] above the handler
    applied to the constant substitute, whatever was evaluated inside the failed calls *)
Theorem nestX_handled_failure (core : list T -> res (option T)) outer l fb inner :
  (forall xs, core xs = Ok None) -> lev_ok l ->
  List.Forall (fun l : @gl_levX T => lev_ok (fst l) /\ snd l = None) inner ->
  forall xs, gl_nestX Ops (outer ++ (l, Some fb) :: inner) core xs = gl_nestX Ops outer (fun _ => Ok (Some fb)) xs.
Proof.
  intros Hc (rw & Hr & Hne) Hin. induction outer as [|o outer IH]; intros xs.
  - cbn [app gl_nestX fst snd]. rewrite levelX_canon, Hr. cbn [rbind]. destruct rw as [|r rw]; [congruence|].
    cbn [mapX]. rewrite (nestX_throw_propagates core inner Hc Hin). reflexivity.
  - cbn [app gl_nestX]. apply levelX_ext. intros x. apply IH.
Qed.
End Generic.

(** ** Part 2: the real-number instance *)
Local Open Scope R_scope.

Definition node (n : nat) (a b : R) (zs : list (R * R)) (i : nat) : R := fst (nth i (gl_assemble ROps n a b zs) (0, 0)).
Definition weight (n : nat) (a b : R) (zs : list (R * R)) (i : nat) : R := snd (nth i (gl_assemble ROps n a b zs) (0, 0)).
Definition zval (zs : list (R * R)) (i : nat) : R := fst (nth i zs (0, 0)).
Definition wref (zp : R * R) : R := 2 / ((1 - fst zp * fst zp) * snd zp * snd zp).

Lemma mid_R a b : gl_mid ROps a b = (a + b) / 2.
Proof. unfold gl_mid, half, ndec. cbn. lra. Qed.
Lemma hw_R a b : gl_hw ROps a b = (b - a) / 2.
Proof. unfold gl_hw, half, ndec. cbn. lra. Qed.
Lemma gl_w_R hw zp : gl_w ROps hw zp = hw * wref zp.
Proof. unfold gl_w, wref, two, one. cbn. unfold Rdiv. rewrite ?Rinv_1, ?Rmult_1_r. ring. Qed.

(** row i in closed form over R *)
Lemma row_R n a b zs i : (1 <= n)%nat -> length zs = gl_m n -> (i < n)%nat ->
  (node n a b zs i, weight n a b zs i) =
    if Nat.ltb (n - 1 - i) (gl_m n)
    then ((a + b) / 2 + (b - a) / 2 * zval zs (n - 1 - i), (b - a) / 2 * wref (nth (n - 1 - i) zs (0, 0)))
    else ((a + b) / 2 - (b - a) / 2 * zval zs i, (b - a) / 2 * wref (nth i zs (0, 0))).
Proof.
  intros Hn Hl Hi. unfold node, weight, zval.
  rewrite (gl_assemble_nth ROps n a b zs i (0, 0) (0, 0) Hn Hl Hi).
  destruct (Nat.ltb (n - 1 - i) (gl_m n)); unfold row_hi, row_lo; cbn [fst snd];
    rewrite gl_w_R, mid_R, hw_R; cbn; reflexivity.
Qed.

Lemma row_R_node n a b zs i : (1 <= n)%nat -> length zs = gl_m n -> (i < n)%nat ->
  node n a b zs i = if Nat.ltb (n - 1 - i) (gl_m n) then (a + b) / 2 + (b - a) / 2 * zval zs (n - 1 - i)
                    else (a + b) / 2 - (b - a) / 2 * zval zs i.
Proof. intros Hn Hl Hi. pose proof (row_R n a b zs i Hn Hl Hi) as H. destruct (Nat.ltb _ _); now inversion H. Qed.
Lemma row_R_weight n a b zs i : (1 <= n)%nat -> length zs = gl_m n -> (i < n)%nat ->
  weight n a b zs i = if Nat.ltb (n - 1 - i) (gl_m n) then (b - a) / 2 * wref (nth (n - 1 - i) zs (0, 0))
                      else (b - a) / 2 * wref (nth i zs (0, 0)).
Proof. intros Hn Hl Hi. pose proof (row_R n a b zs i Hn Hl Hi) as H. destruct (Nat.ltb _ _); now inversion H. Qed.

(** *** nodes_weights_symmetric *)
Theorem nodes_weights_symmetric n a b zs : (1 <= n)%nat -> length zs = gl_m n ->
  length (gl_assemble ROps n a b zs) = n /\
  (forall i, (i < n)%nat -> i <> (n - 1 - i)%nat -> node n a b zs i + node n a b zs (n - 1 - i) = a + b) /\
  (forall i, (i < n)%nat -> weight n a b zs i = weight n a b zs (n - 1 - i)) /\
  (Nat.odd n = true ->
     let mid := ((n - 1) / 2)%nat in
     mid = (n - 1 - mid)%nat /\
     node n a b zs mid = (a + b) / 2 + (b - a) / 2 * zval zs mid /\
     (node n a b zs mid + node n a b zs (n - 1 - mid) = a + b <-> (b - a) * zval zs mid = 0)).
Proof.
  intros Hn Hl. destruct (gl_m_bounds n Hn) as (H1 & H2 & H3).
  split; [apply length_gl_assemble|]. split; [|split].
  - intros i Hi Hne.
    rewrite (row_R_node n a b zs i), (row_R_node n a b zs (n - 1 - i)) by (auto; lia).
    replace (n - 1 - (n - 1 - i))%nat with i by lia.
    destruct (Nat.ltb_spec (n - 1 - i) (gl_m n)), (Nat.ltb_spec i (gl_m n)); try lia; lra.
  - intros i Hi.
    rewrite (row_R_weight n a b zs i), (row_R_weight n a b zs (n - 1 - i)) by (auto; lia).
    replace (n - 1 - (n - 1 - i))%nat with i by lia.
    destruct (Nat.ltb_spec (n - 1 - i) (gl_m n)), (Nat.ltb_spec i (gl_m n)); try lia; try reflexivity.
    replace (n - 1 - i)%nat with i by lia. reflexivity.
  - intros Hodd mid.
    assert (Hmid : (n = 2 * mid + 1)%nat).
    { unfold mid. apply Nat.odd_spec in Hodd. destruct Hodd as [q Hq]. subst n.
      replace (2 * q + 1 - 1)%nat with (q * 2)%nat by lia. rewrite Nat.div_mul by lia. lia. }
    assert (Hm : mid = (n - 1 - mid)%nat) by lia.
    split; [exact Hm|].
    assert (Hnode : node n a b zs mid = (a + b) / 2 + (b - a) / 2 * zval zs mid).
    { rewrite (row_R_node n a b zs mid) by (auto; lia).
      rewrite <- Hm. assert (Nat.ltb mid (gl_m n) = true) as -> by (apply Nat.ltb_lt; lia). reflexivity. }
    split; [exact Hnode|]. rewrite <- Hm, Hnode. split; intros; lra.
Qed.

(** *** reversed_is_mirror *)
Theorem reversed_is_mirror n a b zs : (1 <= n)%nat -> length zs = gl_m n ->
  forall i, (i < n)%nat ->
    node n b a zs i = (a + b) - node n a b zs i /\
    weight n b a zs i = - weight n a b zs i /\
    (i <> (n - 1 - i)%nat -> node n b a zs i = node n a b zs (n - 1 - i) /\ weight n b a zs i = - weight n a b zs (n - 1 - i)).
Proof.
  intros Hn Hl i Hi. destruct (gl_m_bounds n Hn) as (H1 & H2 & H3).
  rewrite (row_R_node n b a zs i), (row_R_node n a b zs i), (row_R_weight n b a zs i), (row_R_weight n a b zs i) by auto.
  split; [|split].
  - destruct (Nat.ltb (n - 1 - i) (gl_m n)); lra.
  - destruct (Nat.ltb (n - 1 - i) (gl_m n)); lra.
  - intros Hne. rewrite (row_R_node n a b zs (n - 1 - i)), (row_R_weight n a b zs (n - 1 - i)) by (auto; lia).
    replace (n - 1 - (n - 1 - i))%nat with i by lia.
    destruct (Nat.ltb_spec (n - 1 - i) (gl_m n)), (Nat.ltb_spec i (gl_m n)); try lia; split; lra.
Qed.

(** *** affine_transport *)
Theorem affine_transport n a b zs : (1 <= n)%nat -> length zs = gl_m n ->
  forall i, (i < n)%nat ->
    node n a b zs i = (a + b) / 2 + (b - a) / 2 * node n (-1) 1 zs i /\
    weight n a b zs i = (b - a) / 2 * weight n (-1) 1 zs i.
Proof.
  intros Hn Hl i Hi.
  rewrite (row_R_node n a b zs i), (row_R_node n (-1) 1 zs i), (row_R_weight n a b zs i), (row_R_weight n (-1) 1 zs i) by auto.
  destruct (Nat.ltb (n - 1 - i) (gl_m n)); split; lra.
Qed.

(** the rule applied to an integrand, as the code accumulates it *)
Definition rule_sum (f : R -> R) (t : list (R * R)) : R := wsum ROps f (rows_of t).
Definition rs (f : R -> R) (rw : list (R * R)) : R := fold_right (fun r acc => f (fst r) * snd r + acc) 0 rw.

Lemma fold_left_acc (g : R * R -> R) rw : forall acc,
  fold_left (fun acc r => acc + g r) rw acc = acc + fold_right (fun r s => g r + s) 0 rw.
Proof. induction rw as [|r rw IH]; intros acc; simpl; [lra|]. rewrite IH. lra. Qed.

Lemma fold_left_map {A B C} (g : A -> B) (h : C -> B -> C) (l : list A) : forall acc,
  fold_left h (map g l) acc = fold_left (fun c a => h c (g a)) l acc.
Proof. induction l as [|a l IH]; intros acc; simpl; auto. Qed.

Lemma rule_sum_rs f rw : rule_sum f rw = rs f rw.
Proof.
  unfold rule_sum, wsum, rs, zero, rows_of. rewrite fold_left_map. cbn.
  rewrite (fold_left_acc (fun r => f (fst r) * snd r)). lra.
Qed.

Lemma rs_ext f g rw : (forall t, f t = g t) -> rs f rw = rs g rw.
Proof. intros H. induction rw as [|r rw IH]; simpl; [reflexivity|]. now rewrite IH, H. Qed.

Lemma gl_integrate_fun_R f t : gl_integrate_fun ROps f (rows_of t) = Ok (rule_sum f t).
Proof. apply gl_integrate_fun_ok, two_col_rows_of. Qed.

Lemma assemble_affine_map n a b zs : (1 <= n)%nat -> length zs = gl_m n ->
  gl_assemble ROps n a b zs =
  map (fun r => ((a + b) / 2 + (b - a) / 2 * fst r, (b - a) / 2 * snd r)) (gl_assemble ROps n (-1) 1 zs).
Proof.
  intros Hn Hl. set (g := fun r : R * R => ((a + b) / 2 + (b - a) / 2 * fst r, (b - a) / 2 * snd r)).
  apply (nth_ext _ _ (0, 0) (g (0, 0))).
  - now rewrite map_length, !length_gl_assemble.
  - intros i Hi. rewrite length_gl_assemble in Hi.
    rewrite (map_nth g).
    destruct (affine_transport n a b zs Hn Hl i Hi) as [E1 E2]. unfold node, weight in E1, E2.
    rewrite (surjective_pairing (nth i (gl_assemble ROps n a b zs) (0, 0))). unfold g. now rewrite E1, E2.
Qed.

Lemma rs_map_affine f u v rw :
  rs f (map (fun r => (v + u * fst r, u * snd r)) rw) = u * rs (fun t => f (v + u * t)) rw.
Proof. induction rw as [|r rw IH]; simpl; [lra|]. rewrite IH. lra. Qed.

Lemma rule_sum_affine f n a b zs : (1 <= n)%nat -> length zs = gl_m n ->
  rule_sum f (gl_assemble ROps n a b zs) =
  (b - a) / 2 * rule_sum (fun t => f ((a + b) / 2 + (b - a) / 2 * t)) (gl_assemble ROps n (-1) 1 zs).
Proof. intros Hn Hl. rewrite !rule_sum_rs, (assemble_affine_map n a b zs Hn Hl). apply rs_map_affine. Qed.

(** sum of the weights *)
Theorem sum_weights_transport n a b zs : (1 <= n)%nat -> length zs = gl_m n ->
  rule_sum (fun _ => 1) (gl_assemble ROps n (-1) 1 zs) = 2 ->
  rule_sum (fun _ => 1) (gl_assemble ROps n a b zs) = b - a.
Proof. intros Hn Hl H. rewrite (rule_sum_affine (fun _ => 1) n a b zs Hn Hl), H. lra. Qed.

(** *** polynomials *)
Definition poly_eval (c : list R) (x : R) : R := fold_right (fun a acc => a + x * acc) 0 c.

Fixpoint padd (p q : list R) : list R :=
  match p, q with
  | [], _ => q
  | _, [] => p
  | a :: p', b :: q' => (a + b) :: padd p' q'
  end.
Lemma padd_eval p : forall q x, poly_eval (padd p q) x = poly_eval p x + poly_eval q x.
Proof. induction p as [|a p IH]; intros [|b q] x; simpl; try lra. rewrite IH. lra. Qed.
Lemma padd_length p : forall q, length (padd p q) = Nat.max (length p) (length q).
Proof. induction p as [|a p IH]; intros [|b q]; simpl; auto. Qed.
Lemma pscale_eval s p x : poly_eval (map (Rmult s) p) x = s * poly_eval p x.
Proof. induction p as [|a p IH]; simpl; [lra|]. rewrite IH. lra. Qed.

(** composition with an affine map: c(v + u t) as a coefficient list of the same length *)
Fixpoint pcomp (c : list R) (u v : R) : list R :=
  match c with
  | [] => []
  | a :: c' => let q := pcomp c' u v in padd [a] (padd (map (Rmult v) q) (0 :: map (Rmult u) q))
  end.
Lemma pcomp_eval c u v : forall t, poly_eval (pcomp c u v) t = poly_eval c (v + u * t).
Proof.
  induction c as [|a c IH]; intros t; [reflexivity|].
  cbn [pcomp]. rewrite !padd_eval. cbn [poly_eval fold_right].
  fold (poly_eval (map (Rmult v) (pcomp c u v)) t). fold (poly_eval (map (Rmult u) (pcomp c u v)) t).
  fold (poly_eval c (v + u * t)).
  rewrite !pscale_eval, IH. lra.
Qed.
Lemma pcomp_length c u v : length (pcomp c u v) = length c.
Proof.
  induction c as [|a c IH]; [reflexivity|].
  cbn [pcomp]. rewrite !padd_length. cbn [length]. rewrite !map_length, IH.
  destruct (length c); simpl; lia.
Qed.

Lemma poly_continuity c : continuity (poly_eval c).
Proof.
  induction c as [|a c IH].
  - apply continuity_const. intros x y. reflexivity.
  - change (continuity (fun x => a + x * poly_eval c x)).
    apply (continuity_plus (fun _ => a) (fun x => x * poly_eval c x)).
    + apply continuity_const. intros x y. reflexivity.
    + apply (continuity_mult (fun x => x) (poly_eval c)); [apply derivable_continuous, derivable_id | exact IH].
Qed.
Lemma poly_continuous c x : continuous (poly_eval c) x.
Proof. apply continuity_pt_filterlim. apply poly_continuity. Qed.
Lemma poly_ex_RInt c a b : ex_RInt (poly_eval c) a b.
Proof. apply (@ex_RInt_continuous R_CompleteNormedModule). intros z _. apply poly_continuous. Qed.

(** exactness is transported from [-1,1] to every interval (every polynomial of degree <= d, i.e. every
    coefficient list of length <= d+1; reversed intervals included: RInt is the oriented integral) *)
Theorem affine_exactness n zs d : (1 <= n)%nat -> length zs = gl_m n ->
  (forall c, (length c <= S d)%nat ->
     rule_sum (poly_eval c) (gl_assemble ROps n (-1) 1 zs) = RInt (poly_eval c) (-1) 1) ->
  forall a b c, (length c <= S d)%nat ->
     rule_sum (poly_eval c) (gl_assemble ROps n a b zs) = RInt (poly_eval c) a b.
Proof.
  intros Hn Hl Hex a b c Hc.
  set (u := (b - a) / 2). set (v := (a + b) / 2).
  rewrite (rule_sum_affine (poly_eval c) n a b zs Hn Hl). fold u v.
  rewrite (rule_sum_rs (fun t => poly_eval c (v + u * t))).
  rewrite (rs_ext (fun t => poly_eval c (v + u * t)) (poly_eval (pcomp c u v))) by (intros t; symmetry; apply pcomp_eval).
  rewrite <- rule_sum_rs, Hex by (rewrite pcomp_length; exact Hc).
  (* change of variables in the integral *)
  replace (RInt (poly_eval c) a b) with (RInt (poly_eval c) (u * -1 + v) (u * 1 + v)) by (f_equal; unfold u, v; lra).
  rewrite <- (@RInt_comp_lin R_CompleteNormedModule (poly_eval c) u v (-1) 1) by apply poly_ex_RInt.
  symmetry.
  transitivity (scal u (RInt (poly_eval (pcomp c u v)) (-1) 1)); [|reflexivity].
  apply (@is_RInt_unique R_CompleteNormedModule).
  apply (is_RInt_ext (fun y => scal u (poly_eval (pcomp c u v) y))).
  { intros x _. rewrite pcomp_eval. f_equal. f_equal. lra. }
  apply (@is_RInt_scal R_NormedModule).
  apply (@RInt_correct R_CompleteNormedModule), poly_ex_RInt.
Qed.

(** orientation: the rule with reversed limits is minus the rule on the reflected integrand, row by row *)
Lemma assemble_reversed_map n a b zs : (1 <= n)%nat -> length zs = gl_m n ->
  gl_assemble ROps n b a zs = map (fun r => ((a + b) - fst r, - snd r)) (gl_assemble ROps n a b zs).
Proof.
  intros Hn Hl. set (g := fun r : R * R => ((a + b) - fst r, - snd r)).
  apply (nth_ext _ _ (0, 0) (g (0, 0))).
  - now rewrite map_length, !length_gl_assemble.
  - intros i Hi. rewrite length_gl_assemble in Hi. rewrite (map_nth g).
    destruct (reversed_is_mirror n a b zs Hn Hl i Hi) as (E1 & E2 & _). unfold node, weight in E1, E2.
    rewrite (surjective_pairing (nth i (gl_assemble ROps n b a zs) (0, 0))). unfold g. now rewrite E1, E2.
Qed.

Lemma rs_map_reflect f s rw : rs f (map (fun r => (s - fst r, - snd r)) rw) = - rs (fun x => f (s - x)) rw.
Proof. induction rw as [|r rw IH]; simpl; [lra|]. rewrite IH. lra. Qed.

Theorem reversed_rule_sum f n a b zs : (1 <= n)%nat -> length zs = gl_m n ->
  rule_sum f (gl_assemble ROps n b a zs) = - rule_sum (fun x => f (a + b - x)) (gl_assemble ROps n a b zs).
Proof. intros Hn Hl. rewrite !rule_sum_rs, (assemble_reversed_map n a b zs Hn Hl). apply rs_map_reflect. Qed.

(** *** moment_checker_sound *)
Definition rule_moment (t : list (R * R)) (k : nat) : R := rule_sum (fun x => x ^ k) t.
Definition moment (a b : R) (k : nat) : R := (b ^ S k - a ^ S k) / INR (S k).

Fixpoint pe_from (c : list R) (k : nat) (x : R) : R :=
  match c with [] => 0 | a :: c' => a * x ^ k + pe_from c' (S k) x end.
Fixpoint lin (m : nat -> R) (c : list R) (k : nat) : R :=
  match c with [] => 0 | a :: c' => a * m k + lin m c' (S k) end.
(** sum_k |c_k| delta_k *)
Fixpoint cbound (delta : nat -> R) (c : list R) (k : nat) : R :=
  match c with [] => 0 | a :: c' => Rabs a * delta k + cbound delta c' (S k) end.

Lemma pe_from_eval c : forall k x, pe_from c k x = x ^ k * poly_eval c x.
Proof.
  induction c as [|a c IH]; intros k x; cbn [pe_from poly_eval fold_right]; [ring|].
  rewrite IH. fold (poly_eval c x). simpl. ring.
Qed.

Lemma rs_lin f g a t : rs (fun x => a * f x + g x) t = a * rs f t + rs g t.
Proof. induction t as [|r t IH]; simpl; [lra|]. rewrite IH. lra. Qed.
Lemma rs_zero t : rs (fun _ => 0) t = 0.
Proof. induction t as [|r t IH]; simpl; [lra|]. rewrite IH. lra. Qed.

Lemma rs_pe_from t c : forall k, rs (pe_from c k) t = lin (fun j => rs (fun x => x ^ j) t) c k.
Proof.
  induction c as [|a c IH]; intros k.
  - cbn [lin]. rewrite (rs_ext (pe_from [] k) (fun _ => 0)) by reflexivity. apply rs_zero.
  - cbn [lin]. rewrite (rs_ext (pe_from (a :: c) k) (fun x => a * x ^ k + pe_from c (S k) x)) by reflexivity.
    rewrite (rs_lin (fun x => x ^ k) (pe_from c (S k)) a t), IH. reflexivity.
Qed.

Lemma INR_S_neq0 k : INR (S k) <> 0.
Proof. apply not_0_INR. lia. Qed.

Lemma is_RInt_pow a b k : is_RInt (fun x => x ^ k) a b (moment a b k).
Proof.
  unfold moment.
  evar_last.
  - apply (@is_RInt_derive R_CompleteNormedModule (fun x => x ^ S k / INR (S k)) (fun x => x ^ k)).
    + intros x _. auto_derive; [exact I|]. pose proof (INR_S_neq0 k). cbn [Nat.pred]. field. exact H.
    + intros x _. apply continuity_pt_filterlim. apply derivable_continuous_pt, derivable_pt_pow.
  - unfold minus, plus, opp. simpl. pose proof (INR_S_neq0 k). simpl in H. field. exact H.
Qed.

Lemma is_RInt_pe_from a b c : forall k, is_RInt (pe_from c k) a b (lin (moment a b) c k).
Proof.
  induction c as [|a0 c IH]; intros k.
  - cbn [lin]. evar_last; [apply (@is_RInt_const R_NormedModule)|]. unfold scal; simpl; unfold mult; simpl. ring.
  - cbn [lin].
    apply (is_RInt_ext (fun x => plus (scal a0 (x ^ k)) (pe_from c (S k) x))).
    { intros x _. reflexivity. }
    apply (@is_RInt_plus R_NormedModule).
    + apply (@is_RInt_scal R_NormedModule). apply is_RInt_pow.
    + apply IH.
Qed.

Lemma RInt_poly a b c : RInt (poly_eval c) a b = lin (moment a b) c 0.
Proof.
  apply (@is_RInt_unique R_CompleteNormedModule).
  apply (is_RInt_ext (pe_from c 0)).
  - intros x _. rewrite pe_from_eval. simpl. ring.
  - apply is_RInt_pe_from.
Qed.

Lemma lin_diff m1 m2 delta c : forall k,
  (forall j, (j < length c)%nat -> Rabs (m1 (k + j)%nat - m2 (k + j)%nat) <= delta (k + j)%nat) ->
  Rabs (lin m1 c k - lin m2 c k) <= cbound delta c k.
Proof.
  induction c as [|a c IH]; intros k H; cbn [lin cbound].
  - rewrite Rminus_0_r, Rabs_R0. lra.
  - replace (a * m1 k + lin m1 c (S k) - (a * m2 k + lin m2 c (S k)))
      with (a * (m1 k - m2 k) + (lin m1 c (S k) - lin m2 c (S k))) by ring.
    eapply Rle_trans; [apply Rabs_triang|]. rewrite Rabs_mult.
    apply Rplus_le_compat.
    + apply Rmult_le_compat_l; [apply Rabs_pos|].
      specialize (H 0%nat). rewrite Nat.add_0_r in H. apply H. simpl. lia.
    + apply IH. intros j Hj. specialize (H (S j)). replace (k + S j)%nat with (S k + j)%nat in H by lia.
      apply H. simpl. lia.
Qed.

(** If the first K moments of a table (any table, any interval, reversed included) are within delta_k of the
    moments of the interval, the table integrates every polynomial with at most K coefficients within
    sum_k |c_k| delta_k. *)
Theorem moment_checker_sound (t : list (R * R)) (a b : R) (delta : nat -> R) (K : nat) :
  (forall k, (k < K)%nat -> Rabs (rule_moment t k - moment a b k) <= delta k) ->
  forall c, (length c <= K)%nat ->
    Rabs (rule_sum (poly_eval c) t - RInt (poly_eval c) a b) <= cbound delta c 0.
Proof.
  intros H c Hc. rewrite RInt_poly, rule_sum_rs.
  rewrite (rs_ext (poly_eval c) (pe_from c 0)) by (intros x; rewrite pe_from_eval; simpl; ring).
  rewrite rs_pe_from. apply lin_diff. intros j Hj. cbn [Nat.add].
  specialize (H j ltac:(lia)). unfold rule_moment in H. rewrite rule_sum_rs in H. exact H.
Qed.

(** the moments of the reference interval in closed form *)
Lemma moment_unit k : moment (-1) 1 k = (1 - (-1) ^ S k) / INR (S k).
Proof. unfold moment. rewrite pow1. reflexivity. Qed.

(** ** Non-vacuity examples *)
Example ex_lengths : (1 <= 3)%nat /\ length [(3/4, 1); (0, 2)] = gl_m 3.
Proof. split; [lia|reflexivity]. Qed.

Example ex_assemble_1 : gl_assemble ROps 1 (-1) 1 [(0, 1)] = [(1 / 2 * 1 + 1 / 2 * -1 + (1 / 2 * 1 - 1 / 2 * -1) * 0, 2 / 1 * (1 / 2 * 1 - 1 / 2 * -1) / ((1 / 1 - 0 * 0) * 1 * 1))].
Proof. reflexivity. Qed.

(** the one-point rule {(0, 2)} has exact moments 0 and 1 on [-1,1] *)
Example ex_moment_hyp : forall k, (k < 2)%nat -> Rabs (rule_moment [(0, 2)] k - moment (-1) 1 k) <= (fun _ => 0) k.
Proof.
  intros k Hk. unfold rule_moment. rewrite rule_sum_rs. unfold rs, moment. cbn [fold_right fst snd].
  destruct k as [|[|k]]; [| |lia]; simpl; match goal with |- Rabs ?x <= 0 => replace x with 0 by field end; rewrite Rabs_R0; lra.
Qed.

(** the one-point rule built from z = 0, pp = 1 is exact for degree <= 1 on [-1,1]: the hypothesis of
    [affine_exactness] is satisfiable *)
Example ex_affine_hyp : forall c, (length c <= 2)%nat ->
  rule_sum (poly_eval c) (gl_assemble ROps 1 (-1) 1 [(0, 1)]) = RInt (poly_eval c) (-1) 1.
Proof.
  intros c Hc. rewrite RInt_poly, rule_sum_rs, ex_assemble_1. unfold rs, moment. cbn [fold_right fst snd].
  destruct c as [|c0 [|c1 [|c2 c]]]; simpl in Hc; try lia; simpl; field.
Qed.
