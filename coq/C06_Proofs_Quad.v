(** * C06 proofs, part 6: the quadrature branch GammaQint (a > 100) - Integrate / Adaptive_Simpson_Integration and the
    panel loop.  All statements are for every recursion depth, tolerance, interval and number of panels (induction). *)
From Coq Require Import Reals ZArith List Lia Lra Bool.
From LP Require Import Num NumR C06_Model.
Local Open Scope R_scope.

(** ** Adaptive Simpson is exact on cubic polynomials, whatever the depth and the tolerance *)
Section Cubic.
Variables c0 c1 c2 c3 : R.
Definition cub (t : R) : R := c0 + c1 * t + c2 * t ^ 2 + c3 * t ^ 3.
(* an antiderivative *)
Definition cubI (t : R) : R := c0 * t + c1 * t ^ 2 / 2 + c2 * t ^ 3 / 3 + c3 * t ^ 4 / 4.

Lemma simpson_cubic a b : (b - a) / 6 * (cub a + 4 * cub ((a + b) / 2) + cub b) = cubI b - cubI a.
Proof. unfold cub, cubI. field. Qed.

Lemma half_simpson_cubic a b : (b - a) / 12 * (cub a + 4 * cub ((a + (a + b) / 2) / 2) + cub ((a + b) / 2)) = cubI ((a + b) / 2) - cubI a.
Proof. unfold cub, cubI. field. Qed.
Lemma half_simpson_cubic' a b : (b - a) / 12 * (cub ((a + b) / 2) + 4 * cub ((b + (a + b) / 2) / 2) + cub b) = cubI b - cubI ((a + b) / 2).
Proof. unfold cub, cubI. field. Qed.

Lemma asr_cubic depth : forall a b eps,
  asr ROps depth cub a b eps (cubI b - cubI a) (cub a) (cub b) (cub ((a + b) / 2)) = cubI b - cubI a.
Proof.
  induction depth as [|k IH]; intros a b eps; cbn [asr nadd nsub nmul ndiv nofZ nabs nleb ROps];
    rewrite half_simpson_cubic, half_simpson_cubic'.
  - field.
  - destruct (Rleb _ _); [field|].
    rewrite IH. replace ((b + (a + b) / 2) / 2) with (((a + b) / 2 + b) / 2) by field.
    rewrite IH. ring.
Qed.

(** Integrate(f, a, b, eps) for a cubic f: the exact integral, for every order of the limits, tolerance and depth *)
Lemma integrate_cubic a b eps depth : integrate ROps cub a b eps depth = cubI b - cubI a.
Proof.
  unfold integrate, ngtb. cbn [neqb nltb nadd nsub nmul ndiv nneg nofZ nabs n0 n1 ROps].
  destruct (Reqb_spec a b) as [->|Hne]; [ring|].
  destruct (Rltb_spec b a).
  - rewrite simpson_cubic, asr_cubic. ring.
  - rewrite simpson_cubic, asr_cubic. ring.
Qed.
End Cubic.

(** Integrate(f,b,a) = - Integrate(f,a,b) for every integrand (the limits are swapped and the sign flipped), and
    Integrate(f,a,a) = 0 without evaluating f *)
Lemma integrate_swap f a b eps depth : integrate ROps f b a eps depth = - integrate ROps f a b eps depth.
Proof.
  unfold integrate, ngtb. cbn [neqb nltb nadd nsub nmul ndiv nneg nofZ nabs n0 n1 ROps].
  destruct (Reqb_spec b a) as [->|Hne].
  - destruct (Reqb_spec a a); [ring|congruence].
  - destruct (Reqb_spec a b); [congruence|].
    destruct (Rltb_spec a b), (Rltb_spec b a); try lra; ring.
Qed.

Lemma integrate_empty f a eps depth : integrate ROps f a a eps depth = 0.
Proof. unfold integrate. cbn [neqb n0 ROps]. destruct (Reqb_spec a a); [reflexivity|congruence]. Qed.

(** ** The panel loop  for(t1 = tMin; t1 < x; t1 += w) P += Integrate(f, t1, min(x, t1+w), 1e-8) *)
Section Panels.
Variables (f : R -> R) (x w : R).

(* the sum of the first n panels starting at t1 *)
Fixpoint panels (n : nat) (t1 : R) : R :=
  match n with
  | O => 0
  | S k => integrate ROps f t1 (Rmin x (t1 + w)) (ndec ROps 1 100000000) 20 + panels k (t1 + w)
  end.

Lemma nmin_Rmin u v : nmin ROps u v = Rmin u v.
Proof.
  unfold nmin, Rmin. cbn [nltb ROps]. destruct (Rltb_spec v u), (Rle_dec u v); try lra.
Qed.

Lemma panel_loop_done fuel t1 acc : x <= t1 -> panel_loop ROps fuel f x w t1 acc = Ok acc.
Proof. intros H. destruct fuel; cbn [panel_loop nltb ROps]; destruct (Rltb_spec t1 x); try lra; reflexivity. Qed.

(** With enough fuel the loop returns acc + the panels [t1 + k w, min(x, t1 + (k+1) w)], k < n, where n is the first index
    with x <= t1 + n w: the panels are adjacent, start at t1 and the last one ends at x. *)
Lemma panel_loop_spec fuel : forall t1 acc, x - t1 <= INR fuel * w ->
  exists n, (n <= fuel)%nat /\ panel_loop ROps fuel f x w t1 acc = Ok (acc + panels n t1) /\
            x <= t1 + INR n * w /\ forall k, (k < n)%nat -> t1 + INR k * w < x.
Proof.
  induction fuel as [|fu IH]; intros t1 acc Hf.
  - exists 0%nat. cbn [INR] in Hf. rewrite panel_loop_done by lra. cbn [panels INR].
    repeat split; try lia; try lra. f_equal; ring.
  - destruct (Rlt_le_dec t1 x) as [Hlt|Hge].
    + destruct (IH (t1 + w) (acc + integrate ROps f t1 (Rmin x (t1 + w)) (ndec ROps 1 100000000) 20)) as (n & Hn & E & Hx & Hk).
      { rewrite S_INR in Hf. lra. }
      exists (S n). split; [lia|]. split; [|split].
      * cbn [panel_loop nltb nadd ROps]. destruct (Rltb_spec t1 x); [|lra].
        rewrite nmin_Rmin. cbn [nadd ROps] in E. rewrite E. cbn [panels]. f_equal. ring.
      * rewrite S_INR. lra.
      * intros [|k] Hlt'; [cbn [INR]; lra|]. rewrite S_INR. specialize (Hk k ltac:(lia)). lra.
    + exists 0%nat. rewrite panel_loop_done by lra. cbn [panels INR].
      repeat split; try lia; try lra. f_equal; ring.
Qed.
End Panels.

(** Refinement to a simple specification: for a cubic integrand the panel loop returns acc + the exact integral from t1 to x -
    no panel is skipped, counted twice or extended beyond x, for every x, width, start and amount of fuel that suffices. *)
Lemma panels_cubic c0 c1 c2 c3 x w n : forall t1, t1 <= x -> x <= t1 + INR n * w ->
  (forall k, (k < n)%nat -> t1 + INR k * w < x) ->
  panels (cub c0 c1 c2 c3) x w n t1 = cubI c0 c1 c2 c3 x - cubI c0 c1 c2 c3 t1.
Proof.
  induction n as [|n IH]; intros t1 H1 H2 Hk.
  - cbn [INR] in H2. assert (t1 = x) by lra. subst. cbn [panels]. ring.
  - cbn [panels]. rewrite integrate_cubic. destruct n as [|m].
    + cbn [INR] in H2. rewrite Rmin_left by lra. cbn [panels]. ring.
    + assert (H3 := Hk 1%nat ltac:(lia)). cbn [INR] in H3.
      rewrite Rmin_right by lra. rewrite IH.
      * ring.
      * lra.
      * rewrite S_INR in H2. lra.
      * intros k Hlt. specialize (Hk (S k) ltac:(lia)). rewrite S_INR in Hk. lra.
Qed.

Theorem panel_loop_cubic c0 c1 c2 c3 x w fuel t1 acc : 0 < w -> t1 <= x -> x - t1 <= INR fuel * w ->
  panel_loop ROps fuel (cub c0 c1 c2 c3) x w t1 acc = Ok (acc + (cubI c0 c1 c2 c3 x - cubI c0 c1 c2 c3 t1)).
Proof.
  intros Hw H1 H2. destruct (panel_loop_spec (cub c0 c1 c2 c3) x w fuel t1 acc H2) as (n & _ & E & Hx & Hk).
  rewrite E, (panels_cubic c0 c1 c2 c3 x w n t1 H1 Hx Hk). reflexivity.
Qed.

(** ** GammaQint *)
Lemma gammaln_pos_defined a : 0 < a -> exists g, gammaln ROps a = Ok g.
Proof. intros H. unfold gammaln. cbn [nleb n0 ROps]. destruct (Rleb_spec a 0); [lra|]. eexists; reflexivity. Qed.

Definition q_tmin (a : R) : R := Rmax 0 (a - 1 - 10 * sqrt a).
Definition q_tmax (a : R) : R := a - 1 + 10 * sqrt a.
Definition q_integrand (gln a t : R) : R := exp (- gln - t + ln t * (a - 1)).

Lemma nmax_Rmax u v : nmax ROps u v = Rmax u v.
Proof.
  unfold nmax, Rmax. cbn [nltb ROps]. destruct (Rltb_spec u v), (Rle_dec u v); try lra; reflexivity.
Qed.

Definition clamp01 (p : R) : R := Rmin 1 (Rmax 0 p).

(** the three regions of GammaQint(x,a): beyond the window a-1 +- 10 sqrt a the answer is 0 or 1 exactly; inside it is
    1 - clamp(sum of n <= 20 adjacent panels of width sqrt a covering [tMin, x]); the model's panel fuel (64) is never exhausted
    and the call never exits (a > 0). *)
Theorem gammaq_int_regions x a : 0 < a ->
  exists gln, gammaln ROps a = Ok gln /\
  (q_tmax a < x -> gammaq_int ROps x a = Ok 0) /\
  (x <= q_tmax a -> x < q_tmin a -> gammaq_int ROps x a = Ok 1) /\
  (q_tmin a <= x <= q_tmax a ->
     exists n, (n <= 20)%nat /\
  gammaq_int ROps x a = Ok (1 - clamp01 (panels (q_integrand gln a) x (sqrt a) n (q_tmin a))) /\
  x <= q_tmin a + INR n * sqrt a /\ forall k, (k < n)%nat -> q_tmin a + INR k * sqrt a < x).
Proof.
  intros Ha. destruct (gammaln_pos_defined a Ha) as [gln Hg]. exists gln. split; [exact Hg|].
  assert (Hs : 0 < sqrt a) by (apply sqrt_lt_R0; exact Ha).
  unfold gammaq_int. rewrite Hg. cbn [rbind]. unfold ngtb.
  rewrite nmax_Rmax. cbn [nltb nadd nsub nmul nsqrt nofZ n0 n1 ROps].
  fold (q_tmin a). fold (q_tmax a).
  split; [|split].
  - intros H. destruct (Rltb_spec (q_tmax a) x); [|lra]. cbn [rbind].
    rewrite nmin_Rmin, nmax_Rmax. cbn [nsub n0 n1 ROps]. rewrite (Rmax_right 0 1) by lra. rewrite Rmin_left by lra. f_equal; ring.
  - intros H0 H. destruct (Rltb_spec (q_tmax a) x); [lra|]. destruct (Rltb_spec x (q_tmin a)); [|lra]. cbn [rbind].
    rewrite nmin_Rmin, nmax_Rmax. cbn [nsub n0 n1 ROps]. rewrite (Rmax_left 0 0) by lra. rewrite Rmin_right by lra. f_equal; ring.
  - intros [H1 H2]. destruct (Rltb_spec (q_tmax a) x) as [Hq1|Hq1]; [lra|]. destruct (Rltb_spec x (q_tmin a)) as [Hq2|Hq2]; [lra|].
    destruct (panel_loop_spec (q_integrand gln a) x (sqrt a) 64 (q_tmin a) 0) as (n & _ & E & Hx & Hk).
    { assert (q_tmax a - q_tmin a <= 20 * sqrt a).
      { unfold q_tmin, q_tmax. pose proof (Rmax_r 0 (a - 1 - 10 * sqrt a)). lra. }
      replace (INR 64) with 64 by (cbn [INR]; ring). lra. }
    exists n. split; [|split; [|split; [exact Hx|exact Hk]]].
    + destruct n as [|n]; [lia|]. specialize (Hk n ltac:(lia)).
      assert (Hn20 : INR n < 20).
      { assert (q_tmax a - q_tmin a <= 20 * sqrt a).
        { unfold q_tmin, q_tmax. pose proof (Rmax_r 0 (a - 1 - 10 * sqrt a)). lra. }
        assert (INR n * sqrt a < 20 * sqrt a) by lra. apply Rmult_lt_reg_r with (sqrt a); assumption. }
      assert (n < 20)%nat; [|lia]. apply INR_lt. replace (INR 20) with 20 by (cbn [INR]; ring). exact Hn20.
    + unfold q_integrand in E. cbn [nexp nneg nln nsub nadd nmul n1 ROps]. rewrite E. cbn [rbind].
      rewrite nmin_Rmin, nmax_Rmax. cbn [nsub n0 n1 ROps]. unfold clamp01. rewrite Rplus_0_l. reflexivity.
Qed.

(** cubic integrands pass through the whole quadrature exactly: non-vacuity of panel_loop_cubic and a concrete window *)
Example panel_loop_cubic_example :
  panel_loop ROps 64 (cub 0 0 3 0) 10 4 0 0 = Ok 1000.
Proof.
  rewrite panel_loop_cubic.
  - f_equal. unfold cubI. field.
  - lra.
  - lra.
  - replace (INR 64) with 64 by (cbn [INR]; ring). lra.
Qed.
