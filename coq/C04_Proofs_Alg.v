(** * C04 proofs, part 7: further algebraic laws, every conformable shape.
    Sections [AlgNoLaw] / [AlgComm] / [AlgAddComm]: any number type, each law under exactly the laws of the scalars it
    uses (none / x*y = y*x / x+y = y+x), with the code's own summation order - these are therefore exact for IEEE doubles:
      transpose(A +- B) = transpose(A) +- transpose(B), transpose(s*A) = s*transpose(A), Trace(transpose(A)) = Trace(A),
      Symmetric(A) <-> transpose(A) = A;   u.v = v.u, v*A = transpose(A)*v, A*v = v*transpose(A),
      transpose(outer(u,v)) = outer(v,u), transpose(A)*A is symmetric;   A + B = B + A, u + v = v + u.
    Section [AlgRing]: an arbitrary commutative ring (laws that reorder sums): associativity and distributivity of
    the product, (s*A)*B = s*(A*B), Trace(A*B) = Trace(B*A), Norm(transpose(A)) = Norm(A), the dot product is bilinear,
    u x v = -(v x u).
    Section [AlgRcf]: a real closed field with its own square root: Normalized() has norm 1. *)
From mathcomp Require Import all_ssreflect all_algebra.
From Coq Require List ZArith.
From LP Require Import Num C04_Model C04_State C04_Proofs_Struct C04_Proofs_Laws.
Set Implicit Arguments. Unset Strict Implicit. Unset Printing Implicit Defensive.
Arguments tab : simpl never.
Arguments tab2 : simpl never.

Section AlgNoLaw.
Context {T : Type} (Ops : NumOps T).
Local Notation ment := (ment Ops).
Local Notation vent := (vent Ops).

Lemma same_shape_tr (A B : mat T) : same_shape (tr_tab Ops A) (tr_tab Ops B) = same_shape A B.
Proof. by rewrite /same_shape /= andbC. Qed.

(** transpose(A + B) = transpose(A) + transpose(B), transpose(A - B) = transpose(A) - transpose(B):
    both sides defined exactly for equal shapes, equal entry by entry without any law *)
Theorem transpose_sum A B : 0 < mrows A -> 0 < mcols A -> 0 < mcols B ->
  rbind (m_plus Ops A B) (transpose Ops)
  = rbind (transpose Ops A) (fun At => rbind (transpose Ops B) (fun Bt => m_plus Ops At Bt)) /\
  rbind (m_minus Ops A B) (transpose Ops)
  = rbind (transpose Ops A) (fun At => rbind (transpose Ops B) (fun Bt => m_minus Ops At Bt)).
Proof.
  move=> Hr Hc HcB; rewrite m_plus_spec // m_minus_spec // !transpose_spec //=.
  rewrite m_plus_spec // m_minus_spec // same_shape_tr.
  case E: (same_shape A B) => //=; rewrite !transpose_spec //=.
  move: E => /andP [/eqP Er /eqP Ec].
  split; congr Ok; apply: mk_mat_ext => j i Hj Hi; rewrite !ment_mk // -?Er -?Ec //.
Qed.

(** transpose(s * A) = s * transpose(A), transpose(A / s) = transpose(A) / s *)
Theorem transpose_scale A s : 0 < mrows A -> 0 < mcols A ->
  rbind (m_product_s Ops A s) (transpose Ops) = rbind (transpose Ops A) (fun At => m_product_s Ops At s) /\
  rbind (m_division Ops A s) (transpose Ops) = rbind (transpose Ops A) (fun At => m_division Ops At s).
Proof.
  move=> Hr Hc; have [-> _ _ -> _] := scalar_spec Ops s Hr; rewrite /= !transpose_spec //=.
  have [-> _ _ -> _] := @scalar_spec _ Ops (tr_tab Ops A) s Hc.
  by split; congr Ok; apply: mk_mat_ext => j i Hj Hi; rewrite !ment_mk.
Qed.

(** Trace(transpose(A)) = Trace(A): the same diagonal summed in the same order; both exit for a non-square A *)
Theorem trace_transpose A : 0 < mcols A -> rbind (transpose Ops A) (trace Ops) = trace Ops A.
Proof.
  move=> Hc; rewrite transpose_spec //= !trace_spec /= eq_sym; case: eqP => // E; congr Ok.
  rewrite -E; apply: foldl_iota_ext => acc k /andP [_]; rewrite add0n => Hk.
  by rewrite ment_mk // -E.
Qed.

(** Symmetric(A) holds exactly when transpose(A) returns A itself (whenever == decides equality) *)
Theorem symmetric_transpose (eqbP : forall x y : T, reflect (x = y) (neqb Ops x y)) A :
  wf_mat A -> 0 < mrows A -> 0 < mcols A -> (symmetric Ops A <-> transpose Ops A = Ok A).
Proof.
  move=> HA Hr Hc; rewrite transpose_spec //; split.
  - move=> /(symmetric_iff eqbP) [Hsq H]; congr Ok; rewrite -[RHS](mk_mat_eta Ops HA) /tr_tab -Hsq.
    by apply: mk_mat_ext => i j Hi Hj; apply: H.
  - move=> [E]; apply/(symmetric_iff eqbP).
    have Hsq : mrows A = mcols A by rewrite -{1}E.
    split=> // i j Hi Hj; rewrite -{1}E ment_mk // -Hsq //.
Qed.

(** Normalized() = the vector divided by its Norm(), entry by entry; Normalize() leaves exactly that value in the object;
    both re-establish the class invariant (no law, every number type) *)
Theorem normalized_spec v :
  [/\ v_normalized Ops v = rbind (vnorm Ops v) (fun nrm => Ok (vdivs Ops v nrm)),
      v_normalize Ops v = v_normalized Ops v,
      forall w, v_normalized Ops v = Ok w -> wf_vec w /\ vdim w = vdim v &
      exists w, v_normalized Ops v = Ok w].
Proof.
  rewrite /v_normalize /v_normalized vnorm_spec /=; split=> //.
  - by rewrite vec_of_tab.
  - by move=> w [<-]; split; [exact: wf_vec_of | rewrite vec_of_tab].
  - by eexists.
Qed.
End AlgNoLaw.

Section AlgComm.
Context {T : Type} (Ops : NumOps T).
Local Notation ment := (ment Ops).
Local Notation vent := (vent Ops).
Hypothesis mulC : forall x y : T, nmul Ops x y = nmul Ops y x.

(** u . v = v . u exactly *)
Theorem dot_comm u v : vdot Ops u v = vdot Ops v u.
Proof.
  rewrite /vdot !natE eq_sym; case: eqP => //= E; congr Ok; rewrite !foldE !seqE E.
  by apply: foldl_iota_ext => acc k _; rewrite mulC.
Qed.

(** v * A = transpose(A) * v and A * v = v * transpose(A) exactly *)
Theorem vecmat_transpose v A : 0 < mcols A ->
  v_mul_m Ops v A = rbind (transpose Ops A) (fun At => m_product_v Ops At v) /\
  m_product_v Ops A v = rbind (transpose Ops A) (fun At => v_mul_m Ops v At).
Proof.
  move=> Hc; rewrite transpose_spec //= /v_mul_m /m_product_v /= !natE; split.
  - case: eqP => //= E; congr Ok; congr vec_of; apply: tab_ext => i Hi.
    rewrite !foldE !seqE; apply: foldl_iota_ext => acc k /andP [_]; rewrite add0n => Hk.
    by rewrite ment_mk // mulC.
  - case: eqP => //= E; congr Ok; congr vec_of; apply: tab_ext => i Hi.
    rewrite !foldE !seqE; apply: foldl_iota_ext => acc k /andP [_]; rewrite add0n => Hk.
    by rewrite ment_mk // mulC.
Qed.

(** transpose(outer(u, v)) = outer(v, u) exactly *)
Theorem outer_transpose u v : 0 < vdim v -> transpose Ops (outer Ops u v) = Ok (outer Ops v u).
Proof.
  move=> Hv; rewrite transpose_spec //; congr Ok; rewrite /tr_tab /outer /=.
  by apply: mk_mat_ext => j i Hj Hi; rewrite ment_mk // mulC.
Qed.

(** transpose(A) * A is symmetric for every shape of A, exactly (the two sums have the same terms in the same order) *)
Theorem gram_symmetric (eqbP : forall x y : T, reflect (x = y) (neqb Ops x y)) A G : 0 < mcols A ->
  rbind (transpose Ops A) (fun At => m_product Ops At A) = Ok G -> symmetric Ops G.
Proof.
  move=> Hc; rewrite transpose_spec //= m_product_spec /= eqxx => -[<-].
  apply/(symmetric_iff eqbP); split=> //= i j Hi Hj; rewrite !ment_mk // /dotk /= !foldE !seqE.
  apply: foldl_iota_ext => acc k /andP [_]; rewrite add0n => Hk.
  by rewrite !ment_mk // mulC.
Qed.
End AlgComm.

Section AlgAddComm.
Context {T : Type} (Ops : NumOps T).
Local Notation ment := (ment Ops).
Local Notation vent := (vent Ops).
Hypothesis addC : forall x y : T, nadd Ops x y = nadd Ops y x.

(** A + B = B + A, all spellings, and u + v = v + u, exactly; defined on the same pairs *)
Theorem sum_comm :
  (forall A B, m_plus Ops A B = m_plus Ops B A /\ m_op_plus Ops A B = m_op_plus Ops B A /\
               m_add_assign Ops A B = m_add_assign Ops B A) /\
  (forall u v, vadd Ops u v = vadd Ops v u).
Proof.
  have P A B : m_plus Ops A B = m_plus Ops B A.
    rewrite /m_plus !shape_differsE /same_shape (eq_sym (mrows B)) (eq_sym (mcols B)).
    case: andP => //= -[/eqP Er /eqP Ec]; rewrite Er Ec; congr mat_of_entries.
    by apply: tab_ext => i Hi; apply: tab_ext => j Hj; rewrite addC.
  split=> [A B|u v]; first split=> //; first split=> //.
  - rewrite !m_add_assign_spec /same_shape (eq_sym (mrows B)) (eq_sym (mcols B)).
    case: andP => //= -[/eqP Er /eqP Ec]; congr Ok; rewrite /add_tab Er Ec.
    by apply: mk_mat_ext => i j Hi Hj; rewrite addC.
  - rewrite /vadd !natE eq_sym; case: eqP => //= E; congr Ok; congr vec_of; rewrite E.
    by apply: tab_ext => i Hi; rewrite addC.
Qed.
End AlgAddComm.

(** ** An arbitrary commutative ring: laws that reorder sums *)
Import GRing.Theory.
Local Open Scope ring_scope.

Section AlgRing.
Variable R : comRingType.
Variables (divR : R -> R -> R) (absR sqrtR : R -> R) (ltR leR : R -> R -> bool).
Local Notation Ops := (ROps divR absR sqrtR ltR leR).
Local Notation ment := (ment Ops).
Local Notation vent := (vent Ops).

Lemma dotk_sum A B i j : dotk Ops A B i j = \sum_(0 <= k < mcols A) ment A i k * ment B k j.
Proof. by rewrite /dotk foldE seqE foldl_sum. Qed.

(** (A*B)*C = A*(B*C) for every conformable triple of shapes *)
Theorem product_assoc A B C : mcols A = mrows B -> mcols B = mrows C ->
  rbind (m_product Ops A B) (fun AB => m_product Ops AB C)
  = rbind (m_product Ops B C) (fun BC => m_product Ops A BC) /\
  exists D, rbind (m_product Ops A B) (fun AB => m_product Ops AB C) = Ok D.
Proof.
  move=> H1 H2; have E1 : mcols A == mrows B by apply/eqP.
  have E2 : mcols B == mrows C by apply/eqP.
  rewrite !m_product_spec E1 E2 /= !m_product_spec /= E1 E2.
  split; last by eexists.
  congr Ok; apply: mk_mat_ext => i j Hi Hj; rewrite !dotk_sum /=.
  transitivity (\sum_(0 <= l < mcols B) \sum_(0 <= k < mcols A) ment A i k * ment B k l * ment C l j).
    by apply: eq_big_nat => l /andP [_ Hl]; rewrite ment_mk // dotk_sum mulr_suml.
  rewrite exchange_big /=; apply: eq_big_nat => k /andP [_ Hk].
  rewrite ment_mk -?H1 // dotk_sum mulr_sumr; apply: eq_bigr => l _; by rewrite mulrA.
Qed.

(** A*(B+C) = A*B + A*C and (A+B)*C = A*C + B*C *)
Theorem product_distr A B C :
  (mcols A = mrows B -> same_shape B C -> (0 < mrows A)%N -> (0 < mrows B)%N ->
   rbind (m_plus Ops B C) (fun S => m_product Ops A S)
   = rbind (m_product Ops A B) (fun AB => rbind (m_product Ops A C) (fun AC => m_plus Ops AB AC))) /\
  (mcols A = mrows C -> same_shape A B -> (0 < mrows A)%N ->
   rbind (m_plus Ops A B) (fun S => m_product Ops S C)
   = rbind (m_product Ops A C) (fun AC => rbind (m_product Ops B C) (fun BC => m_plus Ops AC BC))).
Proof.
  split.
  - move=> H1 HS HrA HrB; move: (HS) => /andP [/eqP Er Ec].
    have E1 : mcols A == mrows B by apply/eqP.
    have E1' : mcols A == mrows C by rewrite -Er; apply/eqP.
    rewrite m_plus_spec // HS /= !m_product_spec /= E1 E1' /= m_plus_spec // /same_shape /= Ec !eqxx /=.
    move: Ec => /eqP Ec.
    congr Ok; apply: mk_mat_ext => i j Hi Hj; rewrite ment_mk // ment_mk -?Ec // !dotk_sum /= -big_split /=.
    by apply: eq_big_nat => k /andP [_ Hk]; rewrite ment_mk -?H1 // mulrDr.
  - move=> H1 HS HrA; move: (HS) => /andP [Er /eqP Ec].
    have E1 : mcols A == mrows C by apply/eqP.
    have E1' : mcols B == mrows C by rewrite -Ec; apply/eqP.
    rewrite m_plus_spec // HS /= !m_product_spec /= E1 E1' /= m_plus_spec // /same_shape /= Er !eqxx /=.
    move: Er => /eqP Er.
    congr Ok; apply: mk_mat_ext => i j Hi Hj; rewrite ment_mk // ment_mk -?Er // !dotk_sum /= -Ec -big_split /=.
    by apply: eq_big_nat => k /andP [_ Hk]; rewrite ment_mk // mulrDl.
Qed.

(** (s*A)*B = s*(A*B) *)
Theorem scale_product A B s : (0 < mrows A)%N -> mcols A = mrows B ->
  rbind (m_product_s Ops A s) (fun sA => m_product Ops sA B)
  = rbind (m_product Ops A B) (fun AB => m_product_s Ops AB s).
Proof.
  move=> Hr H1; have E1 : mcols A == mrows B by apply/eqP.
  have [-> _ _ _ _] := scalar_spec Ops s Hr; rewrite /= !m_product_spec /= E1 /=.
  have [-> _ _ _ _] := @scalar_spec _ Ops (mk_mat (mrows A) (mcols B) (dotk Ops A B)) s Hr.
  congr Ok; apply: mk_mat_ext => i j Hi Hj; rewrite ment_mk // !dotk_sum /= mulr_sumr.
  by apply: eq_big_nat => k /andP [_ Hk]; rewrite ment_mk // mulrA.
Qed.

(** Trace(A*B) = Trace(B*A) whenever both products are defined (A m x n, B n x m) *)
Theorem trace_product_comm A B : mcols A = mrows B -> mcols B = mrows A ->
  rbind (m_product Ops A B) (trace Ops) = rbind (m_product Ops B A) (trace Ops) /\
  exists t, rbind (m_product Ops A B) (trace Ops) = Ok t.
Proof.
  move=> H1 H2; have E1 : mcols A == mrows B by apply/eqP.
  have E2 : mcols B == mrows A by apply/eqP.
  rewrite !m_product_spec E1 E2 /= !trace_sum /= ?H1 ?H2 //; split; last by eexists.
  congr Ok.
  transitivity (\sum_(0 <= i < mrows A) \sum_(0 <= k < mrows B) ment A i k * ment B k i).
    by apply: eq_big_nat => i /andP [_ Hi]; rewrite ment_mk ?H2 // dotk_sum H1.
  rewrite exchange_big /=; apply: eq_big_nat => k /andP [_ Hk].
  rewrite ment_mk ?H1 // dotk_sum H2; apply: eq_bigr => i _; by rewrite mulrC.
Qed.

(** Norm(transpose(A)) = Norm(A) *)
Theorem norm_transpose A At : (0 < mcols A)%N -> transpose Ops A = Ok At -> m_norm Ops At = m_norm Ops A.
Proof.
  move=> Hc; rewrite transpose_spec // => -[<-]; rewrite /m_norm !norm2_sum /=; congr sqrtR.
  rewrite exchange_big /=; apply: eq_big_nat => i /andP [_ Hi]; apply: eq_big_nat => j /andP [_ Hj].
  by rewrite ment_mk.
Qed.

(** the dot product is bilinear (additive and homogeneous in the first argument; symmetric by [dot_comm]) *)
Theorem dot_bilinear u u' v s : vdim u = vdim v -> vdim u' = vdim v ->
  rbind (vadd Ops u u') (fun w => vdot Ops w v)
  = rbind (vdot Ops u v) (fun a => rbind (vdot Ops u' v) (fun b => Ok (a + b))) /\
  vdot Ops (vscale Ops u s) v = rbind (vdot Ops u v) (fun a => Ok (a * s)).
Proof.
  move=> Hu Hu'; have [-> _ _ _] := vsum_spec Ops u u'; rewrite Hu Hu' eqxx /=; split.
  - rewrite /vadd_tab vec_of_tab !dot_sum //=; congr Ok.
    rewrite Hu Hu' -big_split /=; apply: eq_big_nat => i /andP [_ Hi].
    by rewrite -vec_of_tab vent_tab // mulrDl.
  - rewrite /vscale vec_of_tab !dot_sum //=; congr Ok.
    rewrite mulr_suml; apply: eq_big_nat => i /andP [_ Hi].
    by rewrite -vec_of_tab vent_tab // mulrAC.
Qed.

(** u x v = -(v x u) *)
Lemma neg_cross (a b c d : R) : (a * b - c * d) * -1 = d * c - b * a.
Proof. by rewrite mulrN1 opprB (mulrC c) (mulrC a). Qed.
Theorem cross_anticomm u v w : vcross Ops u v = Ok w -> vcross Ops v u = Ok (vscale Ops w (-1)).
Proof.
  rewrite !vcross_spec andbC; case: andP => // -[/eqP Hv /eqP Hu] [<-]; congr Ok.
  rewrite /vscale /= /tab /= /C04_Model.vent /=.
  by rewrite !neg_cross.
Qed.
End AlgRing.

(** ** A real closed field with its own division and square root: Normalized() is a unit vector *)
Import Order.Theory Num.Theory.
Section AlgRcf.
Variable R : rcfType.
Variables (ltR leR : R -> R -> bool).
Local Notation Ops := (ROps (fun x y : R => x / y) Num.norm Num.sqrt ltR leR).
Local Notation vent := (vent Ops).

Theorem normalized_unit v w : (exists2 i, (i < vdim v)%N & vent v i != 0) -> v_normalized Ops v = Ok w ->
  [/\ vdim w = vdim v, vdot Ops w w = Ok 1 & vnorm Ops w = Ok 1].
Proof.
  move=> [i0 Hi0 Hne]; rewrite /v_normalized vnorm_sum /=.
  set S := \sum_(0 <= i < vdim v) _; move=> [<-].
  have S0 : 0 < S.
    rewrite lt_neqAle eq_sym; apply/andP; split; last by apply: sumr_ge0 => i _; rewrite -expr2 sqr_ge0.
    rewrite /S psumr_eq0; last by move=> i _; rewrite -expr2 sqr_ge0.
    apply/allPn; exists i0; first by rewrite mem_index_iota.
    by rewrite /= mulf_eq0 orbb.
  have HN : Num.sqrt S * Num.sqrt S = S by rewrite -expr2 sqr_sqrtr // ltW.
  set w0 := vec_of _.
  have D : vdot Ops w0 w0 = Ok 1.
    rewrite /w0 vec_of_tab dot_sum //=; congr Ok.
    transitivity (\sum_(0 <= i < vdim v) (vent v i * vent v i) * (Num.sqrt S * Num.sqrt S)^-1).
      by apply: eq_big_nat => i /andP [_ Hi]; rewrite -vec_of_tab vent_tab // mulrACA -invfM.
    by rewrite -mulr_suml HN divff // gt_eqF.
  split=> //; first by rewrite /w0 vec_of_tab.
  by rewrite /vnorm D /= sqrtr1.
Qed.
End AlgRcf.

(** ** Non-vacuity: instances of the hypotheses used above *)
Example comm_laws_instance :
  let v := vec_of [:: 1; 2]%N in
  [/\ v_mul_m NOps v exA = Ok (vec_of [:: 2; 8; 14]%N),
      rbind (transpose NOps exA) (fun At => m_product_v NOps At v) = Ok (vec_of [:: 2; 8; 14]%N),
      rbind (transpose NOps exA) (fun At => m_product NOps At exA)
        = Ok (mkMat 3 3 [:: [:: 1; 3; 5]; [:: 3; 13; 23]; [:: 5; 23; 41]]%N),
      symmetric NOps (mkMat 3 3 [:: [:: 1; 3; 5]; [:: 3; 13; 23]; [:: 5; 23; 41]]%N) &
      rbind (m_plus NOps exA exA) (transpose NOps)
        = rbind (transpose NOps exA) (fun At => rbind (transpose NOps exA) (fun Bt => m_plus NOps At Bt))].
Proof. by vm_compute. Qed.
Lemma NeqbP : forall x y : nat, reflect (x = y) (neqb NOps x y).
Proof. exact: @eqnP. Qed.
Example ring_shapes_instance (R : comRingType) :
  let A := mk_mat 2 3 (fun i j => (i + 2 * j)%:R) : mat R in
  let B := mk_mat 3 4 (fun i j => (3 * i + j + 1)%:R) : mat R in
  let C := mk_mat 4 2 (fun i j => (i * j)%:R) : mat R in
  let D := mk_mat 3 2 (fun i j => (i + j)%:R) : mat R in
  [/\ mcols A = mrows B, mcols B = mrows C, mcols A = mrows D /\ mcols D = mrows A,
      same_shape B B /\ (0 < mrows A)%N /\ (0 < mrows B)%N & mrows A <> mcols A].
Proof. by []. Qed.
Example normalized_instance (R : rcfType) (ltR leR : R -> R -> bool) :
  let Ops := ROps (fun x y : R => x / y) Num.norm Num.sqrt ltR leR in
  let v := vec_of [:: 3%:R; 4%:R] : vec R in
  (exists2 i, (i < vdim v)%N & vent Ops v i != 0) /\ exists w, v_normalized Ops v = Ok w.
Proof.
  split; first by exists 0%N => //=; rewrite /C04_Model.vent /= pnatr_eq0.
  by case: (normalized_spec (ROps (fun x y : R => x / y) Num.norm Num.sqrt ltR leR) (vec_of [:: 3%:R; 4%:R])).
Qed.
