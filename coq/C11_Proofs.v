(** * C11 proofs: descent and consistency of the minimisers over an abstract total order
    (arithmetic uninterpreted: every statement holds for IEEE doubles without NaN objective values) *)
From Coq Require Import ZArith List Bool Lia Arith.
From LP Require Import Num NumR OrdLaws C11_Model.
Import ListNotations.

Section Order.
Context {T : Type} (Ops : NumOps T) (OL : OrdLaws Ops).

Definition lt (x y : T) : Prop := nltb Ops x y = true.
Definition le (x y : T) : Prop := nltb Ops y x = false.

Lemma le_refl x : le x x.
Proof. apply (ol_irrefl Ops OL). Qed.
Lemma lt_le x y : lt x y -> le x y.
Proof.
  unfold lt, le. intros H. destruct (nltb Ops y x) eqn:E; auto.
  pose proof (ol_trans Ops OL x y x H E) as H2. rewrite (ol_irrefl Ops OL) in H2. discriminate.
Qed.
Lemma eqb_sym x y : neqb Ops x y = true -> neqb Ops y x = true.
Proof. intros H. apply (ol_eq Ops OL) in H. apply (ol_eq Ops OL). tauto. Qed.
Lemma le_trans x y z : le x y -> le y z -> le x z.
Proof.
  unfold le. intros A B. destruct (nltb Ops z x) eqn:E; auto. exfalso.
  destruct (ol_total Ops OL y x) as [H|[H|H]].
  - congruence.
  - (* y = x *) rewrite (ol_eq_lt_r Ops OL x y z (eqb_sym _ _ H)) in E. congruence.
  - pose proof (ol_trans Ops OL z x y E H). congruence.
Qed.
Lemma lt_le_trans x y z : lt x y -> le y z -> le x z.
Proof. intros A B. eapply le_trans; [apply lt_le; exact A|exact B]. Qed.
Lemma not_lt_le x y : nltb Ops x y = false -> le y x.
Proof. auto. Qed.
Lemma nleb_le x y : nleb Ops x y = true <-> le x y.
Proof. rewrite (ol_le Ops OL). unfold le. destruct (nltb Ops y x); simpl; split; congruence. Qed.
Lemma nleb_false_lt x y : nleb Ops x y = false -> lt y x.
Proof. rewrite (ol_le Ops OL). unfold lt. destruct (nltb Ops y x); simpl; congruence. Qed.
Lemma ngtb_lt x y : ngtb Ops x y = true <-> lt y x.
Proof. unfold ngtb, lt. tauto. Qed.
Lemma ngtb_false_le x y : ngtb Ops x y = false -> le x y.
Proof. unfold ngtb, le. auto. Qed.
Lemma ngeb_le x y : ngeb Ops x y = true <-> le y x.
Proof. unfold ngeb. apply nleb_le. Qed.

Ltac norm_ord :=
  repeat match goal with
  | H : nltb Ops ?a ?b = true |- _ => change (lt a b) in H
  | H : nltb Ops ?a ?b = false |- _ => change (le b a) in H
  | H : ngtb Ops ?a ?b = true |- _ => change (lt b a) in H
  | H : ngtb Ops ?a ?b = false |- _ => change (le a b) in H
  end.

(** ** Bracket *)
Section OneD.
Variable f : T -> T.

(** the state invariant of the bracketing loop; m is any bound that fb has already reached *)
Definition BInv (m : T) (s : brk) : Prop :=
  b_fa s = f (b_ax s) /\ b_fb s = f (b_bx s) /\ b_fc s = f (b_cx s) /\ le (b_fb s) (b_fa s) /\ le (b_fb s) m.
Definition BPost (m : T) (s : brk) : Prop := BInv m s /\ le (b_fb s) (b_fc s).

Lemma bracket_body_inv m s : BInv m s -> lt (b_fc s) (b_fb s) ->
  match bracket_body Ops f s with
  | BrkRet s' _ => BPost m s'
  | BrkCont s' _ => BInv m s'
  end.
Proof.
  intros (Ha & Hb & Hc & Hba & Hm) Hlt. unfold bracket_body.
  generalize (bracket_u Ops s) (bracket_ulim Ops s). intros u ulim.
  destruct s as [ax bx cx fa fb fc]. cbn [b_ax b_bx b_cx b_fa b_fb b_fc] in *.
  assert (Hcb : le fc fb) by (apply lt_le; exact Hlt).
  assert (Hcm : le fc m) by (eapply le_trans; eauto).
  repeat (lazymatch goal with |- context [if ?c then _ else _] => destruct c eqn:? end);
    norm_ord; unfold BPost, BInv; cbn; repeat split; auto;
    eauto 4 using le_refl, lt_le, le_trans, lt_le_trans.
Qed.

Lemma bracket_loop_post m : forall fuel s tr s' tr',
  BInv m s -> bracket_loop Ops f fuel s tr = Ok (s', tr') -> BPost m s'.
Proof.
  induction fuel as [|k IH]; intros s tr s' tr' HI H; cbn [bracket_loop] in H; [discriminate|].
  destruct (ngtb Ops (b_fb s) (b_fc s)) eqn:E.
  - pose proof (bracket_body_inv m s HI (proj1 (ngtb_lt _ _) E)) as HB.
    destruct (bracket_body Ops f s) as [s1 ev|s1 ev].
    + inversion H; subst. exact HB.
    + eapply IH; eauto.
  - inversion H; subst. split; [exact HI|]. apply ngtb_false_le. exact E.
Qed.

(** bracket_post: on every return path fa,fb,fc are f at ax,bx,cx, fb <= fa, fb <= fc, and fb is not above f
    at either starting abscissa *)
Theorem bracket_post a b s tr : bracket Ops f a b = Ok (s, tr) ->
  b_fa s = f (b_ax s) /\ b_fb s = f (b_bx s) /\ b_fc s = f (b_cx s) /\
  le (b_fb s) (b_fa s) /\ le (b_fb s) (b_fc s) /\ le (b_fb s) (f a) /\ le (b_fb s) (f b).
Proof.
  unfold bracket. intros H.
  destruct (ngtb Ops (f b) (f a)) eqn:E.
  - (* swapped: bx = a *)
    assert (Hab : le (f a) (f b)) by (apply lt_le, ngtb_lt; exact E).
    apply (bracket_loop_post (f a)) in H; [|unfold BInv; cbn; repeat split; auto using le_refl].
    destruct H as ((A1 & A2 & A3 & A4 & A5) & A6).
    repeat split; auto. exact (le_trans _ _ _ A5 Hab).
  - assert (Hba : le (f b) (f a)) by (apply ngtb_false_le; exact E).
    apply (bracket_loop_post (f b)) in H; [|unfold BInv; cbn; repeat split; auto using le_refl].
    destruct H as ((A1 & A2 & A3 & A4 & A5) & A6).
    repeat split; auto. exact (le_trans _ _ _ A5 Hba).
Qed.

(** ** Brent *)
(** fx = f x, and every other retained value is f at its abscissa *)
Definition SInv (s : bst) : Prop := s_fx s = f (s_x s) /\ s_fw s = f (s_w s) /\ s_fv s = f (s_v s).

Lemma brent_step_descent tol s : SInv s ->
  match brent_step Ops f tol s with
  | BDone xm fm => xm = s_x s /\ fm = s_fx s
  | BNext s' u => SInv s' /\ le (s_fx s') (s_fx s) /\ (s_x s' = u \/ s_x s' = s_x s)
  end.
Proof.
  intros (Hx & Hw & Hv). unfold brent_step.
  destruct (brent_done Ops tol s); [split; reflexivity|].
  destruct (brent_trial Ops tol s) as [[d e] u].
  destruct s as [a b d0 e0 v w x fv fw fx]. cbn [s_x s_fx s_w s_fw s_v s_fv] in *.
  destruct (nleb Ops (f u) fx) eqn:E1.
  - unfold SInv; cbn. repeat split; auto. apply nleb_le; exact E1.
  - destruct (nleb Ops (f u) fw || neqb Ops w x) eqn:E2;
      [|destruct (nleb Ops (f u) fv || neqb Ops v x || neqb Ops v w) eqn:E3];
      unfold SInv; cbn; repeat split; auto using le_refl.
Qed.

Lemma brent_loop_descent tol : forall fuel s tr xm fm tr',
  SInv s -> brent_loop Ops f fuel tol s tr = Ok (xm, fm, tr') -> fm = f xm /\ le fm (s_fx s).
Proof.
  induction fuel as [|k IH]; intros s tr xm fm tr' HI H; cbn [brent_loop] in H; [discriminate|].
  pose proof (brent_step_descent tol s HI) as HS.
  destruct (brent_step Ops f tol s) as [x1 f1|s1 u].
  - inversion H; subst. destruct HS as [-> ->]. split; [apply HI|apply le_refl].
  - destruct HS as (HI1 & Hle & _). destruct (IH _ _ _ _ _ HI1 H) as [A B].
    split; [exact A|]. eapply le_trans; eauto.
Qed.

(** brent_descent: the returned x_min has f(x_min) = f_min <= f(bx) of the bracket *)
Theorem brent_descent tol bk tr xm fm tr' : brent Ops f tol bk tr = Ok (xm, fm, tr') ->
  fm = f xm /\ le fm (f (b_bx bk)).
Proof.
  unfold brent. destruct bk as [ax bx cx fa fb fc]. intros H.
  apply brent_loop_descent in H; [exact H|]. unfold SInv; cbn. auto.
Qed.

(** find_minimum_not_worse *)
Theorem find_minimum_full_not_worse xl xr tol xm fm tr : find_minimum_full Ops f xl xr tol = Ok (xm, fm, tr) ->
  fm = f xm /\ le (f xm) (f xl) /\ le (f xm) (f xr).
Proof.
  unfold find_minimum_full. destruct (bracket Ops f xl xr) as [[bk tr0]| | |] eqn:EB; cbn [rbind]; try discriminate.
  cbn [fst snd]. destruct (brent Ops f tol bk tr0) as [[[x1 f1] tr1]| | |] eqn:EM; cbn [rbind]; try discriminate.
  cbn [fst snd]. intros H; inversion H; subst.
  destruct (bracket_post _ _ _ _ EB) as (_ & Hb & _ & _ & _ & Hl & Hr).
  destruct (brent_descent _ _ _ _ _ _ EM) as [Hf Hle]. rewrite <- Hb in Hle.
  split; [exact Hf|]. rewrite <- Hf. split; [exact (le_trans _ _ _ Hle Hl)|exact (le_trans _ _ _ Hle Hr)].
Qed.

Theorem find_minimum_not_worse xl xr tol xm tr : find_minimum Ops f xl xr tol = Ok (xm, tr) ->
  le (f xm) (f xl) /\ le (f xm) (f xr).
Proof.
  unfold find_minimum, rmap. destruct (find_minimum_full Ops f xl xr tol) as [[[x1 f1] tr1]| | |] eqn:E; cbn [rbind]; try discriminate.
  cbn [fst snd]. intros H; inversion H; subst. apply (find_minimum_full_not_worse _ _ _ _ _ _ E).
Qed.
End OneD.

(** find_maximum_is_minimum_of_neg (any number type: by definition of the code) *)
Theorem find_maximum_is_minimum_of_neg (f : T -> T) xl xr tol :
  find_maximum Ops f xl xr tol = find_minimum Ops (fun x => nmul Ops (nneg Ops (n1 Ops)) (f x)) xl xr tol.
Proof. reflexivity. Qed.

(** ** Nelder-Mead *)
Section ND.
Variable f : list T -> T.

Lemma length_updv {A} (l : list A) i v : length (updv l i v) = length l.
Proof. revert i; induction l as [|a l IH]; intros [|i]; simpl; auto. Qed.
Lemma nth_updv {A} (l : list A) i j v d : (i < length l)%nat ->
  nth j (updv l i v) d = if Nat.eqb j i then v else nth j l d.
Proof.
  revert i j; induction l as [|a l IH]; intros i j Hi; simpl in *; [lia|].
  destruct i, j; simpl; auto. apply IH; lia.
Qed.
Lemma nth_updv_ge {A} (l : list A) i v : (length l <= i)%nat -> updv l i v = l.
Proof. revert i; induction l as [|a l IH]; intros [|i] H; simpl in *; auto; try lia. f_equal. apply IH; lia. Qed.
Lemma map_updv {A B} (g : A -> B) (l : list A) i v : map g (updv l i v) = updv (map g l) i (g v).
Proof. revert i; induction l as [|a l IH]; intros [|i]; simpl; auto. f_equal; auto. Qed.

Definition yv (s : nmst) (i : nat) : T := nth0 Ops (nm_y s) i.

(** y[i] = f(simplex[i]) for every vertex *)
Definition Consistent (s : nmst) : Prop := nm_y s = map f (nm_p s).
(** some vertex value is <= m *)
Definition Best (m : T) (s : nmst) : Prop := exists i, (i < length (nm_y s))%nat /\ le (yv s i) m.

Lemma amotry_props s ndim ihi fac : (ihi < length (nm_y s))%nat ->
  let s' := fst (amotry Ops f s ndim ihi fac) in
  (Consistent s -> Consistent s') /\
  length (nm_y s') = length (nm_y s) /\
  (forall k, le (yv s' k) (yv s k)) /\
  nm_nfunc s' = nm_nfunc s.
Proof.
  intros Hi. unfold amotry. set (pt := amotry_point Ops s ndim ihi fac).
  destruct (nltb Ops (f pt) (nth0 Ops (nm_y s) ihi)) eqn:E; cbn [fst nm_y nm_p nm_nfunc].
  - split; [|split; [|split]].
    + unfold Consistent; cbn [nm_y nm_p]. intros ->. now rewrite map_updv.
    + apply length_updv.
    + intros k. unfold yv, nth0; cbn [nm_y]. rewrite nth_updv by exact Hi.
      destruct (Nat.eqb_spec k ihi) as [->|]; [apply lt_le; exact E|apply le_refl].
    + reflexivity.
  - split; [|split; [|split]]; auto. intros k. apply le_refl.
Qed.

Lemma Best_mono m s s' : length (nm_y s') = length (nm_y s) -> (forall k, le (yv s' k) (yv s k)) -> Best m s -> Best m s'.
Proof. intros Hl Hk (i & Hi & Hle). exists i. split; [lia|]. eapply le_trans; eauto. Qed.

(** *** the scan *)
Lemma nm_scan_spec (y : list T) : forall ys i ilo ihi inhi ilo' ihi' inhi',
  (i + length ys = length y)%nat -> (forall k, (k < length ys)%nat -> nth k ys (n0 Ops) = nth0 Ops y (i + k)) ->
  (ilo < length y)%nat -> (ihi < length y)%nat ->
  (forall k, (k < i)%nat -> le (nth0 Ops y ilo) (nth0 Ops y k)) ->
  nm_scan Ops y ys i ilo ihi inhi = (ilo', ihi', inhi') ->
  (ilo' < length y)%nat /\ (ihi' < length y)%nat /\ forall k, (k < length y)%nat -> le (nth0 Ops y ilo') (nth0 Ops y k).
Proof.
  induction ys as [|yi rest IH]; intros i ilo ihi inhi ilo' ihi' inhi' Hlen Hys Hlo Hhi Hmin H; cbn [nm_scan] in H.
  - inversion H; subst. cbn [length] in Hlen. split; [auto|]. split; [auto|]. intros k Hk. apply Hmin. lia.
  - cbn [length] in Hlen.
    assert (Hyi : yi = nth0 Ops y i).
    { specialize (Hys 0%nat ltac:(cbn; lia)). cbn in Hys. now rewrite Nat.add_0_r in Hys. }
    eapply IH in H; [exact H|lia| | | |].
    + intros k Hk. specialize (Hys (S k) ltac:(cbn; lia)). cbn in Hys. rewrite Hys. f_equal. lia.
    + destruct (nleb Ops yi (nth0 Ops y ilo)); lia.
    + destruct (ngtb Ops yi (nth0 Ops y ihi)); cbn [fst]; [lia|].
      destruct (ngtb Ops yi (nth0 Ops y inhi) && negb (Nat.eqb i ihi)); cbn [fst]; lia.
    + intros k Hk. destruct (nleb Ops yi (nth0 Ops y ilo)) eqn:E.
      * apply nleb_le in E. rewrite Hyi in E.
        destruct (Nat.eq_dec k i) as [->|Hne]; [apply le_refl|].
        eapply le_trans; [exact E|]. apply Hmin. lia.
      * apply nleb_false_lt in E. rewrite Hyi in E.
        destruct (Nat.eq_dec k i) as [->|Hne]; [apply lt_le; exact E|]. apply Hmin. lia.
Qed.

Lemma nm_extremes_spec y ilo ihi inhi : (2 <= length y)%nat -> nm_extremes Ops y = (ilo, ihi, inhi) ->
  (ilo < length y)%nat /\ (ihi < length y)%nat /\ forall k, (k < length y)%nat -> le (nth0 Ops y ilo) (nth0 Ops y k).
Proof.
  intros Hl H. unfold nm_extremes in H.
  eapply nm_scan_spec in H; [exact H|reflexivity| | | |].
  - intros k _. reflexivity.
  - lia.
  - destruct (ngtb Ops (nth0 Ops y 0) (nth0 Ops y 1)); cbn [fst]; lia.
  - intros k Hk. lia.
Qed.

(** *** the shrink *)
Lemma length_shrink_rows rows : forall i ilo plo, length (shrink_rows Ops rows i ilo plo) = length rows.
Proof. induction rows as [|r rest IH]; intros; simpl; auto. Qed.

Lemma shrink_consistent : forall rows ys i ilo plo, ys = map f rows ->
  shrink_ys f (shrink_rows Ops rows i ilo plo) ys i ilo = map f (shrink_rows Ops rows i ilo plo).
Proof.
  induction rows as [|r rest IH]; intros ys i ilo plo ->; [reflexivity|].
  cbn [shrink_rows map shrink_ys]. destruct (Nat.eqb i ilo); f_equal; apply IH; reflexivity.
Qed.

Lemma shrink_keeps_ilo : forall rows ys i ilo plo k, length ys = length rows -> (i + k = ilo)%nat -> (k < length rows)%nat ->
  nth k (shrink_ys f (shrink_rows Ops rows i ilo plo) ys i ilo) (n0 Ops) = nth k ys (n0 Ops).
Proof.
  induction rows as [|r rest IH]; intros ys i ilo plo k Hl Hk Hlt; [simpl in Hlt; lia|].
  destruct ys as [|yv0 ys]; [simpl in Hl; lia|].
  cbn [shrink_rows shrink_ys]. destruct k as [|k].
  - assert (Nat.eqb i ilo = true) as -> by (apply Nat.eqb_eq; lia). reflexivity.
  - cbn [nth]. apply IH; simpl in *; lia.
Qed.

Lemma length_shrink_ys : forall rows ys i ilo, length ys = length rows -> length (shrink_ys f rows ys i ilo) = length rows.
Proof.
  induction rows as [|r rest IH]; intros [|yv0 ys] i ilo H; simpl in *; try lia; auto.
Qed.

(** *** one iteration *)
Definition WF (mpts : nat) (s : @nmst T) : Prop := (2 <= mpts)%nat /\ length (nm_y s) = mpts /\ length (nm_p s) = mpts.

Lemma amotry_wf mpts s ndim ihi fac : WF mpts s -> Consistent s -> WF mpts (fst (amotry Ops f s ndim ihi fac)).
Proof.
  intros (H2 & Hy & Hp) HC. unfold amotry. destruct (nltb Ops _ _); cbn [fst]; unfold WF; cbn [nm_y nm_p];
    rewrite ?length_updv; auto.
Qed.

Lemma swapv_nth {A} (d : A) l i j k : (i < length l)%nat -> (j < length l)%nat ->
  nth k (swapv d l i j) d = if Nat.eqb k j then nth i l d else if Nat.eqb k i then nth j l d else nth k l d.
Proof.
  intros Hi Hj. unfold swapv. rewrite nth_updv by (rewrite length_updv; exact Hj).
  destruct (Nat.eqb k j); [reflexivity|]. now rewrite nth_updv by exact Hi.
Qed.
Lemma length_swapv {A} (d : A) l i j : length (swapv d l i j) = length l.
Proof. unfold swapv. now rewrite !length_updv. Qed.

Lemma map_swapv (l : list (list T)) i j : (i < length l)%nat -> (j < length l)%nat ->
  map f (swapv [] l i j) = swapv (n0 Ops) (map f l) i j.
Proof.
  intros Hi Hj. unfold swapv. rewrite !map_updv. f_equal; [f_equal|].
  - rewrite (nth_indep _ (n0 Ops) (f [])) by (rewrite map_length; exact Hj). symmetry. apply map_nth.
  - rewrite (nth_indep _ (n0 Ops) (f [])) by (rewrite map_length; exact Hi). symmetry. apply map_nth.
Qed.

(** what one pass of the loop guarantees *)
Theorem nm_iter_spec ftol ndim mpts s : WF mpts s -> Consistent s ->
  match nm_iter Ops f ftol ndim s with
  | NNext s' =>
      WF mpts s' /\ Consistent s' /\ (forall m, Best m s -> Best m s')
  | NDone o =>
      o_y o = map f (o_simplex o) /\ length (o_y o) = mpts /\
      o_fmin o = nth0 Ops (o_y o) 0 /\ o_pmin o = nth 0 (o_simplex o) [] /\ o_fmin o = f (o_pmin o) /\
      (forall k, (k < mpts)%nat -> le (o_fmin o) (nth0 Ops (o_y o) k)) /\
      (forall m, Best m s -> le (o_fmin o) m)
  | NExit => True
  end.
Proof.
  intros HW HC. pose proof HW as (H2 & Hy & Hp). unfold nm_iter.
  destruct (nm_extremes Ops (nm_y s)) as [[ilo ihi] inhi] eqn:EX.
  assert (H2' : (2 <= length (nm_y s))%nat) by lia.
  destruct (nm_extremes_spec _ _ _ _ H2' EX) as (Hlo & Hhi & Hmin).
  destruct (nltb Ops _ ftol) eqn:Et.
  - (* return *)
    cbn [o_y o_simplex o_fmin o_pmin].
    assert (Hmap : swapv (zero Ops) (nm_y s) 0 ilo = map f (swapv [] (nm_p s) 0 ilo)).
    { rewrite map_swapv by lia. unfold Consistent in HC. rewrite <- HC. reflexivity. }
    assert (H0 : nth0 Ops (swapv (zero Ops) (nm_y s) 0 ilo) 0 = nth0 Ops (nm_y s) ilo).
    { unfold nth0, zero. rewrite swapv_nth by lia. destruct (Nat.eqb_spec 0 ilo) as [<-|]; reflexivity. }
    split; [exact Hmap|]. split; [rewrite length_swapv; exact Hy|]. split; [reflexivity|]. split; [reflexivity|].
    split.
    { unfold row. rewrite Hmap at 1. unfold nth0.
      rewrite (nth_indep _ (n0 Ops) (f [])) by (rewrite map_length, length_swapv; lia). apply map_nth. }
    rewrite H0. split.
    + intros k Hk. unfold nth0, zero. rewrite swapv_nth by lia.
      destruct (Nat.eqb k ilo); [apply Hmin; lia|]. destruct (Nat.eqb k 0); apply Hmin; lia.
    + intros m (i & Hi & Hle). eapply le_trans; [apply Hmin; exact Hi|exact Hle].
  - destruct (Z.geb (nm_nfunc s) nm_NMAX); [exact I|].
    set (s0 := mkNM (nm_p s) (nm_y s) (nm_psum s) (nm_nfunc s + 2)%Z (nm_tr s)).
    assert (HW0 : WF mpts s0) by exact HW.
    assert (HC0 : Consistent s0) by exact HC.
    assert (Hhi0 : (ihi < length (nm_y s0))%nat) by exact Hhi.
    pose proof (amotry_props s0 ndim ihi (nneg Ops (one Ops)) Hhi0) as A1. cbv zeta in A1.
    pose proof (amotry_wf mpts s0 ndim ihi (nneg Ops (one Ops)) HW0 HC0) as W1.
    destruct (amotry Ops f s0 ndim ihi (nneg Ops (one Ops))) as [s1 ytry]. cbn [fst] in A1, W1.
    destruct A1 as (C1 & L1 & M1 & _). specialize (C1 HC0).
    assert (B1 : forall m, Best m s -> Best m s1).
    { intros m HB. apply (Best_mono m s0 s1 L1 M1). exact HB. }
    assert (Hhi1 : (ihi < length (nm_y s1))%nat) by (rewrite L1; exact Hhi0).
    destruct (nleb Ops ytry (nth0 Ops (nm_y s1) ilo)).
    { (* expansion *)
      pose proof (amotry_props s1 ndim ihi (two Ops) Hhi1) as A2. cbv zeta in A2.
      pose proof (amotry_wf mpts s1 ndim ihi (two Ops) W1 C1) as W2.
      destruct A2 as (C2 & L2 & M2 & _).
      split; [exact W2|]. split; [exact (C2 C1)|]. intros m HB. apply (Best_mono m s1 _ L2 M2). auto. }
    destruct (ngeb Ops ytry (nth0 Ops (nm_y s1) inhi)).
    + (* contraction *)
      pose proof (amotry_props s1 ndim ihi (half Ops) Hhi1) as A2. cbv zeta in A2.
      pose proof (amotry_wf mpts s1 ndim ihi (half Ops) W1 C1) as W2.
      destruct (amotry Ops f s1 ndim ihi (half Ops)) as [s2 ytry2]. cbn [fst] in A2, W2.
      destruct A2 as (C2 & L2 & M2 & _). specialize (C2 C1).
      assert (B2 : forall m, Best m s -> Best m s2).
      { intros m HB. apply (Best_mono m s1 s2 L2 M2). auto. }
      destruct (ngeb Ops ytry2 (nth0 Ops (nm_y s1) ihi)); [|split; [exact W2|split; [exact C2|exact B2]]].
      (* shrink *)
      destruct W2 as (_ & Wy & Wp).
      set (p' := shrink_rows Ops (nm_p s2) 0 ilo (row (nm_p s2) ilo)).
      assert (Hy' : shrink_ys f p' (nm_y s2) 0 ilo = map f p') by (apply shrink_consistent; exact C2).
      split; [|split].
      * unfold WF; cbn [nm_y nm_p]. rewrite Hy', map_length. unfold p'. rewrite length_shrink_rows. auto.
      * unfold Consistent; cbn [nm_y nm_p]. exact Hy'.
      * intros m HB. exists ilo. cbn [nm_y]. split.
        -- rewrite Hy', map_length. unfold p'. rewrite length_shrink_rows. lia.
        -- unfold yv, nth0; cbn [nm_y]. unfold p'.
           rewrite (shrink_keeps_ilo (nm_p s2) (nm_y s2) 0 ilo _ ilo) by lia.
           (* y2[ilo] <= y1[ilo] <= y0[ilo] <= every y0[i] *)
           destruct HB as (i & Hi & Hle).
           eapply le_trans; [apply (M2 ilo)|]. eapply le_trans; [apply (M1 ilo)|].
           eapply le_trans; [apply Hmin; exact Hi|exact Hle].
    + (* reflection only *)
      split; [exact W1|]. split; [exact C1|]. exact B1.
Qed.

Lemma nm_loop_spec ftol ndim mpts : forall fuel s o, WF mpts s -> Consistent s -> nm_loop Ops f fuel ftol ndim s = Ok o ->
  o_y o = map f (o_simplex o) /\ length (o_y o) = mpts /\
  o_fmin o = nth0 Ops (o_y o) 0 /\ o_pmin o = nth 0 (o_simplex o) [] /\ o_fmin o = f (o_pmin o) /\
  (forall k, (k < mpts)%nat -> le (o_fmin o) (nth0 Ops (o_y o) k)) /\
  (forall m, Best m s -> le (o_fmin o) m).
Proof.
  induction fuel as [|k IH]; intros s o HW HC H; cbn [nm_loop] in H; [discriminate|].
  pose proof (nm_iter_spec ftol ndim mpts s HW HC) as HS.
  destruct (nm_iter Ops f ftol ndim s) as [o1|s1|]; try discriminate.
  - inversion H; subst. exact HS.
  - destruct HS as (W1 & C1 & B1). destruct (IH s1 o W1 C1 H) as (A1 & A2 & A3 & A4 & A5 & A6 & A7).
    repeat split; auto.
Qed.

(** on return: the reported values are f at the reported simplex, fmin = y[0] = f(returned point) =
    f(simplex[0]), y[0] <= every y[i], and fmin <= f at every initial vertex *)
Theorem minimize_general_spec ftol pp o : minimize_general Ops f ftol pp = Ok o ->
  o_y o = map f (o_simplex o) /\ length (o_y o) = length pp /\
  o_fmin o = nth0 Ops (o_y o) 0 /\ o_pmin o = nth 0 (o_simplex o) [] /\ o_fmin o = f (o_pmin o) /\
  (forall k, (k < length pp)%nat -> le (o_fmin o) (nth0 Ops (o_y o) k)) /\
  (forall k, (k < length pp)%nat -> le (o_fmin o) (f (nth k pp []))).
Proof.
  unfold minimize_general. destruct pp as [|r0 rest] eqn:Epp; [discriminate|]. rewrite <- Epp.
  destruct (Nat.ltb (length pp) 2) eqn:E2; [discriminate|]. apply Nat.ltb_ge in E2.
  destruct (negb _); [discriminate|]. intros H.
  apply (nm_loop_spec ftol (length r0) (length pp)) in H.
  - destruct H as (A1 & A2 & A3 & A4 & A5 & A6 & A7). repeat split; auto.
    intros k Hk. apply A7. exists k. cbn [nm_y]. rewrite map_length. split; [exact Hk|].
    unfold yv, nth0; cbn [nm_y]. rewrite (nth_indep _ (n0 Ops) (f [])) by (rewrite map_length; exact Hk).
    rewrite map_nth. apply le_refl.
  - unfold WF; cbn [nm_y nm_p]. rewrite map_length. auto.
  - reflexivity.
Qed.

(** *** the convenience overloads build the stated simplex *)
Lemma add_at_nth : forall l d k j, (length d = length l)%nat -> (k < length l)%nat ->
  nth j (add_at Ops l d k) (n0 Ops) = if Nat.eqb j k then nadd Ops (nth j l (n0 Ops)) (nth j d (n0 Ops)) else nth j l (n0 Ops).
Proof.
  induction l as [|a l IH]; intros d k j Hd Hk; [simpl in Hk; lia|].
  destruct d as [|b d]; [simpl in Hd; lia|].
  destruct k as [|k]; cbn [add_at].
  - destruct j; reflexivity.
  - destruct j as [|j]; [reflexivity|]. cbn [nth]. rewrite IH by (simpl in *; lia). reflexivity.
Qed.
Lemma length_add_at : forall l d k, length (add_at Ops l d k) = length l.
Proof. induction l as [|a l IH]; intros [|b d] [|k]; simpl; auto. Qed.

Theorem simplex_of_spec start deltas : length deltas = length start ->
  let pp := simplex_of Ops start deltas in
  length pp = S (length start) /\
  nth 0 pp [] = start /\
  forall i, (i < length start)%nat ->
    length (nth (S i) pp []) = length start /\
    forall j, nth j (nth (S i) pp []) (n0 Ops) =
              if Nat.eqb j i then nadd Ops (nth j start (n0 Ops)) (nth j deltas (n0 Ops)) else nth j start (n0 Ops).
Proof.
  intros Hd pp. unfold pp, simplex_of. split; [cbn; now rewrite map_length, seq_length|]. split; [reflexivity|].
  intros i Hi. cbn [nth].
  rewrite (nth_indep _ [] (add_at Ops start deltas 0)) by (rewrite map_length, seq_length; exact Hi).
  rewrite (map_nth (fun k => add_at Ops start deltas k)), seq_nth by exact Hi. cbn [Nat.add].
  split; [apply length_add_at|]. intros j. apply add_at_nth; auto.
Qed.

Theorem minimize_overloads ftol start deltas delta :
  minimize_delta Ops f ftol start delta = minimize_deltas Ops f ftol start (repeat delta (length start)) /\
  (length deltas <> length start -> minimize_deltas Ops f ftol start deltas = Exit) /\
  (length deltas = length start ->
     minimize_deltas Ops f ftol start deltas = minimize_general Ops f ftol (simplex_of Ops start deltas)).
Proof.
  split; [reflexivity|]. unfold minimize_deltas. split; intros H.
  - apply Nat.eqb_neq in H. now rewrite H.
  - apply Nat.eqb_eq in H. now rewrite H.
Qed.
End ND.
End Order.

(** ** over the reals: Find_Maximum does not end below either starting value *)
From Coq Require Import Reals Lra.
Local Open Scope R_scope.
Theorem find_maximum_not_worse (f : R -> R) xl xr tol xm tr : find_maximum ROps f xl xr tol = Ok (xm, tr) ->
  f xl <= f xm /\ f xr <= f xm.
Proof.
  intros H. rewrite find_maximum_is_minimum_of_neg in H.
  destruct (find_minimum_not_worse ROps ROps_OrdLaws _ _ _ _ _ _ H) as [A B].
  unfold le in A, B. cbn in A, B. apply Rltb_false in A, B. lra.
Qed.

(** ** Non-vacuity: the models return on concrete inputs (computed inside Coq on an exact rational order) *)
Local Close Scope R_scope.
Local Open Scope Z_scope.
(** the integers with integer division: a computable instance satisfying [OrdLaws] (the theorems use no
    arithmetic law, so any interpretation of the arithmetic will do) *)
Definition ZOps : NumOps Z := {|
  n0 := 0; n1 := 1; nadd := Z.add; nsub := Z.sub; nmul := Z.mul; ndiv := Z.div;
  nneg := Z.opp; nabs := Z.abs; nsqrt := Z.sqrt;
  nltb := Z.ltb; nleb := Z.leb; neqb := Z.eqb;
  nofZ := fun z => z; nisnan := fun _ => false;
  nexp := fun z => z; nln := fun z => z; nlog10 := fun z => z; nsin := fun z => z; ncos := fun z => z; nacos := fun z => z;
  nfloor := fun z => z; nerf := fun z => z; npow := fun x _ => x; npowi := fun x _ => x;
  nlit := fun num den _ _ => num / den; ntrunc := fun z => z |}.

Lemma ZOps_OrdLaws : OrdLaws ZOps.
Proof.
  constructor; cbn; intros.
  - apply Z.ltb_irrefl.
  - apply Z.ltb_lt in H, H0. apply Z.ltb_lt. lia.
  - destruct (Z.lt_trichotomy x y) as [H|[H|H]]; [left; now apply Z.ltb_lt|right; left; now apply Z.eqb_eq|right; right; now apply Z.ltb_lt].
  - destruct (Z.leb_spec x y), (Z.ltb_spec y x); simpl; auto; lia.
  - rewrite Z.eqb_eq, !Z.ltb_ge. lia.
  - apply Z.eqb_eq in H. now subst.
  - apply Z.eqb_eq in H. now subst.
Qed.

Example ex_find_minimum : exists xm tr, find_minimum ZOps (fun x => (x - 7) * (x - 7)) 0 1 1 = Ok (xm, tr).
Proof. eexists; eexists. vm_compute. reflexivity. Qed.

Example ex_minimize : exists o,
  minimize_delta ZOps (fun p => nth 0 p 0 * nth 0 p 0 + 3 * (nth 1 p 0 - 3) * (nth 1 p 0 - 3)) 1 [20; -31] 16 = Ok o /\ o_nfunc o = 9.
Proof. eexists. vm_compute. split; reflexivity. Qed.
