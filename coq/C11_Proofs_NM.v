(** * C11 proofs: Nelder-Mead always terminates, nfunc is the evaluation counter, and a returned simplex has
    fractional range below ftol (abstract number type; arithmetic uninterpreted) *)
From Coq Require Import ZArith List Bool Lia Arith.
From LP Require Import Num OrdLaws C11_Model C11_Proofs.
Import ListNotations.

Section Count.
Context {T : Type} (Ops : NumOps T).
Variable f : list T -> T.

Lemma amotry_nfunc s ndim ihi fac : nm_nfunc (fst (amotry Ops f s ndim ihi fac)) = nm_nfunc s.
Proof. unfold amotry. destruct (nltb _ _ _); reflexivity. Qed.
Lemma amotry_trlen s ndim ihi fac : length (nm_tr (fst (amotry Ops f s ndim ihi fac))) = S (length (nm_tr s)).
Proof. unfold amotry. destruct (nltb _ _ _); reflexivity. Qed.
Lemma amotry_plen s ndim ihi fac : length (nm_p (fst (amotry Ops f s ndim ihi fac))) = length (nm_p s).
Proof. unfold amotry. destruct (nltb _ _ _); cbn; [apply length_updv|reflexivity]. Qed.

Lemma shrink_trace_len : forall (rows : list (list T)) i ilo tr,
  length (shrink_trace rows i ilo tr) =
  (if Nat.leb i ilo && Nat.ltb ilo (i + length rows) then length tr + length rows - 1 else length tr + length rows)%nat.
Proof.
  induction rows as [|r rest IH]; intros i ilo tr; cbn [shrink_trace length].
  - destruct (Nat.leb_spec i ilo), (Nat.ltb_spec ilo (i + 0)); cbn; lia.
  - rewrite IH. destruct (Nat.eqb_spec i ilo) as [->|Hne].
    + destruct (Nat.leb_spec (S ilo) ilo); [lia|]. cbn [andb].
      destruct (Nat.leb_spec ilo ilo); [|lia]. destruct (Nat.ltb_spec ilo (ilo + S (length rest))); cbn; lia.
    + cbn [length]. destruct (Nat.leb_spec (S i) ilo), (Nat.leb_spec i ilo), (Nat.ltb_spec ilo (S i + length rest)), (Nat.ltb_spec ilo (i + S (length rest))); cbn; lia.
Qed.

(** one pass: nfunc < NMAX whenever the loop continues, and nfunc grows by at least 1 and at most 2 + ndim; no hypothesis *)
Lemma nm_iter_nfunc ftol ndim s :
  match nm_iter Ops f ftol ndim s with
  | NNext s' => (nm_nfunc s < nm_NMAX /\ nm_nfunc s + 1 <= nm_nfunc s' <= nm_nfunc s + 2 + Z.of_nat ndim)%Z
  | NDone o => o_nfunc o = nm_nfunc s /\ length (o_tr o) = length (nm_tr s)
  | NExit => (nm_NMAX <= nm_nfunc s)%Z
  end.
Proof.
  unfold nm_iter. destruct (nm_extremes Ops (nm_y s)) as [[ilo ihi] inhi].
  destruct (nltb _ _ _); [cbn; split; [reflexivity|apply rev_length]|].
  destruct (Z.geb_spec (nm_nfunc s) nm_NMAX) as [E|E]; [exact E|].
  set (s0 := mkNM (nm_p s) (nm_y s) (nm_psum s) (nm_nfunc s + 2)%Z (nm_tr s)).
  pose proof (amotry_nfunc s0 ndim ihi (nneg Ops (one Ops))) as N1.
  destruct (amotry Ops f s0 ndim ihi (nneg Ops (one Ops))) as [s1 ytry]. cbn [fst] in N1. change (nm_nfunc s0) with (nm_nfunc s + 2)%Z in N1.
  destruct (nleb _ _ _).
  - rewrite amotry_nfunc. lia.
  - destruct (ngeb _ _ _); [|cbn [nm_nfunc]; lia].
    pose proof (amotry_nfunc s1 ndim ihi (half Ops)) as N2.
    destruct (amotry Ops f s1 ndim ihi (half Ops)) as [s2 ytry2]. cbn [fst] in N2.
    destruct (ngeb _ _ _); cbn [nm_nfunc]; lia.
Qed.

(** the loop never runs out of the model's fuel: Nelder-Mead returns or stops at NMAX, for every objective *)
Lemma nm_loop_no_fuel ftol ndim : forall fuel s, (nm_NMAX - nm_nfunc s < Z.of_nat fuel)%Z -> (1 <= fuel)%nat ->
  nm_loop Ops f fuel ftol ndim s <> Fuel.
Proof.
  induction fuel as [|k IH]; intros s Hm H1; [lia|]. cbn [nm_loop].
  pose proof (nm_iter_nfunc ftol ndim s) as HN.
  destruct (nm_iter Ops f ftol ndim s) as [o|s'|]; try discriminate.
  apply IH; lia.
Qed.

Theorem minimize_general_terminates ftol pp : minimize_general Ops f ftol pp <> Fuel.
Proof.
  unfold minimize_general. destruct pp as [|r0 rest]; [discriminate|].
  destruct (Nat.ltb _ 2); [discriminate|]. destruct (negb _); [discriminate|].
  apply nm_loop_no_fuel; cbn [nm_nfunc]; unfold nm_fuel, nm_NMAX; [rewrite Z2Nat.id by lia|]; lia.
Qed.
End Count.

Theorem fresh_call_terminates {T : Type} (Ops : NumOps T) ftol c : fresh_call Ops ftol c <> Fuel.
Proof.
  destruct c as [g pp|g st ds|g st d]; cbn [fresh_call]; unfold minimize_delta, minimize_deltas;
    try (destruct (negb _); [discriminate|]); unfold minimize_general;
    match goal with |- context [match ?l with [] => _ | _ => _ end] => destruct l as [|r0 rest] end; try discriminate;
    (destruct (Nat.ltb _ 2); [discriminate|]); (destruct (negb _); [discriminate|]);
    apply nm_loop_no_fuel; cbn [nm_nfunc]; unfold nm_fuel, nm_NMAX; try (rewrite Z2Nat.id by lia); lia.
Qed.


Section Order.
Context {T : Type} (Ops : NumOps T) (OL : OrdLaws Ops).
Variable f : list T -> T.
Local Notation le := (le Ops).
Local Notation lt := (lt Ops).

(** nfunc counts the evaluations after the initial simplex when the simplex has ndim + 1 vertices *)
Definition Cnt (mpts : nat) (s : @nmst T) : Prop := Z.of_nat (length (nm_tr s)) = (Z.of_nat mpts + nm_nfunc s)%Z.

Lemma nm_iter_count ftol ndim s : WF (S ndim) s -> Consistent f s -> Cnt (S ndim) s ->
  match nm_iter Ops f ftol ndim s with
  | NNext s' => Cnt (S ndim) s' /\ (nm_nfunc s < nm_NMAX)%Z
  | NDone o => Z.of_nat (length (o_tr o)) = (Z.of_nat (S ndim) + o_nfunc o)%Z
  | NExit => True
  end.
Proof.
  intros HW HC HK. pose proof HW as (H2 & Hy & Hp). unfold nm_iter.
  destruct (nm_extremes Ops (nm_y s)) as [[ilo ihi] inhi] eqn:EX.
  assert (H2' : (2 <= length (nm_y s))%nat) by lia.
  destruct (nm_extremes_spec Ops OL _ _ _ _ H2' EX) as (Hlo & Hhi & Hmin).
  unfold Cnt in *.
  destruct (nltb _ _ _); [cbn [o_tr o_nfunc]; rewrite rev_length; exact HK|].
  destruct (Z.geb_spec (nm_nfunc s) nm_NMAX) as [E|E]; [exact I|].
  set (s0 := mkNM (nm_p s) (nm_y s) (nm_psum s) (nm_nfunc s + 2)%Z (nm_tr s)).
  pose proof (amotry_nfunc Ops f s0 ndim ihi (nneg Ops (one Ops))) as N1.
  pose proof (amotry_trlen Ops f s0 ndim ihi (nneg Ops (one Ops))) as L1.
  pose proof (amotry_plen Ops f s0 ndim ihi (nneg Ops (one Ops))) as P1.
  destruct (amotry Ops f s0 ndim ihi (nneg Ops (one Ops))) as [s1 ytry]. cbn [fst] in N1, L1, P1.
  change (nm_nfunc s0) with (nm_nfunc s + 2)%Z in N1. change (nm_tr s0) with (nm_tr s) in L1. change (nm_p s0) with (nm_p s) in P1.
  destruct (nleb _ _ _).
  - rewrite amotry_nfunc, amotry_trlen. split; lia.
  - destruct (ngeb _ _ _); [|cbn [nm_nfunc nm_tr]; split; lia].
    pose proof (amotry_nfunc Ops f s1 ndim ihi (half Ops)) as N2.
    pose proof (amotry_trlen Ops f s1 ndim ihi (half Ops)) as L2.
    pose proof (amotry_plen Ops f s1 ndim ihi (half Ops)) as P2.
    destruct (amotry Ops f s1 ndim ihi (half Ops)) as [s2 ytry2]. cbn [fst] in N2, L2, P2.
    destruct (ngeb _ _ _); [|split; lia].
    cbn [nm_nfunc nm_tr]. rewrite shrink_trace_len, length_shrink_rows.
    cbn [Nat.leb andb Nat.add]. destruct (Nat.ltb_spec ilo (length (nm_p s2))); [|lia]. split; lia.
Qed.

Lemma nm_loop_count ftol ndim : forall fuel s o, WF (S ndim) s -> Consistent f s -> Cnt (S ndim) s ->
  (0 <= nm_nfunc s <= nm_NMAX + 1 + Z.of_nat ndim)%Z ->
  nm_loop Ops f fuel ftol ndim s = Ok o ->
  Z.of_nat (length (o_tr o)) = (Z.of_nat (S ndim) + o_nfunc o)%Z /\ (0 <= o_nfunc o <= nm_NMAX + 1 + Z.of_nat ndim)%Z.
Proof.
  induction fuel as [|k IH]; intros s o HW HC HK HB H; cbn [nm_loop] in H; [discriminate|].
  pose proof (nm_iter_spec Ops OL f ftol ndim (S ndim) s HW HC) as HS.
  pose proof (nm_iter_count ftol ndim s HW HC HK) as HN.
  pose proof (nm_iter_nfunc Ops f ftol ndim s) as HF.
  destruct (nm_iter Ops f ftol ndim s) as [o1|s1|]; try discriminate.
  - inversion H; subst. split; [exact HN|]. destruct HF as [-> _]. exact HB.
  - destruct HS as (W1 & C1 & _). destruct HN as [K1 _]. apply (IH s1 o W1 C1 K1); [lia|exact H].
Qed.

(** minimize(pp, func) on ndim + 1 vertices: the objective has been evaluated mpts + nfunc times when the call returns *)
Theorem minimize_general_count ftol pp o : length pp = S (length (nth 0 pp [])) -> minimize_general Ops f ftol pp = Ok o ->
  Z.of_nat (length (o_tr o)) = (Z.of_nat (length pp) + o_nfunc o)%Z /\
  (0 <= o_nfunc o <= nm_NMAX + 1 + Z.of_nat (length (nth 0 pp [])))%Z.
Proof.
  unfold minimize_general. destruct pp as [|r0 rest] eqn:Epp; [discriminate|]. rewrite <- Epp. cbn [nth].
  replace (nth 0 pp []) with r0 by (rewrite Epp; reflexivity). intros Hl.
  destruct (Nat.ltb (length pp) 2) eqn:E2; [discriminate|]. apply Nat.ltb_ge in E2.
  destruct (negb _); [discriminate|]. intros H. rewrite Hl.
  apply (nm_loop_count ftol (length r0)) in H; [exact H| | | |].
  - unfold WF; cbn [nm_y nm_p]. rewrite map_length. lia.
  - reflexivity.
  - unfold Cnt; cbn [nm_tr nm_nfunc]. rewrite rev_length. lia.
  - cbn [nm_nfunc]. unfold nm_NMAX. lia.
Qed.

(** the two convenience overloads always build ndim + 1 vertices *)
Theorem minimize_deltas_count ftol start deltas o : minimize_deltas Ops f ftol start deltas = Ok o ->
  Z.of_nat (length (o_tr o)) = (Z.of_nat (S (length start)) + o_nfunc o)%Z /\
  (0 <= o_nfunc o <= nm_NMAX + 1 + Z.of_nat (length start))%Z.
Proof.
  unfold minimize_deltas. destruct (negb _); [discriminate|]. intros H.
  apply minimize_general_count in H.
  - unfold simplex_of in H. cbn [length nth] in H. rewrite map_length, seq_length in H. exact H.
  - unfold simplex_of. cbn [length nth]. now rewrite map_length, seq_length.
Qed.

(** *** the scan finds the highest vertex *)
Lemma le_lt_trans x y z : le x y -> lt y z -> le x z.
Proof. intros A B. eapply (le_trans Ops OL); [exact A|]. apply (lt_le Ops OL). exact B. Qed.

Lemma nm_scan_hi (y : list T) : forall ys i ilo ihi inhi ilo' ihi' inhi',
  (i + length ys = length y)%nat -> (forall k, (k < length ys)%nat -> nth k ys (n0 Ops) = nth0 Ops y (i + k)) ->
  (forall k, (k < i)%nat -> le (nth0 Ops y k) (nth0 Ops y ihi)) ->
  nm_scan Ops y ys i ilo ihi inhi = (ilo', ihi', inhi') ->
  forall k, (k < length y)%nat -> le (nth0 Ops y k) (nth0 Ops y ihi').
Proof.
  induction ys as [|yi rest IH]; intros i ilo ihi inhi ilo' ihi' inhi' Hlen Hys Hmax H; cbn [nm_scan] in H.
  - inversion H; subst. cbn [length] in Hlen. intros k Hk. apply Hmax. lia.
  - cbn [length] in Hlen.
    assert (Hyi : yi = nth0 Ops y i).
    { specialize (Hys 0%nat ltac:(cbn; lia)). cbn in Hys. now rewrite Nat.add_0_r in Hys. }
    pose proof (fun A B C => IH _ _ _ _ _ _ _ A B C H) as IH'. apply IH'; [lia| |].
    + intros k Hk. specialize (Hys (S k) ltac:(cbn; lia)). cbn in Hys. rewrite Hys. f_equal. lia.
    + intros k Hk. destruct (ngtb Ops yi (nth0 Ops y ihi)) eqn:E; cbn [fst].
      * apply ngtb_lt in E. rewrite Hyi in E.
        destruct (Nat.eq_dec k i) as [->|Hne]; [apply (le_refl Ops OL)|].
        eapply le_lt_trans; [apply Hmax; lia|exact E].
      * apply ngtb_false_le in E. rewrite Hyi in E.
        assert (Hfst : forall b : bool, fst (if b then (ihi, i) else (ihi, inhi)) = ihi) by (intros []; reflexivity).
        rewrite Hfst. destruct (Nat.eq_dec k i) as [->|Hne]; [exact E|]. apply Hmax. lia.
Qed.

Lemma nm_extremes_hi y ilo ihi inhi : nm_extremes Ops y = (ilo, ihi, inhi) ->
  forall k, (k < length y)%nat -> le (nth0 Ops y k) (nth0 Ops y ihi).
Proof.
  intros H. unfold nm_extremes in H. pose proof (fun A B C => nm_scan_hi _ _ _ _ _ _ _ _ _ A B C H) as H'. apply H'; [reflexivity| |].
  - intros k _. reflexivity.
  - intros k Hk. lia.
Qed.

(** the fractional range of the termination test, as the code computes it *)
Definition nm_rtol (yhi ylo : T) : T :=
  ndiv Ops (nmul Ops (two Ops) (nabs Ops (nsub Ops yhi ylo))) (nadd Ops (nadd Ops (nabs Ops yhi) (nabs Ops ylo)) (tiny10 Ops)).

(** on return some reported vertex value is the highest, and its fractional range to fmin is below ftol *)
Theorem nm_done_range ftol ndim mpts s o : WF mpts s -> nm_iter Ops f ftol ndim s = NDone o ->
  exists hi, (hi < mpts)%nat /\ (forall k, (k < mpts)%nat -> le (nth0 Ops (o_y o) k) (nth0 Ops (o_y o) hi)) /\
             lt (nm_rtol (nth0 Ops (o_y o) hi) (o_fmin o)) ftol.
Proof.
  intros (H2 & Hy & Hp). unfold nm_iter.
  destruct (nm_extremes Ops (nm_y s)) as [[ilo ihi] inhi] eqn:EX.
  assert (H2' : (2 <= length (nm_y s))%nat) by lia.
  destruct (nm_extremes_spec Ops OL _ _ _ _ H2' EX) as (Hlo & Hhi & Hmin).
  pose proof (nm_extremes_hi _ _ _ _ EX) as Hmax.
  destruct (nltb _ _ ftol) eqn:Et.
  - intros H. inversion H; subst o; clear H. cbn [o_y o_fmin].
    assert (HN : forall k, nth0 Ops (swapv (zero Ops) (nm_y s) 0 ilo) k =
              if Nat.eqb k ilo then nth0 Ops (nm_y s) 0 else if Nat.eqb k 0 then nth0 Ops (nm_y s) ilo else nth0 Ops (nm_y s) k).
    { intros k. unfold nth0, zero. apply swapv_nth; lia. }
    exists (if Nat.eqb ihi ilo then 0%nat else if Nat.eqb ihi 0 then ilo else ihi).
    assert (HH : nth0 Ops (swapv (zero Ops) (nm_y s) 0 ilo) (if Nat.eqb ihi ilo then 0%nat else if Nat.eqb ihi 0 then ilo else ihi) = nth0 Ops (nm_y s) ihi).
    { rewrite HN. destruct (Nat.eqb_spec ihi ilo) as [E1|E1].
      - destruct (Nat.eqb_spec 0 ilo) as [E2|E2]; [subst; reflexivity|]. cbn. now subst.
      - destruct (Nat.eqb_spec ihi 0) as [E3|E3].
        + rewrite Nat.eqb_refl. now subst.
        + destruct (Nat.eqb_spec ihi ilo); [contradiction|]. destruct (Nat.eqb_spec ihi 0); [contradiction|]. reflexivity. }
    split; [|split].
    + destruct (Nat.eqb ihi ilo); [lia|]. destruct (Nat.eqb ihi 0); lia.
    + intros k Hk. rewrite HH, HN. destruct (Nat.eqb k ilo); [apply Hmax; lia|]. destruct (Nat.eqb k 0); apply Hmax; lia.
    + rewrite HH. rewrite (HN 0%nat). 
      assert (E0 : (if Nat.eqb 0 ilo then nth0 Ops (nm_y s) 0 else if Nat.eqb 0 0 then nth0 Ops (nm_y s) ilo else nth0 Ops (nm_y s) 0) = nth0 Ops (nm_y s) ilo).
      { destruct (Nat.eqb_spec 0 ilo) as [<-|]; reflexivity. }
      rewrite E0. exact Et.
  - destruct (Z.geb _ _); [discriminate|].
    destruct (amotry Ops f _ ndim ihi (nneg Ops (one Ops))) as [s1 ytry].
    destruct (nleb _ _ _); [discriminate|]. destruct (ngeb _ _ _); [|discriminate].
    destruct (amotry Ops f s1 ndim ihi (half Ops)) as [s2 ytry2]. destruct (ngeb _ _ _); discriminate.
Qed.

Lemma nm_loop_done ftol ndim mpts : forall fuel s o, WF mpts s -> Consistent f s -> nm_loop Ops f fuel ftol ndim s = Ok o ->
  exists s', WF mpts s' /\ Consistent f s' /\ nm_iter Ops f ftol ndim s' = NDone o.
Proof.
  induction fuel as [|k IH]; intros s o HW HC H; cbn [nm_loop] in H; [discriminate|].
  pose proof (nm_iter_spec Ops OL f ftol ndim mpts s HW HC) as HS.
  destruct (nm_iter Ops f ftol ndim s) as [o1|s1|] eqn:EI; try discriminate.
  - inversion H; subst. exists s. auto.
  - destruct HS as (W1 & C1 & _). eapply IH; eauto.
Qed.

Theorem minimize_general_range ftol pp o : minimize_general Ops f ftol pp = Ok o ->
  exists hi, (hi < length pp)%nat /\ (forall k, (k < length pp)%nat -> le (nth0 Ops (o_y o) k) (nth0 Ops (o_y o) hi)) /\
             lt (nm_rtol (nth0 Ops (o_y o) hi) (o_fmin o)) ftol.
Proof.
  unfold minimize_general. destruct pp as [|r0 rest] eqn:Epp; [discriminate|]. rewrite <- Epp.
  destruct (Nat.ltb (length pp) 2) eqn:E2; [discriminate|]. apply Nat.ltb_ge in E2.
  destruct (negb _); [discriminate|]. intros H.
  apply (nm_loop_done ftol (length r0) (length pp)) in H.
  - destruct H as (s' & W & _ & HD). exact (nm_done_range ftol _ _ s' o W HD).
  - unfold WF; cbn [nm_y nm_p]. rewrite map_length. auto.
  - reflexivity.
Qed.
End Order.

(** non-vacuity: the run of C11_Proofs.ex_minimize returns after 9 counted evaluations, 12 = 3 + 9 points evaluated in all *)
Local Open Scope Z_scope.
Example ex_count : exists o,
  minimize_delta ZOps (fun p => nth 0 p 0 * nth 0 p 0 + 3 * (nth 1 p 0 - 3) * (nth 1 p 0 - 3)) 1 [20; -31] 16 = Ok o /\
  Z.of_nat (length (o_tr o)) = 3 + o_nfunc o /\ o_nfunc o = 9 /\
  nltb ZOps (nm_rtol ZOps (nth0 ZOps (o_y o) 2) (o_fmin o)) 1 = true.
Proof. eexists. vm_compute. repeat split; reflexivity. Qed.
