(** * C15 — two facts behind the input classes 'cancelling sub-diagonal entries' and 'a diagonal entry that is an eigenvalue' of checks/C15.py
    (1) The stopping test of Eigenvalues adds up ABSOLUTE values: a matrix that passes it has every single entry below the diagonal
        smaller than 1e-12 of the diagonal mass (a test on a signed sum does not give this: entries of opposite sign cancel).
    (2) A matrix that commutes with the exchange of two coordinates i, j has the eigenvector e_i - e_j with the eigenvalue m_ii - m_ij, a value
        that can sit on the diagonal of a third, coupled coordinate k; the coordinate vector e_k is an eigenvector of no matrix in which
        coordinate k is coupled, whatever stands on the diagonal. *)
From Coq Require Import Reals ZArith List Lra Lia Bool Arith.
From LP Require Import Num NumR C15_Model C15_Proofs C15_Proofs_QR C15_Proofs_Session C15_Proofs_Diag.
Import ListNotations.
Local Open Scope R_scope.

(** ** (1) the stopping test bounds every entry below the diagonal *)
Lemma fold_add_ge (g : nat -> R) l acc : (forall k, 0 <= g k) -> acc <= fold_left (fun a k => a + g k) l acc.
Proof.
  intros G. revert acc. induction l as [| k l IH]; intros acc; cbn [fold_left]; [lra|].
  pose proof (IH (acc + g k)). pose proof (G k). lra.
Qed.
Lemma fold_add_ge_term (g : nat -> R) l acc k0 : (forall k, 0 <= g k) -> In k0 l -> acc + g k0 <= fold_left (fun a k => a + g k) l acc.
Proof.
  intros G. revert acc. induction l as [| k l IH]; intros acc H; [destruct H|]. cbn [fold_left]. destruct H as [-> | H].
  - apply fold_add_ge. exact G.
  - pose proof (IH (acc + g k) H). pose proof (G k). lra.
Qed.
Lemma fold2_add_ge (g : nat -> nat -> R) (rows : nat -> list nat) l acc : (forall j k, 0 <= g k j) ->
  acc <= fold_left (fun a j => fold_left (fun a' k => a' + g k j) (rows j) a) l acc.
Proof.
  intros G. revert acc. induction l as [| j l IH]; intros acc; cbn [fold_left]; [lra|].
  pose proof (IH (fold_left (fun a' k => a' + g k j) (rows j) acc)).
  pose proof (fold_add_ge (fun k => g k j) (rows j) acc (G j)). lra.
Qed.
Lemma fold2_add_ge_term (g : nat -> nat -> R) (rows : nat -> list nat) l acc j0 k0 : (forall j k, 0 <= g k j) ->
  In j0 l -> In k0 (rows j0) ->
  acc + g k0 j0 <= fold_left (fun a j => fold_left (fun a' k => a' + g k j) (rows j) a) l acc.
Proof.
  intros G. revert acc. induction l as [| j l IH]; intros acc Hj Hk; [destruct Hj|]. cbn [fold_left]. destruct Hj as [-> | Hj].
  - pose proof (fold_add_ge_term (fun k => g k j0) (rows j0) acc k0 (G j0) Hk).
    pose proof (fold2_add_ge g rows l (fold_left (fun a' k => a' + g k j0) (rows j0) acc) G). lra.
  - pose proof (IH (fold_left (fun a' k => a' + g k j) (rows j) acc) Hj Hk).
    pose proof (fold_add_ge (fun k => g k j) (rows j) acc (G j)). lra.
Qed.

Lemma abs_lower_sum_ge_entry n (A : list (list R)) j k : wf n A -> (j < k)%nat -> (k < n)%nat ->
  Rabs (ment ROps A k j) <= abs_lower_sum ROps A.
Proof.
  intros (LA & _) Hjk Hk. unfold abs_lower_sum, nrows. rewrite LA. cbn [nadd nabs n0 ROps].
  pose proof (fold2_add_ge_term (fun k j => Rabs (ment ROps A k j)) (fun j => seq (S j) (n - S j)) (seq 0 n) 0 j k
                (fun _ _ => Rabs_pos _)) as H.
  rewrite Rplus_0_l in H. apply H; apply in_seq; lia.
Qed.

Lemma abs_diag_sum_rsum n (A : list (list R)) : wf n A -> abs_diag_sum ROps A = rsum (fun j => Rabs (ment ROps A j j)) n.
Proof.
  intros (LA & _). unfold abs_diag_sum, nrows. rewrite LA. cbn [nadd nabs n0 ROps].
  apply (fold_seq_rsum (fun j => Rabs (ment ROps A j j))).
Qed.

(** a matrix that passes the convergence test of Eigenvalues has EVERY entry below the diagonal under 1e-12 of the diagonal mass *)
Lemma converged_bounds_every_entry n (A : list (list R)) : wf n A -> eig_converged A ->
  0 < rsum (fun j => Rabs (ment ROps A j j)) n ->
  forall j k, (j < k)%nat -> (k < n)%nat -> Rabs (ment ROps A k j) < 1 / 1000000000000 * rsum (fun j => Rabs (ment ROps A j j)) n.
Proof.
  intros W C DP j k Hjk Hk. unfold eig_converged in C. rewrite (abs_diag_sum_rsum n A W) in C.
  set (D := rsum (fun j => Rabs (ment ROps A j j)) n) in *.
  cbn [ndiv ROps nltb] in C. unfold ndec in C. cbn [ROps ndiv nofZ] in C. apply Rltb_true in C.
  pose proof (abs_lower_sum_ge_entry n A j k W Hjk Hk) as LE.
  assert (abs_lower_sum ROps A < IZR 1 / IZR 1000000000000 * D) as LT.
  { apply (Rmult_lt_compat_r D) in C; [| exact DP]. unfold Rdiv in C at 1. rewrite Rmult_assoc, Rinv_l in C by lra. lra. }
  lra.
Qed.

(** whatever Eigenvalues returns for a non-singular symmetric M is the diagonal of a symmetric, orthogonally similar A all of whose
    off-diagonal entries are below 1e-12 of its diagonal mass (when that mass is positive) *)
Lemma eigenvalues_every_entry_small n (M : list (list R)) evs : wf n M -> nonsing n (ment ROps M) ->
  (forall i j, (i < n)%nat -> (j < n)%nat -> ment ROps M i j = ment ROps M j i) ->
  eigenvalues ROps M = Ok evs ->
  exists (A : list (list R)) (q : nat -> nat -> R),
    wf n A /\ orth n q /\ eqn n (ment ROps A) (mm n (tr q) (mm n (ment ROps M) q)) /\ evs = diagonal ROps A /\
    (0 < rsum (fun j => Rabs (ment ROps A j j)) n ->
     forall j k, (j < n)%nat -> (k < n)%nat -> j <> k ->
       Rabs (ment ROps A k j) < 1 / 1000000000000 * rsum (fun j => Rabs (ment ROps A j j)) n).
Proof.
  intros W NS S E. destruct (eigenvalues_symmetric n M evs W NS S E) as (A & q & WA & Oq & Sim & SA & Ev & C).
  exists A, q. split; [exact WA|]. split; [exact Oq|]. split; [exact Sim|]. split; [exact Ev|].
  intros DP j k Hj Hk Hne.
  destruct (Nat.lt_ge_cases j k) as [Hlt | Hge].
  - exact (converged_bounds_every_entry n A WA C DP j k Hlt Hk).
  - assert (k < j)%nat as Hlt by lia.
    replace (ment ROps A k j) with (ment ROps A j k) by (apply (SA j k Hj Hk)).
    exact (converged_bounds_every_entry n A WA C DP k j Hlt Hj).
Qed.

(** non-vacuity, and the point of the absolute values: [[1, 0, 0], [1/100, -3/4, 0], [-1/100, 0, 1/2]] has a vanishing signed sum below
    the diagonal, yet it does not pass the test *)
Example cancelling_entries_do_not_pass :
  let A := [[1; 0; 0]; [1/100; -3/4; 0]; [-1/100; 0; 1/2]] in
  wf 3 A /\ ment ROps A 1 0 + ment ROps A 2 0 + ment ROps A 2 1 = 0 /\ ~ eig_converged A.
Proof.
  cbn zeta. split; [| split].
  - split; [reflexivity|]. intros i Hi. destruct i as [| [| [| i]]]; cbn; try reflexivity; lia.
  - unfold ment, nth0. cbn. lra.
  - unfold eig_converged, abs_lower_sum, abs_diag_sum, ndec, ment, nth0. cbn. intros H. apply Rltb_true in H.
    replace (0 + Rabs (1 / 100) + Rabs (- 1 / 100) + Rabs 0) with (2 / 100) in H
      by (rewrite Rabs_R0, (Rabs_pos_eq (1 / 100)) by lra; rewrite (Rabs_left (- 1 / 100)) by lra; lra).
    replace (0 + Rabs 1 + Rabs (- 3 / 4) + Rabs (1 / 2)) with (9 / 4) in H
      by (rewrite (Rabs_pos_eq 1), (Rabs_pos_eq (1 / 2)) by lra; rewrite (Rabs_left (- 3 / 4)) by lra; lra).
    lra.
Qed.
Example converged_example :
  let A := [[2; 0]; [0; -1]] in wf 2 A /\ eig_converged A /\ 0 < rsum (fun j => Rabs (ment ROps A j j)) 2.
Proof.
  cbn zeta. split; [| split].
  - split; [reflexivity|]. intros i Hi. destruct i as [| [| i]]; cbn; try reflexivity; lia.
  - unfold eig_converged, abs_lower_sum, abs_diag_sum, ndec, ment, nth0. cbn. apply Rltb_true.
    rewrite Rabs_R0. rewrite (Rabs_pos_eq 2) by lra. rewrite (Rabs_left (-1)) by lra. lra.
  - unfold ment, nth0. cbn. rewrite (Rabs_pos_eq 2) by lra. rewrite (Rabs_left (-1)) by lra. lra.
Qed.

(** ** (2) exchange symmetry: the eigenvector e_i - e_j, and coordinate vectors of coupled coordinates *)
Definition antisym_vec (i j : nat) (k : nat) : R := if Nat.eqb k i then 1 else if Nat.eqb k j then -1 else 0.
Definition coord_vec (k : nat) (c : nat) : R := if Nat.eqb c k then 1 else 0.

Lemma rsum_two f n i j : (i < n)%nat -> (j < n)%nat -> i <> j ->
  rsum (fun c => f c * antisym_vec i j c) n = f i - f j.
Proof.
  intros Hi Hj Hne.
  rewrite (rsum_extract _ n i Hi). rewrite (rsum_extract _ n j Hj).
  assert (Nat.eqb j i = false) as Eji by (apply Nat.eqb_neq; congruence).
  rewrite Eji. unfold antisym_vec at 1 2. rewrite !Nat.eqb_refl, Eji.
  rewrite (rsum_ext _ (fun _ => 0) n), rsum_zero; [ring|].
  intros c _. destruct (Nat.eqb c j) eqn:E1; [reflexivity|]. destruct (Nat.eqb c i) eqn:E2; [reflexivity|].
  unfold antisym_vec. rewrite E2, E1. ring.
Qed.

(** M commutes with the exchange of the coordinates i and j  =>  M (e_i - e_j) = (m_ii - m_ij) (e_i - e_j) *)
Lemma exchange_symmetric_eigenvector n i j (a : nat -> nat -> R) : (i < n)%nat -> (j < n)%nat -> i <> j ->
  (forall r c, (r < n)%nat -> (c < n)%nat -> a (transp i j r) (transp i j c) = a r c) ->
  forall r, (r < n)%nat -> rsum (fun c => a r c * antisym_vec i j c) n = (a i i - a i j) * antisym_vec i j r.
Proof.
  intros Hi Hj Hne Inv r Hr. rewrite (rsum_two (a r) n i j Hi Hj Hne).
  assert (Nat.eqb j i = false) as Eji by (apply Nat.eqb_neq; congruence).
  assert (transp i j i = j) as T1 by (unfold transp; rewrite Nat.eqb_refl; reflexivity).
  assert (transp i j j = i) as T2 by (unfold transp; rewrite Eji, Nat.eqb_refl; reflexivity).
  unfold antisym_vec. destruct (Nat.eqb r i) eqn:E1.
  - apply Nat.eqb_eq in E1. subst r. ring.
  - destruct (Nat.eqb r j) eqn:E2.
    + apply Nat.eqb_eq in E2. subst r.
      pose proof (Inv j i Hj Hi) as H1. rewrite T1, T2 in H1. pose proof (Inv j j Hj Hj) as H2. rewrite T2 in H2.
      rewrite <- H1, <- H2. ring.
    + assert (transp i j r = r) as T3 by (unfold transp; rewrite E1, E2; reflexivity).
      pose proof (Inv r i Hr Hi) as H1. rewrite T1, T3 in H1. rewrite <- H1. ring.
Qed.

(** the coordinate vector e_k is an eigenvector of no matrix in which coordinate k is coupled (some a_ck <> 0, c <> k),
    whatever value stands at a_kk: in particular not when a_kk happens to be an eigenvalue *)
Lemma coupled_coordinate_not_eigenvector n k (a : nat -> nat -> R) : (k < n)%nat ->
  (exists c, (c < n)%nat /\ c <> k /\ a c k <> 0) ->
  ~ exists lam, forall r, (r < n)%nat -> rsum (fun c => a r c * coord_vec k c) n = lam * coord_vec k r.
Proof.
  intros Hk (c & Hc & Hne & NZ) (lam & E). specialize (E c Hc).
  rewrite (rsum_single _ n k Hk) in E.
  - unfold coord_vec in E. rewrite Nat.eqb_refl in E. assert (Nat.eqb c k = false) as F by (apply Nat.eqb_neq; exact Hne).
    rewrite F in E. apply NZ. lra.
  - intros c' _ Hc'. unfold coord_vec. assert (Nat.eqb c' k = false) as F by (apply Nat.eqb_neq; exact Hc'). rewrite F. ring.
Qed.

(** non-vacuity: M = [[2,3,3],[3,1,-1],[3,-1,1]] commutes with the exchange of the coordinates 1, 2; its eigenvalue m_11 - m_12 = 2 stands at
    m_00 although coordinate 0 is coupled; (0, 1, -1) is an eigenvector for 2 and e_0 is an eigenvector for no value *)
Example diagonal_entry_is_eigenvalue_example :
  let a := ment ROps [[2; 3; 3]; [3; 1; -1]; [3; -1; 1]] in
  (forall r c, (r < 3)%nat -> (c < 3)%nat -> a (transp 1 2 r) (transp 1 2 c) = a r c) /\
  a 1%nat 1%nat - a 1%nat 2%nat = a 0%nat 0%nat /\
  (forall r, (r < 3)%nat -> rsum (fun c => a r c * antisym_vec 1 2 c) 3 = a 0%nat 0%nat * antisym_vec 1 2 r) /\
  ~ exists lam, forall r, (r < 3)%nat -> rsum (fun c => a r c * coord_vec 0 c) 3 = lam * coord_vec 0 r.
Proof.
  cbn zeta.
  assert (forall r c, (r < 3)%nat -> (c < 3)%nat ->
            ment ROps [[2; 3; 3]; [3; 1; -1]; [3; -1; 1]] (transp 1 2 r) (transp 1 2 c) = ment ROps [[2; 3; 3]; [3; 1; -1]; [3; -1; 1]] r c) as Inv.
  { intros r c Hr Hc. destruct r as [| [| [| r]]]; try lia; destruct c as [| [| [| c]]]; try lia; reflexivity. }
  assert (ment ROps [[2; 3; 3]; [3; 1; -1]; [3; -1; 1]] 1 1 - ment ROps [[2; 3; 3]; [3; 1; -1]; [3; -1; 1]] 1 2
          = ment ROps [[2; 3; 3]; [3; 1; -1]; [3; -1; 1]] 0 0) as Mu by (unfold ment, nth0; cbn; lra).
  split; [exact Inv | split; [exact Mu | split]].
  - intros r Hr. rewrite <- Mu. apply (exchange_symmetric_eigenvector 3 1 2); try lia. exact Inv.
  - apply (coupled_coordinate_not_eigenvector 3 0); [lia|]. exists 1%nat. split; [lia | split; [lia|]]. unfold ment, nth0. cbn. lra.
Qed.
