(** C20 — File_Exists as a call of a session (sixth pass).

    File_Exists(path) is stat() on the path: it opens nothing, keeps nothing and changes nothing.  In the session model it is
    the call [OFileExists p] answering [RBool (file_exists (fs_get fs p))].  Proved here, for sessions of any length and every
    number type:
    - transparency: deleting all File_Exists calls from ANY session changes neither whether the session is terminated
      (and how), nor the final file system, nor any other answer;
    - its own answer: true from the first export to the path on, whatever is called afterwards (nothing removes a file),
      false as long as nothing was exported to the path. *)
From Coq Require Import List ZArith Bool Arith Lia.
From LP Require Import Num C20_Model C20_Proofs_Session.
Import ListNotations.

Section ExistsProofs.
Context {T : Type} (Ops : NumOps T) (fmt6 : T -> T).
Local Notation step := (io_step Ops fmt6).
Local Notation run := (io_run Ops fmt6).

Definition is_fe (o : @io_op T) : bool := match o with OFileExists _ => true | _ => false end.
Definition is_bool (r : @io_out T) : bool := match r with RBool _ => true | _ => false end.
Definition without_fe (ops : list (@io_op T)) : list (@io_op T) := filter (fun o => negb (is_fe o)) ops.
Definition without_bool (outs : list (@io_out T)) : list (@io_out T) := filter (fun r => negb (is_bool r)) outs.

Lemma step_fe fs p : step fs (OFileExists p) = Ok (fs, RBool (file_exists (fs_get fs p))).
Proof. reflexivity. Qed.

(** only File_Exists answers with a truth value *)
Lemma step_out_not_bool fs o fs' r : is_fe o = false -> step fs o = Ok (fs', r) -> is_bool r = false.
Proof.
  destruct o; cbn; intros F H; try discriminate.
  - inversion H; reflexivity.
  - destruct (export_table Ops fmt6 header data dims); cbn in H; try discriminate. inversion H; reflexivity.
  - destruct (export_function_list Ops fmt6 header func xs dims); cbn in H; try discriminate. inversion H; reflexivity.
  - destruct (export_function_range Ops fmt6 header func xmin xmax steps dims logarithmic); cbn in H; try discriminate. inversion H; reflexivity.
  - destruct (import_list Ops (fs_get fs p) dim ignored); cbn in H; try discriminate. inversion H; reflexivity.
  - destruct (import_table Ops (fs_get fs p) dims ignored); cbn in H; try discriminate. inversion H; reflexivity.
  - inversion H; reflexivity.
Qed.

(** TRANSPARENCY.  For any session: the session without its File_Exists calls ends in the same way (terminated or not, and
    with the same kind of termination), in the same file system, with the same answers of all other calls. *)
Theorem file_exists_transparent ops : forall fs,
  run fs (without_fe ops) = rmap (fun s => (fst s, without_bool (snd s))) (run fs ops).
Proof.
  induction ops as [|o tl IH]; intros fs.
  - reflexivity.
  - destruct (is_fe o) eqn:F.
    + destruct o; try discriminate. unfold without_fe. cbn [filter is_fe negb].
      fold (without_fe tl). rewrite IH. cbn [io_run]. rewrite step_fe. cbn [rbind fst snd].
      destruct (run fs tl) as [[fs2 outs2]| | |]; reflexivity.
    + unfold without_fe. cbn [filter]. rewrite F. cbn [negb]. fold (without_fe tl). cbn [io_run].
      destruct (step fs o) as [[fs1 r]| | |] eqn:E; try reflexivity. cbn [rbind fst snd].
      rewrite IH. pose proof (step_out_not_bool _ _ _ _ F E) as B.
      destruct (run fs1 tl) as [[fs2 outs2]| | |]; try reflexivity.
      unfold rmap. cbn [rbind fst snd without_bool filter]. rewrite B. reflexivity.
Qed.

(** a file, once there, stays: no call removes one *)
Lemma step_keeps_files fs o fs' r p :
  step fs o = Ok (fs', r) -> file_exists (fs_get fs p) = true -> file_exists (fs_get fs' p) = true.
Proof.
  assert (P : forall q f, file_exists (fs_get fs p) = true -> file_exists (fs_get (fs_put fs q f) p) = true).
  { intros q f H. cbn. destruct (Nat.eqb p q); [reflexivity|exact H]. }
  destruct o; cbn; intros H X.
  - inversion H; subst. apply P, X.
  - destruct (export_table Ops fmt6 header data dims); cbn in H; try discriminate. inversion H; subst. apply P, X.
  - destruct (export_function_list Ops fmt6 header func xs dims); cbn in H; try discriminate. inversion H; subst. apply P, X.
  - destruct (export_function_range Ops fmt6 header func xmin xmax steps dims logarithmic); cbn in H; try discriminate. inversion H; subst. apply P, X.
  - destruct (import_list Ops (fs_get fs p0) dim ignored); cbn in H; try discriminate. inversion H; subst; exact X.
  - destruct (import_table Ops (fs_get fs p0) dims ignored); cbn in H; try discriminate. inversion H; subst; exact X.
  - inversion H; subst; exact X.
  - inversion H; subst; exact X.
Qed.

Lemma run_keeps_files ops : forall fs fs' outs p,
  run fs ops = Ok (fs', outs) -> file_exists (fs_get fs p) = true -> file_exists (fs_get fs' p) = true.
Proof.
  induction ops as [|o tl IH]; cbn; intros fs fs' outs p H X.
  - inversion H; subst; exact X.
  - destruct (step fs o) as [[fs1 r]| | |] eqn:E; cbn in H; try discriminate.
    destruct (run fs1 tl) as [[fs2 outs2]| | |] eqn:E2; cbn in H; try discriminate.
    inversion H; subst. eapply IH; [exact E2|]. eapply step_keeps_files; eauto.
Qed.

(** a call that exports to p and does not terminate the process leaves a file at p *)
Lemma step_export_creates fs o fs' r p :
  step fs o = Ok (fs', r) -> writes o = Some p -> file_exists (fs_get fs' p) = true.
Proof.
  destruct o; cbn; intros H W; try discriminate; inversion W; subst.
  - inversion H; subst. rewrite fs_get_put_same. reflexivity.
  - destruct (export_table Ops fmt6 header data dims); cbn in H; try discriminate. inversion H; subst. rewrite fs_get_put_same. reflexivity.
  - destruct (export_function_list Ops fmt6 header func xs dims); cbn in H; try discriminate. inversion H; subst. rewrite fs_get_put_same. reflexivity.
  - destruct (export_function_range Ops fmt6 header func xmin xmax steps dims logarithmic); cbn in H; try discriminate. inversion H; subst. rewrite fs_get_put_same. reflexivity.
Qed.

(** ITS OWN ANSWER, true: any calls [before], a call [e] exporting to p (list, table, function, range), ANY calls [after]
    (further exports to p included) — none terminating the process —, then File_Exists(p) answers true. *)
Theorem file_exists_after_export fs before fs1 outs1 e fs2 r p after fs3 outs3 :
  run fs before = Ok (fs1, outs1) -> writes e = Some p -> step fs1 e = Ok (fs2, r) ->
  run fs2 after = Ok (fs3, outs3) ->
  run fs (before ++ e :: after ++ [OFileExists p]) = Ok (fs3, outs1 ++ r :: outs3 ++ [RBool true]).
Proof.
  intros Hb W He Ha.
  rewrite (run_app Ops fmt6 before _ fs fs1 outs1 Hb).
  cbn [io_run]. rewrite He. cbn [rbind fst snd].
  rewrite (run_app Ops fmt6 after _ fs2 fs3 outs3 Ha).
  cbn [io_run]. rewrite step_fe. cbn [rbind fst snd].
  rewrite (run_keeps_files after fs2 fs3 outs3 p Ha (step_export_creates _ _ _ _ _ He W)). reflexivity.
Qed.

(** ... false: as long as no call exported to p, File_Exists(p) answers as it would have at the start *)
Theorem file_exists_before_export fs ops fs1 outs1 p :
  run fs ops = Ok (fs1, outs1) -> Forall (fun o => writes o <> Some p) ops ->
  run fs (ops ++ [OFileExists p]) = Ok (fs1, outs1 ++ [RBool (file_exists (fs_get fs p))]).
Proof.
  intros H W. rewrite (run_app Ops fmt6 ops _ fs fs1 outs1 H).
  cbn [io_run]. rewrite step_fe. cbn [rbind fst snd].
  rewrite (run_preserves Ops fmt6 ops fs fs1 outs1 p H W). reflexivity.
Qed.
End ExistsProofs.

(** non-vacuity (reals): a table goes to path 0, File_Exists(0), File_Exists(1), Count_Lines(0), File_Exists(0): the session
    answers true, false, 2, true, and without the three File_Exists calls it answers 2 and ends in the same file system. *)
From Coq Require Import Reals.
From LP Require Import NumR.
Definition exists_example_ops : list (@io_op R) :=
  [OExportTable 0 [] [[1; 2]; [3; 4]]%R []; OFileExists 0; OFileExists 1; OCountLines 0; OFileExists 0].
Definition exists_example_stmt : Prop :=
  exists fs', io_run ROps (fun y => y) [] exists_example_ops = Ok (fs', [RUnit; RBool true; RBool false; RCount 2; RBool true]) /\
              io_run ROps (fun y => y) [] (without_fe exists_example_ops) = Ok (fs', [RUnit; RCount 2]).
Lemma exists_example : exists_example_stmt.
Proof. eexists. split; reflexivity. Qed.
