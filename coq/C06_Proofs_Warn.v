(** * C06 proofs, part 13: the model with diagnostics (C06_Model2.v) extends the model of C06_Model.v: dropping the flags gives exactly
    the functions all other theorems are about.  Any arithmetic (no law of arithmetic used). *)
From Coq Require Import ZArith List Bool Lia.
From LP Require Import Num C06_Model C06_Model2.

Section Warn.
Context {T : Type} (Ops : NumOps T).

Lemma asr_w_value bottom : forall f a b epsilon S fa fb fc,
  fst (asr_w Ops bottom f a b epsilon S fa fb fc) = asr Ops bottom f a b epsilon S fa fb fc.
Proof.
  induction bottom as [|k IH]; intros; cbn [asr_w asr]; [reflexivity|].
  match goal with |- context [nleb Ops ?u ?v] => destruct (nleb Ops u v) end; [reflexivity|].
  cbn [fst]. rewrite !IH. reflexivity.
Qed.

(** above the recursion floor a panel that meets the tolerance at once raises no warning *)
Lemma asr_w_floor_only f a b epsilon S fa fb fc :
  snd (asr_w Ops 0 f a b epsilon S fa fb fc) =
  let c := ndiv Ops (nadd Ops a b) (nofZ Ops 2) in let h := nsub Ops b a in
  let fd := f (ndiv Ops (nadd Ops a c) (nofZ Ops 2)) in let fe := f (ndiv Ops (nadd Ops b c) (nofZ Ops 2)) in
  let S2 := nadd Ops (nmul Ops (ndiv Ops h (nofZ Ops 12)) (nadd Ops (nadd Ops fa (nmul Ops (nofZ Ops 4) fd)) fc))
                     (nmul Ops (ndiv Ops h (nofZ Ops 12)) (nadd Ops (nadd Ops fc (nmul Ops (nofZ Ops 4) fe)) fb)) in
  nltb Ops (nmul Ops (nofZ Ops 15) epsilon) (nabs Ops (nsub Ops S2 S)).
Proof. reflexivity. Qed.

Lemma integrate_w_value f a b epsilon depth :
  fst (integrate_w Ops f a b epsilon depth) = integrate Ops f a b epsilon depth.
Proof.
  unfold integrate_w, integrate. destruct (neqb Ops a b); [reflexivity|]. cbn [fst]. rewrite asr_w_value. reflexivity.
Qed.

Lemma panel_loop_w_value fuel : forall f x w t1 acc nw nn,
  rmap fst (panel_loop_w Ops fuel f x w t1 acc nw nn) = panel_loop Ops fuel f x w t1 acc.
Proof.
  induction fuel as [|k IH]; intros; cbn [panel_loop_w panel_loop]; destruct (nltb Ops t1 x); try reflexivity.
  rewrite IH, integrate_w_value. reflexivity.
Qed.

Lemma gammaq_int_w_value x a : rmap fst (gammaq_int_w Ops x a) = gammaq_int Ops x a.
Proof.
  unfold gammaq_int_w, gammaq_int. destruct (gammaln Ops a) as [gln| | |]; try reflexivity. cbn [rbind].
  destruct (ngtb Ops x _); [reflexivity|].
  destruct (nltb Ops x _) eqn:E; [reflexivity|].
  match goal with |- context [panel_loop_w Ops 64 ?f ?xx ?w ?t ?acc 0%Z 0%Z] =>
    rewrite <- (panel_loop_w_value 64 f xx w t acc 0%Z 0%Z); destruct (panel_loop_w Ops 64 f xx w t acc 0%Z 0%Z) as [[v z]| | |] end; reflexivity.
Qed.

(** the counters only count: at most one per panel, so at most 64 *)
Lemma panel_loop_w_counts fuel : forall f x w t1 acc nw nn v cw cn,
  panel_loop_w Ops fuel f x w t1 acc nw nn = Ok (v, (cw, cn)) ->
  (nw <= cw <= nw + Z.of_nat fuel /\ nn <= cn <= nn + Z.of_nat fuel)%Z.
Proof.
  induction fuel as [|k IH]; intros f x w t1 acc nw nn v cw cn H; cbn [panel_loop_w] in H; destruct (nltb Ops t1 x); try discriminate.
  - inversion H; subst. lia.
  - apply IH in H.
    destruct (fst (snd (integrate_w Ops f t1 (nmin Ops x (nadd Ops t1 w)) (ndec Ops 1 100000000) 20)));
    destruct (snd (snd (integrate_w Ops f t1 (nmin Ops x (nadd Ops t1 w)) (ndec Ops 1 100000000) 20))); lia.
  - inversion H; subst. lia.
Qed.
End Warn.
