(** * C07 proofs, part 6: the remaining "from 0 to 1" / inversion-accuracy / mixture clauses
      - Poisson: the masses sum to one (CDF -> 1 in the count), CDF monotone in the count, decreasing and 1-Lipschitz in the mean;
        Inv_CDF_Poisson inverts CDF_Poisson to the accuracy of Inv_GammaQ
      - Quantile_Gauss: accuracy in probability units (CDF_Gauss is 1/(sqrt(2 pi) sigma)-Lipschitz)
      - PDF_Gauss_2D: product of the marginals, iterated integral over a rectangle
      - chi-bar-square mixtures: non-negativity, monotonicity, range and CDF-difference = integral carried from the components
      - KDE: every tabulated ordinate is a Gaussian mixture over an explicit extended sample (data + pseudo data), its integral *)
From Coq Require Import Reals ZArith List Bool Lra Lia Psatz.
From Coquelicot Require Import Coquelicot.
From LP Require Import Num NumR C07_Model C07_Proofs_Cont C07_Proofs_ErfBound C07_Proofs_Disc C07_Proofs_Chi C07_Proofs_Kde.
Import ListNotations.
Local Open Scope R_scope.

(** ** Poisson *)
Lemma pois_sum_factor n mu : pois_sum n mu = exp (- mu) * sum_f_R0 (fun i => / INR (fact i) * mu ^ i) n.
Proof.
  unfold pois_sum. rewrite scal_sum. apply sum_eq. intros i _. unfold poisv, Rdiv. ring.
Qed.

(* the masses sum to one: CDF_Poisson(mu, n) -> 1 as n -> infinity *)
Lemma pois_sum_lim mu : is_lim_seq (fun n => pois_sum n mu) 1.
Proof.
  apply is_lim_seq_ext with (fun n => exp (- mu) * sum_f_R0 (fun i => / INR (fact i) * mu ^ i) n).
  { intros n. symmetry. apply pois_sum_factor. }
  replace 1 with (exp (- mu) * exp mu) by (rewrite <- exp_plus; replace (- mu + mu) with 0 by ring; apply exp_0).
  apply (is_lim_seq_scal_l (fun n => sum_f_R0 (fun i => / INR (fact i) * mu ^ i) n) (exp (- mu)) (exp mu)).
  apply is_lim_seq_Reals. unfold exp. destruct (exist_exp mu) as [l Hl]. cbn.
  intros eps He. destruct (Hl eps He) as [N HN]. exists N. intros n Hn. apply HN. exact Hn.
Qed.

Lemma pois_sum_mono_n mu n d : 0 <= mu -> pois_sum n mu <= pois_sum (n + d) mu.
Proof.
  intros Hmu. induction d as [|d IH]; [rewrite Nat.add_0_r; lra|].
  rewrite Nat.add_succ_r. pose proof (pois_sum_step (n + d) mu). pose proof (poisv_nonneg mu (S (n + d)) Hmu). lra.
Qed.

Lemma poisv_le_1 mu n : 0 <= mu -> poisv mu n <= 1.
Proof.
  intros Hmu. destruct n as [|n].
  - replace (poisv mu 0) with (pois_sum 0 mu) by reflexivity. apply pois_sum_range; auto.
  - pose proof (pois_sum_step n mu). pose proof (pois_sum_range (S n) mu Hmu). pose proof (pois_sum_range n mu Hmu). lra.
Qed.

(* CDF_Poisson(., n) is non-increasing in the mean *)
Lemma pois_sum_decr_mu n m1 m2 : 0 <= m1 -> m1 <= m2 -> pois_sum n m2 <= pois_sum n m1.
Proof.
  intros H1 H12.
  assert (- pois_sum n m1 <= - pois_sum n m2); [|lra].
  apply (incr_of_deriv (fun m => - pois_sum n m) (fun m => poisv m n)); auto.
  - intros x _. replace (poisv x n) with (opp (- poisv x n)) by (unfold opp; cbn; ring).
    apply (is_derive_opp (pois_sum n)). apply pois_sum_derive.
  - intros x Hx. apply poisv_nonneg. lra.
Qed.

(* ... and 1-Lipschitz: the derivative is minus the mass, which lies in [0,1] *)
Lemma pois_sum_lipschitz_le n m1 m2 : 0 <= m1 -> m1 <= m2 -> pois_sum n m1 - pois_sum n m2 <= m2 - m1.
Proof.
  intros H1 H12.
  assert (pois_sum n m1 + m1 <= pois_sum n m2 + m2); [|lra].
  apply (incr_of_deriv (fun m => pois_sum n m + m) (fun m => 1 - poisv m n)); auto.
  - intros x _. replace (1 - poisv x n) with (plus (- poisv x n) 1) by (unfold plus; cbn; ring).
    apply (is_derive_plus (pois_sum n) (fun m => m)); [apply pois_sum_derive|]. auto_derive; auto.
  - intros x Hx. assert (poisv x n <= 1) by (apply poisv_le_1; lra). lra.
Qed.

Lemma pois_sum_lipschitz n m1 m2 : 0 <= m1 -> 0 <= m2 -> Rabs (pois_sum n m1 - pois_sum n m2) <= Rabs (m1 - m2).
Proof.
  intros H1 H2. destruct (Rle_dec m1 m2) as [H|H].
  - pose proof (pois_sum_decr_mu n m1 m2 H1 H). pose proof (pois_sum_lipschitz_le n m1 m2 H1 H).
    rewrite Rabs_pos_eq by lra. rewrite Rabs_left1 by lra. lra.
  - assert (H' : m2 <= m1) by lra.
    pose proof (pois_sum_decr_mu n m2 m1 H2 H'). pose proof (pois_sum_lipschitz_le n m2 m1 H2 H').
    rewrite Rabs_left1 by lra. rewrite Rabs_pos_eq by lra. lra.
Qed.

(* strictly decreasing for positive means: the inverse in the mean is unique *)
Lemma poisv_pos mu n : 0 < mu -> 0 < poisv mu n.
Proof.
  intros H. unfold poisv. apply Rdiv_lt_0_compat; [|apply fact_pos].
  apply Rmult_lt_0_compat; [apply exp_pos|apply pow_lt; auto].
Qed.

Lemma pois_sum_strict n m1 m2 : 0 <= m1 -> m1 < m2 -> pois_sum n m2 < pois_sum n m1.
Proof.
  intros H1 H12. set (h := (m1 + m2) / 2).
  assert (Hh : m1 < h < m2) by (unfold h; lra).
  apply Rlt_le_trans with (pois_sum n h); [|apply pois_sum_decr_mu; lra].
  destruct (MVT_gen (pois_sum n) h m2 (fun m => - poisv m n)) as [c [Hc E]].
  - intros; apply pois_sum_derive.
  - intros x _. apply continuity_pt_filterlim. apply (ex_derive_continuous (pois_sum n)). eexists; apply pois_sum_derive.
  - rewrite Rmin_left, Rmax_right in Hc by lra.
    assert (0 < poisv c n) by (apply poisv_pos; lra). nra.
Qed.

Lemma pois_sum_inverse_unique n m1 m2 : 0 <= m1 -> 0 <= m2 -> pois_sum n m1 = pois_sum n m2 -> m1 = m2.
Proof.
  intros H1 H2 E. destruct (Rtotal_order m1 m2) as [H|[H|H]]; auto.
  - pose proof (pois_sum_strict n m1 m2 H1 H). lra.
  - pose proof (pois_sum_strict n m2 m1 H2 H). lra.
Qed.

(* CDF_Poisson(., n) -> 0 as the mean -> infinity is not needed by the property (means <= 1e3). *)

Definition Qfun (n : nat) (mu : R) : R := 1 - RInt (fun t => exp (- t) * t ^ n / INR (fact n)) 0 mu.

(** Inv_CDF_Poisson inverts CDF_Poisson to the accuracy of Inv_GammaQ: if GammaQ returns the regularised upper incomplete gamma function
    (Q(n+1, mu) = [Qfun n mu], the partial Poisson sum) and Inv_GammaQ(c, n+1) returns a mean within delta of a true root mu*, then
    CDF_Poisson(Inv_CDF_Poisson(n, c), n) is within delta of c; with an exact Inv_GammaQ the round trip is exact, and the root is unique *)
Lemma inv_cdf_poisson_accuracy gammaQ inv_gammaQ (n : nat) c m mustar delta :
  (0 < n)%nat -> (Z.of_nat n + 1 < 4294967296)%Z -> 0 <= c <= 1 ->
  (forall mu, 0 <= mu -> gammaQ mu (INR (S n)) = Ok (Qfun n mu)) ->
  inv_gammaQ c (INR (S n)) = Ok m -> 0 <= m ->
  0 <= mustar -> Qfun n mustar = c -> Rabs (m - mustar) <= delta ->
  inv_cdf_poisson ROps inv_gammaQ (Z.of_nat n) c = Ok m /\
  exists q, cdf_poisson ROps gammaQ m (Z.of_nat n) = Ok q /\ q = sum_f_R0 (poisv m) n /\ Rabs (q - c) <= delta.
Proof.
  intros Hn Hb Hc HQ Hi Hm Hs Hroot Hd. split.
  - rewrite inv_cdf_poisson_delegates by (auto; lia). rewrite u32_small by lia.
    replace (Z.of_nat n + 1)%Z with (Z.of_nat (S n)) by lia. rewrite IZR_of_nat. exact Hi.
  - exists (pois_sum n m). split; [|split; [reflexivity|]].
    + apply cdf_poisson_is_sum; auto. apply HQ; auto.
    + rewrite <- Hroot. unfold Qfun. rewrite <- pois_sum_is_Q.
      eapply Rle_trans; [apply pois_sum_lipschitz; auto|exact Hd].
Qed.

(** ** Quantile_Gauss: accuracy in probability units *)
Lemma exp_le_1 t : t <= 0 -> exp t <= 1.
Proof.
  intros [H|H]; [|rewrite H, exp_0; lra]. left. rewrite <- exp_0. apply exp_increasing. exact H.
Qed.

Lemma derive_lin (k z : R) : is_derive (fun z => k * z) z k.
Proof. auto_derive; auto. ring. Qed.

Section GaussLip.
Variables mu s : R.
Hypothesis Hs : 0 < s.
Let pdf x := pdf_gauss ROps PI x mu s.
Let cdf x := cdf_gauss ROps x mu s.

Lemma gauss_pdf_le_peak x : pdf x <= 1 / sqrt (2 * PI) / s.
Proof.
  unfold pdf, pdf_gauss; cbn. change (Pos.to_nat 2) with 2%nat. pose proof PI_RGT_0.
  assert (0 < 1 / sqrt (2 * PI) / s).
  { apply Rdiv_lt_0_compat; auto. apply Rdiv_lt_0_compat; [lra|]. apply sqrt_lt_R0; lra. }
  assert (exp (- ((x - mu) / s) ^ 2 / 2) <= 1).
  { apply exp_le_1. pose proof (pow2_ge_0 ((x - mu) / s)). lra. }
  nra.
Qed.

Lemma gauss_cdf_lipschitz_le x y : x <= y -> cdf y - cdf x <= 1 / sqrt (2 * PI) / s * (y - x).
Proof.
  intros Hxy. set (k := 1 / sqrt (2 * PI) / s).
  assert (k * x - cdf x <= k * y - cdf y); [|lra].
  apply (incr_of_deriv (fun z => k * z - cdf z) (fun z => k - pdf z)); auto.
  - intros z _. replace (k - pdf z) with (minus k (pdf z)) by reflexivity.
    apply (is_derive_minus (fun z => k * z) cdf).
    + apply derive_lin.
    + exact (gauss_cdf_derive mu s Hs z).
  - intros z _. pose proof (gauss_pdf_le_peak z). unfold k. lra.
Qed.

Lemma gauss_cdf_lipschitz x y : Rabs (cdf x - cdf y) <= 1 / sqrt (2 * PI) / s * Rabs (x - y).
Proof.
  destruct (Rle_dec x y) as [H|H].
  - assert (M : cdf x <= cdf y) by exact (gauss_cdf_monotone mu s Hs x y H). pose proof (gauss_cdf_lipschitz_le x y H).
    rewrite (Rabs_left1 (cdf x - cdf y)) by lra. rewrite (Rabs_left1 (x - y)) by lra. lra.
  - assert (H' : y <= x) by lra.
    assert (M : cdf y <= cdf x) by exact (gauss_cdf_monotone mu s Hs y x H'). pose proof (gauss_cdf_lipschitz_le y x H').
    rewrite (Rabs_pos_eq (cdf x - cdf y)) by lra. rewrite (Rabs_pos_eq (x - y)) by lra. lra.
Qed.
End GaussLip.

(* |Inv_Erf(2p-1) - erfinv(2p-1)| <= delta  ==>  |CDF_Gauss(Quantile_Gauss(p)) - p| <= delta / sqrt(pi), whatever mu and sigma > 0 *)
Lemma quantile_probability_error inv_erf p mu s e t delta : 0 < s ->
  inv_erf (2 * p - 1) = Ok e -> Rerf t = 2 * p - 1 -> Rabs (e - t) <= delta ->
  exists q, quantile_gauss ROps inv_erf p mu s = Ok q /\ Rabs (cdf_gauss ROps q mu s - p) <= delta / sqrt PI.
Proof.
  intros Hs Hi Ht Hd. exists (mu + sqrt 2 * s * e). split; [apply quantile_val; auto|].
  pose proof sqrt2_pos as H2. pose proof sqrtPI_pos as HP.
  assert (E : cdf_gauss ROps (mu + sqrt 2 * s * t) mu s = p).
  { unfold cdf_gauss. cbn. replace ((mu + sqrt 2 * s * t - mu) / (sqrt 2 * s)) with t by (field; split; lra).
    rewrite Ht. field. }
  rewrite <- E.
  eapply Rle_trans; [apply gauss_cdf_lipschitz; auto|].
  replace (mu + sqrt 2 * s * e - (mu + sqrt 2 * s * t)) with (sqrt 2 * s * (e - t)) by ring.
  rewrite Rabs_mult, (Rabs_pos_eq (sqrt 2 * s)) by nra. rewrite sqrt_2PI.
  replace (1 / (sqrt 2 * sqrt PI) / s * (sqrt 2 * s * Rabs (e - t))) with (Rabs (e - t) / sqrt PI) by (field; repeat split; lra).
  unfold Rdiv. apply Rmult_le_compat_r; [left; apply Rinv_0_lt_compat; auto|auto].
Qed.

(** ** PDF_Gauss_2D *)
Lemma gauss2d_factor x y mx my sx sy : sx <> 0 -> sy <> 0 ->
  pdf_gauss_2d ROps PI x y mx my sx sy = pdf_gauss ROps PI x mx sx * pdf_gauss ROps PI y my sy.
Proof.
  intros Hx Hy. unfold pdf_gauss_2d, pdf_gauss; cbn. change (Pos.to_nat 2) with 2%nat.
  pose proof PI_RGT_0. pose proof sqrt2_pos. pose proof sqrtPI_pos. pose proof sqrt2_sq as H2.
  assert (HP : sqrt PI * sqrt PI = PI) by (apply sqrt_sqrt; lra).
  rewrite sqrt_2PI.
  replace (1 / (sqrt 2 * sqrt PI) / sx * exp (- ((x - mx) / sx) ^ 2 / 2) * (1 / (sqrt 2 * sqrt PI) / sy * exp (- ((y - my) / sy) ^ 2 / 2)))
    with (1 / (sqrt 2 * sqrt 2 * (sqrt PI * sqrt PI)) / sx / sy * (exp (- ((x - mx) / sx) ^ 2 / 2) * exp (- ((y - my) / sy) ^ 2 / 2)))
    by (field; repeat split; lra).
  rewrite <- exp_plus, H2, HP. f_equal; [field; repeat split; lra|]. f_equal. field. split; auto.
Qed.

Lemma gauss2d_pos x y mx my sx sy : 0 < sx -> 0 < sy -> 0 < pdf_gauss_2d ROps PI x y mx my sx sy.
Proof.
  intros Hx Hy. rewrite gauss2d_factor by lra. apply Rmult_lt_0_compat; apply gauss_pdf_pos; auto.
Qed.

(* the iterated integral over any rectangle [a,b] x [c,d] is the product of the two CDF differences *)
Lemma gauss2d_rectangle mx my sx sy a b c d : 0 < sx -> 0 < sy ->
  (forall x, is_RInt (fun y => pdf_gauss_2d ROps PI x y mx my sx sy) c d
               (pdf_gauss ROps PI x mx sx * (cdf_gauss ROps d my sy - cdf_gauss ROps c my sy))) /\
  is_RInt (fun x => RInt (fun y => pdf_gauss_2d ROps PI x y mx my sx sy) c d) a b
    ((cdf_gauss ROps b mx sx - cdf_gauss ROps a mx sx) * (cdf_gauss ROps d my sy - cdf_gauss ROps c my sy)).
Proof.
  intros Hx Hy. set (Dy := cdf_gauss ROps d my sy - cdf_gauss ROps c my sy).
  assert (I1 : forall x, is_RInt (fun y => pdf_gauss_2d ROps PI x y mx my sx sy) c d (pdf_gauss ROps PI x mx sx * Dy)).
  { intros x. apply (is_RInt_ext (fun y => scal (pdf_gauss ROps PI x mx sx) (pdf_gauss ROps PI y my sy))).
    { intros y _. unfold scal; cbn; unfold mult; cbn. symmetry. apply gauss2d_factor; lra. }
    change (pdf_gauss ROps PI x mx sx * Dy) with (scal (pdf_gauss ROps PI x mx sx) Dy).
    apply (@is_RInt_scal R_NormedModule). apply gauss_is_RInt; auto. }
  split; [exact I1|].
  apply (is_RInt_ext (fun x => scal Dy (pdf_gauss ROps PI x mx sx))).
  { intros x _. symmetry. rewrite (is_RInt_unique _ _ _ _ (I1 x)). unfold scal; cbn; unfold mult; cbn. ring. }
  replace ((cdf_gauss ROps b mx sx - cdf_gauss ROps a mx sx) * Dy) with (scal Dy (cdf_gauss ROps b mx sx - cdf_gauss ROps a mx sx))
    by (unfold scal; cbn; unfold mult; cbn; ring).
  apply (@is_RInt_scal R_NormedModule). apply gauss_is_RInt; auto.
Qed.

(** ** chi-bar-square mixtures with non-negative weights *)
Lemma is_RInt_zero u v : is_RInt (fun _ : R => 0) u v 0.
Proof.
  pose proof (@is_RInt_const R_NormedModule u v 0) as C.
  replace (scal (v - u) (0 : R_NormedModule)) with (0 : R) in C by (unfold scal; cbn; unfold mult; cbn; ring). exact C.
Qed.

Definition wtotal (ws : list R) : R := fold_right Rplus 0 ws.

Lemma mixsum_nonneg (g : Z -> R) ws : List.Forall (fun w => 0 <= w) ws -> forall d, (forall k, (d <= k)%Z -> 0 <= g k) -> 0 <= mixsum g ws d.
Proof.
  intros Hw; induction Hw as [|w r Hw Hr IH]; intros d Hg; cbn [mixsum]; [lra|].
  assert (0 <= g d) by (apply Hg; lia). assert (0 <= mixsum g r (d + 1)) by (apply IH; intros; apply Hg; lia). nra.
Qed.

Lemma mixsum_mono (g h : Z -> R) ws : List.Forall (fun w => 0 <= w) ws -> forall d, (forall k, (d <= k)%Z -> g k <= h k) ->
  mixsum g ws d <= mixsum h ws d.
Proof.
  intros Hw; induction Hw as [|w r Hw Hr IH]; intros d Hg; cbn [mixsum]; [lra|].
  assert (g d <= h d) by (apply Hg; lia). assert (mixsum g r (d + 1) <= mixsum h r (d + 1)) by (apply IH; intros; apply Hg; lia). nra.
Qed.

Lemma mixsum_le_total (g : Z -> R) ws : List.Forall (fun w => 0 <= w) ws -> forall d, (forall k, (d <= k)%Z -> g k <= 1) ->
  mixsum g ws d <= wtotal ws.
Proof.
  intros Hw; induction Hw as [|w r Hw Hr IH]; intros d Hg; cbn [mixsum wtotal fold_right]; [lra|].
  assert (g d <= 1) by (apply Hg; lia). assert (mixsum g r (d + 1) <= wtotal r) by (apply IH; intros; apply Hg; lia).
  unfold wtotal in *. nra.
Qed.

(* components with weight exactly 0 (zero-padded weight vectors) need no hypothesis *)
Lemma mixsum_is_RInt (c p : Z -> R -> R) ws u v : forall d,
  (forall k, (d <= k < d + Z.of_nat (length ws))%Z -> nth (Z.to_nat (k - d)) ws 0 <> 0 -> is_RInt (p k) u v (c k v - c k u)) ->
  is_RInt (fun x => mixsum (fun k => p k x) ws d) u v (mixsum (fun k => c k v) ws d - mixsum (fun k => c k u) ws d).
Proof.
  induction ws as [|w r IH]; intros d H; cbn [mixsum].
  - replace (0 - 0) with 0 by ring. apply is_RInt_zero.
  - assert (IR : is_RInt (fun x => mixsum (fun k => p k x) r (d + 1)) u v
                   (mixsum (fun k => c k v) r (d + 1) - mixsum (fun k => c k u) r (d + 1))).
    { apply IH. intros k Hk Hn. apply H; [cbn [length]; lia|].
      replace (Z.to_nat (k - d)) with (S (Z.to_nat (k - (d + 1)))) by lia. exact Hn. }
    destruct (Req_dec w 0) as [E|E].
    + subst w. apply (is_RInt_ext (fun x => mixsum (fun k => p k x) r (d + 1))); [intros x _; change (mixsum (fun k => p k x) r (d + 1) = 0 * p d x + mixsum (fun k => p k x) r (d + 1)); ring|].
      replace (0 * c d v + mixsum (fun k => c k v) r (d + 1) - (0 * c d u + mixsum (fun k => c k u) r (d + 1)))
        with (mixsum (fun k => c k v) r (d + 1) - mixsum (fun k => c k u) r (d + 1)) by ring.
      exact IR.
    + replace (w * c d v + mixsum (fun k => c k v) r (d + 1) - (w * c d u + mixsum (fun k => c k u) r (d + 1)))
        with (plus (scal w (c d v - c d u)) (mixsum (fun k => c k v) r (d + 1) - mixsum (fun k => c k u) r (d + 1)))
        by (unfold plus, scal; cbn; unfold mult; cbn; ring).
      apply (@is_RInt_plus R_NormedModule (fun x => w * p d x) (fun x => mixsum (fun k => p k x) r (d + 1))); [|exact IR].
      apply (@is_RInt_scal R_NormedModule). apply H; [cbn [length]; lia|].
      replace (Z.to_nat (d - d)) with 0%nat by lia. exact E.
Qed.

(* the density mixture is >= 0 for non-negative weights, whatever GammaLn returns (every component that returns is an exponential or 0) *)
Lemma mix_loop_nonneg (f : R -> R -> res R) x : (forall dof v, f x dof = Ok v -> 0 <= v) ->
  forall ws d acc v, List.Forall (fun w => 0 <= w) ws -> 0 <= acc -> mix_loop ROps f x ws d acc = Ok v -> 0 <= v.
Proof.
  intros Hf ws; induction ws as [|w r IH]; intros d acc v Hw Ha; cbn [mix_loop].
  - intros [= <-]; auto.
  - inversion Hw as [|? ? H1 H2]; subst. destruct (f x (nofZ ROps d)) as [a| | |] eqn:E; cbn [rbind]; try discriminate.
    apply IH; auto. pose proof (Hf _ _ E). cbn [nadd nmul ROps]. nra.
Qed.

Lemma Forall_tl {A} (P : A -> Prop) l : List.Forall P l -> List.Forall P (tl l).
Proof. intros H; destruct H; cbn; auto. Qed.

Section ChiBarCoherent.
Variable gammaLn : R -> res R.
Variable gammaP : R -> R -> res R.
Variable ws : list R.
Hypothesis Hw : List.Forall (fun w => 0 <= w) ws.

Lemma chibar_pdf_nonneg x v : pdf_chi_bar_square ROps gammaLn x ws = Ok v -> 0 <= v.
Proof.
  unfold pdf_chi_bar_square. cbn [nleb n0 ROps]. destruct (Rleb_spec x 0); [intros [= <-]; lra|].
  apply (mix_loop_nonneg (pdf_chi_square ROps gammaLn) x); [|apply Forall_tl; auto|cbn; lra].
  intros dof w. apply chi2_pdf_nonneg.
Qed.

(* component CDFs: returned values c d x in [0,1], non-decreasing on [0, inf) *)
Variable c : Z -> R -> R.
Hypothesis Hc : forall d x, 0 <= x -> cdf_chi_square ROps gammaP x (IZR d) = Ok (c d x).
Hypothesis Hrange : forall d x, 0 <= x -> 0 <= c d x <= 1.
Hypothesis Hmono : forall d x y, 0 <= x -> x <= y -> c d x <= c d y.
Hypothesis Htot : wtotal ws <= 1.
Let cdf x := val (cdf_chi_bar_square ROps gammaP x ws).

(* local version of chibar_cdf_mixture: the components are only needed at the one abscissa *)
Lemma chibar_cdf_val x : 0 <= x -> cdf_chi_bar_square ROps gammaP x ws = Ok (mixsum (fun k => c k x) ws 0).
Proof.
  intros Hx. rewrite (chibar_cdf_mixture gammaP x ws (fun k => c k x)); auto.
  f_equal. apply Rmin_right. eapply Rle_trans; [|exact Htot]. apply mixsum_le_total; auto. intros; apply Hrange; auto.
Qed.

Lemma chibar_cdf_range x : 0 <= cdf x <= 1.
Proof.
  unfold cdf. destruct (Rlt_dec x 0) as [H|H].
  - rewrite (proj2 (chibar_outside gammaLn gammaP x ws)); auto. cbn; lra.
  - rewrite chibar_cdf_val by lra. cbn [val]. split.
    + apply mixsum_nonneg; auto. intros; apply Hrange; lra.
    + eapply Rle_trans; [|exact Htot]. apply mixsum_le_total; auto. intros; apply Hrange; lra.
Qed.

Lemma chibar_cdf_monotone x y : x <= y -> cdf x <= cdf y.
Proof.
  intros Hxy. destruct (Rlt_dec x 0) as [H|H].
  - unfold cdf at 1. rewrite (proj2 (chibar_outside gammaLn gammaP x ws)); auto. cbn [val]. apply chibar_cdf_range.
  - unfold cdf. rewrite !chibar_cdf_val by lra. cbn [val]. apply mixsum_mono; auto. intros; apply Hmono; lra.
Qed.

(* CDF difference = integral of the density over [u,v], 0 < u <= v, carried from the components (dof >= 1; the dof-0 step is constant there) *)
Variable p : Z -> R -> R.
Hypothesis Hp : forall d x, 0 < x -> pdf_chi_square ROps gammaLn x (IZR d) = Ok (p d x).

Lemma chibar_is_RInt u v : 0 < u -> u <= v ->
  (forall k, (1 <= k < Z.of_nat (length ws))%Z -> nth (Z.to_nat k) ws 0 <> 0 -> is_RInt (p k) u v (c k v - c k u)) ->
  is_RInt (fun x => val (pdf_chi_bar_square ROps gammaLn x ws)) u v (cdf v - cdf u).
Proof.
  intros Hu Huv HI. unfold cdf. rewrite !chibar_cdf_val by lra. cbn [val].
  apply (is_RInt_ext (fun x => mixsum (fun k => p k x) (tl ws) 1)).
  { intros x Hx. rewrite Rmin_left, Rmax_right in Hx by lra.
    rewrite (chibar_pdf_mixture gammaLn x ws (fun k => p k x)); [reflexivity|lra|intros; apply Hp; lra]. }
  destruct ws as [|w0 r]; cbn [tl].
  - cbn [mixsum]. replace (0 - 0) with 0 by ring. apply is_RInt_zero.
  - cbn [mixsum]. change (0 + 1)%Z with 1%Z.
    assert (E0 : forall x, 0 <= x -> c 0%Z x = 1).
    { intros x Hx. pose proof (Hc 0%Z x Hx) as E. rewrite (proj1 (chi2_dof0 gammaLn gammaP x) Hx) in E. injection E; auto. }
    rewrite !E0 by lra.
    replace (w0 * 1 + mixsum (fun k => c k v) r 1 - (w0 * 1 + mixsum (fun k => c k u) r 1))
      with (mixsum (fun k => c k v) r 1 - mixsum (fun k => c k u) r 1) by ring.
    apply mixsum_is_RInt. intros k Hk Hn. apply HI; [cbn [length]; lia|].
    replace (Z.to_nat k) with (S (Z.to_nat (k - 1))) by lia. exact Hn.
Qed.
End ChiBarCoherent.

(** ** KDE: what Perform_KDE tabulates is a Gaussian mixture over an explicit extended sample *)
Definition dflt : R * R := (0, 0).
(* the sample together with the Cowling-Hall pseudo data, in the order the inner loop visits them; independent of x and of the bandwidth *)
Fixpoint kde_ext (data rest : list (R * R)) (i npseudo : Z) (xmin : R) : list (R * R) :=
  match rest with
  | [] => []
  | d :: r =>
      if (i <? npseudo)%Z then
        let d2 := nth (Z.to_nat (2 * i)) data dflt in
        let d3 := nth (Z.to_nat (3 * i)) data dflt in
        d :: (4 * xmin - 6 * fst d + 4 * fst d2 - fst d3, (snd d + snd d2 + snd d3) / 3) :: kde_ext data r (i + 1) npseudo xmin
      else d :: kde_ext data r (i + 1) npseudo xmin
  end.
Definition ksum (ext : list (R * R)) (x bw : R) : R :=
  fold_right (fun e acc => snd e * gaussian_kernel ROps PI ((x - fst e) / bw) + acc) 0 ext.
Definition kmass (ext : list (R * R)) (u v bw : R) : R :=
  fold_right (fun e acc => snd e * (cdf_gauss ROps v (fst e) bw - cdf_gauss ROps u (fst e) bw) + acc) 0 ext.

Lemma getZ_nth {A} (l : list A) i a dft : getZ l i = Ok a -> a = nth (Z.to_nat i) l dft.
Proof.
  unfold getZ, get. destruct (i <? 0)%Z; [discriminate|].
  destruct (nth_error l (Z.to_nat i)) eqn:E; [|discriminate]. intros [= <-]. symmetry. apply nth_error_nth. exact E.
Qed.

Lemma kde_inner_mixture data npseudo x xmin bw : forall rest i kde v,
  kde_inner ROps PI data rest i npseudo x xmin bw kde = Ok v ->
  v = kde + ksum (kde_ext data rest i npseudo xmin) x bw.
Proof.
  induction rest as [|d r IH]; intros i kde v; cbn [kde_inner kde_ext].
  - intros [= <-]. cbn. ring.
  - destruct (i <? npseudo)%Z.
    + destruct (getZ data (2 * i)) as [d2| | |] eqn:E2; cbn [rbind]; try discriminate.
      destruct (getZ data (3 * i)) as [d3| | |] eqn:E3; cbn [rbind]; try discriminate.
      intros H. apply IH in H. rewrite H.
      rewrite <- (getZ_nth data (2 * i) d2 dflt E2), <- (getZ_nth data (3 * i) d3 dflt E3).
      cbn [ksum fold_right fst snd nadd nmul ndiv nsub nofZ ROps]. fold (ksum (kde_ext data r (i + 1) npseudo xmin) x bw). ring.
    + intros H. apply IH in H. rewrite H.
      cbn [ksum fold_right fst snd nadd nmul ndiv nsub ROps]. fold (ksum (kde_ext data r (i + 1) npseudo xmin) x bw). ring.
Qed.

(* K((x - p) / h) / h is the normal density with mean p and width h *)
Lemma kernel_scaled x p h : 0 < h -> gaussian_kernel ROps PI ((x - p) / h) / h = pdf_gauss ROps PI x p h.
Proof.
  intros Hh. unfold gaussian_kernel, pdf_gauss; cbn. change (Pos.to_nat 2) with 2%nat.
  pose proof PI_RGT_0. assert (0 < sqrt (2 * PI)) by (apply sqrt_lt_R0; lra).
  replace (((x - p) / h - 0) / 1) with ((x - p) / h) by (field; lra). field. split; lra.
Qed.

Lemma ksum_is_RInt ext u v h : 0 < h -> is_RInt (fun x => ksum ext x h / h) u v (kmass ext u v h).
Proof.
  intros Hh. induction ext as [|e r IH]; cbn [ksum kmass fold_right].
  - apply (is_RInt_ext (fun _ => 0)); [intros x _; change (0 = 0 / h); unfold Rdiv; ring|].
    apply is_RInt_zero.
  - fold (ksum r) (kmass r u v h).
    apply (is_RInt_ext (fun x => plus (scal (snd e) (pdf_gauss ROps PI x (fst e) h)) (ksum r x h / h))).
    { intros x _. rewrite <- kernel_scaled by auto. set (K := gaussian_kernel ROps PI ((x - fst e) / h)). set (S0 := ksum r x h).
      change (snd e * (K / h) + S0 / h = (snd e * K + S0) / h). field. lra. }
    apply (@is_RInt_plus R_NormedModule); [|exact IH].
    apply (@is_RInt_scal R_NormedModule). apply gauss_is_RInt; auto.
Qed.

(* the mass of the raw estimate over [u,v] lies between 0 and the total weight of the extended sample *)
Lemma kmass_range ext u v h : 0 < h -> u <= v -> List.Forall (fun e => 0 <= snd e) ext ->
  0 <= kmass ext u v h <= wtotal (map snd ext).
Proof.
  intros Hh Huv Hw. induction Hw as [|e r He Hr IH]; cbn [kmass map wtotal fold_right]; [lra|].
  fold (kmass r u v h) (wtotal (map snd r)).
  pose proof (gauss_cdf_monotone (fst e) h Hh u v Huv).
  pose proof (gauss_cdf_range (fst e) h v). pose proof (gauss_cdf_range (fst e) h u).
  assert (0 <= cdf_gauss ROps v (fst e) h - cdf_gauss ROps u (fst e) h <= 1) by lra. nra.
Qed.

Lemma kde_ext_nonneg data npseudo xmin : List.Forall (fun d => 0 <= snd d) data ->
  forall rest i, List.Forall (fun d => 0 <= snd d) rest -> List.Forall (fun e => 0 <= snd e) (kde_ext data rest i npseudo xmin).
Proof.
  intros Hd rest; induction rest as [|d r IH]; intros i Hr; cbn [kde_ext]; [constructor|].
  inversion Hr as [|? ? H1 H2]; subst.
  assert (N : forall k, 0 <= snd (nth k data dflt)).
  { intros k. destruct (nth_in_or_default k data dflt) as [I|E]; [|rewrite E; cbn; lra].
    rewrite Forall_forall in Hd. apply Hd; auto. }
  destruct (i <? npseudo)%Z; cbv zeta.
  - constructor; [auto|]. constructor; [|apply IH; auto]. cbn [snd].
    pose proof (N (Z.to_nat (2 * i))). pose proof (N (Z.to_nat (3 * i))). lra.
  - constructor; auto.
Qed.

(* without pseudo data the extended sample is the sample *)
Lemma kde_ext_no_pseudo data xmin : forall rest i npseudo, (npseudo <= i)%Z -> kde_ext data rest i npseudo xmin = rest.
Proof.
  induction rest as [|d r IH]; intros i np H; cbn [kde_ext]; [reflexivity|].
  destruct (Z.ltb_spec i np); [lia|]. f_equal. apply IH. lia.
Qed.

Lemma kde_table_mixture data npseudo xmin dx bw wsum : forall n j t,
  kde_table ROps PI data npseudo xmin dx bw wsum j n = Ok t ->
  length t = n /\
  forall k, (k < n)%nat ->
    nth k t dflt = (xmin + IZR (j + Z.of_nat k) * dx,
                    ksum (kde_ext data data 0 npseudo xmin) (xmin + IZR (j + Z.of_nat k) * dx) bw / (bw * wsum)).
Proof.
  induction n as [|n IH]; intros j t; cbn [kde_table].
  - intros [= <-]. split; [reflexivity|]. intros; lia.
  - destruct (kde_inner _ _ _ _ _ _ _ _ _ _) as [kv| | |] eqn:E; cbn [rbind]; try discriminate.
    destruct (kde_table _ _ _ _ _ _ _ _ _ _) as [t'| | |] eqn:Et; cbn [rbind]; try discriminate.
    intros [= <-]. apply kde_inner_mixture in E. destruct (IH _ _ Et) as [L N]. split; [cbn; f_equal; exact L|].
    intros [|k] Hk; cbn [nth].
    + cbn [nadd nmul ndiv nofZ n0 ROps] in *. rewrite E. rewrite Z.add_0_r. f_equal. f_equal. ring.
    + rewrite N by lia. replace (j + 1 + Z.of_nat k)%Z with (j + Z.of_nat (S k))%Z by lia. reflexivity.
Qed.

(** Perform_KDE: if the table is accepted, its k-th row is (x_k, f(x_k)) with x_k = xmin + k (xmax - xmin)/149 and
    f(x) = sum_e w_e K((x - p_e)/h) / (h W) over the extended sample e of the sorted data — one function f for all 150 rows.
    For h > 0 and W <> 0, int_u^v f = [kmass ext u v h / W]; for non-negative weights and W > 0 it lies in [0, W_ext / W]. *)
Lemma perform_kde_mixture data xmin xmax bw t :
  perform_kde ROps PI data xmin xmax bw = Ok t ->
  let wsum := fold_left (fun acc d => acc + snd d) data 0 in
  let h := kde_bandwidth ROps data wsum bw in
  let sorted := sort_dp ROps data in
  let ext := kde_ext sorted sorted 0 (ntrunc ROps (IZR (Z.of_nat (length data)) / 3)) xmin in
  let f := fun x => ksum ext x h / (h * wsum) in
  (forall k, (k < 150)%nat -> nth k t dflt = (xmin + IZR (Z.of_nat k) * ((xmax - xmin) / 149), f (xmin + IZR (Z.of_nat k) * ((xmax - xmin) / 149)))) /\
  (0 < h -> wsum <> 0 -> forall u v, is_RInt f u v (kmass ext u v h / wsum)) /\
  (0 < h -> 0 < wsum -> List.Forall (fun d => 0 <= snd d) data ->
     forall u v, u <= v -> 0 <= kmass ext u v h / wsum <= wtotal (map snd ext) / wsum).
Proof.
  intros H wsum h sorted ext f. split; [|split].
  - unfold perform_kde in H.
    destruct (kde_table _ _ _ _ _ _ _ _ _ _) as [t'| | |] eqn:Et; cbn [rbind] in H; try discriminate.
    destruct (strictly_increasing ROps t'); [|discriminate]. injection H as <-.
    apply kde_table_mixture in Et. destruct Et as [_ N]. intros k Hk.
    rewrite N by (change (Z.to_nat kde_points) with 150%nat; exact Hk).
    cbn [nadd nsub nmul ndiv nofZ n0 ROps]. change (kde_points - 1)%Z with 149%Z. rewrite Z.add_0_l. reflexivity.
  - intros Hh Hw u v. unfold f.
    apply (is_RInt_ext (fun x => scal (/ wsum) (ksum ext x h / h))).
    { intros x _. unfold scal; cbn; unfold mult; cbn. field. split; lra. }
    replace (kmass ext u v h / wsum) with (scal (/ wsum) (kmass ext u v h)) by (unfold scal; cbn; unfold mult; cbn; field; auto).
    apply (@is_RInt_scal R_NormedModule). apply ksum_is_RInt; auto.
  - intros Hh Hw Hd u v Huv.
    assert (He : List.Forall (fun e => 0 <= snd e) ext).
    { apply kde_ext_nonneg; apply sort_dp_Forall; auto. }
    destruct (kmass_range ext u v h Hh Huv He) as [A B].
    assert (0 < / wsum) by (apply Rinv_0_lt_compat; auto). unfold Rdiv. split; nra.
Qed.

(** ** Inv_Erf: the guards, the bracket, and the accuracy chain Find_Root -> Inv_Erf -> Quantile_Gauss -> CDF_Gauss *)

Lemma lit_1em16_R : lit_1em16 ROps = 1 / 10000000000000000.
Proof. reflexivity. Qed.

Section InvErfProofs.
Variable find_root : (R -> R) -> R -> R -> R -> res R.
Let tiny := 1 / 10000000000000000.

Lemma inv_erf_cases p :
  (Rabs (p - 1) < tiny -> inv_erf_fn ROps find_root p = Ok 10) /\
  (Rabs (p + 1) < tiny -> inv_erf_fn ROps find_root p = Ok (- 10)) /\
  (tiny <= Rabs (p - 1) -> tiny <= Rabs (p + 1) -> 1 <= Rabs p -> inv_erf_fn ROps find_root p = Exit) /\
  (Rabs p < 1 -> tiny <= Rabs (p - 1) -> tiny <= Rabs (p + 1) ->
     inv_erf_fn ROps find_root p = find_root (fun x => Rerf x - p) (- 10) 10 (1 / 10000)).
Proof.
  unfold inv_erf_fn. rewrite lit_1em16_R. fold tiny. unfold ngeb. cbn [nltb nleb nabs nsub nadd nneg nofZ n1 nerf ndec ndiv ROps].
  assert (Ht : 0 < tiny) by (unfold tiny; lra).
  repeat split; intros.
  - destruct (Rltb_spec (Rabs (p - 1)) tiny); [reflexivity|lra].
  - destruct (Rltb_spec (Rabs (p - 1)) tiny) as [A|A].
    + exfalso. apply Rabs_def2 in A. apply Rabs_def2 in H. unfold tiny in *. lra.
    + destruct (Rltb_spec (Rabs (p + 1)) tiny); [reflexivity|lra].
  - destruct (Rltb_spec (Rabs (p - 1)) tiny); [lra|]. destruct (Rltb_spec (Rabs (p + 1)) tiny); [lra|].
    destruct (Rleb_spec 1 (Rabs p)); [reflexivity|lra].
  - destruct (Rltb_spec (Rabs (p - 1)) tiny); [lra|]. destruct (Rltb_spec (Rabs (p + 1)) tiny); [lra|].
    destruct (Rleb_spec 1 (Rabs p)); [lra|reflexivity].
Qed.

(* the guards never fire inside the open interval up to 1 - 1e-16: every such p reaches Find_Root; the process is never terminated by Inv_Erf itself there *)
Lemma inv_erf_reaches_find_root p : Rabs p <= 1 - tiny ->
  inv_erf_fn ROps find_root p = find_root (fun x => Rerf x - p) (- 10) 10 (1 / 10000).
Proof.
  intros H. assert (Ht : 0 < tiny) by (unfold tiny; lra).
  apply inv_erf_cases.
  - lra.
  - unfold Rabs in *. destruct (Rcase_abs p), (Rcase_abs (p - 1)); lra.
  - unfold Rabs in *. destruct (Rcase_abs p), (Rcase_abs (p + 1)); lra.
Qed.

Lemma inv_erf_outside p : 1 + tiny <= Rabs p -> inv_erf_fn ROps find_root p = Exit.
Proof.
  intros H. assert (Ht : 0 < tiny) by (unfold tiny; lra).
  apply inv_erf_cases.
  - unfold Rabs in *. destruct (Rcase_abs p), (Rcase_abs (p - 1)); lra.
  - unfold Rabs in *. destruct (Rcase_abs p), (Rcase_abs (p + 1)); lra.
  - lra.
Qed.
End InvErfProofs.

(* erf is strictly increasing and continuous *)
Lemma Rerf_strict x y : x < y -> Rerf x < Rerf y.
Proof.
  intros Hxy. destruct (MVT_gen Rerf x y (fun z => 2 / sqrt PI * exp (- (z * z)))) as [c [Hc E]].
  - intros; apply Rerf_derive.
  - intros z _. apply continuity_pt_filterlim. apply (ex_derive_continuous Rerf). eexists; apply Rerf_derive.
  - assert (0 < 2 / sqrt PI * exp (- (c * c))).
    { apply Rmult_lt_0_compat; [|apply exp_pos]. apply Rdiv_lt_0_compat; [lra|apply sqrtPI_pos]. }
    nra.
Qed.

Lemma Rerf_continuity : continuity Rerf.
Proof. intros z. apply continuity_pt_filterlim. apply (ex_derive_continuous Rerf). eexists; apply Rerf_derive. Qed.

Lemma Rerf_m10 : Rerf (- 10) = - Rerf 10.
Proof. rewrite <- Rerf_odd; f_equal; lra. Qed.

Lemma exp1_pow n : exp 1 ^ n = exp (INR n).
Proof. induction n as [|n IH]; [cbn; rewrite exp_0; reflexivity|]. rewrite S_INR, exp_plus, <- IH. cbn. ring. Qed.

Lemma exp_m100_small : exp (- (10 * 10)) < 1 / 9007199254740992.
Proof.
  assert (E1 : 2 <= exp 1) by (pose proof (exp_ineq1 1 ltac:(lra)); lra).
  assert (P : 2 ^ 53 <= exp 1 ^ 53) by (apply pow_incr; lra).
  rewrite exp1_pow in P. replace (INR 53) with 53 in P by (simpl; lra).
  assert (V : 2 ^ 53 = 9007199254740992) by (simpl; lra). rewrite V in P.
  assert (L : exp (- (10 * 10)) < exp (Ropp 53)) by (apply exp_increasing; lra).
  rewrite (exp_Ropp 53) in L.
  assert (/ exp 53 <= / 9007199254740992) by (apply Rinv_le_contravar; lra). lra.
Qed.

Lemma inv_sqrtPI_small : 1 / 10000 / sqrt PI < 578 / 10000000.
Proof.
  assert (HP : 3 < PI) by (pose proof PI2_3_2; unfold PI2 in *; lra).
  assert (S : 17302 / 10000 < sqrt PI).
  { rewrite <- (sqrt_square (17302 / 10000)) by lra. apply sqrt_lt_1_alt. lra. }
  apply Rlt_trans with (1 / 10000 / (17302 / 10000)); [|lra].
  unfold Rdiv. apply Rmult_lt_compat_l; [lra|]. apply Rinv_lt_contravar; [nra|lra].
Qed.

(* the bracket [-10,10] of Inv_Erf: for every |p| <= 1 - 2^-53 (every double strictly between -1 and 1) erf(-10) - p < 0 < erf(10) - p, so that
   Find_Root's bracket test passes, and erf(t) = p has exactly one solution, which lies strictly inside the bracket *)
Lemma inv_erf_bracket p : Rabs p <= 1 - 1 / 9007199254740992 ->
  Rerf (- 10) - p < 0 < Rerf 10 - p /\
  exists t, - 10 < t < 10 /\ Rerf t = p /\ forall t', Rerf t' = p -> t' = t.
Proof.
  intros Hp. pose proof (Rerf_tail 10 ltac:(lra)) as T. pose proof exp_m100_small as S.
  assert (B : Rerf (- 10) - p < 0 < Rerf 10 - p).
  { rewrite Rerf_m10. unfold Rabs in Hp. destruct (Rcase_abs p); lra. }
  split; [exact B|].
  assert (C : continuity (fun x => Rerf x - p)).
  { intros z. apply continuity_pt_minus; [apply Rerf_continuity|apply continuity_pt_const; intros a b; reflexivity]. }
  destruct (IVT (fun x => Rerf x - p) (- 10) 10 C ltac:(lra) (proj1 B) (proj2 B)) as [t [Ht E]].
  exists t. assert (Et : Rerf t = p) by lra. split; [|split; [exact Et|]].
  - assert (t <> - 10) by (intros ->; lra). assert (t <> 10) by (intros ->; lra). lra.
  - intros t' E'. destruct (Rtotal_order t' t) as [H|[H|H]]; auto.
    + pose proof (Rerf_strict _ _ H). lra.
    + pose proof (Rerf_strict _ _ H). lra.
Qed.

(** the accuracy chain.  If Find_Root meets its request on erf(x) - (2p-1) over [-10,10] (property C02: it returns e within 1e-4 of a root t),
    then Inv_Erf(2p-1) = e, Quantile_Gauss(p) is within sqrt2 sigma 1e-4 of the true quantile, and CDF_Gauss(Quantile_Gauss(p)) is within
    1e-4/sqrt(pi) < 5.78e-5 of p — for all mu, sigma > 0 and all p with 2^-54 <= p <= 1 - 2^-54 *)
Lemma quantile_gauss_lib_accuracy find_root p mu s e t : 0 < s ->
  1 / 18014398509481984 <= p <= 1 - 1 / 18014398509481984 ->
  find_root (fun x => Rerf x - (2 * p - 1)) (- 10) 10 (1 / 10000) = Ok e ->
  Rerf t = 2 * p - 1 -> Rabs (e - t) <= 1 / 10000 ->
  inv_erf_fn ROps find_root (2 * p - 1) = Ok e /\
  exists q, quantile_gauss_lib ROps find_root p mu s = Ok q /\
            Rabs (q - (mu + sqrt 2 * s * t)) <= sqrt 2 * s * (1 / 10000) /\
            cdf_gauss ROps (mu + sqrt 2 * s * t) mu s = p /\
            Rabs (cdf_gauss ROps q mu s - p) <= 1 / 10000 / sqrt PI /\ 1 / 10000 / sqrt PI < 578 / 10000000.
Proof.
  intros Hs Hp Hf Ht Hd.
  assert (I : inv_erf_fn ROps find_root (2 * p - 1) = Ok e).
  { rewrite inv_erf_reaches_find_root; [exact Hf|]. unfold Rabs. destruct (Rcase_abs (2 * p - 1)); lra. }
  split; [exact I|].
  destruct (quantile_error (inv_erf_fn ROps find_root) p mu s e t (1 / 10000) ltac:(lra) I Hd) as [q [Q1 Q2]].
  destruct (quantile_probability_error (inv_erf_fn ROps find_root) p mu s e t (1 / 10000) Hs I Ht Hd) as [q' [Q1' Q3]].
  unfold quantile_gauss_lib. exists q. split; [exact Q1|]. split; [exact Q2|].
  assert (q' = q) by (rewrite Q1 in Q1'; injection Q1'; auto). subst q'.
  split; [|split; [exact Q3|]].
  - pose proof sqrt2_pos. unfold cdf_gauss. cbn. replace ((mu + sqrt 2 * s * t - mu) / (sqrt 2 * s)) with t by (field; split; lra).
    rewrite Ht. field.
  - exact inv_sqrtPI_small.
Qed.

(* p = 1 and p = 0: Inv_Erf answers +-10 by convention; the quantile is mu +- 10 sqrt2 sigma, where the CDF is within e^-100/2 of 1 resp. 0;
   p outside [0,1] by more than 5e-17 terminates the process *)
Lemma quantile_gauss_lib_ends find_root mu s : 0 < s ->
  quantile_gauss_lib ROps find_root 1 mu s = Ok (mu + sqrt 2 * s * 10) /\
  quantile_gauss_lib ROps find_root 0 mu s = Ok (mu + sqrt 2 * s * - 10) /\
  1 - exp (- 100) / 2 <= cdf_gauss ROps (mu + sqrt 2 * s * 10) mu s < 1 /\
  0 < cdf_gauss ROps (mu + sqrt 2 * s * - 10) mu s <= exp (- 100) / 2 /\
  (forall p, p <= - (1 / 10000000000000000) \/ 1 + 1 / 10000000000000000 <= p -> quantile_gauss_lib ROps find_root p mu s = Exit).
Proof.
  intros Hs. pose proof sqrt2_pos as H2.
  assert (E1 : inv_erf_fn ROps find_root (2 * 1 - 1) = Ok 10).
  { apply inv_erf_cases. replace (2 * 1 - 1 - 1) with 0 by ring. rewrite Rabs_R0. lra. }
  assert (E0 : inv_erf_fn ROps find_root (2 * 0 - 1) = Ok (- 10)).
  { apply inv_erf_cases. replace (2 * 0 - 1 + 1) with 0 by ring. rewrite Rabs_R0. lra. }
  unfold quantile_gauss_lib.
  split; [apply quantile_val; exact E1|]. split; [apply quantile_val; exact E0|].
  assert (C1 : cdf_gauss ROps (mu + sqrt 2 * s * 10) mu s = 1 / 2 * (1 + Rerf 10)).
  { unfold cdf_gauss. cbn. replace ((mu + sqrt 2 * s * 10 - mu) / (sqrt 2 * s)) with 10 by (field; split; lra). reflexivity. }
  assert (C0 : cdf_gauss ROps (mu + sqrt 2 * s * - 10) mu s = 1 / 2 * (1 + Rerf (- 10))).
  { unfold cdf_gauss. cbn. replace ((mu + sqrt 2 * s * - 10 - mu) / (sqrt 2 * s)) with (- 10) by (field; split; lra). reflexivity. }
  pose proof (Rerf_tail 10 ltac:(lra)) as T. replace (- (10 * 10)) with (- 100) in T by ring.
  pose proof (Rerf_bounded 10) as B.
  split; [rewrite C1; lra|]. split; [rewrite C0, Rerf_m10; lra|].
  intros p Hp. apply quantile_exit. apply inv_erf_outside.
  unfold Rabs. destruct (Rcase_abs (2 * p - 1)); lra.
Qed.

(** ** non-vacuity examples for the conditional statements above *)
Example ex_inv_cdf_poisson_accuracy :
  let gq := fun (mu _ : R) => Ok (Qfun 1 mu) in
  let ig := fun (_ _ : R) => Ok 0 in
  inv_cdf_poisson ROps ig (Z.of_nat 1) 1 = Ok 0 /\
  exists q, cdf_poisson ROps gq 0 (Z.of_nat 1) = Ok q /\ q = sum_f_R0 (poisv 0) 1 /\ Rabs (q - 1) <= 0.
Proof.
  intros gq ig. apply (inv_cdf_poisson_accuracy gq ig 1 1 0 0 0); try lia; try lra; try reflexivity.
  - unfold Qfun. rewrite RInt_point. unfold zero; cbn. lra.
  - replace (0 - 0) with 0 by ring. rewrite Rabs_R0. lra.
Qed.

Example ex_quantile_probability mu s : 0 < s ->
  exists q, quantile_gauss ROps (fun _ => Ok 0) (1 / 2) mu s = Ok q /\ Rabs (cdf_gauss ROps q mu s - 1 / 2) <= 0 / sqrt PI.
Proof.
  intros Hs. apply (quantile_probability_error (fun _ => Ok 0) (1 / 2) mu s 0 0 0); auto.
  - rewrite Rerf_0. field.
  - replace (0 - 0) with 0 by ring. rewrite Rabs_R0. lra.
Qed.

(* Find_Root answering 0 for p = 1/2 (the exact root): the whole chain of quantile_gauss_lib_accuracy applies *)
Example ex_quantile_lib mu s : 0 < s ->
  exists q, quantile_gauss_lib ROps (fun _ _ _ _ => Ok 0) (1 / 2) mu s = Ok q /\ Rabs (cdf_gauss ROps q mu s - 1 / 2) <= 1 / 10000 / sqrt PI.
Proof.
  intros Hs.
  destruct (quantile_gauss_lib_accuracy (fun _ _ _ _ => Ok 0) (1 / 2) mu s 0 0 Hs) as [_ [q [Q1 [_ [_ [Q2 _]]]]]]; try lra; try reflexivity.
  - rewrite Rerf_0. field.
  - replace (0 - 0) with 0 by ring. rewrite Rabs_R0. lra.
  - exists q. auto.
Qed.

Example ex_gauss2d : 0 < pdf_gauss_2d ROps PI 1 2 0 0 1 3 /\
  is_RInt (fun x => RInt (fun y => pdf_gauss_2d ROps PI x y 0 0 1 3) (- 1) 1) 0 2
    ((cdf_gauss ROps 2 0 1 - cdf_gauss ROps 0 0 1) * (cdf_gauss ROps 1 0 3 - cdf_gauss ROps (- 1) 0 3)).
Proof. split; [apply gauss2d_pos; lra|apply gauss2d_rectangle; lra]. Qed.

(* chi-bar-square with weights (1/4, 0, 3/4) on dof 0, 1, 2; P(t, a) = 1 - e^-t is the regularised lower incomplete gamma function at a = 1 (dof 2),
   Gamma(1) = 1; the zero-weight dof-1 component needs no hypothesis *)
Section ExChiBar.
Let gl := fun _ : R => Ok (ln 1).
Let gp := fun (t _ : R) => Ok (1 - exp (- t)).
Let ws := [1 / 4; 0; 3 / 4].
Let c := fun (d : Z) (x : R) => if (d =? 0)%Z then 1 else 1 - exp (- (x / 2)).
Let p := fun (d : Z) (x : R) => val (pdf_chi_square ROps gl x (IZR d)).

Lemma ex_c d x : 0 <= x -> cdf_chi_square ROps gp x (IZR d) = Ok (c d x).
Proof.
  intros Hx. unfold c. destruct (Z.eqb_spec d 0) as [->|Hd].
  - apply (chi2_dof0 gl gp x); auto.
  - rewrite (proj2 (proj2 (chi2_cdf_cases gp x (IZR d)))); auto.
    rewrite <- abs_IZR. assert (1 <= IZR (Z.abs d)) by (apply IZR_le; lia). lra.
Qed.
Lemma ex_c_range d x : 0 <= x -> 0 <= c d x <= 1.
Proof.
  intros Hx. unfold c. destruct (d =? 0)%Z; [lra|].
  pose proof (exp_pos (- (x / 2))). pose proof (exp_le_1 (- (x / 2)) ltac:(lra)). lra.
Qed.
Lemma ex_c_mono d x y : 0 <= x -> x <= y -> c d x <= c d y.
Proof.
  intros Hx Hxy. unfold c. destruct (d =? 0)%Z; [lra|].
  destruct Hxy as [H|H]; [|subst; lra]. pose proof (exp_increasing (- (y / 2)) (- (x / 2)) ltac:(lra)). lra.
Qed.
Lemma ex_ws : List.Forall (fun w => 0 <= w) ws /\ wtotal ws <= 1.
Proof. split; [repeat constructor; lra|unfold ws, wtotal; cbn; lra]. Qed.

Example ex_chibar_coherent :
  (forall x y, x <= y -> val (cdf_chi_bar_square ROps gp x ws) <= val (cdf_chi_bar_square ROps gp y ws)) /\
  (forall x, 0 <= val (cdf_chi_bar_square ROps gp x ws) <= 1) /\
  is_RInt (fun x => val (pdf_chi_bar_square ROps gl x ws)) 1 3
          (val (cdf_chi_bar_square ROps gp 3 ws) - val (cdf_chi_bar_square ROps gp 1 ws)).
Proof.
  destruct ex_ws as [W1 W2]. split; [|split].
  - intros x y. apply (chibar_cdf_monotone gl gp ws W1 c ex_c ex_c_range ex_c_mono W2).
  - intros x. apply (chibar_cdf_range gl gp ws W1 c ex_c ex_c_range W2).
  - apply (chibar_is_RInt gl gp ws W1 c ex_c ex_c_range W2 p); try lra.
    + intros d x Hx. unfold p, pdf_chi_square. destruct (_ || _); reflexivity.
    + intros k Hk Hn. assert (k = 1 \/ k = 2)%Z as [->| ->] by (cbn [length ws] in Hk; lia).
      * exfalso. apply Hn. reflexivity.
      * unfold p.
        replace (c 2%Z 3) with (val (cdf_chi_square ROps gp 3 (IZR 2))) by (rewrite (ex_c 2%Z 3) by lra; reflexivity).
        replace (c 2%Z 1) with (val (cdf_chi_square ROps gp 1 (IZR 2))) by (rewrite (ex_c 2%Z 1) by lra; reflexivity).
        apply (chi2_is_RInt gl gp (fun t _ => 1 - exp (- t)) 2 1 1 3); try lra; try reflexivity.
        intros t Ht. auto_derive; auto.
        replace (2 / 2 - 1) with 0 by field. rewrite Rpower_O by auto. field.
Qed.
End ExChiBar.

(* KDE: two unit samples in the window [0,1], bandwidth 1/2: the accepted table samples one Gaussian mixture whose mass over the window is known *)
Example ex_kde_mixture t : perform_kde ROps PI [(1 / 4, 1); (3 / 4, 1)] 0 1 (1 / 2) = Ok t ->
  exists ext, List.Forall (fun e => 0 <= snd e) ext /\
    forall k, (k < 150)%nat -> snd (nth k t dflt) = ksum ext (fst (nth k t dflt)) (1 / 2) / (1 / 2 * (0 + 1 + 1)).
Proof.
  intros H. pose proof (perform_kde_mixture _ _ _ _ _ H) as [N _]. cbv zeta in N.
  assert (B : kde_bandwidth ROps [(1 / 4, 1); (3 / 4, 1)] (fold_left (fun acc d => acc + snd d) [(1 / 4, 1); (3 / 4, 1)] 0) (1 / 2) = 1 / 2).
  { apply kde_bandwidth_manual. lra. }
  rewrite B in N. cbn [fold_left snd] in N.
  eexists. split; [|intros k Hk; rewrite (N k Hk); cbn [fst snd]; reflexivity].
  apply kde_ext_nonneg; apply sort_dp_Forall; repeat constructor; cbn; lra.
Qed.
