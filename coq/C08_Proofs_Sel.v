(** * C08 proofs, part 5:
    (1) Global_Minimum / Global_Maximum (1-D and 2-D) in ANY number type whose comparisons form a total order: the value returned
        is exactly the lesser / greater of prefactor * f_min and prefactor * f_max with f_min / f_max the least / greatest entry of
        the whole table (every row of it in 2-D) -- selections, no arithmetic law used;
    (2) the data-table constructor Interpolation_2D(data_table, ...) applied to the x-major listing of a rectangular grid with
        strictly increasing axes makes the object the grid constructor makes; malformed tables terminate the process;
    (3) Integrate in ANY number type: exchanging the limits changes nothing but the factor +1 / -1 applied to the same sum;
        Set_Prefactor / Multiply histories in ANY number type touch the prefactor only. *)
From Coq Require Import Reals ZArith List Bool Lia Lra Sorted PeanoNat.
From LP Require Import Num NumR OrdLaws C01_Model C01_Proofs C01_Proofs_Table C08_Model C08_Proofs_More.
Import ListNotations.

(** ** 1. global extrema as selections *)
Section G.
Context {T : Type} (Ops : NumOps T) (OL : OrdLaws Ops).
Local Notation nle := (nle Ops).

Lemma fold_min_select : forall (r : list T) a,
  let m := fold_left (fun cur x => if nltb Ops x cur then x else cur) r a in
  (m = a \/ In m r) /\ nle m a /\ (forall v, In v r -> nle m v).
Proof.
  induction r as [|x r IH]; intros a; cbn [fold_left].
  - split; [now left|]. split; [apply (nle_refl Ops OL)|intros v []].
  - destruct (IH (if nltb Ops x a then x else a)) as (A & B & C). fold (nmin Ops a x) in *.
    split; [|split].
    + destruct A as [A|A]; [|right; now right]. rewrite A. destruct (nmin_or Ops a x) as [E|E]; rewrite E; [now left|right; now left].
    + eapply (nle_trans Ops OL); [exact B|apply (nmin_l Ops OL)].
    + intros v [<-|Hv]; [|now apply C]. eapply (nle_trans Ops OL); [exact B|apply (nmin_r Ops OL)].
Qed.

Lemma fold_max_select : forall (r : list T) a,
  let m := fold_left (fun cur x => if nltb Ops cur x then x else cur) r a in
  (m = a \/ In m r) /\ nle a m /\ (forall v, In v r -> nle v m).
Proof.
  induction r as [|x r IH]; intros a; cbn [fold_left].
  - split; [now left|]. split; [apply (nle_refl Ops OL)|intros v []].
  - destruct (IH (if nltb Ops a x then x else a)) as (A & B & C). fold (nmax Ops a x) in *.
    split; [|split].
    + destruct A as [A|A]; [|right; now right]. rewrite A. destruct (nmax_or Ops a x) as [E|E]; rewrite E; [now left|right; now left].
    + eapply (nle_trans Ops OL); [apply (nmax_l Ops OL)|exact B].
    + intros v [<-|Hv]; [|now apply C]. eapply (nle_trans Ops OL); [apply (nmax_r Ops OL)|exact B].
Qed.

Lemma min_element_select l r : min_element Ops l = Ok r -> In r l /\ forall v, In v l -> nle r v.
Proof.
  destruct l as [|a l]; cbn [min_element]; [discriminate|]. intros H. injection H as <-.
  destruct (fold_min_select l a) as (A & B & C). split.
  - destruct A as [A|A]; [left; now symmetry|now right].
  - intros v [<-|Hv]; [exact B|now apply C].
Qed.
Lemma max_element_select l r : max_element Ops l = Ok r -> In r l /\ forall v, In v l -> nle v r.
Proof.
  destruct l as [|a l]; cbn [max_element]; [discriminate|]. intros H. injection H as <-.
  destruct (fold_max_select l a) as (A & B & C). split.
  - destruct A as [A|A]; [left; now symmetry|now right].
  - intros v [<-|Hv]; [exact B|now apply C].
Qed.

(** 1-D: [least l m] = m is an entry of l not above any entry *)
Definition least (l : list T) (m : T) : Prop := In m l /\ forall v, In v l -> nle m v.
Definition greatest (l : list T) (m : T) : Prop := In m l /\ forall v, In v l -> nle v m.

Theorem global_extrema_select (o : itab) :
  (forall r, global_minimum Ops o = Ok r -> exists fmin fmax, least (iys o) fmin /\ greatest (iys o) fmax /\
     r = nmin Ops (nmul Ops (ipre o) fmin) (nmul Ops (ipre o) fmax)) /\
  (forall r, global_maximum Ops o = Ok r -> exists fmin fmax, least (iys o) fmin /\ greatest (iys o) fmax /\
     r = nmax Ops (nmul Ops (ipre o) fmin) (nmul Ops (ipre o) fmax)).
Proof.
  unfold global_minimum, global_maximum. split; intros r;
  (destruct (min_element Ops (iys o)) as [fmin| | |] eqn:E1; cbn [rbind]; try discriminate;
   destruct (max_element Ops (iys o)) as [fmax| | |] eqn:E2; cbn [rbind]; try discriminate;
   intros H; injection H as <-; exists fmin, fmax;
   split; [exact (min_element_select _ _ E1)|split; [exact (max_element_select _ _ E2)|reflexivity]]).
Qed.

(** 2-D: the minimum of the row minima is the least entry of the table *)
Lemma map_res_spec {A B} (g : A -> res B) : forall l bs, map_res g l = Ok bs ->
  length bs = length l /\ forall k a, nth_error l k = Some a -> exists b, nth_error bs k = Some b /\ g a = Ok b.
Proof.
  induction l as [|a l IH]; intros bs H; cbn [map_res] in H.
  - injection H as <-. split; [reflexivity|]. intros [|k] a0 Hk; discriminate.
  - destruct (g a) as [b| | |] eqn:E; cbn [rbind] in H; try discriminate.
    destruct (map_res g l) as [bs'| | |]; cbn [rbind] in H; try discriminate. injection H as <-.
    destruct (IH bs' eq_refl) as [L K]. split; [cbn; now rewrite L|].
    intros [|k] a0 Hk; cbn in Hk.
    + injection Hk as <-. exists b. split; [reflexivity|exact E].
    + exact (K k a0 Hk).
Qed.

Definition entry (f : list (list T)) (v : T) : Prop := exists row, In row f /\ In v row.

Lemma table_min_select f mins m : map_res (min_element Ops) f = Ok mins -> min_element Ops mins = Ok m ->
  entry f m /\ forall v, entry f v -> nle m v.
Proof.
  intros Hm Hmin. destruct (map_res_spec _ _ _ Hm) as [L K]. destruct (min_element_select _ _ Hmin) as [I A]. split.
  - destruct (In_nth_error _ _ I) as [k Hk].
    assert (Hlt : (k < length f)%nat). { rewrite <- L. apply nth_error_Some. congruence. }
    destruct (nth_error f k) as [row|] eqn:Er; [|apply nth_error_None in Er; lia].
    destruct (K k row Er) as (b & Hb & Hg). rewrite Hk in Hb. injection Hb as <-.
    exists row. split; [eapply nth_error_In; exact Er|exact (proj1 (min_element_select _ _ Hg))].
  - intros v (row & Hr & Hv). destruct (In_nth_error _ _ Hr) as [k Hk].
    destruct (K k row Hk) as (b & Hb & Hg).
    eapply (nle_trans Ops OL); [apply A; eapply nth_error_In; exact Hb|exact (proj2 (min_element_select _ _ Hg) v Hv)].
Qed.
Lemma table_max_select f maxs m : map_res (max_element Ops) f = Ok maxs -> max_element Ops maxs = Ok m ->
  entry f m /\ forall v, entry f v -> nle v m.
Proof.
  intros Hm Hmax. destruct (map_res_spec _ _ _ Hm) as [L K]. destruct (max_element_select _ _ Hmax) as [I A]. split.
  - destruct (In_nth_error _ _ I) as [k Hk].
    assert (Hlt : (k < length f)%nat). { rewrite <- L. apply nth_error_Some. congruence. }
    destruct (nth_error f k) as [row|] eqn:Er; [|apply nth_error_None in Er; lia].
    destruct (K k row Er) as (b & Hb & Hg). rewrite Hk in Hb. injection Hb as <-.
    exists row. split; [eapply nth_error_In; exact Er|exact (proj1 (max_element_select _ _ Hg))].
  - intros v (row & Hr & Hv). destruct (In_nth_error _ _ Hr) as [k Hk].
    destruct (K k row Hk) as (b & Hb & Hg).
    eapply (nle_trans Ops OL); [exact (proj2 (max_element_select _ _ Hg) v Hv)|apply A; eapply nth_error_In; exact Hb].
Qed.

Definition least2 (f : list (list T)) (m : T) : Prop := entry f m /\ forall v, entry f v -> nle m v.
Definition greatest2 (f : list (list T)) (m : T) : Prop := entry f m /\ forall v, entry f v -> nle v m.

Theorem global_extrema2_select (o : itab2) :
  (forall r, global_minimum2 Ops o = Ok r -> exists fmin fmax, least2 (jf o) fmin /\ greatest2 (jf o) fmax /\
     r = nmin Ops (nmul Ops (jpre o) fmin) (nmul Ops (jpre o) fmax)) /\
  (forall r, global_maximum2 Ops o = Ok r -> exists fmin fmax, least2 (jf o) fmin /\ greatest2 (jf o) fmax /\
     r = nmax Ops (nmul Ops (jpre o) fmin) (nmul Ops (jpre o) fmax)).
Proof.
  unfold global_minimum2, global_maximum2. split; intros r;
  (destruct (map_res (min_element Ops) (jf o)) as [mins| | |] eqn:E1; cbn [rbind]; try discriminate;
   destruct (map_res (max_element Ops) (jf o)) as [maxs| | |] eqn:E2; cbn [rbind]; try discriminate;
   destruct (min_element Ops mins) as [fmin| | |] eqn:E3; cbn [rbind]; try discriminate;
   destruct (max_element Ops maxs) as [fmax| | |] eqn:E4; cbn [rbind]; try discriminate;
   intros H; injection H as <-; exists fmin, fmax;
   split; [exact (table_min_select _ _ _ E1 E3)|split; [exact (table_max_select _ _ _ E2 E4)|reflexivity]]).
Qed.
End G.

(** ** 3. any number type: exchange of the limits of Integrate; histories of Set_Prefactor / Multiply *)
Section A.
Context {T : Type} (Ops : NumOps T).

(** the sum Integrate forms for ordered limits lo, hi *)
Definition integrate_sum (o : itab) (lo hi : T) : res T :=
  rbind (locate Ops o lo) (fun i1 => rbind (locate Ops o hi) (fun i2 =>
    integrate_loop Ops o lo hi i1 i2 (S i2 - i1) 0 (n0 Ops))).

Theorem integrate_exchange (o : itab) a b : nltb Ops a b = true -> nltb Ops b a = false ->
  integrate Ops o a b = rbind (integrate_sum o a b) (fun s => Ok (nmul Ops (nofZ Ops 1) s)) /\
  integrate Ops o b a = rbind (integrate_sum o a b) (fun s => Ok (nmul Ops (nofZ Ops (-1)) s)).
Proof.
  intros H1 H2. unfold integrate, integrate_sum, ngtb. rewrite H1, H2. split.
  - destruct (locate Ops o a); cbn [rbind]; try reflexivity. destruct (locate Ops o b); cbn [rbind]; reflexivity.
  - destruct (locate Ops o a); cbn [rbind]; try reflexivity. destruct (locate Ops o b); cbn [rbind]; reflexivity.
Qed.

Inductive popT : Type := SetPT (f : T) | MulT (f : T).
Definition apply_popT (o : itab) (p : popT) : itab :=
  match p with SetPT f => set_prefactor o f | MulT f => multiply Ops o f end.
Definition pref_stepT (c : T) (p : popT) : T := match p with SetPT f => f | MulT f => nmul Ops c f end.

Theorem history_any_ops (ops : list popT) : forall o : itab,
  fold_left apply_popT ops o = set_prefactor o (fold_left pref_stepT ops (ipre o)).
Proof.
  induction ops as [|p ops IH]; intros o; cbn [fold_left].
  - destruct o; reflexivity.
  - rewrite IH. destruct p; reflexivity.
Qed.
End A.

(** ** 2. the data-table constructor of Interpolation_2D *)
Section TBL.
Local Open Scope R_scope.

Lemma sort_insert_In a b l : In b (sort_insert ROps a l) <-> b = a \/ In b l.
Proof.
  induction l as [|c r IH]; cbn.
  - split; intros [H|H]; auto; try easy.
  - destruct (Rltb a c); cbn; rewrite ?IH; intuition.
Qed.
Lemma sort_insert_sorted a l : StronglySorted Rle l -> StronglySorted Rle (sort_insert ROps a l).
Proof.
  induction l as [|c r IH]; intros H; cbn.
  - constructor; [constructor|constructor].
  - inversion H as [|? ? Hr Hc]; subst. destruct (Rltb_spec a c) as [Hlt|Hge].
    + constructor; [assumption|]. constructor; [lra|]. rewrite Forall_forall in *. intros b Hb. specialize (Hc b Hb). lra.
    + constructor; [now apply IH|]. apply Forall_forall. intros b Hb. apply sort_insert_In in Hb.
      destruct Hb as [->|Hb]; [lra|]. rewrite Forall_forall in Hc. now apply Hc.
Qed.
Lemma sort8_In b l : In b (C08_Model.sort_list ROps l) <-> In b l.
Proof. induction l as [|a r IH]; cbn; [tauto|]. rewrite sort_insert_In, IH. intuition. Qed.
Lemma sort8_sorted l : StronglySorted Rle (C08_Model.sort_list ROps l).
Proof. induction l as [|a r IH]; cbn; [constructor|now apply sort_insert_sorted]. Qed.

Lemma unique8_from_spec l : StronglySorted Rle l -> forall a, Forall (Rle a) l ->
  StronglySorted Rlt (C08_Model.unique_from ROps a l) /\ Forall (Rle a) (C08_Model.unique_from ROps a l) /\
  (forall b, In b (C08_Model.unique_from ROps a l) <-> In b (a :: l)) /\
  (exists t, C08_Model.unique_from ROps a l = a :: t /\ Forall (Rlt a) t).
Proof.
  induction l as [|c r IH]; intros Hs a Ha; cbn [C08_Model.unique_from].
  - split; [repeat constructor|]. split; [repeat constructor; lra|]. split; [tauto|]. exists []. split; [reflexivity|constructor].
  - inversion Hs as [|? ? Hr Hc]; subst. inversion Ha as [|? ? Hac Har]; subst.
    cbn [neqb ROps]. destruct (Reqb_spec a c) as [->|Hne].
    + destruct (IH Hr c Hc) as (S1 & S2 & S3 & S4). repeat split; auto.
      * intros Hb. apply S3 in Hb. cbn in *. tauto.
      * intros Hb. apply S3. cbn in *. tauto.
    + destruct (IH Hr c Hc) as (S1 & S2 & S3 & (t & Et & Ht)).
      assert (Hlt : Forall (Rlt a) (C08_Model.unique_from ROps c r)).
      { rewrite Forall_forall in *. intros b Hb. specialize (S2 b Hb). lra. }
      repeat split.
      * constructor; assumption.
      * constructor; [lra|]. rewrite Forall_forall in *. intros b Hb. specialize (Hlt b Hb). lra.
      * intros [->|Hb]; [now left|]. right. apply S3. exact Hb.
      * intros [->|Hb]; [now left|]. right. apply S3. exact Hb.
      * exists (C08_Model.unique_from ROps c r). split; [reflexivity|exact Hlt].
Qed.
Lemma unique8_list_spec l : StronglySorted Rle l ->
  StronglySorted Rlt (C08_Model.unique_list ROps l) /\ forall b, In b (C08_Model.unique_list ROps l) <-> In b l.
Proof.
  destruct l as [|a r]; intros Hs; cbn [C08_Model.unique_list]; [split; [constructor|tauto]|].
  inversion Hs as [|? ? Hr Ha]; subst. destruct (unique8_from_spec r Hr a Ha) as (S1 & _ & S3 & _).
  split; assumption.
Qed.
Theorem sort_unique8_char l s : increasing s -> (forall b, In b l <-> In b s) ->
  C08_Model.unique_list ROps (C08_Model.sort_list ROps l) = s.
Proof.
  intros Hs HI. destruct (unique8_list_spec _ (sort8_sorted l)) as [U1 U2].
  apply strictly_sorted_unique; [assumption|now apply increasing_strongly_sorted|].
  intros b. rewrite U2, sort8_In. apply HI.
Qed.

(** the x-major listing of a grid: for every x_i in turn the rows (x_i, y_j, f_ij), j = 0 .. N_y - 1 *)
Fixpoint rows_of (x : R) (ys row : list R) : list (list R) :=
  match ys, row with y :: ys', z :: row' => [x; y; z] :: rows_of x ys' row' | _, _ => [] end.
Fixpoint grid_rows (xs ys : list R) (f : list (list R)) : list (list R) :=
  match xs, f with x :: xs', row :: f' => rows_of x ys row ++ grid_rows xs' ys f' | _, _ => [] end.

Definition c0 (r : list R) := nth 0 r 0.
Definition c1 (r : list R) := nth 1 r 0.

Lemma split_rows3_app (d1 : list (list R)) : forall d2 a1 b1, C08_Model.split_rows3 d1 = Ok (a1, b1) ->
  C08_Model.split_rows3 (d1 ++ d2) = rbind (C08_Model.split_rows3 d2) (fun xy => Ok (a1 ++ fst xy, b1 ++ snd xy)).
Proof.
  induction d1 as [|r d1 IH]; intros d2 a1 b1 H; cbn [app C08_Model.split_rows3] in *.
  - injection H as <- <-. destruct (C08_Model.split_rows3 d2) as [[a b]| | |]; reflexivity.
  - destruct r as [|x [|y [|z [|w r]]]]; try discriminate.
    destruct (C08_Model.split_rows3 d1) as [[a b]| | |]; cbn [rbind] in H; try discriminate.
    injection H as <- <-. rewrite (IH d2 a b eq_refl).
    destruct (C08_Model.split_rows3 d2) as [[a' b']| | |]; reflexivity.
Qed.
Lemma split_rows_of x : forall ys row, length row = length ys ->
  C08_Model.split_rows3 (rows_of x ys row) = Ok (repeat x (length ys), ys) /\ length (rows_of x ys row) = length ys.
Proof.
  induction ys as [|y ys IH]; intros [|z row] H; try discriminate; cbn [rows_of C08_Model.split_rows3 length repeat].
  - split; reflexivity.
  - destruct (IH row) as [E L]; [cbn in H; lia|]. rewrite E, L. split; reflexivity.
Qed.

Lemma split_grid_rows ys : forall xs f, length f = length xs -> Forall (fun row => length row = length ys) f ->
  exists a b, C08_Model.split_rows3 (grid_rows xs ys f) = Ok (a, b) /\
    length (grid_rows xs ys f) = (length xs * length ys)%nat /\
    (forall v, In v a -> In v xs) /\ (forall v, In v b -> In v ys) /\
    (forall v, (0 < length ys)%nat -> In v xs -> In v a) /\ (forall v, (0 < length xs)%nat -> In v ys -> In v b).
Proof.
  induction xs as [|x xs IH]; intros [|row f] Hl Hf; try discriminate; cbn [grid_rows].
  - exists [], []. cbn. repeat split; try tauto; intros; lia.
  - inversion Hf as [|? ? Hrow Hf']; subst. destruct (IH f) as (a & b & E & L & A1 & B1 & A2 & B2); [cbn in Hl; lia|assumption|].
    destruct (split_rows_of x ys row Hrow) as [E0 L0].
    exists (repeat x (length ys) ++ a), (ys ++ b).
    rewrite (split_rows3_app _ _ _ _ E0), E. cbn [rbind fst snd].
    split; [reflexivity|]. split; [rewrite app_length, L0, L; cbn; lia|].
    split; [|split; [|split]].
    + intros v Hv. apply in_app_or in Hv. destruct Hv as [Hv|Hv]; [left; symmetry; exact (repeat_spec _ _ _ Hv)|right; now apply A1].
    + intros v Hv. apply in_app_or in Hv. destruct Hv as [Hv|Hv]; [assumption|now apply B1].
    + intros v Hy [<-|Hv]; apply in_or_app; [left|right; now apply A2].
      destruct (length ys); [lia|now left].
    + intros v _ Hv. apply in_or_app. now left.
Qed.

Lemma fill_row_rows_of x : forall ys row rest, length row = length ys ->
  fill_row ROps x ys (rows_of x ys row ++ rest) = Ok (row, rest).
Proof.
  induction ys as [|y ys IH]; intros [|z row] rest H; try discriminate; cbn [rows_of app fill_row].
  - reflexivity.
  - unfold nneb. cbn [neqb ROps]. destruct (Reqb_spec x x) as [_|N]; [|now destruct N].
    destruct (Reqb_spec y y) as [_|N]; [|now destruct N]. cbn [negb orb].
    rewrite IH by (cbn in H; lia). reflexivity.
Qed.
Lemma fill_table_grid_rows ys : forall xs f, length f = length xs -> Forall (fun row => length row = length ys) f ->
  fill_table ROps xs ys (grid_rows xs ys f) = Ok f.
Proof.
  induction xs as [|x xs IH]; intros [|row f] Hl Hf; try discriminate; cbn [grid_rows fill_table].
  - reflexivity.
  - inversion Hf as [|? ? Hrow Hf']; subst. rewrite fill_row_rows_of by assumption. cbn [rbind fst snd].
    rewrite IH; [reflexivity|cbn in Hl; lia|assumption].
Qed.

Theorem table_constructor8_grid xs ys f xd yd fd : valid_grid xs ys f ->
  C08_Model.construct2_table ROps (grid_rows xs ys f) xd yd fd = construct2 ROps xs ys f xd yd fd.
Proof.
  intros (HNx & HNy & Hix & Hiy & Hfl & Hrow).
  assert (Hf : Forall (fun row => length row = length ys) f).
  { apply Forall_forall. intros row Hr. destruct (In_nth f row [] Hr) as (k & Hk & <-). now apply Hrow. }
  destruct (split_grid_rows ys xs f Hfl Hf) as (a & b & E & L & A1 & B1 & A2 & B2).
  unfold C08_Model.construct2_table. rewrite E. cbn [rbind fst snd].
  rewrite (sort_unique8_char a xs Hix) by (intros v; split; [apply A1|apply A2; lia]).
  rewrite (sort_unique8_char b ys Hiy) by (intros v; split; [apply B1|apply B2; lia]).
  rewrite L, Nat.eqb_refl. cbn [negb]. rewrite fill_table_grid_rows by assumption. reflexivity.
Qed.

(** malformed tables: a row that does not have three entries terminates the process (any number type) *)
Theorem table_constructor8_bad_row {T : Type} (Ops : NumOps T) (data : list (list T)) xd yd fd :
  (exists r, In r data /\ length r <> 3%nat) -> C08_Model.construct2_table Ops data xd yd fd = Exit.
Proof.
  intros (r & Hr & Hl). unfold C08_Model.construct2_table.
  assert (E : C08_Model.split_rows3 data = Exit).
  { induction data as [|q data IH]; [destruct Hr|]. cbn [C08_Model.split_rows3].
    destruct Hr as [->|Hr].
    - destruct r as [|x [|y [|z [|w r]]]]; try reflexivity. cbn in Hl. lia.
    - destruct q as [|x [|y [|z [|w q]]]]; try reflexivity. rewrite (IH Hr). reflexivity. }
  rewrite E. reflexivity.
Qed.
End TBL.

(** ** 4. packed statements and non-vacuity *)
Section Pack.
Local Open Scope R_scope.

Theorem table_constructor8_object xs ys f xd yd fd : valid_grid xs ys f ->
  C08_Model.construct2_table ROps (grid_rows xs ys f) xd yd fd
    = Ok (grid (scale ROps xd xs) (scale ROps yd ys) (scale2 ROps fd f)) /\
  valid_grid (scale ROps xd xs) (scale ROps yd ys) (scale2 ROps fd f).
Proof.
  intros HV. rewrite (table_constructor8_grid xs ys f xd yd fd HV). exact (construct2_ok xs ys f xd yd fd HV).
Qed.

Lemma grid22_valid : valid_grid [0; 1] [0; 2] [[1; 2]; [3; 4]].
Proof.
  repeat split; cbn; try lia.
  - intros i Hi. cbn in Hi. destruct i as [|i]; cbn; try lra; lia.
  - intros i Hi. cbn in Hi. destruct i as [|i]; cbn; try lra; lia.
  - intros i Hi. destruct i as [|[|i]]; cbn; lia.
Qed.

Example C08_table_example :
  valid_grid [0; 1] [0; 2] [[1; 2]; [3; 4]] /\
  grid_rows [0; 1] [0; 2] [[1; 2]; [3; 4]] = [[0; 0; 1]; [0; 2; 2]; [1; 0; 3]; [1; 2; 4]] /\
  (exists r, In r [[0; 0; 1]; [0; 2]] /\ length r <> 3%nat).
Proof.
  split; [exact grid22_valid|]. split; [reflexivity|]. exists [0; 2]. split; [right; now left|cbn; lia].
Qed.

Example C08_global_select_example :
  OrdLaws ROps /\ (exists r, global_minimum ROps (skeleton ROps [0; 1; 2] [3; 1; 2] (-2)) = Ok r) /\
  (exists r, global_maximum2 ROps (set_prefactor2 (grid [0; 1] [0; 2] [[1; 2]; [3; 4]]) (-2)) = Ok r) /\
  nltb ROps 0 1 = true /\ nltb ROps 1 0 = false.
Proof.
  split; [exact ROps_OrdLaws|]. split; [|split; [|split]].
  - unfold global_minimum. cbn [skeleton iys min_element max_element rbind]. eexists. reflexivity.
  - unfold global_maximum2. cbn [set_prefactor2 grid jf map_res min_element max_element rbind]. eexists. reflexivity.
  - cbn. destruct (Rltb_spec 0 1); [reflexivity|lra].
  - cbn. destruct (Rltb_spec 1 0); [lra|reflexivity].
Qed.
End Pack.
