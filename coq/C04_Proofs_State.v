(** * C04 proofs, part 4: the members that change an existing object (coq/C04_State.v).
    No arithmetic law is used: everything holds for every number type, in particular for IEEE doubles.
    Main facts: Resize and Assign establish the class invariant from ANY previous state (also one in
    which the invariant was lost) and have the closed forms "the r x c table of the old entries, 0.0
    outside the old storage" resp. "the r x c table of the entry"; hence the storage-based accessors
    Return_Row / Sub_Matrix of a resized matrix are those of that table. *)
From mathcomp Require Import all_ssreflect.
From Coq Require List ZArith.
From LP Require Import Num C04_Model C04_State C04_Proofs_Struct.
Set Implicit Arguments. Unset Strict Implicit. Unset Printing Implicit Defensive.
Arguments tab : simpl never.
Arguments tab2 : simpl never.
Arguments vresize : simpl never.
Arguments upd : simpl never.

Lemma repeatE A (d : A) n : List.repeat d n = nseq n d.
Proof. by elim: n => //= n ->. Qed.
Lemma mapE A B (f : A -> B) l : List.map f l = map f l.
Proof. by []. Qed.

(** std::vector::resize(n) = the table of the first n (default-padded) reads *)
Lemma vresize_tab A (d : A) n (l : seq A) : vresize d n l = tab n (fun i => nth d l i).
Proof.
  rewrite /vresize firstnE repeatE ?natE tabE.
  apply: (@eq_from_nth _ d).
    rewrite size_cat size_take size_nseq size_mkseq.
    case: (ltnP n (size l)) => H; first by rewrite (eqP (ltnW H : n - size l == 0)) addn0.
    by rewrite subnKC.
  move=> i; rewrite size_cat size_take size_nseq => Hi.
  have Hin : i < n.
    move: Hi; case: (ltnP n (size l)) => H; first by rewrite (eqP (ltnW H : n - size l == 0)) addn0.
    by rewrite subnKC.
  rewrite nth_mkseq // nth_cat size_take.
  case: (ltnP n (size l)) => H.
  - by rewrite Hin nth_take.
  - case: (ltnP i (size l)) => Hil; first by rewrite nth_take.
    by rewrite nth_nseq if_same nth_default.
Qed.
Lemma tab_const A n (e : A) : tab n (fun _ => e) = nseq n e.
Proof.
  rewrite tabE; apply: (@eq_from_nth _ e); rewrite ?size_mkseq ?size_nseq // => i Hi.
  by rewrite nth_mkseq // nth_nseq Hi.
Qed.
Lemma map_tab A B (g : A -> B) n (f : nat -> A) : map g (tab n f) = tab n (fun i => g (f i)).
Proof. by rewrite !tabE /mkseq -map_comp. Qed.

Section State.
Context {T : Type} (Ops : NumOps T).
Local Notation zero := (n0 Ops).
Local Notation ment := (ment Ops).
Local Notation vent := (vent Ops).
Local Notation mk_mat := (@mk_mat T).

(** a well-formed matrix reads 0.0 outside its shape *)
Lemma ment_out (A : mat T) i j : wf_mat A -> (mrows A <= i) || (mcols A <= j) -> ment A i j = zero.
Proof.
  move=> /wfP [Hs Hr]; rewrite /ment !nthE; case: (ltnP i (mrows A)) => Hi /=.
  - by move=> Hj; rewrite nth_default // Hr.
  - by move=> _; rewrite (@nth_default _ _ (mcomps A)) ?Hs // nth_nil.
Qed.

(** ** Matrix::Resize *)
(** closed form, for EVERY previous state (the invariant is not assumed) *)
Lemma m_resize_spec (A : mat T) r c : m_resize Ops A r c = mk_mat r c (ment A).
Proof.
  rewrite /m_resize /C04_Model.mk_mat /tab2; congr mkMat.
  rewrite mapE vresize_tab map_tab; apply: tab_ext => i Hi.
  by rewrite vresize_tab; apply: tab_ext => j Hj; rewrite /ment !nthE.
Qed.
Lemma m_resize_wf (A : mat T) r c : wf_mat (m_resize Ops A r c).
Proof. by rewrite m_resize_spec wf_mk. Qed.
(** entries of a resized well-formed matrix: the old top-left block, 0.0 elsewhere *)
Lemma m_resize_entries (A : mat T) r c i j : wf_mat A -> i < r -> j < c ->
  ment (m_resize Ops A r c) i j = if (i < mrows A) && (j < mcols A) then ment A i j else zero.
Proof.
  move=> HA Hi Hj; rewrite m_resize_spec ment_mk //.
  case: ifP => // /negbT; rewrite negb_and -!leqNgt => H; exact: ment_out.
Qed.
(** the storage-based accessors on a resized matrix agree with its shape r x c *)
Lemma return_row_resize (A : mat T) r c k :
  return_row (m_resize Ops A r c) k = if k < r then Ok (vec_of (tab c (fun j => ment A k j))) else Exit.
Proof.
  rewrite (@return_row_spec _ Ops) ?m_resize_wf // m_resize_spec /=; case: ifP => // Hk; congr Ok; congr vec_of.
  by apply: tab_ext => j Hj; rewrite ment_mk.
Qed.
Lemma sub_matrix_resize (A : mat T) r c k l : 0 < r ->
  sub_matrix (m_resize Ops A r c) k l =
  if k < r then if l < c then Ok (mk_mat r.-1 c.-1 (fun i j => ment A (skip k i) (skip l j))) else Exit
  else Exit.
Proof.
  move=> Hr; rewrite (@sub_matrix_spec _ Ops) ?m_resize_wf // m_resize_spec //=.
  case: ifP => // Hk; case: ifP => // Hl; congr Ok; apply: mk_mat_ext => i j Hi Hj.
  rewrite ment_mk // /skip; case: ifP => H.
  - exact: ltn_trans H Hk.
  - by rewrite -ltn_predRL.
  - exact: ltn_trans H Hl.
  - by rewrite -ltn_predRL.
Qed.

(** ** Matrix::Assign = the fill constructor, for every previous state *)
Lemma m_assign_spec (A : mat T) r c e : m_assign A r c e = mat_fill r c e.
Proof.
  rewrite /m_assign /mat_fill /C04_Model.mk_mat /tab2; congr mkMat.
  rewrite mapE vresize_tab map_tab; apply: tab_ext => i Hi.
  by rewrite repeatE tab_const.
Qed.

(** ** M[i][j] = x *)
Lemma nth_upd A (d : A) i x (l : seq A) k : i < size l -> nth d (upd i x l) k = if k == i then x else nth d l k.
Proof.
  move=> Hi; rewrite /upd firstnE skipnE nth_cat size_take Hi.
  case: (ltngtP k i) => H.
  - by rewrite nth_take.
  - rewrite -[k - i]prednK ?subn_gt0 //= nth_drop; congr nth.
    by rewrite addSn -addnS prednK ?subn_gt0 // subnKC // ltnW.
  - by rewrite H subnn.
Qed.
Lemma size_upd A i (x : A) (l : seq A) : i < size l -> size (upd i x l) = size l.
Proof.
  move=> Hi; rewrite /upd firstnE skipnE size_cat size_take Hi /= size_drop.
  by rewrite addnS -addSn subnKC.
Qed.
Lemma get_nth A (d : A) (l : seq A) i : i < size l -> get l i = Ok (nth d l i).
Proof. by rewrite /get; elim: l i => [|a l IH] [|i] //= Hi; exact: IH. Qed.

Lemma m_set_spec (A : mat T) i j x : wf_mat A ->
  m_set A i j x =
  if i < mrows A then
    if j < mcols A then Ok (mk_mat (mrows A) (mcols A) (fun a b => if (a == i) && (b == j) then x else ment A a b))
    else OOB
  else Exit.
Proof.
  move=> HA; move/wfP: (HA) => [Hs Hr]; rewrite /m_set ?natE leqNgt.
  case: (ltnP i (mrows A)) => //= Hi.
  rewrite (@get_nth _ [::]) ?Hs //= ?natE Hr //; case: (ltnP j (mcols A)) => // Hj; congr Ok.
  set B := mkMat _ _ _.
  have HB : wf_mat B.
    apply/wfP; rewrite /B /= size_upd ?Hs //; split=> // a Ha.
    rewrite nth_upd ?Hs //; case: eqP => [_|_]; last exact: Hr.
    by rewrite size_upd Hr.
  rewrite -(mk_mat_eta Ops HB) /B /=; apply: mk_mat_ext => a b Ha Hb.
  rewrite /ment /= !nthE nth_upd ?Hs //; case: (a =P i) => [->|_] //=.
  by rewrite nth_upd ?Hr.
Qed.
Lemma m_set_wf (A : mat T) i j x C : wf_mat A -> m_set A i j x = Ok C -> wf_mat C.
Proof.
  move=> HA; rewrite m_set_spec //; case: ifP => // _; case: ifP => // _ [<-]; exact: wf_mk.
Qed.

(** ** copies *)
Lemma m_copy_spec (A : mat T) : m_copy A = A.
Proof. by case: A. Qed.
Lemma m_assign_from_spec (old A : mat T) : m_assign_from old A = A.
Proof. by case: A. Qed.
Lemma v_copy_spec (v : vec T) : v_copy v = v.
Proof. by case: v. Qed.
Lemma v_assign_from_spec (old v : vec T) : v_assign_from old v = v.
Proof. by case: v. Qed.

(** ** Vector::Resize, Assign, v[i] = x *)
Lemma v_resize_spec (v : vec T) n : v_resize Ops v n = vec_of (tab n (vent v)).
Proof.
  rewrite vec_of_tab /v_resize vresize_tab; congr mkVec; apply: tab_ext => i Hi; by rewrite /vent nthE.
Qed.
Lemma v_assign_spec (v : vec T) n e : v_assign v n e = vfill n e.
Proof. by rewrite /v_assign /vfill repeatE tab_const. Qed.
Lemma v_set_spec (v : vec T) i x : wf_vec v ->
  v_set v i x = if i < vdim v then Ok (vec_of (tab (vdim v) (fun k => if k == i then x else vent v k))) else Exit.
Proof.
  rewrite /wf_vec ?natE => /eqP Hs; rewrite /v_set ?natE leqNgt Hs; case: (ltnP i (vdim v)) => //= Hi.
  congr Ok; rewrite vec_of_tab; congr mkVec.
  rewrite -[LHS](tab_nth _ zero) size_upd ?Hs //; apply: tab_ext => k Hk.
  by rewrite nth_upd ?Hs // /vent nthE.
Qed.
Lemma wf_vec_state (v : vec T) n e i x w :
  wf_vec (v_resize Ops v n) /\ wf_vec (v_assign v n e) /\ (wf_vec v -> v_set v i x = Ok w -> wf_vec w).
Proof.
  split; first by rewrite v_resize_spec wf_vec_of.
  split; first by rewrite v_assign_spec /vfill /wf_vec /= ?natE size_tab.
  move=> Hv; rewrite v_set_spec //; case: ifP => // _ [<-]; exact: wf_vec_of.
Qed.

(** ** the constructors without entries *)
Lemma m_default_spec : m_default Ops = identity Ops 3.
Proof. by []. Qed.
End State.
