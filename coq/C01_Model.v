(** * C01 model: class Interpolation (Steffen's monotone cubic) and class Interpolation_2D (bilinear)
    of src/Numerics.cpp, as the code is now (N==2 branch, Locate canonicalising the segment at
    tabulated abscissae).  Hand-written, line by line; tied to the code by the differential
    correspondence check (harness/C01.cpp vs the extraction of this file).

    [locate] is what a *fresh* object computes (correlated_calls = false: Bisection(x,0,N-1));
    the cache / hunting state machine is property C09 (C09_Model.v).  The object carries its
    [prefactor] (1.0 after construction); Set_Prefactor / Multiply are in C08_Model.v. *)
From Coq Require Import ZArith List Bool.
From LP Require Import Num.
Import ListNotations.

Section Model.
Context {T : Type} (Ops : NumOps T).
Declare Scope num_scope.
Delimit Scope num_scope with num.
Local Notation "x + y" := (nadd Ops x y) : num_scope.
Local Notation "x - y" := (nsub Ops x y) : num_scope.
Local Notation "x * y" := (nmul Ops x y) : num_scope.
Local Notation "x / y" := (ndiv Ops x y) : num_scope.
Local Notation lit k := (nofZ Ops k).

(** ** Compute_Steffen_Coefficients, index-function style.
    [xat l i] is l[i]; the vectors h, s, p, dy of the C++ code are functions of the index
    ([hh], [ss], [pp], [dyy]); [build] materialises them as lists once (as the C++ code does). *)
Definition xat (l : list T) (i : nat) : T := nth0 Ops l i.

(* h[i] = x_values[i + 1] - x_values[i];   s[i] = (function_values[i + 1] - function_values[i]) / h[i]; *)
Definition hh (xs : list T) (i : nat) : T := (xat xs (S i) - xat xs i)%num.
Definition ss (h : nat -> T) (ys : list T) (i : nat) : T := ((xat ys (S i) - xat ys i) / h i)%num.

(* p[i], three cases (and the two-point table) *)
Definition pp (N : nat) (h s : nat -> T) (i : nat) : T :=
  if Nat.eqb N 2 then s 0%nat
  else if Nat.eqb i 0 then
    (s i * (n1 Ops + h i / (h i + h (S i))) - s (S i) * h i / (h i + h (S i)))%num
  else if Nat.eqb i (N - 1) then
    (s (i - 1)%nat * (n1 Ops + h (i - 1)%nat / (h (i - 1)%nat + h (i - 2)%nat))
     - s (i - 2)%nat * h (i - 1)%nat / (h (i - 1)%nat + h (i - 2)%nat))%num
  else
    ((s (i - 1)%nat * h i + s i * h (i - 1)%nat) / (h (i - 1)%nat + h i))%num.

(* dy[i]: (Sign(.)+Sign(.)) is an int sum converted to double; std::min argument order as in the source *)
Definition dyy (N : nat) (s p : nat -> T) (i : nat) : T :=
  if Nat.eqb N 2 then s 0%nat
  else if Nat.eqb i 0 then
    (lit (sign1 Ops (p i) + sign1 Ops (s i))%Z
     * nmin Ops (n1 Ops * nabs Ops (s i)) (ndec Ops 1 2 * nabs Ops (p i)))%num
  else if Nat.eqb i (N - 1) then
    (lit (sign1 Ops (p i) + sign1 Ops (s (i - 1)%nat))%Z
     * nmin Ops (n1 Ops * nabs Ops (s (i - 1)%nat)) (ndec Ops 1 2 * nabs Ops (p i)))%num
  else
    (lit (sign1 Ops (s (i - 1)%nat) + sign1 Ops (s i))%Z
     * nmin Ops (n1 Ops * nabs Ops (p i) / lit 2)
                (nmin Ops (n1 Ops * nabs Ops (s i)) (n1 Ops * nabs Ops (s (i - 1)%nat))))%num.

(* a, b, c, d of interval i *)
Definition coef_a (h s dy : nat -> T) (i : nat) : T := ((dy i + dy (S i) - lit 2 * s i) / npowi Ops (h i) 2)%num.
Definition coef_b (h s dy : nat -> T) (i : nat) : T := ((lit 3 * s i - lit 2 * dy i - dy (S i)) / h i)%num.

(** The object.  [iN] = N, [ixs]/[iys] = x_values/function_values after the unit scaling. *)
Record itab : Type := mk_itab {
  iN : nat; ixs : list T; iys : list T; ipre : T;
  ia : list T; ib : list T; ic : list T; id : list T;
  idom0 : T; idom1 : T }.

Definition tabulate (f : nat -> T) (n : nat) : list T := map f (seq 0 n).

Definition build (xs ys : list T) : itab :=
  let N := length xs in
  let hl := tabulate (hh xs) (N - 1) in
  let h := xat hl in
  let sl := tabulate (ss h ys) (N - 1) in
  let s := xat sl in
  let pl := tabulate (pp N h s) N in
  let p := xat pl in
  let dyl := tabulate (dyy N s p) N in
  let dy := xat dyl in
  {| iN := N; ixs := xs; iys := ys; ipre := n1 Ops;
     ia := tabulate (coef_a h s dy) (N - 1);
     ib := tabulate (coef_b h s dy) (N - 1);
     ic := tabulate dy (N - 1);
     id := tabulate (xat ys) (N - 1);
     idom0 := xat xs 0; idom1 := xat xs (N - 1) |}.

(** Constructor Interpolation(arg_values, func_values, x_dim, f_dim) *)
Fixpoint strictly_increasing (l : list T) : bool :=
  match l with
  | a :: r => match r with
              | b :: _ => if nleb Ops b a then false else strictly_increasing r   (* x[i] <= x[i-1] -> exit *)
              | [] => true
              end
  | [] => true
  end.
Definition scale (dim : T) (l : list T) : list T :=
  if ngtb Ops dim (n0 Ops) then map (fun v => (v * dim)%num) l else l.

(* order of the source: the two length checks, "Transform units" on both tables, and only then the strict-increase loop,
   on the CONVERTED x_values (the multiplication can round two abscissae onto one double, or onto inf) *)
Definition construct (xs0 ys0 : list T) (x_dim f_dim : T) : res itab :=
  if negb (Nat.eqb (length xs0) (length ys0)) then Exit
  else if Nat.ltb (length xs0) 2 then Exit
  else
    let xs := scale x_dim xs0 in
    let ys := scale f_dim ys0 in
    if negb (strictly_increasing xs) then Exit
    else Ok (build xs ys).

(** Constructor Interpolation(data, x_dim, f_dim) from rows (x, f) *)
Fixpoint split_rows (data : list (list T)) : res (list T * list T) :=
  match data with
  | [] => Ok ([], [])
  | r :: rest =>
      match r with
      | [x; f] => rbind (split_rows rest) (fun xf => Ok (x :: fst xf, f :: snd xf))
      | _ => Exit
      end
  end.
Definition construct_rows (data : list (list T)) (x_dim f_dim : T) : res itab :=
  rbind (split_rows data) (fun xf => construct (fst xf) (snd xf) x_dim f_dim).

(** ** Bisection(x, jLeft, jRight): int indices, (jRight + jLeft) >> 1; fuel N bounds the iterations *)
Fixpoint bisection (fuel : nat) (xs : list T) (x : T) (jl jr : Z) : res Z :=
  match fuel with
  | O => if (jr - jl >? 1)%Z then Fuel else Ok jl
  | S f =>
      if (jr - jl >? 1)%Z then
        let jm := Z.shiftr (jr + jl) 1 in
        rbind (getZ xs jm) (fun xm =>
          if ngeb Ops x xm then bisection f xs x jm jr else bisection f xs x jl jm)
      else Ok jl
  end.

(** ** Locate(x) on a fresh object *)
Definition locate (o : itab) (x : T) : res nat :=
  let N := iN o in
  let xs := ixs o in
  if nisnan Ops x then Exit     (* if(std::isnan(x)) { ...; std::exit(EXIT_FAILURE); } *)
  else if nltb Ops x (idom0 o) || ngtb Ops x (idom1 o) then
    let tol_left := (ndec Ops 1 100 * (xat xs 1 - xat xs 0))%num in
    let tol_right := (ndec Ops 1 100 * (xat xs (N - 1) - xat xs (N - 2)))%num in
    if nltb Ops (nabs Ops (x - idom0 o)%num) tol_left then Ok 0%nat
    else if nltb Ops (nabs Ops (x - idom1 o)%num) tol_right then Ok (N - 2)%nat
    else Exit
  else
    rbind (bisection N xs x 0%Z (Z.of_nat N - 1)%Z) (fun jz =>
      let j := Z.to_nat jz in
      if Nat.ltb j (N - 2) then
        rbind (get xs (S j)) (fun xn => if neqb Ops x xn then Ok (S j) else Ok j)
      else Ok j).

(** x_values[j], a[j], b[j], c[j], d[j] *)
Definition segment (o : itab) (j : nat) : res (T * (T * T * T * T)) :=
  rbind (get (ixs o) j) (fun xj =>
  rbind (get (ia o) j) (fun a =>
  rbind (get (ib o) j) (fun b =>
  rbind (get (ic o) j) (fun c =>
  rbind (get (id o) j) (fun d => Ok (xj, (a, b, c, d))))))).

(* a[j] * pow((x - x_j), 3.0) + b[j] * pow((x - x_j), 2.0) + c[j] * (x - x_j) + d[j] *)
Definition seg_eval (sg : T * (T * T * T * T)) (x : T) : T :=
  let '(xj, (a, b, c, d)) := sg in
  let dx := (x - xj)%num in
  (a * npowi Ops dx 3 + b * npowi Ops dx 2 + c * dx + d)%num.
(* 3.0 * a[j] * pow((x - x_j), 2.0) + 2.0 * b[j] * (x - x_j) + c[j] *)
Definition seg_d1 (sg : T * (T * T * T * T)) (x : T) : T :=
  let '(xj, (a, b, c, d)) := sg in
  let dx := (x - xj)%num in
  (lit 3 * a * npowi Ops dx 2 + lit 2 * b * dx + c)%num.
(* 6.0 * a[j] * (x - x_j) + 2.0 * b[j] *)
Definition seg_d2 (sg : T * (T * T * T * T)) (x : T) : T :=
  let '(xj, (a, b, c, d)) := sg in
  let dx := (x - xj)%num in
  (lit 6 * a * dx + lit 2 * b)%num.
(* 6.0 * a[j] *)
Definition seg_d3 (sg : T * (T * T * T * T)) : T :=
  let '(xj, (a, b, c, d)) := sg in (lit 6 * a)%num.

(** ** Interpolate(x) *)
Definition interpolate (o : itab) (x : T) : res T :=
  rbind (locate o x) (fun j =>
  rbind (segment o j) (fun sg => Ok (ipre o * seg_eval sg x)%num)).

(** ** Derivative(x, derivation) *)
Definition derivative (o : itab) (x : T) (k : Z) : res T :=
  rbind (locate o x) (fun j =>
  rbind (segment o j) (fun sg =>
    if (k =? 0)%Z then interpolate o x
    else if (k =? 1)%Z then Ok (ipre o * seg_d1 sg x)%num
    else if (k =? 2)%Z then Ok (ipre o * seg_d2 sg x)%num
    else if (k =? 3)%Z then Ok (ipre o * seg_d3 sg)%num
    else Ok (n0 Ops))).

(** ** Interpolation_2D *)
Record itab2 : Type := mk_itab2 {
  jxs : list T; jys : list T; jf : list (list T); jpre : T; jxint : itab; jyint : itab }.

Definition scale2 (dim : T) (f : list (list T)) : list (list T) :=
  if ngtb Ops dim (n0 Ops) then map (map (fun v => (v * dim)%num)) f else f.

Definition construct2 (xs0 ys0 : list T) (f0 : list (list T)) (x_dim y_dim f_dim : T) : res itab2 :=
  let Nx := length xs0 in
  let Ny := length ys0 in
  if negb (Nat.eqb (length f0) Nx && forallb (fun r => Nat.eqb (length r) Ny) f0) then Exit
  else
    let xs := scale x_dim xs0 in
    let ys := scale y_dim ys0 in
    let f := scale2 f_dim f0 in
    let m1 := nneg Ops (n1 Ops) in
    rbind (construct xs (repeat (n0 Ops) Nx) m1 m1) (fun xi =>
    rbind (construct ys (repeat (n0 Ops) Ny) m1 m1) (fun yi =>
      Ok {| jxs := xs; jys := ys; jf := f; jpre := n1 Ops; jxint := xi; jyint := yi |})).

(** Constructor Interpolation_2D(data_table, x_dim, y_dim, f_dim) from rows (x, y, f) in x-major order.
    std::sort is modelled by its specification (the sorted permutation; insertion sort with operator<),
    std::unique keeps the first element of every run of equal elements. *)
Fixpoint split_rows3 (data : list (list T)) : res (list T * list T * list T) :=
  match data with
  | [] => Ok ([], [], [])
  | r :: rest =>
      match r with
      | [x; y; f] => rbind (split_rows3 rest) (fun c => Ok (x :: fst (fst c), y :: snd (fst c), f :: snd c))
      | _ => Exit                                     (* data_table[i].size() != 3 *)
      end
  end.
Fixpoint insert_sorted (a : T) (l : list T) : list T :=
  match l with
  | [] => [a]
  | b :: r => if nltb Ops b a then b :: insert_sorted a r else a :: l
  end.
Definition sort_list (l : list T) : list T := fold_right insert_sorted [] l.
Fixpoint unique_from (a : T) (l : list T) : list T :=
  match l with
  | [] => []
  | b :: r => if neqb Ops a b then unique_from a r else b :: unique_from b r
  end.
Definition unique_list (l : list T) : list T :=
  match l with [] => [] | a :: r => a :: unique_from a r end.
Definition construct2_table (data : list (list T)) (x_dim y_dim f_dim : T) : res itab2 :=
  rbind (split_rows3 data) (fun c =>
    let xc := fst (fst c) in let yc := snd (fst c) in let fc := snd c in
    let x := unique_list (sort_list xc) in
    let y := unique_list (sort_list yc) in
    let Nx := length x in let Ny := length y in
    if negb (Nat.eqb (Nx * Ny) (length data)) then Exit           (* "List lenghts do not fit." *)
    (* row i_x * N_y + i_y must carry (x[i_x], y[i_y]), otherwise "Data table was not in right format." *)
    else if negb (forallb (fun ix => forallb (fun iy =>
                    neqb Ops (xat x ix) (xat xc (ix * Ny + iy)) && neqb Ops (xat y iy) (xat yc (ix * Ny + iy)))
                  (seq 0 Ny)) (seq 0 Nx)) then Exit
    else
      let f := map (fun ix => map (fun iy => xat fc (ix * Ny + iy)) (seq 0 Ny)) (seq 0 Nx) in
      construct2 x y f x_dim y_dim f_dim).

Definition get2 (f : list (list T)) (i j : nat) : res T := rbind (get f i) (fun r => get r j).

(* t, u and the four corner values of the cell (i, j) *)
Definition bilinear (t u f0 f1 f2 f3 : T) : T :=
  ((n1 Ops - t) * (n1 Ops - u) * f0 + t * (n1 Ops - u) * f1 + t * u * f2 + (n1 Ops - t) * u * f3)%num.

Definition interpolate2 (o : itab2) (x y : T) : res T :=
  rbind (locate (jxint o) x) (fun i =>
  rbind (locate (jyint o) y) (fun j =>
  rbind (get (jxs o) i) (fun xi => rbind (get (jxs o) (S i)) (fun xi1 =>
  rbind (get (jys o) j) (fun yj => rbind (get (jys o) (S j)) (fun yj1 =>
    let t := ((x - xi) / (xi1 - xi))%num in
    let u := ((y - yj) / (yj1 - yj))%num in
    rbind (get2 (jf o) i j) (fun f0 =>
    rbind (get2 (jf o) (S i) j) (fun f1 =>
    rbind (get2 (jf o) (S i) (S j)) (fun f2 =>
    rbind (get2 (jf o) i (S j)) (fun f3 =>
      Ok (jpre o * bilinear t u f0 f1 f2 f3)%num)))))))))).
End Model.

(** ** Sessions: several objects alive in one process, tables assigned to an object that already answered
    requests (F = Interpolation(table2); a new object constructed in the storage of a destroyed one; copy
    assignment from another live object), requests to the objects interleaved.  The classes keep no state outside
    the object (no statics), and assignment replaces the whole table, so the model of a session is a list of
    slots holding objects; a request to a slot is answered by the object the slot holds NOW, as a fresh object
    would.  Polymorphic in the object / request / answer types: instantiated with [itab] and [itab2] by the
    driver ([CPut] carries the constructor's result, [Exit] when the constructor terminates the process). *)
Section Session.
Context {Obj Q Out : Type} (answer : Obj -> Q -> res Out).
Inductive scmd : Type :=
| CPut (k : nat) (r : res Obj)      (* slot k = <constructor call> *)
| CCopy (dst src : nat)             (* slot dst = slot src *)
| CAsk (k : nat) (q : Q).           (* a request to the object in slot k *)
Fixpoint set_slot (st : list (option Obj)) (k : nat) (o : Obj) : list (option Obj) :=
  match k, st with
  | O, [] => [Some o]
  | O, _ :: r => Some o :: r
  | S k', [] => None :: set_slot [] k' o
  | S k', a :: r => a :: set_slot r k' o
  end.
Definition get_slot (st : list (option Obj)) (k : nat) : res Obj :=
  match nth_error st k with Some (Some o) => Ok o | _ => OOB end.
Definition session_step (st : list (option Obj)) (c : scmd) : res (list (option Obj) * option Out) :=
  match c with
  | CPut k r => rbind r (fun o => Ok (set_slot st k o, None))
  | CCopy d s => rbind (get_slot st s) (fun o => Ok (set_slot st d o, None))
  | CAsk k q => rbind (get_slot st k) (fun o => rbind (answer o q) (fun v => Ok (st, Some v)))
  end.
Fixpoint session_run (st : list (option Obj)) (cmds : list scmd) : res (list Out) :=
  match cmds with
  | [] => Ok []
  | c :: r =>
      rbind (session_step st c) (fun p =>
      rbind (session_run (fst p) r) (fun outs =>
        Ok (match snd p with Some v => v :: outs | None => outs end)))
  end.
End Session.

(** requests to a 1-D object and their answers *)
Section Requests.
Context {T : Type} (Ops : NumOps T).
Inductive query1 : Type := QI (x : T) | QD (k : Z) (x : T) | QL (x : T).
Inductive answer1 : Type := AV (v : T) | AJ (j : nat).
Definition answer_1d (o : itab) (q : query1) : res answer1 :=
  match q with
  | QI x => rbind (interpolate Ops o x) (fun v => Ok (AV v))
  | QD k x => rbind (derivative Ops o x k) (fun v => Ok (AV v))
  | QL x => rbind (locate Ops o x) (fun j => Ok (AJ j))
  end.
Definition answer_2d (o : itab2) (q : T * T) : res T := interpolate2 Ops o (fst q) (snd q).
End Requests.
