(** * C14 model: the Monte-Carlo integrators (src/Integration.cpp section 2.2): Rebin, Integrate_MC_Vegas,
    Random_Point, MC_Volume, Integrate_MC_Brute_Force, Miser, Integrate_MC_Miser, Integrate_MC.
    Hand-written, line by line; tied to the code by the differential correspondence check
    (harness/C14.cpp vs the extraction of this file).

    The random numbers.  Every integrator owns a per-call std::mt19937 from which it draws with
    Sample_Uniform(PRNG) = std::uniform_real_distribution<double>(0,1).  The model takes the sequence of
    these draws as [us : Z -> T] ([us k] is the k-th draw of the call) and threads the position.
    With the verification hook (verif::mc_seed) the generator is seeded by the harness, and the driver hands the
    model the very same stream.

    State.  Miser's counter [iran] is local to a top-level call (it starts at 0 in Integrate_MC_Miser) and is
    threaded through the recursion.  The function-local statics of Integrate_MC_Vegas that survive a call are
    the record [vstate], passed in and out. *)
From Coq Require Import ZArith List Bool.
From LP Require Import Num C13_Model.
Import ListNotations.
Local Open Scope Z_scope.
Local Open Scope res_scope.

Section Model.
Context {T : Type} (Ops : NumOps T).
Declare Scope num_scope.
Local Notation "x + y" := (nadd Ops x y) : num_scope.
Local Notation "x - y" := (nsub Ops x y) : num_scope.
Local Notation "x * y" := (nmul Ops x y) : num_scope.
Local Notation "x / y" := (ndiv Ops x y) : num_scope.
Delimit Scope num_scope with num.
Local Notation "'#' k" := (nofZ Ops k) (at level 1, format "'#' k").

Variable us : Z -> T.

Definition tiny : T := nlit Ops 1 1000000000000000000000000000000 5708990770823840 (-152).   (* 1.0e-30 *)
Definition big : T := nlit Ops 1000000000000000000000000000000 1 7105427357601002 47.         (* 1.0e30 *)

(** lower and upper corner of a region vector {lower..., upper...}; dim = region.size() / 2 *)
Definition rdim (region : list T) : nat := Nat.div (length region) 2.
Definition lows (region : list T) : list T := firstn (rdim region) region.
Definition highs (region : list T) : list T := firstn (rdim region) (skipn (rdim region) region).

(** ** Random_Point(region, PRNG): point[i] = region[i] + Sample_Uniform(PRNG) * (region[i + dim] - region[i]) *)
Fixpoint random_point_aux (lo hi : list T) (pos : Z) : list T * Z :=
  match lo, hi with
  | l :: lo', h :: hi' =>
      let u := us pos in
      let '(pt, pos') := random_point_aux lo' hi' (pos + 1) in
      ((l + u * (h - l))%num :: pt, pos')
  | _, _ => ([], pos)
  end.
Definition random_point (region : list T) (pos : Z) : list T * Z :=
  random_point_aux (lows region) (highs region) pos.

(** ** MC_Volume(region): volume = 1.0; volume *= (region[i + dim] - region[i]) *)
Fixpoint mc_volume_aux (lo hi : list T) (v : T) : T :=
  match lo, hi with
  | l :: lo', h :: hi' => mc_volume_aux lo' hi' (v * (h - l))%num
  | _, _ => v
  end.
Definition mc_volume (region : list T) : T := mc_volume_aux (lows region) (highs region) (n1 Ops).

(** ** Integrate_MC_Brute_Force(func, region, ncall)
<<
	double volume = MC_Volume(region);  double sum = 0.0;
	for(int i = 0; i < ncall; i++)
	{ std::vector<double> args = Random_Point(region, PRNG);  double fct = func(args, 0.0);  sum += volume * fct; }
	double integral = sum / ncall;
>>
    The loop counters can be large (budgets up to 10^6): counted loops are [N.iter] over a state, so that no
    unary number of that size is ever built. *)
Definition brute_force_step (f : list T -> T) (region : list T) (volume : T) (st : Z * T) : Z * T :=
  let '(pos, sum) := st in
  let '(args, pos') := random_point region pos in
  let fct := f args in
  (pos', (sum + volume * fct)%num).
Definition brute_force (f : list T -> T) (region : list T) (ncall : Z) : T :=
  let volume := mc_volume region in
  let '(_, sum) := N.iter (Z.to_N ncall) (brute_force_step f region volume) (0, n0 Ops) in
  (sum / #ncall)%num.

(** ** Miser(func, region, npts, dith, ave, var, PRNG, iran), with dith = 0.0.
    MNPT = 15, MNBS = 60, PFAC = 0.1, TINY = 1.0e-30, BIG = 1.0e30.
    Only [ave] is modelled: the value returned by Integrate_MC_Miser does not depend on [var]. *)
Definition MNPT : Z := 15.
Definition MNBS : Z := 60.
Definition PFAC : T := ndec Ops 1 10.
Definition dith : T := n0 Ops.
Definition half : T := ndec Ops 1 2.

(** <<  for(n = 0; n < npts; n++) { pt = Random_Point(region, PRNG); fval = func(pt, 0.0); summ += fval; summ2 += fval * fval; } >> *)
Definition miser_leaf_step (f : list T -> T) (region : list T) (st : Z * T) : Z * T :=
  let '(pos, summ) := st in
  let '(pt, pos') := random_point region pos in
  let fval := f pt in
  (pos', (summ + fval)%num).

(** <<  for(j = 0; j < ndim; j++)
        { iran = (iran * 2661 + 36979) % 175000;  s = Sign(dith, double(iran - 87500));
          rmid[j] = (0.5 + s) * region[j] + (0.5 - s) * region[ndim + j]; ... } >> *)
Fixpoint miser_rmid (lo hi : list T) (iran : Z) : list T * Z :=
  match lo, hi with
  | l :: lo', h :: hi' =>
      let iran' := Z.rem (iran * 2661 + 36979) 175000 in
      let s := sign2 Ops dith #(iran' - 87500) in
      let '(r, ir) := miser_rmid lo' hi' iran' in
      (((half + s) * l + (half - s) * h)%num :: r, ir)
  | _, _ => ([], iran)
  end.

(** per dimension (fminl, fmaxl, fminr, fmaxr); one pre-sampled point updates every dimension:
    <<  if(pt[j] <= rmid[j]) { fminl[j] = std::min(fminl[j], fval); fmaxl[j] = std::max(fmaxl[j], fval); }
        else                 { fminr[j] = std::min(fminr[j], fval); fmaxr[j] = std::max(fmaxr[j], fval); }  >> *)
Fixpoint miser_bounds (pt rmid : list T) (b : list (T * T * T * T)) (fval : T) : list (T * T * T * T) :=
  match pt, rmid, b with
  | p :: pt', m :: rmid', (fminl, fmaxl, fminr, fmaxr) :: b' =>
      (if nleb Ops p m then (nmin Ops fminl fval, nmax Ops fmaxl fval, fminr, fmaxr)
       else (fminl, fmaxl, nmin Ops fminr fval, nmax Ops fmaxr fval)) :: miser_bounds pt' rmid' b' fval
  | _, _, _ => []
  end.

Definition miser_presample_step (f : list T -> T) (region rmid : list T) (st : Z * list (T * T * T * T)) : Z * list (T * T * T * T) :=
  let '(pos, b) := st in
  let '(pt, pos') := random_point region pos in
  let fval := f pt in
  (pos', miser_bounds pt rmid b fval).

(** <<  sumb = BIG; jb = -1; siglb = sigrb = 1.0;
        for(j = 0; j < ndim; j++)
          if(fmaxl[j] > fminl[j] && fmaxr[j] > fminr[j])
          { sigl = std::max(TINY, std::pow(fmaxl[j] - fminl[j], 2.0 / 3.0));
            sigr = std::max(TINY, std::pow(fmaxr[j] - fminr[j], 2.0 / 3.0));
            sum = sigl + sigr;
            if(sum <= sumb) { sumb = sum; jb = j; siglb = sigl; sigrb = sigr; } }  >> *)
Fixpoint miser_select (j : Z) (b : list (T * T * T * T)) (st : T * Z * T * T) : T * Z * T * T :=
  match b with
  | [] => st
  | (fminl, fmaxl, fminr, fmaxr) :: b' =>
      let '(sumb, jb, siglb, sigrb) := st in
      let st' :=
        if ngtb Ops fmaxl fminl && ngtb Ops fmaxr fminr then
          let sigl := nmax Ops tiny (npow Ops (fmaxl - fminl)%num (ndec Ops 2 3)) in
          let sigr := nmax Ops tiny (npow Ops (fmaxr - fminr)%num (ndec Ops 2 3)) in
          let sum := (sigl + sigr)%num in
          if nleb Ops sum sumb then (sum, j, sigl, sigr) else st
        else st in
      miser_select (j + 1) b' st'
  end.

(** One level of the recursion ([rec] = the two recursive calls); result (ave, iran, position in the stream).
    Every level below MNBS points consumes at least MNPT points of the budget, so npts/15 + 2 levels of fuel suffice. *)
Definition miser_level (rec : list T -> Z -> Z -> Z -> res (T * Z * Z)) (f : list T -> T) (region : list T) (npts : Z) (iran pos : Z)
  : res (T * Z * Z) :=
  let nd := rdim region in
  let ndim := Z.of_nat nd in
  if npts <? MNBS then
    let '(pos', summ) := N.iter (Z.to_N npts) (miser_leaf_step f region) (pos, n0 Ops) in
    Ok ((summ / #npts)%num, iran, pos')
  else
    let npre := Z.max (ntrunc Ops (#npts * PFAC)%num) MNPT in
    let '(rmid, iran1) := miser_rmid (lows region) (highs region) iran in
    let b0 := repeat (big, nneg Ops big, big, nneg Ops big) nd in
    let '(pos1, b) := N.iter (Z.to_N npre) (miser_presample_step f region rmid) (pos, b0) in
    let '(_, jb0, siglb, sigrb) := miser_select 0 b (big, (-1), n1 Ops, n1 Ops) in
    let jb := if jb0 =? (-1) then Z.quot (ndim * iran1) 175000 else jb0 in
    let* rgl := getZ region jb in
    let* rgm := getZ rmid jb in
    let* rgr := getZ region (ndim + jb) in
    let fracl := nabs Ops ((rgm - rgl) / (rgr - rgl))%num in
    let nptl := ntrunc Ops (#MNPT + #(npts - npre - 2 * MNPT) * fracl * siglb / (fracl * siglb + (#1 - fracl) * sigrb))%num in
    let nptr := npts - npre - nptl in
    let region_temp := firstn (2 * nd) region in
    let region_l := set_nth region_temp (Z.to_nat (ndim + jb)) rgm in
    let* rl := rec region_l nptl iran1 pos1 in
    let '(avel, iran2, pos2) := rl in
    let region_r := set_nth (set_nth region_l (Z.to_nat jb) rgm) (Z.to_nat (ndim + jb)) rgr in
    let* rr := rec region_r nptr iran2 pos2 in
    let '(aver, iran3, pos3) := rr in
    Ok ((fracl * avel + (#1 - fracl) * aver)%num, iran3, pos3).

Fixpoint miser (fuel : nat) (f : list T -> T) (region : list T) (npts : Z) (iran pos : Z) {struct fuel} : res (T * Z * Z) :=
  match fuel with
  | O => Fuel
  | S fu => miser_level (miser fu f) f region npts iran pos
  end.

(** Integrate_MC_Miser(func, region, ncall): dith = 0.0; int iran = 0; Miser(...); return MC_Volume(region) * average; *)
Definition integrate_miser (f : list T -> T) (region : list T) (ncall : Z) : res T :=
  let* r := miser (Z.to_nat (ncall / 15 + 2)) f region ncall 0 0 in
  let '(average, _, _) := r in
  Ok (mc_volume region * average)%num.

(** ** Vegas.  NDMX = 50, MXDIM = 10, ALPH = 1.5, TINY = 1.0e-30. *)
Definition NDMX : Z := 50.
Definition ALPH : T := ndec Ops 3 2.

(** The statics that a later call can read before writing them (all others — the loop counters, the
    per-sample scalars, kg, ia, x, dt, r, xin, d, di — are written before they are read on every path; the model
    creates them afresh at the size in use, so that reading a stale entry would be the outcome [OOB]).
    [di] is only printed (nprn >= 0) and is not modelled. *)
Record vstate := mkV {
  v_mds : Z; v_ndo : Z; v_nd : Z; v_ng : Z; v_npg : Z;
  v_calls : T; v_dv2g : T; v_dxg : T; v_xnd : T; v_xjac : T;
  v_si : T; v_swgt : T; v_schi : T;
  v_dx : list T;
  v_xi : list (list T)     (* MXDIM rows of NDMX entries *)
}.
(** zero-initialised statics of a fresh process *)
Definition vstate0 : vstate :=
  mkV 0 0 0 0 0 (n0 Ops) (n0 Ops) (n0 Ops) (n0 Ops) (n0 Ops) (n0 Ops) (n0 Ops) (n0 Ops)
      (repeat (n0 Ops) 10) (repeat (repeat (n0 Ops) 50) 10).

(** *** Rebin(rc, nd, r, xin, xi, j) on row j of xi
<<
	int i, k = 0;  double dr = 0.0, xn = 0.0, xo = 0.0;
	for(i = 0; i < nd - 1; i++)
	{	while(rc > dr) dr += r[(++k) - 1];
		if(k > 1) xo = xi[j][k - 2];
		xn = xi[j][k - 1];
		dr -= rc;
		xin[i] = xn - (xn - xo) * dr / r[k - 1];
	}
	for(i = 0; i < nd - 1; i++) xi[j][i] = xin[i];
	xi[j][nd - 1] = 1.0;
>> *)
Fixpoint rebin_while (fuel : nat) (rc : T) (r : list T) (k : Z) (dr : T) : res (Z * T) :=
  match fuel with
  | O => Fuel
  | S fu =>
      if ngtb Ops rc dr then
        let* rk := getZ r k in rebin_while fu rc r (k + 1) (dr + rk)%num
      else Ok (k, dr)
  end.

Fixpoint rebin_loop (cnt : nat) (rc : T) (r row : list T) (k : Z) (dr xo : T) : res (list T) :=
  match cnt with
  | O => Ok []
  | S c =>
      let* kd := rebin_while (S (length r)) rc r k dr in
      let '(k', dr') := kd in
      let* xo' := (if k' >? 1 then getZ row (k' - 2) else Ok xo) in
      let* xn' := getZ row (k' - 1) in
      let dr'' := (dr' - rc)%num in
      let* rk := getZ r (k' - 1) in
      let x := (xn' - (xn' - xo') * dr'' / rk)%num in
      let* rest := rebin_loop c rc r row k' dr'' xo' in
      Ok (x :: rest)
  end.

Definition rebin (rc : T) (nd : Z) (r row : list T) : res (list T) :=
  let* xin := rebin_loop (Z.to_nat (nd - 1)) rc r row 0 (n0 Ops) (n0 Ops) in
  Ok (xin ++ [n1 Ops] ++ skipn (Z.to_nat nd) row).

Fixpoint rebin_rows (rc : T) (nd : Z) (r : list T) (rows : list (list T)) : res (list (list T)) :=
  match rows with
  | [] => Ok []
  | row :: rows' => let* row' := rebin rc nd r row in let* rest := rebin_rows rc nd r rows' in Ok (row' :: rest)
  end.

Fixpoint zpow (b : Z) (n : nat) : Z := match n with O => 1 | S n' => zpow b n' * b end.
Fixpoint tpow_mul (acc x : T) (n : nat) : T := match n with O => acc | S n' => tpow_mul (acc * x)%num x n' end.
Fixpoint dx_jac (lo hi : list T) (xjac : T) : list T * T :=
  match lo, hi with
  | l :: lo', h :: hi' =>
      let dxj := (h - l)%num in
      let '(dxs, xj) := dx_jac lo' hi' (xjac * dxj)%num in (dxj :: dxs, xj)
  | _, _ => ([], xjac)
  end.

(** <<  if(nd != ndo) { for(i = 0; i < std::max(nd, ndo); i++) r[i] = 1.0;
                        for(j = 0; j < ndim; j++) Rebin(ndo / xnd, nd, r, xin, xi, j);
                        ndo = nd; }  >>   result: the grid and ndo *)
Definition vegas_grid_reset (nd ndo : Z) (xnd : T) (nd_ : nat) (xi : list (list T)) : res (list (list T) * Z) :=
  if negb (nd =? ndo) then
    let r := repeat (n1 Ops) (Z.to_nat (Z.max nd ndo)) in
    let* rows := rebin_rows (#ndo / xnd)%num nd r (firstn nd_ xi) in
    Ok (rows ++ skipn nd_ xi, nd)
  else Ok (xi, ndo).

(** *** The initialisation blocks  if(init <= 0) ... if(init <= 1) ... if(init <= 2) ...  (Integration.cpp 324-391) *)
Definition vegas_init (s : vstate) (region : list T) (init ncall : Z) : res vstate :=
  let nd_ := rdim region in
  let ndim := Z.of_nat nd_ in
  (* if(init <= 0) { mds = ndo = 1; for(j = 0; j < ndim; j++) xi[j][0] = 1.0; } *)
  let '(mds, ndo, xi) :=
    if init <=? 0 then (1, 1, map (fun row => set_nth row 0 (n1 Ops)) (firstn nd_ (v_xi s)) ++ skipn nd_ (v_xi s))
    else (v_mds s, v_ndo s, v_xi s) in
  (* if(init <= 1) si = swgt = schi = 0.0; *)
  let '(si, swgt, schi) := if init <=? 1 then (n0 Ops, n0 Ops, n0 Ops) else (v_si s, v_swgt s, v_schi s) in
  if init <=? 2 then
    let nd := NDMX in
    let ng := 1 in
    let '(ng, mds, nd) :=
      if negb (mds =? 0) then
        let ng := ntrunc Ops (npow Ops (#ncall / #2 + ndec Ops 1 4)%num (#1 / #ndim)%num) in
        if 2 * ng - NDMX >=? 0 then
          let npg := Z.quot ng NDMX + 1 in
          let nd := Z.quot ng npg in
          (npg * nd, (-1), nd)
        else (ng, 1, nd)
      else (ng, mds, nd) in
    let k := zpow ng nd_ in
    let npg := Z.max (Z.quot ncall k) 2 in
    let calls := (#npg * #k)%num in
    let dxg := (#1 / #ng)%num in
    let dv2g := tpow_mul (n1 Ops) dxg nd_ in
    let dv2g := (calls * dv2g * calls * dv2g / #npg / #npg / (#npg - #1))%num in
    let xnd := #nd in
    let dxg := (dxg * xnd)%num in
    let xjac := (#1 / calls)%num in
    let '(dx, xjac) := dx_jac (lows region) (highs region) xjac in
    let* xi_ndo := vegas_grid_reset nd ndo xnd nd_ xi in
    let '(xi, ndo) := xi_ndo in
    Ok (mkV mds ndo nd ng npg calls dv2g dxg xnd xjac si swgt schi (dx ++ skipn nd_ (v_dx s)) xi)
  else
    Ok (mkV mds ndo (v_nd s) (v_ng s) (v_npg s) (v_calls s) (v_dv2g s) (v_dxg s) (v_xnd s) (v_xjac s) si swgt schi (v_dx s) xi).

(** *** One sample: the map from the uniforms to the point, its bins and its weight (Integration.cpp 406-423)
<<
	wgt = xjac;
	for(j = 0; j < ndim; j++)
	{	xn = (kg[j] - Sample_Uniform(PRNG)) * dxg + 1.0;
		ia[j] = std::max(std::min(int(xn), NDMX), 1);
		if(ia[j] > 1) { xo = xi[j][ia[j] - 1] - xi[j][ia[j] - 2];  rc = xi[j][ia[j] - 2] + (xn - ia[j]) * xo; }
		else          { xo = xi[j][ia[j] - 1];                     rc = (xn - ia[j]) * xo; }
		x[j] = region[j] + rc * dx[j];
		wgt *= xo * xnd;
	}
>>
    [rows] are the rows of the grid in use, cut to the nd entries in use. *)
Fixpoint vegas_sample (kgs : list Z) (rows : list (list T)) (los dxs : list T) (dxg xnd wgt : T) (pos : Z)
  : res (list T * list Z * T * Z) :=
  match kgs, rows, los, dxs with
  | kg :: kgs', row :: rows', lo :: los', dxj :: dxs' =>
      let xn := ((#kg - us pos) * dxg + #1)%num in
      let ia := Z.max (Z.min (ntrunc Ops xn) NDMX) 1 in
      let* xr :=
        (if ia >? 1 then
           let* a := getZ row (ia - 1) in
           let* b := getZ row (ia - 2) in
           let xo := (a - b)%num in Ok (xo, (b + (xn - #ia) * xo)%num)
         else
           let* a := getZ row (ia - 1) in Ok (a, ((xn - #ia) * a)%num)) in
      let '(xo, rc) := xr in
      let xj := (lo + rc * dxj)%num in
      let* rest := vegas_sample kgs' rows' los' dxs' dxg xnd (wgt * (xo * xnd))%num (pos + 1) in
      let '(xs, ias, w, p) := rest in
      Ok (xj :: xs, ia :: ias, w, p)
  | _, _, _, _ => Ok ([], [], wgt, pos)
  end.

(** d[ia[j] - 1][j] += v for every j; [d] is kept per dimension: d_j = column j of the C++ matrix, nd entries *)
Fixpoint add_at (col : list T) (i : nat) (v : T) : res (list T) :=
  match col, i with
  | [], _ => OOB
  | a :: col', O => Ok ((a + v)%num :: col')
  | a :: col', S i' => let* c := add_at col' i' v in Ok (a :: c)
  end.
Fixpoint d_add (d : list (list T)) (ias : list Z) (v : T) : res (list (list T)) :=
  match d, ias with
  | col :: d', ia :: ias' =>
      let* c := (if ia <? 1 then OOB else add_at col (Z.to_nat (ia - 1)) v) in
      let* rest := d_add d' ias' v in Ok (c :: rest)
  | _, _ => Ok d
  end.

(** the npg samples of one cell of the stratification: fb, f2b, d, the bins of the last sample *)
Fixpoint vegas_cell (n : nat) (f : list T -> T) (s : vstate) (rows : list (list T)) (region : list T) (kgs : list Z)
  (fb f2b : T) (d : list (list T)) (ias : list Z) (pos : Z) : res (T * T * list (list T) * list Z * Z) :=
  match n with
  | O => Ok (fb, f2b, d, ias, pos)
  | S n' =>
      let* smp := vegas_sample kgs rows (lows region) (v_dx s) (v_dxg s) (v_xnd s) (v_xjac s) pos in
      let '(x, ias', wgt, pos') := smp in
      let fv := (wgt * f x)%num in
      let f2 := (fv * fv)%num in
      let* d' := (if v_mds s >=? 0 then d_add d ias' f2 else Ok d) in
      vegas_cell n' f s rows region kgs (fb + fv)%num (f2b + f2)%num d' ias' pos'
  end.

(** <<  for(k = ndim - 1; k >= 0; k--) { kg[k] %= ng; if(++kg[k] != 1) break; }   if(k < 0) break;  >>
    on the reversed list of counters; the flag says that the odometer wrapped around (all cells done) *)
Fixpoint kg_advance (kg_rev : list Z) (ng : Z) : list Z * bool :=
  match kg_rev with
  | [] => ([], true)
  | g :: rest =>
      let g' := Z.rem g ng + 1 in
      if g' =? 1 then let '(r, dn) := kg_advance rest ng in (g' :: r, dn) else (g' :: rest, false)
  end.

(** the for(;;) loop over the cells of one iteration: one pass of the body; [N.iter] repeats it while the
    odometer has not wrapped around.  State: (done, kg, ti, tsi, d, pos). *)
Definition vegas_cells_step (f : list T -> T) (s : vstate) (rows : list (list T)) (region : list T)
  (st : res (bool * list Z * T * T * list (list T) * Z)) : res (bool * list Z * T * T * list (list T) * Z) :=
  let* st := st in
  let '(done, kgs, ti, tsi, d, pos) := st in
  if done then Ok st
  else
    let* c := vegas_cell (Z.to_nat (v_npg s)) f s rows region kgs (n0 Ops) (n0 Ops) d [] pos in
    let '(fb, f2b, d1, ias, pos') := c in
    let f2b := nsqrt Ops (f2b * #(v_npg s))%num in
    let f2b := ((f2b - fb) * (f2b + fb))%num in
    let f2b := if nleb Ops f2b (n0 Ops) then tiny else f2b in
    let ti' := (ti + fb)%num in
    let tsi' := (tsi + f2b)%num in
    let* d2 := (if v_mds s <? 0 then d_add d1 ias f2b else Ok d1) in
    let '(kg_rev', done') := kg_advance (rev kgs) (v_ng s) in
    Ok (done', rev kg_rev', ti', tsi', d2, pos').

Definition vegas_cells (f : list T -> T) (s : vstate) (rows : list (list T)) (region : list T) (d : list (list T)) (pos : Z)
  : res (T * T * list (list T) * Z) :=
  let nd_ := rdim region in
  let* st := N.iter (Z.to_N (zpow (v_ng s) nd_)) (vegas_cells_step f s rows region)
                    (Ok (false, repeat 1 nd_, n0 Ops, n0 Ops, d, pos)) in
  let '(done, _, ti, tsi, d', pos') := st in
  if done then Ok (ti, tsi, d', pos') else Fuel.

(** smoothing of d along one dimension and its sum dt (Integration.cpp 497-513) *)
Fixpoint smooth_rest (xo xn : T) (rest : list T) (dt : T) : list T * T :=
  match rest with
  | [] => let last := ((xo + xn) / #2)%num in ([last], (dt + last)%num)
  | di :: rest' =>
      let rc := (xo + xn)%num in
      let v := ((rc + di) / #3)%num in
      let '(l, dt') := smooth_rest xn di rest' (dt + v)%num in (v :: l, dt')
  end.
Definition smooth_col (col : list T) : res (list T * T) :=
  match col with
  | d0 :: d1 :: rest =>
      let first := ((d0 + d1) / #2)%num in
      let '(l, dt) := smooth_rest d0 d1 rest first in Ok (first :: l, dt)
  | _ => OOB
  end.

(** <<  if(dt[j] <= 0.0) continue;
        rc = 0.0;
        for(i = 0; i < nd; i++)
        { if(d[i][j] < TINY) d[i][j] = TINY;
          r[i] = pow((1.0 - d[i][j] / dt[j]) / (log(dt[j]) - log(d[i][j])), ALPH);  rc += r[i]; }
        Rebin(rc / xnd, nd, r, xin, xi, j);  >> *)
Fixpoint refine_r (col : list T) (dt rc : T) : list T * T :=
  match col with
  | [] => ([], rc)
  | di :: col' =>
      let di := if nltb Ops di tiny then tiny else di in
      let ri := npow Ops ((#1 - di / dt) / (nln Ops dt - nln Ops di))%num ALPH in
      let '(r, rc') := refine_r col' dt (rc + ri)%num in (ri :: r, rc')
  end.

Fixpoint vegas_refine (s : vstate) (d rows : list (list T)) : res (list (list T)) :=
  match d, rows with
  | col :: d', row :: rows' =>
      let* sm := smooth_col col in
      let '(col', dt) := sm in
      (* if(dt[j] <= 0.0) continue;   -- no signal along this axis: its grid is kept *)
      let* row' :=
        (if nleb Ops dt (n0 Ops) then Ok row
         else
           let '(r, rc) := refine_r col' dt (n0 Ops) in
           rebin (rc / v_xnd s)%num (v_nd s) r row) in
      let* rest := vegas_refine s d' rows' in
      Ok (row' :: rest)
  | _, _ => Ok []
  end.

(** The part of the statics in use by a call on [region]: the scalars, dx[0..ndim) and the first nd entries of
    the first ndim rows of the grid.  The iterations run on this part ([vegas_live]); [vegas_merge] writes it back
    over the full-size statics (entries outside the part in use keep their old values, as in the C++). *)
Definition vegas_live (region : list T) (s : vstate) : vstate :=
  let nd_ := rdim region in
  mkV (v_mds s) (v_ndo s) (v_nd s) (v_ng s) (v_npg s) (v_calls s) (v_dv2g s) (v_dxg s) (v_xnd s) (v_xjac s)
      (v_si s) (v_swgt s) (v_schi s) (firstn nd_ (v_dx s)) (map (firstn (Z.to_nat (v_nd s))) (firstn nd_ (v_xi s))).
Definition vegas_merge (region : list T) (full live : vstate) : vstate :=
  let nd_ := rdim region in
  let ndn := Z.to_nat (v_nd live) in
  mkV (v_mds live) (v_ndo live) (v_nd live) (v_ng live) (v_npg live) (v_calls live) (v_dv2g live) (v_dxg live) (v_xnd live) (v_xjac live)
      (v_si live) (v_swgt live) (v_schi live) (v_dx live ++ skipn nd_ (v_dx full))
      (map (fun p => fst p ++ skipn ndn (snd p)) (combine (v_xi live) (firstn nd_ (v_xi full))) ++ skipn nd_ (v_xi full)).

(** the iterations  for(it = 0; it < itmx; it++)  (Integration.cpp 392-528) on the part in use;
    result: integral, state, position *)
Fixpoint vegas_iterations (itmx : nat) (f : list T -> T) (s : vstate) (region : list T) (integral : T) (pos : Z)
  : res (T * vstate * Z) :=
  match itmx with
  | O => Ok (integral, s, pos)
  | S it' =>
      let nd_ := rdim region in
      let ndn := Z.to_nat (v_nd s) in
      let rows := v_xi s in
      let d0 := repeat (repeat (n0 Ops) ndn) nd_ in
      let* cs := vegas_cells f s rows region d0 pos in
      let '(ti, tsi, d, pos') := cs in
      let tsi := (tsi * v_dv2g s)%num in
      let wgt := (#1 / tsi)%num in
      let si := (v_si s + wgt * ti)%num in
      let schi := (v_schi s + wgt * ti * ti)%num in
      let swgt := (v_swgt s + wgt)%num in
      let integral' := (si / swgt)%num in
      if nisnan Ops integral' then Exit
      else
        let* rows' := vegas_refine s d rows in
        let s' := mkV (v_mds s) (v_ndo s) (v_nd s) (v_ng s) (v_npg s) (v_calls s) (v_dv2g s) (v_dxg s) (v_xnd s) (v_xjac s)
                      si swgt schi (v_dx s) rows' in
        vegas_iterations it' f s' region integral' pos'
  end.

Definition vegas (s : vstate) (f : list T -> T) (region : list T) (init ncall : Z) (itmx : nat) : res (T * vstate) :=
  let* s1 := vegas_init s region init ncall in
  let* r := vegas_iterations itmx f (vegas_live region s1) region (n0 Ops) 0 in
  let '(integral, s2, _) := r in
  Ok (integral, vegas_merge region s1 s2).

(** ** Integrate_MC(func, region, ncalls, method): "Monte-Carlo", "Vegas" (init = 0, itmx = 5, nprn = -1), "Miser";
    any other name terminates.  The Vegas statics are the only state that survives the call. *)
Definition integrate_mc (s : vstate) (m : method) (f : list T -> T) (region : list T) (ncalls : Z) : res (T * vstate) :=
  match m with
  | M_MonteCarlo => Ok (brute_force f region ncalls, s)
  | M_Vegas => vegas s f region 0 ncalls 5
  | M_Miser => let* r := integrate_miser f region ncalls in Ok (r, s)
  | _ => Exit
  end.

(** ** An integration that its integrand brings to an end early: from its [n]-th evaluation (n >= 1) the integrand throws a C++
    exception, which leaves Integrate_MC_... and Integrate_MC (no handler on the way) and is caught by the caller.  Nothing is
    returned; what the call leaves behind is the statics as written up to that evaluation.  ([n <= 0]: the integrand never throws.)

    Plain Monte Carlo and Miser evaluate the integrand exactly ncalls times and own no statics: they are brought to an end iff
    1 <= n <= ncalls, and leave nothing behind.

    Vegas: after the initialisation blocks every iteration makes  npg * ng^ndim  evaluations (npg per cell of the stratification); the
    n-th evaluation falls into iteration number (n - 1) / (npg * ng^ndim) (counted from 0).  The iterations before that one have run
    to their end (accumulation into si, swgt, schi and the refinement of the grid included); of the one under way only statics that
    every call writes before it reads them have been touched (ti, tsi, fb, f2b, the counters kg, the bins ia, the point x, d, di):
    the model does not carry those.  Result: [None] and the statics when the call was brought to an end, [Some] value and the statics
    when it made fewer than n evaluations and so ran to its end. *)
Definition vegas_throwing (s : vstate) (f : list T -> T) (region : list T) (init ncall : Z) (itmx : nat) (n : Z) : res (option T * vstate) :=
  let* s1 := vegas_init s region init ncall in
  let per_iteration := (v_npg s1 * zpow (v_ng s1) (rdim region))%Z in
  let completed := Z.quot (n - 1) per_iteration in
  if (n <=? 0) || (Z.of_nat itmx <=? completed) then
    let* r := vegas_iterations itmx f (vegas_live region s1) region (n0 Ops) 0 in
    let '(integral, s2, _) := r in
    Ok (Some integral, vegas_merge region s1 s2)
  else
    let* r := vegas_iterations (Z.to_nat completed) f (vegas_live region s1) region (n0 Ops) 0 in
    let '(_, s2, _) := r in
    Ok (None, vegas_merge region s1 s2).

Definition integrate_mc_throwing (s : vstate) (m : method) (f : list T -> T) (region : list T) (ncalls n : Z) : res (option T * vstate) :=
  match m with
  | M_MonteCarlo => if (1 <=? n) && (n <=? ncalls) then Ok (None, s) else Ok (Some (brute_force f region ncalls), s)
  | M_Vegas => vegas_throwing s f region 0 ncalls 5 n
  | M_Miser => if (1 <=? n) && (n <=? ncalls) then Ok (None, s) else let* r := integrate_miser f region ncalls in Ok (Some r, s)
  | _ => Exit
  end.

(** ** A call history: the calls of Integrate_MC made one after the other in one process, each with its own generator (seed), some
    of them brought to an end early.  [hcall]: the stream of the call, method, integrand, region, budget, n as above. *)
Record hcall := mkH { h_us : Z -> T; h_m : method; h_f : list T -> T; h_region : list T; h_ncalls : Z; h_n : Z }.

(** ** Sample_Uniform(PRNG, x_min, x_max) of the Statistics facility, on which all three integrators are built (they call it with the default
    limits 0, 1):
<<
	std::uniform_real_distribution<double> dis(x_min, x_max);
	return dis(PRNG);
>>
    libstdc++: operator() returns  generate_canonical(PRNG) * (b - a) + a.  The distribution object is a local of the call: nothing survives it. *)
Definition sample_uniform (pos : Z) (a b : T) : T := (us pos * (b - a) + a)%num.
(** successive draws from one generator, each with limits of its own (an isotropic direction: (0, 2 pi) then (-1, 1); rejection sampling: (xMin, xMax) then (0, yMax)) *)
Fixpoint sample_uniforms (ranges : list (T * T)) (pos : Z) : list T :=
  match ranges with
  | [] => []
  | (a, b) :: rest => sample_uniform pos a b :: sample_uniforms rest (pos + 1)
  end.

(** What happens in a process before the observed call: calls of Integrate_MC, and uses of the sampling facility the integrators draw from
    ([e_us]: the stream of the caller's generator, [e_ranges]: the limits of the successive draws). *)
Inductive hevent := E_call (c : hcall) | E_draws (e_us : Z -> T) (e_ranges : list (T * T)).
End Model.

Section History.
Context {T : Type} (Ops : NumOps T).
(** the statics after the history (calls that end the process end the history: the outcome is then not [Ok]) *)
Fixpoint run_history (s : @vstate T) (h : list (@hcall T)) : res (@vstate T) :=
  match h with
  | [] => Ok s
  | c :: h' =>
      let* r := integrate_mc_throwing Ops (h_us c) s (h_m c) (h_f c) (h_region c) (h_ncalls c) (h_n c) in
      run_history (snd r) h'
  end.

(** one event: the statics it leaves behind and the numbers it hands to its caller (the draws; nothing for an integration, whose value is not needed here) *)
Definition run_event (s : @vstate T) (e : @hevent T) : res (@vstate T * list T) :=
  match e with
  | E_call c =>
      let* r := integrate_mc_throwing Ops (h_us c) s (h_m c) (h_f c) (h_region c) (h_ncalls c) (h_n c) in
      Ok (snd r, [])
  | E_draws dus ranges => Ok (s, sample_uniforms Ops dus ranges 0)
  end.
Fixpoint run_events (s : @vstate T) (h : list (@hevent T)) : res (@vstate T) :=
  match h with
  | [] => Ok s
  | e :: h' => let* r := run_event s e in run_events (fst r) h'
  end.
End History.
