(** * C10 proofs, part 3: the block-matrix constructor Matrix(std::vector<std::vector<Matrix>>) *)
From Coq Require Import ZArith String List Bool Lia.
From LP Require Import Num C10_Model C10_Proofs C10_Proofs_Num.
Import ListNotations.
Local Open Scope Z_scope.

Definition allb (lo : Z) (n : nat) (t : Z -> bool) : bool := forallb t (map (fun k => lo + Z.of_nat k) (seq 0 n)).
Lemma allb_S lo n t : allb lo (S n) t = t lo && allb (lo + 1) n t.
Proof.
  unfold allb. cbn [seq map forallb]. rewrite Z.add_0_r. f_equal.
  rewrite <- seq_shift, map_map. f_equal. apply map_ext. intros k. lia.
Qed.
Lemma allb_spec lo n t : allb lo n t = true <-> forall i, lo <= i < lo + Z.of_nat n -> t i = true.
Proof.
  revert lo; induction n as [|n IH]; intros lo.
  - split; [intros _ i Hi; lia|reflexivity].
  - rewrite allb_S, andb_true_iff, IH. split.
    + intros [A B] i Hi. destruct (Z.eq_dec i lo) as [->|]; [assumption|apply B; lia].
    + intros H; split; [apply H; lia|intros i Hi; apply H; lia].
Qed.
Lemma forb__exact fuel lo acc body t :
  (forall i a, lo <= i < lo + Z.of_nat fuel -> body i a = Ok (a && t i)) ->
  forb_ fuel lo acc body = Ok (acc && allb lo fuel t).
Proof.
  revert lo acc; induction fuel as [|f IH]; intros lo acc H.
  - cbn. now rewrite andb_true_r.
  - cbn [forb_]. rewrite H by lia. cbn [rbind]. rewrite IH by (intros; apply H; lia).
    rewrite allb_S, andb_assoc. reflexivity.
Qed.
Lemma forb__false fuel lo body : (forall i, lo <= i < lo + Z.of_nat fuel -> body i false = Ok false) -> forb_ fuel lo false body = Ok false.
Proof.
  revert lo; induction fuel as [|f IH]; intros lo H; [reflexivity|].
  cbn [forb_]. rewrite H by lia. cbn [rbind]. apply IH. intros; apply H; lia.
Qed.
Lemma collect__ok fuel lo (f : Z -> res Z) (g : Z -> Z) :
  (forall i, lo <= i < lo + Z.of_nat fuel -> f i = Ok (g i)) ->
  collect_ fuel lo f = Ok (map (fun k => g (lo + Z.of_nat k)) (seq 0 fuel)).
Proof.
  revert lo; induction fuel as [|n IH]; intros lo H; [reflexivity|].
  cbn [collect_]. rewrite H by lia. cbn [rbind]. rewrite IH by (intros; apply H; lia). cbn [rbind seq map].
  rewrite Z.add_0_r. do 2 f_equal. rewrite <- seq_shift, map_map. apply map_ext. intros k. f_equal. lia.
Qed.
Lemma zsum_firstn_nth l r : (forall x, In x l -> 0 <= x) -> (r < length l)%nat ->
  0 <= zsum (firstn r l) /\ zsum (firstn r l) + nth r l 0 <= zsum l.
Proof.
  revert r; induction l as [|a l IH]; intros r Hp Hr; [cbn in Hr; lia|].
  assert (0 <= a) by (apply Hp; left; reflexivity).
  assert (Hp' : forall x, In x l -> 0 <= x) by (intros; apply Hp; right; assumption).
  destruct r as [|r]; cbn [firstn zsum nth].
  - pose proof (zsum_nonneg l Hp'). lia.
  - cbn [length] in Hr. destruct (IH r Hp' ltac:(lia)). lia.
Qed.

Section Block.
Variable b : list (list (Z * Z)).
Let R := zlen b.
Definition brow (r : Z) : list (Z * Z) := nth (Z.to_nat r) b [].
Let C := zlen (brow 0).
Definition B (r c : Z) : Z * Z := nth (Z.to_nat c) (brow r) (0, 0).

Definition block_rect : Prop := 1 <= R /\ 1 <= C /\ forall r, 0 <= r < R -> zlen (brow r) = C.
Definition block_consistent : Prop :=
  forall r c, 0 <= r < R -> 0 <= c < C ->
    (1 <= r -> snd (B r c) = snd (B (r - 1) c)) /\ (1 <= c -> fst (B r c) = fst (B r (c - 1))).
Definition block_nonneg : Prop := forall r c, 0 <= r < R -> 0 <= c < C -> 0 <= fst (B r c) /\ 0 <= snd (B r c).

Lemma blk_ok r c : 0 <= r < R -> 0 <= c < zlen (brow r) -> blk b r c = Ok (B r c).
Proof.
  intros Hr Hc. unfold blk. rewrite (getZ_nth b r []) by (fold R; lia). cbn [rbind]. fold (brow r).
  now rewrite (getZ_nth (brow r) c (0, 0)) by lia.
Qed.

Definition tcol (row col : Z) : bool :=
  ((row =? 0) || (snd (B row col) =? snd (B (row - 1) col))) && ((col =? 0) || (fst (B row col) =? fst (B row (col - 1)))).
Definition trow (row : Z) : bool := allb 0 (Z.to_nat C) (tcol row).

Lemma rect_dec : block_rect \/ ~ block_rect.
Proof.
  unfold block_rect. destruct (Z.le_gt_cases 1 R); [|right; lia]. destruct (Z.le_gt_cases 1 C); [|right; lia].
  destruct (bounded_forall_dec (fun r => zlen (brow r) = C) 0 R) as [A|A]; [intros i _; destruct (Z.eq_dec (zlen (brow i)) C); tauto|left; auto|right; tauto].
Qed.

(** the value of the validity flag *)
Lemma block_valid_value :
  exists v, block_valid b = Ok v /\ (v = true <-> block_rect /\ forall r, 0 <= r < R -> trow r = true).
Proof.
  unfold block_valid. fold R.
  destruct (Z.eqb_spec R 0) as [R0|R0]; cbn [rbind].
  { rewrite R0. cbn. exists false. split; [reflexivity|]. split; [discriminate|]. intros [(? & _) _]. lia. }
  assert (HR : 1 <= R) by (unfold R, zlen in *; lia).
  rewrite (getZ_nth b 0 []) by (fold R; lia). cbn [rbind]. change (nth (Z.to_nat 0) b []) with (brow 0). fold C.
  (* second loop: every row holds C blocks *)
  unfold forb_range.
  rewrite (forb__exact _ 0 _ _ (fun row => zlen (brow row) =? C)).
  2:{ intros i a Hi. destruct a; [|reflexivity]. rewrite (getZ_nth b i []) by (fold R; lia). cbn [rbind].
      try (rewrite (getZ_nth b 0 []) by (fold R; lia)). cbn [rbind]. reflexivity. }
  cbn [rbind]. set (v1 := negb (C =? 0) && allb 0 (Z.to_nat (R - 0)) (fun row => zlen (brow row) =? C)).
  assert (Hv1 : v1 = true <-> block_rect).
  { unfold v1, block_rect. rewrite andb_true_iff, allb_spec, negb_true_iff, Z.eqb_neq. split.
    - intros [A Bq]. repeat split; try lia. { unfold C, zlen in *; lia. } intros r Hr. apply Z.eqb_eq, Bq. lia.
    - intros (_ & A & Bq). split; [lia|]. intros i Hi. apply Z.eqb_eq, Bq. lia. }
  destruct v1 eqn:Ev1.
  - assert (Hrect : block_rect) by (now apply Hv1). destruct Hrect as (_ & HC & Hrows).
    rewrite (forb__exact _ 0 _ _ trow).
    2:{ intros row a Hrow. destruct a; [|reflexivity]. rewrite (getZ_nth b row []) by (fold R; lia). cbn [rbind]. fold (brow row).
        rewrite Hrows by lia. unfold trow. replace (Z.to_nat (C - 0)) with (Z.to_nat C) by lia.
        rewrite (forb__exact _ 0 true _ (tcol row)); [reflexivity|].
        intros col a Hcol. rewrite blk_ok by (rewrite ?Hrows; lia). cbn [rbind]. unfold tcol.
        destruct (Z.eqb_spec row 0) as [E0|E0]; cbn [negb orb].
        - destruct (Z.eqb_spec col 0) as [F0|F0]; cbn [negb orb rbind].
          + now rewrite andb_true_r.
          + rewrite blk_ok by (rewrite ?Hrows; lia). cbn [rbind].
            destruct (fst (B row col) =? fst (B row (col - 1))); cbn; [now rewrite andb_true_r|now rewrite andb_false_r].
        - rewrite blk_ok by (rewrite ?Hrows; lia). cbn [rbind].
          destruct (Z.eqb_spec col 0) as [F0|F0]; cbn [negb orb rbind].
          + destruct (snd (B row col) =? snd (B (row - 1) col)); cbn; [now rewrite andb_true_r|now rewrite andb_false_r].
          + rewrite blk_ok by (rewrite ?Hrows; lia). cbn [rbind].
            destruct (snd (B row col) =? snd (B (row - 1) col)), (fst (B row col) =? fst (B row (col - 1))); cbn; rewrite ?andb_true_r, ?andb_false_r; reflexivity. }
    eexists; split; [reflexivity|]. cbn [andb]. rewrite allb_spec. split.
    + intros A; split; [now apply Hv1|]. intros r Hr. apply A. lia.
    + intros [_ A] i Hi. apply A. lia.
  - rewrite forb__false by (intros; reflexivity).
    exists false; split; [reflexivity|]. split; [discriminate|]. intros [A _]. apply Hv1 in A. discriminate.
Qed.

Lemma trow_consistent : block_rect -> ((forall r, 0 <= r < R -> trow r = true) <-> block_consistent).
Proof.
  intros (HR & HC & Hrows). unfold block_consistent, trow. split.
  - intros H r c Hr Hc. specialize (H r Hr). rewrite allb_spec in H. specialize (H c ltac:(lia)).
    unfold tcol in H. apply andb_true_iff in H. destruct H as [H1 H2]. split; intros Hge.
    + destruct (Z.eqb_spec r 0); [lia|]. cbn in H1. now apply Z.eqb_eq.
    + destruct (Z.eqb_spec c 0); [lia|]. cbn in H2. now apply Z.eqb_eq.
  - intros H r Hr. rewrite allb_spec. intros c Hc. destruct (H r c Hr ltac:(lia)) as [H1 H2]. unfold tcol.
    apply andb_true_iff; split.
    + destruct (Z.eqb_spec r 0); [reflexivity|]. cbn. apply Z.eqb_eq, H1. lia.
    + destruct (Z.eqb_spec c 0); [reflexivity|]. cbn. apply Z.eqb_eq, H2. lia.
Qed.
Lemma consistent_dec : block_rect -> block_consistent \/ ~ block_consistent.
Proof.
  intros Hrect. pose proof (trow_consistent Hrect) as E.
  destruct (bounded_forall_dec (fun r => trow r = true) 0 R) as [A|A].
  - intros i _. destruct (trow i); [left; reflexivity|right; discriminate].
  - left. now apply E.
  - right. intros Hc. apply A. now apply E.
Qed.

(** consequences of consistency: all blocks of a block-row have the height of its first block, all blocks of a
    block-column the width of the block in the first row *)
Lemma consistent_rows : block_consistent -> forall r c, 0 <= r < R -> 0 <= c < C -> fst (B r c) = fst (B r 0).
Proof.
  intros Hc r c Hr Hcc. replace c with (Z.of_nat (Z.to_nat c)) in * by lia. induction (Z.to_nat c) as [|n IH]; [reflexivity|].
  destruct (Hc r (Z.of_nat (S n)) Hr Hcc) as [_ H2]. rewrite H2 by lia. replace (Z.of_nat (S n) - 1) with (Z.of_nat n) by lia. apply IH. lia.
Qed.
Lemma consistent_cols : block_consistent -> forall r c, 0 <= r < R -> 0 <= c < C -> snd (B r c) = snd (B 0 c).
Proof.
  intros Hc r c Hr Hcc. replace r with (Z.of_nat (Z.to_nat r)) in * by lia. induction (Z.to_nat r) as [|n IH]; [reflexivity|].
  destruct (Hc (Z.of_nat (S n)) c Hr Hcc) as [H1 _]. rewrite H1 by lia. replace (Z.of_nat (S n) - 1) with (Z.of_nat n) by lia. apply IH. lia.
Qed.

(** The block constructor: exits unless the blocks form a non-empty rectangular grid with consistent dimensions;
    then every element is written inside the rows x columns result. *)
Theorem block_spec : block_nonneg -> decides (guard_block b) (block_rect /\ block_consistent).
Proof.
  intros Hnn. unfold guard_block. destruct block_valid_value as (v & Ev & Hv). rewrite Ev. cbn [rbind].
  destruct v; cbn [negb].
  2:{ split; [|reflexivity]. intros [Hr Hc]. assert (false = true); [|discriminate]. apply Hv. split; [assumption|]. now apply trow_consistent. }
  assert (Hrect : block_rect) by (apply Hv; reflexivity).
  assert (Hcons : block_consistent) by (apply trow_consistent; [assumption|]; apply Hv; reflexivity).
  split; [intros _|tauto].
  destruct Hrect as (HR & HC & Hrows).
  rewrite (collect__ok (length b) 0 _ (fun r => fst (B r 0))).
  2:{ intros i Hi. rewrite blk_ok by (rewrite ?Hrows; fold R; unfold R, zlen in *; lia). reflexivity. }
  cbn [rbind]. rewrite (getZ_nth b 0 []) by (fold R; lia). cbn [rbind]. change (nth (Z.to_nat 0) b []) with (brow 0).
  rewrite (collect__ok (length (brow 0)) 0 _ (fun c => snd (B 0 c))).
  2:{ intros i Hi. rewrite blk_ok by (rewrite ?Hrows; fold R C; unfold C, zlen in *; lia). reflexivity. }
  cbn [rbind].
  set (brs := map (fun k => fst (B (0 + Z.of_nat k) 0)) (seq 0 (length b))).
  set (bcs := map (fun k => snd (B 0 (0 + Z.of_nat k))) (seq 0 (length (brow 0)))).
  assert (Lr : length brs = length b) by (unfold brs; now rewrite map_length, seq_length).
  assert (Lc : length bcs = length (brow 0)) by (unfold bcs; now rewrite map_length, seq_length).
  assert (Nr : forall k, (k < length b)%nat -> nth k brs 0 = fst (B (Z.of_nat k) 0)).
  { intros k Hk. unfold brs. rewrite (nth_indep _ 0 (fst (B (0 + Z.of_nat (length b)) 0))) by (rewrite map_length, seq_length; lia).
    rewrite (map_nth (fun k => fst (B (0 + Z.of_nat k) 0)) (seq 0 (length b)) (length b) k), seq_nth by lia. reflexivity. }
  assert (Nc : forall k, (k < length (brow 0))%nat -> nth k bcs 0 = snd (B 0 (Z.of_nat k))).
  { intros k Hk. unfold bcs. rewrite (nth_indep _ 0 (snd (B 0 (0 + Z.of_nat (length (brow 0)))))) by (rewrite map_length, seq_length; lia).
    rewrite (map_nth (fun k => snd (B 0 (0 + Z.of_nat k))) (seq 0 (length (brow 0))) (length (brow 0)) k), seq_nth by lia. reflexivity. }
  assert (Pr : forall x, In x brs -> 0 <= x).
  { intros x Hx. destruct (In_nth _ _ 0 Hx) as (k & Hk & <-). rewrite Nr by lia. apply (Hnn (Z.of_nat k) 0); unfold R, C, zlen in *; lia. }
  assert (Pc : forall x, In x bcs -> 0 <= x).
  { intros x Hx. destruct (In_nth _ _ 0 Hx) as (k & Hk & <-). rewrite Nc by lia. apply (Hnn 0 (Z.of_nat k)); unfold R, C, zlen in *; lia. }
  apply for_range_ok; intros row Hrow. rewrite (getZ_nth b row []) by lia. cbn [rbind]. fold (brow row). fold R in Hrow.
  apply for_range_ok; intros col Hcol. rewrite Hrows in Hcol by lia.
  rewrite !iter_ok by (unfold zlen; rewrite ?Lr, ?Lc; fold R C; unfold R, C, zlen in *; lia). cbn [rbind].
  rewrite blk_ok by (rewrite ?Hrows; lia). cbn [rbind].
  destruct (zsum_firstn_nth brs (Z.to_nat row) Pr ltac:(unfold R, zlen in *; lia)) as [Or Sr].
  destruct (zsum_firstn_nth bcs (Z.to_nat col) Pc ltac:(unfold C, zlen in *; lia)) as [Oc Sc].
  rewrite Nr in Sr by (unfold R, zlen in *; lia). rewrite Nc in Sc by (unfold C, zlen in *; lia).
  rewrite !Z2Nat.id in * by lia.
  pose proof (consistent_rows Hcons row col ltac:(lia) ltac:(lia)) as Er.
  pose proof (consistent_cols Hcons row col ltac:(lia) ltac:(lia)) as Ec.
  apply for_range_ok; intros i Hi. apply for_range_ok; intros j Hj. idx. reflexivity.
Qed.
End Block.
