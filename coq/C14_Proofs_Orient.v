(** * C14 proofs, part 3: regions whose limits descend on some axes, and the spherical front end.
    A region vector {first limits..., second limits...} is oriented: MC_Volume is the product of (second - first), so every axis
    with descending limits flips the sign of the integral, while the sample points stay between the two limits of their axis. *)
From Coq Require Import Reals ZArith NArith Nnat List Lra Lia Bool Psatz FunctionalExtensionality.
From LP Require Import Num NumR C13_Model C14_Model C14_Proofs.
Import ListNotations.
Local Open Scope R_scope.

(** the box spanned by the limits: smaller and larger limit of every axis; the number of axes with descending limits *)
Fixpoint mins (lo hi : list R) : list R :=
  match lo, hi with l :: lo', h :: hi' => Rmin l h :: mins lo' hi' | _, _ => [] end.
Fixpoint maxs (lo hi : list R) : list R :=
  match lo, hi with l :: lo', h :: hi' => Rmax l h :: maxs lo' hi' | _, _ => [] end.
Fixpoint descending (lo hi : list R) : nat :=
  match lo, hi with l :: lo', h :: hi' => ((if Rlt_dec h l then 1 else 0) + descending lo' hi')%nat | _, _ => O end.

Lemma ordered_mins_maxs lo : forall hi, ordered (mins lo hi) (maxs lo hi).
Proof.
  induction lo as [| l lo IH]; intros hi; [exact I |]. destruct hi as [| h hi]; [exact I |].
  cbn. split; [| apply IH]. apply Rle_trans with l; [apply Rmin_l | apply Rmax_l].
Qed.

Lemma volume_box_nonneg lo : forall hi, 0 <= volume (mins lo hi) (maxs lo hi).
Proof.
  induction lo as [| l lo IH]; intros hi; cbn; [lra |]. destruct hi as [| h hi]; cbn; [lra |].
  apply Rmult_le_pos; [| apply IH].
  unfold Rmin, Rmax. destruct (Rle_dec l h); lra.
Qed.

(** MC_Volume of an oriented region: (-1)^(number of descending axes) times the volume of the box *)
Lemma volume_oriented lo : forall hi,
  volume lo hi = (-1) ^ descending lo hi * volume (mins lo hi) (maxs lo hi).
Proof.
  induction lo as [| l lo IH]; intros hi; cbn; [ring |]. destruct hi as [| h hi]; cbn; [ring |].
  rewrite (IH hi). unfold Rmin, Rmax.
  destruct (Rlt_dec h l) as [Hd | Hd]; destruct (Rle_dec l h) as [Ho | Ho]; try lra; cbn [Nat.add pow]; ring.
Qed.

Section Stream.
Variable us : Z -> R.
Hypothesis us_range : forall k, 0 <= us k < 1.

(** Random_Point on an oriented region: every coordinate lies between the two limits of its axis *)
Lemma random_point_aux_between lo : forall hi pos, cbox (mins lo hi) (maxs lo hi) (fst (random_point_aux ROps us lo hi pos)).
Proof.
  induction lo as [| l lo IH]; intros hi pos; [reflexivity |].
  destruct hi as [| h hi]; [reflexivity |]. cbn.
  specialize (IH hi (pos + 1)%Z).
  destruct (random_point_aux ROps us lo hi (pos + 1)) as [pt pos'] eqn:E. cbn in *.
  pose proof (us_range pos) as [U0 U1].
  split; [| exact IH].
  unfold Rmin, Rmax. destruct (Rle_dec l h); split; nra.
Qed.

Lemma random_point_between region pos :
  cbox (mins (lows region) (highs region)) (maxs (lows region) (highs region)) (fst (random_point ROps us region pos)).
Proof. apply random_point_aux_between. Qed.

(** plain Monte Carlo on an oriented region looks at the integrand only between the limits *)
Lemma brute_force_points_between f f' region ncall :
  (forall pt, cbox (mins (lows region) (highs region)) (maxs (lows region) (highs region)) pt -> f pt = f' pt) ->
  brute_force ROps us f region ncall = brute_force ROps us f' region ncall.
Proof.
  intros Hff. unfold brute_force.
  assert (E : brute_force_step ROps us f region (mc_volume ROps region) = brute_force_step ROps us f' region (mc_volume ROps region)).
  { apply functional_extensionality; intros [pos sum]. unfold brute_force_step.
    pose proof (random_point_between region pos) as Hin.
    destruct (random_point ROps us region pos) as [args pos']. cbn in Hin. rewrite (Hff _ Hin). reflexivity. }
  rewrite E. reflexivity.
Qed.

(** ... and integrates a constant to (-1)^(descending axes) * volume of the box * c *)
Lemma brute_force_constant_oriented c region ncall :
  (0 < ncall)%Z ->
  brute_force ROps us (fun _ => c) region ncall
  = (-1) ^ descending (lows region) (highs region) * volume (mins (lows region) (highs region)) (maxs (lows region) (highs region)) * c.
Proof.
  intros Hn. rewrite (brute_force_constant_exact us c region ncall Hn). rewrite volume_oriented. reflexivity.
Qed.

(** Miser likewise (constants of magnitude at most BIG) *)
Lemma integrate_miser_constant_oriented c region ncall :
  length region = (2 * rdim region)%nat -> (15 <= ncall)%Z -> - big ROps <= c <= big ROps ->
  match integrate_miser ROps us (fun _ => c) region ncall with
  | Ok r => r = (-1) ^ descending (lows region) (highs region) * volume (mins (lows region) (highs region)) (maxs (lows region) (highs region)) * c
  | _ => True
  end.
Proof.
  intros Hl Hn Hc. pose proof (integrate_miser_constant_exact us c region ncall Hl Hn Hc) as H.
  destruct (integrate_miser ROps us (fun _ => c) region ncall); try exact I.
  rewrite H. rewrite volume_oriented. reflexivity.
Qed.
End Stream.

(** ** The spherical front end  Integrate_3D(f(Vector), r1, r2, costheta_1, costheta_2, phi_1, phi_2, method, p)  with a Monte-Carlo method:
    the region handed to Integrate_MC is {r1, costheta_1, phi_1, r2, costheta_2, phi_2}, the budget is that of the other front ends, and the
    integrand at (r, c, phi) is r^2 times the user's function of the vector (r sin(acos c) cos phi, r sin(acos c) sin phi, r cos(acos c)). *)
Lemma spherical_front_end (I : backend -> (R -> res R) -> R -> R -> res R) (MC : method -> (list R -> R) -> list R -> Z -> res R)
  (m : method) (F : R -> R -> R -> R) (r1 r2 c1 c2 phi1 phi2 : R) (p : Z) :
  is_mc_method m = true ->
  integrate_3d_spherical ROps I MC m F r1 r2 c1 c2 phi1 phi2 p
  = MC m (fun args => let r := nth0 ROps args 0 in let c := nth0 ROps args 1 in let phi := nth0 ROps args 2 in
                      r * r * F (r * sin (acos c) * cos phi) (r * sin (acos c) * sin phi) (r * cos (acos c)))
       [r1; c1; phi1; r2; c2; phi2] (if (p =? 0)%Z then 30000%Z else p).
Proof.
  intros Hm. unfold integrate_3d_spherical, integrate_3d.
  destruct m; try discriminate Hm; reflexivity.
Qed.

(** non-vacuity: a region with two descending axes *)
Example oriented_region_example :
  let region := [2; 5; 0; 1; 3; 4] in
  descending (lows region) (highs region) = 2%nat /\ mins (lows region) (highs region) = [1; 3; 0] /\ maxs (lows region) (highs region) = [2; 5; 4] /\
  volume (lows region) (highs region) = 8.
Proof.
  cbn. unfold Rmin, Rmax.
  repeat (destruct (Rlt_dec _ _); try lra); repeat (destruct (Rle_dec _ _); try lra).
  repeat split; ring.
Qed.
