(** * C02 model: Find_Root (Ridder's method), src/Numerics.cpp section 2, with Sign(double) and
    Sign(double,double) of src/Special_Functions.cpp ([sign1], [sign2] in Num.v).
    Hand-written, line by line; tied to the code by the differential correspondence check
    (harness/C02.cpp vs the extraction of this file).  The objective function is a plain function
    argument; the list of abscissae at which it is called, in call order, is part of the result. *)
From Coq Require Import ZArith List Bool.
From LP Require Import Num.
Import ListNotations.

(** how a returned number was reached (not observable in C++ except [HMaxIter], which prints a warning) *)
Inductive how := HEndZero | HF4Zero | HBracket | HMaxIter.

Section Model.
Context {T : Type} (Ops : NumOps T).
Declare Scope num_scope.
Local Notation "x + y" := (nadd Ops x y) : num_scope.
Local Notation "x - y" := (nsub Ops x y) : num_scope.
Local Notation "x * y" := (nmul Ops x y) : num_scope.
Local Notation "x / y" := (ndiv Ops x y) : num_scope.
Local Open Scope num_scope.

(** loop state: double x1, x2, f1, f2, result *)
Record st := mkst { sx1 : T; sx2 : T; sf1 : T; sf2 : T; sres : T }.

(** One pass through the body of [for(int i = 0; i < Max_Iterations; i++)]:
<<
	double x3 = 0.5 * x1 + 0.5 * x2;      // halved first: the sum of two huge ends of one sign may exceed the largest double
	double f3 = func(x3);
	double scale = std::max(fabs(f3), std::max(fabs(f1), fabs(f2)));   // only the ratios of f1, f2, f3 enter
	double g1 = f1 / scale;  double g2 = f2 / scale;  double g3 = f3 / scale;
	double x4 = x3 + (x3 - x1) * Sign(g1 - g2) * g3 / sqrt(g3 * g3 - g1 * g2);
	if(std::isnan(x4)) x4 = x3;                                          // infinite function values: bisect
	x4 = std::max(std::min(x1, x2), std::min(std::max(x1, x2), x4));   // rounding may push x4 past an end
	result	  = x4;
	double f4 = func(x4);
	if(f4 == 0.0) return result;
	if(Sign(f3, f4) != f3)      { x1 = x3; f1 = f3; x2 = x4; f2 = f4; }
	else if(Sign(f1, f4) != f1) { x2 = x4; f2 = f4; }
	else if(Sign(f2, f4) != f2) { x1 = x4; f1 = f4; }
	else { std::cerr << "... Ridder's method does not reach the root."; std::exit(EXIT_FAILURE); }
	if(fabs(x2 - x1) < xAccuracy) return result;
>>
    [inl o] = the function returns / exits with outcome [o]; [inr s'] = next iteration with state [s'].
    Second component: the abscissae evaluated in this pass. *)
Definition step (f : T -> T) (acc : T) (s : st) : (res (T * how) + st) * list T :=
  let x1 := sx1 s in let x2 := sx2 s in let f1 := sf1 s in let f2 := sf2 s in
  let x3 := ndec Ops 1 2 * x1 + ndec Ops 1 2 * x2 in
  let f3 := f x3 in
  let sc := nmax Ops (nabs Ops f3) (nmax Ops (nabs Ops f1) (nabs Ops f2)) in
  let g1 := f1 / sc in let g2 := f2 / sc in let g3 := f3 / sc in
  let x4s := x3 + (x3 - x1) * nofZ Ops (sign1 Ops (g1 - g2)) * g3 / nsqrt Ops (g3 * g3 - g1 * g2) in
  let x4r := if nisnan Ops x4s then x3 else x4s in
  let x4 := nmax Ops (nmin Ops x1 x2) (nmin Ops (nmax Ops x1 x2) x4r) in
  let f4 := f x4 in
  if neqb Ops f4 (n0 Ops) then (inl (Ok (x4, HF4Zero)), [x3; x4])
  else
    let next (s' : st) : (res (T * how) + st) * list T :=
      if nltb Ops (nabs Ops (sx2 s' - sx1 s')) acc then (inl (Ok (x4, HBracket)), [x3; x4])
      else (inr s', [x3; x4]) in
    if nneb Ops (sign2 Ops f3 f4) f3 then next (mkst x3 x4 f3 f4 x4)
    else if nneb Ops (sign2 Ops f1 f4) f1 then next (mkst x1 x4 f1 f4 x4)
    else if nneb Ops (sign2 Ops f2 f4) f2 then next (mkst x4 x2 f4 f2 x4)
    else (inl Exit, [x3; x4]).

(** the loop with the literal bound Max_Iterations as fuel; after the last pass:
<<
	std::cout << "Warning ... Iterations exceed the maximum. Final value f(" << result << ")=" << func(result) << std::endl;
	return result;
>>
    (one more evaluation of func, at [result]) *)
Fixpoint loop (f : T -> T) (acc : T) (fuel : nat) (s : st) : res (T * how) * list T :=
  match fuel with
  | O => (Ok (sres s, HMaxIter), [sres s])
  | S n =>
      match step f acc s with
      | (inl o, tr) => (o, tr)
      | (inr s', tr) => let '(o, tr') := loop f acc n s' in (o, tr ++ tr')
      end
  end.

(** const int Max_Iterations = 2200; *)
Definition max_iterations : nat := Z.to_nat 2200.

(** double Find_Root(func, xLeft, xRight, xAccuracy)
<<
	if(xLeft > xRight) { swap }
	double fLeft = func(xLeft);  double fRight = func(xRight);
	if(std::isnan(fLeft) || std::isnan(fRight)) { ...; std::exit(EXIT_FAILURE); }
	else if(Sign(fLeft) * Sign(fRight) >= 0)
	{	if(fLeft == 0) return xLeft; else if(fRight == 0) return xRight; else { ...; std::exit(EXIT_FAILURE); } }
	else { x1 = xLeft; x2 = xRight; f1 = fLeft; f2 = fRight; result = -9.9e99; for(...) ... }
>> *)
Definition find_root_h (f : T -> T) (xLeft xRight acc : T) : res (T * how) * list T :=
  let swap := ngtb Ops xLeft xRight in
  let xl := if swap then xRight else xLeft in
  let xr := if swap then xLeft else xRight in
  let fl := f xl in
  let fr := f xr in
  if nisnan Ops fl || nisnan Ops fr then (Exit, [xl; xr])
  else if (sign1 Ops fl * sign1 Ops fr >=? 0)%Z then
    if neqb Ops fl (nofZ Ops 0) then (Ok (xl, HEndZero), [xl; xr])
    else if neqb Ops fr (nofZ Ops 0) then (Ok (xr, HEndZero), [xl; xr])
    else (Exit, [xl; xr])
  else
    let '(o, tr) := loop f acc max_iterations
                      (mkst xl xr fl fr (nneg Ops (nlit Ops (99 * 10 ^ 98) 1 5096082013573349 280))) in
    (o, xl :: xr :: tr).

(** the returned number (or Exit) and the evaluation trace *)
Definition find_root (f : T -> T) (xLeft xRight acc : T) : res T * list T :=
  let '(o, tr) := find_root_h f xLeft xRight acc in (rmap fst o, tr).

(** Several requests served one after the other by one process (case op [seq]).  Find_Root keeps nothing between
    calls (no statics, no globals: its only locals are those of the listing above), so a history is served by
    serving each request on its own; std::exit in one call ends the process, and with it the history. *)
Fixpoint find_root_seq (reqs : list ((T -> T) * T * T * T)) : list (res (T * how) * list T) :=
  match reqs with
  | [] => []
  | (f, a, b, acc) :: rest =>
      let o := find_root_h f a b acc in
      match fst o with
      | Ok _ => o :: find_root_seq rest
      | _ => [o]
      end
  end.
End Model.
