(** * C01 proofs: the data-table constructor of Interpolation_2D (rows x, y, f) builds the same object as the
    grid constructor when the rows list a rectangular grid with strictly increasing axes in x-major order. *)
From Coq Require Import Reals ZArith List Bool Lia Lra Sorted PeanoNat.
From LP Require Import Num NumR C01_Model C01_Proofs.
Import ListNotations.
Local Open Scope R_scope.

(** ** sort + unique return the strictly increasing list of the distinct elements *)
Lemma insert_sorted_In a b l : In b (insert_sorted ROps a l) <-> b = a \/ In b l.
Proof.
  induction l as [|c r IH]; cbn.
  - split; intros [H|H]; auto; try easy.
  - destruct (Rltb c a); cbn; rewrite ?IH; intuition.
Qed.

Lemma insert_sorted_sorted a l : StronglySorted Rle l -> StronglySorted Rle (insert_sorted ROps a l).
Proof.
  induction l as [|c r IH]; intros H; cbn.
  - constructor; [constructor|constructor].
  - inversion H as [|? ? Hr Hc]; subst. destruct (Rltb_spec c a) as [Hlt|Hge].
    + constructor; [now apply IH|]. apply Forall_forall. intros b Hb. apply insert_sorted_In in Hb.
      destruct Hb as [->|Hb]; [lra|]. rewrite Forall_forall in Hc. now apply Hc.
    + constructor; [assumption|]. constructor; [lra|]. rewrite Forall_forall in *. intros b Hb. specialize (Hc b Hb). lra.
Qed.

Lemma sort_list_In b l : In b (sort_list ROps l) <-> In b l.
Proof.
  induction l as [|a r IH]; cbn; [tauto|]. rewrite insert_sorted_In, IH. intuition.
Qed.
Lemma sort_list_sorted l : StronglySorted Rle (sort_list ROps l).
Proof. induction l as [|a r IH]; cbn; [constructor|now apply insert_sorted_sorted]. Qed.

Lemma unique_from_spec l : StronglySorted Rle l -> forall a, Forall (Rle a) l ->
  StronglySorted Rlt (unique_from ROps a l) /\ Forall (Rlt a) (unique_from ROps a l) /\
  (forall b, In b (a :: unique_from ROps a l) <-> In b (a :: l)).
Proof.
  induction l as [|c r IH]; intros Hs a Ha; cbn [unique_from].
  - split; [constructor|split; [constructor|tauto]].
  - inversion Hs as [|? ? Hr Hc]; subst. inversion Ha as [|? ? Hac Har]; subst.
    cbn [neqb ROps]. destruct (Reqb_spec a c) as [->|Hne].
    + destruct (IH Hr c Hc) as (S1 & S2 & S3). repeat split; auto.
      * intros Hb. apply S3 in Hb. cbn in *. tauto.
      * intros Hb. apply S3. cbn in *. tauto.
    + destruct (IH Hr c Hc) as (S1 & S2 & S3). repeat split.
      * constructor; assumption.
      * constructor; [lra|]. rewrite Forall_forall in *. intros b Hb. specialize (S2 b Hb). lra.
      * intros [->|Hb]; [now left|]. right. apply S3. exact Hb.
      * intros [->|Hb]; [now left|]. right. apply S3. exact Hb.
Qed.

Lemma unique_list_spec l : StronglySorted Rle l ->
  StronglySorted Rlt (unique_list ROps l) /\ forall b, In b (unique_list ROps l) <-> In b l.
Proof.
  destruct l as [|a r]; intros Hs; cbn [unique_list]; [split; [constructor|tauto]|].
  inversion Hs as [|? ? Hr Ha]; subst. destruct (unique_from_spec r Hr a Ha) as (S1 & S2 & S3).
  split; [constructor; assumption|exact S3].
Qed.

Lemma strictly_sorted_unique s1 : forall s2, StronglySorted Rlt s1 -> StronglySorted Rlt s2 ->
  (forall b, In b s1 <-> In b s2) -> s1 = s2.
Proof.
  induction s1 as [|a r IH]; intros [|c t] H1 H2 HI.
  - reflexivity.
  - exfalso. apply (proj2 (HI c)). now left.
  - exfalso. apply (proj1 (HI a)). now left.
  - inversion H1 as [|? ? Hr Ha]; subst. inversion H2 as [|? ? Ht Hc]; subst.
    rewrite Forall_forall in Ha, Hc.
    assert (a = c).
    { destruct (proj1 (HI a) (or_introl eq_refl)) as [E|Hin]; [now symmetry|].
      destruct (proj2 (HI c) (or_introl eq_refl)) as [E|Hin2]; [assumption|].
      specialize (Ha c Hin2). specialize (Hc a Hin). lra. }
    subst c. f_equal. apply IH; auto. intros b. split; intros Hb.
    + destruct (proj1 (HI b) (or_intror Hb)) as [E|Hin]; [|assumption]. subst b. specialize (Ha a Hb). lra.
    + destruct (proj2 (HI b) (or_intror Hb)) as [E|Hin]; [|assumption]. subst b. specialize (Hc a Hb). lra.
Qed.

Lemma increasing_strongly_sorted xs : increasing xs -> StronglySorted Rlt xs.
Proof.
  induction xs as [|a r IH]; intros Hi; [constructor|]. constructor.
  - apply IH. intros i Hlt. apply (Hi (S i)). cbn. lia.
  - apply Forall_forall. intros b Hb. destruct (In_nth r b 0 Hb) as (k & Hk & <-).
    apply (increasing_lt (a :: r) Hi (S k) 0%nat); cbn; lia.
Qed.

Theorem sort_unique_char l s : increasing s -> (forall b, In b l <-> In b s) ->
  unique_list ROps (sort_list ROps l) = s.
Proof.
  intros Hs HI. destruct (unique_list_spec _ (sort_list_sorted l)) as [U1 U2].
  apply strictly_sorted_unique; [assumption|now apply increasing_strongly_sorted|].
  intros b. rewrite U2, sort_list_In. apply HI.
Qed.

(** ** the table of a grid: row k = i N_y + j carries (x_i, y_j, f_ij) *)
Definition table_of_grid (xs ys : list R) (f : list (list R)) : list (list R) :=
  let Ny := length ys in
  map (fun k => [nth (k / Ny) xs 0; nth (k mod Ny) ys 0; nth (k mod Ny) (nth (k / Ny) f []) 0])
      (seq 0 (length xs * Ny)).

Lemma split_rows3_map (a b c : nat -> R) l :
  split_rows3 (map (fun k => [a k; b k; c k]) l) = Ok (map a l, map b l, map c l).
Proof. induction l as [|k r IH]; cbn; [reflexivity|]. rewrite IH. reflexivity. Qed.

Lemma divmod_index Ny i j : (j < Ny)%nat -> ((i * Ny + j) / Ny = i /\ (i * Ny + j) mod Ny = j)%nat.
Proof.
  intros H. split.
  - rewrite Nat.add_comm, Nat.div_add by lia. rewrite Nat.div_small by lia. reflexivity.
  - rewrite Nat.add_comm, Nat.mod_add by lia. now apply Nat.mod_small.
Qed.

Lemma index_bound Nx Ny i j : (i < Nx)%nat -> (j < Ny)%nat -> (i * Ny + j < Nx * Ny)%nat.
Proof. intros. nia. Qed.

Lemma nth_map_seq {A} (g : nat -> A) n k d : (k < n)%nat -> nth k (map g (seq 0 n)) d = g k.
Proof.
  intros H. rewrite (nth_indep _ d (g 0%nat)) by now rewrite map_length, seq_length.
  rewrite map_nth, seq_nth by assumption. reflexivity.
Qed.

Theorem table_constructor_grid xs ys f xd yd fd : valid_grid xs ys f ->
  construct2_table ROps (table_of_grid xs ys f) xd yd fd = construct2 ROps xs ys f xd yd fd.
Proof.
  intros (HNx & HNy & Hix & Hiy & Hfl & Hrow).
  unfold construct2_table, table_of_grid. set (Nx := length xs). set (Ny := length ys).
  rewrite split_rows3_map. cbn [rbind fst snd].
  assert (Ex : unique_list ROps (sort_list ROps (map (fun k => nth (k / Ny) xs 0) (seq 0 (Nx * Ny)))) = xs).
  { apply sort_unique_char; [assumption|]. intros b. rewrite in_map_iff. split.
    - intros (k & <- & Hk). apply in_seq in Hk. apply nth_In. fold Nx. apply Nat.div_lt_upper_bound; lia.
    - intros Hb. destruct (In_nth xs b 0 Hb) as (i & Hi & <-). exists (i * Ny + 0)%nat.
      destruct (divmod_index Ny i 0) as [E _]; [lia|]. rewrite E. split; [reflexivity|].
      apply in_seq. assert (Hi' : (i < Nx)%nat) by exact Hi. pose proof (index_bound Nx Ny i 0). assert (2 <= Ny)%nat by exact HNy. lia. }
  assert (Ey : unique_list ROps (sort_list ROps (map (fun k => nth (k mod Ny) ys 0) (seq 0 (Nx * Ny)))) = ys).
  { apply sort_unique_char; [assumption|]. intros b. rewrite in_map_iff. split.
    - intros (k & <- & Hk). apply nth_In. fold Ny. apply Nat.mod_upper_bound. lia.
    - intros Hb. destruct (In_nth ys b 0 Hb) as (j & Hj & <-). exists (0 * Ny + j)%nat.
      destruct (divmod_index Ny 0 j) as [_ E]; [assumption|]. rewrite E. split; [reflexivity|].
      apply in_seq. assert (Hj' : (j < Ny)%nat) by exact Hj. pose proof (index_bound Nx Ny 0 j). lia. }
  rewrite Ex, Ey. fold Nx Ny. rewrite map_length, seq_length, Nat.eqb_refl. cbn [negb].
  match goal with |- (if negb ?c then _ else _) = _ => assert (Hc : c = true) end.
  { apply forallb_forall. intros i Hi. apply in_seq in Hi. apply forallb_forall. intros j Hj. apply in_seq in Hj.
    unfold xat, nth0. cbn [n0 ROps neqb].
    rewrite !nth_map_seq by (apply index_bound; lia).
    destruct (divmod_index Ny i j) as [E1 E2]; [lia|]. rewrite E1, E2.
    apply andb_true_intro. split; apply Reqb_true; reflexivity. }
  rewrite Hc. cbn [negb]. f_equal.
  apply (nth_ext _ _ [] []).
  - rewrite map_length, seq_length. symmetry. exact Hfl.
  - intros i Hi. rewrite map_length, seq_length in Hi.
    rewrite nth_map_seq by assumption.
    apply (nth_ext _ _ 0 0).
    + rewrite map_length, seq_length. symmetry. apply Hrow. rewrite Hfl. exact Hi.
    + intros j Hj. rewrite map_length, seq_length in Hj.
      rewrite nth_map_seq by assumption. unfold xat, nth0. cbn [n0 ROps].
      rewrite nth_map_seq by (apply index_bound; assumption).
      destruct (divmod_index Ny i j) as [E1 E2]; [assumption|]. rewrite E1, E2. reflexivity.
Qed.

(** non-vacuity: the table of the example grid *)
Example table_of_grid_example :
  table_of_grid [0; 1] [0; 2; 3] [[1; 2; 3]; [4; 5; 6]]
  = [[0; 0; 1]; [0; 2; 2]; [0; 3; 3]; [1; 0; 4]; [1; 2; 5]; [1; 3; 6]].
Proof. reflexivity. Qed.
