(** * C13 proofs, part 3: the library's own Gauss-Legendre rule behind the name "Gauss-Legendre_2"
    (model: [gl_rule], [gl_integrate], [gl_sum_rows], [gl_fun_rows] of C13_Model.v).  Over ANY instance of [NumOps] - in particular
    over the IEEE doubles of the extracted model: no modelling assumption double ~ R is involved.
    - the table of roots and weights of an n-point request has exactly n rows, for every n;
    - the integrand is evaluated exactly once at each of the n roots, in the order of the table, and nowhere else;
    - the chain of overloads Integrate_Gauss_Legendre(func,a,b,n) -> (func, table) -> (values, table) never reaches one of its
      std::exit branches, and equals [gl_integrate]. *)
From Coq Require Import ZArith List Bool Lia.
From LP Require Import Num C13_Model.
Import ListNotations.
Local Open Scope res_scope.

Section GL.
Context {T : Type} (Ops : NumOps T).

Lemma set_nth_length {A} (l : list A) : forall i a, length (set_nth l i a) = length l.
Proof. induction l as [|b r IH]; intros [|i] a; cbn; auto. Qed.

(** one step of the loop over the roots, with the Newton iteration abstracted *)
Definition gl_fill_step (c : nat) (i n : Z) (xm xh : T) (rw : list (T * T)) (zp : T * T) : res (list (T * T)) :=
  let '(z, pp) := zp in
  let w := ndiv Ops (nmul Ops (nofZ Ops 2) xh) (nmul Ops (nmul Ops (nsub Ops (nofZ Ops 1) (nmul Ops z z)) pp) pp) in
  let rw1 := set_nth rw (Z.to_nat i) (nsub Ops xm (nmul Ops xh z), snd (nth (Z.to_nat i) rw (n0 Ops, n0 Ops))) in
  let k := Z.to_nat (n - i - 1) in
  let rw2 := set_nth rw1 k (nadd Ops xm (nmul Ops xh z), snd (nth k rw1 (n0 Ops, n0 Ops))) in
  let rw3 := set_nth rw2 (Z.to_nat i) (fst (nth (Z.to_nat i) rw2 (n0 Ops, n0 Ops)), w) in
  let rw4 := set_nth rw3 k (fst (nth k rw3 (n0 Ops, n0 Ops)), snd (nth (Z.to_nat i) rw3 (n0 Ops, n0 Ops))) in
  gl_fill Ops c (i + 1) n xm xh rw4.

Lemma gl_fill_S c i n xm xh rw :
  gl_fill Ops (S c) i n xm xh rw =
  rbind (gl_newton Ops 100 n (ncos Ops (ndiv Ops (nmul Ops (m_pi Ops) (nadd Ops (nofZ Ops i) (ndec Ops 3 4))) (nadd Ops (nofZ Ops n) (ndec Ops 1 2)))))
        (gl_fill_step c i n xm xh rw).
Proof. reflexivity. Qed.

Lemma gl_fill_length cnt : forall i n xm xh rw rw', gl_fill Ops cnt i n xm xh rw = Ok rw' -> length rw' = length rw.
Proof.
  induction cnt as [|c IH]; intros i n xm xh rw rw' H.
  - injection H as <-. reflexivity.
  - rewrite gl_fill_S in H.
    destruct (gl_newton _ _ _ _) as [[z pp] | | |]; cbn [rbind] in H; try discriminate.
    unfold gl_fill_step in H. apply IH in H. rewrite H, !set_nth_length. reflexivity.
Qed.

(** the table of an n-point request has n rows *)
Theorem gl_rule_length n a b rw : gl_rule Ops n a b = Ok rw -> length rw = Z.to_nat n.
Proof. unfold gl_rule. intros H. apply gl_fill_length in H. rewrite H. apply repeat_length. Qed.

Lemma mapM_length {A B} (f : A -> res B) (l : list A) : forall l', mapM f l = Ok l' -> length l' = length l.
Proof.
  induction l as [|a r IH]; intros l' H; cbn [mapM] in H.
  - injection H as <-. reflexivity.
  - destruct (f a); cbn [rbind] in H; try discriminate.
    destruct (mapM f r) eqn:E; cbn [rbind] in H; try discriminate.
    injection H as <-. cbn. f_equal. apply IH. reflexivity.
Qed.

(** the calls of the integrand made by a traversal, in order: [mapM f l] succeeds iff [f] succeeds on every element, and then has called
    it once on each element of [l] and on nothing else (its result is the list of the answers) *)
Lemma mapM_answers {A B} (f : A -> res B) (l : list A) : forall l', mapM f l = Ok l' -> Forall2 (fun a b => f a = Ok b) l l'.
Proof.
  induction l as [|a r IH]; intros l' H; cbn [mapM] in H.
  - injection H as <-. constructor.
  - destruct (f a) eqn:Ea; cbn [rbind] in H; try discriminate.
    destruct (mapM f r) eqn:E; cbn [rbind] in H; try discriminate.
    injection H as <-. constructor; [assumption | apply IH; reflexivity].
Qed.

(** "Gauss-Legendre_2 with n points evaluates the integrand n times": whenever an n-point request returns, there is a table of exactly
    n rows, the integrand has been evaluated at the n roots of the table (first components, in order) and at nothing else, and the result
    is the sum of value times weight in that order starting from 0 *)
Theorem gl_integrate_samples (f : T -> res T) a b n r : gl_integrate Ops f a b n = Ok r ->
  exists rw fv, gl_rule Ops n a b = Ok rw /\ length rw = Z.to_nat n /\
    Forall2 (fun x y => f x = Ok y) (map fst rw) fv /\ length fv = Z.to_nat n /\
    r = fold_left (fun acc p => nadd Ops acc (nmul Ops (fst p) (snd p))) (combine fv (map snd rw)) (n0 Ops).
Proof.
  unfold gl_integrate. intros H.
  destruct (gl_rule Ops n a b) as [rw | | |] eqn:Erw; cbn [rbind] in H; try discriminate.
  destruct (mapM f (map fst rw)) as [fv | | |] eqn:Efv; cbn [rbind] in H; try discriminate.
  injection H as <-. exists rw, fv.
  pose proof (gl_rule_length _ _ _ _ Erw) as Ln.
  repeat split; try assumption.
  - apply mapM_answers; assumption.
  - apply mapM_length in Efv. rewrite Efv, map_length. assumption.
Qed.

(** the rows handed to the other two overloads: every row has two components, root first *)
Lemma gl_rows_wellformed (rw : list (T * T)) : forallb (fun row => Nat.eqb (length row) 2) (gl_rows rw) = true.
Proof. induction rw as [|p r IH]; cbn; auto. Qed.

Lemma gl_rows_roots (rw : list (T * T)) : map (fun row => nth 0 row (n0 Ops)) (gl_rows rw) = map fst rw.
Proof. unfold gl_rows. rewrite map_map. reflexivity. Qed.

Lemma fold_rows (rw : list (T * T)) : forall (fv : list T) (acc : T),
  fold_left (fun acc p => nadd Ops acc (nmul Ops (fst p) (nth 1 (snd p) (n0 Ops)))) (combine fv (gl_rows rw)) acc
  = fold_left (fun acc p => nadd Ops acc (nmul Ops (fst p) (snd p))) (combine fv (map snd rw)) acc.
Proof.
  induction rw as [|p r IH]; intros [|v fv] acc; cbn; try reflexivity. apply IH.
Qed.

(** values and table of equal sizes, rows of two components: the checks pass and the sum is the one of [gl_integrate] *)
Lemma gl_sum_rows_ok (fv : list T) (rw : list (T * T)) : length fv = length rw ->
  gl_sum_rows Ops fv (gl_rows rw) = Ok (fold_left (fun acc p => nadd Ops acc (nmul Ops (fst p) (snd p))) (combine fv (map snd rw)) (n0 Ops)).
Proof.
  intros H. unfold gl_sum_rows. unfold gl_rows at 1. rewrite map_length, H, Nat.eqb_refl. cbn [negb].
  rewrite gl_rows_wellformed. cbn [negb]. rewrite fold_rows. reflexivity.
Qed.

(** the std::exit branches of the two inner overloads are unreachable from Integrate_Gauss_Legendre(func, a, b, n): the chain of the
    three overloads equals [gl_integrate], for every integrand, limits and number of points *)
Theorem gl_overload_chain (f : T -> res T) a b n :
  (let* rw := gl_rule Ops n a b in gl_fun_rows Ops f (gl_rows rw)) = gl_integrate Ops f a b n.
Proof.
  unfold gl_integrate, gl_fun_rows.
  destruct (gl_rule Ops n a b) as [rw | | |]; cbn [rbind]; try reflexivity.
  rewrite gl_rows_roots.
  destruct (mapM f (map fst rw)) as [fv | | |] eqn:E; cbn [rbind]; try reflexivity.
  apply gl_sum_rows_ok. apply mapM_length in E. rewrite E. apply map_length.
Qed.

(** the exit branches themselves: sizes that differ, or a row that does not consist of a root and a weight *)
Theorem gl_sum_rows_exits (fv : list T) (rows : list (list T)) :
  (length fv <> length rows \/ Exists (fun row => length row <> 2%nat) rows) -> gl_sum_rows Ops fv rows = Exit.
Proof.
  unfold gl_sum_rows. intros [H | H].
  - apply Nat.eqb_neq in H. rewrite H. reflexivity.
  - destruct (Nat.eqb (length fv) (length rows)); cbn [negb]; [| reflexivity].
    replace (forallb (fun row => Nat.eqb (length row) 2) rows) with false; [reflexivity|].
    symmetry. induction H as [row r H | row r H IH]; cbn.
    + apply Nat.eqb_neq in H. rewrite H. reflexivity.
    + rewrite IH. apply andb_false_r.
Qed.

(** non-vacuity: a request for no points returns (an empty table, no evaluation, the sum 0); that requests for n >= 1 points return is
    what every run of the extracted model on the generated cases shows *)
Example gl_no_points (f : T -> res T) a b : gl_integrate Ops f a b 0 = Ok (n0 Ops) /\ gl_rule Ops 0 a b = Ok [].
Proof. split; reflexivity. Qed.

Example gl_malformed (x y z v : T) : gl_sum_rows Ops [v] [[x; y; z]] = Exit /\ gl_sum_rows Ops [v; v] [[x; y]] = Exit.
Proof.
  split; apply gl_sum_rows_exits.
  - right. constructor. cbn. discriminate.
  - left. cbn. discriminate.
Qed.
End GL.
