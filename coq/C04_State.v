(** * C04 model, part 2: the members that change an existing object (call history).
    Vector::Resize / Assign / operator[] (write) / copy constructor / operator=, and the same for Matrix
    (src/Linear_Algebra.cpp).  Same conventions as C04_Model.v: the data members are the record fields,
    the class invariant [wf_mat] / [wf_vec] is NOT built into the type - C04_Proofs_State.v proves that
    Resize and Assign establish it from ANY previous state, so that the storage-based accessors
    (Return_Row = Vector(components[row]), Sub_Matrix = Matrix(components) ...) agree with Rows()/Columns()
    on an object of any history.  Kept in a file of its own so that C04_Model.v (shared with C05) is untouched.

    The arguments of Matrix::Resize / Matrix::Assign are ints that the code converts to unsigned: the model
    takes nat (a negative argument asks std::vector for ~2^32 rows and is outside every request considered). *)
From Coq Require Import ZArith List Bool Arith.
From LP Require Import Num C04_Model.
Import ListNotations.

(** std::vector<X>::resize(n): the first n elements are kept, missing ones are value-initialised (d) *)
Definition vresize {A} (d : A) (n : nat) (l : list A) : list A := firstn n l ++ repeat d (n - length l).
(** c[i] = x on a std::vector, i < c.size() *)
Definition upd {A} (i : nat) (x : A) (l : list A) : list A := firstn i l ++ x :: skipn (S i) l.

Section State.
Context {T : Type} (Ops : NumOps T).
Local Notation zero := (n0 Ops).
Local Open Scope res_scope.

(** ** Vector *)
(** Vector::Resize(dim): dimension = dim; components.resize(dim) *)
Definition v_resize (v : vec T) (dim : nat) : vec T := mkVec dim (vresize zero dim (vcomps v)).
(** Vector::Assign(dim, entry): dimension = dim; components.assign(dim, entry) *)
Definition v_assign (v : vec T) (dim : nat) (e : T) : vec T := mkVec dim (repeat e dim).
(** v[i] = x through double& operator[] (tests i >= dimension; the std::vector itself is unchecked) *)
Definition v_set (v : vec T) (i : nat) (x : T) : res (vec T) :=
  if vdim v <=? i then Exit
  else if i <? length (vcomps v) then Ok (mkVec (vdim v) (upd i x (vcomps v))) else OOB.
(** v[i] (read) through operator[] *)
Definition v_at (v : vec T) (i : nat) : res T := if vdim v <=? i then Exit else get (vcomps v) i.
(** Vector(const Vector& rhs): components(rhs.components), dimension(rhs.dimension) *)
Definition v_copy (v : vec T) : vec T := mkVec (vdim v) (vcomps v).
(** operator=(Vector v) on an object [old]: components = v.components; dimension = v.dimension *)
Definition v_assign_from (old v : vec T) : vec T := mkVec (vdim v) (vcomps v).
(** Vector(dim), Vector(): Vector(dim, 0.0), Vector(3) *)
Definition v_zero (dim : nat) : vec T := vfill dim zero.
Definition v_default : vec T := v_zero 3.
(** Vector::Normalized() const: double norm = Norm(); new_components[i] = components[i] / norm for i < dimension;
    return Vector(new_components).  Norm() = sqrt of Dot with the vector itself ([vnorm]; that Dot never exits). *)
Definition v_normalized (v : vec T) : res (vec T) :=
  let* nrm := vnorm Ops v in Ok (vec_of (tab (vdim v) (fun i => ndiv Ops (vent Ops v i) nrm))).
(** Vector::Normalize(): the same division in place, the dimension member untouched *)
Definition v_normalize (v : vec T) : res (vec T) :=
  let* nrm := vnorm Ops v in Ok (mkVec (vdim v) (tab (vdim v) (fun i => ndiv Ops (vent Ops v i) nrm))).

(** ** Matrix *)
(** Matrix::Resize(row, col): rows = row; columns = col; components.resize(row);
    for(i < rows) components[i].resize(col) *)
Definition m_resize (A : mat T) (row col : nat) : mat T :=
  mkMat row col (map (vresize zero col) (vresize [] row (mcomps A))).
(** Matrix::Assign(row, col, entry): the same with components[i].assign(col, entry) *)
Definition m_assign (A : mat T) (row col : nat) (e : T) : mat T :=
  mkMat row col (map (fun _ : list T => repeat e col) (vresize [] row (mcomps A))).
(** M[i][j] = x through std::vector<double>& operator[] (tests i >= rows; the inner index is unchecked) *)
Definition m_set (A : mat T) (i j : nat) (x : T) : res (mat T) :=
  if mrows A <=? i then Exit
  else let* r := get (mcomps A) i in
       if j <? length r then Ok (mkMat (mrows A) (mcols A) (upd i (upd j x r) (mcomps A))) else OOB.
(** Matrix(const Matrix& rhs): components(rhs.components), rows(rhs.rows), columns(rhs.columns) *)
Definition m_copy (A : mat T) : mat T := mkMat (mrows A) (mcols A) (mcomps A).
(** operator=(Matrix M) on an object [old]: components = M.components; rows = M.rows; columns = M.columns *)
Definition m_assign_from (old A : mat T) : mat T := mkMat (mrows A) (mcols A) (mcomps A).
(** Matrix(rows, columns) = Matrix(rows, columns, 0.0); Matrix() = the 3x3 unit matrix written out *)
Definition m_zero (r c : nat) : mat T := mat_fill r c zero.
Definition m_default : mat T :=
  mkMat 3 3 [ [n1 Ops; zero; zero]; [zero; n1 Ops; zero]; [zero; zero; n1 Ops] ].
End State.
