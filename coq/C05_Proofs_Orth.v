(** * C05 proofs: Matrix::Orthogonal() - the one caller of the gate Invertible() / Inverse() inside the library
      if(!Invertible()) return false;  else return Transpose() == Inverse();
    Over any field (any pivoting rule): a [true] answer means M^T M = 1 = M M^T, a non-square matrix is answered [false].
    Over a real field with the code's pivoting rule (fabs, >): Orthogonal() never exits and decides M^T M = 1. *)
From mathcomp Require Import all_ssreflect all_fingroup all_algebra.
From Coq Require List ZArith.
From LP Require Import Num C04_Model C05_Model C04_Proofs_Struct C04_Proofs_Laws C05_Proofs C05_Proofs_Complete.
Set Implicit Arguments. Unset Strict Implicit. Unset Printing Implicit Defensive.
Arguments tab : simpl never.
Arguments tab2 : simpl never.
Import Order.TTheory GRing.Theory Num.Theory.
Local Open Scope ring_scope.

Section Field.
Variable F : fieldType.
Variables (absF sqrtF : F -> F) (ltF leF : F -> F -> bool).
Local Notation Ops := (FOps absF sqrtF ltF leF).
Local Notation ment := (ment Ops).
Local Notation mx := (@mx_of F (fun x y => x / y) absF sqrtF ltF leF).

Lemma mx_inj n (A B : mat F) : wf_mat A -> wf_mat B -> mrows A = n -> mcols A = n -> mrows B = n -> mcols B = n ->
  mx n n A = mx n n B -> A = B.
Proof.
  move=> HA HB Ar Ac Br Bc E; apply: (mat_ext (Ops:=Ops)); rewrite ?Ar ?Ac ?Br ?Bc // => i j Hi Hj.
  by have := congr1 (fun X : 'M_n => X (Ordinal Hi) (Ordinal Hj)) E; rewrite !mxE.
Qed.

Lemma mx_tr_tab n (M : mat F) : mrows M = n.+1 -> mcols M = n.+1 -> mx n.+1 n.+1 (tr_tab Ops M) = (mx n.+1 n.+1 M)^T.
Proof. by move=> Mr Mc; apply/matrixP => i j; rewrite !mxE /tr_tab ment_mk ?Mr ?Mc. Qed.

Theorem orthogonal_sound n (M : mat F) : wf_mat M -> mrows M = n.+1 -> mcols M = n.+1 ->
  orthogonal Ops M = Ok true ->
  (mx n.+1 n.+1 M)^T *m mx n.+1 n.+1 M = 1%:M /\ mx n.+1 n.+1 M *m (mx n.+1 n.+1 M)^T = 1%:M.
Proof.
  move=> HM Mr Mc; rewrite /orthogonal; case: (invertible Ops M) => //= -[] //=.
  rewrite transpose_spec ?Mc //=; case E: (inverse Ops M) => [X|||] //= -[] /(m_eq_iff (@ReqbP _ _ _ _ _ _) _ _) H.
  have [[_ wX Xr Xc] []] := inverse_sound E; rewrite Mr -mx_tr_tab // H //; last by rewrite /tr_tab wf_mk.
Qed.

Theorem orthogonal_nonsquare (M : mat F) : mrows M <> mcols M -> orthogonal Ops M = Ok false.
Proof. by move=> H; rewrite /orthogonal invertible_nonsquare. Qed.
End Field.

Section RealField.
Variable R : realFieldType.
Variables (sqrtF : R -> R) (leF : R -> R -> bool).
Local Notation Ops := (POps sqrtF leF).
Local Notation mx := (@mx_of R (fun x y => x / y) (fun x => `|x|) sqrtF (fun x y => x < y) leF).

(** Orthogonal() always answers, and the answer is  M^T M = 1 *)
Theorem orthogonal_iff n (M : mat R) : wf_mat M -> mrows M = n.+1 -> mcols M = n.+1 ->
  orthogonal Ops M = Ok ((mx n.+1 n.+1 M)^T *m mx n.+1 n.+1 M == 1%:M).
Proof.
  move=> HM Mr Mc; rewrite /orthogonal (proj1 (invertible_iff _ _ _ _ HM Mr Mc)) /=.
  case Hdet: (\det _ != 0) => /=.
  - have [X [HX wX XM MX]] := @inverse_total _ sqrtF leF _ _ HM Mr Mc Hdet.
    have [[_ _ Xr Xc] _] := inverse_sound HX.
    rewrite transpose_spec ?Mc //= HX /=; congr Ok; apply/idP/eqP.
    + by move=> /(m_eq_iff (@ReqbP _ _ _ _ _ _) _ _) H; rewrite -mx_tr_tab // H // /tr_tab wf_mk.
    + move=> H; apply/(m_eq_iff (@ReqbP _ _ _ _ _ _) _ _); rewrite ?wf_mk //.
      apply: (@mx_inj R (fun x => `|x|) sqrtF (fun x y => x < y) leF n.+1); rewrite ?wf_mk ?Xr ?Xc /= ?Mr ?Mc //.
      by rewrite [LHS]mx_tr_tab // -[LHS]mulmx1 -MX mulmxA H mul1mx.
  - congr Ok; symmetry; apply/negbTE/negP => /eqP H.
    have : \det ((mx n.+1 n.+1 M)^T *m mx n.+1 n.+1 M) = 1 by rewrite H det1.
    move/negbFE/eqP: Hdet => Hd; rewrite det_mulmx det_tr Hd mul0r => /eqP.
    by rewrite eq_sym oner_eq0.
Qed.

(** non-vacuity: the exchange matrix ((0,1),(1,0)) is orthogonal - and is answered [true] *)
Example exchange_matrix_orthogonal :
  orthogonal Ops (mk_mat 2 2 (fun i j => if i == j then 0 else 1 : R)) = Ok true.
Proof.
  rewrite (@orthogonal_iff 1) ?wf_mk //; congr Ok; apply/eqP/matrixP => i j.
  rewrite !mxE big_ord_recl big_ord_recl big_ord0 !mxE !ment_mk //=.
  by case: i => -[|[|i]] // Hi; case: j => -[|[|j]] // Hj; rewrite /= ?mul0r ?mulr0 ?mul1r ?addr0 ?add0r.
Qed.
End RealField.
