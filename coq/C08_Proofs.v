(** * C08 proofs: integrals and extrema of the Steffen interpolant (real-number instance) *)
From Coq Require Import Reals ZArith List Bool Lia Lra Psatz.
From Coquelicot Require Import Coquelicot.
From LP Require Import Num NumR C01_Model C01_Proofs C08_Model.
Import ListNotations.
Local Open Scope R_scope.

(** ** 1. Prefactor histories *)
(** the object with prefactor c *)
Definition ptab (c : R) (xs ys : list R) : itab := set_prefactor (tab xs ys) c.

Inductive pop : Type := SetP (f : R) | Mul (f : R).
Definition apply_pop (o : itab) (p : pop) : itab :=
  match p with SetP f => set_prefactor o f | Mul f => multiply ROps o f end.
Definition pref_step (c : R) (p : pop) : R := match p with SetP f => f | Mul f => c * f end.

Lemma fresh_is_ptab xs ys : tab xs ys = ptab 1 xs ys.
Proof. reflexivity. Qed.
Lemma history_is_ptab xs ys ops : forall c,
  fold_left apply_pop ops (ptab c xs ys) = ptab (fold_left pref_step ops c) xs ys.
Proof. induction ops as [|p ops IH]; intros c; [reflexivity|]. destruct p; cbn [fold_left]; apply IH. Qed.

Lemma integrate_loop_S (ob : itab) x1 x2 i1 i2 cnt i acc :
  integrate_loop ROps ob x1 x2 i1 i2 (S cnt) i acc =
  rbind (segment ob (i1 + i)) (fun sg =>
   rbind (if Nat.eqb i (i2 - i1) then Ok x2 else get (ixs ob) (S (i1 + i))) (fun x_right =>
   integrate_loop ROps ob x1 x2 i1 i2 cnt (S i)
     (nadd ROps acc (nsub ROps (stemfunc ROps (ipre ob) sg x_right)
                               (stemfunc ROps (ipre ob) sg (if Nat.eqb i 0 then x1 else fst sg)))))).
Proof. reflexivity. Qed.

(** the curve returned by Interpolate under the prefactor c *)
Definition pcurve (c : R) (xs ys : list R) (x : R) : R := c * curve xs ys x.

Section P.
Variables xs ys : list R.
Hypothesis HV : valid_table xs ys.
Variable c : R.
Notation N := (length xs).
Notation X i := (nth i xs 0).
Notation Y i := (nth i ys 0).
Notation o := (ptab c xs ys).
Notation F := (pcurve c xs ys).
Let Hlen : length xs = length ys := proj1 HV.
Let HN : (3 <= N)%nat := proj1 (proj2 HV).
Let Hinc : increasing xs := proj2 (proj2 HV).
Let HN2 : (2 <= N)%nat. Proof. lia. Qed.

Lemma locate_ptab x : locate ROps o x = locate ROps (tab xs ys) x. Proof. reflexivity. Qed.
Lemma segment_ptab j : segment o j = segment (tab xs ys) j. Proof. reflexivity. Qed.

Lemma interpolate_ptab x : X 0 <= x <= X (N - 1) -> interpolate ROps o x = Ok (F x).
Proof.
  intros Hx. destruct (locate_in_domain xs ys HN2 x Hx) as (j & E & Hj & A & B).
  unfold pcurve, curve. rewrite (interpolate_located xs ys Hlen x j E Hj).
  unfold interpolate. rewrite locate_ptab, E. cbn [rbind]. rewrite segment_ptab, segment_ok by assumption.
  cbn [rbind]. reflexivity.
Qed.

Lemma F_on_segment j x : (S j < N)%nat -> X j <= x <= X (S j) -> F x = c * SEGf xs ys j x.
Proof. intros Hj Hx. unfold pcurve. now rewrite (curve_on_segment xs ys HV j x Hj Hx). Qed.
Lemma F_knot i : (i < N)%nat -> F (X i) = c * Y i.
Proof. intros Hi. unfold pcurve, curve. now rewrite (knot_reproduction xs ys HV i Hi). Qed.

(** ** 2. Integrate *)
Definition anti (a b cc d xj x : R) := a / 4 * (x - xj) ^ 4 + b / 3 * (x - xj) ^ 3 + cc / 2 * (x - xj) ^ 2 + d * x.
Lemma stemfunc_R pre xj a b cc d x : stemfunc ROps pre (xj, (a, b, cc, d)) x = pre * anti a b cc d xj x.
Proof. reflexivity. Qed.
Lemma seg_int pre a b cc d xj u v :
  is_RInt (fun x => pre * seg a b cc d xj x) u v (pre * anti a b cc d xj v - pre * anti a b cc d xj u).
Proof.
  apply (is_RInt_derive (fun x => pre * anti a b cc d xj x) (fun x => pre * seg a b cc d xj x)).
  - intros x _. unfold anti, seg. auto_derive; auto. field.
  - intros x _. apply (ex_derive_continuous (fun x => pre * seg a b cc d xj x)).
    unfold seg. auto_derive; auto.
Qed.

(* what Locate guarantees about a point of the domain *)
Definition located (j : nat) (x : R) : Prop :=
  (S j < N)%nat /\ X j <= x /\ (x < X (S j) \/ (S j = N - 1)%nat /\ x <= X (S j)).
Lemma located_le j x : located j x -> X j <= x <= X (S j).
Proof. intros (H1 & H2 & [H3|[_ H3]]); lra. Qed.
Lemma located_order j x j' x' : located j x -> located j' x' -> x <= x' -> (j <= j')%nat.
Proof.
  intros (H1 & H2 & H3) (H1' & H2' & H3') Hxx.
  destruct (le_lt_dec j j') as [|Hlt]; [assumption|exfalso].
  assert (X (S j') <= X j) by (apply increasing_le; auto; lia).
  destruct H3' as [H3'|[E _]]; [lra|lia].
Qed.
Lemma locate_located x : X 0 <= x <= X (N - 1) -> exists j, locate ROps o x = Ok j /\ located j x.
Proof.
  intros Hx. destruct (locate_in_domain xs ys HN2 x Hx) as (j & E & Hj & A & B).
  exists j. split; [exact E|]. repeat split; assumption.
Qed.

Lemma piece_int j u v : (S j < N)%nat -> X j <= u -> u <= v -> v <= X (S j) ->
  is_RInt F u v (c * anti (CA xs ys j) (CB xs ys j) (DYf xs ys j) (Y j) (X j) v
                 - c * anti (CA xs ys j) (CB xs ys j) (DYf xs ys j) (Y j) (X j) u).
Proof.
  intros Hj Hu Huv Hv.
  apply (is_RInt_ext (fun x => c * SEGf xs ys j x)); [|apply seg_int].
  intros x. rewrite Rmin_left, Rmax_right by lra. intros Hx. symmetry. apply F_on_segment; auto; lra.
Qed.

Section Loop.
Variables x1 x2 : R.
Variables i1 i2 : nat.
Hypothesis H1 : located i1 x1.
Hypothesis H2 : located i2 x2.
Hypothesis Hx : x1 <= x2.

Lemma integrate_loop_spec : forall cnt i acc, (i1 + i + cnt = i2)%nat ->
  let L := if Nat.eqb i 0 then x1 else X (i1 + i) in
  exists I, integrate_loop ROps o x1 x2 i1 i2 (S cnt) i acc = Ok (acc + I) /\ is_RInt F L x2 I.
Proof.
  pose proof (located_le _ _ H1) as B1. pose proof (located_le _ _ H2) as B2.
  destruct H1 as (Hj1 & _ & _). destruct H2 as (Hj2 & _ & _).
  induction cnt as [|cnt IH]; intros i acc Hcnt L.
  - (* last segment *)
    assert (Ej : (i1 + i = i2)%nat) by lia.
    rewrite integrate_loop_S. rewrite segment_ptab, segment_ok by (auto; lia). cbn [rbind fst].
    assert (Ei : Nat.eqb i (i2 - i1) = true) by (apply Nat.eqb_eq; lia). rewrite Ei. cbn [rbind].
    rewrite !stemfunc_R. change (ipre o) with c.
    assert (HL : (if Nat.eqb i 0 then x1 else X (i1 + i)) = L) by reflexivity. rewrite HL.
    eexists. split; [reflexivity|].
    assert (BL : X (i1 + i) <= L /\ L <= x2).
    { unfold L. destruct (Nat.eqb_spec i 0) as [->|Hi].
      - rewrite Nat.add_0_r in *. subst i2. lra.
      - rewrite Ej. lra. }
    cbn [nsub ROps]. apply piece_int; try lia; try lra. rewrite Ej. lra.
  - (* a full piece up to the next abscissa, then the rest *)
    set (j := (i1 + i)%nat). assert (Hj : (S j < N)%nat) by (unfold j; lia).
    rewrite integrate_loop_S. fold j. rewrite segment_ptab, segment_ok by auto. cbn [rbind fst].
    assert (Ei : Nat.eqb i (i2 - i1) = false) by (apply Nat.eqb_neq; lia). rewrite Ei.
    change (ixs o) with xs. rewrite (get_nth xs (S j) 0) by lia. cbn [rbind].
    rewrite !stemfunc_R. change (ipre o) with c.
    assert (HL : (if Nat.eqb i 0 then x1 else X j) = L) by reflexivity. rewrite HL.
    match goal with |- context [integrate_loop ROps _ x1 x2 i1 i2 (S cnt) (S i) ?a] =>
      destruct (IH (S i) a) as (I' & E' & R'); [lia|] end.
    rewrite E'. cbn [Nat.eqb] in R'. replace (i1 + S i)%nat with (S j) in R' by (unfold j; lia).
    eexists. split; [cbn [nadd nsub ROps]; rewrite Rplus_assoc; reflexivity|].
    assert (BL : X j <= L /\ L <= X (S j)).
    { unfold L. destruct (Nat.eqb_spec i 0) as [->|Hi].
      - unfold j. rewrite Nat.add_0_r. lra.
      - fold j. split; [lra|left; apply Hinc; lia]. }
    apply (is_RInt_Chasles F L (X (S j)) x2); [|exact R'].
    apply piece_int; auto; lra.
Qed.
End Loop.

(** Integrate(x1,x2) is the Riemann integral of the curve returned by Interpolate, for limits in either order *)
Theorem integrate_is_RInt x1 x2 : X 0 <= x1 <= X (N - 1) -> X 0 <= x2 <= X (N - 1) ->
  exists I, integrate ROps o x1 x2 = Ok I /\ is_RInt F x1 x2 I.
Proof.
  assert (Main : forall a b, X 0 <= a <= X (N - 1) -> X 0 <= b <= X (N - 1) -> a <= b ->
    exists i1 i2 I, locate ROps o a = Ok i1 /\ locate ROps o b = Ok i2 /\
      integrate_loop ROps o a b i1 i2 (S i2 - i1) 0 0 = Ok (0 + I) /\ is_RInt F a b I).
  { intros a b Ha Hb Hab. destruct (locate_located a Ha) as (i1 & E1 & L1). destruct (locate_located b Hb) as (i2 & E2 & L2).
    pose proof (located_order _ _ _ _ L1 L2 Hab) as Hle.
    destruct (integrate_loop_spec a b i1 i2 L1 L2 Hab (i2 - i1) 0 0 ltac:(lia)) as (I & E & R).
    exists i1, i2, I. replace (S i2 - i1)%nat with (S (i2 - i1)) by lia. repeat split; assumption. }
  intros Hx1 Hx2. unfold integrate, ngtb. cbn [nltb ROps].
  destruct (Rltb_spec x2 x1) as [Hswap|Hord].
  - destruct (Main x2 x1 Hx2 Hx1 ltac:(lra)) as (i1 & i2 & I & E1 & E2 & E & R).
    rewrite E1, E2. cbn [rbind]. change (n0 ROps) with 0. rewrite E. cbn [rbind nmul nofZ ROps].
    eexists. split; [reflexivity|]. replace (-1 * (0 + I)) with (opp I) by (cbn; ring).
    apply (@is_RInt_swap R_NormedModule F x1 x2 I). exact R.
  - destruct (Main x1 x2 Hx1 Hx2 ltac:(lra)) as (i1 & i2 & I & E1 & E2 & E & R).
    rewrite E1, E2. cbn [rbind]. change (n0 ROps) with 0. rewrite E. cbn [rbind nmul nofZ ROps].
    eexists. split; [reflexivity|]. replace (1 * (0 + I)) with I by ring. exact R.
Qed.
End P.

(** ** 3. Consequences: RInt, additivity, antisymmetry, derivative in the upper limit *)
Lemma RInt_uniq (f : R -> R) a b l l' : is_RInt f a b l -> is_RInt f a b l' -> l = l'.
Proof.
  intros H H'. rewrite <- (@is_RInt_unique R_CompleteNormedModule f a b l H).
  apply (@is_RInt_unique R_CompleteNormedModule f a b l' H').
Qed.
Definition integral_value (c : R) (xs ys : list R) (a b : R) : R :=
  match integrate ROps (ptab c xs ys) a b with Ok v => v | _ => 0 end.

Section Q.
Variables xs ys : list R.
Hypothesis HV : valid_table xs ys.
Variable c : R.
Notation N := (length xs).
Notation X i := (nth i xs 0).
Notation Y i := (nth i ys 0).
Notation o := (ptab c xs ys).
Notation F := (pcurve c xs ys).
Notation dom x := (X 0 <= x <= X (N - 1)).

Lemma integral_value_spec a b : dom a -> dom b ->
  integrate ROps o a b = Ok (integral_value c xs ys a b) /\ is_RInt F a b (integral_value c xs ys a b).
Proof.
  intros Ha Hb. destruct (integrate_is_RInt xs ys HV c a b Ha Hb) as (I & E & R).
  unfold integral_value. rewrite E. split; [reflexivity|exact R].
Qed.

Theorem integrate_RInt a b : dom a -> dom b -> integrate ROps o a b = Ok (RInt F a b).
Proof.
  intros Ha Hb. destruct (integral_value_spec a b Ha Hb) as (E & R). rewrite E. apply f_equal.
  symmetry. apply (@is_RInt_unique R_CompleteNormedModule). exact R.
Qed.

Theorem integrate_additive a b d : dom a -> dom b -> dom d ->
  integral_value c xs ys a b + integral_value c xs ys b d = integral_value c xs ys a d.
Proof.
  intros Ha Hb Hd.
  destruct (integral_value_spec a b Ha Hb) as (_ & R1). destruct (integral_value_spec b d Hb Hd) as (_ & R2).
  destruct (integral_value_spec a d Ha Hd) as (_ & R3).
  pose proof (@is_RInt_Chasles R_NormedModule F a b d _ _ R1 R2) as R12.
  exact (RInt_uniq F a d _ _ R12 R3).
Qed.

Theorem integrate_antisymmetric a b : dom a -> dom b ->
  integral_value c xs ys b a = - integral_value c xs ys a b.
Proof.
  intros Ha Hb.
  destruct (integral_value_spec a b Ha Hb) as (_ & R1). destruct (integral_value_spec b a Hb Ha) as (_ & R2).
  pose proof (@is_RInt_swap R_NormedModule F b a _ R1) as R1'.
  exact (RInt_uniq F b a _ _ R2 R1').
Qed.

Theorem integrate_bounded a b m M : dom a -> dom b -> a <= b ->
  (forall x, a <= x <= b -> m <= F x <= M) ->
  m * (b - a) <= integral_value c xs ys a b <= M * (b - a).
Proof.
  intros Ha Hb Hab HB. destruct (integral_value_spec a b Ha Hb) as (_ & R).
  split.
  - apply (is_RInt_le (fun _ => m) F a b); auto.
    + replace (m * (b - a)) with (scal (b - a) m) by (cbn; unfold mult; cbn; ring). apply @is_RInt_const.
    + intros x Hx. apply HB. lra.
  - apply (is_RInt_le F (fun _ => M) a b); auto.
    + replace (M * (b - a)) with (scal (b - a) M) by (cbn; unfold mult; cbn; ring). apply @is_RInt_const.
    + intros x Hx. apply HB. lra.
Qed.

Lemma F_continuous x : X 0 < x < X (N - 1) -> continuity_pt F x.
Proof.
  intros Hx. pose proof (curve_continuous xs ys HV x Hx) as C.
  exact (continuity_pt_scal (curve xs ys) c x C).
Qed.

(** the derivative of Integrate(a, .) with respect to the upper limit is Interpolate *)
Theorem integrate_derivative_upper a x : dom a -> X 0 < x < X (N - 1) ->
  is_derive (fun t => integral_value c xs ys a t) x (F x).
Proof.
  intros Ha Hx. apply (is_derive_RInt F (fun t => integral_value c xs ys a t) a x).
  - apply (locally_interval _ x (X 0) (X (N - 1))); cbn; try lra.
    intros t Ht1 Ht2. apply integral_value_spec; auto; lra.
  - apply continuity_pt_filterlim. now apply F_continuous.
Qed.
End Q.

(** ** 4. Extrema *)
Lemma scale_between c a v b : (a <= v <= b \/ b <= v <= a) ->
  Rmin (c * a) (c * b) <= c * v <= Rmax (c * a) (c * b).
Proof.
  intros H. unfold Rmin, Rmax. destruct (Rle_dec (c * a) (c * b)); destruct (Rle_dec 0 c); destruct H; split; nra.
Qed.

(* *std::min_element / *std::max_element *)
Lemma min_fold_spec (r : list R) : forall a,
  let v := fold_left (fun cur x => if nltb ROps x cur then x else cur) r a in
  (v = a \/ In v r) /\ v <= a /\ forall y, In y r -> v <= y.
Proof.
  induction r as [|b r IH]; intros a; cbv zeta; cbn [fold_left].
  - split; [now left|]. split; [lra|intros y []].
  - change (nltb ROps b a) with (Rltb b a). destruct (Rltb_spec b a) as [Hlt|Hge].
    + pose proof (IH b) as IHb. cbv zeta in IHb. destruct IHb as (A & B & C).
      split; [destruct A as [A|A]; [right; left; now symmetry|right; now right]|].
      split; [lra|]. intros y [<-|Hy]; [exact B|now apply C].
    + pose proof (IH a) as IHa. cbv zeta in IHa. destruct IHa as (A & B & C).
      split; [destruct A as [A|A]; [now left|right; now right]|].
      split; [exact B|]. intros y [<-|Hy]; [lra|now apply C].
Qed.
Lemma max_fold_spec (r : list R) : forall a,
  let v := fold_left (fun cur x => if nltb ROps cur x then x else cur) r a in
  (v = a \/ In v r) /\ a <= v /\ forall y, In y r -> y <= v.
Proof.
  induction r as [|b r IH]; intros a; cbv zeta; cbn [fold_left].
  - split; [now left|]. split; [lra|intros y []].
  - change (nltb ROps a b) with (Rltb a b). destruct (Rltb_spec a b) as [Hlt|Hge].
    + pose proof (IH b) as IHb. cbv zeta in IHb. destruct IHb as (A & B & C).
      split; [destruct A as [A|A]; [right; left; now symmetry|right; now right]|].
      split; [lra|]. intros y [<-|Hy]; [exact B|now apply C].
    + pose proof (IH a) as IHa. cbv zeta in IHa. destruct IHa as (A & B & C).
      split; [destruct A as [A|A]; [now left|right; now right]|].
      split; [exact B|]. intros y [<-|Hy]; [lra|now apply C].
Qed.
Lemma min_element_spec (l : list R) : l <> [] ->
  exists v, min_element ROps l = Ok v /\ In v l /\ forall y, In y l -> v <= y.
Proof.
  destruct l as [|a r]; [congruence|]. intros _. eexists. split; [reflexivity|].
  destruct (min_fold_spec r a) as (A & B & C). split.
  - destruct A as [->|A]; [now left|now right].
  - intros y [<-|Hy]; [exact B|now apply C].
Qed.
Lemma max_element_spec (l : list R) : l <> [] ->
  exists v, max_element ROps l = Ok v /\ In v l /\ forall y, In y l -> y <= v.
Proof.
  destruct l as [|a r]; [congruence|]. intros _. eexists. split; [reflexivity|].
  destruct (max_fold_spec r a) as (A & B & C). split.
  - destruct A as [->|A]; [now left|now right].
  - intros y [<-|Hy]; [exact B|now apply C].
Qed.

Section E.
Variables xs ys : list R.
Hypothesis HV : valid_table xs ys.
Variable c : R.
Notation N := (length xs).
Notation X i := (nth i xs 0).
Notation Y i := (nth i ys 0).
Notation o := (ptab c xs ys).
Notation F := (pcurve c xs ys).
Notation dom x := (X 0 <= x <= X (N - 1)).
Let Hlen : length xs = length ys := proj1 HV.
Let HN : (3 <= N)%nat := proj1 (proj2 HV).
Let Hinc : increasing xs := proj2 (proj2 HV).
Let HN2 : (2 <= N)%nat. Proof. lia. Qed.

Lemma knot_scan_S pick (ob : itab) x1 x2 cnt i m :
  knot_scan ROps pick ob x1 x2 (S cnt) i m =
  rbind (get (ixs ob) i) (fun xi =>
    if ngeb ROps xi x1 && nleb ROps xi x2
    then rbind (get (iys ob) i) (fun yi => knot_scan ROps pick ob x1 x2 cnt (S i) (pick m (nmul ROps (ipre ob) yi)))
    else knot_scan ROps pick ob x1 x2 cnt (S i) m).
Proof. reflexivity. Qed.

Lemma knot_scan_min_spec x1 x2 : forall cnt i m, (i + cnt <= N)%nat ->
  exists r, knot_scan ROps (nmin ROps) o x1 x2 cnt i m = Ok r /\ r <= m /\
    (forall k, (i <= k < i + cnt)%nat -> x1 <= X k <= x2 -> r <= c * Y k) /\
    (r = m \/ exists k, (i <= k < i + cnt)%nat /\ x1 <= X k <= x2 /\ r = c * Y k).
Proof.
  induction cnt as [|cnt IH]; intros i m Hi.
  - exists m. split; [reflexivity|]. split; [lra|]. split; [intros k Hk; lia|now left].
  - rewrite knot_scan_S. change (ixs o) with xs. change (iys o) with ys. change (ipre o) with c.
    rewrite (get_nth xs i 0) by lia. cbn [rbind]. unfold ngeb. cbn [nleb nmul ROps].
    destruct (Rleb_spec x1 (X i)) as [Ha|Ha]; destruct (Rleb_spec (X i) x2) as [Hb|Hb]; cbn [andb].
    1: { rewrite (get_nth ys i 0) by lia. cbn [rbind]. rewrite nmin_R.
         destruct (IH (S i) (Rmin m (c * Y i)) ltac:(lia)) as (r & E & A & B & C).
         exists r. split; [exact E|]. split; [eapply Rle_trans; [exact A|apply Rmin_l]|]. split.
         - intros k Hk Hxk. destruct (Nat.eq_dec k i) as [->|Hne]; [eapply Rle_trans; [exact A|apply Rmin_r]|apply B; [lia|exact Hxk]].
         - destruct C as [C|(k & Hk & Hxk & C)].
           + unfold Rmin in C. destruct (Rle_dec m (c * Y i)); [now left|right; exists i; split; [lia|split; [lra|exact C]]].
           + right. exists k. split; [lia|split; [exact Hxk|exact C]]. }
    all: destruct (IH (S i) m ltac:(lia)) as (r & E & A & B & C); exists r; split; [exact E|]; split; [exact A|]; split;
      [intros k Hk Hxk; destruct (Nat.eq_dec k i) as [->|Hne]; [lra|apply B; [lia|exact Hxk]]
      |destruct C as [C|(k & Hk & Hxk & C)]; [now left|right; exists k; split; [lia|split; [exact Hxk|exact C]]]].
Qed.

Lemma knot_scan_max_spec x1 x2 : forall cnt i m, (i + cnt <= N)%nat ->
  exists r, knot_scan ROps (nmax ROps) o x1 x2 cnt i m = Ok r /\ m <= r /\
    (forall k, (i <= k < i + cnt)%nat -> x1 <= X k <= x2 -> c * Y k <= r) /\
    (r = m \/ exists k, (i <= k < i + cnt)%nat /\ x1 <= X k <= x2 /\ r = c * Y k).
Proof.
  induction cnt as [|cnt IH]; intros i m Hi.
  - exists m. split; [reflexivity|]. split; [lra|]. split; [intros k Hk; lia|now left].
  - rewrite knot_scan_S. change (ixs o) with xs. change (iys o) with ys. change (ipre o) with c.
    rewrite (get_nth xs i 0) by lia. cbn [rbind]. unfold ngeb. cbn [nleb nmul ROps].
    destruct (Rleb_spec x1 (X i)) as [Ha|Ha]; destruct (Rleb_spec (X i) x2) as [Hb|Hb]; cbn [andb].
    1: { rewrite (get_nth ys i 0) by lia. cbn [rbind]. rewrite nmax_R.
         destruct (IH (S i) (Rmax m (c * Y i)) ltac:(lia)) as (r & E & A & B & C).
         exists r. split; [exact E|]. split; [eapply Rle_trans; [apply Rmax_l|exact A]|]. split.
         - intros k Hk Hxk. destruct (Nat.eq_dec k i) as [->|Hne]; [eapply Rle_trans; [apply Rmax_r|exact A]|apply B; [lia|exact Hxk]].
         - destruct C as [C|(k & Hk & Hxk & C)].
           + unfold Rmax in C. destruct (Rle_dec m (c * Y i)); [right; exists i; split; [lia|split; [lra|exact C]]|now left].
           + right. exists k. split; [lia|split; [exact Hxk|exact C]]. }
    all: destruct (IH (S i) m ltac:(lia)) as (r & E & A & B & C); exists r; split; [exact E|]; split; [exact A|]; split;
      [intros k Hk Hxk; destruct (Nat.eq_dec k i) as [->|Hne]; [lra|apply B; [lia|exact Hxk]]
      |destruct C as [C|(k & Hk & Hxk & C)]; [now left|right; exists k; split; [lia|split; [exact Hxk|exact C]]]].
Qed.

(* the curve is monotone on every segment (C01) *)
Lemma curve_monotone j p q : (S j < N)%nat -> X j <= p -> p <= q -> q <= X (S j) ->
  (Y j <= Y (S j) -> curve xs ys p <= curve xs ys q) /\ (Y (S j) <= Y j -> curve xs ys q <= curve xs ys p).
Proof.
  intros Hj Hp Hpq Hq. destruct (monotone_on_segment xs ys HV j p q Hj Hp Hpq Hq) as (fp & fq & Ep & Eq & A & B).
  unfold curve. rewrite Ep, Eq. split; assumption.
Qed.

(* every value on [x1,x2] lies between two candidates that the scan looks at *)
Lemma between_candidates x1 x2 i1 i2 x : located xs i1 x1 -> located xs i2 x2 -> dom x -> x1 <= x <= x2 ->
  exists lo hi, (lo = x1 \/ exists k, (i1 <= k <= S i2)%nat /\ x1 <= X k <= x2 /\ lo = X k) /\
                (hi = x2 \/ exists k, (i1 <= k <= S i2)%nat /\ x1 <= X k <= x2 /\ hi = X k) /\
                Rmin (F lo) (F hi) <= F x <= Rmax (F lo) (F hi).
Proof.
  intros L1 L2 Hd Hx.
  destruct (locate_located xs ys HV c x Hd) as (j & _ & Lj).
  pose proof (located_order xs ys HV _ _ _ _ L1 Lj ltac:(lra)) as O1.
  pose proof (located_order xs ys HV _ _ _ _ Lj L2 ltac:(lra)) as O2.
  pose proof (located_le xs _ _ Lj) as Bj. destruct Lj as (Hj & _ & _).
  set (lo := Rmax x1 (X j)). set (hi := Rmin x2 (X (S j))).
  assert (Hlo : X j <= lo /\ lo <= x /\ x1 <= lo) by (unfold lo; split; [apply Rmax_r|split; [apply Rmax_lub; lra|apply Rmax_l]]).
  assert (Hhi : hi <= X (S j) /\ x <= hi /\ hi <= x2) by (unfold hi; split; [apply Rmin_r|split; [apply Rmin_glb; lra|apply Rmin_l]]).
  exists lo, hi. split; [|split].
  - unfold lo, Rmax. destruct (Rle_dec x1 (X j)); [right; exists j; repeat split; try lia; lra|now left].
  - unfold hi, Rmin. destruct (Rle_dec x2 (X (S j))); [now left|right; exists (S j); repeat split; try lia; lra].
  - unfold pcurve. apply scale_between.
    destruct (curve_monotone j lo x Hj ltac:(lra) ltac:(lra) ltac:(lra)) as [A1 A2].
    destruct (curve_monotone j x hi Hj ltac:(lra) ltac:(lra) ltac:(lra)) as [B1 B2].
    destruct (Rle_dec (Y j) (Y (S j))) as [Hup|Hdn]; [left; split; [apply A1; lra|apply B1; lra]|right; split; [apply B2; lra|apply A2; lra]].
Qed.

(** Local_Minimum / Local_Maximum: bounds of the curve on [x1,x2], attained there *)
Theorem local_minimum_spec x1 x2 : dom x1 -> dom x2 -> x1 <= x2 ->
  exists r, local_minimum ROps o x1 x2 = Ok r /\
    (forall x, x1 <= x <= x2 -> r <= F x) /\ (exists x, x1 <= x <= x2 /\ r = F x).
Proof.
  intros D1 D2 H12. unfold local_minimum, local_extremum. cbn [nltb ROps].
  destruct (Rltb_spec x2 x1); [lra|].
  rewrite !(interpolate_ptab xs ys HV c) by assumption. cbn [rbind].
  destruct (locate_located xs ys HV c x1 D1) as (i1 & E1 & L1). destruct (locate_located xs ys HV c x2 D2) as (i2 & E2 & L2).
  rewrite E1, E2. cbn [rbind]. rewrite nmin_R.
  pose proof (located_order xs ys HV _ _ _ _ L1 L2 H12) as O12.
  assert (Hcnt : (i1 + (i2 + 2 - i1) <= N)%nat) by (destruct L2; lia).
  destruct (knot_scan_min_spec x1 x2 (i2 + 2 - i1) i1 (Rmin (F x1) (F x2)) Hcnt) as (r & E & A & B & C).
  exists r. split; [exact E|]. split.
  - intros x Hx. assert (Hd : dom x) by lra.
    destruct (between_candidates x1 x2 i1 i2 x L1 L2 Hd Hx) as (lo & hi & Clo & Chi & Bt).
    assert (Rlo : r <= F lo).
    { destruct Clo as [->|(k & Hk & Hxk & ->)]; [eapply Rle_trans; [exact A|apply Rmin_l]|].
      rewrite (F_knot xs ys HV c k) by (destruct L2; lia). apply B; [lia|exact Hxk]. }
    assert (Rhi : r <= F hi).
    { destruct Chi as [->|(k & Hk & Hxk & ->)]; [eapply Rle_trans; [exact A|apply Rmin_r]|].
      rewrite (F_knot xs ys HV c k) by (destruct L2; lia). apply B; [lia|exact Hxk]. }
    eapply Rle_trans; [|apply Bt]. now apply Rmin_glb.
  - destruct C as [C|(k & Hk & Hxk & C)].
    + unfold Rmin in C. destruct (Rle_dec (F x1) (F x2)); [exists x1|exists x2]; split; auto; lra.
    + exists (X k). split; [exact Hxk|]. rewrite (F_knot xs ys HV c k) by (destruct L2; lia). exact C.
Qed.

Theorem local_maximum_spec x1 x2 : dom x1 -> dom x2 -> x1 <= x2 ->
  exists r, local_maximum ROps o x1 x2 = Ok r /\
    (forall x, x1 <= x <= x2 -> F x <= r) /\ (exists x, x1 <= x <= x2 /\ r = F x).
Proof.
  intros D1 D2 H12. unfold local_maximum, local_extremum. cbn [nltb ROps].
  destruct (Rltb_spec x2 x1); [lra|].
  rewrite !(interpolate_ptab xs ys HV c) by assumption. cbn [rbind].
  destruct (locate_located xs ys HV c x1 D1) as (i1 & E1 & L1). destruct (locate_located xs ys HV c x2 D2) as (i2 & E2 & L2).
  rewrite E1, E2. cbn [rbind]. rewrite nmax_R.
  pose proof (located_order xs ys HV _ _ _ _ L1 L2 H12) as O12.
  assert (Hcnt : (i1 + (i2 + 2 - i1) <= N)%nat) by (destruct L2; lia).
  destruct (knot_scan_max_spec x1 x2 (i2 + 2 - i1) i1 (Rmax (F x1) (F x2)) Hcnt) as (r & E & A & B & C).
  exists r. split; [exact E|]. split.
  - intros x Hx. assert (Hd : dom x) by lra.
    destruct (between_candidates x1 x2 i1 i2 x L1 L2 Hd Hx) as (lo & hi & Clo & Chi & Bt).
    assert (Rlo : F lo <= r).
    { destruct Clo as [->|(k & Hk & Hxk & ->)]; [eapply Rle_trans; [apply Rmax_l|exact A]|].
      rewrite (F_knot xs ys HV c k) by (destruct L2; lia). apply B; [lia|exact Hxk]. }
    assert (Rhi : F hi <= r).
    { destruct Chi as [->|(k & Hk & Hxk & ->)]; [eapply Rle_trans; [apply Rmax_r|exact A]|].
      rewrite (F_knot xs ys HV c k) by (destruct L2; lia). apply B; [lia|exact Hxk]. }
    eapply Rle_trans; [apply Bt|]. now apply Rmax_lub.
  - destruct C as [C|(k & Hk & Hxk & C)].
    + unfold Rmax in C. destruct (Rle_dec (F x1) (F x2)); [exists x2|exists x1]; split; auto; lra.
    + exists (X k). split; [exact Hxk|]. rewrite (F_knot xs ys HV c k) by (destruct L2; lia). exact C.
Qed.

(** Global_Minimum / Global_Maximum *)
Lemma table_range : exists fmin fmax imin imax,
  min_element ROps ys = Ok fmin /\ max_element ROps ys = Ok fmax /\
  (imin < N)%nat /\ (imax < N)%nat /\ fmin = Y imin /\ fmax = Y imax /\
  forall i, (i < N)%nat -> fmin <= Y i <= fmax.
Proof.
  assert (Hne : ys <> []) by (intros ->; cbn in Hlen; lia).
  destruct (min_element_spec ys Hne) as (fmin & E1 & I1 & B1). destruct (max_element_spec ys Hne) as (fmax & E2 & I2 & B2).
  destruct (In_nth ys fmin 0 I1) as (imin & Hi1 & Ei1). destruct (In_nth ys fmax 0 I2) as (imax & Hi2 & Ei2).
  exists fmin, fmax, imin, imax. repeat split; auto; try lia.
  - apply B1. apply nth_In. lia.
  - apply B2. apply nth_In. lia.
Qed.

Lemma curve_in_table_range x fmin fmax : dom x -> (forall i, (i < N)%nat -> fmin <= Y i <= fmax) ->
  fmin <= curve xs ys x <= fmax.
Proof.
  intros Hd HB. destruct (locate_located xs ys HV c x Hd) as (j & _ & Lj).
  pose proof (located_le xs _ _ Lj) as Bj. destruct Lj as (Hj & _ & _).
  destruct (no_overshoot xs ys HV j x Hj Bj) as (v & E & Bv). unfold curve. rewrite E.
  pose proof (HB j ltac:(lia)). pose proof (HB (S j) ltac:(lia)).
  assert (fmin <= Rmin (Y j) (Y (S j))) by (apply Rmin_glb; lra).
  assert (Rmax (Y j) (Y (S j)) <= fmax) by (apply Rmax_lub; lra). lra.
Qed.

Theorem global_minimum_spec :
  exists r, global_minimum ROps o = Ok r /\ (forall x, dom x -> r <= F x) /\ (exists i, (i < N)%nat /\ r = F (X i)).
Proof.
  destruct table_range as (fmin & fmax & imin & imax & E1 & E2 & Hi1 & Hi2 & V1 & V2 & HB).
  unfold global_minimum. change (iys o) with ys. change (ipre o) with c. rewrite E1, E2. cbn [rbind nmul ROps]. rewrite nmin_R.
  eexists. split; [reflexivity|]. split.
  - intros x Hd. pose proof (curve_in_table_range x fmin fmax Hd HB) as Bx.
    apply (scale_between c fmin (curve xs ys x) fmax). left; exact Bx.
  - unfold Rmin. destruct (Rle_dec (c * fmin) (c * fmax)); [exists imin|exists imax]; split; auto;
      rewrite (F_knot xs ys HV c) by assumption; congruence.
Qed.

Theorem global_maximum_spec :
  exists r, global_maximum ROps o = Ok r /\ (forall x, dom x -> F x <= r) /\ (exists i, (i < N)%nat /\ r = F (X i)).
Proof.
  destruct table_range as (fmin & fmax & imin & imax & E1 & E2 & Hi1 & Hi2 & V1 & V2 & HB).
  unfold global_maximum. change (iys o) with ys. change (ipre o) with c. rewrite E1, E2. cbn [rbind nmul ROps]. rewrite nmax_R.
  eexists. split; [reflexivity|]. split.
  - intros x Hd. pose proof (curve_in_table_range x fmin fmax Hd HB) as Bx.
    apply (scale_between c fmin (curve xs ys x) fmax). left; exact Bx.
  - unfold Rmax. destruct (Rle_dec (c * fmin) (c * fmax)); [exists imax|exists imin]; split; auto;
      rewrite (F_knot xs ys HV c) by assumption; congruence.
Qed.
End E.

(** ** 5. Consequences that combine the above *)
Section C.
Variables xs ys : list R.
Hypothesis HV : valid_table xs ys.
Notation N := (length xs).
Notation X i := (nth i xs 0).
Notation dom x := (X 0 <= x <= X (N - 1)).

(** Integrate is bounded by Local_Minimum / Local_Maximum times the length *)
Theorem integrate_bounded_by_extrema c x1 x2 : dom x1 -> dom x2 -> x1 <= x2 ->
  exists I mn mx, integrate ROps (ptab c xs ys) x1 x2 = Ok I /\
    local_minimum ROps (ptab c xs ys) x1 x2 = Ok mn /\ local_maximum ROps (ptab c xs ys) x1 x2 = Ok mx /\
    mn * (x2 - x1) <= I <= mx * (x2 - x1).
Proof.
  intros D1 D2 H12.
  destruct (integral_value_spec xs ys HV c x1 x2 D1 D2) as (EI & _).
  destruct (local_minimum_spec xs ys HV c x1 x2 D1 D2 H12) as (mn & Emn & Bmn & _).
  destruct (local_maximum_spec xs ys HV c x1 x2 D1 D2 H12) as (mx & Emx & Bmx & _).
  exists (integral_value c xs ys x1 x2), mn, mx. split; [exact EI|]. split; [exact Emn|]. split; [exact Emx|].
  apply (integrate_bounded xs ys HV c x1 x2 mn mx D1 D2 H12). intros x Hx. split; [now apply Bmn|now apply Bmx].
Qed.

(** the extrema scale with the prefactor exactly as Interpolate does: for c >= 0 the minimum under c is c times the
    minimum under 1, for c <= 0 it is c times the maximum under 1 (and dually) *)
Theorem local_extrema_scale c x1 x2 : dom x1 -> dom x2 -> x1 <= x2 ->
  exists mn mx mn1 mx1,
    local_minimum ROps (ptab c xs ys) x1 x2 = Ok mn /\ local_maximum ROps (ptab c xs ys) x1 x2 = Ok mx /\
    local_minimum ROps (tab xs ys) x1 x2 = Ok mn1 /\ local_maximum ROps (tab xs ys) x1 x2 = Ok mx1 /\
    (0 <= c -> mn = c * mn1 /\ mx = c * mx1) /\ (c <= 0 -> mn = c * mx1 /\ mx = c * mn1).
Proof.
  intros D1 D2 H12.
  destruct (local_minimum_spec xs ys HV c x1 x2 D1 D2 H12) as (mn & Emn & Bmn & (pn & Hpn & Apn)).
  destruct (local_maximum_spec xs ys HV c x1 x2 D1 D2 H12) as (mx & Emx & Bmx & (px & Hpx & Apx)).
  destruct (local_minimum_spec xs ys HV 1 x1 x2 D1 D2 H12) as (mn1 & Emn1 & Bmn1 & (pn1 & Hpn1 & Apn1)).
  destruct (local_maximum_spec xs ys HV 1 x1 x2 D1 D2 H12) as (mx1 & Emx1 & Bmx1 & (px1 & Hpx1 & Apx1)).
  exists mn, mx, mn1, mx1. repeat split; auto.
  all: unfold pcurve in *.
  all: pose proof (Bmn pn1 Hpn1); pose proof (Bmn px1 Hpx1); pose proof (Bmx pn1 Hpn1); pose proof (Bmx px1 Hpx1);
       pose proof (Bmn1 pn Hpn); pose proof (Bmn1 px Hpx); pose proof (Bmx1 pn Hpn); pose proof (Bmx1 px Hpx).
  all: apply Rle_antisym; nra.
Qed.
End C.

(** ** 6. Interpolation_2D: global extrema under a prefactor *)
Definition pgrid (c : R) (xs ys : list R) (f : list (list R)) : itab2 := set_prefactor2 (grid xs ys f) c.

Lemma history2_is_pgrid xs ys f ops : forall c,
  fold_left (fun o p => match p with SetP v => set_prefactor2 o v | Mul v => multiply2 ROps o v end) ops (pgrid c xs ys f)
  = pgrid (fold_left pref_step ops c) xs ys f.
Proof. induction ops as [|p ops IH]; intros c; [reflexivity|]. destruct p; cbn [fold_left]; apply IH. Qed.

Lemma interpolate2_prefactor (g0 : itab2) c x y v : jpre g0 = 1 ->
  interpolate2 ROps g0 x y = Ok v -> interpolate2 ROps (set_prefactor2 g0 c) x y = Ok (c * v).
Proof.
  intros Hpre. unfold interpolate2. cbn [jxint jyint jxs jys jf jpre set_prefactor2].
  repeat match goal with |- context [rbind ?e _] => destruct e; cbn [rbind]; try discriminate end.
  intros H. injection H as <-. rewrite Hpre. cbn [nmul ROps]. rewrite Rmult_1_l. reflexivity.
Qed.

Lemma map_res_spec (pick : list R -> res R) (P : list R -> R -> Prop) :
  (forall row, row <> [] -> exists v, pick row = Ok v /\ P row v) ->
  forall rows, (forall i, (i < length rows)%nat -> nth i rows [] <> []) ->
  exists vs, map_res pick rows = Ok vs /\ length vs = length rows /\
             forall i, (i < length rows)%nat -> P (nth i rows []) (nth i vs 0).
Proof.
  intros Hpick. induction rows as [|row rows IH]; intros Hne.
  - exists []. repeat split; auto. intros i Hi; cbn in Hi; lia.
  - destruct (Hpick row (Hne 0%nat ltac:(cbn; lia))) as (v & Ev & Pv).
    destruct IH as (vs & Evs & Lvs & Pvs). { intros i Hi. apply (Hne (S i)). cbn; lia. }
    exists (v :: vs). cbn [map_res]. rewrite Ev. cbn [rbind]. rewrite Evs. cbn [rbind].
    repeat split; [cbn; lia|]. intros i Hi. destruct i as [|i]; [exact Pv|]. cbn [nth]. apply Pvs. cbn in Hi; lia.
Qed.

Section G.
Variables xs ys : list R.
Variable f : list (list R).
Hypothesis HG : valid_grid xs ys f.
Variable c : R.
Notation Nx := (length xs).
Notation Ny := (length ys).
Notation X i := (nth i xs 0).
Notation Yy j := (nth j ys 0).
Notation Fv i j := (nth j (nth i f []) 0).

Lemma grid_range : exists fmin fmax,
  global_minimum2 ROps (pgrid c xs ys f) = Ok (Rmin (c * fmin) (c * fmax)) /\
  global_maximum2 ROps (pgrid c xs ys f) = Ok (Rmax (c * fmin) (c * fmax)) /\
  (exists i j, (i < Nx)%nat /\ (j < Ny)%nat /\ fmin = Fv i j) /\
  (exists i j, (i < Nx)%nat /\ (j < Ny)%nat /\ fmax = Fv i j) /\
  forall i j, (i < Nx)%nat -> (j < Ny)%nat -> fmin <= Fv i j <= fmax.
Proof.
  destruct HG as (HNx & HNy & Hix & Hiy & Hfl & Hrow).
  assert (Hne : forall i, (i < length f)%nat -> nth i f [] <> []).
  { intros i Hi E. pose proof (Hrow i Hi) as L. rewrite E in L. cbn in L. lia. }
  destruct (map_res_spec (min_element ROps) (fun row v => In v row /\ forall y, In y row -> v <= y) min_element_spec f Hne)
    as (mins & Emins & Lmins & Pmins).
  destruct (map_res_spec (max_element ROps) (fun row v => In v row /\ forall y, In y row -> y <= v) max_element_spec f Hne)
    as (maxs & Emaxs & Lmaxs & Pmaxs).
  assert (Nmins : mins <> []) by (intros ->; cbn in Lmins; lia).
  assert (Nmaxs : maxs <> []) by (intros ->; cbn in Lmaxs; lia).
  destruct (min_element_spec mins Nmins) as (fmin & E1 & I1 & B1). destruct (max_element_spec maxs Nmaxs) as (fmax & E2 & I2 & B2).
  exists fmin, fmax.
  split; [|split].
  - unfold global_minimum2. cbn [jf jpre pgrid set_prefactor2 grid]. rewrite Emins, Emaxs. cbn [rbind]. rewrite E1, E2. cbn [rbind nmul ROps].
    now rewrite nmin_R.
  - unfold global_maximum2. cbn [jf jpre pgrid set_prefactor2 grid]. rewrite Emins, Emaxs. cbn [rbind]. rewrite E1, E2. cbn [rbind nmul ROps].
    now rewrite nmax_R.
  - split; [|split].
    + destruct (In_nth mins fmin 0 I1) as (i & Hi & Ei). destruct (Pmins i ltac:(lia)) as (Iv & _).
      destruct (In_nth _ _ 0 Iv) as (j & Hj & Ej). exists i, j. rewrite Hrow in Hj by lia. repeat split; try lia. congruence.
    + destruct (In_nth maxs fmax 0 I2) as (i & Hi & Ei). destruct (Pmaxs i ltac:(lia)) as (Iv & _).
      destruct (In_nth _ _ 0 Iv) as (j & Hj & Ej). exists i, j. rewrite Hrow in Hj by lia. repeat split; try lia. congruence.
    + intros i j Hi Hj. split.
      * eapply Rle_trans; [apply (B1 (nth i mins 0)); apply nth_In; lia|].
        apply (proj2 (Pmins i ltac:(lia))). apply nth_In. rewrite Hrow by lia. exact Hj.
      * eapply Rle_trans; [|apply (B2 (nth i maxs 0)); apply nth_In; lia].
        apply (proj2 (Pmaxs i ltac:(lia))). apply nth_In. rewrite Hrow by lia. exact Hj.
Qed.

(** Global_Minimum / Global_Maximum (2-D): bounds of every evaluation on the grid, attained at a node *)
Theorem global_extrema2_spec :
  exists mn mx, global_minimum2 ROps (pgrid c xs ys f) = Ok mn /\ global_maximum2 ROps (pgrid c xs ys f) = Ok mx /\
    (forall i j x y, (S i < Nx)%nat -> (S j < Ny)%nat -> X i <= x <= X (S i) -> Yy j <= y <= Yy (S j) ->
       exists v, interpolate2 ROps (pgrid c xs ys f) x y = Ok v /\ mn <= v <= mx) /\
    (exists i j, (i < Nx)%nat /\ (j < Ny)%nat /\ interpolate2 ROps (pgrid c xs ys f) (X i) (Yy j) = Ok mn) /\
    (exists i j, (i < Nx)%nat /\ (j < Ny)%nat /\ interpolate2 ROps (pgrid c xs ys f) (X i) (Yy j) = Ok mx).
Proof.
  destruct grid_range as (fmin & fmax & Emn & Emx & (i1 & j1 & Hi1 & Hj1 & V1) & (i2 & j2 & Hi2 & Hj2 & V2) & HB).
  exists (Rmin (c * fmin) (c * fmax)), (Rmax (c * fmin) (c * fmax)). split; [exact Emn|]. split; [exact Emx|].
  assert (Node : forall i j, (i < Nx)%nat -> (j < Ny)%nat -> interpolate2 ROps (pgrid c xs ys f) (X i) (Yy j) = Ok (c * Fv i j)).
  { intros i j Hi Hj. apply interpolate2_prefactor; [reflexivity|]. now apply bilinear_nodes. }
  split; [|split].
  - intros i j x y Hi Hj Hx Hy. exists (c * BIL xs ys f i j x y).
    split; [apply interpolate2_prefactor; [reflexivity|now apply interpolate2_on_cell]|].
    apply scale_between. left. unfold BIL.
    destruct HG as (_ & _ & Hix & Hiy & _).
    pose proof (Hix i Hi). pose proof (Hiy j Hj).
    apply convex4; try (apply HB; lia).
    + apply (unit_interval (X (S i) - X i) (X i) x); lra.
    + apply (unit_interval (Yy (S j) - Yy j) (Yy j) y); lra.
  - unfold Rmin. destruct (Rle_dec (c * fmin) (c * fmax)); [exists i1, j1|exists i2, j2]; repeat split; auto; rewrite Node by assumption; congruence.
  - unfold Rmax. destruct (Rle_dec (c * fmin) (c * fmax)); [exists i2, j2|exists i1, j1]; repeat split; auto; rewrite Node by assumption; congruence.
Qed.
End G.

(** ** 7. Non-vacuity: a concrete table, limits and a negative prefactor reached by a history *)
Example C08_example :
  let xs := [0; 1; 3; 4] in let ys := [0; 2; 1; 1] in
  valid_table xs ys /\ (nth 0 xs 0 <= 1/2 <= nth (length xs - 1) xs 0) /\ (nth 0 xs 0 <= 7/2 <= nth (length xs - 1) xs 0) /\
  fold_left apply_pop [SetP 3; Mul (-2)] (tab xs ys) = ptab (-6) xs ys.
Proof.
  cbv zeta. split; [exact valid_table_example|]. cbn [length Nat.sub nth]. repeat split; try lra.
  rewrite fresh_is_ptab, history_is_ptab. cbn [fold_left pref_step]. f_equal. lra.
Qed.
