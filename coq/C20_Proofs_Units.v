(** * C20 — theorems about the unit constants, stated on the definitions REGENERATED from
    src/Natural_Units.cpp (Gen_C20_Units.v).  A change of an initialiser in the source changes the
    generated definitions, and these proofs are re-checked against it on every run. *)
From Coq Require Import String.
From Coq Require Import Reals Lra Lia ZArith List.
From LP Require Import Num C20_Model C20_Proofs_Init Gen_C20_Units.
Import ListNotations.
Local Open Scope R_scope.

Lemma powerRZ2 x : powerRZ x 2 = x * x.
Proof. simpl. ring. Qed.

(** every identity below: unfold all constants down to the decimal literals of the source (exact
    rationals num/den), then [field]. *)
Ltac units := unfold_units; rewrite ?powerRZ2; field.
Ltac upos := unfold_units; lra.

(** the base constants are positive (so the quotients below are meaningful) *)
Lemma GeV_is_one : u_GeV = 1.            Proof. units. Qed.
Lemma gram_pos : 0 < u_gram.              Proof. upos. Qed.
Lemma cm_pos : 0 < u_cm.                  Proof. upos. Qed.
Lemma meter_pos : 0 < u_meter.            Proof. upos. Qed.
Lemma sec_pos : 0 < u_sec.                Proof. upos. Qed.
Lemma kg_pos : 0 < u_kg.                  Proof. upos. Qed.
Lemma Coulomb_pos : 0 < u_Coulomb.        Proof. upos. Qed.
Lemma eV_pos : 0 < u_eV.                  Proof. upos. Qed.

(** ** mechanical units *)
Lemma Joule_def : u_Joule = u_kg * u_meter ^ 2 / u_sec ^ 2.             Proof. units. Qed.
Lemma Newton_def : u_Newton = u_kg * u_meter / u_sec ^ 2.               Proof. units. Qed.
Lemma Watt_def : u_Watt = u_Joule / u_sec.                              Proof. units. Qed.
Lemma Pa_def : u_Pa = u_Newton / u_meter ^ 2.                           Proof. units. Qed.
Lemma erg_def : u_erg = u_gram * u_cm ^ 2 / u_sec ^ 2.                  Proof. units. Qed.
Lemma erg_Joule : u_erg = u_Joule / 10000000.                           Proof. units. Qed.
Lemma dyne_Newton : u_dyne = u_Newton / 100000.                         Proof. units. Qed.
Lemma dyne_def : u_dyne = u_gram * u_cm / u_sec ^ 2.                    Proof. units. Qed.
Lemma Joule_Newton_meter : u_Joule = u_Newton * u_meter.                Proof. units. Qed.
Lemma Hz_def : u_Hz = 1 / u_sec.                                        Proof. units. Qed.
Lemma Hz_sec : u_Hz * u_sec = 1.                                        Proof. units. Qed.
Lemma cal_def : u_cal = 4184 / 1000 * u_Joule.                          Proof. units. Qed.
Lemma kg_def : u_kg = 1000 * u_gram.                                    Proof. units. Qed.
Lemma tonne_def : u_tonne = 1000 * u_kg.                                Proof. units. Qed.
Lemma hPa_def : u_hPa = 100 * u_Pa.                                     Proof. units. Qed.
Lemma kPa_def : u_kPa = 1000 * u_Pa.                                    Proof. units. Qed.
Lemma bar_def : u_bar = 100000 * u_Pa.                                  Proof. units. Qed.
Lemma barye_def : u_barye = u_Pa / 10.                                  Proof. units. Qed.
(** natural units: c = 1, i.e. one second is 299 792 458 metres *)
Lemma speed_of_light : u_meter / u_sec = 1 / 299792458.                 Proof. units. Qed.

(** ** electromagnetic units *)
Lemma Volt_Coulomb : u_Volt * u_Coulomb = u_Joule.                      Proof. units. Qed.
Lemma Ampere_def : u_Ampere = u_Coulomb / u_sec.                        Proof. units. Qed.
Lemma Ohm_def : u_Ohm = u_Volt / u_Ampere.                              Proof. units. Qed.
Lemma Watt_Volt_Ampere : u_Watt = u_Volt * u_Ampere.                    Proof. units. Qed.
Lemma Farad_def : u_Farad = u_Coulomb / u_Volt.                         Proof. units. Qed.
Lemma Siemens_def : u_Siemens * u_Ohm = 1.                              Proof. units. Qed.
Lemma Tesla_def : u_Tesla = u_Newton * u_sec / (u_Coulomb * u_meter).   Proof. units. Qed.
Lemma Tesla_kg : u_Tesla = u_kg / (u_Coulomb * u_sec).                  Proof. units. Qed.
Lemma Tesla_Volt : u_Tesla = u_Volt * u_sec / u_meter ^ 2.              Proof. units. Qed.
Lemma Gauss_def : u_Gauss = u_Tesla / 10000.                            Proof. units. Qed.
Lemma Weber_def : u_Weber = u_Volt * u_sec.                             Proof. units. Qed.

(** ** multiples of the second *)
Lemma ms_def : u_ms = u_sec / 1000.                                     Proof. units. Qed.
Lemma ns_def : u_ns = u_sec / 1000000000.                               Proof. units. Qed.
Lemma minute_def : u_minute = 60 * u_sec.                               Proof. units. Qed.
Lemma hr_def : u_hr = 3600 * u_sec.                                     Proof. units. Qed.
Lemma day_def : u_day = 86400 * u_sec.                                  Proof. units. Qed.
Lemma week_def : u_week = 604800 * u_sec.                               Proof. units. Qed.
Lemma year_def : u_year = 31557600 * u_sec.                             Proof. units. Qed.

(** ** multiples of the metre *)
Lemma cm_def : u_cm = u_meter / 100.                                    Proof. units. Qed.
Lemma mm_def : u_mm = u_meter / 1000.                                   Proof. units. Qed.
Lemma km_def : u_km = 1000 * u_meter.                                   Proof. units. Qed.
Lemma fm_def : u_fm = u_meter / 1000000000000000.                       Proof. units. Qed.
Lemma Angstrom_def : u_Angstrom = u_meter / 10000000000.                Proof. units. Qed.
Lemma inch_def : u_inch = 254 / 10000 * u_meter.                        Proof. units. Qed.
Lemma foot_def : u_foot = 3048 / 10000 * u_meter.                       Proof. units. Qed.
Lemma yard_def : u_yard = 9144 / 10000 * u_meter.                       Proof. units. Qed.
Lemma mile_def : u_mile = 1609344 / 1000 * u_meter.                     Proof. units. Qed.
Lemma mile_yard : u_mile = 1760 * u_yard.                               Proof. units. Qed.
Lemma barn_def : u_barn = u_meter ^ 2 / 10000000000000000000000000000.  Proof. units. Qed.
Lemma hectare_def : u_hectare = 10000 * u_meter ^ 2.                    Proof. units. Qed.

(** ** multiples of the electron volt *)
Lemma meV_def : u_meV = u_eV / 1000.                                    Proof. units. Qed.
Lemma keV_def : u_keV = 1000 * u_eV.                                    Proof. units. Qed.
Lemma MeV_def : u_MeV = 1000000 * u_eV.                                 Proof. units. Qed.
Lemma GeV_def : u_GeV = 1000000000 * u_eV.                              Proof. units. Qed.
Lemma TeV_def : u_TeV = 1000000000000 * u_eV.                           Proof. units. Qed.
Lemma PeV_def : u_PeV = 1000000000000000 * u_eV.                        Proof. units. Qed.

(** ** the property's list, as conjunctions *)
Lemma derived_units_mechanical :
  u_Joule = u_kg * u_meter ^ 2 / u_sec ^ 2 /\ u_Newton = u_kg * u_meter / u_sec ^ 2 /\
  u_Watt = u_Joule / u_sec /\ u_Pa = u_Newton / u_meter ^ 2 /\
  u_erg = u_gram * u_cm ^ 2 / u_sec ^ 2 /\ u_erg = u_Joule / 10000000 /\
  u_dyne = u_gram * u_cm / u_sec ^ 2 /\ u_dyne = u_Newton / 100000 /\
  u_Hz * u_sec = 1 /\ u_kg = 1000 * u_gram /\ u_cal = 4184 / 1000 * u_Joule /\
  u_bar = 100000 * u_Pa /\ u_barye = u_Pa / 10 /\ u_meter / u_sec = 1 / 299792458 /\
  0 < u_gram /\ 0 < u_cm /\ 0 < u_sec.
Proof.
  repeat split; first [apply Joule_def|apply Newton_def|apply Watt_def|apply Pa_def|apply erg_def|apply erg_Joule
   |apply dyne_def|apply dyne_Newton|apply Hz_sec|apply kg_def|apply cal_def|apply bar_def|apply barye_def
   |apply speed_of_light|apply gram_pos|apply cm_pos|apply sec_pos].
Qed.

Lemma derived_units_electrical :
  u_Volt * u_Coulomb = u_Joule /\ u_Ampere = u_Coulomb / u_sec /\ u_Ohm = u_Volt / u_Ampere /\
  u_Watt = u_Volt * u_Ampere /\ u_Farad = u_Coulomb / u_Volt /\ u_Siemens * u_Ohm = 1 /\
  u_Tesla = u_Newton * u_sec / (u_Coulomb * u_meter) /\ u_Tesla = u_kg / (u_Coulomb * u_sec) /\
  u_Tesla = u_Volt * u_sec / u_meter ^ 2 /\ u_Gauss = u_Tesla / 10000 /\ u_Weber = u_Volt * u_sec /\
  0 < u_Coulomb.
Proof.
  repeat split; first [apply Volt_Coulomb|apply Ampere_def|apply Ohm_def|apply Watt_Volt_Ampere|apply Farad_def
   |apply Siemens_def|apply Tesla_def|apply Tesla_kg|apply Tesla_Volt|apply Gauss_def|apply Weber_def|apply Coulomb_pos].
Qed.

Lemma unit_multiples :
  (u_ms = u_sec / 1000 /\ u_ns = u_sec / 1000000000 /\ u_minute = 60 * u_sec /\ u_hr = 3600 * u_sec /\
   u_day = 86400 * u_sec /\ u_week = 604800 * u_sec /\ u_year = 31557600 * u_sec) /\
  (u_cm = u_meter / 100 /\ u_mm = u_meter / 1000 /\ u_km = 1000 * u_meter /\
   u_fm = u_meter / 1000000000000000 /\ u_Angstrom = u_meter / 10000000000 /\
   u_inch = 254 / 10000 * u_meter /\ u_foot = 3048 / 10000 * u_meter /\ u_yard = 9144 / 10000 * u_meter /\
   u_mile = 1609344 / 1000 * u_meter) /\
  (u_meV = u_eV / 1000 /\ u_keV = 1000 * u_eV /\ u_MeV = 1000000 * u_eV /\ u_GeV = 1000000000 * u_eV /\
   u_TeV = 1000000000000 * u_eV /\ u_PeV = 1000000000000000 * u_eV /\ u_GeV = 1).
Proof.
  repeat split; first [apply ms_def|apply ns_def|apply minute_def|apply hr_def|apply day_def|apply week_def|apply year_def
   |apply cm_def|apply mm_def|apply km_def|apply fm_def|apply Angstrom_def|apply inch_def|apply foot_def|apply yard_def
   |apply mile_def|apply meV_def|apply keV_def|apply MeV_def|apply GeV_def|apply TeV_def|apply PeV_def|apply GeV_is_one].
Qed.

(** ** the generated definitions are an order-free denotation of the generated list, hence the
    start-up theorem applies to them for every classification that passes the check *)
Theorem units_startup_sound (st : string -> bool) :
  safe st defs = true ->
  forall x b, In (x, b) defs -> startup st defs den x = den x.
Proof. intros Hs. exact (init_order_sound st defs den den_solves Hs). Qed.

Local Open Scope string_scope.
Lemma den_Joule : den "Joule" = u_Joule.  Proof. reflexivity. Qed.

(** the same, by name *)
Theorem units_startup_sound_name (st : string -> bool) (x : string) :
  safe st defs = true -> existsb (String.eqb x) (map fst defs) = true ->
  startup st defs den x = den x.
Proof.
  intros Hs Hx. apply existsb_eqb in Hx. apply in_map_iff in Hx as ([y b] & E & Hin). cbn in E. subst y.
  exact (units_startup_sound st Hs x b Hin).
Qed.

(** The classification of each configuration of the current run (g++ / clang++ at -O0 / -O2) is measured
    with nm and [safe (static_except dyn_measured) defs = true] is established by vm_compute in the generated
    file cases_C20_cfg.v (checks/C20.py), which instantiates [units_startup_sound] for it. *)
