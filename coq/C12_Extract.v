From Coq Require Import Extraction ExtrOcamlBasic ZArith List.
From LP Require Import Num C12_Model.
Extraction Language OCaml.
Extraction "C12_m.ml" gl_roots gl_assemble gl_rule gl_integrate_values gl_integrate_fun gl_integrate
  gl_rule_default gl_integrate_default mapM gl_integrate_funM gl_levelM gl_nest mapX gl_integrate_funX gl_levelX gl_nestX Z.of_nat Z.to_nat.
