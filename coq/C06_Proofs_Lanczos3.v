(** * C06 proofs, part 9 (3 of 3): |GammaLn(x+1) - GammaLn(x) - ln x| <= 1e-14 for the Lanczos formula over the reals, by Coq-Interval
    (Taylor models with bisection) on two ranges of x. *)
From Coq Require Import Reals ZArith List Lia Lra Bool.
From Interval Require Import Tactic.
From LP Require Import Num NumR C06_Model C06_Proofs_Lanczos0.
Local Open Scope R_scope.

Lemma glv_defect_3a x : 128 <= x <= 2048 -> Rabs (glv_defect x) <= 1 / 100000000000000.
Proof. intros H. lanczos_prep. interval with (i_bisect x, i_taylor x, i_prec 140, i_degree 14). Qed.

Lemma glv_defect_3b x : 2048 <= x <= 10001 -> Rabs (glv_defect x) <= 1 / 100000000000000.
Proof. intros H. lanczos_prep. interval with (i_bisect x, i_taylor x, i_prec 140, i_degree 14). Qed.
