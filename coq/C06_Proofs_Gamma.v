(** * C06 proofs, part 2: self-consistency of P, Q, Upper, Lower; the series of GammaPser;
    the modified-Lentz loop of GammaQcf. *)
From Coq Require Import Reals ZArith List Lia Lra Bool.
From LP Require Import Num NumR C06_Model.
Local Open Scope R_scope.

(** ** Definitional chains (kept as theorems so that a rewrite of one member breaks them) *)
Lemma gammap_of_q x a : gammap ROps x a = rmap (fun q => 1 - q) (gammaq ROps x a).
Proof. reflexivity. Qed.

Lemma p_plus_q x a p q : gammap ROps x a = Ok p -> gammaq ROps x a = Ok q -> p + q = 1.
Proof. rewrite gammap_of_q. intros Hp Hq. rewrite Hq in Hp. cbn in Hp. inversion Hp. lra. Qed.

Lemma p_defined_iff_q x a : (exists p, gammap ROps x a = Ok p) <-> (exists q, gammaq ROps x a = Ok q).
Proof.
  rewrite gammap_of_q. split; intros [v H].
  - destruct (gammaq ROps x a); try discriminate. eexists; reflexivity.
  - rewrite H. eexists; reflexivity.
Qed.

Lemma upper_plus_lower x s u l :
  upper_incomplete_gamma ROps x s = Ok u -> lower_incomplete_gamma ROps x s = Ok l ->
  exists g, gamma ROps s = Ok g /\ u + l = g.
Proof.
  unfold upper_incomplete_gamma, lower_incomplete_gamma. rewrite gammap_of_q.
  destruct (gamma ROps s) as [g| | |]; try discriminate. cbn [rbind].
  destruct (gammaq ROps x s) as [q| | |]; try discriminate. cbn.
  intros Hu Hl. inversion Hu; inversion Hl. exists g. split; [reflexivity|ring].
Qed.

Lemma gammaq_at_zero a : 0 < a -> gammaq ROps 0 a = Ok 1.
Proof.
  intros Ha. unfold gammaq. cbn [nltb nleb neqb n0 n1 ROps].
  destruct (Rltb_spec 0 0); [lra|]. destruct (Rleb_spec a 0); [lra|]. cbn [orb].
  destruct (Reqb_spec 0 0); [reflexivity|congruence].
Qed.

Lemma gammap_at_zero a : 0 < a -> gammap ROps 0 a = Ok 0.
Proof. intros Ha. rewrite gammap_of_q, gammaq_at_zero by exact Ha. cbn. f_equal. ring. Qed.

Lemma gammaq_guard x a : x < 0 \/ a <= 0 -> gammaq ROps x a = Exit.
Proof.
  intros H. unfold gammaq. cbn [nltb nleb n0 ROps].
  destruct (Rltb_spec x 0); [reflexivity|]. destruct (Rleb_spec a 0); [reflexivity|]. lra.
Qed.

(** which method answers *)
Lemma gammaq_branches x a : 0 < x -> 0 < a ->
  (100 < a -> gammaq ROps x a = gammaq_int ROps x a) /\
  (a <= 100 -> x < a + 1 -> gammaq ROps x a = rmap (fun p => 1 - p) (gammap_ser ROps x a)) /\
  (a <= 100 -> a + 1 <= x -> gammaq ROps x a = gammaq_cf ROps x a).
Proof.
  intros Hx Ha. unfold gammaq, ngtb. cbn [nltb nleb neqb n0 n1 nofZ nadd ROps].
  destruct (Rltb_spec x 0); [lra|]. destruct (Rleb_spec a 0); [lra|]. cbn [orb].
  destruct (Reqb_spec x 0); [lra|].
  repeat split; intros.
  - destruct (Rltb_spec 100 a); [reflexivity|lra].
  - destruct (Rltb_spec 100 a); [lra|]. destruct (Rltb_spec x (a + 1)); [reflexivity|lra].
  - destruct (Rltb_spec 100 a); [lra|]. destruct (Rltb_spec x (a + 1)); [lra|reflexivity].
Qed.

(** the quadrature branch returns a probability (the clamp of GammaQint) *)
Lemma gammaq_int_range x a q : gammaq_int ROps x a = Ok q -> 0 <= q <= 1.
Proof.
  unfold gammaq_int. destruct (gammaln ROps a) as [gln| | |]; try discriminate. cbn [rbind].
  match goal with |- rbind ?G _ = _ -> _ => destruct G as [P| | |] end; try discriminate. cbn [rbind].
  intros H. injection H as <-.
  unfold nmin, nmax. cbn [nltb nsub n0 n1 ROps].
  destruct (Rltb_spec 0 P); [destruct (Rltb_spec P 1)|destruct (Rltb_spec 0 1)]; lra.
Qed.

(** ** GammaPser: the loop state after k iterations is the k-th partial sum *)
Definition gser_body (x : R) (st : R * R * R) : R * R * R :=
  let '(ap, del, sum) := st in (ap + 1, del * (x / (ap + 1)), sum + del * (x / (ap + 1))).
Fixpoint gser_iter (k : nat) (x : R) (st : R * R * R) : R * R * R :=
  match k with O => st | S k' => gser_body x (gser_iter k' x st) end.
Lemma gser_iter_shift k x st : gser_iter k x (gser_body x st) = gser_body x (gser_iter k x st).
Proof. induction k; cbn [gser_iter]; [reflexivity|now rewrite IHk]. Qed.

(** the loop test  fabs(del) > fabs(sum)*eps  on a state *)
Definition gser_continue (st : R * R * R) : Prop :=
  let '(_, del, sum) := st in Rabs sum * dbl_eps ROps < Rabs del.

Lemma gser_loop_spec x fuel : forall ap del sum st,
  gser_loop ROps fuel x ap del sum = Ok st ->
  exists k, (k <= fuel)%nat /\ st = gser_iter k x (ap, del, sum) /\ ~ gser_continue st /\
            forall j, (j < k)%nat -> gser_continue (gser_iter j x (ap, del, sum)).
Proof.
  induction fuel as [|f IH]; intros ap del sum st; cbn [gser_loop]; unfold ngtb; cbn [nltb nabs nmul nadd ndiv n1 ROps];
    destruct (Rltb_spec (Rabs sum * dbl_eps ROps) (Rabs del)) as [Ht|Ht]; try discriminate.
  - intros H; inversion H; subst. exists 0%nat. repeat split; try lia. exact Ht.
  - intros H. apply IH in H. destruct H as (k & Hk & E & Hs & Hj). exists (S k). repeat split; try lia.
    + cbn [gser_iter]. rewrite <- gser_iter_shift. exact E.
    + exact Hs.
    + intros [|j] Hlt; [exact Ht|]. cbn [gser_iter]. rewrite <- gser_iter_shift. apply Hj. lia.
  - intros H; inversion H; subst. exists 0%nat. repeat split; try lia. exact Ht.
Qed.

(** a (a+1) ... (a+k) *)
Fixpoint rising (a : R) (k : nat) : R :=
  match k with O => a | S j => rising a j * (a + INR (S j)) end.
Definition gser_term (x a : R) (j : nat) : R := x ^ j / rising a j.

Lemma rising_neq a k : 0 < a -> rising a k <> 0.
Proof.
  intros Ha. assert (0 < rising a k); [|lra].
  induction k; cbn [rising]; [exact Ha|]. apply Rmult_lt_0_compat; [exact IHk|].
  assert (0 <= INR (S k)) by apply pos_INR. lra.
Qed.

Lemma gser_iter_closed x a k : 0 < a ->
  gser_iter k x (a, 1 / a, 1 / a) = (a + INR k, gser_term x a k, sum_f_R0 (gser_term x a) k).
Proof.
  intros Ha. induction k as [|k IH].
  - cbn [gser_iter sum_f_R0 INR]. unfold gser_term. cbn [pow rising]. rewrite Rplus_0_r. reflexivity.
  - cbn [gser_iter]. rewrite IH. cbn [gser_body sum_f_R0].
    assert (E : gser_term x a k * (x / (a + INR k + 1)) = gser_term x a (S k)).
    { unfold gser_term. cbn [rising pow]. rewrite S_INR. field. split; [|apply rising_neq; exact Ha].
      assert (0 <= INR k) by apply pos_INR. lra. }
    rewrite E. f_equal. f_equal. rewrite S_INR. ring.
Qed.

(** GammaPser(x,a) = (sum_{j<=k} x^j / (a(a+1)...(a+j))) * exp(-x + a ln x - GammaLn a), where k is the first index
    at which |term_k| <= |sum_k| * 2^-52, and k <= 100000 (else the model answers Fuel) *)
Lemma gser_partial_sums x a v : 0 < a -> gammap_ser ROps x a = Ok v ->
  exists k gln, gammaln ROps a = Ok gln /\ (Z.of_nat k <= 100000)%Z /\
    v = sum_f_R0 (gser_term x a) k * exp (- x + a * ln x - gln) /\
    Rabs (gser_term x a k) <= Rabs (sum_f_R0 (gser_term x a) k) * dbl_eps ROps /\
    forall j, (j < k)%nat -> Rabs (sum_f_R0 (gser_term x a) j) * dbl_eps ROps < Rabs (gser_term x a j).
Proof.
  intros Ha. unfold gammap_ser. destruct (gammaln ROps a) as [gln| | |]; try discriminate. cbn [rbind].
  destruct (gser_loop ROps loop_fuel x a (ndiv ROps (n1 ROps) a) (ndiv ROps (n1 ROps) a)) as [st| | |] eqn:E; try discriminate.
  cbn [rbind]. intros H. inversion H as [Hv]. clear H.
  apply gser_loop_spec in E. destruct E as (k & Hk & Est & Hstop & Hcont).
  cbn [ndiv n1 ROps] in Est, Hcont. rewrite gser_iter_closed in Est by exact Ha. subst st.
  exists k, gln. split; [reflexivity|]. split.
  { unfold loop_fuel in Hk. lia. }
  split; [reflexivity|]. split.
  - unfold gser_continue in Hstop. lra.
  - intros j Hj. specialize (Hcont j Hj). rewrite gser_iter_closed in Hcont by exact Ha. exact Hcont.
Qed.

(** ** GammaQcf: the modified-Lentz loop computes the convergents of the continued fraction *)
Section Lentz.
Variables x a : R.
Let fpmin := dbl_fpmin ROps.

(* the coefficients the code intends: a_i = -i(i-a), b_i = x + 2i + 1 - a *)
Definition cf_a (i : nat) : R := - INR i * (INR i - a).
Definition cf_b (i : nat) : R := x + 2 * INR i + 1 - a.

(* loop state after n executions of the body *)
Fixpoint lentz_run (n : nat) : (@lentz R) :=
  match n with O => lentz_init ROps x a | S k => lentz_body ROps a (lentz_run k) end.

(* the two solutions of the three-term recurrence U_i = b_i U_{i-1} + a_i U_{i-2}: (U_n, U_{n-1}) *)
Fixpoint cf_rec (u0 um1 : R) (n : nat) : R * R :=
  match n with
  | O => (u0, um1)
  | S k => let '(u, up) := cf_rec u0 um1 k in (cf_b (S k) * u + cf_a (S k) * up, u)
  end.
Definition cf_A n := fst (cf_rec (cf_b 0) 1 n).     Definition cf_Am n := snd (cf_rec (cf_b 0) 1 n).
Definition cf_Bt n := fst (cf_rec 1 fpmin n).       Definition cf_Btm n := snd (cf_rec 1 fpmin n).

(* neither clamp  if(fabs(d) < FPMIN) d = FPMIN;  if(fabs(c) < FPMIN) c = FPMIN;  triggers in the body run from s *)
Definition lentz_noclamp (s : (@lentz R)) : Prop :=
  let an := -1 * IZR (lz_i s) * (IZR (lz_i s) - a) in
  let b := lz_b s + 2 in
  fpmin <= Rabs (an * lz_d s + b) /\ fpmin <= Rabs (b + an / lz_c s).

Lemma fpmin_pos : 0 < fpmin.
Proof.
  unfold fpmin, dbl_fpmin, pow2_970. cbn [nlit ROps]. apply Rdiv_lt_0_compat; [lra|].
  apply IZR_lt. apply Z.pow_pos_nonneg; lia.
Qed.

Lemma lentz_body_noclamp s : lentz_noclamp s ->
  let an := -1 * IZR (lz_i s) * (IZR (lz_i s) - a) in
  let b := lz_b s + 2 in
  lentz_body ROps a s =
    mkLentz (lz_i s + 1) b (b + an / lz_c s) (1 / (an * lz_d s + b))
            (lz_h s * (1 / (an * lz_d s + b) * (b + an / lz_c s))) (1 / (an * lz_d s + b) * (b + an / lz_c s)).
Proof.
  intros [Hd Hc]. unfold lentz_body. fold fpmin. cbn [nneg n1 nmul nofZ nsub nadd ndiv nltb nabs ROps].
  replace (- (1) * IZR (lz_i s) * (IZR (lz_i s) - a)) with (-1 * IZR (lz_i s) * (IZR (lz_i s) - a)) by ring.
  destruct (Rltb_spec (Rabs (-1 * IZR (lz_i s) * (IZR (lz_i s) - a) * lz_d s + (lz_b s + 2))) fpmin); [lra|].
  destruct (Rltb_spec (Rabs (lz_b s + 2 + -1 * IZR (lz_i s) * (IZR (lz_i s) - a) / lz_c s)) fpmin); [lra|].
  reflexivity.
Qed.

Lemma Rabs_ge_pos_neq u : fpmin <= Rabs u -> u <> 0.
Proof. intros H E. subst u. rewrite Rabs_R0 in H. pose proof fpmin_pos. lra. Qed.

(** lentz_is_convergent: as long as no clamp triggers (and b_0 = x+1-a <> 0), after n iterations
    i = n+1, b = b_n, d = A_{n-1}/A_n, c = Bt_n/Bt_{n-1}, h = Bt_n/A_n, with A and Bt non-zero. *)
Theorem lentz_is_convergent : x + 1 - a <> 0 -> forall n,
  (forall k, (k < n)%nat -> lentz_noclamp (lentz_run k)) ->
  let s := lentz_run n in
  lz_i s = (Z.of_nat n + 1)%Z /\ lz_b s = cf_b n /\ cf_A n <> 0 /\ cf_Bt n <> 0 /\
  lz_d s = cf_Am n / cf_A n /\ lz_c s = cf_Bt n / cf_Btm n /\ lz_h s = cf_Bt n / cf_A n.
Proof.
  intros Hb0. induction n as [|n IH]; intros Hnc.
  - unfold cf_A, cf_Am, cf_Bt, cf_Btm, cf_b. cbn [lentz_run lentz_init cf_rec fst snd lz_i lz_b lz_c lz_d lz_h INR].
    cbn [n1 nadd nsub ndiv ROps]. fold fpmin. pose proof fpmin_pos.
    replace (x + 2 * 0 + 1 - a) with (x + 1 - a) by ring.
    repeat split; try reflexivity; try lra.
  - assert (Hn : forall k, (k < n)%nat -> lentz_noclamp (lentz_run k)) by (intros; apply Hnc; lia).
    destruct (IH Hn) as (Ii & Ib & HA & HB & Id & Ic & Ih). clear IH.
    assert (Hcl := Hnc n (Nat.lt_succ_diag_r n)).
    cbn [lentz_run]. rewrite (lentz_body_noclamp _ Hcl). cbn [lz_i lz_b lz_c lz_d lz_h].
    destruct Hcl as [Hd Hc]. cbn zeta in Hd, Hc.
    rewrite Ii, Ib, Id in *. rewrite Ic in *. rewrite Ih.
    replace (IZR (Z.of_nat n + 1)) with (INR (S n)) in * by (rewrite S_INR, plus_IZR, INR_IZR_INZ; reflexivity).
    replace (-1 * INR (S n) * (INR (S n) - a)) with (cf_a (S n)) in * by (unfold cf_a; ring).
    replace (cf_b n + 2) with (cf_b (S n)) in * by (unfold cf_b; rewrite S_INR; ring).
    unfold cf_A, cf_Am, cf_Bt, cf_Btm in *. cbn [cf_rec] in *.
    destruct (cf_rec (cf_b 0) 1 n) as [u up]. destruct (cf_rec 1 fpmin n) as [v vp]. cbn [fst snd] in *.
    set (bb := cf_b (S n)) in *. set (aa := cf_a (S n)) in *.
    assert (E1 : aa * (up / u) + bb = (bb * u + aa * up) / u) by (field; auto).
    assert (E2 : bb + aa / (v / vp) = (bb * v + aa * vp) / v).
    { destruct (Req_dec vp 0) as [Z|Z].
      - subst vp. unfold Rdiv at 2. rewrite Rinv_0, Rmult_0_r. unfold Rdiv at 1. rewrite Rinv_0. field. auto.
      - field. split; auto. }
    rewrite E1, E2 in *.
    apply Rabs_ge_pos_neq in Hd, Hc.
    assert (HA' : bb * u + aa * up <> 0).
    { intros Z. apply Hd. rewrite Z. unfold Rdiv. ring. }
    assert (HB' : bb * v + aa * vp <> 0).
    { intros Z. apply Hc. rewrite Z. unfold Rdiv. ring. }
    split; [lia|]. split; [reflexivity|]. split; [exact HA'|]. split; [exact HB'|].
    repeat split; field; auto.
Qed.

(** Bt differs from the true numerator sequence (started from (B_{-1},B_0) = (0,1)) by FPMIN times the
    solution started from (1,0): the recurrence is linear. *)
Lemma cf_rec_linear u0 um1 v0 vm1 t n :
  cf_rec (u0 + t * v0) (um1 + t * vm1) n =
  (fst (cf_rec u0 um1 n) + t * fst (cf_rec v0 vm1 n), snd (cf_rec u0 um1 n) + t * snd (cf_rec v0 vm1 n)).
Proof.
  induction n as [|n IH]; [reflexivity|]. cbn [cf_rec]. rewrite IH.
  destruct (cf_rec u0 um1 n) as [p q]. destruct (cf_rec v0 vm1 n) as [r s]. cbn [fst snd]. f_equal. ring.
Qed.
Definition cf_B n := fst (cf_rec 1 0 n).
Lemma cf_Bt_seed n : cf_Bt n = cf_B n + fpmin * fst (cf_rec 0 1 n).
Proof.
  unfold cf_Bt, cf_B. pose proof (cf_rec_linear 1 0 0 1 fpmin n) as H.
  replace (1 + fpmin * 0) with 1 in H by ring. replace (0 + fpmin * 1) with fpmin in H by ring.
  rewrite H. reflexivity.
Qed.

(** the loop function stops at the first state whose del is within eps of 1 *)
Definition lentz_continue (s : (@lentz R)) : Prop := dbl_eps ROps < Rabs (lz_del s - 1).
Fixpoint lentz_from (n : nat) (s : (@lentz R)) : (@lentz R) :=
  match n with O => s | S k => lentz_body ROps a (lentz_from k s) end.
Lemma lentz_from_shift n s : lentz_from n (lentz_body ROps a s) = lentz_body ROps a (lentz_from n s).
Proof. induction n; cbn [lentz_from]; [reflexivity|now rewrite IHn]. Qed.
Lemma lentz_run_from n : lentz_run n = lentz_from n (lentz_init ROps x a).
Proof. induction n; cbn [lentz_run lentz_from]; [reflexivity|now rewrite IHn]. Qed.

Lemma lentz_loop_spec fuel : forall s s', lentz_loop ROps fuel a s = Ok s' ->
  exists n, (n <= fuel)%nat /\ s' = lentz_from n s /\ ~ lentz_continue s' /\
            forall j, (j < n)%nat -> lentz_continue (lentz_from j s).
Proof.
  induction fuel as [|f IH]; intros s s'; cbn [lentz_loop]; unfold ngtb; cbn [nltb nabs nsub n1 ROps];
    destruct (Rltb_spec (dbl_eps ROps) (Rabs (lz_del s - 1))) as [Ht|Ht]; try discriminate.
  - intros H; inversion H; subst. exists 0%nat. repeat split; try lia. exact Ht.
  - intros H. apply IH in H. destruct H as (n & Hn & E & Hs & Hj). exists (S n). repeat split; try lia.
    + cbn [lentz_from]. rewrite <- lentz_from_shift. exact E.
    + exact Hs.
    + intros [|j] Hlt; [exact Ht|]. cbn [lentz_from]. rewrite <- lentz_from_shift. apply Hj. lia.
  - intros H; inversion H; subst. exists 0%nat. repeat split; try lia. exact Ht.
Qed.

(** GammaQcf(x,a) = exp(-x + a ln x - GammaLn a) * h_n, and h_n = Bt_n / A_n when no clamp triggered *)
Lemma gammaq_cf_spec v : gammaq_cf ROps x a = Ok v ->
  exists n gln, gammaln ROps a = Ok gln /\ (1 <= Z.of_nat n <= 100000)%Z /\
    v = exp (- x + a * ln x - gln) * lz_h (lentz_run n) /\
    Rabs (lz_del (lentz_run n) - 1) <= dbl_eps ROps /\
    (x + 1 - a <> 0 -> (forall k, (k < n)%nat -> lentz_noclamp (lentz_run k)) ->
       v = exp (- x + a * ln x - gln) * (cf_Bt n / cf_A n)).
Proof.
  unfold gammaq_cf. destruct (gammaln ROps a) as [gln| | |]; try discriminate. cbn [rbind].
  destruct (lentz_loop ROps loop_fuel a (lentz_init ROps x a)) as [s| | |] eqn:E; try discriminate.
  cbn [rbind]. intros H. inversion H as [Hv]. clear H.
  apply lentz_loop_spec in E. destruct E as (n & Hn & Es & Hstop & Hcont).
  rewrite <- lentz_run_from in Es. subst s.
  exists n, gln. split; [reflexivity|]. split.
  { split; [|unfold loop_fuel in Hn; lia]. destruct n; [|lia]. exfalso. apply Hstop.
    unfold lentz_continue. cbn [lentz_run lentz_init lz_del n0 ROps]. unfold dbl_eps, pow2_52. cbn [nlit ROps].
    replace (Rabs (0 - 1)) with 1 by (rewrite Rabs_left; lra).
    apply Rmult_lt_reg_r with (IZR (2 ^ 52)); [apply IZR_lt; reflexivity|].
    unfold Rdiv. rewrite Rmult_assoc, Rinv_l by (apply not_0_IZR; discriminate).
    rewrite !Rmult_1_l. apply IZR_lt. reflexivity. }
  split; [reflexivity|]. split.
  { unfold lentz_continue in Hstop. lra. }
  intros Hb Hnc. destruct (lentz_is_convergent Hb n Hnc) as (_ & _ & _ & _ & _ & _ & Hh).
  cbn [nmul nexp nadd nneg nsub nln ROps]. rewrite Hh. reflexivity.
Qed.
End Lentz.

(** Non-vacuity of the Lentz theorem: (x,a) = (5,2), the point of the repaired defect.  One iteration without clamp gives
    h_1 = Bt_1/A_1 with A_1 = b_1 b_0 + a_1 = 6*4 + 1 = 25 and Bt_1 = b_1 + a_1 FPMIN = 6 + FPMIN. *)
Example lentz_example :
  lentz_noclamp 2 (lentz_run 5 2 0) /\ cf_A 5 2 1 = 25 /\ cf_Bt 5 2 1 = 6 + dbl_fpmin ROps.
Proof.
  pose proof fpmin_pos as Hf.
  assert (Hsmall : dbl_fpmin ROps < 1).
  { unfold dbl_fpmin, pow2_970. cbn [nlit ROps]. apply Rmult_lt_reg_r with (IZR (2 ^ 970)); [apply IZR_lt; apply Z.pow_pos_nonneg; lia|].
    unfold Rdiv. rewrite Rmult_assoc, Rinv_l by (apply not_0_IZR; apply Z.pow_nonzero; lia).
    rewrite !Rmult_1_l. apply IZR_lt. apply Z.pow_gt_1; lia. }
  split; [|split].
  - unfold lentz_noclamp. cbn [lentz_run lentz_init lz_i lz_b lz_c lz_d n1 nadd nsub ndiv ROps].
    split.
    + replace (-1 * 1 * (1 - 2) * (1 / (5 + 1 - 2)) + (5 + 1 - 2 + 2)) with (25 / 4) by field.
      rewrite Rabs_pos_eq; lra.
    + replace (5 + 1 - 2 + 2 + -1 * 1 * (1 - 2) / (1 / dbl_fpmin ROps)) with (6 + dbl_fpmin ROps) by (field; lra).
      rewrite Rabs_pos_eq; lra.
  - unfold cf_A. cbn [cf_rec fst]. unfold cf_b, cf_a. cbn [INR]. ring.
  - unfold cf_Bt. cbn [cf_rec fst]. unfold cf_b, cf_a. cbn [INR]. ring.
Qed.
