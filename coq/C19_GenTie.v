(** * C19 T-tie: the definitions regenerated from src/Statistics.cpp and src/Utilities.cpp on every run
    (Gen_C19_Formulas.v, written by tools/cxx2gallina_C19.py from clang's AST) are the hand model of C19_Model.v.

    The generated terms follow the source statement by statement: a loop that updates several accumulators is ONE
    [fold_left] over a tuple of accumulators (the hand model has one fold per sum), `result.push_back` loops are
    [app result (map .. (seq 0 steps))], `unsigned` parameters are [Z], every literal is [nlit Ops num den m e].
    The lemmas below are therefore real proof obligations (fold fusion by induction over the data), not only [reflexivity].
    Literals: the hand model writes [n0], [n1], [nofZ Ops 2]; the two spellings agree in every arithmetic satisfying
    [LitLaws] (an integer literal is the integer).  The laws hold in the reals ([ROps_LitLaws]); in the double instance
    (OCaml only) the literals 0.0, 1.0, 2.0 are exactly the doubles 0, 1, 2 - that instance is compared with the library
    by the correspondence run.  A change of a formula, a loop bound, a comparison, a literal or an operand order in one of
    these C++ functions changes the generated term and breaks a lemma here before any case is run. *)
From Coq Require Import ZArith Bool List Lia Reals.
From LP Require Import Num NumR C19_Model Gen_C19_Formulas.
Import ListNotations.
Local Open Scope Z_scope.

(** one loop over several accumulators = one loop per accumulator (any state types, any data) *)
Lemma fold_pair2 {A B E : Type} (f1 : A -> E -> A) (f2 : B -> E -> B) (l : list E) (a : A) (b : B) :
  fold_left (fun st el => let '(x, y) := st in (f1 x el, f2 y el)) l (a, b) = (fold_left f1 l a, fold_left f2 l b).
Proof. revert a b. induction l as [|e l IH]; intros a b; cbn; [reflexivity|apply IH]. Qed.

Lemma fold_triple3 {A B C E : Type} (f1 : A -> E -> A) (f2 : B -> E -> B) (f3 : C -> E -> C) (l : list E) (a : A) (b : B) (c : C) :
  fold_left (fun st el => let '(x, y, z) := st in (f1 x el, f2 y el, f3 z el)) l (a, b, c)
  = (fold_left f1 l a, fold_left f2 l b, fold_left f3 l c).
Proof. revert a b c. induction l as [|e l IH]; intros a b c; cbn; [reflexivity|apply IH]. Qed.

Lemma Zltb_of_nat_2 (n : nat) : Z.ltb (Z.of_nat n) 2 = Nat.ltb n 2.
Proof. destruct (Z.ltb_spec (Z.of_nat n) 2), (Nat.ltb_spec n 2); try reflexivity; lia. Qed.

Section Tie.
Context {T : Type} (Ops : NumOps T).

Record LitLaws : Prop := {
  lit_integer : forall k m e, nlit Ops k 1 m e = nofZ Ops k;
  ofZ_0 : nofZ Ops 0 = n0 Ops;
  ofZ_1 : nofZ Ops 1 = n1 Ops }.

(** no literal is involved in the DataPoint operators: the tie holds in every number type *)
Lemma tie_DataPoint_lt a b : g_DataPoint_lt Ops a b = dp_lt Ops a b.
Proof. reflexivity. Qed.
Lemma tie_DataPoint_gt a b : g_DataPoint_gt Ops a b = dp_gt Ops a b.
Proof. reflexivity. Qed.
Lemma tie_DataPoint_eq a b : g_DataPoint_eq Ops a b = dp_eq Ops a b.
Proof. reflexivity. Qed.

Hypothesis LL : LitLaws.

Lemma lit0 m e : nlit Ops 0 1 m e = n0 Ops.
Proof. rewrite (lit_integer LL). apply (ofZ_0 LL). Qed.
Lemma lit1 m e : nlit Ops 1 1 m e = n1 Ops.
Proof. rewrite (lit_integer LL). apply (ofZ_1 LL). Qed.
Lemma lit2 m e : nlit Ops 2 1 m e = nofZ Ops 2.
Proof. apply (lit_integer LL). Qed.

Ltac norm := rewrite ?lit0, ?lit1, ?lit2.

Lemma tie_Arithmetic_Mean l : g_Arithmetic_Mean Ops l = arithmetic_mean Ops l.
Proof. unfold g_Arithmetic_Mean, arithmetic_mean, nsum, nlen. norm. reflexivity. Qed.

Lemma tie_Variance l : g_Variance Ops l = variance Ops l.
Proof.
  unfold g_Variance, variance, nlen. rewrite tie_Arithmetic_Mean. norm. reflexivity.
Qed.

Lemma tie_Standard_Deviation l : g_Standard_Deviation Ops l = standard_deviation Ops l.
Proof. unfold g_Standard_Deviation, standard_deviation. rewrite tie_Variance. reflexivity. Qed.

(** Weighted_Average returns `std::vector<double> {Average, sqrt(SE)}`; the hand model returns the pair *)
Lemma tie_Weighted_Average d :
  g_Weighted_Average Ops d = [fst (weighted_average Ops d); snd (weighted_average Ops d)].
Proof.
  unfold g_Weighted_Average, weighted_average. cbv zeta. norm.
  destruct (fold_left _ d (n0 Ops, n0 Ops)) as [s w] eqn:E1.
  pose proof (eq_trans (eq_sym E1)
    (fold_pair2 (fun acc (p : T * T) => nadd Ops acc (nmul Ops (snd p) (fst p)))
                (fun acc (p : T * T) => nadd Ops acc (snd p)) d (n0 Ops) (n0 Ops))) as P1.
  injection P1 as -> ->. clear E1. cbv beta iota. norm.
  destruct (fold_left _ d (n0 Ops, n0 Ops, n0 Ops)) as [[s1 s2] s3] eqn:E2.
  match type of E2 with fold_left _ _ _ = _ =>
  pose proof (eq_trans (eq_sym E2)
    (fold_triple3 _ _ _ d (n0 Ops) (n0 Ops) (n0 Ops))) as P2 end.
  injection P2 as -> -> ->. clear E2. cbv beta iota. norm. cbn [fst snd]. reflexivity.
Qed.

(** `unsigned int steps` is a [Z] in the generated term, a [nat] in the hand model *)
Lemma tie_Linear_Space mn mx (steps : nat) : g_Linear_Space Ops mn mx (Z.of_nat steps) = linear_space Ops mn mx steps.
Proof.
  unfold g_Linear_Space, linear_space. rewrite Zltb_of_nat_2, Nat2Z.id. norm. reflexivity.
Qed.

Lemma tie_Log_Space mn mx (steps : nat) : g_Log_Space Ops mn mx (Z.of_nat steps) = log_space Ops mn mx steps.
Proof.
  unfold g_Log_Space, log_space. rewrite Zltb_of_nat_2, Nat2Z.id. norm. reflexivity.
Qed.
End Tie.

(** The literal laws hold in the reals: non-vacuity of [LitLaws], and the instance the analytic theorems of C19 are about. *)
Lemma ROps_LitLaws : LitLaws ROps.
Proof. split; cbn; intros; try reflexivity. unfold Rdiv. rewrite Rinv_1. ring. Qed.
