(** * C20 — In_Units overloads and the export / import round trip: lemmas and proofs.
    Everything up to the section [Precision] holds for an ARBITRARY number type and arbitrary
    operations (no arithmetic law is used): it is about shapes, token streams, line counting and
    which operation is applied to which entry, hence holds verbatim for IEEE doubles. *)
From Coq Require Import String.
From Coq Require Import ZArith Bool Reals Lia Lra List.
From LP Require Import Num NumR C20_Model.
Import ListNotations.
Local Open Scope list_scope.

(** ** mapM *)
Lemma mapM_Ok_Forall2 {A B} (f : A -> res B) l r :
  mapM f l = Ok r -> Forall2 (fun a b => f a = Ok b) l r.
Proof.
  revert r. induction l as [|a tl IH]; cbn; intros r H.
  - inversion H. constructor.
  - destruct (f a) eqn:Ea; cbn in H; try discriminate.
    destruct (mapM f tl) eqn:Et; cbn in H; try discriminate.
    inversion H; subst. constructor; auto.
Qed.

Lemma Forall2_length' {A B} (P : A -> B -> Prop) l r : Forall2 P l r -> length r = length l.
Proof. induction 1; cbn; congruence. Qed.

Lemma Forall2_impl' {A B} (P Q : A -> B -> Prop) l r :
  (forall a b, P a b -> Q a b) -> Forall2 P l r -> Forall2 Q l r.
Proof. intros H; induction 1; constructor; auto. Qed.

Lemma mapM_all_Ok {A B} (f : A -> res B) (g : A -> B) l :
  (forall a, In a l -> f a = Ok (g a)) -> mapM f l = Ok (map g l).
Proof.
  induction l as [|a tl IH]; cbn; intros H; [reflexivity|].
  rewrite (H a) by auto. cbn. rewrite IH by auto. reflexivity.
Qed.

Definition ok_or_exit {A} (r : res A) : Prop := match r with Ok _ | Exit => True | _ => False end.

Lemma mapM_ok_or_exit {A B} (f : A -> res B) l : (forall a, ok_or_exit (f a)) -> ok_or_exit (mapM f l).
Proof.
  intros H. induction l as [|a tl IH]; cbn; [exact I|].
  specialize (H a). destruct (f a); cbn; try tauto. destruct (mapM f tl); cbn; tauto.
Qed.

Lemma mapM_Exit {A B} (f : A -> res B) l a :
  (forall a, ok_or_exit (f a)) -> In a l -> f a = Exit -> mapM f l = Exit.
Proof.
  intros H Hin Ha. induction l as [|b tl IH]; [destruct Hin|].
  cbn. destruct Hin as [->|Hin].
  - rewrite Ha. reflexivity.
  - pose proof (H b) as Hb. destruct (f b); cbn; try tauto. rewrite (IH Hin). reflexivity.
Qed.

(** ** In_Units *)
Section InUnits.
Context {T : Type} (Ops : NumOps T).

Lemma round_m_ok_or_exit N d : ok_or_exit (round_m Ops N d).
Proof. unfold round_m. destruct (7 <? d)%Z; cbn; [exact I|]. destruct (neqb Ops N (n0 Ops)); exact I. Qed.

Lemma in_units_ok_or_exit q dim r d : ok_or_exit (in_units Ops q dim r d).
Proof. unfold in_units. destruct r; cbn; [apply round_m_ok_or_exit|exact I]. Qed.

(** without rounding: the quotient *)
Lemma in_units_noround q dim d : in_units Ops q dim false d = Ok (ndiv Ops q dim).
Proof. reflexivity. Qed.
(** with rounding: Round of the quotient, the int digits converted to unsigned *)
Lemma in_units_round q dim d : in_units Ops q dim true d = round_m Ops (ndiv Ops q dim) (u32 d).
Proof. reflexivity. Qed.
(** more than 7 digits, or a negative int (which converts to a huge unsigned): exit *)
Lemma in_units_round_exit q dim d : (d < 0 \/ 7 < d)%Z -> (- 2147483648 <= d < 2147483648)%Z ->
  in_units Ops q dim true d = Exit.
Proof.
  intros H B. rewrite in_units_round. unfold round_m, u32.
  replace (7 <? d mod 4294967296)%Z with true; [reflexivity|].
  symmetry. apply Z.ltb_lt. destruct H as [H|H].
  - replace d with (d + 4294967296 - 1 * 4294967296)%Z by ring.
    rewrite Zminus_mod, Z_mod_mult, Z.sub_0_r, Z.mod_mod by lia. rewrite Z.mod_small; lia.
  - rewrite Z.mod_small; lia.
Qed.

(** std::vector<double> and Vector overloads: element-wise, same length *)
Lemma in_units_list_spec qs dim r d l :
  in_units_list Ops qs dim r d = Ok l ->
  length l = length qs /\ Forall2 (fun q y => in_units Ops q dim r d = Ok y) qs l.
Proof. intros H. apply mapM_Ok_Forall2 in H. split; [eapply Forall2_length'; eauto|exact H]. Qed.

Lemma in_units_list_noround qs dim d :
  in_units_list Ops qs dim false d = Ok (map (fun q => ndiv Ops q dim) qs).
Proof. apply mapM_all_Ok. intros; reflexivity. Qed.

Lemma in_units_list_ok_or_exit qs dim r d : ok_or_exit (in_units_list Ops qs dim r d).
Proof. apply mapM_ok_or_exit. intros; apply in_units_ok_or_exit. Qed.

(** vector<vector<double>> with one dimension, and Matrix *)
Lemma in_units_table_spec qs dim r d t :
  in_units_table Ops qs dim r d = Ok t ->
  length t = length qs /\
  Forall2 (fun row trow => length trow = length row /\
                           Forall2 (fun q y => in_units Ops q dim r d = Ok y) row trow) qs t.
Proof.
  intros H. apply mapM_Ok_Forall2 in H. split; [eapply Forall2_length'; eauto|].
  eapply Forall2_impl'; [|exact H]. intros row trow E. apply in_units_list_spec in E. exact E.
Qed.

Lemma in_units_table_noround qs dim d :
  in_units_table Ops qs dim false d = Ok (map (map (fun q => ndiv Ops q dim)) qs).
Proof. apply mapM_all_Ok. intros; apply in_units_list_noround. Qed.

(** vector<vector<double>> with one dimension per column *)
Lemma in_units_table_dims_spec qs dims r d t :
  in_units_table_dims Ops qs dims r d = Ok t ->
  length t = length qs /\
  Forall2 (fun row trow => length row = length dims /\ length trow = length row /\
             Forall2 (fun qd y => in_units Ops (fst qd) (snd qd) r d = Ok y) (combine row dims) trow) qs t.
Proof.
  intros H. apply mapM_Ok_Forall2 in H. split; [eapply Forall2_length'; eauto|].
  eapply Forall2_impl'; [|exact H]. cbn. intros row trow E.
  destruct (Nat.eqb (length row) (length dims)) eqn:El; [|discriminate].
  apply Nat.eqb_eq in El. apply mapM_Ok_Forall2 in E. split; [exact El|]. split; [|exact E].
  rewrite (Forall2_length' _ _ _ E), combine_length. lia.
Qed.

Lemma in_units_table_dims_noround qs dims d :
  Forall (fun row => length row = length dims) qs ->
  in_units_table_dims Ops qs dims false d =
  Ok (map (fun row => map (fun qd => ndiv Ops (fst qd) (snd qd)) (combine row dims)) qs).
Proof.
  intros H. apply mapM_all_Ok. intros row Hin. rewrite Forall_forall in H.
  rewrite (H row Hin), Nat.eqb_refl. apply mapM_all_Ok. intros; reflexivity.
Qed.

(** a row whose length differs from the number of dimensions terminates the process *)
Lemma in_units_table_dims_mismatch qs dims r d row :
  In row qs -> length row <> length dims -> in_units_table_dims Ops qs dims r d = Exit.
Proof.
  intros Hin Hne. unfold in_units_table_dims.
  eapply mapM_Exit with (a := row); [|exact Hin|].
  - intros a. destruct (Nat.eqb (length a) (length dims)); [|exact I].
    apply mapM_ok_or_exit. intros; apply in_units_ok_or_exit.
  - apply Nat.eqb_neq in Hne. rewrite Hne. reflexivity.
Qed.
End InUnits.

(** over the reals: In_Units undoes the multiplication by a (non-zero) unit, entry by entry *)
Local Open Scope R_scope.
Lemma in_units_undoes (x dim : R) d : dim <> 0 -> in_units ROps (x * dim) dim false d = Ok x.
Proof. intros H. cbn. f_equal. field. exact H. Qed.

Lemma in_units_list_undoes (xs : list R) (dim : R) d : dim <> 0 ->
  in_units_list ROps (map (fun x => x * dim) xs) dim false d = Ok xs.
Proof.
  intros H. rewrite in_units_list_noround, map_map. f_equal.
  rewrite <- (map_id xs) at 2. apply map_ext. intros; cbn; field; exact H.
Qed.

Lemma in_units_table_undoes (t : list (list R)) (dim : R) d : dim <> 0 ->
  in_units_table ROps (map (map (fun x => x * dim)) t) dim false d = Ok t.
Proof.
  intros H. rewrite in_units_table_noround, map_map. f_equal.
  rewrite <- (map_id t) at 2. apply map_ext. intros row. rewrite map_map.
  rewrite <- (map_id row) at 2. apply map_ext. intros; cbn; field; exact H.
Qed.

Lemma in_units_table_dims_undoes (t : list (list R)) (dims : list R) d :
  Forall (fun dm => dm <> 0) dims -> Forall (fun row => length row = length dims) t ->
  in_units_table_dims ROps (map (fun row => map (fun xd => fst xd * snd xd) (combine row dims)) t) dims false d = Ok t.
Proof.
  intros Hd Hl. rewrite in_units_table_dims_noround.
  - f_equal. rewrite map_map. rewrite <- (map_id t) at 2. apply map_ext_in. intros row Hin.
    rewrite Forall_forall in Hl. specialize (Hl row Hin).
    clear Hin. revert dims Hd Hl. induction row as [|x tl IH]; intros [|dm dt] Hd Hl; cbn in *; try discriminate; [reflexivity|].
    inversion Hd; subst. f_equal; [field; auto|]. apply IH; auto.
  - rewrite Forall_forall in *. intros row Hin. apply in_map_iff in Hin as (r0 & <- & Hin0).
    rewrite map_length, combine_length, (Hl r0 Hin0). lia.
Qed.

(** Reduced_Mass: symmetric; for positive masses below both of them *)
Lemma reduced_mass_sym (m1 m2 : R) : reduced_mass ROps m1 m2 = reduced_mass ROps m2 m1.
Proof. unfold reduced_mass; cbn. rewrite (Rmult_comm m1 m2), (Rplus_comm m1 m2). reflexivity. Qed.
Lemma reduced_mass_below (m1 m2 : R) : 0 < m1 -> 0 < m2 ->
  0 < reduced_mass ROps m1 m2 /\ reduced_mass ROps m1 m2 < m1 /\ reduced_mass ROps m1 m2 < m2.
Proof.
  intros H1 H2. unfold reduced_mass; cbn.
  assert (Hs : 0 < m1 + m2) by lra. assert (Hp : 0 < m1 * m2) by (apply Rmult_lt_0_compat; auto).
  repeat split.
  - apply Rdiv_lt_0_compat; auto.
  - apply Rmult_lt_reg_r with (m1 + m2); auto. unfold Rdiv. rewrite Rmult_assoc, Rinv_l by lra. nra.
  - apply Rmult_lt_reg_r with (m1 + m2); auto. unfold Rdiv. rewrite Rmult_assoc, Rinv_l by lra. nra.
Qed.
Local Close Scope R_scope.

(** ** the round trip *)
Lemma nth_mapi_from {A B} (f : nat -> A -> B) l : forall k j dA dB,
  (j < length l)%nat -> nth j (mapi_from k f l) dB = f (k + j)%nat (nth j l dA).
Proof.
  induction l as [|a tl IH]; intros k j dA dB Hj; cbn in *; [lia|].
  destruct j; [rewrite Nat.add_0_r; reflexivity|].
  rewrite (IH (S k) j dA dB) by lia. f_equal. lia.
Qed.

Lemma mapi_from_length {A B} (f : nat -> A -> B) l k : length (mapi_from k f l) = length l.
Proof. revert k; induction l; cbn; intros; [reflexivity|rewrite IHl; reflexivity]. Qed.

Lemma mapi_from_compose {A B C} (f : nat -> A -> B) (g : nat -> B -> C) l k :
  mapi_from k g (mapi_from k f l) = mapi_from k (fun j x => g j (f j x)) l.
Proof. revert k; induction l; cbn; intros; [reflexivity|rewrite IHl; reflexivity]. Qed.

Lemma mapi_from_map {A B C} (f : nat -> A -> B) (h : B -> C) l k :
  map h (mapi_from k f l) = mapi_from k (fun j x => h (f j x)) l.
Proof. revert k; induction l; cbn; intros; [reflexivity|rewrite IHl; reflexivity]. Qed.

Section RoundTrip.
Context {T : Type} (Ops : NumOps T) (fmt6 : T -> T).
Local Notation Numt := (@Num T).

Lemma read_nums_map_Num (l : list T) : read_nums (map Numt l) = l.
Proof. induction l; cbn; [reflexivity|rewrite IHl; reflexivity]. Qed.

Lemma after_header_app (header r : @file T) : after_header (header ++ r) (length header) = concat r.
Proof.
  unfold after_header. f_equal. rewrite skipn_app, skipn_all, Nat.sub_diag. reflexivity.
Qed.

(** *** lists *)
Theorem roundtrip_list_eq (header : list (@line T)) (data : list T) (dim : T) :
  roundtrip_list Ops fmt6 header data dim =
  Ok (map (fun x => nmul Ops (fmt6 (ndiv Ops x dim)) dim) data).
Proof.
  unfold roundtrip_list, import_list, export_list. rewrite after_header_app. f_equal.
  rewrite <- (map_map (fun x => fmt6 (in_units_plain Ops x dim)) (fun y => [Numt y])).
  rewrite <- (map_map (fun x => fmt6 (in_units_plain Ops x dim)) (fun y => nmul Ops y dim)).
  f_equal. induction (map (fun x : T => fmt6 (in_units_plain Ops x dim)) data) as [|y tl IH]; cbn; [reflexivity|].
  rewrite IH. reflexivity.
Qed.

(** Count_Lines of what Export_List wrote: header lines plus one line per value *)
Lemma count_lines_export_list header data dim :
  (Z.of_nat (length header + length data) < 4294967296)%Z ->
  count_lines (Some (export_list Ops fmt6 header data dim)) = Z.of_nat (length header + length data).
Proof.
  intros H. unfold count_lines, export_list, u32. rewrite app_length, map_length. apply Z.mod_small. lia.
Qed.

(** *** tables *)
Definition rect (c : nat) (tbl : list (list T)) : Prop := Forall (fun row => length row = c) tbl.

Definition written (dims : list T) (j : nat) (x : T) : T := fmt6 (in_units_plain Ops x (dim_at Ops dims j)).

Lemma export_row_eq dims row : export_row Ops fmt6 dims row = map Numt (mapi_from 0 (written dims) row).
Proof. unfold export_row. rewrite mapi_from_map. reflexivity. Qed.

Lemma export_rows_rect dims c tbl :
  (1 <= c)%nat -> rect c tbl -> dims = [] \/ length dims = c ->
  export_rows Ops fmt6 dims tbl = Ok (map (export_row Ops fmt6 dims) tbl).
Proof.
  intros Hc Hr Hd. induction Hr as [|row tl Hrow Hr IH]; cbn; [reflexivity|].
  assert (E : is_nil dims || Nat.eqb (length dims) (length row) = true).
  { destruct Hd as [->|Hd]; [reflexivity|]. rewrite Hd, Hrow, Nat.eqb_refl. apply orb_true_r. }
  rewrite E, IH. cbn. destruct row; [cbn in Hrow; lia|reflexivity].
Qed.

Lemma concat_rect_length c (tbl : list (list T)) : rect c tbl -> length (concat tbl) = (length tbl * c)%nat.
Proof. induction 1 as [|row tl Hrow Hr IH]; cbn; [reflexivity|]. rewrite app_length, IH, Hrow. reflexivity. Qed.

Lemma chunks_concat c (tbl : list (list T)) : rect c tbl -> chunks (length tbl) c (concat tbl) = tbl.
Proof.
  induction 1 as [|row tl Hrow Hr IH]; cbn; [reflexivity|].
  rewrite firstn_app, <- Hrow, firstn_all, Nat.sub_diag, firstn_O, app_nil_r.
  rewrite skipn_app, skipn_all, Nat.sub_diag. cbn. rewrite Hrow in *. rewrite IH. reflexivity.
Qed.

Lemma concat_map_map_Num (tbl : list (list T)) : concat (map (map Numt) tbl) = map Numt (concat tbl).
Proof. induction tbl; cbn; [reflexivity|]. rewrite map_app, IHtbl. reflexivity. Qed.

(** the entry written, read back and multiplied by its unit again *)
Definition back (dims : list T) (j : nat) (x : T) : T :=
  nmul Ops (fmt6 (ndiv Ops x (dim_at Ops dims j))) (dim_at Ops dims j).

Theorem roundtrip_table_eq (header : list (@line T)) (tbl : list (list T)) (dims : list T) (c : nat) :
  tbl <> [] -> (1 <= c)%nat -> rect c tbl -> dims = [] \/ length dims = c ->
  (Z.of_nat (length header + length tbl) < 4294967296)%Z -> (Z.of_nat (length tbl * c) < 4294967296)%Z ->
  roundtrip_table Ops fmt6 header tbl dims (length header) =
  Ok (Z.of_nat (length header + length tbl), map (mapi_from 0 (back dims)) tbl).
Proof.
  intros Hne Hc Hr Hd Hlines Hsize.
  unfold roundtrip_table, export_table. rewrite (export_rows_rect dims c tbl Hc Hr Hd). cbn [rbind].
  set (W := map (mapi_from 0 (written dims)) tbl).
  assert (HW : rect c W).
  { unfold W, rect in *. rewrite Forall_map. eapply Forall_impl; [|exact Hr]. cbn. intros row E. rewrite mapi_from_length; exact E. }
  assert (EW : map (export_row Ops fmt6 dims) tbl = map (map Numt) W).
  { unfold W. rewrite map_map. apply map_ext. intros; apply export_row_eq. }
  rewrite EW.
  unfold import_table.
  match goal with |- context [count_lines ?f] =>
    assert (Hcount : count_lines f = Z.of_nat (length header + length tbl)) end.
  { unfold count_lines, u32. rewrite app_length, map_length. unfold W. rewrite map_length. apply Z.mod_small. lia. }
  rewrite Hcount, after_header_app, concat_map_map_Num, read_nums_map_Num.
  assert (Hlen : length (concat W) = (length tbl * c)%nat).
  { rewrite (concat_rect_length c W HW). unfold W. rewrite map_length. reflexivity. }
  assert (Hr1 : (1 <= length tbl)%nat) by (destruct tbl; [congruence|cbn; lia]).
  replace (Z.of_nat (length header + length tbl) <=? Z.of_nat (length header))%Z with false
    by (symmetry; apply Z.leb_gt; lia).
  assert (Hnn : is_nil (concat W) = false).
  { destruct (concat W) eqn:E; [|reflexivity]. cbn in Hlen. nia. }
  rewrite Hnn. cbn [orb].
  assert (Hrows : u32 (Z.of_nat (length header + length tbl) - Z.of_nat (length header)) = Z.of_nat (length tbl)).
  { unfold u32. rewrite Z.mod_small; lia. }
  rewrite Hrows, Hlen.
  assert (Hcols : u32 (Z.of_nat (length tbl * c) / Z.of_nat (length tbl)) = Z.of_nat c).
  { rewrite Nat2Z.inj_mul, Z.mul_comm, Z.div_mul by lia. unfold u32. apply Z.mod_small. nia. }
  rewrite Hcols.
  replace (u32 (Z.of_nat (length tbl) * Z.of_nat c) =? Z.of_nat (length tbl * c))%Z with true
    by (symmetry; apply Z.eqb_eq; unfold u32; rewrite <- Nat2Z.inj_mul; apply Z.mod_small; lia).
  cbn [negb].
  assert (Hskip : skipn (length header) (header ++ map (map Numt) W) = map (map Numt) W).
  { rewrite skipn_app, skipn_all, Nat.sub_diag. reflexivity. }
  rewrite Hskip.
  assert (Hper : forallb (fun l : list (@tok T) => (Z.of_nat (length (read_nums l)) =? Z.of_nat c)%Z) (map (map Numt) W) = true).
  { apply forallb_forall. intros l Hin. apply in_map_iff in Hin as (row & <- & Hrow).
    rewrite read_nums_map_Num. unfold rect in HW. rewrite Forall_forall in HW. rewrite (HW row Hrow). apply Z.eqb_refl. }
  rewrite Hper. cbn [negb].
  replace (negb (is_nil dims) && negb (Z.of_nat (length dims) =? Z.of_nat c)%Z) with false.
  2:{ destruct Hd as [->|Hd]; [reflexivity|]. rewrite Hd, Z.eqb_refl. cbn. symmetry; apply andb_false_r. }
  cbn [rbind]. rewrite !Nat2Z.id.
  replace (length tbl) with (length W) by (unfold W; apply map_length).
  rewrite (chunks_concat c W HW). unfold W. rewrite map_map.
  do 2 f_equal. apply map_ext. intros row. rewrite mapi_from_compose. reflexivity.
Qed.

(** shape and entries, spelled out *)
Corollary roundtrip_table_shape header tbl dims c :
  tbl <> [] -> (1 <= c)%nat -> rect c tbl -> dims = [] \/ length dims = c ->
  (Z.of_nat (length header + length tbl) < 4294967296)%Z -> (Z.of_nat (length tbl * c) < 4294967296)%Z ->
  exists t, roundtrip_table Ops fmt6 header tbl dims (length header) = Ok (Z.of_nat (length header + length tbl), t) /\
    length t = length tbl /\ rect c t /\
    forall i j, (i < length tbl)%nat -> (j < c)%nat ->
      nth j (nth i t []) (n0 Ops) = back dims j (nth j (nth i tbl []) (n0 Ops)).
Proof.
  intros Hne Hc Hr Hd Hl Hs. eexists. split; [apply (roundtrip_table_eq header tbl dims c); assumption|].
  split; [apply map_length|]. split.
  - unfold rect in *. rewrite Forall_map. eapply Forall_impl; [|exact Hr]. cbn. intros row E. rewrite mapi_from_length; exact E.
  - intros i j Hi Hj.
    assert (Hrow : length (nth i tbl []) = c) by (unfold rect in Hr; rewrite Forall_forall in Hr; apply Hr, nth_In, Hi).
    replace (@nil T) with (mapi_from 0 (back dims) []) at 1 by reflexivity. rewrite map_nth.
    rewrite (nth_mapi_from (back dims) (nth i tbl []) 0 j (n0 Ops) (n0 Ops)) by lia. reflexivity.
Qed.

(** *** tabulated functions: Export_Function writes the rows (x, f(x)) *)
Theorem roundtrip_function_eq (header : list (@line T)) (func : T -> T) (xs : list T) (dims : list T) :
  xs <> [] -> dims = [] \/ length dims = 2%nat ->
  (Z.of_nat (length header + length xs) < 4294967296)%Z -> (Z.of_nat (length xs * 2) < 4294967296)%Z ->
  roundtrip_function_list Ops fmt6 header func xs dims =
  Ok (Z.of_nat (length header + length xs), map (fun x => [back dims 0 x; back dims 1 (func x)]) xs).
Proof.
  intros Hne Hd Hl Hs.
  pose proof (roundtrip_table_eq header (map (fun x => [x; func x]) xs) dims 2) as H.
  rewrite !map_length in H. unfold roundtrip_table in H. unfold roundtrip_function_list, export_function_list.
  rewrite H; auto.
  - rewrite map_map. reflexivity.
  - destruct xs; [congruence|discriminate].
  - unfold rect. rewrite Forall_map. apply Forall_forall. intros; reflexivity.
Qed.
End RoundTrip.

(** ** Precision: over the reals, with the six-significant-digit text format as a premise *)
Local Open Scope R_scope.
Section Precision.
Variable fmt6 : R -> R.
Hypothesis fmt6_six_digits : forall y, Rabs (fmt6 y - y) <= 5 / 1000000 * Rabs y.

Lemma back_close (dims : list R) (j : nat) (x : R) :
  dim_at ROps dims j <> 0 -> Rabs (back ROps fmt6 dims j x - x) <= 5 / 1000000 * Rabs x.
Proof.
  intros Hd. unfold back. cbn [nmul ndiv ROps]. set (d := dim_at ROps dims j) in *.
  replace (fmt6 (x / d) * d - x) with ((fmt6 (x / d) - x / d) * d) by (field; exact Hd).
  rewrite Rabs_mult. pose proof (fmt6_six_digits (x / d)) as H.
  assert (E : Rabs x = Rabs (x / d) * Rabs d) by (rewrite <- Rabs_mult; f_equal; field; exact Hd).
  rewrite E. pose proof (Rabs_pos d). nra.
Qed.

Lemma scalar_back_close (x dim : R) :
  dim <> 0 -> Rabs (fmt6 (x / dim) * dim - x) <= 5 / 1000000 * Rabs x.
Proof. intros Hd. exact (back_close [dim] 0 x Hd). Qed.

(** Export_List / Import_List: same length, every value to six significant digits *)
Theorem list_roundtrip (header : list (@line R)) (data : list R) (dim : R) : dim <> 0 ->
  exists l, roundtrip_list ROps fmt6 header data dim = Ok l /\ length l = length data /\
    forall i, (i < length data)%nat -> Rabs (nth i l 0 - nth i data 0) <= 5 / 1000000 * Rabs (nth i data 0).
Proof.
  intros Hd. eexists. split; [apply roundtrip_list_eq|]. split; [apply map_length|].
  intros i Hi. cbn [nmul ndiv ROps].
  rewrite (nth_indep _ 0 ((fun x => fmt6 (x / dim) * dim) 0)) by (rewrite map_length; exact Hi).
  rewrite (map_nth (fun x => fmt6 (x / dim) * dim)). apply scalar_back_close. exact Hd.
Qed.

(** Export_Table / Import_Table: same shape, Count_Lines = header lines + rows, every entry to six
    significant digits — for every rectangular table with >= 1 row and >= 1 column, any header, any
    non-zero unit factors *)
Theorem reshape_roundtrip (header : list (@line R)) (tbl : list (list R)) (dims : list R) (c : nat) :
  tbl <> [] -> (1 <= c)%nat -> rect c tbl -> dims = [] \/ (length dims = c /\ Forall (fun d => d <> 0) dims) ->
  (Z.of_nat (length header + length tbl) < 4294967296)%Z -> (Z.of_nat (length tbl * c) < 4294967296)%Z ->
  exists t, roundtrip_table ROps fmt6 header tbl dims (length header) = Ok (Z.of_nat (length header + length tbl), t) /\
    length t = length tbl /\ rect c t /\
    forall i j, (i < length tbl)%nat -> (j < c)%nat ->
      let x := nth j (nth i tbl []) 0 in
      let y := nth j (nth i t []) 0 in
      y = fmt6 (x / dim_at ROps dims j) * dim_at ROps dims j /\ Rabs (y - x) <= 5 / 1000000 * Rabs x.
Proof.
  intros Hne Hc Hr Hd Hl Hs.
  destruct (roundtrip_table_shape ROps fmt6 header tbl dims c) as (t & E & L & R' & Ent); auto.
  { destruct Hd as [->|[Hd _]]; auto. }
  exists t. repeat split; auto.
  - apply (Ent i j H H0).
  - cbv zeta. change 0 with (n0 ROps). rewrite (Ent i j H H0). apply back_close.
    destruct Hd as [->|[Hd Hnz]]; [cbn; lra|].
    assert (Edim : dim_at ROps dims j = nth j dims 0).
    { unfold dim_at. destruct dims; [cbn in Hd; lia|reflexivity]. }
    rewrite Edim. rewrite Forall_forall in Hnz. apply Hnz, nth_In. lia.
Qed.
End Precision.

(** the premise is satisfiable and the theorems are not vacuous: the identity format, a 2 x 2 table
    with a two-line header and two different units *)
Example reshape_roundtrip_example :
  roundtrip_table ROps (fun y => y) [[Word]; [Word; Num 7]] [[1; 2]; [3; 4]] [2; 4] 2 =
  Ok (4%Z, [[1 / 2 * 2; 2 / 4 * 4]; [3 / 2 * 2; 4 / 4 * 4]]).
Proof.
  pose proof (roundtrip_table_eq ROps (fun y => y) [[Word]; [Word; Num 7]] [[1; 2]; [3; 4]] [2; 4] 2) as H.
  cbn [length Nat.add] in H.
  rewrite H; first [discriminate | cbn; lia | reflexivity | (right; reflexivity) | repeat constructor].
Qed.

(** the premise of the precision theorems is satisfiable (exact formatting), and also by a genuinely
    lossy format: truncation of the relative error to any factor within 5e-6 *)
Example fmt6_premise_satisfiable_id : forall y : R, (Rabs ((fun y => y) y - y) <= 5 / 1000000 * Rabs y)%R.
Proof. intros y. cbv beta. replace (y - y)%R with 0%R by ring. rewrite Rabs_R0. pose proof (Rabs_pos y). lra. Qed.
Example fmt6_premise_satisfiable_lossy :
  forall y : R, (Rabs ((fun y => y * (1 + 1 / 1000000)) y - y) <= 5 / 1000000 * Rabs y)%R.
Proof.
  intros y. cbv beta. replace (y * (1 + 1 / 1000000) - y)%R with (y * (1 / 1000000))%R by ring.
  rewrite Rabs_mult, (Rabs_right (1 / 1000000)) by lra. pose proof (Rabs_pos y). lra.
Qed.
