(** * C04 model: libphysica::Vector and libphysica::Matrix (src/Linear_Algebra.cpp,
    include/libphysica/Linear_Algebra.hpp), every public spelling of the algebra as its own function.
    Hand-written, plain Coq + NumOps (so that it extracts); tied to the code by the differential
    correspondence check (harness/C04.cpp vs the extraction of this file).

    Representation: exactly the data members of the classes.
      Vector = { dimension; components }            Matrix = { rows; columns; components (row-major) }
    The class invariant (components.size()==rows, every row has `columns` entries) is [wf_mat]; it is
    *not* built into the type: the theorems prove that every operation re-establishes it.
    New containers that the code fills entry by entry (result_components[i][j] = ...) are [tab2 r c f]
    (the table of f over 0<=i<r, 0<=j<c); reads are [ment]/[vent].  [Exit] = the code prints a
    diagnostic and calls std::exit; [OOB] = the code would index outside a std::vector (only the
    unchecked inner index j of M[i][j], see [m_at]). *)
From Coq Require Import ZArith List Bool Arith.
From LP Require Import Num.
Import ListNotations.

Record vec (T : Type) := mkVec { vdim : nat; vcomps : list T }.
Record mat (T : Type) := mkMat { mrows : nat; mcols : nat; mcomps : list (list T) }.
Arguments mkVec {T}. Arguments vdim {T}. Arguments vcomps {T}.
Arguments mkMat {T}. Arguments mrows {T}. Arguments mcols {T}. Arguments mcomps {T}.

(** the container filled by   for(i<n) c[i] = f(i)   *)
Definition tab {A} (n : nat) (f : nat -> A) : list A := map f (seq 0 n).
Definition tab2 {A} (r c : nat) (f : nat -> nat -> A) : list (list A) := tab r (fun i => tab c (f i)).
(** std::vector::erase(begin()+k) *)
Definition remove_nth {A} (k : nat) (l : list A) : list A := firstn k l ++ skipn (S k) l.
Definition sum_nat (l : list nat) : nat := fold_left Nat.add l 0.

Section Model.
Context {T : Type} (Ops : NumOps T).
Declare Scope num_scope.
Local Notation "x + y" := (nadd Ops x y) : num_scope.
Local Notation "x - y" := (nsub Ops x y) : num_scope.
Local Notation "x * y" := (nmul Ops x y) : num_scope.
Local Notation "x / y" := (ndiv Ops x y) : num_scope.
Delimit Scope num_scope with num.
Local Notation zero := (n0 Ops).
Local Notation one := (n1 Ops).
Local Open Scope res_scope.

(** ** Reads *)
Definition vent (v : vec T) (i : nat) : T := nth i (vcomps v) zero.
Definition ment (M : mat T) (i j : nat) : T := nth j (nth i (mcomps M) []) zero.
Definition tent (A : list (list T)) (i j : nat) : T := nth j (nth i A []) zero.

(** the class invariants *)
Definition wf_vec (v : vec T) : bool := length (vcomps v) =? vdim v.
Definition wf_mat (M : mat T) : bool :=
  (length (mcomps M) =? mrows M) && forallb (fun r => length r =? mcols M) (mcomps M).

(** ** Vector *)
(** Vector(std::vector<double> entries) *)
Definition vec_of (l : list T) : vec T := mkVec (length l) l.
(** Vector(dim, entry) *)
Definition vfill (dim : nat) (e : T) : vec T := mkVec dim (tab dim (fun _ => e)).

(** Vector::Dot *)
Definition vdot (u v : vec T) : res T :=
  if negb (vdim u =? vdim v) then Exit
  else Ok (fold_left (fun acc i => (acc + vent u i * vent v i)%num) (seq 0 (vdim u)) zero).
(** Vector::operator*(Vector) *)
Definition v_op_mul (u v : vec T) : res T := vdot u v.
(** Vector::Cross *)
Definition vcross (u v : vec T) : res (vec T) :=
  if negb (vdim u =? 3) || negb (vdim v =? 3) then Exit
  else Ok (vec_of [ (vent u 1 * vent v 2 - vent u 2 * vent v 1)%num;
                    (vent u 2 * vent v 0 - vent u 0 * vent v 2)%num;
                    (vent u 0 * vent v 1 - vent u 1 * vent v 0)%num ]).
(** Vector::Norm = sqrt of Dot with itself *)
Definition vnorm (v : vec T) : res T := rmap (nsqrt Ops) (vdot v v).
(** Vector::operator+ , operator- *)
Definition vadd (u v : vec T) : res (vec T) :=
  if negb (vdim u =? vdim v) then Exit
  else Ok (vec_of (tab (vdim u) (fun i => (vent u i + vent v i)%num))).
Definition vsub (u v : vec T) : res (vec T) :=
  if negb (vdim u =? vdim v) then Exit
  else Ok (vec_of (tab (vdim u) (fun i => (vent u i - vent v i)%num))).
(** Vector::operator+= , operator-= : update in place, dimension member untouched *)
Definition vadd_assign (u v : vec T) : res (vec T) :=
  if negb (vdim u =? vdim v) then Exit
  else Ok (mkVec (vdim u) (tab (vdim u) (fun i => (vent u i + vent v i)%num))).
Definition vsub_assign (u v : vec T) : res (vec T) :=
  if negb (vdim u =? vdim v) then Exit
  else Ok (mkVec (vdim u) (tab (vdim u) (fun i => (vent u i - vent v i)%num))).
(** Vector::operator*(double), operator/(double), free operator*(double, Vector) *)
Definition vscale (v : vec T) (s : T) : vec T := vec_of (tab (vdim v) (fun i => (vent v i * s)%num)).
Definition vdivs (v : vec T) (s : T) : vec T := vec_of (tab (vdim v) (fun i => (vent v i / s)%num)).
Definition s_mul_v (s : T) (v : vec T) : vec T := vec_of (tab (vdim v) (fun i => (vent v i * s)%num)).
(** operator==(Vector, Vector) *)
Definition veq (u v : vec T) : bool :=
  if negb (vdim u =? vdim v) then false
  else forallb (fun i => neqb Ops (vent u i) (vent v i)) (seq 0 (vdim u)).

(** ** Matrix constructors *)
Definition mk_mat (r c : nat) (f : nat -> nat -> T) : mat T := mkMat r c (tab2 r c f).
(** Matrix(std::vector<std::vector<double>> entries):
    rows(entries.size()), columns(entries.empty() ? 0 : entries[0].size()); exits on a ragged table *)
Definition mat_of_entries (e : list (list T)) : res (mat T) :=
  match e with
  | [] => Ok (mkMat 0 0 [])
  | r0 :: _ => if forallb (fun r => length r =? length r0) e
               then Ok (mkMat (length e) (length r0) e) else Exit
  end.
(** Matrix(rows, columns, entry) *)
Definition mat_fill (r c : nat) (e : T) : mat T := mk_mat r c (fun _ _ => e).
(** Matrix(std::vector<double> diagonal_entries) *)
Definition mat_diag (d : list T) : mat T :=
  mk_mat (length d) (length d) (fun i j => if i =? j then nth i d zero else zero).
(** Identity_Matrix(dim) *)
Definition identity (n : nat) : mat T := mat_diag (tab n (fun _ => one)).

(** Matrix(std::vector<std::vector<Matrix>> block_matrices).
    valid_dimension = grid and its first row non-empty, every grid row as long as row 0, every block
    has the columns of the block above it and the rows of the block to its left; else exit.
    Then components = zeros(sum block_rows, sum block_columns) and every block is written at its
    offsets, in the order of the double loop: the final value of entry (I,J) is that of the last
    block written over it ([block_entry], a fold over the blocks in loop order), 0.0 if none. *)
Definition get2 {A} (g : list (list A)) (r c : nat) : res A := let* row := get g r in get row c.
Definition blk (g : list (list (mat T))) (row col : nat) : mat T :=
  nth col (nth row g []) (mkMat 0 0 []).
Definition block_valid (g : list (list (mat T))) : bool :=
  negb (length g =? 0) && negb (length (nth 0 g []) =? 0) &&
  forallb (fun row : list (mat T) => length row =? length (nth 0 g [])) g &&
  forallb (fun row =>
    forallb (fun col =>
      ((row =? 0) || (mcols (blk g row col) =? mcols (blk g (row - 1) col))) &&
      ((col =? 0) || (mrows (blk g row col) =? mrows (blk g row (col - 1)))))
      (seq 0 (length (nth row g [])))) (seq 0 (length g)).
Definition block_rows (g : list (list (mat T))) : list nat :=
  map (fun row => mrows (blk g row 0)) (seq 0 (length g)).
Definition block_cols (g : list (list (mat T))) : list nat :=
  map (fun col => mcols (blk g 0 col)) (seq 0 (length (nth 0 g []))).
(** all blocks with the offsets at which the assignment loop writes them, in the order of the loop *)
Definition block_placed (g : list (list (mat T))) : list (nat * nat * mat T) :=
  flat_map (fun row =>
    map (fun col => (sum_nat (firstn row (block_rows g)), sum_nat (firstn col (block_cols g)), blk g row col))
        (seq 0 (length (nth row g [])))) (seq 0 (length g)).
Definition block_entry (placed : list (nat * nat * mat T)) (I J : nat) : T :=
  fold_left (fun acc p =>
               match p with
               | (io, jo, b) =>
                   if (io <=? I) && (I <? io + mrows b)%nat && (jo <=? J) && (J <? jo + mcols b)%nat
                   then ment b (I - io) (J - jo) else acc
               end) placed zero.
Definition mat_block (g : list (list (mat T))) : res (mat T) :=
  if negb (block_valid g) then Exit
  else Ok (mk_mat (sum_nat (block_rows g)) (sum_nat (block_cols g)) (block_entry (block_placed g))).

(** ** Size, components *)
(** M[i][j] through Matrix::operator[] (tests i >= rows; the inner std::vector is unchecked) *)
Definition m_at (M : mat T) (i j : nat) : res T :=
  if mrows M <=? i then Exit else get2 (mcomps M) i j.
Definition delete_row (M : mat T) (row : nat) : res (mat T) :=
  if mrows M <=? row then Exit
  else Ok (mkMat (mrows M - 1) (mcols M) (remove_nth row (mcomps M))).
Definition delete_column (M : mat T) (col : nat) : res (mat T) :=
  if mcols M <=? col then Exit
  else Ok (mkMat (mrows M) (mcols M - 1) (map (remove_nth col) (mcomps M))).
Definition return_row (M : mat T) (row : nat) : res (vec T) :=
  if mrows M <=? row then Exit else Ok (vec_of (nth row (mcomps M) [])).

(** ** Binary operations *)
Definition shape_differs (A B : mat T) : bool :=
  negb (mrows A =? mrows B) || negb (mcols A =? mcols B).
Definition m_plus (A B : mat T) : res (mat T) :=
  if shape_differs A B then Exit
  else mat_of_entries (tab2 (mrows A) (mcols A) (fun i j => (ment A i j + ment B i j)%num)).
Definition m_minus (A B : mat T) : res (mat T) :=
  if shape_differs A B then Exit
  else mat_of_entries (tab2 (mrows A) (mcols A) (fun i j => (ment A i j - ment B i j)%num)).
(** Product(double s): s * components[i][j] *)
Definition m_product_s (A : mat T) (s : T) : res (mat T) :=
  mat_of_entries (tab2 (mrows A) (mcols A) (fun i j => (s * ment A i j)%num)).
Definition dotk (A B : mat T) (i j : nat) : T :=
  fold_left (fun acc k => (acc + ment A i k * ment B k j)%num) (seq 0 (mcols A)) zero.
(** Product(const Matrix&): Matrix result(rows, M.Columns(), 0.0); result[i][j] += a_ik * m_kj, k ascending *)
Definition m_product (A B : mat T) : res (mat T) :=
  if negb (mcols A =? mrows B) then Exit
  else Ok (mk_mat (mrows A) (mcols B) (dotk A B)).
(** Product(const Vector&) *)
Definition m_product_v (A : mat T) (v : vec T) : res (vec T) :=
  if negb (vdim v =? mcols A) then Exit
  else Ok (vec_of (tab (mrows A) (fun i =>
         fold_left (fun acc j => (acc + ment A i j * vent v j)%num) (seq 0 (mcols A)) zero))).
Definition m_division (A : mat T) (s : T) : res (mat T) :=
  mat_of_entries (tab2 (mrows A) (mcols A) (fun i j => (ment A i j / s)%num)).

(** ** Matrix properties *)
Definition square (A : mat T) : bool := mrows A =? mcols A.
(** scans j = i .. columns-1 only; returns false at the first  a_ij != a_ji *)
Definition symmetric (A : mat T) : bool :=
  if negb (square A) then false
  else forallb (fun i => forallb (fun j => neqb Ops (ment A i j) (ment A j i))
                                 (seq i (mcols A - i))) (seq 0 (mrows A)).
Definition antisymmetric (A : mat T) : bool :=
  if negb (square A) then false
  else forallb (fun i => forallb (fun j => neqb Ops (ment A i j) (nneg Ops one * ment A j i)%num)
                                 (seq i (mcols A - i))) (seq 0 (mrows A)).
Definition diagonal (A : mat T) : bool :=
  if negb (square A) then false
  else forallb (fun i => forallb (fun j => (i =? j) || neqb Ops (ment A i j) zero)
                                 (seq 0 (mcols A))) (seq 0 (mrows A)).

(** ** Matrix operations *)
Definition transpose (A : mat T) : res (mat T) :=
  mat_of_entries (tab2 (mcols A) (mrows A) (fun j i => ment A i j)).
Definition trace (A : mat T) : res T :=
  if negb (mrows A =? mcols A) then Exit
  else Ok (fold_left (fun acc i => (acc + ment A i i)%num) (seq 0 (mrows A)) zero).
(** squared_norm += a_ij * a_ij  over i, then j, one accumulator *)
Definition m_norm2 (A : mat T) : T :=
  fold_left (fun acc i => fold_left (fun acc j => (acc + ment A i j * ment A i j)%num)
                                    (seq 0 (mcols A)) acc) (seq 0 (mrows A)) zero.
Definition m_norm (A : mat T) : T := nsqrt Ops (m_norm2 A).
(** Sub_Matrix(row, column): Matrix M(components); M.Delete_Row(row); M.Delete_Column(column) *)
Definition sub_matrix (A : mat T) (row col : nat) : res (mat T) :=
  let* M := mat_of_entries (mcomps A) in
  let* M1 := delete_row M row in
  delete_column M1 col.
(** the arguments are ints converted to unsigned int: a negative one is >= every row count *)
Definition sub_matrix_int (A : mat T) (row col : Z) : res (mat T) :=
  let* M := mat_of_entries (mcomps A) in
  if (row <? 0)%Z then Exit
  else let* M1 := delete_row M (Z.to_nat row) in
       if (col <? 0)%Z then Exit else delete_column M1 (Z.to_nat col).
Definition return_column (A : mat T) (col : nat) : res (vec T) :=
  if mcols A <=? col then Exit
  else let* At := transpose A in return_row At col.

(** ** Operators (members) *)
Definition m_op_plus (A B : mat T) : res (mat T) := m_plus A B.
Definition m_op_minus (A B : mat T) : res (mat T) := m_minus A B.
Definition m_op_mul (A B : mat T) : res (mat T) := m_product A B.
Definition m_op_mul_v (A : mat T) (v : vec T) : res (vec T) := m_product_v A v.
Definition m_op_mul_s (A : mat T) (s : T) : res (mat T) := m_product_s A s.
Definition m_op_div (A : mat T) (s : T) : res (mat T) := m_division A s.
(** operator+= , operator-= : components[i][j] += M[i][j] in place, rows/columns members untouched *)
Definition m_add_assign (A B : mat T) : res (mat T) :=
  if shape_differs A B then Exit
  else Ok (mk_mat (mrows A) (mcols A) (fun i j => (ment A i j + ment B i j)%num)).
Definition m_sub_assign (A B : mat T) : res (mat T) :=
  if shape_differs A B then Exit
  else Ok (mk_mat (mrows A) (mcols A) (fun i j => (ment A i j - ment B i j)%num)).

(** ** Operators (non-members) *)
Definition s_mul_m (s : T) (A : mat T) : res (mat T) := m_product_s A s.
(** operator*(Vector, Matrix): result[i] += v[j] * M[j][i] *)
Definition v_mul_m (v : vec T) (A : mat T) : res (vec T) :=
  if negb (vdim v =? mrows A) then Exit
  else Ok (vec_of (tab (mcols A) (fun i =>
         fold_left (fun acc j => (acc + vent v j * ment A j i)%num) (seq 0 (mrows A)) zero))).
(** operator==(Matrix, Matrix) *)
Definition m_eq (A B : mat T) : bool :=
  if shape_differs A B then false
  else forallb (fun i => forallb (fun j => neqb Ops (ment A i j) (ment B i j))
                                 (seq 0 (mcols A))) (seq 0 (mrows A)).
(** Outer_Vector_Product *)
Definition outer (u v : vec T) : mat T :=
  mk_mat (vdim u) (vdim v) (fun i j => (vent u i * vent v j)%num).

(** ** The row and column matrices of a vector (used to state the product laws) *)
Definition row_mat (v : vec T) : mat T := mk_mat 1 (vdim v) (fun _ j => vent v j).
Definition col_mat (v : vec T) : mat T := mk_mat (vdim v) 1 (fun i _ => vent v i).
End Model.
