(** * C06 proofs, part 12: theorems that hold in EVERY arithmetic (any instance of NumOps: the reals, and the IEEE doubles of the
    extracted program as they are, rounding, infinities and NaN included).  No law of arithmetic is used: the operations of [Ops]
    stay uninterpreted; only the control flow and the data flow of the model (= of the source) are reasoned about.

    1. Factorial's memo table in any arithmetic always holds the left-to-right products  F 0 = 1, F (k+1) = F k * (k+1)
       (each product formed ONCE by the arithmetic at hand, i.e. in doubles the rounded products the source forms), whatever the
       history of calls; a call answers F n; hence every call of the whole family in every history gets, bit for bit, the answer of a
       fresh process - in doubles, not only over the reals.
    2. The fuel the model gives to the source's uncapped loops (GammaPser, GammaQcf: 100000, GammaQint's panel loop: 64) is immaterial:
       an answer obtained with some fuel is the answer with every larger fuel (the answer of the unbounded loop). *)
From Coq Require Import ZArith List Lia Bool.
From LP Require Import Num OrdLaws C06_Model C06_Proofs_Fact.
Import ListNotations.

Section AnyArith.
Context {T : Type} (Ops : NumOps T).

(** the products the source forms:  FactorialList.back() * FactorialList.size()  from {1.0} *)
Fixpoint Fprod (k : nat) : T :=
  match k with O => n1 Ops | S j => nmul Ops (Fprod j) (nofZ Ops (Z.of_nat (S j))) end.

Lemma Fprod0 : n1 Ops = Fprod 0. Proof. reflexivity. Qed.
Lemma FprodS k : nmul Ops (Fprod k) (nofZ Ops (Z.of_nat (S k))) = Fprod (S k). Proof. reflexivity. Qed.

Definition tbl_ok : list T -> Prop := tbl_inv Ops Fprod.

Lemma tbl_ok_init : tbl_ok (fact_init Ops).
Proof. exact (tbl_inv_init Ops Fprod Fprod0). Qed.

Lemma factorial_step_free tbl n : tbl_ok tbl ->
  snd (factorial_step Ops tbl n) = snd (factorial_step Ops (fact_init Ops) n) /\
  tbl_ok (fst (factorial_step Ops tbl n)).
Proof.
  intros Hi. destruct (Z_le_gt_dec 0 n) as [H0|H0]; [destruct (Z_le_gt_dec n 170) as [H1|H1]|].
  - destruct (factorial_step_ok Ops Fprod FprodS tbl n Hi (conj H0 H1)) as (A & B & _).
    destruct (factorial_step_ok Ops Fprod FprodS _ n tbl_ok_init (conj H0 H1)) as (A' & _).
    rewrite A, A'. split; [reflexivity|exact B].
  - rewrite !factorial_step_exit by lia. split; [reflexivity|exact Hi].
  - rewrite !factorial_step_exit by lia. split; [reflexivity|exact Hi].
Qed.

(** every history of Factorial calls in any arithmetic: each call with 0 <= n <= 170 answers the product F n, each other call exits *)
Lemma factorial_run_any (ns : list Z) :
  Forall2 (fact_answer Fprod) ns (snd (factorial_run Ops (fact_init Ops) ns)) /\
  tbl_ok (fst (factorial_run Ops (fact_init Ops) ns)) /\
  exists ext, fst (factorial_run Ops (fact_init Ops) ns) = fact_init Ops ++ ext.
Proof. exact (factorial_run_spec Ops Fprod FprodS ns _ tbl_ok_init). Qed.

(** Binomial_Coefficient from any reachable table: on the Factorial branch the three answers are F n, F k, F (n-k) *)
Lemma binomial_step_free tbl n k : tbl_ok tbl ->
  snd (binomial_step Ops tbl n k) = snd (binomial_step Ops (fact_init Ops) n k) /\
  tbl_ok (fst (binomial_step Ops tbl n k)).
Proof.
  intros Hi. unfold binomial_step.
  destruct ((k <? 0)%Z || (n <? 0)%Z) eqn:E1; [split; [reflexivity|exact Hi]|].
  destruct (n <? k)%Z eqn:E2; [split; [reflexivity|exact Hi]|].
  destruct (n >? 170)%Z eqn:E3; [split; [reflexivity|exact Hi]|].
  apply orb_false_iff in E1. destruct E1 as [E1 E1']. apply Z.ltb_ge in E1, E1', E2.
  rewrite Z.gtb_ltb in E3. apply Z.ltb_ge in E3.
  assert (Hn : (0 <= n <= 170)%Z) by lia. assert (Hk : (0 <= k <= 170)%Z) by lia. assert (Hd : (0 <= n - k <= 170)%Z) by lia.
  (* the history *)
  destruct (factorial_step_ok Ops Fprod FprodS tbl n Hi Hn) as (A1 & B1 & _).
  destruct (factorial_step Ops tbl n) as [t1 f1]. cbn [fst snd] in A1, B1.
  destruct (factorial_step_ok Ops Fprod FprodS t1 k B1 Hk) as (A2 & B2 & _).
  destruct (factorial_step Ops t1 k) as [t2 f2]. cbn [fst snd] in A2, B2.
  destruct (factorial_step_ok Ops Fprod FprodS t2 (n - k) B2 Hd) as (A3 & B3 & _).
  destruct (factorial_step Ops t2 (n - k)) as [t3 f3]. cbn [fst snd] in A3, B3.
  (* the fresh process *)
  destruct (factorial_step_ok Ops Fprod FprodS _ n tbl_ok_init Hn) as (A1' & B1' & _).
  destruct (factorial_step Ops (fact_init Ops) n) as [u1 g1]. cbn [fst snd] in A1', B1'.
  destruct (factorial_step_ok Ops Fprod FprodS u1 k B1' Hk) as (A2' & B2' & _).
  destruct (factorial_step Ops u1 k) as [u2 g2]. cbn [fst snd] in A2', B2'.
  destruct (factorial_step_ok Ops Fprod FprodS u2 (n - k) B2' Hd) as (A3' & B3' & _).
  destruct (factorial_step Ops u2 (n - k)) as [u3 g3]. cbn [fst snd] in A3', B3'.
  subst. cbn [fst snd]. split; [reflexivity|exact B3].
Qed.

Lemma call_step_free tbl (c : call) : tbl_ok tbl ->
  snd (call_step Ops tbl c) = call_fresh Ops c /\ tbl_ok (fst (call_step Ops tbl c)).
Proof.
  intros Hi. unfold call_fresh.
  destruct c; cbn [call_step fst snd]; try (split; [reflexivity|exact Hi]).
  - apply factorial_step_free, Hi.
  - apply binomial_step_free, Hi.
Qed.

Lemma call_run_free (cs : list call) : forall tbl, tbl_ok tbl ->
  Forall (fun hf => fst hf = snd hf) (snd (call_run Ops tbl cs)) /\ tbl_ok (fst (call_run Ops tbl cs)) /\
  length (snd (call_run Ops tbl cs)) = length cs.
Proof.
  induction cs as [|c cs IH]; intros tbl Hi; cbn [call_run].
  - cbn. repeat split; try apply Hi. constructor.
  - destruct (call_step_free tbl c Hi) as [A B].
    destruct (call_step Ops tbl c) as [t1 o]. cbn [fst snd] in A, B.
    destruct (IH t1 B) as (C & D & E). destruct (call_run Ops t1 cs) as [t2 os]. cbn [fst snd] in *.
    repeat split; try apply D.
    + constructor; [exact A|exact C].
    + cbn [length]. now rewrite E.
Qed.

Theorem call_history_independent_any (cs : list call) :
  Forall (fun hf => fst hf = snd hf) (snd (call_run Ops (fact_init Ops) cs)) /\
  length (snd (call_run Ops (fact_init Ops) cs)) = length cs.
Proof. destruct (call_run_free cs _ tbl_ok_init) as (A & _ & B). split; assumption. Qed.

Theorem call_repeatable_any (c : call) (before between : list call) :
  let t1 := fst (call_run Ops (fact_init Ops) before) in
  let '(t2, o1) := call_step Ops t1 c in
  let t3 := fst (call_run Ops t2 between) in
  snd (call_step Ops t3 c) = o1.
Proof.
  cbn zeta.
  destruct (call_run_free before _ tbl_ok_init) as (_ & I1 & _).
  destruct (call_step_free _ c I1) as [A B].
  destruct (call_step Ops (fst (call_run Ops (fact_init Ops) before)) c) as [t2 o1]. cbn [fst snd] in *.
  destruct (call_run_free between _ B) as (_ & I3 & _).
  destruct (call_step_free _ c I3) as [C _]. now rewrite C, A.
Qed.

(** ** 2. Fuel is immaterial *)
Lemma gser_loop_fuel_mono f1 : forall x ap del sum v, gser_loop Ops f1 x ap del sum = Ok v ->
  forall f2, (f1 <= f2)%nat -> gser_loop Ops f2 x ap del sum = Ok v.
Proof.
  induction f1 as [|f1 IH]; intros x ap del sum v H f2 Hle.
  - destruct f2; cbn [gser_loop] in *; destruct (ngtb Ops (nabs Ops del) (nmul Ops (nabs Ops sum) (dbl_eps Ops))); try discriminate; exact H.
  - destruct f2 as [|f2]; [lia|]. cbn [gser_loop] in *.
    destruct (ngtb Ops (nabs Ops del) (nmul Ops (nabs Ops sum) (dbl_eps Ops))); [|exact H].
    apply IH; [exact H|lia].
Qed.

Lemma lentz_loop_fuel_mono f1 : forall a s v, lentz_loop Ops f1 a s = Ok v ->
  forall f2, (f1 <= f2)%nat -> lentz_loop Ops f2 a s = Ok v.
Proof.
  induction f1 as [|f1 IH]; intros a s v H f2 Hle.
  - destruct f2; cbn [lentz_loop] in *; destruct (ngtb Ops (nabs Ops (nsub Ops (lz_del s) (n1 Ops))) (dbl_eps Ops)); try discriminate; exact H.
  - destruct f2 as [|f2]; [lia|]. cbn [lentz_loop] in *.
    destruct (ngtb Ops (nabs Ops (nsub Ops (lz_del s) (n1 Ops))) (dbl_eps Ops)); [|exact H].
    apply IH; [exact H|lia].
Qed.

Lemma panel_loop_fuel_mono f1 : forall (f : T -> T) x w t1 acc v, panel_loop Ops f1 f x w t1 acc = Ok v ->
  forall f2, (f1 <= f2)%nat -> panel_loop Ops f2 f x w t1 acc = Ok v.
Proof.
  induction f1 as [|f1 IH]; intros f x w t1 acc v H f2 Hle.
  - destruct f2; cbn [panel_loop] in *; destruct (nltb Ops t1 x); try discriminate; exact H.
  - destruct f2 as [|f2]; [lia|]. cbn [panel_loop] in *.
    destruct (nltb Ops t1 x); [|exact H].
    apply IH; [exact H|lia].
Qed.

(** the loops only ever answer or run out of fuel (no Exit, no OOB) *)
Lemma gser_loop_ok_or_fuel f : forall x ap del sum, (exists v, gser_loop Ops f x ap del sum = Ok v) \/ gser_loop Ops f x ap del sum = Fuel.
Proof.
  induction f as [|f IH]; intros; cbn [gser_loop];
    destruct (ngtb Ops (nabs Ops del) (nmul Ops (nabs Ops sum) (dbl_eps Ops))); eauto.
Qed.

Lemma lentz_loop_ok_or_fuel f : forall a s, (exists v, lentz_loop Ops f a s = Ok v) \/ lentz_loop Ops f a s = Fuel.
Proof.
  induction f as [|f IH]; intros; cbn [lentz_loop];
    destruct (ngtb Ops (nabs Ops (nsub Ops (lz_del s) (n1 Ops))) (dbl_eps Ops)); eauto.
Qed.

Theorem fuel_immaterial :
  (forall f1 f2 x ap del sum v, (f1 <= f2)%nat -> gser_loop Ops f1 x ap del sum = Ok v -> gser_loop Ops f2 x ap del sum = Ok v) /\
  (forall f1 f2 a s v, (f1 <= f2)%nat -> lentz_loop Ops f1 a s = Ok v -> lentz_loop Ops f2 a s = Ok v) /\
  (forall f1 f2 (f : T -> T) x w t1 acc v, (f1 <= f2)%nat -> panel_loop Ops f1 f x w t1 acc = Ok v -> panel_loop Ops f2 f x w t1 acc = Ok v) /\
  (forall f x ap del sum, (exists v, gser_loop Ops f x ap del sum = Ok v) \/ gser_loop Ops f x ap del sum = Fuel) /\
  (forall f a s, (exists v, lentz_loop Ops f a s = Ok v) \/ lentz_loop Ops f a s = Fuel).
Proof.
  split; [|split; [|split; [|split]]].
  - intros. eapply gser_loop_fuel_mono; eassumption.
  - intros. eapply lentz_loop_fuel_mono; eassumption.
  - intros. eapply panel_loop_fuel_mono; eassumption.
  - apply gser_loop_ok_or_fuel.
  - apply lentz_loop_ok_or_fuel.
Qed.


(** ** 3. n! = n (n-1)! holds EXACTLY in any arithmetic: Factorial(n) is the one product Factorial(n-1) * n the source forms,
    from whatever reachable tables the two calls are served *)
Lemma factorial_recurrence_any (t1 t2 : list T) (n : Z) : tbl_ok t1 -> tbl_ok t2 -> (1 <= n <= 170)%Z ->
  exists w, snd (factorial_step Ops t1 (n - 1)) = Ok w /\ snd (factorial_step Ops t2 n) = Ok (nmul Ops w (nofZ Ops n)).
Proof.
  intros H1 H2 Hn.
  destruct (factorial_step_ok Ops Fprod FprodS t1 (n - 1) H1 ltac:(lia)) as (A & _).
  destruct (factorial_step_ok Ops Fprod FprodS t2 n H2 ltac:(lia)) as (B & _).
  exists (Fprod (Z.to_nat (n - 1))). split; [exact A|]. rewrite B. f_equal.
  replace (Z.to_nat n) with (S (Z.to_nat (n - 1))) by lia. cbn [Fprod]. do 2 f_equal. lia.
Qed.

(** Inv_GammaP's Halley loop in any arithmetic: an iterate that compares <= 0 is answered 0 at once *)
Lemma halley_nonpos_any (p a gln a1 lna1 afac x : T) (n : nat) : nleb Ops x (n0 Ops) = true ->
  halley Ops p a gln a1 lna1 afac (S n) x = Ok (n0 Ops).
Proof. intros H. cbn [halley]. rewrite H. reflexivity. Qed.

(** ** 4. In the order of the doubles: what GammaQint subtracts from 1 is a probability.
    Only the laws of a strict total order (OrdLaws: true of the non-NaN doubles as they are) and 0 < 1 are used. *)
Section Ord.
Hypothesis OL : OrdLaws Ops.
Hypothesis lt01 : nltb Ops (n0 Ops) (n1 Ops) = true.

Lemma lt_asym x y : nltb Ops x y = true -> nltb Ops y x = false.
Proof.
  intros H. destruct (nltb Ops y x) eqn:E; [|reflexivity].
  pose proof (ol_trans Ops OL _ _ _ H E) as F. rewrite (ol_irrefl Ops OL) in F. discriminate.
Qed.

Lemma clamp01_in_range g :
  let c := nmin Ops (n1 Ops) (nmax Ops (n0 Ops) g) in
  nleb Ops (n0 Ops) c = true /\ nleb Ops c (n1 Ops) = true.
Proof.
  cbn zeta. unfold nmin, nmax. rewrite !(ol_le Ops OL).
  destruct (nltb Ops (n0 Ops) g) eqn:E0.
  - destruct (nltb Ops g (n1 Ops)) eqn:E1.
    + rewrite (lt_asym _ _ E0), (lt_asym _ _ E1). split; reflexivity.
    + rewrite (lt_asym _ _ lt01), (ol_irrefl Ops OL). split; reflexivity.
  - rewrite lt01. rewrite (ol_irrefl Ops OL), (lt_asym _ _ lt01). split; reflexivity.
Qed.

Lemma gammaq_int_clamped x a q : gammaq_int Ops x a = Ok q ->
  exists g, q = nsub Ops (n1 Ops) g /\ nleb Ops (n0 Ops) g = true /\ nleb Ops g (n1 Ops) = true.
Proof.
  unfold gammaq_int. destruct (gammaln Ops a) as [gln| | |]; try discriminate. cbn [rbind].
  match goal with |- rbind ?r _ = _ -> _ => destruct r as [gP| | |] end; try discriminate. cbn [rbind].
  intros H. inversion H. eexists. split; [reflexivity|]. apply clamp01_in_range.
Qed.
End Ord.

End AnyArith.
