(** * C02 proofs, seventh pass.
    1. SHARPER ACCURACY ONLY CONTINUES THE SAME RUN (every instance of the number interface, induction over the
       iteration budget): the evaluation trace at accuracy acc is a prefix of the trace at any accuracy acc' that is
       "at most acc" in the sense of the width test, and the two runs differ only if the coarser one returned through
       the width test.
    2. The origin of x is immaterial (reals): f(x - c) on [a + c, b + c] is answered by the answer + c through every
       abscissa + c. *)
From Coq Require Import Reals ZArith List Bool Lra Lia.
From LP Require Import Num NumR OrdLaws C02_Model C02_Proofs C02_Proofs4.
Import ListNotations.

(** ** 1. accuracy prefix *)
Section AccPrefix.
Context {T : Type} (Ops : NumOps T).
Variable f : T -> T.
Variables acc acc' : T.
(** acc' is at most acc, as the width test [fabs(x2 - x1) < xAccuracy] sees it *)
Hypothesis Hle : forall w, nltb Ops w acc' = true -> nltb Ops w acc = true.

Lemma step_acc (s : st) :
  step Ops f acc' s = step Ops f acc s \/
  (exists x s' tr, step Ops f acc s = (inl (Ok (x, HBracket)), tr) /\ step Ops f acc' s = (inr s', tr)).
Proof.
  unfold step. cbv zeta.
  repeat match goal with |- context [if ?c then _ else _] => destruct c eqn:? end;
    try (left; reflexivity);
    try (right; do 3 eexists; split; reflexivity);
    exfalso;
    match goal with H : nltb Ops ?w acc' = true, H0 : nltb Ops ?w acc = false |- _ =>
      rewrite (Hle _ H) in H0; discriminate end.
Qed.

Lemma loop_acc : forall n s,
  loop Ops f acc' n s = loop Ops f acc n s \/
  (exists x tr2, fst (loop Ops f acc n s) = Ok (x, HBracket) /\ tr2 <> [] /\
     snd (loop Ops f acc' n s) = snd (loop Ops f acc n s) ++ tr2).
Proof.
  induction n as [|n IH]; intros s.
  - left. reflexivity.
  - cbn [loop]. destruct (step_acc s) as [E|(x & s' & tr & E1 & E2)].
    + rewrite E. destruct (step Ops f acc s) as [[o|s'] tr].
      * left. reflexivity.
      * destruct (IH s') as [E2|(x & tr2 & A & B & C)].
        -- rewrite E2. left. reflexivity.
        -- right. exists x, tr2.
           destruct (loop Ops f acc' n s') as [o1 t1], (loop Ops f acc n s') as [o2 t2]. cbn [fst snd] in *.
           split; [exact A|]. split; [exact B|]. rewrite C, app_assoc. reflexivity.
    + rewrite E1, E2. right. exists x, (snd (loop Ops f acc' n s')).
      pose proof (loop_trace_nonempty Ops f acc' n s') as NE.
      destruct (loop Ops f acc' n s') as [o1 t1]. cbn [fst snd] in *.
      split; [reflexivity|]. split; [exact NE|reflexivity].
Qed.

Theorem sharper_accuracy_continues (a b : T) :
  find_root_h Ops f a b acc' = find_root_h Ops f a b acc \/
  (exists x tr2, fst (find_root_h Ops f a b acc) = Ok (x, HBracket) /\ tr2 <> [] /\
     snd (find_root_h Ops f a b acc') = snd (find_root_h Ops f a b acc) ++ tr2).
Proof.
  unfold find_root_h.
  set (xl := if ngtb Ops a b then b else a). set (xr := if ngtb Ops a b then a else b).
  destruct (nisnan Ops (f xl) || nisnan Ops (f xr)); [left; reflexivity|].
  destruct (sign1 Ops (f xl) * sign1 Ops (f xr) >=? 0)%Z; [left; reflexivity|].
  set (s0 := mkst xl xr (f xl) (f xr) _).
  destruct (loop_acc max_iterations s0) as [E|(x & tr2 & A & B & C)].
  - rewrite E. left. reflexivity.
  - right. exists x, tr2.
    destruct (loop Ops f acc' max_iterations s0) as [o1 t1], (loop Ops f acc max_iterations s0) as [o2 t2].
    cbn [fst snd] in *. split; [exact A|]. split; [exact B|]. rewrite C. reflexivity.
Qed.
End AccPrefix.

(** on an ordered instance the premise is acc' <= acc *)
Lemma le_gives_test {T : Type} (Ops : NumOps T) (OL : OrdLaws Ops) (acc acc' : T) :
  nleb Ops acc' acc = true -> forall w, nltb Ops w acc' = true -> nltb Ops w acc = true.
Proof.
  intros H w Hw. rewrite (ol_le Ops OL) in H. apply negb_true_iff in H.
  destruct (ol_total Ops OL acc' acc) as [L|[E|L]].
  - exact (ol_trans Ops OL _ _ _ Hw L).
  - rewrite <- (ol_eq_lt_r Ops OL _ _ w E). exact Hw.
  - rewrite L in H. discriminate.
Qed.

Theorem sharper_accuracy_continues_ordered {T : Type} (Ops : NumOps T) (OL : OrdLaws Ops) (f : T -> T) (a b acc acc' : T) :
  nleb Ops acc' acc = true ->
  find_root_h Ops f a b acc' = find_root_h Ops f a b acc \/
  (exists x tr2, fst (find_root_h Ops f a b acc) = Ok (x, HBracket) /\ tr2 <> [] /\
     snd (find_root_h Ops f a b acc') = snd (find_root_h Ops f a b acc) ++ tr2).
Proof. intros H. apply sharper_accuracy_continues. exact (le_gives_test Ops OL acc acc' H). Qed.

(** over the reals, with the coarser answer located: the sharper run returns a number as well, and (with the accuracy
    theorem) both are ends of nested sign-change brackets *)
Theorem sharper_accuracy_continues_R (f : R -> R) (a b acc acc' : R) : (acc' <= acc)%R ->
  find_root_h ROps f a b acc' = find_root_h ROps f a b acc \/
  (exists x tr2, fst (find_root_h ROps f a b acc) = Ok (x, HBracket) /\ tr2 <> [] /\
     snd (find_root_h ROps f a b acc') = snd (find_root_h ROps f a b acc) ++ tr2).
Proof.
  intros H. apply (sharper_accuracy_continues_ordered ROps ROps_OrdLaws). cbn. apply Rleb_true. exact H.
Qed.

(** non-vacuity: the hypotheses are satisfiable (the reals are an ordered instance, 1 <= 3) *)
Example sharper_accuracy_example : nleb ROps 1%R 3%R = true /\ OrdLaws ROps.
Proof. split; [cbn; apply Rleb_true; lra|exact ROps_OrdLaws]. Qed.

(** ** 2. translation of x *)
Local Open Scope R_scope.
Definition xt (c : R) (f : R -> R) : R -> R := fun x => f (x - c).
Definition tout (c : R) (o : res (R * how)) : res (R * how) := rmap (fun p => (fst p + c, snd p)) o.

Lemma xt_at c f x : xt c f (x + c) = f x.
Proof. unfold xt. f_equal. ring. Qed.

Lemma Rmin_shift c p q : Rmin (p + c) (q + c) = Rmin p q + c.
Proof. unfold Rmin. destruct (Rle_dec (p + c) (q + c)), (Rle_dec p q); try reflexivity; exfalso; lra. Qed.
Lemma Rmax_shift c p q : Rmax (p + c) (q + c) = Rmax p q + c.
Proof. unfold Rmax. destruct (Rle_dec (p + c) (q + c)), (Rle_dec p q); try reflexivity; exfalso; lra. Qed.

Lemma width_test_shift c u v acc : Rltb (Rabs (u + c - (v + c))) acc = Rltb (Rabs (u - v)) acc.
Proof. replace (u + c - (v + c)) with (u - v) by ring. reflexivity. Qed.

Definition TRel (c : R) (s s' : @st R) : Prop :=
  sx1 s' = sx1 s + c /\ sx2 s' = sx2 s + c /\ sf1 s' = sf1 s /\ sf2 s' = sf2 s.

Lemma step_shifted f acc c s s' : sf1 s * sf2 s < 0 -> TRel c s s' ->
  snd (step ROps (xt c f) acc s') = map (fun x => x + c) (snd (step ROps f acc s)) /\
  match fst (step ROps f acc s), fst (step ROps (xt c f) acc s') with
  | inl o, inl o' => o' = tout c o
  | inr t, inr t' => TRel c t t' /\ sres t' = sres t + c
  | _, _ => False
  end.
Proof.
  intros Hs (E1 & E2 & E4 & E5).
  assert (Hs' : sf1 s' * sf2 s' < 0) by (rewrite E4, E5; exact Hs).
  rewrite (step_eq f acc s Hs), (step_eq (xt c f) acc s' Hs').
  assert (Em : mid s' = mid s + c) by (unfold mid; rewrite E1, E2; field).
  assert (Er : ridder (xt c f) s' = ridder f s + c).
  { unfold ridder. rewrite Em, E1, E4, E5, (xt_at c f _). unfold Rdiv. ring. }
  assert (Ec : nmax ROps (nmin ROps (sx1 s') (sx2 s')) (nmin ROps (nmax ROps (sx1 s') (sx2 s')) (ridder (xt c f) s')) =
               nmax ROps (nmin ROps (sx1 s) (sx2 s)) (nmin ROps (nmax ROps (sx1 s) (sx2 s)) (ridder f s)) + c).
  { rewrite !nmin_R, !nmax_R, Er, E1, E2. rewrite (Rmin_shift c), (Rmax_shift c).
    rewrite (Rmin_shift c), (Rmax_shift c). reflexivity. }
  rewrite Em, Ec.
  set (x3 := mid s). set (x4 := nmax ROps (nmin ROps (sx1 s) (sx2 s)) (nmin ROps (nmax ROps (sx1 s) (sx2 s)) (ridder f s))).
  unfold step_tail. rewrite !(xt_at c f _), E1, E2, E4, E5.
  destruct (Reqb (f x4) 0); [cbn; split; reflexivity|].
  destruct (nneb ROps (sign2 ROps (f x3) (f x4)) (f x3)).
  { cbn [sx1 sx2]. rewrite (width_test_shift c x4 x3 acc).
    destruct (Rltb (Rabs (x4 - x3)) acc); cbn; (split; [reflexivity|]); [reflexivity|unfold TRel; cbn; tauto]. }
  destruct (nneb ROps (sign2 ROps (sf1 s) (f x4)) (sf1 s)).
  { cbn [sx1 sx2]. rewrite (width_test_shift c x4 (sx1 s) acc).
    destruct (Rltb (Rabs (x4 - sx1 s)) acc); cbn; (split; [reflexivity|]); [reflexivity|unfold TRel; cbn; tauto]. }
  destruct (nneb ROps (sign2 ROps (sf2 s) (f x4)) (sf2 s)).
  { cbn [sx1 sx2]. rewrite (width_test_shift c (sx2 s) x4 acc).
    destruct (Rltb (Rabs (sx2 s - x4)) acc); cbn; (split; [reflexivity|]); [reflexivity|unfold TRel; cbn; tauto]. }
  cbn. split; reflexivity.
Qed.

Lemma loop_shifted f acc c : forall n s s', Inv f s -> TRel c s s' -> (n = 0%nat -> sres s' = sres s + c) ->
  loop ROps (xt c f) acc n s' = (tout c (fst (loop ROps f acc n s)), map (fun x => x + c) (snd (loop ROps f acc n s))).
Proof.
  induction n as [|n IH]; intros s s' HI HR H0.
  - cbn [loop fst snd]. rewrite (H0 eq_refl). reflexivity.
  - cbn [loop].
    pose proof HI as (_ & _ & Hs).
    destruct (step_shifted f acc c s s' Hs HR) as [T1 T2].
    destruct (step_spec f acc s HI) as (_ & _ & _ & Cases).
    destruct (step ROps f acc s) as [[o|t] tr] eqn:Est, (step ROps (xt c f) acc s') as [[o'|t'] tr'] eqn:Est';
      cbn [fst snd] in *; try contradiction; subst tr'.
    + subst o'. reflexivity.
    + destruct Cases as [[Eo _]|(_ & s'' & N & [[Eo _]|[Eo _]])]; try discriminate. inversion Eo; subst s''.
      destruct N as (HI' & _). destruct T2 as [T2 T3].
      rewrite (IH t t' HI' T2 (fun _ => T3)).
      destruct (loop ROps f acc n t) as [o2 tr2]. cbn [fst snd]. rewrite map_app. reflexivity.
Qed.

Theorem x_shift_covariant f c a b acc :
  find_root_h ROps (xt c f) (a + c) (b + c) acc =
  (tout c (fst (find_root_h ROps f a b acc)), map (fun x => x + c) (snd (find_root_h ROps f a b acc))).
Proof.
  rewrite !frh_eq. unfold frh_R.
  rewrite (Rmin_shift c a b), (Rmax_shift c a b).
  set (lo := Rmin a b). set (hi := Rmax a b).
  rewrite !(xt_at c f _).
  destruct (Rleb_spec 0 (f lo * f hi)) as [Hp|Hp].
  - destruct (Reqb (f lo) 0); [reflexivity|]. destruct (Reqb (f hi) 0); reflexivity.
  - rewrite (loop_shifted f acc c max_iterations (mkst lo hi (f lo) (f hi) lit0) (mkst (lo + c) (hi + c) (f lo) (f hi) lit0)).
    + destruct (loop ROps f acc max_iterations (mkst lo hi (f lo) (f hi) lit0)) as [o tr]. reflexivity.
    + unfold Inv; cbn [sx1 sx2 sres sf1 sf2]; repeat split; lra.
    + unfold TRel; cbn [sx1 sx2 sres sf1 sf2]; tauto.
    + rewrite max_iterations_S. discriminate.
Qed.

(** non-vacuity / use: x - 1 on [0,3] moved by 10 (the function (x - 10) - 1 on [10, 13]) is answered 1 + 10 *)
Example x_shift_example :
  exists h, fst (find_root_h ROps (xt 10 (fun x => 1 * x + -1)) (0 + 10) (3 + 10) (1 / 1000)) = Ok (- -1 / 1 + 10, h).
Proof.
  rewrite x_shift_covariant. cbn [fst].
  pose proof (linear_exact 1 (-1) 0 3 (1 / 1000)) as L. rewrite Rmin_left, Rmax_right in L by lra. specialize (L ltac:(lra)).
  unfold find_root in L. destruct (find_root_h ROps (fun x => 1 * x + -1) 0 3 (1 / 1000)) as [o tr]. cbn [fst] in *.
  inversion L as [[L1 L2]]. destruct o as [[x h]| | |]; cbn in L1; try discriminate. inversion L1; subst x.
  exists h. reflexivity.
Qed.
