(** C11 — property theorems only.  Each is closed by [exact] of a lemma proved in C11_Proofs.v.

    All theorems except the last are stated for an arbitrary number type [T] with operations [Ops] of which
    only [OrdLaws Ops] is assumed: the comparison is a strict total order on the values that occur
    (for IEEE doubles: the objective returns no NaN).  Arithmetic is uninterpreted, so the statements hold
    for doubles with rounding, for EVERY objective [f], every start, step size and tolerance.
    [le x y] is "not (y < x)".

    "For unimodal one-dimensional objectives ... the returned point lies within the distance implied by the requested
    tolerance from the true minimiser, from any starting point and scale": theorems over the reals at the end of this file
    (C11_find_minimum_converges_unimodal, C11_find_maximum_converges_unimodal: every strictly unimodal objective, every pair
    of distinct starting abscissae, every tolerance >= 0; the distance is 2*(tol*|x_min| + 2^-52)); they are about the
    real-number instance of the model (no rounding), for runs that return.
    Nelder-Mead: every call terminates (returns, or stops at NMAX), nfunc counts the evaluations, and a returned simplex
    has fractional range below ftol - all for the abstract number type.

    NOT theorems (decided on the implementation by checks/C11.py on the quantifier's objective classes):
    "strictly convex quadratic bowls in up to six dimensions: the returned point lies within the distance implied by the
    requested tolerance from the true minimiser" - Nelder-Mead has no convergence theorem; the 1-D distance bound WITH
    rounding (the real-number theorem does not cover objectives that are flat in doubles near the minimiser); termination of
    the bracketing loop (no cap in the source; Brent's ITMAX exit is [Exit]). *)
From Coq Require Import ZArith List Reals.
From LP Require Import Num NumR OrdLaws C11_Model C11_Model2 C11_Proofs C11_Proofs_Hist C11_Proofs_NM C11_Proofs_Conv C11_Proofs_Range C11_Proofs_Trace C11_Proofs_Box C11_Proofs_Psum Gen_C11_Formulas C11_GenTie.
Import ListNotations.

Section Abstract.
Context {T : Type} (Ops : NumOps T) (OL : OrdLaws Ops).

(** Bracket: on every return path (loop exit and the two early returns) fa,fb,fc are f at ax,bx,cx,
    fb <= fa, fb <= fc, and fb is not above f at either starting abscissa *)
Theorem C11_bracket_post (f : T -> T) a b s tr : bracket Ops f a b = Ok (s, tr) ->
  b_fa s = f (b_ax s) /\ b_fb s = f (b_bx s) /\ b_fc s = f (b_cx s) /\
  le Ops (b_fb s) (b_fa s) /\ le Ops (b_fb s) (b_fc s) /\ le Ops (b_fb s) (f a) /\ le Ops (b_fb s) (f b).
Proof. exact (bracket_post Ops OL f a b s tr). Qed.

(** Brent, one pass: fx = f(x) (and fw, fv likewise) is kept, fx never increases, x moves only to the evaluated point *)
Theorem C11_brent_step_descent (f : T -> T) tol s : SInv f s ->
  match brent_step Ops f tol s with
  | BDone xm fm => xm = s_x s /\ fm = s_fx s
  | BNext s' u => SInv f s' /\ le Ops (s_fx s') (s_fx s) /\ (s_x s' = u \/ s_x s' = s_x s)
  end.
Proof. exact (brent_step_descent Ops OL f tol s). Qed.

(** Brent: the returned x_min has f(x_min) = f_min <= f(bx) of the bracket *)
Theorem C11_brent_descent (f : T -> T) tol bk tr xm fm tr' : brent Ops f tol bk tr = Ok (xm, fm, tr') ->
  fm = f xm /\ le Ops fm (f (b_bx bk)).
Proof. exact (brent_descent Ops OL f tol bk tr xm fm tr'). Qed.

(** "Find_Minimum ... return[s] a point whose objective value is not worse than the best of [its] starting
    points (the two initial abscissae)" *)
Theorem C11_find_minimum_not_worse (f : T -> T) xl xr tol xm tr : find_minimum Ops f xl xr tol = Ok (xm, tr) ->
  le Ops (f xm) (f xl) /\ le Ops (f xm) (f xr).
Proof. exact (find_minimum_not_worse Ops OL f xl xr tol xm tr). Qed.

(** "Find_Maximum of f is Find_Minimum of -f" (as the code computes it: -1.0 * f(x)) *)
Theorem C11_find_maximum_is_minimum_of_neg (f : T -> T) xl xr tol :
  find_maximum Ops f xl xr tol = find_minimum Ops (fun x => nmul Ops (nneg Ops (n1 Ops)) (f x)) xl xr tol.
Proof. exact (find_maximum_is_minimum_of_neg Ops f xl xr tol). Qed.

(** Nelder-Mead, one pass of the loop on a state with mpts >= 2 vertices whose values are consistent:
    - nm_values_consistent: y[i] = f(simplex[i]) for every i is kept;
    - nm_best_never_increases: for every bound m, "some vertex value is <= m" is kept (the minimum of y does not increase);
    - on return: the reported values are f at the reported simplex, fmin = y[0] = f(returned point), the returned
      point is simplex[0], y[0] <= every y[i], and fmin <= every bound the best vertex had reached *)
Theorem C11_nm_iter_spec (f : list T -> T) ftol ndim mpts s : WF mpts s -> Consistent f s ->
  match nm_iter Ops f ftol ndim s with
  | NNext s' =>
      WF mpts s' /\ Consistent f s' /\ (forall m, Best Ops m s -> Best Ops m s')
  | NDone o =>
      o_y o = map f (o_simplex o) /\ length (o_y o) = mpts /\
      o_fmin o = nth0 Ops (o_y o) 0 /\ o_pmin o = nth 0 (o_simplex o) [] /\ o_fmin o = f (o_pmin o) /\
      (forall k, (k < mpts)%nat -> le Ops (o_fmin o) (nth0 Ops (o_y o) k)) /\
      (forall m, Best Ops m s -> le Ops (o_fmin o) m)
  | NExit => True
  end.
Proof. exact (nm_iter_spec Ops OL f ftol ndim mpts s). Qed.

(** "Minimization::minimize ... return[s] a point whose objective value is not worse than the best of ... the
    initial simplex vertices, and the state [it] report[s] (fmin, best-first simplex and vertex values) is the
    objective evaluated at the returned point" *)
Theorem C11_minimize_general_spec (f : list T -> T) ftol pp o : minimize_general Ops f ftol pp = Ok o ->
  o_y o = map f (o_simplex o) /\ length (o_y o) = length pp /\
  o_fmin o = nth0 Ops (o_y o) 0 /\ o_pmin o = nth 0 (o_simplex o) [] /\ o_fmin o = f (o_pmin o) /\
  (forall k, (k < length pp)%nat -> le Ops (o_fmin o) (nth0 Ops (o_y o) k)) /\
  (forall k, (k < length pp)%nat -> le Ops (o_fmin o) (f (nth k pp []))).
Proof. exact (minimize_general_spec Ops OL f ftol pp o). Qed.

(** "all three overloads": the delta overload is the deltas overload with a constant vector, the deltas
    overload rejects mismatched lengths and otherwise runs the general interface on the stated simplex *)
Theorem C11_minimize_overloads (f : list T -> T) ftol start deltas delta :
  minimize_delta Ops f ftol start delta = minimize_deltas Ops f ftol start (repeat delta (length start)) /\
  (length deltas <> length start -> minimize_deltas Ops f ftol start deltas = Exit) /\
  (length deltas = length start ->
     minimize_deltas Ops f ftol start deltas = minimize_general Ops f ftol (simplex_of Ops start deltas)).
Proof. exact (minimize_overloads Ops f ftol start deltas delta). Qed.

(** the stated simplex: row 0 is the starting point, row i+1 is the starting point with deltas[i] added to coordinate i *)
Theorem C11_simplex_of_spec start deltas : length deltas = length start ->
  let pp := simplex_of Ops start deltas in
  length pp = S (length start) /\
  nth 0 pp [] = start /\
  forall i, (i < length start)%nat ->
    length (nth (S i) pp []) = length start /\
    forall j, nth j (nth (S i) pp []) (n0 Ops) =
              if Nat.eqb j i then nadd Ops (nth j start (n0 Ops)) (nth j deltas (n0 Ops)) else nth j start (n0 Ops).
Proof. exact (simplex_of_spec Ops start deltas). Qed.

(** termination on fractional range: when minimize returns, one of the reported vertex values is the highest, and the
    fractional range 2|y_hi - fmin| / (|y_hi| + |fmin| + 1e-10) the code computes from it is below ftol *)
Theorem C11_minimize_returns_within_ftol (f : list T -> T) ftol pp o : minimize_general Ops f ftol pp = Ok o ->
  exists hi, (hi < length pp)%nat /\ (forall k, (k < length pp)%nat -> le Ops (nth0 Ops (o_y o) k) (nth0 Ops (o_y o) hi)) /\
             lt Ops (nm_rtol Ops (nth0 Ops (o_y o) hi) (o_fmin o)) ftol.
Proof. exact (minimize_general_range Ops OL f ftol pp o). Qed.

(** "nfunc ... evaluation counter": on a simplex of ndim + 1 vertices the objective has been evaluated exactly mpts + nfunc times
    when the call returns (the trace lists every evaluation), and 0 <= nfunc <= NMAX + 1 + ndim *)
Theorem C11_minimize_nfunc_counts_evaluations (f : list T -> T) ftol pp o :
  length pp = S (length (nth 0 pp [])) -> minimize_general Ops f ftol pp = Ok o ->
  Z.of_nat (length (o_tr o)) = (Z.of_nat (length pp) + o_nfunc o)%Z /\
  (0 <= o_nfunc o <= nm_NMAX + 1 + Z.of_nat (length (nth 0 pp [])))%Z.
Proof. exact (minimize_general_count Ops OL f ftol pp o). Qed.

(** ... which is always the case for the two convenience overloads *)
Theorem C11_minimize_deltas_nfunc_counts_evaluations (f : list T -> T) ftol start deltas o :
  minimize_deltas Ops f ftol start deltas = Ok o ->
  Z.of_nat (length (o_tr o)) = (Z.of_nat (S (length start)) + o_nfunc o)%Z /\
  (0 <= o_nfunc o <= nm_NMAX + 1 + Z.of_nat (length start))%Z.
Proof. exact (minimize_deltas_count Ops OL f ftol start deltas o). Qed.
End Abstract.

(** one pass of the Nelder-Mead loop, no hypothesis at all (any objective, NaN values included): the loop continues only
    while nfunc < NMAX, and then nfunc grows by at least 1 and at most 2 + ndim *)
Theorem C11_nm_iter_nfunc {T : Type} (Ops : NumOps T) (f : list T -> T) ftol ndim s :
  match nm_iter Ops f ftol ndim s with
  | NNext s' => (nm_nfunc s < nm_NMAX /\ nm_nfunc s + 1 <= nm_nfunc s' <= nm_nfunc s + 2 + Z.of_nat ndim)%Z
  | NDone o => o_nfunc o = nm_nfunc s /\ length (o_tr o) = length (nm_tr s)
  | NExit => (nm_NMAX <= nm_nfunc s)%Z
  end.
Proof. exact (nm_iter_nfunc Ops f ftol ndim s). Qed.

(** hence every call of every overload terminates: it returns, stops with "NMAX exceeded" / the dimension guard, or reads out
    of bounds on a malformed simplex - the model's fuel NMAX + 2 is never exhausted (any objective, NaN values included) *)
Theorem C11_minimize_terminates {T : Type} (Ops : NumOps T) ftol (c : nmcall) : fresh_call Ops ftol c <> Fuel.
Proof. exact (fresh_call_terminates Ops ftol c). Qed.
Print Assumptions C11_minimize_returns_within_ftol.
Print Assumptions C11_minimize_nfunc_counts_evaluations.
Print Assumptions C11_minimize_deltas_nfunc_counts_evaluations.
Print Assumptions C11_nm_iter_nfunc.
Print Assumptions C11_minimize_terminates.


(** call history: "Minimization::minimize (all three overloads) return ..." holds for every call on an object, not only the
    first: the answer (returned point, fmin, y, simplex, nfunc and the points evaluated) of a call on an object in ANY state
    is the answer of the same call on a fresh object, and a run of calls on one object gives, call by call, the answers of
    fresh objects (so C11_minimize_general_spec applies to each of them).  No order law is needed. *)
Theorem C11_minimize_history_independent {T : Type} (Ops : NumOps T) (ob : nmobj) (ftol : T) (c : nmcall) :
  rmap snd (obj_call Ops ob ftol c) = fresh_call Ops ftol c.
Proof. exact (obj_call_fresh Ops ob ftol c). Qed.

Theorem C11_minimize_run_history_independent {T : Type} (Ops : NumOps T) (cs : list nmcall) (ob : nmobj) (ftol : T) :
  obj_run Ops ob ftol cs = fresh_run Ops ftol cs.
Proof. exact (obj_run_fresh Ops cs ob ftol). Qed.

(** after a call that returns, the public members of the object are what the call reported *)
Theorem C11_minimize_object_state {T : Type} (Ops : NumOps T) (f : list T -> T) ob ftol pp ob' o :
  obj_minimize_general Ops f ob ftol pp = Ok (ob', o) ->
  ob_nfunc ob' = o_nfunc o /\ ob_fmin ob' = o_fmin o /\ ob_y ob' = o_y o /\ ob_simplex ob' = o_simplex o /\
  ob_mpts ob' = length pp /\ ob_ndim ob' = length (nth 0 pp []).
Proof. exact (obj_minimize_general_state Ops f ob ftol pp ob' o). Qed.
(** by-reference arguments that are public members of Minimization objects (all three overloads take non-const references; y and
    current_simplex are public): minimize(m.current_simplex, f), minimize(m.current_simplex[i], deltas, f), deltas = m.y, one vector
    for starting point and displacements, members of other objects.  The answer is the answer of a fresh object on the values the
    referents hold when the call starts (so C11_minimize_general_spec applies to such calls too). *)
Theorem C11_minimize_member_arguments {T : Type} (Ops : NumOps T) (objs : list nmobj) (ftols : list T) (ob : nat) (r : nmreq) :
  rmap snd (objs_call Ops objs ftols ob r) = fresh_call Ops (nth ob ftols (n0 Ops)) (req_call Ops objs r).
Proof. exact (objs_call_fresh Ops objs ftols ob r). Qed.

(** restart idioms never end worse than the call they restart from: after any call with objective f on object number ob returned o1,
    minimize(m.current_simplex, f) [the member itself], minimize(m.current_simplex[0], deltas, f) and minimize(m.current_simplex[0], delta, f)
    [the reported point by reference; deltas may be any vector, a member, or the starting vector itself] on the same object return
    fmin <= o1's fmin, for every tolerance *)
Theorem C11_restart_not_worse {T : Type} (Ops : NumOps T) (OL : OrdLaws Ops) objs ftols ob r1 objs1 o1 r2 ftols2 objs2 o2 :
  (ob < length objs)%nat ->
  objs_call Ops objs ftols ob r1 = Ok (objs1, o1) ->
  let f := call_f (req_call Ops objs r1) in
  (r2 = ReqGS f ob \/ (exists ds, r2 = ReqD f (VRow ob 0) ds) \/ (exists d, r2 = Req1 f (VRow ob 0) d)) ->
  objs_call Ops objs1 ftols2 ob r2 = Ok (objs2, o2) ->
  le Ops (o_fmin o2) (o_fmin o1).
Proof. exact (objs_restart_not_worse Ops OL objs ftols ob r1 objs1 o1 r2 ftols2 objs2 o2). Qed.
(** the caller writes the public members between calls (nfunc, mpts, ndim, fmin, y, current_simplex are public data), and calls are
    abandoned (the objective throws, the caller catches and uses the object again).  "Minimization::minimize ... return ..." holds for
    the calls made afterwards:
    - a call with the caller's own arguments gives the same answer in ANY two states of ALL the objects (so: the answer of fresh objects),
      whatever was written into the members and whatever state an abandoned call left behind;
    - minimize(m.current_simplex, f) after the caller assigned s to m.current_simplex (and anything to y, nfunc, mpts, ndim, fmin, in any
      order afterwards) is the answer of a fresh object on s - stale or invented vertex values in y are never used;
    - a call abandoned at the objective's n-th evaluation has asked for exactly n points, the first n of the completed call's, which begin
      with the rows of the stated initial simplex in order. *)
Theorem C11_minimize_any_object_states {T : Type} (Ops : NumOps T) (objs objs' : list nmobj) (ftols : list T) (ob : nat) (r : nmreq) :
  req_given r = true -> rmap snd (objs_call Ops objs ftols ob r) = rmap snd (objs_call Ops objs' ftols ob r).
Proof. exact (objs_call_any_state Ops objs objs' ftols ob r). Qed.

Theorem C11_minimize_written_simplex {T : Type} (Ops : NumOps T) (objs : list nmobj) k s ps (ftols : list T) ob f :
  (k < length objs)%nat -> Forall (fun p => match p with PutS _ => False | _ => True end) ps ->
  rmap snd (objs_call Ops (fold_left (fun os p => objs_put Ops os k p) ps (objs_put Ops objs k (PutS s))) ftols ob (ReqGS f k))
  = fresh_call Ops (nth ob ftols (n0 Ops)) (CallG f s).
Proof. exact (objs_call_written_simplex Ops objs k s ps ftols ob f). Qed.

Theorem C11_abandoned_call_evaluations {T : Type} (Ops : NumOps T) (f : list T -> T) ftol pp n pts :
  abandoned_call Ops ftol (CallG f pp) n = Ok (Some pts) -> length pts = n /\ exists l, pts = firstn n (pp ++ l).
Proof. exact (abandoned_general_spec Ops f ftol pp n pts). Qed.
Print Assumptions C11_minimize_any_object_states.
Print Assumptions C11_minimize_written_simplex.
Print Assumptions C11_abandoned_call_evaluations.
Print Assumptions C11_minimize_history_independent.
Print Assumptions C11_minimize_member_arguments.
Print Assumptions C11_restart_not_worse.
Print Assumptions C11_minimize_run_history_independent.
Print Assumptions C11_minimize_object_state.
Print Assumptions C11_bracket_post.
Print Assumptions C11_brent_step_descent.
Print Assumptions C11_brent_descent.
Print Assumptions C11_find_minimum_not_worse.
Print Assumptions C11_find_maximum_is_minimum_of_neg.
Print Assumptions C11_nm_iter_spec.
Print Assumptions C11_minimize_general_spec.
Print Assumptions C11_minimize_overloads.
Print Assumptions C11_simplex_of_spec.

(** over the reals: Find_Maximum's result is not below f at either starting abscissa *)
Local Open Scope R_scope.
Theorem C11_find_maximum_not_worse (f : R -> R) xl xr tol xm tr : find_maximum ROps f xl xr tol = Ok (xm, tr) ->
  f xl <= f xm /\ f xr <= f xm.
Proof. exact (find_maximum_not_worse f xl xr tol xm tr). Qed.
Print Assumptions C11_find_maximum_not_worse.

(** termination on fractional range, over the reals, in absolute terms and for vertex values of both signs (objectives whose minimum
    value is negative): when minimize returns, the highest reported value y_hi satisfies
      2 (y_hi - fmin) < ftol (|y_hi| + |fmin| + 1e-10),
    and if ftol <= 1 and fmin <= 0 <= y_hi (the reported values have both signs) then y_hi - fmin < 1e-10: the fractional range of
    two values of opposite sign is 2 (up to TINY), never small - equal magnitudes do not end the run.
    (Example C11_Proofs_Range.ex_range_signed: f(x) = x on the vertices -2e-11, 2e-11 returns at once with ftol = 1.) *)
Theorem C11_minimize_returns_within_ftol_signed (f : list R -> R) ftol pp o : minimize_general ROps f ftol pp = Ok o ->
  exists hi, (hi < length pp)%nat /\ (forall k, (k < length pp)%nat -> nth0 ROps (o_y o) k <= nth0 ROps (o_y o) hi) /\
    2 * (nth0 ROps (o_y o) hi - o_fmin o) < ftol * (Rabs (nth0 ROps (o_y o) hi) + Rabs (o_fmin o) + 1 / 10000000000) /\
    (ftol <= 1 -> o_fmin o <= 0 <= nth0 ROps (o_y o) hi -> nth0 ROps (o_y o) hi - o_fmin o < 1 / 10000000000).
Proof. exact (minimize_range_R f ftol pp o). Qed.
Print Assumptions C11_minimize_returns_within_ftol_signed.

(** "For unimodal one-dimensional objectives ... the returned point lies within the distance implied by the requested tolerance
    from the true minimiser, from any starting point and scale" - over the reals.
    [SUnimodal f xs]: f falls strictly on (-inf, xs] and rises strictly on [xs, +inf).
    - Bracket (any two distinct abscissae): bx ends strictly between ax and cx, and the minimiser lies between ax and cx;
    - Brent, one pass: the bracket [a,b] keeps containing the current point x and the minimiser (the trial point of the
      parabolic / golden / minimal step lies in [a,b] and differs from x), and a pass that returns has |x - xs| <= 2*tol1;
    - Find_Minimum: |x_min - xs| <= 2*(tol*|x_min| + 2^-52) whenever it returns; Find_Maximum likewise for strictly
      unimodal humps.  Termination is not claimed (Bracket has no cap; Brent's ITMAX exit is [Exit]). *)
Theorem C11_bracket_encloses_minimiser (f : R -> R) xs a b s tr : SUnimodal f xs -> a <> b -> bracket ROps f a b = Ok (s, tr) ->
  (b_ax s < b_bx s < b_cx s \/ b_cx s < b_bx s < b_ax s) /\ Rmin (b_ax s) (b_cx s) <= xs <= Rmax (b_ax s) (b_cx s).
Proof. exact (fun HU => bracket_encloses f xs HU a b s tr). Qed.

Theorem C11_brent_step_keeps_minimiser (f : R -> R) xs tol s : SUnimodal f xs -> 0 <= tol ->
  s_a s <= s_x s <= s_b s /\ s_a s <= xs <= s_b s /\ s_fx s = f (s_x s) ->
  match brent_step ROps f tol s with
  | BDone xm fm => xm = s_x s /\ Rabs (xm - xs) <= 2 * (tol * Rabs xm + 1 / 4503599627370496)
  | BNext s' u => s_a s' <= s_x s' <= s_b s' /\ s_a s' <= xs <= s_b s' /\ s_fx s' = f (s_x s')
  end.
Proof. exact (fun HU => brent_step_bi f xs HU tol s). Qed.

Theorem C11_find_minimum_converges_unimodal (f : R -> R) xs xl xr tol xm tr : SUnimodal f xs -> xl <> xr -> 0 <= tol ->
  find_minimum ROps f xl xr tol = Ok (xm, tr) -> Rabs (xm - xs) <= 2 * (tol * Rabs xm + 1 / 4503599627370496).
Proof. exact (fun HU => find_minimum_converges f xs HU xl xr tol xm tr). Qed.

Theorem C11_find_maximum_converges_unimodal (f : R -> R) xs xl xr tol xm tr : SUnimodalMax f xs -> xl <> xr -> 0 <= tol ->
  find_maximum ROps f xl xr tol = Ok (xm, tr) -> Rabs (xm - xs) <= 2 * (tol * Rabs xm + 1 / 4503599627370496).
Proof. exact (find_maximum_converges f xs xl xr tol xm tr). Qed.
Print Assumptions C11_bracket_encloses_minimiser.
Print Assumptions C11_brent_step_keeps_minimiser.
Print Assumptions C11_find_minimum_converges_unimodal.
Print Assumptions C11_find_maximum_converges_unimodal.

(** the returned point against EVERY point at which the objective was evaluated during the call (abstract number type with the order
    laws only; every objective without NaN values, every start, step and tolerance).  [o_tr] / the last component of find_minimum_full
    list the evaluation points in call order; the correspondence check compares them with the library's, point by point. *)
Section Evaluated.
Context {T : Type} (Ops : NumOps T) (OL : OrdLaws Ops).

(** "Minimization::minimize (all three overloads) return a point whose objective value is not worse than the best of ... the initial
    simplex vertices" - in fact not worse than ANY point evaluated in the call: fmin <= f(p) for every evaluated p (rejected reflections,
    expansions, contractions and every shrink vertex included) *)
Theorem C11_minimize_best_of_all_evaluated ftol (c : nmcall) o : fresh_call Ops ftol c = Ok o ->
  forall p, In p (o_tr o) -> le Ops (o_fmin o) (call_f c p).
Proof. exact (fresh_call_best Ops OL ftol c o). Qed.

(** "the state they report ... is the objective evaluated at the returned point": the returned point and every vertex of the reported
    simplex are points at which the objective WAS evaluated in this call (all three overloads) *)
Theorem C11_minimize_reports_evaluated_points ftol (c : nmcall) o : fresh_call Ops ftol c = Ok o ->
  In (o_pmin o) (o_tr o) /\ forall r, In r (o_simplex o) -> In r (o_tr o).
Proof. exact (fresh_call_rows Ops OL ftol c o). Qed.

(** Brent::Minimize evaluates between 1 and ITMAX = 100 points (l, most recent first), x_min is one of them and f_min = f(x_min) is the
    least value among them *)
Theorem C11_brent_best_of_evaluated (f : T -> T) tol bk tr xm fm tr' : brent Ops f tol bk tr = Ok (xm, fm, tr') ->
  exists l, tr' = l ++ tr /\ fm = f xm /\ In xm l /\ (forall p, In p l -> le Ops fm (f p)) /\ (1 <= length l <= 100)%nat.
Proof. exact (brent_best Ops OL f tol bk tr xm fm tr'). Qed.

(** Find_Minimum: the evaluations are Bracket's (lb) followed by Brent's (lm, 1..100 points); x_min is one of Brent's points and not
    worse than any of them; the evaluations begin with xLeft, xRight and the golden-section point beyond the lower of the two *)
Theorem C11_find_minimum_best_of_brent_points (f : T -> T) xl xr tol xm fm tr : find_minimum_full Ops f xl xr tol = Ok (xm, fm, tr) ->
  exists bk lb lm, bracket Ops f xl xr = Ok (bk, rev lb) /\ tr = lb ++ lm /\ fm = f xm /\ In xm lm /\
    (forall p, In p lm -> le Ops (f xm) (f p)) /\ (1 <= length lm <= 100)%nat.
Proof. exact (find_minimum_full_best Ops OL f xl xr tol xm fm tr). Qed.

Theorem C11_find_minimum_evaluations_start (f : T -> T) xl xr tol xm fm tr : find_minimum_full Ops f xl xr tol = Ok (xm, fm, tr) ->
  exists l, tr = xl :: xr :: nadd Ops (if ngtb Ops (f xr) (f xl) then xl else xr)
                               (nmul Ops (golden Ops) (nsub Ops (if ngtb Ops (f xr) (f xl) then xl else xr) (if ngtb Ops (f xr) (f xl) then xr else xl))) :: l
            /\ l <> [].
Proof. exact (find_minimum_full_trace_starts Ops OL f xl xr tol xm fm tr). Qed.
End Evaluated.

(** NOT true, and therefore not claimed: "Find_Minimum's result is not worse than every point it evaluated".  Bracket's early return
    [cx = u; fc = fu; return] drops the old cx, where a value below f(bx) had been seen; Brent then searches [ax, u] only.
    (The property asks for "not worse than the two initial abscissae" only, which is C11_find_minimum_not_worse.)
    Witness on the integer instance of the model; the same shape on the C++ in doubles: checks/C11.py LEVEL_TEXT. *)
Theorem C11_find_minimum_best_of_all_evaluated_refuted : exists (f : Z -> Z) xl xr tol xm fm tr p,
  find_minimum_full ZOps f xl xr tol = Ok (xm, fm, tr) /\ In p tr /\ nltb ZOps (f p) (f xm) = true.
Proof. exact find_minimum_best_of_all_refuted. Qed.
Print Assumptions C11_minimize_best_of_all_evaluated.
Print Assumptions C11_minimize_reports_evaluated_points.
Print Assumptions C11_brent_best_of_evaluated.
Print Assumptions C11_find_minimum_best_of_brent_points.
Print Assumptions C11_find_minimum_evaluations_start.
Print Assumptions C11_find_minimum_best_of_all_evaluated_refuted.

(** Find_Maximum, over the reals: the result is one of the points evaluated by the Brent phase (the last 1..100 evaluations) and f is
    not higher at any of them *)
Theorem C11_find_maximum_best_of_brent_points (f : R -> R) xl xr tol xm tr : find_maximum ROps f xl xr tol = Ok (xm, tr) ->
  exists lb lm, tr = lb ++ lm /\ In xm lm /\ (forall p, In p lm -> f p <= f xm) /\ (1 <= length lm <= 100)%nat.
Proof. exact (find_maximum_best f xl xr tol xm tr). Qed.
Print Assumptions C11_find_maximum_best_of_brent_points.

(** ** Seventh pass *)

(** Brent never leaves its bracket - over the reals, for EVERY objective (multimodal, discontinuous, ...), every tolerance >= 0:
    on a bracket whose middle abscissa lies between the outer two, the returned point and every point Brent::Minimize evaluates
    lie in [min(ax,cx), max(ax,cx)] (the parabolic step is accepted only strictly inside (a,b), the golden-section step goes
    into the larger part, the minimal step tol1 fits because the far end is more than 2*tol1 away when the loop has not ended).
    [tr'] lists the evaluations most recent first: Brent's own are [ev ++ [bx]]. *)
Theorem C11_brent_stays_in_bracket (f : R -> R) tol (bk : @brk R) tr xm fm tr' : 0 <= tol ->
  Rmin (b_ax bk) (b_cx bk) <= b_bx bk <= Rmax (b_ax bk) (b_cx bk) ->
  brent ROps f tol bk tr = Ok (xm, fm, tr') ->
  Rmin (b_ax bk) (b_cx bk) <= xm <= Rmax (b_ax bk) (b_cx bk) /\
  exists ev, tr' = ev ++ b_bx bk :: tr /\ Forall (fun p => Rmin (b_ax bk) (b_cx bk) <= p <= Rmax (b_ax bk) (b_cx bk)) ev.
Proof. exact (brent_stays_in_bracket f tol bk tr xm fm tr'). Qed.
Print Assumptions C11_brent_stays_in_bracket.

(** one pass of Brent's loop, every objective: the trial point lies in the current [a,b] and differs from x (no point is evaluated
    twice in a row), the new [a,b] is contained in the old one and still contains the new x *)
Theorem C11_brent_step_shrinks_bracket (f : R -> R) tol lo hi s : 0 <= tol -> BC lo hi s ->
  match brent_step ROps f tol s with
  | BDone xm fm => xm = s_x s
  | BNext s' u => BC lo hi s' /\ (s_a s <= u <= s_b s /\ u <> s_x s) /\ s_a s <= s_a s' /\ s_b s' <= s_b s
  end.
Proof. exact (brent_step_box f tol lo hi s). Qed.
Print Assumptions C11_brent_step_shrinks_bracket.

(** Find_Minimum, every objective, distinct starting abscissae: the returned point lies between the outer abscissae of the bracket
    that Bracket found (bx strictly between them), and the evaluations are Bracket's, then bx again, then points of that interval *)
Theorem C11_find_minimum_in_bracket (f : R -> R) xl xr tol xm fm tr : xl <> xr -> 0 <= tol ->
  find_minimum_full ROps f xl xr tol = Ok (xm, fm, tr) ->
  exists bk tr0 ev, bracket ROps f xl xr = Ok (bk, tr0) /\ Btw bk /\
    Rmin (b_ax bk) (b_cx bk) <= xm <= Rmax (b_ax bk) (b_cx bk) /\
    tr = rev tr0 ++ b_bx bk :: ev /\ Forall (fun p => Rmin (b_ax bk) (b_cx bk) <= p <= Rmax (b_ax bk) (b_cx bk)) ev.
Proof. exact (find_minimum_in_bracket f xl xr tol xm fm tr). Qed.
Print Assumptions C11_find_minimum_in_bracket.
(** (non-vacuity: the run Find_Minimum((x-3)^2, 1, 3, 1) returns 3 with the evaluations 1, 3, exc, 3) *)
Example C11_find_minimum_in_bracket_example : exists bk tr0 ev, bracket ROps fq 1 3 = Ok (bk, tr0) /\ Btw bk /\
    Rmin (b_ax bk) (b_cx bk) <= 3 <= Rmax (b_ax bk) (b_cx bk) /\
    [1; 3; exc; 3] = rev tr0 ++ b_bx bk :: ev /\ Forall (fun p => Rmin (b_ax bk) (b_cx bk) <= p <= Rmax (b_ax bk) (b_cx bk)) ev.
Proof. exact ex_in_bracket. Qed.

(** "Nelder-Mead reflect(-1)/expand(2)/contract(0.5)": over the reals the trial point of amotry is, coordinate by coordinate,
    c + fac*(p_hi - c) with c = (psum - p_hi)/ndim - the reflection of the vertex through c for fac = -1, the point at twice its
    distance from c for fac = 2, at half its distance for fac = 0.5 (c is the centroid of the other vertices when psum holds the
    column sums of an (ndim+1)-vertex simplex) *)
Theorem C11_amotry_trial_point (s : @nmst R) ndim ihi fac : (0 < ndim)%nat ->
  amotry_point ROps s ndim ihi fac =
  map (fun ab => let c := (fst ab - snd ab) / IZR (Z.of_nat ndim) in c + fac * (snd ab - c)) (combine (nm_psum s) (row (nm_p s) ihi)).
Proof. exact (amotry_point_R s ndim ihi fac). Qed.
Print Assumptions C11_amotry_trial_point.

(** the default tolerance of Find_Minimum / Find_Maximum (Numerics.hpp: tol = 3e-8) is in the model ([default_tol]); the calls
    without a tolerance reach every strictly unimodal minimiser / maximiser within 2*(3e-8*|x| + 2^-52) (reals; the run returns) *)
Theorem C11_find_minimum_default_converges (f : R -> R) xs xl xr xm tr : SUnimodal f xs -> xl <> xr ->
  find_minimum_default ROps f xl xr = Ok (xm, tr) -> Rabs (xm - xs) <= 2 * (3 / 100000000 * Rabs xm + 1 / 4503599627370496).
Proof. exact (find_minimum_default_converges f xs xl xr xm tr). Qed.
Print Assumptions C11_find_minimum_default_converges.

Theorem C11_find_maximum_default_converges (f : R -> R) xs xl xr xm tr : SUnimodalMax f xs -> xl <> xr ->
  find_maximum_default ROps f xl xr = Ok (xm, tr) -> Rabs (xm - xs) <= 2 * (3 / 100000000 * Rabs xm + 1 / 4503599627370496).
Proof. exact (find_maximum_default_converges f xs xl xr xm tr). Qed.
Print Assumptions C11_find_maximum_default_converges.

(** T-tie: Sign(double) and Sign(double,double) (src/Special_Functions.cpp), translated from clang's AST on every run
    (Gen_C11_Formulas.v), are the terms [sign1] / [sign2] with which Bracket's extrapolation denominator and Brent's minimal steps
    are modelled, on every instance of the number interface in which the source literals 0.0 and 1.0 are the constants 0 and 1 *)
Theorem C11_generated_Sign_is_model {T : Type} (Ops : NumOps T) : Lit01 Ops -> forall x, g_Sign Ops x = sign1 Ops x.
Proof. exact (gen_Sign_is_model Ops). Qed.
Print Assumptions C11_generated_Sign_is_model.

Theorem C11_generated_Sign2_is_model {T : Type} (Ops : NumOps T) : Lit01 Ops -> forall x y, g_Sign2 Ops x y = sign2 Ops x y.
Proof. exact (gen_Sign2_is_model Ops). Qed.
Print Assumptions C11_generated_Sign2_is_model.

Theorem C11_literals_reals : Lit01 ROps.
Proof. exact ROps_Lit01. Qed.
Print Assumptions C11_literals_reals.

(** Bracket's parabolic extrapolation point, written with the generated Sign(x,y) *)
Theorem C11_bracket_u_uses_generated_Sign {T : Type} (Ops : NumOps T) : Lit01 Ops -> forall ax bx cx fa fb fc,
  bracket_u Ops (mkBrk ax bx cx fa fb fc) =
  let r := nmul Ops (nsub Ops bx ax) (nsub Ops fb fc) in
  let q := nmul Ops (nsub Ops bx cx) (nsub Ops fb fa) in
  nsub Ops bx (ndiv Ops (nsub Ops (nmul Ops (nsub Ops bx cx) q) (nmul Ops (nsub Ops bx ax) r))
                        (nmul Ops (two Ops) (g_Sign2 Ops (nmax Ops (nabs Ops (nsub Ops q r)) (tiny20 Ops)) (nsub Ops q r)))).
Proof. exact (bracket_u_with_generated_Sign Ops). Qed.
Print Assumptions C11_bracket_u_uses_generated_Sign.

(** psum holds the column sums of the simplex (reals): the state minimize(pp, func) enters the loop with satisfies the invariant
    [PSI ndim s] = "all rows have ndim entries and psum = get_psum(simplex)", and every pass of the loop - reflection, expansion,
    contraction with the incremental update psum[j] += ptry[j] - p[ihi][j], and the shrink with its recomputation - keeps it *)
Theorem C11_psum_initial ndim (pp : list (list R)) y nf tr : Rect ndim pp -> PSI ndim (mkNM pp y (get_psum ROps pp ndim) nf tr).
Proof. exact (initial_psi ndim pp y nf tr). Qed.
Print Assumptions C11_psum_initial.

Theorem C11_psum_is_column_sum_in_every_pass (f : list R -> R) ftol ndim s :
  (2 <= length (nm_y s))%nat -> length (nm_p s) = length (nm_y s) -> PSI ndim s ->
  match nm_iter ROps f ftol ndim s with NNext s' => PSI ndim s' | _ => True end.
Proof. exact (nm_iter_psi f ftol ndim s). Qed.
Print Assumptions C11_psum_is_column_sum_in_every_pass.

(** hence the trial points are the reflection (fac = -1), the expansion (2) and the contraction (0.5) of the worst vertex about
    c = (sum of the OTHER vertices)/ndim, their centroid for a simplex of ndim + 1 vertices: coordinate j of the trial point is
    c_j + fac*(p[ihi][j] - c_j) *)
Theorem C11_amotry_reflects_about_centroid (s : @nmst R) ndim ihi fac : (0 < ndim)%nat -> PSI ndim s -> (ihi < length (nm_p s))%nat ->
  amotry_point ROps s ndim ihi fac =
  map (fun j => let c := colsum (updv (nm_p s) ihi []) j / IZR (Z.of_nat ndim) in c + fac * (nth j (nth ihi (nm_p s) []) 0 - c)) (seq 0 ndim).
Proof. exact (amotry_point_centroid s ndim ihi fac). Qed.
Print Assumptions C11_amotry_reflects_about_centroid.
(** (non-vacuity: the triangle (0,0), (1,0), (0,1); reflecting vertex 0 gives (1,1)) *)
Example C11_reflection_example : let s := mkNM [[0; 0]; [1; 0]; [0; 1]] [0; 1; 1] (get_psum ROps [[0; 0]; [1; 0]; [0; 1]] 2) 0%Z [] in
  PSI 2 s /\ amotry_point ROps s 2 0 (-1) = [1; 1].
Proof. exact ex_reflect. Qed.
