(** * C11 model: minimisers (src/Numerics.cpp section 3, include/libphysica/Numerics.hpp)
    Bracket_Method::Bracket, Brent::Minimize, Find_Minimum, Find_Maximum; Minimization::minimize (three
    overloads), get_psum, amotry.  Hand-written; tied to the code by the differential correspondence check
    (harness/C11.cpp vs the extraction of this file).  Every function also returns the trace of the points
    at which the objective was evaluated (most recent first inside the loops, reversed at the end). *)
From Coq Require Import ZArith List Bool.
From LP Require Import Num.
Import ListNotations.

Section Min.
Context {T : Type} (Ops : NumOps T).
Declare Scope num_scope.
Local Notation "x + y" := (nadd Ops x y) : num_scope.
Local Notation "x - y" := (nsub Ops x y) : num_scope.
Local Notation "x * y" := (nmul Ops x y) : num_scope.
Local Notation "x / y" := (ndiv Ops x y) : num_scope.
Delimit Scope num_scope with num.
Local Open Scope num_scope.

Definition one : T := n1 Ops.
Definition zero : T := n0 Ops.
Definition two : T := nofZ Ops 2.
Definition half : T := ndec Ops 1 2.
(** const double golden_ratio = 1.618034; GLIMIT = 100.0; TINY = 1.0e-20 *)
Definition golden : T := ndec Ops 1618034 1000000.
Definition glimit : T := nofZ Ops 100.
Definition tiny20 : T := nlit Ops 1 100000000000000000000 6646139978924579 (-119).
(** CGOLD = 0.3819660; ZEPS = std::numeric_limits<double>::epsilon() = 2^-52 *)
Definition cgold : T := ndec Ops 381966 1000000.
Definition zeps : T := nlit Ops 1 4503599627370496 4503599627370496 (-104).
(** Minimization: TINY = 1.0e-10, NMAX = 5000 *)
Definition tiny10 : T := ndec Ops 1 10000000000.
Definition nm_NMAX : Z := 5000.

(** ** 3.1 one-dimensional *)
Record brk := mkBrk { b_ax : T; b_bx : T; b_cx : T; b_fa : T; b_fb : T; b_fc : T }.
Record bst := mkB { s_a : T; s_b : T; s_d : T; s_e : T; s_v : T; s_w : T; s_x : T; s_fv : T; s_fw : T; s_fx : T }.
Inductive bout := BDone (xmin fmin : T) | BNext (s : bst) (u : T).

Section OneD.
Variable f : T -> T.

(** the parabolic extrapolation point u and its limit ulim of one pass of while(fb > fc) *)
Definition bracket_u (s : brk) : T :=
  let '(mkBrk ax bx cx fa fb fc) := s in
  let r := (bx - ax) * (fb - fc) in
  let q := (bx - cx) * (fb - fa) in
  bx - ((bx - cx) * q - (bx - ax) * r) / (two * sign2 Ops (nmax Ops (nabs Ops (q - r)) tiny20) (q - r)).
Definition bracket_ulim (s : brk) : T := b_bx s + glimit * (b_cx s - b_bx s).

Inductive brkstep := BrkRet (s : brk) (ev : list T) | BrkCont (s : brk) (ev : list T).

(** one pass of the body of while(fb > fc) (the loop test has already succeeded); [ev] = the points evaluated
    in this pass, most recent first.  Note the two early [return]s inside the first case. *)
Definition bracket_body (s : brk) : brkstep :=
  let u := bracket_u s in
  let ulim := bracket_ulim s in
  let '(mkBrk ax bx cx fa fb fc) := s in
  if ngtb Ops ((bx - u) * (u - cx)) zero then
    let fu := f u in
    if nltb Ops fu fc then BrkRet (mkBrk bx u cx fb fu fc) [u]                 (* ax=bx; bx=u; fa=fb; fb=fu; return *)
    else if ngtb Ops fu fb then BrkRet (mkBrk ax bx u fa fb fu) [u]            (* cx=u; fc=fu; return *)
    else
      let u' := cx + golden * (cx - bx) in
      BrkCont (mkBrk bx cx u' fb fc (f u')) [u'; u]
  else if ngtb Ops ((cx - u) * (u - ulim)) zero then
    let fu := f u in
    if nltb Ops fu fc then
      (* Shift3(bx,cx,u, u+golden*(u-bx)); Shift3(fb,fc,fu,func(u)); then the common Shift3s *)
      let u2 := u + golden * (u - bx) in
      BrkCont (mkBrk cx u u2 fc fu (f u2)) [u2; u]
    else BrkCont (mkBrk bx cx u fb fc fu) [u]
  else if ngeb Ops ((u - ulim) * (ulim - cx)) zero then
    BrkCont (mkBrk bx cx ulim fb fc (f ulim)) [ulim]
  else
    let u' := cx + golden * (cx - bx) in
    BrkCont (mkBrk bx cx u' fb fc (f u')) [u'].

(** while(fb > fc) { ... }: the source loop has no iteration cap (fuel exhaustion is [Fuel]) *)
Fixpoint bracket_loop (fuel : nat) (s : brk) (tr : list T) : res (brk * list T) :=
  match fuel with
  | O => Fuel
  | S k =>
    if ngtb Ops (b_fb s) (b_fc s) then
      match bracket_body s with
      | BrkRet s' ev => Ok (s', ev ++ tr)
      | BrkCont s' ev => bracket_loop k s' (ev ++ tr)
      end
    else Ok (s, tr)
  end.

Definition bracket_fuel : nat := 1000.

(** Bracket(a, b, func) *)
Definition bracket (a b : T) : res (brk * list T) :=
  let ax := a in let bx := b in
  let fa := f ax in
  let fb := f bx in
  let '(ax, bx, fa, fb) := if ngtb Ops fb fa then (bx, ax, fb, fa) else (ax, bx, fa, fb) in
  let cx := bx + golden * (bx - ax) in
  let fc := f cx in
  bracket_loop bracket_fuel (mkBrk ax bx cx fa fb fc) [cx; b; a].

(** the step selection of one pass of Brent's loop (parabolic fit or golden section): returns (d, e, u) *)
Definition brent_trial (tol : T) (s : bst) : T * T * T :=
  let '(mkB a b d e v w x fv fw fx) := s in
  let xm := half * (a + b) in
  let tol1 := tol * nabs Ops x + zeps in
  let tol2 := two * tol1 in
  let de :=
    if ngtb Ops (nabs Ops e) tol1 then
      let r := (x - w) * (fx - fv) in
      let q := (x - v) * (fx - fw) in
      let p := (x - v) * q - (x - w) * r in
      let q := two * (q - r) in
      let p := if ngtb Ops q zero then nneg Ops p else p in
      let q := nabs Ops q in
      let etemp := e in
      let e := d in
      if ngeb Ops (nabs Ops p) (nabs Ops (half * q * etemp)) || nleb Ops p (q * (a - x)) || ngeb Ops p (q * (b - x)) then
        let e := if ngeb Ops x xm then a - x else b - x in (cgold * e, e)
      else
        let d := p / q in
        let u := x + d in
        let d := if nltb Ops (u - a) tol2 || nltb Ops (b - u) tol2 then sign2 Ops tol1 (xm - x) else d in
        (d, e)
    else
      let e := if ngeb Ops x xm then a - x else b - x in (cgold * e, e) in
  let d := fst de in let e := snd de in
  let u := if ngeb Ops (nabs Ops d) tol1 then x + d else x + sign2 Ops tol1 d in
  (d, e, u).

(** the termination test of the loop *)
Definition brent_done (tol : T) (s : bst) : bool :=
  let '(mkB a b d e v w x fv fw fx) := s in
  let xm := half * (a + b) in
  let tol1 := tol * nabs Ops x + zeps in
  let tol2 := two * tol1 in
  nleb Ops (nabs Ops (x - xm)) (tol2 - half * (b - a)).

(** one pass of Brent's for-loop body *)
Definition brent_step (tol : T) (s : bst) : bout :=
  if brent_done tol s then BDone (s_x s) (s_fx s)
  else
    let '(d, e, u) := brent_trial tol s in
    let '(mkB a b _ _ v w x fv fw fx) := s in
    let fu := f u in
    if nleb Ops fu fx then
      let ab := if ngeb Ops u x then (x, b) else (a, x) in
      BNext (mkB (fst ab) (snd ab) d e w x u fw fx fu) u
    else
      let ab := if nltb Ops u x then (u, b) else (a, u) in
      if nleb Ops fu fw || neqb Ops w x then BNext (mkB (fst ab) (snd ab) d e w u x fw fu fx) u
      else if nleb Ops fu fv || neqb Ops v x || neqb Ops v w then BNext (mkB (fst ab) (snd ab) d e u w x fu fw fx) u
      else BNext (mkB (fst ab) (snd ab) d e v w x fv fw fx) u.

(** for(iter = 0; iter < ITMAX; iter++) {...}; then "Too many iterations" and std::exit *)
Fixpoint brent_loop (fuel : nat) (tol : T) (s : bst) (tr : list T) : res (T * T * list T) :=
  match fuel with
  | O => Exit
  | S k => match brent_step tol s with
           | BDone xm fm => Ok (xm, fm, tr)
           | BNext s' u => brent_loop k tol s' (u :: tr)
           end
  end.

Definition brent_ITMAX : nat := 100.

(** Brent::Minimize on a bracket: returns (x_min, f_min, trace) *)
Definition brent (tol : T) (bk : brk) (tr : list T) : res (T * T * list T) :=
  let '(mkBrk ax bx cx _ _ _) := bk in
  let a := if nltb Ops ax cx then ax else cx in
  let b := if ngtb Ops ax cx then ax else cx in
  let x := bx in
  let fx := f x in
  brent_loop brent_ITMAX tol (mkB a b zero zero x x x fx fx fx) (x :: tr).

(** Find_Minimum(func, xLeft, xRight, tol): returns (x_min, f_min, evaluation points in call order) *)
Definition find_minimum_full (xl xr tol : T) : res (T * T * list T) :=
  rbind (bracket xl xr) (fun bt =>
  rbind (brent tol (fst bt) (snd bt)) (fun r =>
  Ok (fst (fst r), snd (fst r), rev (snd r)))).
Definition find_minimum (xl xr tol : T) : res (T * list T) :=
  rmap (fun r => (fst (fst r), snd r)) (find_minimum_full xl xr tol).
End OneD.

(** Find_Maximum(func, ...) = Find_Minimum of x => -1.0 * func(x) *)
Definition find_maximum (f : T -> T) (xl xr tol : T) : res (T * list T) :=
  find_minimum (fun x => nneg Ops one * f x) xl xr tol.

(** ** 3.2 multi-dimensional (Nelder-Mead) *)
Fixpoint updv {A} (l : list A) (i : nat) (v : A) : list A :=
  match l, i with
  | [], _ => []
  | _ :: l', O => v :: l'
  | a :: l', S i' => a :: updv l' i' v
  end.

Record nmst := mkNM { nm_p : list (list T); nm_y : list T; nm_psum : list T; nm_nfunc : Z; nm_tr : list (list T) }.
Record nmout := mkOut { o_pmin : list T; o_fmin : T; o_y : list T; o_simplex : list (list T); o_nfunc : Z; o_tr : list (list T) }.
Inductive nmstep := NDone (o : nmout) | NNext (s : nmst) | NExit.

Section ND.
Variable f : list T -> T.

Definition row (p : list (list T)) (i : nat) : list T := nth i p [].

(** get_psum: psum[j] = sum_i p[i][j], accumulated from 0.0 in row order *)
Definition get_psum (p : list (list T)) (ndim : nat) : list T :=
  map (fun j => fold_left (fun s r => s + nth0 Ops r j) p zero) (seq 0 ndim).

(** the trial point of amotry: ptry[j] = psum[j]*fac1 - p[ihi][j]*fac2 *)
Definition amotry_point (s : nmst) (ndim : nat) (ihi : nat) (fac : T) : list T :=
  let fac1 := (one - fac) / nofZ Ops (Z.of_nat ndim) in
  let fac2 := fac1 - fac in
  map (fun ab => fst ab * fac1 - snd ab * fac2) (combine (nm_psum s) (row (nm_p s) ihi)).

(** amotry(p, y, psum, ihi, fac, func): returns the new state and ytry *)
Definition amotry (s : nmst) (ndim : nat) (ihi : nat) (fac : T) : nmst * T :=
  let phi := row (nm_p s) ihi in
  let ptry := amotry_point s ndim ihi fac in
  let ytry := f ptry in
  if nltb Ops ytry (nth0 Ops (nm_y s) ihi) then
    (mkNM (updv (nm_p s) ihi ptry) (updv (nm_y s) ihi ytry)
          (map (fun abc => fst (fst abc) + (snd (fst abc) - snd abc)) (combine (combine (nm_psum s) ptry) phi))
          (nm_nfunc s) (ptry :: nm_tr s), ytry)
  else (mkNM (nm_p s) (nm_y s) (nm_psum s) (nm_nfunc s) (ptry :: nm_tr s), ytry).

(** the scan for ilo (best), ihi (worst), inhi (next-worst): for(i = 0; i < mpts; i++) {...} *)
Fixpoint nm_scan (y : list T) (ys : list T) (i ilo ihi inhi : nat) : nat * nat * nat :=
  match ys with
  | [] => (ilo, ihi, inhi)
  | yi :: rest =>
      let ilo' := if nleb Ops yi (nth0 Ops y ilo) then i else ilo in
      let hh := if ngtb Ops yi (nth0 Ops y ihi) then (i, ihi)
                else if ngtb Ops yi (nth0 Ops y inhi) && negb (Nat.eqb i ihi) then (ihi, i)
                else (ihi, inhi) in
      nm_scan y rest (S i) ilo' (fst hh) (snd hh)
  end.
Definition nm_extremes (y : list T) : nat * nat * nat :=
  (* ihi = y[0] > y[1] ? (inhi = 1, 0) : (inhi = 0, 1);  ilo = 0 *)
  let hh := if ngtb Ops (nth0 Ops y 0) (nth0 Ops y 1) then (0, 1)%nat else (1, 0)%nat in
  nm_scan y y 0 0 (fst hh) (snd hh).

(** the shrink towards the best vertex: every row i <> ilo becomes 0.5*(p[i] + p[ilo]) (through psum) and is
    re-evaluated, in row order *)
Definition midrow (r plo : list T) : list T := map (fun ab => half * (fst ab + snd ab)) (combine r plo).
Fixpoint shrink_rows (rows : list (list T)) (i ilo : nat) (plo : list T) : list (list T) :=
  match rows with
  | [] => []
  | r :: rest => (if Nat.eqb i ilo then r else midrow r plo) :: shrink_rows rest (S i) ilo plo
  end.
Fixpoint shrink_ys (newrows : list (list T)) (ys : list T) (i ilo : nat) : list T :=
  match newrows, ys with
  | r :: rest, yv :: ys' => (if Nat.eqb i ilo then yv else f r) :: shrink_ys rest ys' (S i) ilo
  | _, _ => []
  end.
Fixpoint shrink_trace (newrows : list (list T)) (i ilo : nat) (tr : list (list T)) : list (list T) :=
  match newrows with
  | [] => tr
  | r :: rest => shrink_trace rest (S i) ilo (if Nat.eqb i ilo then tr else r :: tr)
  end.

Definition swapv {A} (d : A) (l : list A) (i j : nat) : list A :=
  updv (updv l i (nth j l d)) j (nth i l d).

(** one pass of the for(;;) body *)
Definition nm_iter (ftol : T) (ndim : nat) (s : nmst) : nmstep :=
  let y := nm_y s in
  let '(ilo, ihi, inhi) := nm_extremes y in
  let rtol := two * nabs Ops (nth0 Ops y ihi - nth0 Ops y ilo) / (nabs Ops (nth0 Ops y ihi) + nabs Ops (nth0 Ops y ilo) + tiny10) in
  if nltb Ops rtol ftol then
    (* swap(y[0], y[ilo]); swap rows 0 and ilo; pmin = row 0; fmin = y[0] *)
    let y' := swapv zero y 0 ilo in
    let p' := swapv [] (nm_p s) 0 ilo in
    NDone (mkOut (row p' 0) (nth0 Ops y' 0) y' p' (nm_nfunc s) (rev (nm_tr s)))
  else if (nm_nfunc s >=? nm_NMAX)%Z then NExit
  else
    let s0 := mkNM (nm_p s) (nm_y s) (nm_psum s) (nm_nfunc s + 2)%Z (nm_tr s) in
    let '(s1, ytry) := amotry s0 ndim ihi (nneg Ops one) in
    if nleb Ops ytry (nth0 Ops (nm_y s1) ilo) then NNext (fst (amotry s1 ndim ihi two))
    else if ngeb Ops ytry (nth0 Ops (nm_y s1) inhi) then
      let ysave := nth0 Ops (nm_y s1) ihi in
      let '(s2, ytry2) := amotry s1 ndim ihi half in
      if ngeb Ops ytry2 ysave then
        let p' := shrink_rows (nm_p s2) 0 ilo (row (nm_p s2) ilo) in
        let y' := shrink_ys p' (nm_y s2) 0 ilo in
        NNext (mkNM p' y' (get_psum p' ndim) (nm_nfunc s2 + Z.of_nat ndim)%Z (shrink_trace p' 0 ilo (nm_tr s2)))
      else NNext s2
    else NNext (mkNM (nm_p s1) (nm_y s1) (nm_psum s1) (nm_nfunc s1 - 1)%Z (nm_tr s1)).

Fixpoint nm_loop (fuel : nat) (ftol : T) (ndim : nat) (s : nmst) : res nmout :=
  match fuel with
  | O => Fuel
  | S k => match nm_iter ftol ndim s with
           | NDone o => Ok o
           | NExit => Exit
           | NNext s' => nm_loop k ftol ndim s'
           end
  end.

(** every pass adds at least 1 to nfunc and the loop exits at nfunc >= NMAX: NMAX + 2 passes suffice *)
Definition nm_fuel : nat := Z.to_nat (nm_NMAX + 2).

(** minimize(pp, func): the general interface.  The model covers rectangular simplices with at least two
    vertices; pp[0] of an empty pp, y[1] of a single vertex and short rows are out-of-bounds reads ([OOB]). *)
Definition minimize_general (ftol : T) (pp : list (list T)) : res nmout :=
  match pp with
  | [] => OOB
  | r0 :: _ =>
      let ndim := length r0 in
      if Nat.ltb (length pp) 2 then OOB
      else if negb (forallb (fun r => Nat.eqb (length r) ndim) pp) then OOB
      else
        let y := map f pp in
        nm_loop nm_fuel ftol ndim (mkNM pp y (get_psum pp ndim) 0%Z (rev pp))
  end.

(** the simplex built by minimize(starting_point, deltas, func): row 0 = the starting point, row i = the
    starting point with deltas[i-1] added to coordinate i-1 *)
Fixpoint add_at (l d : list T) (k : nat) : list T :=
  match l, d, k with
  | a :: l', b :: _, O => (a + b) :: l'
  | a :: l', _ :: d', S k' => a :: add_at l' d' k'
  | _, _, _ => l
  end.
Definition simplex_of (start deltas : list T) : list (list T) :=
  start :: map (fun k => add_at start deltas k) (seq 0 (length start)).

Definition minimize_deltas (ftol : T) (start deltas : list T) : res nmout :=
  if negb (Nat.eqb (length deltas) (length start)) then Exit
  else minimize_general ftol (simplex_of start deltas).

Definition minimize_delta (ftol : T) (start : list T) (delta : T) : res nmout :=
  minimize_deltas ftol start (repeat delta (length start)).
End ND.

(** ** 3.3 one Minimization object across several calls (call history)
    The members of struct Minimization that outlive a call: nfunc, mpts, ndim, fmin, y, current_simplex (ftol is const).
    minimize(pp, func) assigns mpts, ndim, current_simplex and every y[i] before it reads them, sets nfunc = 0 after the
    initial evaluations, and writes fmin on return; NMAX exceeded ends the process ([Exit]: there is no later call). *)
Record nmobj := mkObj { ob_nfunc : Z; ob_mpts : nat; ob_ndim : nat; ob_fmin : T; ob_y : list T; ob_simplex : list (list T) }.

Definition obj_minimize_general (f : list T -> T) (ob : nmobj) (ftol : T) (pp : list (list T)) : res (nmobj * nmout) :=
  match pp with
  | [] => OOB
  | r0 :: _ =>
      if Nat.ltb (length pp) 2 then OOB
      else if negb (forallb (fun r => Nat.eqb (length r) (length r0)) pp) then OOB
      else
        (* mpts = pp.size(); ndim = pp[0].size(); current_simplex = pp; y.resize(mpts); y[i] = func(current_simplex[i]) for every
           i < mpts (y has exactly mpts entries after the resize: nothing of its old contents is left) *)
        let ob1 := mkObj (ob_nfunc ob) (length pp) (length r0) (ob_fmin ob) (map f pp) pp in
        (* nfunc = 0; get_psum(current_simplex, psum); for(;;) ... *)
        let ob2 := mkObj 0 (ob_mpts ob1) (ob_ndim ob1) (ob_fmin ob1) (ob_y ob1) (ob_simplex ob1) in
        rmap (fun o => (mkObj (o_nfunc o) (ob_mpts ob2) (ob_ndim ob2) (o_fmin o) (o_y o) (o_simplex o), o))
             (nm_loop f nm_fuel ftol (ob_ndim ob2)
                (mkNM (ob_simplex ob2) (ob_y ob2) (get_psum (ob_simplex ob2) (ob_ndim ob2)) (ob_nfunc ob2) (rev pp)))
  end.

Definition obj_minimize_deltas (f : list T -> T) (ob : nmobj) (ftol : T) (start deltas : list T) : res (nmobj * nmout) :=
  if negb (Nat.eqb (length deltas) (length start)) then Exit
  else obj_minimize_general f ob ftol (simplex_of start deltas).

Definition obj_minimize_delta (f : list T -> T) (ob : nmobj) (ftol : T) (start : list T) (delta : T) : res (nmobj * nmout) :=
  obj_minimize_deltas f ob ftol start (repeat delta (length start)).

(** a request to one of the three overloads, and a run of requests on one object (the run ends with the first call that
    does not return: the process is gone) *)
Inductive nmcall :=
| CallG (f : list T -> T) (pp : list (list T))
| CallD (f : list T -> T) (start deltas : list T)
| Call1 (f : list T -> T) (start : list T) (delta : T).

Definition obj_call (ob : nmobj) (ftol : T) (c : nmcall) : res (nmobj * nmout) :=
  match c with
  | CallG f pp => obj_minimize_general f ob ftol pp
  | CallD f st ds => obj_minimize_deltas f ob ftol st ds
  | Call1 f st d => obj_minimize_delta f ob ftol st d
  end.

(** the same request on an object that has not been used before *)
Definition fresh_call (ftol : T) (c : nmcall) : res nmout :=
  match c with
  | CallG f pp => minimize_general f ftol pp
  | CallD f st ds => minimize_deltas f ftol st ds
  | Call1 f st d => minimize_delta f ftol st d
  end.

Fixpoint obj_run (ob : nmobj) (ftol : T) (cs : list nmcall) : list (res nmout) :=
  match cs with
  | [] => []
  | c :: rest =>
      match obj_call ob ftol c with
      | Ok (ob', o) => Ok o :: obj_run ob' ftol rest
      | Exit => [Exit] | OOB => [OOB] | Fuel => [Fuel]
      end
  end.

Fixpoint fresh_run (ftol : T) (cs : list nmcall) : list (res nmout) :=
  match cs with
  | [] => []
  | c :: rest =>
      match fresh_call ftol c with
      | Ok o => Ok o :: fresh_run ftol rest
      | e => [e]
      end
  end.

(** ** 3.3b requests whose arguments ARE public members of Minimization objects
    All three overloads take their vector arguments by non-const reference, and y, current_simplex are public: a caller can pass
    [m.current_simplex] itself (restart from the reported simplex), a row of it (restart from the reported point), [m.y], members of
    another object, or one vector for both the starting point and the displacements.
    minimize(pp, func) with pp aliasing the object's current_simplex: [current_simplex = pp] is a self-assignment (nothing changes),
    [y.resize(mpts)] keeps the size, and pp is not read again; the two convenience overloads read starting_point and deltas into a
    local table before the general interface writes any member.  So a by-reference argument contributes the value its referent
    has when the call starts. *)
Inductive vsrc :=
| VGiven (l : list T)                 (* a vector of the caller *)
| VRow (k i : nat)                    (* objs[k].current_simplex[i] *)
| VY (k : nat).                       (* objs[k].y *)
Inductive dsrc :=
| DVec (v : vsrc)
| DStart.                             (* the very vector passed as the starting point *)
Inductive nmreq :=
| ReqG (f : list T -> T) (pp : list (list T))
| ReqGS (f : list T -> T) (k : nat)   (* minimize(objs[k].current_simplex, f) *)
| ReqD (f : list T -> T) (st : vsrc) (ds : dsrc)
| Req1 (f : list T -> T) (st : vsrc) (delta : T).

Definition obj_fresh : nmobj := mkObj 0 0 0 zero [] [].
Definition obj_at (objs : list nmobj) (k : nat) : nmobj := nth k objs obj_fresh.
Definition vsrc_val (objs : list nmobj) (s : vsrc) : list T :=
  match s with
  | VGiven l => l
  | VRow k i => nth i (ob_simplex (obj_at objs k)) []
  | VY k => ob_y (obj_at objs k)
  end.
Definition req_call (objs : list nmobj) (r : nmreq) : nmcall :=
  match r with
  | ReqG f pp => CallG f pp
  | ReqGS f k => CallG f (ob_simplex (obj_at objs k))
  | ReqD f st ds => CallD f (vsrc_val objs st) (match ds with DVec v => vsrc_val objs v | DStart => vsrc_val objs st end)
  | Req1 f st d => Call1 f (vsrc_val objs st) d
  end.

Fixpoint set_obj (objs : list nmobj) (k : nat) (ob : nmobj) : list nmobj :=
  match objs, k with
  | [], _ => []
  | _ :: rest, O => ob :: rest
  | o :: rest, S k' => o :: set_obj rest k' ob
  end.

(** one request on object number [ob] of a collection of objects (each with its own ftol) *)
Definition objs_call (objs : list nmobj) (ftols : list T) (ob : nat) (r : nmreq) : res (list nmobj * nmout) :=
  rmap (fun p => (set_obj objs ob (fst p), snd p)) (obj_call (obj_at objs ob) (nth ob ftols zero) (req_call objs r)).

(** ** 3.3c what else can happen to an object between two calls
    (a) The caller writes the public members: nfunc, mpts, ndim, fmin, y, current_simplex are plain public data members
        (m.y = ..., m.current_simplex = ..., m.nfunc = ...).
    (b) A call is abandoned: the objective throws at its n-th evaluation, the exception passes through minimize (which holds only
        vectors), the caller catches it and uses the object again.  minimize evaluates the objective at the points of the trace, in
        that order, so the abandoned call has asked for exactly the first n of them; it leaves mpts, ndim and current_simplex
        assigned, y resized and partly assigned, nfunc possibly not reset.  The model does not say which state that is:
        [objs_abandon] takes it as an argument ([left]), and the theorems hold for every such state. *)
Inductive nmput :=
| PutY (y : list T)                              (* m.y = y *)
| PutS (s : list (list T))                       (* m.current_simplex = s *)
| PutN (nfunc : Z) (mpts ndim : nat) (fmin : T). (* m.nfunc = ..; m.mpts = ..; m.ndim = ..; m.fmin = .. *)

Definition obj_put (ob : nmobj) (p : nmput) : nmobj :=
  match p with
  | PutY y => mkObj (ob_nfunc ob) (ob_mpts ob) (ob_ndim ob) (ob_fmin ob) y (ob_simplex ob)
  | PutS s => mkObj (ob_nfunc ob) (ob_mpts ob) (ob_ndim ob) (ob_fmin ob) (ob_y ob) s
  | PutN nf mp nd fm => mkObj nf mp nd fm (ob_y ob) (ob_simplex ob)
  end.
Definition objs_put (objs : list nmobj) (k : nat) (p : nmput) : list nmobj := set_obj objs k (obj_put (obj_at objs k) p).
Definition objs_abandon (objs : list nmobj) (k : nat) (left : nmobj) : list nmobj := set_obj objs k left.

(** the points an abandoned call has asked for: the first n points of the trace of the call ([None]: the call returns before its
    n-th evaluation, so it is not abandoned) *)
Definition abandoned_call (ftol : T) (c : nmcall) (n : nat) : res (option (list (list T))) :=
  rmap (fun o => if Nat.leb n (length (o_tr o)) then Some (firstn n (o_tr o)) else None) (fresh_call ftol c).

(** a request none of whose arguments is a member of an object *)
Definition req_given (r : nmreq) : bool :=
  match r with
  | ReqG _ _ => true
  | ReqGS _ _ => false
  | ReqD _ (VGiven _) (DVec (VGiven _)) => true
  | ReqD _ (VGiven _) DStart => true
  | ReqD _ _ _ => false
  | Req1 _ (VGiven _) _ => true
  | Req1 _ _ _ => false
  end.

(** ** 3.4 profiled objectives: the objective of an outer minimisation runs a minimisation itself (re-entrancy)
    F(x) = min_z g(x ++ z), computed by Nelder-Mead on an object [ob] (a fresh or a reused one) or by Find_Minimum *)
Definition profile_nm1 (g : list T -> T) (ob : nmobj) (ftol_in : T) (z0 : list T) (din : T) (x : list T) : res (nmobj * T) :=
  rmap (fun r => (fst r, o_fmin (snd r))) (obj_minimize_delta (fun z => g (x ++ z)) ob ftol_in z0 din).
Definition profile_fmin (g : list T -> T) (zl zr tol_in : T) (x : list T) : res T :=
  rmap (fun r => g (x ++ [fst (fst r)])) (find_minimum_full (fun z => g (x ++ [z])) zl zr tol_in).
End Min.
