(** * C06 proofs, part 8: the series branch GammaPser at integer shapes a = q+1, for every q, x > 0 and every truncation index.
    The returned value is  (q!/exp(GammaLn a)) * Ptr  with  Ptr = e^-x sum_{i=q+1}^{q+1+k} x^i/i!,  a truncation of the true
    P(x,q+1) = 1 - e^-x sum_{i<=q} x^i/i! = (1/q!) RInt_0^x t^q e^-t;  0 <= Ptr <= P, and when x < a+1 (the branch condition of
    GammaQ) the stopping test of the loop bounds the truncation error:  P - Ptr <= Ptr * 2^-52 * (q+k+3). *)
From Coq Require Import Reals ZArith List Lia Lra Bool.
From Coquelicot Require Import Coquelicot.
From LP Require Import Num NumR C06_Model C06_Proofs_Gamma C06_Proofs_QInt.
Local Open Scope R_scope.

Definition eterm (x : R) (i : nat) : R := x ^ i / INR (fact i).
Definition esum (x : R) (N : nat) : R := sum_f_R0 (eterm x) N.

Lemma eterm_nonneg x i : 0 <= x -> 0 <= eterm x i.
Proof.
  intros H. unfold eterm. apply Rmult_le_pos; [apply pow_le; exact H|].
  left. apply Rinv_0_lt_compat. apply INR_fact_lt_0.
Qed.

Lemma eterm_S x i : eterm x (S i) = eterm x i * (x / INR (S i)).
Proof.
  unfold eterm. change (fact (S i)) with (S i * fact i)%nat. rewrite mult_INR. cbn [pow]. field.
  split; [apply not_0_INR; discriminate|apply INR_fact_neq_0].
Qed.

(** the partial sums of the exponential series converge to exp (standard library's definition of exp) *)
Lemma esum_cv x : Un_cv (esum x) (exp x).
Proof.
  unfold exp. destruct (exist_exp x) as [l Hl]. cbn [proj1_sig]. unfold exp_in, infinite_sum in Hl.
  intros eps He. destruct (Hl eps He) as [N HN]. exists N. intros n Hn. specialize (HN n Hn).
  unfold esum. replace (sum_f_R0 (eterm x) n) with (sum_f_R0 (fun i => / INR (fact i) * x ^ i) n); [exact HN|].
  apply sum_eq. intros i _. unfold eterm, Rdiv. ring.
Qed.

Lemma esum_growing x : 0 <= x -> Un_growing (esum x).
Proof. intros H n. unfold esum. cbn [sum_f_R0]. pose proof (eterm_nonneg x (S n) H). lra. Qed.

Lemma esum_le_exp x N : 0 <= x -> esum x N <= exp x.
Proof. intros H. apply (growing_ineq (esum x)); [apply esum_growing; exact H|apply esum_cv]. Qed.

(** geometric bound of the remainder: for 0 <= x < N+2,  exp x <= sum_{i<=N} x^i/i! + x^(N+1)/(N+1)! * (N+2)/(N+2-x) *)
Lemma eterm_geo x N j : 0 <= x -> eterm x (S N + j) <= eterm x (S N) * (x / (INR N + 2)) ^ j.
Proof.
  intros Hx. induction j as [|j IH].
  - rewrite Nat.add_0_r. cbn [pow]. lra.
  - replace (S N + S j)%nat with (S (S N + j)) by lia. rewrite eterm_S. cbn [pow].
    assert (H0 : 0 <= eterm x (S N + j)) by (apply eterm_nonneg; exact Hx).
    assert (HN : 0 <= INR N) by apply pos_INR.
    assert (Hd : INR N + 2 <= INR (S (S N + j))).
    { rewrite S_INR. replace (S N + j)%nat with (S (N + j)) by lia. rewrite S_INR, plus_INR. pose proof (pos_INR j). lra. }
    assert (Hr : x / INR (S (S N + j)) <= x / (INR N + 2)).
    { unfold Rdiv. apply Rmult_le_compat_l; [exact Hx|]. apply Rinv_le_contravar; lra. }
    assert (Hr0 : 0 <= x / INR (S (S N + j))).
    { apply Rmult_le_pos; [exact Hx|]. left. apply Rinv_0_lt_compat. lra. }
    apply Rle_trans with (eterm x (S N + j) * (x / (INR N + 2))).
    + apply Rmult_le_compat_l; assumption.
    + replace (eterm x (S N) * (x / (INR N + 2) * (x / (INR N + 2)) ^ j))
        with (eterm x (S N) * (x / (INR N + 2)) ^ j * (x / (INR N + 2))) by ring.
      apply Rmult_le_compat_r; [|exact IH]. apply Rmult_le_pos; [exact Hx|]. left. apply Rinv_0_lt_compat. lra.
Qed.

Lemma esum_tail_partial x N M : 0 <= x ->
  esum x (S N + M) <= esum x N + eterm x (S N) * sum_f_R0 (pow (x / (INR N + 2))) M.
Proof.
  intros Hx. induction M as [|M IH].
  - rewrite Nat.add_0_r. unfold esum. cbn [sum_f_R0 pow]. lra.
  - replace (S N + S M)%nat with (S (S N + M)) by lia. unfold esum in *. cbn [sum_f_R0].
    pose proof (eterm_geo x N (S M) Hx) as G. replace (S N + S M)%nat with (S (S N + M)) in G by lia.
    rewrite Rmult_plus_distr_l. lra.
Qed.

Lemma geo_sum_le r M : 0 <= r < 1 -> sum_f_R0 (pow r) M <= / (1 - r).
Proof.
  intros [H0 H1]. rewrite tech3 by lra. unfold Rdiv. rewrite <- (Rmult_1_l (/ (1 - r))) at 2.
  apply Rmult_le_compat_r; [left; apply Rinv_0_lt_compat; lra|].
  assert (0 <= r ^ S M) by (apply pow_le; exact H0). lra.
Qed.

Lemma exp_remainder_geo x N : 0 <= x < INR N + 2 ->
  exp x <= esum x N + eterm x (S N) * ((INR N + 2) / (INR N + 2 - x)).
Proof.
  intros [Hx0 Hx1]. set (B := esum x N + eterm x (S N) * ((INR N + 2) / (INR N + 2 - x))).
  assert (HN : 0 <= INR N) by apply pos_INR.
  assert (Hr : 0 <= x / (INR N + 2) < 1).
  { split; [apply Rmult_le_pos; [exact Hx0|left; apply Rinv_0_lt_compat; lra]|].
    apply Rmult_lt_reg_r with (INR N + 2); [lra|]. unfold Rdiv. rewrite Rmult_assoc, Rinv_l by lra. lra. }
  assert (Hall : forall n, esum x n <= B).
  { intros n. apply Rle_trans with (esum x (S N + n)).
    - assert (G : forall a b, (a <= b)%nat -> esum x a <= esum x b).
      { intros a b Hab. induction Hab; [lra|]. pose proof (esum_growing x Hx0 m). lra. }
      apply G. lia.
    - apply Rle_trans with (esum x N + eterm x (S N) * sum_f_R0 (pow (x / (INR N + 2))) n); [apply esum_tail_partial; exact Hx0|].
      unfold B. apply Rplus_le_compat_l. apply Rmult_le_compat_l; [apply eterm_nonneg; exact Hx0|].
      replace ((INR N + 2) / (INR N + 2 - x)) with (/ (1 - x / (INR N + 2))) by (field; lra).
      apply geo_sum_le. exact Hr. }
  apply (@Rle_cv_lim (esum x) (fun _ => B) (exp x) B Hall (esum_cv x)).
  intros eps He. exists 0%nat. intros n _. unfold R_dist. rewrite Rminus_diag_eq by reflexivity. rewrite Rabs_R0. exact He.
Qed.

(** ** The series of GammaPser at a = q+1 is the exponential series from index q+1 on *)
Lemma rising_fact q j : INR (fact q) * rising (INR (S q)) j = INR (fact (S q + j)).
Proof.
  induction j as [|j IH].
  - cbn [rising]. rewrite Nat.add_0_r. change (fact (S q)) with (S q * fact q)%nat. rewrite mult_INR. ring.
  - cbn [rising]. rewrite <- Rmult_assoc, IH. replace (S q + S j)%nat with (S (S q + j)) by lia.
    change (fact (S (S q + j))) with (S (S q + j) * fact (S q + j))%nat. rewrite mult_INR.
    rewrite (S_INR (S q + j)), plus_INR, (S_INR j). ring.
Qed.

Lemma gser_term_eterm q x j : x ^ S q / INR (fact q) * gser_term x (INR (S q)) j = eterm x (S q + j).
Proof.
  unfold gser_term, eterm. rewrite <- rising_fact, pow_add. field.
  split; [apply rising_neq; apply lt_0_INR; lia|apply INR_fact_neq_0].
Qed.

Lemma gser_sum_esum q x k :
  x ^ S q / INR (fact q) * sum_f_R0 (gser_term x (INR (S q))) k = esum x (S q + k) - esum x q.
Proof.
  induction k as [|k IH].
  - rewrite Nat.add_0_r. unfold esum. cbn [sum_f_R0]. rewrite gser_term_eterm, Nat.add_0_r. ring.
  - cbn [sum_f_R0]. rewrite Rmult_plus_distr_l, IH, gser_term_eterm.
    replace (S q + S k)%nat with (S (S q + k)) by lia. unfold esum. cbn [sum_f_R0]. ring.
Qed.

Lemma exp_shape q x gln : 0 < x -> exp (- x + INR (S q) * ln x - gln) = exp (- x) * x ^ S q / exp gln.
Proof.
  intros Hx. unfold Rminus. rewrite !exp_plus, (exp_Ropp gln).
  replace (exp (INR (S q) * ln x)) with (Rpower x (INR (S q))) by reflexivity.
  rewrite Rpower_pow by exact Hx. unfold Rdiv. ring.
Qed.

(** the true P(x, q+1) through its closed form *)
Definition Pint (q : nat) (x : R) : R := 1 - exp (- x) * esum x q.

Lemma Pint_is_integral q x : Pint q x = / INR (fact q) * RInt (fun t => t ^ q * exp (- t)) 0 x.
Proof. unfold Pint, esum. change (sum_f_R0 (eterm x) q) with (sum_f_R0 (fun k => x ^ k / INR (fact k)) q). rewrite q_integer_closed_form. ring. Qed.

Theorem gser_integer_shape_first q x v : 0 < x -> gammap_ser ROps x (INR (S q)) = Ok v ->
  exists k gln, gammaln ROps (INR (S q)) = Ok gln /\ (Z.of_nat k <= 100000)%Z /\
    (forall j, (j < k)%nat -> Rabs (sum_f_R0 (gser_term x (INR (S q))) j) * dbl_eps ROps < Rabs (gser_term x (INR (S q)) j)) /\
    let Ptr := exp (- x) * (esum x (S q + k) - esum x q) in
    v = Ptr * (INR (fact q) / exp gln) /\
    0 <= Ptr <= Pint q x /\ Pint q x <= 1 /\
    Pint q x - Ptr = exp (- x) * (exp x - esum x (S q + k)) /\
    (x < INR (S q) + 1 -> Pint q x - Ptr <= Ptr * dbl_eps ROps * (INR (S q + k) + 2)).
Proof.
  intros Hx Hv. assert (Ha : 0 < INR (S q)) by (apply lt_0_INR; lia).
  destruct (gser_partial_sums x (INR (S q)) v Ha Hv) as (k & gln & Hg & Hk & Ev & Hstop & Hcont).
  exists k, gln. split; [exact Hg|]. split; [exact Hk|]. split; [exact Hcont|]. clear Hcont. cbv zeta.
  set (N := (S q + k)%nat) in *.
  assert (Hx0 : 0 <= x) by lra.
  assert (Hex : 0 < exp (- x)) by apply exp_pos.
  assert (Hc : 0 < x ^ S q / INR (fact q)).
  { apply Rmult_lt_0_compat; [apply pow_lt; exact Hx|apply Rinv_0_lt_compat; apply INR_fact_lt_0]. }
  assert (Hgrow : esum x q <= esum x N).
  { assert (G : forall a b, (a <= b)%nat -> esum x a <= esum x b).
    { intros a b Hab. induction Hab; [lra|]. pose proof (esum_growing x Hx0 m). lra. }
    apply G. unfold N. lia. }
  assert (HleN : esum x N <= exp x) by (apply esum_le_exp; exact Hx0).
  assert (Hee : exp (- x) * exp x = 1) by (rewrite <- exp_plus, Rplus_opp_l; apply exp_0).
  split; [|split; [|split; [|split]]].
  - unfold N. rewrite Ev, exp_shape by exact Hx. rewrite <- (gser_sum_esum q x k). field.
    split; [apply Rgt_not_eq, exp_pos|apply INR_fact_neq_0].
  - unfold Pint. split; [apply Rmult_le_pos; lra|]. nra.
  - unfold Pint. assert (0 <= esum x q).
    { unfold esum. apply cond_pos_sum. intros i. apply eterm_nonneg. exact Hx0. }
    nra.
  - unfold Pint. rewrite (Rmult_minus_distr_l (exp (- x)) (exp x)), Hee. ring.
  - intros Hbr.
    (* stopping test, rescaled: e^-x eterm x N <= Ptr * eps *)
    assert (Hsum : sum_f_R0 (gser_term x (INR (S q))) k = (esum x N - esum x q) / (x ^ S q / INR (fact q))).
    { unfold N. rewrite <- (gser_sum_esum q x k). field. split; [apply INR_fact_neq_0|apply pow_nonzero; lra]. }
    assert (Hterm : gser_term x (INR (S q)) k = eterm x N / (x ^ S q / INR (fact q))).
    { unfold N. rewrite <- (gser_term_eterm q x k). field. split; [apply INR_fact_neq_0|apply pow_nonzero; lra]. }
    assert (HtN : 0 <= eterm x N) by (apply eterm_nonneg; exact Hx0).
    assert (Hst : eterm x N <= (esum x N - esum x q) * dbl_eps ROps).
    { rewrite Hsum, Hterm in Hstop. unfold Rdiv in Hstop. rewrite !Rabs_mult in Hstop.
      rewrite (Rabs_pos_eq (eterm x N)) in Hstop by exact HtN.
      rewrite (Rabs_pos_eq (esum x N - esum x q)) in Hstop by lra.
      set (ci := Rabs (/ (x ^ S q * / INR (fact q)))) in *.
      assert (Hci : 0 < ci).
      { unfold ci. apply Rabs_pos_lt. apply Rinv_neq_0_compat. apply Rgt_not_eq. exact Hc. }
      apply Rmult_le_reg_r with ci; [exact Hci|]. lra. }
    (* remainder *)
    assert (HNq : INR N = INR (S q) + INR k) by (unfold N; apply plus_INR).
    assert (Hk0 : 0 <= INR k) by apply pos_INR.
    assert (HxN : x < INR N + 1) by lra.
    pose proof (exp_remainder_geo x N ltac:(lra)) as Hrem.
    assert (HS : eterm x (S N) <= eterm x N).
    { rewrite eterm_S. rewrite <- (Rmult_1_r (eterm x N)) at 2. apply Rmult_le_compat_l; [exact HtN|].
      rewrite S_INR. apply Rmult_le_reg_r with (INR N + 1); [lra|]. unfold Rdiv. rewrite Rmult_assoc, Rinv_l by lra. lra. }
    assert (Hfrac : (INR N + 2) / (INR N + 2 - x) <= INR N + 2).
    { apply Rmult_le_reg_r with (INR N + 2 - x); [lra|]. unfold Rdiv. rewrite Rmult_assoc, Rinv_l by lra. nra. }
    assert (HtS : 0 <= eterm x (S N)) by (apply eterm_nonneg; exact Hx0).
    assert (Hfr0 : 0 <= (INR N + 2) / (INR N + 2 - x)).
    { apply Rmult_le_pos; [lra|]. left. apply Rinv_0_lt_compat. lra. }
    assert (Hr2 : exp x - esum x N <= eterm x N * (INR N + 2)).
    { apply Rle_trans with (eterm x (S N) * ((INR N + 2) / (INR N + 2 - x))); [lra|].
      apply Rmult_le_compat; assumption. }
    unfold Pint. rewrite Rmult_minus_distr_l.
    replace (1 - exp (- x) * esum x q - (exp (- x) * esum x N - exp (- x) * esum x q))
      with (exp (- x) * (exp x - esum x N)) by (rewrite (Rmult_minus_distr_l (exp (- x)) (exp x)), Hee; ring).
    replace ((exp (- x) * esum x N - exp (- x) * esum x q) * dbl_eps ROps * (INR N + 2))
      with (exp (- x) * ((esum x N - esum x q) * dbl_eps ROps * (INR N + 2))) by ring.
    apply Rmult_le_compat_l; [lra|].
    apply Rle_trans with (eterm x N * (INR N + 2)); [exact Hr2|].
    apply Rmult_le_compat_r; [lra|exact Hst].
Qed.

Theorem gser_integer_shape q x v : 0 < x -> gammap_ser ROps x (INR (S q)) = Ok v ->
  exists k gln, gammaln ROps (INR (S q)) = Ok gln /\ (Z.of_nat k <= 100000)%Z /\
    let Ptr := exp (- x) * (esum x (S q + k) - esum x q) in
    v = Ptr * (INR (fact q) / exp gln) /\
    0 <= Ptr <= Pint q x /\ Pint q x <= 1 /\
    Pint q x - Ptr = exp (- x) * (exp x - esum x (S q + k)) /\
    (x < INR (S q) + 1 -> Pint q x - Ptr <= Ptr * dbl_eps ROps * (INR (S q + k) + 2)).
Proof.
  intros Hx Hv. destruct (gser_integer_shape_first q x v Hx Hv) as (k & gln & Hg & Hk & _ & H). exists k, gln.
  split; [exact Hg|]. split; [exact Hk|]. exact H.
Qed.

Lemma esum_split q x k : esum x (S q + k) - esum x q = sum_f_R0 (fun j => x ^ (S q + j) / INR (fact (S q + j))) k.
Proof.
  induction k as [|k IH].
  - rewrite Nat.add_0_r. unfold esum, eterm. cbn [sum_f_R0]. rewrite Nat.add_0_r. ring.
  - cbn [sum_f_R0]. rewrite <- IH. replace (S q + S k)%nat with (S (S q + k)) by lia. unfold esum. cbn [sum_f_R0]. unfold eterm. ring.
Qed.

(** the same with P(x,q+1) written as the integral and the sums spelled out *)
Theorem gser_integer_shape_integral q x v : 0 < x -> gammap_ser ROps x (INR (S q)) = Ok v ->
  exists k gln, gammaln ROps (INR (S q)) = Ok gln /\ (Z.of_nat k <= 100000)%Z /\
    let P := / INR (fact q) * RInt (fun t => t ^ q * exp (- t)) 0 x in
    let Ptr := exp (- x) * sum_f_R0 (fun j => x ^ (S q + j) / INR (fact (S q + j))) k in
    v = Ptr * (INR (fact q) / exp gln) /\
    0 <= Ptr <= P /\ P <= 1 /\
    P - Ptr = exp (- x) * (exp x - sum_f_R0 (fun i => x ^ i / INR (fact i)) (S q + k)) /\
    (x < INR (S q) + 1 -> P - Ptr <= Ptr * dbl_eps ROps * (INR (S q + k) + 2)).
Proof.
  intros Hx Hv. destruct (gser_integer_shape q x v Hx Hv) as (k & gln & Hg & Hk & H). exists k, gln.
  split; [exact Hg|]. split; [exact Hk|]. cbv zeta in *. rewrite <- Pint_is_integral, <- esum_split. exact H.
Qed.
