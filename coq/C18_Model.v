(** * C18 model: the samplers of src/Statistics.cpp section 3.

    The generator is an explicit finite stream [us : list T] of canonical uniforms (each in [0,1): what
    libstdc++'s std::generate_canonical<double,53> makes of two consecutive 32-bit outputs of the
    std::mt19937 the caller owns).  Every sampler is a function  stream -> res (value * remaining stream);
    the number of uniforms it consumed is [length us - length rest].  An exhausted stream is [Fuel]
    (the real call would still be drawing).  Hand-written, mirroring the C++ statement by statement; tied to
    the code by the differential correspondence check (harness/C18.cpp vs the extraction of this file).

    Sample_Gauss -> Quantile_Gauss -> Inv_Erf -> Find_Root: own copies of the current Inv_Erf guard
    structure (Special_Functions.cpp) and Find_Root loop (Numerics.cpp: bracket-width stopping rule, Ridder's
    point clamped to the bracket, Max_Iterations = 2200). *)
From Coq Require Import ZArith List Bool Lia.
From LP Require Import Num.
Import ListNotations.
Local Open Scope Z_scope.

(** 32-bit unsigned arithmetic of `unsigned int i_max = burn_in + thinning * sample` *)
Definition wrap32 (z : Z) : Z := z mod 4294967296.
Definition metro_imax (burn thin sample : Z) : Z := wrap32 (burn + wrap32 (thin * sample)).
(** `i >= burn_in && i % thinning == 0` *)
Definition metro_keep (burn thin i : Z) : bool := (i >=? burn) && (i mod thin =? 0).
(** bookkeeping only: how many loop indices in [i, i + fuel) are kept *)
Fixpoint count_loop (fuel : nat) (burn thin i c : Z) : Z :=
  match fuel with
  | O => c
  | S f => count_loop f burn thin (i + 1) (if metro_keep burn thin i then c + 1 else c)
  end.
Definition metro_kept (burn thin sample : Z) : Z :=
  count_loop (Z.to_nat (metro_imax burn thin sample)) burn thin 0 0.
(** uniforms consumed by Sample_Metropolis / Sample_Metropolis_2D *)
Definition metro_consumed (burn thin sample : Z) : Z := 1 + 2 * metro_imax burn thin sample.
Definition metro2_consumed (burn thin sample : Z) : Z := 2 + 3 * metro_imax burn thin sample.

Section Model.
Context {T : Type} (Ops : NumOps T).
Declare Scope num_scope.
Local Notation "x + y" := (nadd Ops x y) : num_scope.
Local Notation "x - y" := (nsub Ops x y) : num_scope.
Local Notation "x * y" := (nmul Ops x y) : num_scope.
Local Notation "x / y" := (ndiv Ops x y) : num_scope.
Delimit Scope num_scope with num.
Local Notation c0 := (n0 Ops).
Local Notation c1 := (n1 Ops).
Local Notation c2 := (nofZ Ops 2).

(** ** Relative_Difference (Special_Functions.cpp) *)
Definition relative_difference (a b : T) : T :=
  let d := nabs Ops (a - b)%num in
  let mx := nmax Ops (nabs Ops a) (nabs Ops b) in
  if neqb Ops mx c0 then c0 else (d / mx)%num.

(** ** Find_Root (Numerics.cpp): Ridder's method, Max_Iterations = 2200, new point clamped to the bracket *)
Fixpoint ridder (f : T -> T) (acc : T) (fuel : nat) (x1 x2 f1 f2 result : T) : res T :=
  match fuel with
  | O => Ok result      (* "Iterations exceed the maximum": a warning, the last iterate is returned *)
  | S fuel' =>
      let x3 := (ndec Ops 1 2 * x1 + ndec Ops 1 2 * x2)%num in
      let f3 := f x3 in
      (* scale = max(|f3|, max(|f1|, |f2|)); g_i = f_i / scale; Ridder's point from the g_i; NaN -> midpoint *)
      let sc := nmax Ops (nabs Ops f3) (nmax Ops (nabs Ops f1) (nabs Ops f2)) in
      let g1 := (f1 / sc)%num in let g2 := (f2 / sc)%num in let g3 := (f3 / sc)%num in
      let x4 := (x3 + (x3 - x1) * nofZ Ops (sign1 Ops (g1 - g2)%num) * g3 / nsqrt Ops (g3 * g3 - g1 * g2))%num in
      let x4 := if nisnan Ops x4 then x3 else x4 in
      (* x4 = std::max(std::min(x1, x2), std::min(std::max(x1, x2), x4)): keep the point inside the bracket *)
      let x4 := nmax Ops (nmin Ops x1 x2) (nmin Ops (nmax Ops x1 x2) x4) in
      let f4 := f x4 in
      if neqb Ops f4 c0 then Ok x4
      else
        let br :=
          if nneb Ops (sign2 Ops f3 f4) f3 then Some (x3, x4, f3, f4)
          else if nneb Ops (sign2 Ops f1 f4) f1 then Some (x1, x4, f1, f4)
          else if nneb Ops (sign2 Ops f2 f4) f2 then Some (x4, x2, f4, f2)
          else None in
        match br with
        | None => Exit
        | Some (a, b, fa, fb) =>
            if nltb Ops (nabs Ops (b - a)%num) acc then Ok x4
            else ridder f acc fuel' a b fa fb x4
        end
  end.

Definition find_root (f : T -> T) (xLeft xRight acc : T) : res T :=
  let xl := if ngtb Ops xLeft xRight then xRight else xLeft in
  let xr := if ngtb Ops xLeft xRight then xLeft else xRight in
  let fl := f xl in
  let fr := f xr in
  if nisnan Ops fl || nisnan Ops fr then Exit
  else if (sign1 Ops fl * sign1 Ops fr >=? 0)%Z then
    (if neqb Ops fl c0 then Ok xl else if neqb Ops fr c0 then Ok xr else Exit)
  else ridder f acc (Z.to_nat 2200) xl xr fl fr
         (nneg Ops (nlit Ops 9900000000000000000000000000000000000000000000000000000000000000000000000000000000000000000000000000 1 5096082013573349 280)).

(** ** Inv_Erf (Special_Functions.cpp) *)
Definition inv_erf (p : T) : res T :=
  if nltb Ops (nabs Ops (p - c1)%num) (nlit Ops 1 10000000000000000 2028240960365167 (-104)) then Ok (nofZ Ops 10)
  else if nltb Ops (nabs Ops (p + c1)%num) (nlit Ops 1 10000000000000000 2028240960365167 (-104)) then Ok (nneg Ops (nofZ Ops 10))
  else if ngeb Ops (nabs Ops p) c1 then Exit
  else find_root (fun x => (nerf Ops x - p)%num) (nneg Ops (nofZ Ops 10)) (nofZ Ops 10) (ndec Ops 1 10000).

(** ** Quantile_Gauss: mu + sqrt(2.0) * sigma * Inv_Erf(2.0 * p - 1.0) *)
Definition quantile_gauss (p mu sigma : T) : res T :=
  rbind (inv_erf (c2 * p - c1)%num) (fun e => Ok (mu + nsqrt Ops c2 * sigma * e)%num).

(** ** Sample_Uniform: libstdc++'s uniform_real_distribution maps one canonical draw u to u * (b - a) + a *)
Definition unif (u a b : T) : T := (u * (b - a) + a)%num.
Definition sample_uniform (a b : T) (us : list T) : res (T * list T) :=
  match us with
  | [] => Fuel
  | u :: r => Ok (unif u a b, r)
  end.

(** ** Sample_Gauss: xi = Sample_Uniform(PRNG, 0.0, 1.0); Quantile_Gauss(xi, mean, sd) *)
Definition gauss_of (u mean sd : T) : res T := quantile_gauss (unif u c0 c1) mean sd.
Definition sample_gauss (mean sd : T) (us : list T) : res (T * list T) :=
  match us with
  | [] => Fuel
  | u :: r => rbind (gauss_of u mean sd) (fun g => Ok (g, r))
  end.

(** ** Sample_Poisson (Knuth's product method with the exp(STEP) rescaling) *)
Definition STEP : T := nofZ Ops 500.
(* while(p < 1.0 && lambda_left > 0.0) *)
Fixpoint poisson_inner (fuel : nat) (p lam : T) : res (T * T) :=
  if nltb Ops p c1 && ngtb Ops lam c0 then
    match fuel with
    | O => Fuel
    | S f =>
        if ngtb Ops lam STEP then poisson_inner f (p * nexp Ops STEP)%num (lam - STEP)%num
        else poisson_inner f (p * nexp Ops lam)%num c0
    end
  else Ok (p, lam).
(* do { k++; u = Sample_Uniform(0,1); p = p*u; <inner while> } while(p > 1); return k - 1 *)
Fixpoint poisson_loop (fin : nat) (us : list T) (k : Z) (p lam : T) : res (Z * list T) :=
  match us with
  | [] => Fuel
  | u0 :: r =>
      let k' := k + 1 in
      let p' := (p * unif u0 c0 c1)%num in
      match poisson_inner fin p' lam with
      | Ok (p'', lam'') => if ngtb Ops p'' c1 then poisson_loop fin r k' p'' lam'' else Ok (k' - 1, r)
      | Exit => Exit
      | OOB => OOB
      | Fuel => Fuel
      end
  end.
(* the inner loop runs at most floor(lambda/STEP) + 1 times in one call *)
Definition poisson_fuel (lam : T) : nat := (Z.to_nat (ntrunc Ops (lam / STEP)%num) + 2)%nat.
Definition sample_poisson (lam : T) (us : list T) : res (Z * list T) :=
  poisson_loop (poisson_fuel lam) us 0 c1 lam.
(* the vector overload: one call per expectation value, in order *)
Fixpoint sample_poisson_list (lams : list T) (us : list T) : res (list Z * list T) :=
  match lams with
  | [] => Ok ([], us)
  | lam :: rest =>
      match sample_poisson lam us with
      | Ok (k, r) =>
          match sample_poisson_list rest r with
          | Ok (ks, r') => Ok (k :: ks, r')
          | Exit => Exit | OOB => OOB | Fuel => Fuel
          end
      | Exit => Exit | OOB => OOB | Fuel => Fuel
      end
  end.

(** ** Inverse_Transform_Sampling: Find_Root(xi - cdf(x), xMin, xMax, 1e-10 * (xMax - xMin)) *)
Definition inverse_transform (cdf : T -> T) (xMin xMax : T) (us : list T) : res (T * list T) :=
  match us with
  | [] => Fuel
  | u :: r =>
      let xi := unif u c0 c1 in
      rbind (find_root (fun x => (xi - cdf x)%num) xMin xMax (ndec Ops 1 10000000000 * (xMax - xMin))%num)
            (fun x => Ok (x, r))
  end.

(** ** Rejection_Sampling (1D).  [count] is the value of the C++ counter before `count++`. *)
Fixpoint rejection_loop (PDF : T -> T) (xMin xMax yMax : T) (us : list T) (count : Z) : res (T * list T) :=
  let count' := count + 1 in
  if (count' mod 1000 =? 0) && (count' mod 10000 =? 0) then Exit     (* "Too inefficient sampling" *)
  else
    match us with
    | u1 :: u2 :: r =>
        let x := unif u1 xMin xMax in
        let y := unif u2 c0 yMax in
        let pdf := PDF x in
        if nltb Ops pdf c0 || nisnan Ops pdf || nisnan Ops (pdf - pdf)%num then Exit   (* < 0, NaN, inf *)
        else if ngtb Ops pdf yMax && ngtb Ops (relative_difference pdf yMax) (ndec Ops 1 100) then Exit
        else if nleb Ops y pdf then Ok (x, r)
        else rejection_loop PDF xMin xMax yMax r count'
    | _ => Fuel
    end.
Definition rejection_sampling (PDF : T -> T) (xMin xMax yMax : T) (us : list T) : res (T * list T) :=
  rejection_loop PDF xMin xMax yMax us 0.

(** ** Rejection_Sampling_2D: no sign/NaN test, three uniforms per trial *)
Fixpoint rejection2_loop (PDF : T -> T -> T) (xMin xMax yMin yMax zMax : T) (us : list T) (count : Z)
  : res ((T * T) * list T) :=
  let count' := count + 1 in
  if (count' mod 1000 =? 0) && (count' mod 10000 =? 0) then Exit
  else
    match us with
    | u1 :: u2 :: u3 :: r =>
        let x := unif u1 xMin xMax in
        let y := unif u2 yMin yMax in
        let z := unif u3 c0 zMax in
        let pdf := PDF x y in
        if ngtb Ops pdf zMax && ngtb Ops (relative_difference pdf zMax) (ndec Ops 1 100) then Exit
        else if nleb Ops z pdf then Ok ((x, y), r)
        else rejection2_loop PDF xMin xMax yMin yMax zMax r count'
    | _ => Fuel
    end.
Definition rejection_sampling_2d (PDF : T -> T -> T) (xMin xMax yMin yMax zMax : T) (us : list T)
  : res ((T * T) * list T) :=
  rejection2_loop PDF xMin xMax yMin yMax zMax us 0.

(** ** Sample_Metropolis (1D).  [dom] = None (unbounded) or Some (domain[0], domain[1]). *)
Definition accept1 (PDF : T -> T) (dom : option (T * T)) (x cand : T) : T :=
  match dom with
  | Some (lo, hi) =>
      if nltb Ops cand lo || ngtb Ops cand hi then c0 else nmin Ops c1 (PDF cand / PDF x)%num
  | None => nmin Ops c1 (PDF cand / PDF x)%num
  end.
(* loop body for i, i+1, ... while i < i_max; two uniforms per step: candidate, accept test *)
Fixpoint metro_loop (PDF : T -> T) (sigma : T) (dom : option (T * T)) (burn thin imax : Z)
    (us : list T) (i : Z) (x : T) (acc : list T) : res (list T * list T) :=
  if i <? imax then
    match us with
    | u1 :: u2 :: r =>
        match gauss_of u1 x sigma with
        | Ok cand =>
            let a := accept1 PDF dom x cand in
            let x' := if nltb Ops (unif u2 c0 c1) a then cand else x in
            let acc' := if metro_keep burn thin i then x' :: acc else acc in
            metro_loop PDF sigma dom burn thin imax r (i + 1) x' acc'
        | Exit => Exit | OOB => OOB | Fuel => Fuel
        end
    | _ => Fuel
    end
  else Ok (rev acc, us).
Definition sample_metropolis (PDF : T -> T) (sigma : T) (sample thin burn : Z) (domain : list T) (us : list T)
  : res (list T * list T) :=
  let run (dom : option (T * T)) :=
    let imax := metro_imax burn thin sample in
    match us with
    | [] => Fuel
    | u :: r =>
        match dom with
        | Some (lo, hi) => metro_loop PDF sigma dom burn thin imax r 0 (unif u lo hi) []
        | None => rbind (gauss_of u c0 sigma) (fun x0 => metro_loop PDF sigma dom burn thin imax r 0 x0 [])
        end
    end in
  match domain with
  | [] => run None
  | [lo; hi] => run (Some (lo, hi))
  | _ => Exit        (* "Domain must be a vector of size 0 or 2" *)
  end.

(** ** Sample_Metropolis_2D.  [dom] = None or Some (domain[0..3]); three uniforms per step. *)
Definition accept2 (PDF : T -> T -> T) (dom : option (T * T * T * T)) (x cand : T * T) : T :=
  match dom with
  | Some (x0, x1, y0, y1) =>
      if nltb Ops (fst cand) x0 || ngtb Ops (fst cand) x1 || nltb Ops (snd cand) y0 || ngtb Ops (snd cand) y1 then c0
      else nmin Ops c1 (PDF (fst cand) (snd cand) / PDF (fst x) (snd x))%num
  | None => nmin Ops c1 (PDF (fst cand) (snd cand) / PDF (fst x) (snd x))%num
  end.
Fixpoint metro2_loop (PDF : T -> T -> T) (s1 s2 : T) (dom : option (T * T * T * T)) (burn thin imax : Z)
    (us : list T) (i : Z) (x : T * T) (acc : list (T * T)) : res (list (T * T) * list T) :=
  if i <? imax then
    match us with
    | u1 :: u2 :: u3 :: r =>
        match gauss_of u1 (fst x) s1 with
        | Ok ca =>
            match gauss_of u2 (snd x) s2 with
            | Ok cb =>
                let cand := (ca, cb) in
                let a := accept2 PDF dom x cand in
                let x' := if nltb Ops (unif u3 c0 c1) a then cand else x in
                let acc' := if metro_keep burn thin i then x' :: acc else acc in
                metro2_loop PDF s1 s2 dom burn thin imax r (i + 1) x' acc'
            | Exit => Exit | OOB => OOB | Fuel => Fuel
            end
        | Exit => Exit | OOB => OOB | Fuel => Fuel
        end
    | _ => Fuel
    end
  else Ok (rev acc, us).
Definition sample_metropolis_2d (PDF : T -> T -> T) (s1 s2 : T) (sample thin burn : Z) (domain : list T) (us : list T)
  : res (list (T * T) * list T) :=
  let imax := metro_imax burn thin sample in
  match domain with
  | [] =>
      match us with
      | u1 :: u2 :: r =>
          rbind (gauss_of u1 c0 s1) (fun a => rbind (gauss_of u2 c0 s2) (fun b =>
            metro2_loop PDF s1 s2 None burn thin imax r 0 (a, b) []))
      | _ => Fuel
      end
  | [x0; x1; y0; y1] =>
      match us with
      | u1 :: u2 :: r =>
          metro2_loop PDF s1 s2 (Some (x0, x1, y0, y1)) burn thin imax r 0 (unif u1 x0 x1, unif u2 y0 y1) []
      | _ => Fuel
      end
  | _ => Exit        (* "Domain must be a vector of size 0 or 4" *)
  end.

(** ** A history of sampler calls on ONE generator (the interleavings of the property's quantifier).
    The calls are made one after the other, each on the stream its predecessor left behind.  No sampler of
    Statistics.cpp has state of its own (no static, no member, no global): a call is a function of its arguments
    and of the generator, so a history is the fold of [run_call] over the stream and nothing else is threaded. *)
Inductive call : Type :=
| CUniform (a b : T)
| CGauss (mean sd : T)
| CPoisson (lam : T)
| CPoissonV (lams : list T)
| CInvT (cdf : T -> T) (a b : T)
| CRej (PDF : T -> T) (xMin xMax yMax : T)
| CRej2 (PDF : T -> T -> T) (xMin xMax yMin yMax zMax : T)
| CMetro (PDF : T -> T) (sigma : T) (sample thin burn : Z) (domain : list T)
| CMetro2 (PDF : T -> T -> T) (s1 s2 : T) (sample thin burn : Z) (domain : list T).
Inductive answer : Type :=
| AReal (x : T)
| ACount (k : Z)
| ACounts (ks : list Z)
| APoint (p : T * T)
| AReals (l : list T)
| APoints (l : list (T * T)).
Definition ans {A : Type} (f : A -> answer) (x : res (A * list T)) : res (answer * list T) :=
  match x with Ok (a, r) => Ok (f a, r) | Exit => Exit | OOB => OOB | Fuel => Fuel end.
Definition run_call (c : call) (us : list T) : res (answer * list T) :=
  match c with
  | CUniform a b => ans AReal (sample_uniform a b us)
  | CGauss mean sd => ans AReal (sample_gauss mean sd us)
  | CPoisson lam => ans ACount (sample_poisson lam us)
  | CPoissonV lams => ans ACounts (sample_poisson_list lams us)
  | CInvT cdf a b => ans AReal (inverse_transform cdf a b us)
  | CRej PDF xMin xMax yMax => ans AReal (rejection_sampling PDF xMin xMax yMax us)
  | CRej2 PDF xMin xMax yMin yMax zMax => ans APoint (rejection_sampling_2d PDF xMin xMax yMin yMax zMax us)
  | CMetro PDF sigma sample thin burn domain => ans AReals (sample_metropolis PDF sigma sample thin burn domain us)
  | CMetro2 PDF s1 s2 sample thin burn domain => ans APoints (sample_metropolis_2d PDF s1 s2 sample thin burn domain us)
  end.
Fixpoint run_calls (cs : list call) (us : list T) : res (list answer * list T) :=
  match cs with
  | [] => Ok ([], us)
  | c :: rest =>
      match run_call c us with
      | Ok (a, r) =>
          match run_calls rest r with
          | Ok (l, r') => Ok (a :: l, r')
          | Exit => Exit | OOB => OOB | Fuel => Fuel
          end
      | Exit => Exit | OOB => OOB | Fuel => Fuel
      end
  end.
End Model.

(** * User functions that draw random numbers themselves (re-entrant / nested use).

    The std::function handed to a sampler may itself call a sampler -- on the generator the outer sampler is
    working on (a noisy / pseudo-marginal density), or on another generator (a nuisance parameter marginalised
    with an inner chain).  Such a function is modelled as  x -> state -> res (value * state)  where the state
    is the pair (stream of the generator the outer sampler was given, everything else the function owns: [A]).
    The samplers below are the same C++ statements as above with the state threaded through every evaluation of
    the user function, in the order in which the code evaluates them (operands of `PDF(candidate) / PDF(x)` left
    to right, as g++ and clang emit them).  The outer sampler only ever touches the first component.
    A pure function is the special case [fun x s => Ok (f x, s)] (theorems *_st_pure in C18_Proofs_St.v). *)
Section ModelSt.
Context {T : Type} (Ops : NumOps T) {A : Type}.
Declare Scope numst_scope.
Local Notation "x + y" := (nadd Ops x y) : numst_scope.
Local Notation "x - y" := (nsub Ops x y) : numst_scope.
Local Notation "x * y" := (nmul Ops x y) : numst_scope.
Local Notation "x / y" := (ndiv Ops x y) : numst_scope.
Delimit Scope numst_scope with nst.
Local Notation c0 := (n0 Ops).
Local Notation c1 := (n1 Ops).
Local Notation c2 := (nofZ Ops 2).

Definition st : Type := (list T * A)%type.
Definition sfun1 : Type := T -> st -> res (T * st).
Definition sfun2 : Type := T -> T -> st -> res (T * st).
Definition lift1 (f : T -> T) : sfun1 := fun x s => Ok (f x, s).
Definition lift2 (f : T -> T -> T) : sfun2 := fun x y s => Ok (f x y, s).

(** one canonical uniform from the sampler's generator *)
Definition draw (s : st) : res (T * st) :=
  match s with
  | (u :: r, a) => Ok (u, (r, a))
  | ([], _) => Fuel
  end.

(** ** Find_Root with a function that has state.  After Max_Iterations the warning prints func(result): one more evaluation. *)
Fixpoint ridder_st (f : sfun1) (acc : T) (fuel : nat) (x1 x2 f1 f2 result : T) (s : st) : res (T * st) :=
  match fuel with
  | O => rbind (f result s) (fun vs => Ok (result, snd vs))
  | S fuel' =>
      let x3 := (ndec Ops 1 2 * x1 + ndec Ops 1 2 * x2)%nst in
      rbind (f x3 s) (fun vs3 =>
        let f3 := fst vs3 in
        let sc := nmax Ops (nabs Ops f3) (nmax Ops (nabs Ops f1) (nabs Ops f2)) in
        let g1 := (f1 / sc)%nst in let g2 := (f2 / sc)%nst in let g3 := (f3 / sc)%nst in
        let x4 := (x3 + (x3 - x1) * nofZ Ops (sign1 Ops (g1 - g2)%nst) * g3 / nsqrt Ops (g3 * g3 - g1 * g2))%nst in
        let x4 := if nisnan Ops x4 then x3 else x4 in
        let x4 := nmax Ops (nmin Ops x1 x2) (nmin Ops (nmax Ops x1 x2) x4) in
        rbind (f x4 (snd vs3)) (fun vs4 =>
          let f4 := fst vs4 in
          if neqb Ops f4 c0 then Ok (x4, snd vs4)
          else
            let br :=
              if nneb Ops (sign2 Ops f3 f4) f3 then Some (x3, x4, f3, f4)
              else if nneb Ops (sign2 Ops f1 f4) f1 then Some (x1, x4, f1, f4)
              else if nneb Ops (sign2 Ops f2 f4) f2 then Some (x4, x2, f4, f2)
              else None in
            match br with
            | None => Exit
            | Some (a, b, fa, fb) =>
                if nltb Ops (nabs Ops (b - a)%nst) acc then Ok (x4, snd vs4)
                else ridder_st f acc fuel' a b fa fb x4 (snd vs4)
            end))
  end.

Definition find_root_st (f : sfun1) (xLeft xRight acc : T) (s : st) : res (T * st) :=
  let xl := if ngtb Ops xLeft xRight then xRight else xLeft in
  let xr := if ngtb Ops xLeft xRight then xLeft else xRight in
  rbind (f xl s) (fun vl => rbind (f xr (snd vl)) (fun vr =>
    let fl := fst vl in let fr := fst vr in let s2 := snd vr in
    if nisnan Ops fl || nisnan Ops fr then Exit
    else if (sign1 Ops fl * sign1 Ops fr >=? 0)%Z then
      (if neqb Ops fl c0 then Ok (xl, s2) else if neqb Ops fr c0 then Ok (xr, s2) else Exit)
    else ridder_st f acc (Z.to_nat 2200) xl xr fl fr
           (nneg Ops (nlit Ops 9900000000000000000000000000000000000000000000000000000000000000000000000000000000000000000000000000 1 5096082013573349 280)) s2)).

(** ** Inverse_Transform_Sampling: xi is drawn first, then Find_Root evaluates xi - cdf(x) *)
Definition inverse_transform_st (cdf : sfun1) (xMin xMax : T) (s : st) : res (T * st) :=
  rbind (draw s) (fun us1 =>
    let xi := unif Ops (fst us1) c0 c1 in
    find_root_st (fun x s' => rbind (cdf x s') (fun cs => Ok ((xi - fst cs)%nst, snd cs)))
                 xMin xMax (ndec Ops 1 10000000000 * (xMax - xMin))%nst (snd us1)).

(** ** Rejection_Sampling: x, y are drawn, then PDF(x) is evaluated.  The loop leaves at the 10000th trial at the latest:
    that literal is the fuel. *)
Fixpoint rejection_loop_st (fuel : nat) (PDF : sfun1) (xMin xMax yMax : T) (s : st) (count : Z) : res (T * st) :=
  let count' := count + 1 in
  if (count' mod 1000 =? 0) && (count' mod 10000 =? 0) then Exit
  else
    match fuel with
    | O => Fuel
    | S fuel' =>
        rbind (draw s) (fun us1 => rbind (draw (snd us1)) (fun us2 =>
          let x := unif Ops (fst us1) xMin xMax in
          let y := unif Ops (fst us2) c0 yMax in
          rbind (PDF x (snd us2)) (fun ps =>
            let pdf := fst ps in
            if nltb Ops pdf c0 || nisnan Ops pdf || nisnan Ops (pdf - pdf)%nst then Exit
            else if ngtb Ops pdf yMax && ngtb Ops (relative_difference Ops pdf yMax) (ndec Ops 1 100) then Exit
            else if nleb Ops y pdf then Ok (x, snd ps)
            else rejection_loop_st fuel' PDF xMin xMax yMax (snd ps) count')))
    end.
Definition rejection_sampling_st (PDF : sfun1) (xMin xMax yMax : T) (s : st) : res (T * st) :=
  rejection_loop_st (Z.to_nat 10000) PDF xMin xMax yMax s 0.

Fixpoint rejection2_loop_st (fuel : nat) (PDF : sfun2) (xMin xMax yMin yMax zMax : T) (s : st) (count : Z)
  : res ((T * T) * st) :=
  let count' := count + 1 in
  if (count' mod 1000 =? 0) && (count' mod 10000 =? 0) then Exit
  else
    match fuel with
    | O => Fuel
    | S fuel' =>
        rbind (draw s) (fun us1 => rbind (draw (snd us1)) (fun us2 => rbind (draw (snd us2)) (fun us3 =>
          let x := unif Ops (fst us1) xMin xMax in
          let y := unif Ops (fst us2) yMin yMax in
          let z := unif Ops (fst us3) c0 zMax in
          rbind (PDF x y (snd us3)) (fun ps =>
            let pdf := fst ps in
            if ngtb Ops pdf zMax && ngtb Ops (relative_difference Ops pdf zMax) (ndec Ops 1 100) then Exit
            else if nleb Ops z pdf then Ok ((x, y), snd ps)
            else rejection2_loop_st fuel' PDF xMin xMax yMin yMax zMax (snd ps) count'))))
    end.
Definition rejection_sampling_2d_st (PDF : sfun2) (xMin xMax yMin yMax zMax : T) (s : st) : res ((T * T) * st) :=
  rejection2_loop_st (Z.to_nat 10000) PDF xMin xMax yMin yMax zMax s 0.

(** ** Sample_Metropolis: candidate drawn, then (inside the domain only) PDF(candidate), PDF(x), then the accept deviate *)
Definition inside1 (dom : option (T * T)) (cand : T) : bool :=
  match dom with
  | Some (lo, hi) => negb (nltb Ops cand lo || ngtb Ops cand hi)
  | None => true
  end.
Definition accept1_st (PDF : sfun1) (dom : option (T * T)) (x cand : T) (s : st) : res (T * st) :=
  if inside1 dom cand then
    rbind (PDF cand s) (fun fc => rbind (PDF x (snd fc)) (fun fx =>
      Ok (nmin Ops c1 (fst fc / fst fx)%nst, snd fx)))
  else Ok (c0, s).       (* the density is not evaluated for a candidate outside of the domain *)
(* every step takes at least two uniforms from the sampler's stream: its length bounds the number of steps (fuel) *)
Fixpoint metro_loop_st (fuel : nat) (PDF : sfun1) (sigma : T) (dom : option (T * T)) (burn thin imax : Z)
    (s : st) (i : Z) (x : T) (acc : list T) : res (list T * st) :=
  if i <? imax then
    match fuel with
    | O => Fuel
    | S fuel' =>
        rbind (draw s) (fun us1 =>
        rbind (gauss_of Ops (fst us1) x sigma) (fun cand =>
        rbind (accept1_st PDF dom x cand (snd us1)) (fun as2 =>
        rbind (draw (snd as2)) (fun us3 =>
          let x' := if nltb Ops (unif Ops (fst us3) c0 c1) (fst as2) then cand else x in
          let acc' := if metro_keep burn thin i then x' :: acc else acc in
          metro_loop_st fuel' PDF sigma dom burn thin imax (snd us3) (i + 1) x' acc'))))
    end
  else Ok (rev acc, s).
Definition sample_metropolis_st (PDF : sfun1) (sigma : T) (sample thin burn : Z) (domain : list T) (s : st)
  : res (list T * st) :=
  let imax := metro_imax burn thin sample in
  let fuel := S (length (fst s)) in
  match domain with
  | [] => rbind (draw s) (fun us1 => rbind (gauss_of Ops (fst us1) c0 sigma) (fun x0 =>
            metro_loop_st fuel PDF sigma None burn thin imax (snd us1) 0 x0 []))
  | [lo; hi] => rbind (draw s) (fun us1 =>
            metro_loop_st fuel PDF sigma (Some (lo, hi)) burn thin imax (snd us1) 0 (unif Ops (fst us1) lo hi) [])
  | _ => Exit
  end.

(** ** Sample_Metropolis_2D *)
Definition inside2 (dom : option (T * T * T * T)) (cand : T * T) : bool :=
  match dom with
  | Some (x0, x1, y0, y1) =>
      negb (nltb Ops (fst cand) x0 || ngtb Ops (fst cand) x1 || nltb Ops (snd cand) y0 || ngtb Ops (snd cand) y1)
  | None => true
  end.
Definition accept2_st (PDF : sfun2) (dom : option (T * T * T * T)) (x cand : T * T) (s : st) : res (T * st) :=
  if inside2 dom cand then
    rbind (PDF (fst cand) (snd cand) s) (fun fc => rbind (PDF (fst x) (snd x) (snd fc)) (fun fx =>
      Ok (nmin Ops c1 (fst fc / fst fx)%nst, snd fx)))
  else Ok (c0, s).
Fixpoint metro2_loop_st (fuel : nat) (PDF : sfun2) (s1 s2 : T) (dom : option (T * T * T * T)) (burn thin imax : Z)
    (s : st) (i : Z) (x : T * T) (acc : list (T * T)) : res (list (T * T) * st) :=
  if i <? imax then
    match fuel with
    | O => Fuel
    | S fuel' =>
        rbind (draw s) (fun us1 =>
        rbind (gauss_of Ops (fst us1) (fst x) s1) (fun ca =>
        rbind (draw (snd us1)) (fun us2 =>
        rbind (gauss_of Ops (fst us2) (snd x) s2) (fun cb =>
          let cand := (ca, cb) in
          rbind (accept2_st PDF dom x cand (snd us2)) (fun as3 =>
          rbind (draw (snd as3)) (fun us4 =>
            let x' := if nltb Ops (unif Ops (fst us4) c0 c1) (fst as3) then cand else x in
            let acc' := if metro_keep burn thin i then x' :: acc else acc in
            metro2_loop_st fuel' PDF s1 s2 dom burn thin imax (snd us4) (i + 1) x' acc'))))))
    end
  else Ok (rev acc, s).
Definition sample_metropolis_2d_st (PDF : sfun2) (s1 s2 : T) (sample thin burn : Z) (domain : list T) (s : st)
  : res (list (T * T) * st) :=
  let imax := metro_imax burn thin sample in
  let fuel := S (length (fst s)) in
  match domain with
  | [] =>
      rbind (draw s) (fun us1 => rbind (gauss_of Ops (fst us1) c0 s1) (fun a =>
      rbind (draw (snd us1)) (fun us2 => rbind (gauss_of Ops (fst us2) c0 s2) (fun b =>
        metro2_loop_st fuel PDF s1 s2 None burn thin imax (snd us2) 0 (a, b) []))))
  | [x0; x1; y0; y1] =>
      rbind (draw s) (fun us1 => rbind (draw (snd us1)) (fun us2 =>
        metro2_loop_st fuel PDF s1 s2 (Some (x0, x1, y0, y1)) burn thin imax (snd us2) 0
          (unif Ops (fst us1) x0 x1, unif Ops (fst us2) y0 y1) []))
  | _ => Exit
  end.
End ModelSt.
